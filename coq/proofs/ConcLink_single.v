(* ConcLink_single.v - the single-file part of the rounds link: Protocol.compile_calls true pack (pushes with a token
   block at every pack boundary, priorities assigned by `push`) corresponds to Determinism.singlefile_script under the
   current rule (tokens carry the pre-decrement priority, next_priority lowered at pack boundaries); hence
   terminating_and_deterministic for single-file mode. *)
From Coq Require Import List Permutation Sorted Lia ZifyBool ZifyN ZifyNat Bool Arith NArith ZArith.
From Ragc Require Import Protocol Protocol_base Protocol_inv Protocol_steps Protocol_live.
From Ragc Require Import Determinism Determinism_base Determinism_pipe Determinism_proto Determinism_gen
  Determinism_proofs.
From Ragc Require Import ConcLinkR ConcLink_rounds.
Import ListNotations.
Arguments N.add : simpl never.
Arguments N.modulo : simpl never.
Arguments Z.add : simpl never.
Arguments Z.sub : simpl never.
Arguments wrap_i32 : simpl never.

(* every priority handed out so far is above next_priority and inside i32 *)
Definition PI (st : pstate) : Prop :=
  (forall k v, prio_get k (ps_prios st) = Some v -> (ps_next st < v <= i32_max)%Z) /\ (ps_next st <= i32_max)%Z.

Lemma prio_get_set_inv : forall k s p m v,
  prio_get k (prio_set s p m) = Some v -> (k = s /\ v = p) \/ (k <> s /\ prio_get k m = Some v).
Proof.
  intros k s p m v. destruct (N.eq_dec k s) as [->|ne].
  - rewrite prio_get_set_same. intros H; inversion H; auto.
  - rewrite prio_get_set_other by auto. auto.
Qed.

Lemma tok_rule0 : (pr_tok_rule current_rule =? 0)%N = true.
Proof. reflexivity. Qed.

Lemma compile_push_one : forall pack n st inp calls,
  PI st -> (i32_min + 2 <= ps_next st)%Z ->
  exists cmds,
    compile_go true pack (push_call inp :: calls) (ps_prios st) (ps_next st) (ps_seq st) (ps_count st)
    = cmds ++ compile_go true pack calls (ps_prios (fst (push_one current_rule true pack n st inp)))
                (ps_next (fst (push_one current_rule true pack n st inp)))
                (ps_seq (fst (push_one current_rule true pack n st inp)))
                (ps_count (fst (push_one current_rule true pack n st inp))) /\
    flat_map (ops_of_cmd n) cmds = pops (snd (push_one current_rule true pack n st inp)) /\
    (list_sum (map blocks_of_cmd cmds) + ps_rnd st = ps_rnd (fst (push_one current_rule true pack n st inp)))%nat /\
    PI (fst (push_one current_rule true pack n st inp)) /\
    (ps_next st - 2 <= ps_next (fst (push_one current_rule true pack n st inp)) <= ps_next st)%Z /\
    ~ In PClose (snd (push_one current_rule true pack n st inp)).
Proof.
  intros pack n st inp calls (PM & PN) B. unfold i32_min, i32_max in *.
  cbn [compile_go push_call]. rewrite lookupZ_prio_get. unfold push_one.
  rewrite current_rule_low, tok_rule0.
  set (smp := fst (fst (fst inp))). set (sz := snd inp).
  destruct (prio_get smp (ps_prios st)) as [p|] eqn:EG;
    destruct ((ps_count st + 1) mod pack =? 0)%N eqn:SY; cbn [andb fst snd].
  - (* known sample, pack boundary *)
    pose proof (PM _ _ EG) as Hp. unfold i32_max in Hp.
    rewrite (wrap_i32_id (p - 1)) by (unfold i32_min, i32_max; lia).
    rewrite (wrap_i32_id (p - 1 - 1)) by (unfold i32_min, i32_max; lia).
    rewrite setZ_prio_set.
    exists [TokenBlock p (ps_seq st); Contig sz (p - 1) (ps_seq st)].
    cbn [fst snd ps_prios ps_next ps_seq ps_count ps_rnd]. split; [reflexivity|]. split.
    { cbn [flat_map ops_of_cmd app]. rewrite pops_app, pops_repeat_push, ?app_nil_r. reflexivity. }
    split; [cbn; lia|].
    destruct (Z.leb_spec (p - 1) (ps_next st)) as [L|L]; cbv iota.
    + split; [|split; [lia|]].
      * split; [|cbn [ps_next]; unfold i32_max; lia]. cbn [ps_prios ps_next]. unfold i32_max. intros k v H. apply prio_get_set_inv in H.
        destruct H as [(-> & ->)|(_ & H)]; [lia|]. specialize (PM _ _ H). unfold i32_max in PM. lia.
      * intros I. apply in_app_or in I. destruct I as [I|[I|[]]]; [apply repeat_spec in I|]; discriminate.
    + split; [|split; [lia|]].
      * split; [|cbn [ps_next]; unfold i32_max; lia]. cbn [ps_prios ps_next]. unfold i32_max. intros k v H. apply prio_get_set_inv in H.
        destruct H as [(-> & ->)|(_ & H)]; [lia|]. specialize (PM _ _ H). unfold i32_max in PM. lia.
      * intros I. apply in_app_or in I. destruct I as [I|[I|[]]]; [apply repeat_spec in I|]; discriminate.
  - (* known sample, no boundary *)
    exists [Contig sz p (ps_seq st)].
    cbn [fst snd ps_prios ps_next ps_seq ps_count ps_rnd]. split; [reflexivity|]. split; [reflexivity|].
    split; [cbn; lia|]. split; [split; assumption|]. split; [lia|]. intros [I|[]]. discriminate.
  - (* new sample, pack boundary *)
    rewrite (wrap_i32_id (ps_next st - 1)) by (unfold i32_min, i32_max; lia).
    rewrite (wrap_i32_id (ps_next st - 1 - 1)) by (unfold i32_min, i32_max; lia).
    rewrite !setZ_prio_set. rewrite Z.leb_refl.
    exists [TokenBlock (ps_next st) (ps_seq st); Contig sz (ps_next st - 1) (ps_seq st)].
    cbn [fst snd ps_prios ps_next ps_seq ps_count ps_rnd]. split; [reflexivity|]. split.
    { cbn [flat_map ops_of_cmd app]. rewrite pops_app, pops_repeat_push, ?app_nil_r. reflexivity. }
    split; [cbn; lia|]. split; [|split; [lia|]].
    + split; [|cbn [ps_next]; unfold i32_max; lia]. cbn [ps_prios ps_next]. unfold i32_max. intros k v H. apply prio_get_set_inv in H.
      destruct H as [(-> & ->)|(ne & H)]; [lia|]. apply prio_get_set_inv in H.
      destruct H as [(-> & ->)|(_ & H)]; [lia|]. specialize (PM _ _ H). unfold i32_max in PM. lia.
    + intros I. apply in_app_or in I. destruct I as [I|[I|[]]]; [apply repeat_spec in I|]; discriminate.
  - (* new sample, no boundary *)
    rewrite (wrap_i32_id (ps_next st - 1)) by (unfold i32_min, i32_max; lia).
    rewrite setZ_prio_set.
    exists [Contig sz (ps_next st) (ps_seq st)].
    cbn [fst snd ps_prios ps_next ps_seq ps_count ps_rnd]. split; [reflexivity|]. split; [reflexivity|].
    split; [cbn; lia|]. split; [|split; [lia|]].
    + split; [|cbn [ps_next]; unfold i32_max; lia]. cbn [ps_prios ps_next]. unfold i32_max. intros k v H. apply prio_get_set_inv in H.
      destruct H as [(-> & ->)|(_ & H)]; [lia|]. specialize (PM _ _ H). unfold i32_max in PM. lia.
    + intros [I|[]]. discriminate.
Qed.

Lemma compile_push_all_sf : forall pack n l st calls,
  PI st -> (i32_min + 2 * Z.of_nat (length l) <= ps_next st)%Z ->
  let st' := fst (push_all current_rule true pack n st l) in
  (exists cmds,
     compile_go true pack (map push_call l ++ calls) (ps_prios st) (ps_next st) (ps_seq st) (ps_count st)
     = cmds ++ compile_go true pack calls (ps_prios st') (ps_next st') (ps_seq st') (ps_count st') /\
     flat_map (ops_of_cmd n) cmds = pops (snd (push_all current_rule true pack n st l)) /\
     (list_sum (map blocks_of_cmd cmds) + ps_rnd st = ps_rnd st')%nat) /\
  PI st' /\ (ps_next st - 2 * Z.of_nat (length l) <= ps_next st' <= ps_next st)%Z /\
  ~ In PClose (snd (push_all current_rule true pack n st l)).
Proof.
  intros pack n l. induction l as [|inp l IH]; intros st calls P B; cbv zeta.
  - cbn [map app push_all fst snd length]. split; [exists []; repeat split; reflexivity|].
    split; [exact P|]. split; [cbn [Z.of_nat]; lia|intros []].
  - cbn [length] in B. rewrite Nat2Z.inj_succ in B.
    cbn [map app push_all fst snd].
    destruct (compile_push_one pack n st inp (map push_call l ++ calls) P ltac:(lia))
      as (c1 & E1 & F1 & R1 & P1 & B1 & NC1).
    set (s1 := fst (push_one current_rule true pack n st inp)) in *.
    destruct (IH s1 calls P1 ltac:(lia)) as ((c2 & E2 & F2 & R2) & P2 & B2 & NC2). cbv zeta in *.
    split; [|split; [exact P2|split]].
    + exists (c1 ++ c2). split; [|split].
      * rewrite E1, E2, app_assoc. reflexivity.
      * rewrite flat_map_app, F1, F2, pops_app. reflexivity.
      * rewrite map_app, list_sum_app. lia.
    + cbn [length]. rewrite Nat2Z.inj_succ. lia.
    + intros I. apply in_app_or in I. destruct I; contradiction.
Qed.

Lemma PI_init : PI pstate0.
Proof. split; [intros k v H; discriminate|]. cbn [pstate0 ps_next]. rewrite prio_start_val. unfold i32_max. lia. Qed.

(* GOAL: the two single-file scripts correspond, and the numbers of rounds agree *)
Theorem singlefile_match_proof : forall n pack ref rest,
  (2 * Z.of_nat (length (ref ++ rest)) + 4 < det_prio_start - 1000000)%Z ->
  script_match n (compile_calls true pack (sf_calls ref rest)) (singlefile_script current_rule n pack ref rest) /\
  nblocks (compile_calls true pack (sf_calls ref rest)) = sf_rounds n pack ref rest.
Proof.
  intros n pack ref rest Hb. rewrite app_length, Nat2Z.inj_add in Hb. pose proof prio_start_val as PV.
  set (a := push_all current_rule true pack n pstate0 ref).
  set (c := push_all current_rule true pack n (fst a) rest).
  set (mid := match rest with [] => [] | _ :: _ => [CDrain] end).
  destruct (compile_push_all_sf pack n ref pstate0 (mid ++ map push_call rest) PI_init)
    as ((c1 & E1 & F1 & R1) & P1 & B1 & NC1).
  { change (ps_next pstate0) with det_prio_start. unfold i32_min. lia. }
  cbv zeta in *. fold a in E1, F1, R1, P1, B1, NC1. change (ps_next pstate0) with det_prio_start in B1.
  destruct (compile_push_all_sf pack n rest (fst a) [] P1) as ((c2 & E2 & F2 & R2) & P2 & B2 & NC2).
  { unfold i32_min. lia. }
  cbv zeta in *. fold c in E2, F2, R2, P2, B2, NC2. rewrite app_nil_r in E2. cbn [compile_go] in E2. rewrite app_nil_r in E2.
  assert (EC : compile_calls true pack (sf_calls ref rest)
               = c1 ++ (match rest with [] => [] | _ :: _ => [Drain] end) ++ c2).
  { unfold compile_calls, sf_calls. fold mid.
    change (@nil (N * Z)) with (ps_prios pstate0) at 1.
    change first_priority with (ps_next pstate0). change 0%N with (ps_seq pstate0) at 1.
    change 0%N with (ps_count pstate0) at 1. rewrite E1. f_equal.
    unfold mid. destruct rest as [|r0 rest0]; [cbn [app map] in *; rewrite E2; reflexivity|].
    cbn [app compile_go]. f_equal. exact E2. }
  split.
  - exists (snd a ++ (match rest with [] => [] | _ => [PWaitEmpty] end) ++ snd c ++ final_block n (fst c)).
    split; [|split].
    + change (singlefile_script current_rule n pack ref rest)
        with (snd a ++ (match rest with [] => [] | _ => [PWaitEmpty] end) ++ snd c ++ final_block n (fst c) ++ [PClose]).
      rewrite <- !app_assoc. reflexivity.
    + intros I. apply in_app_or in I. destruct I as [I|I]; [contradiction|].
      apply in_app_or in I. destruct I as [I|I]; [destruct rest; [destruct I|destruct I as [I|[]]; discriminate]|].
      apply in_app_or in I. destruct I as [I|I]; [contradiction|apply repeat_spec in I; discriminate].
    + unfold todo_of. rewrite EC, !flat_map_app, F1, F2, !pops_app.
      unfold final_block, final_ops. rewrite pops_repeat_push.
      assert (EM : flat_map (ops_of_cmd n) (match rest with [] => [] | _ :: _ => [Drain] end)
                   = pops (match rest with [] => [] | _ => [PWaitEmpty] end)) by (destruct rest; reflexivity).
      rewrite EM, <- !app_assoc. reflexivity.
  - unfold nblocks, sf_rounds. fold a. fold c. rewrite EC, !map_app, !list_sum_app.
    assert (EM : list_sum (map blocks_of_cmd (match rest with [] => [] | _ :: _ => [Drain] end)) = 0%nat)
      by (destruct rest; reflexivity).
    rewrite EM. change (ps_rnd pstate0) with 0%nat in R1. lia.
Qed.

Section LinkSingle.
  Variables G Buf Res Part : Type.
  Variable segment : Determinism.contig -> list N.
  Variable classify : G -> list (skey * N) -> G * list Buf.
  Variable flushf : Buf -> Buf * list (N * Part) * Res.
  Variable res_gid : Res -> N.
  Variable commit : G -> list Res -> list Buf -> G.
  Variable fin_seq : G -> G * list (N * Part).
  Variable fin_packs : G -> list (N * Part).
  Variable meta_parts : G -> list (N * Part).
  Hypothesis classify_streams_disjoint :
    forall g l, streams_disjoint Buf Res Part (map flushf (snd (classify g l))).
  Hypothesis fin_packs_distinct_streams : forall g, NoDup (map fst (fin_packs g)).
  Notation out := (output G Buf Res Part segment classify flushf res_gid commit fin_seq fin_packs meta_parts).

  Theorem terminating_and_deterministic_singlefile_proof : forall n n' capa capa' pack ref rest,
    0 < n -> 0 < n' -> contiguous [] (ref ++ rest) ->
    (2 * Z.of_nat (length (ref ++ rest)) + 4 < det_prio_start - 1000000)%Z ->
    NoDup (map (fun inp : input => fst (fst inp)) (ref ++ rest)) ->
    let script := compile_calls true pack (sf_calls ref rest) in
    let pa := mkParams n capa false in
    let pa' := mkParams n' capa' false in
    let sc := singlefile_script current_rule n pack ref rest in
    let sc' := singlefile_script current_rule n' pack ref rest in
    (forall s, reachable pa script s -> ends_final pa s) /\
    (forall s', reachable pa' script s' -> ends_final pa' s') /\
    (forall s s' cl cl' s3 s3' g0,
       reachable pa script s -> final s -> reachable pa' script s' -> final s' ->
       out g0 (attach (proto_rounds sc s) cl) s3 = out g0 (attach (proto_rounds sc' s') cl') s3').
  Proof.
    intros n n' capa capa' pack ref rest Hn Hn' Hc Hb Hk script pa pa' sc sc'.
    split; [|split].
    - intros s RS. apply (run_reaches_final_proof pa script eq_refl Hn s RS).
    - intros s RS. apply (run_reaches_final_proof pa' script eq_refl Hn' s RS).
    - intros s s' cl cl' s3 s3' g0 RS F RS' F'.
      pose proof (singlefile_wf n pack ref rest Hn Hc Hb) as WF.
      pose proof (singlefile_wf n' pack ref rest Hn' Hc Hb) as WF'.
      destruct (singlefile_match_proof n pack ref rest Hb) as (SM & NB).
      destruct (singlefile_match_proof n' pack ref rest Hb) as (SM' & NB').
      destruct (rounds_link_proof pa script sc _ eq_refl Hn SM WF s RS) as (F2 & FL).
      destruct (rounds_link_proof pa' script sc' _ eq_refl Hn' SM' WF' s' RS') as (F2' & FL').
      specialize (FL F). specialize (FL' F'). fold script in NB, NB'.
      rewrite NB in FL. rewrite NB' in FL'. rewrite FL in F2. rewrite FL' in F2'.
      rewrite <- (sf_rounds_indep n n') in F2'.
      destruct (singlefile_ctg_indep current_rule n n' pack ref rest) as [E1 E2].
      pose proof (expected_round_same_ctg _ _ E1) as HE.
      apply schedule_independent_proof; [exact classify_streams_disjoint|exact fin_packs_distinct_streams|].
      unfold attach. apply attach_same.
      + unfold proto_rounds.
        apply (f2_join_map sc sc' (expected_round sc)) with (ks := seq 0 (sf_rounds n pack ref rest)).
        * intros k. rewrite expected_round_ctg. apply nodup_map_filter. fold sc in E2. rewrite E2. exact Hk.
        * exact F2.
        * eapply forall2_impl; [|exact F2']. intros seqs k HH. cbn beta in *. rewrite HE. exact HH.
      + rewrite app_length, repeat_length. lia.
      + rewrite app_length, repeat_length. lia.
  Qed.
End LinkSingle.
