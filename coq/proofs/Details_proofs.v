(* Details_proofs.v - the 5-stream descriptor codec gives back every table whose in-group ids are below
   2^31-1 (or the hole filler); invariant: encoder and decoder walk through the same predictor tables. *)
From Ragc Require Import Mach Consts_collection CVarint Zigzag Names Details CVarint_proofs Zigzag_proofs Names_proofs.
Require Import Lia ZifyBool ZifyN ZifyNat.
Open Scope N_scope.
Arguments N.add : simpl never.
Arguments N.sub : simpl never.
Arguments N.mul : simpl never.
Arguments N.land : simpl never.
Arguments N.min : simpl never.
Arguments N.modulo : simpl never.
Arguments N.div : simpl never.
Arguments Z.add : simpl never.
Arguments Z.sub : simpl never.

Definition seg_ok (s : seg) : Prop :=
  (sg s < 4294967295 /\ si s < 2147483647 /\ sl s < 4294967296) \/ s = seg_empty.
Definition item_ok (x : item) : Prop :=
  i_g x < 4294967296 /\ i_e x < 4294967296 /\ i_l x < 4294967296 /\ i_r x < 4294967296.

(* the predictor tables reachable on the domain: entries are -1 or in 1..2^31-2; group u32::MAX is never set *)
Definition tinv (t : ptable) : Prop :=
  (forall g, pget t g = (-1)%Z \/ (1 <= pget t g < 2147483647)%Z) /\ pget t 4294967295 = (-1)%Z.

Lemma tinv_nil : tinv [].
Proof. split; [intro g; left; reflexivity | reflexivity]. Qed.

Lemma pget_pset t g v g' : pget (pset t g v) g' = if g =? g' then v else pget t g'.
Proof. reflexivity. Qed.

Lemma oadd_ok a b : (i32_min <= a + b <= i32_max)%Z -> oadd_i32 a b = Ok (a + b)%Z.
Proof.
  intro H. unfold oadd_i32, add_i32, in_i32.
  replace (i32_min <=? a + b)%Z with true by (symmetry; apply Z.leb_le; lia).
  replace (a + b <=? i32_max)%Z with true by (symmetry; apply Z.leb_le; lia). reflexivity.
Qed.

Lemma zz_plus1_bound x p : x < 2147483647 -> 1 <= p <= 2147483647 -> zz x p + 1 < 4294967296.
Proof. intros. unfold zz. destruct (N.ltb_spec x p); [lia|]. destruct (N.ltb_spec x (2 * p)); lia. Qed.

Lemma u32_as_i32_small id : id < 2147483648 -> u32_as_i32 id = Z.of_N id.
Proof. intro H. unfold u32_as_i32. replace (id <? 2147483648) with true by (symmetry; apply N.ltb_lt; exact H). reflexivity. Qed.

(* ---- the in-group id *)
Lemma in_roundtrip prev id :
  (prev = (-1)%Z \/ (1 <= prev < 2147483647)%Z) ->
  (id < 2147483647 \/ (id = 4294967295 /\ prev = (-1)%Z)) ->
  exists e, enc_in prev id = Ok e /\ e < 4294967296 /\ dec_in prev e = Ok id.
Proof.
  intros Hp Hid. unfold enc_in.
  destruct (Z.eqb_spec prev (-1)) as [->|Hne].
  - exists id. split; [reflexivity|]. split; [lia|]. reflexivity.
  - assert (Hp' : (1 <= prev < 2147483647)%Z) by lia.
    assert (Hid' : id < 2147483647) by lia. clear Hp Hid.
    destruct (N.eqb_spec id 0) as [->|Hz].
    + exists 0. split; [reflexivity|]. split; [lia|]. unfold dec_in.
      replace (prev =? -1)%Z with false by (symmetry; apply Z.eqb_neq; exact Hne). reflexivity.
    + rewrite oadd_ok by (unfold i32_min, i32_max; lia). cbn [obnd].
      rewrite u32_as_i32_small by lia.
      assert (H64 : i32_as_u64 (prev + 1) = Z.to_N (prev + 1)).
      { unfold i32_as_u64. replace (prev + 1 <? 0)%Z with false by (symmetry; apply Z.ltb_ge; lia). reflexivity. }
      destruct (Z.eqb_spec (Z.of_N id) (prev + 1)) as [E|E].
      * exists 1. split; [reflexivity|]. split; [lia|]. unfold dec_in.
        replace (prev =? -1)%Z with false by (symmetry; apply Z.eqb_neq; exact Hne).
        cbn [N.eqb Pos.eqb]. rewrite oadd_ok by (unfold i32_min, i32_max; lia). cbn [obnd].
        unfold i32_as_u32. replace (prev + 1 <? 0)%Z with false by (symmetry; apply Z.ltb_ge; lia).
        f_equal. lia.
      * rewrite H64. set (p1 := Z.to_N (prev + 1)).
        assert (Hp1 : 2 <= p1 <= 2147483647) by (subst p1; lia).
        rewrite zigzag_encode_spec by (unfold two63; lia). cbn [obnd].
        pose proof (zz_plus1_bound id p1 Hid' ltac:(lia)) as Hb.
        rewrite wrap32_small by lia.
        unfold add_u32, two32. replace (zz id p1 + 1 <? 4294967296) with true by (symmetry; apply N.ltb_lt; exact Hb).
        cbn [ou32]. exists (zz id p1 + 1). split; [reflexivity|]. split; [exact Hb|].
        assert (Hnz : zz id p1 <> 0) by (intro Z0; apply (proj1 (zz_zero_iff id p1)) in Z0; subst p1; lia).
        unfold dec_in.
        replace (prev =? -1)%Z with false by (symmetry; apply Z.eqb_neq; exact Hne).
        replace (zz id p1 + 1 =? 0) with false by (symmetry; apply N.eqb_neq; lia).
        replace (zz id p1 + 1 =? 1) with false by (symmetry; apply N.eqb_neq; lia).
        rewrite oadd_ok by (unfold i32_min, i32_max; lia). cbn [obnd]. rewrite H64. fold p1.
        replace (zz id p1 + 1 - 1) with (zz id p1) by lia.
        rewrite zigzag_decode_zz by (unfold two63; lia). cbn [obnd].
        rewrite wrap32_small by lia. reflexivity.
Qed.

(* ---- the raw length *)
Lemma len_roundtrip pred l :
  pred <= 2147483648 -> l < 4294967296 ->
  exists e, enc_len pred l = Ok e /\ e < 4294967296 /\ dec_len pred e = Ok l.
Proof.
  intros Hp Hl. unfold enc_len, dec_len.
  rewrite zigzag_encode_spec by (unfold two63; lia). cbn [obnd].
  pose proof (zz_bound32 l pred Hl Hp) as Hb. rewrite wrap32_small by exact Hb.
  exists (zz l pred). split; [reflexivity|]. split; [exact Hb|].
  rewrite zigzag_decode_zz by (unfold two63; lia). cbn [obnd]. rewrite wrap32_small by exact Hl. reflexivity.
Qed.

(* ---- one segment: encoder and decoder move to the same table *)
Lemma pupd_inv t g id prev :
  tinv t -> prev = pget t g ->
  ((g < 4294967295 /\ id < 2147483647) \/ (g = 4294967295 /\ id = 4294967295)) ->
  tinv (pupd t g id prev).
Proof.
  intros [Hall Hmax] -> Hs. unfold pupd.
  destruct Hs as [[Hg Hid]|[-> ->]].
  - rewrite u32_as_i32_small by lia.
    destruct ((pget t g <? Z.of_N id)%Z && (0 <? id)) eqn:E; [|split; assumption].
    apply andb_true_iff in E. destruct E as [_ E2]. apply N.ltb_lt in E2.
    split.
    + intro g'. rewrite pget_pset. destruct (g =? g'); [right; lia | apply Hall].
    + rewrite pget_pset. replace (g =? 4294967295) with false by (symmetry; apply N.eqb_neq; lia). exact Hmax.
  - rewrite Hmax. replace (u32_as_i32 4294967295) with (-1)%Z by reflexivity.
    cbn [Z.ltb Z.compare Pos.compare Pos.compare_cont andb CompOpp]. split; assumption.
Qed.

Lemma seg_roundtrip pred t s :
  pred <= 2147483648 -> tinv t -> seg_ok s ->
  exists it t', enc_seg pred t s = Ok (it, t') /\ item_ok it /\ tinv t' /\ dec_item pred t it = Ok (s, t').
Proof.
  intros Hp Ht Hs. pose proof Ht as [Hall Hmax].
  assert (Hin : exists e, enc_in (pget t (sg s)) (si s) = Ok e /\ e < 4294967296 /\ dec_in (pget t (sg s)) e = Ok (si s)).
  { apply in_roundtrip; [apply Hall|]. destruct Hs as [[_ [H _]]| ->]; [left; exact H|].
    right. unfold seg_empty, seg_empty_in_group, seg_empty_group. cbn [si sg]. split; [reflexivity | exact Hmax]. }
  assert (Hlen : sl s < 4294967296).
  { destruct Hs as [[_ [_ H]]| ->]; [exact H|]. unfold seg_empty, seg_empty_len. cbn [sl]. lia. }
  assert (Hg : sg s < 4294967296).
  { destruct Hs as [[H _]| ->]; [lia|]. unfold seg_empty, seg_empty_group. cbn [sg]. lia. }
  destruct Hin as [e [He1 [He2 He3]]].
  destruct (len_roundtrip pred (sl s) Hp Hlen) as [l [Hl1 [Hl2 Hl3]]].
  unfold enc_seg. rewrite He1. cbn [obnd]. rewrite Hl1. cbn [obnd].
  eexists. eexists. split; [reflexivity|]. split; [|split].
  - unfold item_ok, i_g, i_e, i_l, i_r. cbn [fst snd]. repeat split; try assumption. destruct (src s); lia.
  - apply pupd_inv; [exact Ht | reflexivity|].
    destruct Hs as [[H1 [H2 _]]| ->]; [left; split; assumption | right; split; reflexivity].
  - unfold dec_item, i_g, i_e, i_l, i_r. cbn [fst snd]. rewrite He3. cbn [obnd]. rewrite Hl3. cbn [obnd].
    destruct s as [g i r l']. cbn [sg si src sl]. destruct r; reflexivity.
Qed.

(* ---- lists of segments, contigs, samples *)
Lemma segs_roundtrip pred : forall ss t,
  pred <= 2147483648 -> tinv t -> Forall seg_ok ss ->
  exists its t', enc_segs pred t ss = Ok (its, t') /\ length its = length ss /\ Forall item_ok its /\ tinv t' /\
    forall rest, dec_segs pred t (length ss) (its ++ rest) = Ok (ss, t', rest).
Proof.
  induction ss as [|s ss IH]; intros t Hp Ht Hs.
  - exists [], t. split; [reflexivity|]. split; [reflexivity|]. split; [constructor|]. split; [assumption|].
    intro rest; reflexivity.
  - inversion Hs as [|? ? Hs1 Hs2]; subst.
    destruct (seg_roundtrip pred t s Hp Ht Hs1) as [it [t1 [E1 [I1 [T1 D1]]]]].
    destruct (IH t1 Hp T1 Hs2) as [its [t2 [E2 [L2 [I2 [T2 D2]]]]]].
    exists (it :: its), t2. cbn [enc_segs]. rewrite E1. cbn [obnd fst snd]. rewrite E2. cbn [obnd fst snd].
    split; [reflexivity|]. split; [cbn [length]; lia|]. split; [constructor; assumption|]. split; [exact T2|].
    intro rest. cbn [length dec_segs app]. rewrite D1. cbn [obnd fst snd]. rewrite D2. reflexivity.
Qed.

Definition contig_ok (c : list seg) : Prop := Forall seg_ok c /\ lenN c < 4294967296.
Definition sample_ok_d (s : list (list seg)) : Prop := Forall contig_ok s /\ lenN s < 4294967296.

Lemma contigs_roundtrip_d pred : forall cs t,
  pred <= 2147483648 -> tinv t -> Forall contig_ok cs ->
  exists e t', enc_contigs pred t cs = Ok (e, t') /\ map (@length _) e = map (@length _) cs /\
    Forall (Forall item_ok) e /\ tinv t' /\
    forall rest, dec_contigs_d pred t (map lenN e) (concat e ++ rest) = Ok (cs, t', rest).
Proof.
  induction cs as [|c cs IH]; intros t Hp Ht Hc.
  - exists [], t. split; [reflexivity|]. split; [reflexivity|]. split; [constructor|]. split; [assumption|].
    intro rest; reflexivity.
  - inversion Hc as [|? ? [Hc1 _] Hc2]; subst.
    destruct (segs_roundtrip pred c t Hp Ht Hc1) as [its [t1 [E1 [L1 [I1 [T1 D1]]]]]].
    destruct (IH t1 Hp T1 Hc2) as [e [t2 [E2 [L2 [I2 [T2 D2]]]]]].
    exists (its :: e), t2. cbn [enc_contigs]. rewrite E1. cbn [obnd fst snd]. rewrite E2. cbn [obnd fst snd].
    split; [reflexivity|]. split; [cbn [map]; congruence|]. split; [constructor; assumption|]. split; [exact T2|].
    intro rest. cbn [map concat dec_contigs_d]. rewrite to_nat_lenN, L1, <- app_assoc, D1.
    cbn [obnd fst snd]. rewrite D2. reflexivity.
Qed.

Lemma samples_roundtrip_d pred : forall ss t,
  pred <= 2147483648 -> tinv t -> Forall sample_ok_d ss ->
  exists e t', enc_samples pred t ss = Ok (e, t') /\ map (map (@length _)) e = map (map (@length _)) ss /\
    Forall (Forall (Forall item_ok)) e /\ tinv t' /\
    forall rest, dec_samples_d pred t (map (map lenN) e) (flat_items e ++ rest) = Ok (ss, t', rest).
Proof.
  induction ss as [|s ss IH]; intros t Hp Ht Hs.
  - exists [], t. split; [reflexivity|]. split; [reflexivity|]. split; [constructor|]. split; [assumption|].
    intro rest; reflexivity.
  - inversion Hs as [|? ? [Hs1 _] Hs2]; subst.
    destruct (contigs_roundtrip_d pred s t Hp Ht Hs1) as [e1 [t1 [E1 [L1 [I1 [T1 D1]]]]]].
    destruct (IH t1 Hp T1 Hs2) as [e [t2 [E2 [L2 [I2 [T2 D2]]]]]].
    exists (e1 :: e), t2. cbn [enc_samples]. rewrite E1. cbn [obnd fst snd]. rewrite E2. cbn [obnd fst snd].
    split; [reflexivity|]. split; [cbn [map]; congruence|]. split; [constructor; assumption|]. split; [exact T2|].
    intro rest. unfold flat_items in *. cbn [map concat dec_samples_d]. rewrite concat_app, <- app_assoc, D1.
    cbn [obnd fst snd]. rewrite D2. reflexivity.
Qed.

(* ---- stream 0 *)
Lemma lenN_of_length {A B} (a : list A) (b : list B) : length a = length b -> lenN a = lenN b.
Proof. unfold lenN. congruence. Qed.

Lemma str0_contigs_eq (s : list (list item)) :
  Forall (fun c => lenN c < 4294967296) s -> concat (map str0_contig s) = concat (map cv_encode (map lenN s)).
Proof.
  induction 1 as [|c s Hc _ IH]; [reflexivity|].
  cbn [map concat]. rewrite IH. unfold str0_contig, cvlen. rewrite wrap32_small by exact Hc. reflexivity.
Qed.

Definition shape_ok (e : list (list (list item))) : Prop :=
  Forall (fun s => Forall (fun c => lenN c < 4294967296) s /\ lenN s < 4294967296) e.

Lemma structure_roundtrip e : forall rest,
  shape_ok e -> dec_structure (length e) (concat (map str0_sample e) ++ rest) = Ok (map (map lenN) e, rest).
Proof.
  induction e as [|s e IH]; intros rest H; [reflexivity|].
  inversion H as [|? ? [Hc Hs] He]; subst.
  cbn [length map concat dec_structure]. unfold str0_sample at 1, cvlen. rewrite wrap32_small by exact Hs.
  rewrite <- !app_assoc. rewrite cvarint_roundtrip_proof by exact Hs. cbn [obnd fst snd].
  rewrite str0_contigs_eq by exact Hc.
  rewrite clamp_id.
  2:{ rewrite lenN_app. pose proof (concat_cv_len (map lenN s)) as H0. rewrite map_length in H0. unfold lenN in *. lia. }
  rewrite to_nat_lenN. rewrite <- (map_length lenN s).
  rewrite cv_decode_n_roundtrip.
  2:{ rewrite Forall_map. exact Hc. }
  cbn [obnd fst snd]. rewrite IH by exact He. reflexivity.
Qed.

Lemma sumN_cons x l : sumN (x :: l) = x + sumN l.
Proof. reflexivity. Qed.
Lemma sum_lens (s : list (list item)) : sumN (map lenN s) = lenN (concat s).
Proof.
  induction s as [|c s IH]; [reflexivity|]. cbn [map concat]. rewrite sumN_cons, lenN_app, IH. reflexivity.
Qed.
Lemma sum_structure (e : list (list (list item))) : sumN (map sumN (map (map lenN) e)) = lenN (flat_items e).
Proof.
  unfold flat_items. induction e as [|s e IH]; [reflexivity|].
  cbn [map concat]. rewrite sumN_cons, IH, sum_lens, concat_app, lenN_app. reflexivity.
Qed.

Lemma zip4_items fl : zip4 (map i_g fl) (map i_e fl) (map i_l fl) (map i_r fl) = fl.
Proof.
  induction fl as [|[[[g e] l] r] fl IH]; [reflexivity|].
  cbn [map zip4]. rewrite IH. reflexivity.
Qed.

Lemma stream_roundtrip (f : item -> N) fl :
  Forall (fun x => f x < 4294967296) fl ->
  cv_decode_n (clamp (lenN fl) (cvs (map f fl))) (cvs (map f fl)) = Ok (map f fl, []).
Proof.
  intro H. rewrite clamp_id.
  2:{ unfold cvs. pose proof (concat_cv_len (map f fl)). rewrite map_length in *. unfold lenN. lia. }
  rewrite to_nat_lenN. rewrite <- (map_length f fl). unfold cvs.
  rewrite <- (app_nil_r (concat (map cv_encode (map f fl)))).
  apply cv_decode_n_roundtrip. rewrite Forall_map. exact H.
Qed.

Lemma flat_forall (P : item -> Prop) e : Forall (Forall (Forall P)) e -> Forall P (flat_items e).
Proof.
  unfold flat_items. induction 1 as [|s e Hs _ IH]; [constructor|].
  cbn [concat]. rewrite concat_app. apply Forall_app. split; [|exact IH].
  clear IH. induction Hs as [|c s Hc _ IH]; [constructor|]. cbn [concat]. apply Forall_app. split; assumption.
Qed.

Lemma shape_transfer (e : list (list (list item))) (ss : list (list (list seg))) :
  map (map (@length _)) e = map (map (@length _)) ss -> Forall sample_ok_d ss -> shape_ok e /\ length e = length ss.
Proof.
  revert ss. induction e as [|s e IH]; intros [|s' ss] H Hs; try discriminate.
  - split; [constructor | reflexivity].
  - cbn [map] in H. injection H as H1 H2. inversion Hs as [|? ? [Hc Hl] Hs']; subst.
    destruct (IH ss H2 Hs') as [I1 I2]. split; [|cbn [length]; congruence].
    constructor; [|exact I1]. split.
    + clear - H1 Hc. revert s' H1 Hc. induction s as [|c s IHs]; intros [|c' s'] H1 Hc; try discriminate; [constructor|].
      cbn [map] in H1. injection H1 as A B. inversion Hc as [|? ? [_ Hcl] Hc']; subst.
      constructor; [rewrite (lenN_of_length c c' A); exact Hcl | apply (IHs s' B Hc')].
    + assert (length s = length s') by (rewrite <- (map_length (@length _) s), H1, map_length; reflexivity).
      rewrite (lenN_of_length s s' H). exact Hl.
Qed.

Theorem details_roundtrip_proof :
  forall (segment_size kmer_length : N) (batch : list (list (list seg))),
  segment_size + kmer_length <= 2147483648 ->
  lenN batch < 4294967296 ->
  Forall (fun s => Forall (fun c => Forall (fun x =>
            (sg x < 4294967295 /\ si x < 2147483647 /\ sl x < 4294967296) \/ x = seg_empty) c
            /\ lenN c < 4294967296) s /\ lenN s < 4294967296) batch ->
  exists v, ser_details segment_size kmer_length batch = Ok v /\
            deser_details segment_size kmer_length v = Ok batch.
Proof.
  intros ss k batch Hp Hlen Hb.
  assert (Hpred : add_u32 ss k = Some (ss + k)).
  { unfold add_u32, two32. replace (ss + k <? 4294967296) with true by (symmetry; apply N.ltb_lt; lia). reflexivity. }
  destruct (samples_roundtrip_d (ss + k) batch [] Hp tinv_nil Hb) as [e [t' [E [L [I [_ D]]]]]].
  destruct (shape_transfer e batch L Hb) as [Hshape Hlene].
  unfold ser_details. rewrite Hpred. cbn [ou32 obnd]. rewrite E. cbn [obnd fst snd].
  eexists. split; [reflexivity|].
  unfold deser_details. unfold cvlen at 1. rewrite wrap32_small by exact Hlen.
  rewrite cvarint_roundtrip_proof by exact Hlen. cbn [obnd fst snd].
  rewrite (lenN_of_length batch e (eq_sym Hlene)).
  rewrite clamp_id.
  2:{ clear - Hshape. assert (length e <= length (concat (map str0_sample e)))%nat; [|unfold lenN; lia].
      induction e as [|s e IH]; [cbn; lia|]. inversion Hshape; subst. cbn [map concat length]. rewrite app_length.
      unfold str0_sample at 1. rewrite app_length. pose proof (cv_encode_len (wrap32 (lenN s))). unfold cvlen.
      specialize (IH H2). lia. }
  rewrite to_nat_lenN.
  rewrite <- (app_nil_r (concat (map str0_sample e))).
  rewrite structure_roundtrip by exact Hshape. cbn [obnd fst snd].
  rewrite sum_structure.
  pose proof (flat_forall item_ok e I) as Hfl.
  rewrite (stream_roundtrip i_g) by (eapply Forall_impl; [|exact Hfl]; unfold item_ok; intros; tauto).
  cbn [obnd fst snd].
  rewrite (stream_roundtrip i_e) by (eapply Forall_impl; [|exact Hfl]; unfold item_ok; intros; tauto).
  cbn [obnd fst snd].
  rewrite (stream_roundtrip i_l) by (eapply Forall_impl; [|exact Hfl]; unfold item_ok; intros; tauto).
  cbn [obnd fst snd].
  rewrite (stream_roundtrip i_r) by (eapply Forall_impl; [|exact Hfl]; unfold item_ok; intros; tauto).
  cbn [obnd fst snd].
  rewrite Hpred. cbn [ou32 obnd]. rewrite zip4_items.
  rewrite <- (app_nil_r (flat_items e)). rewrite D. reflexivity.
Qed.
