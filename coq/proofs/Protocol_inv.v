(* Protocol_inv.v - the inductive invariant of the pipeline protocol (C05) and its preservation *)
From Coq Require Import Lia ZifyBool ZifyN ZifyNat Permutation.
From Ragc Require Import Protocol Protocol_base.
Arguments N.add : simpl never.
Arguments N.sub : simpl never.
Arguments N.mul : simpl never.
Arguments Nat.mul : simpl never.
Arguments Nat.sub : simpl never.
Open Scope nat_scope.

Fixpoint sumsz (l : list item) : N :=
  match l with [] => 0%N | i :: r => (tsize (itask i) + sumsz r)%N end.

Definition barcur (g : nat) (w : worker) : bool := match pc w with WBarW _ g' => g' =? g | _ => false end.
Definition is_wokenE (w : worker) : bool := match pc w with WWokenE => true | _ => false end.

(* stage of the current round = number of barriers of it already released *)
Definition stg (s : state) : nat := bgen s - 4 * ground s.

(* what each worker knows about the barrier generation g, the stage st and the completed rounds gr *)
Definition wfw (g st gr : nat) (w : worker) : Prop :=
  match pc w with
  | WBar k => k = st /\ wrounds w = gr
  | WBarW k g' =>
    (g' = g /\ k = st /\ wrounds w = gr) \/
    (S g' = g /\ ((S k = st /\ wrounds w = gr) \/ (k = 3 /\ st = 0 /\ S (wrounds w) = gr)))
  | WPhase k => S k = st /\ wrounds w = gr
  | _ => st = 0 /\ wrounds w = gr
  end.

Section Inv.
Variable pa : params.
Variable script : list cmd.

Record Inv (s : state) : Prop := mkInv {
  i_len : length (ws s) = nthr pa;
  i_gen : 4 * ground s <= bgen s < 4 * ground s + 4;
  i_wf : Forall (wfw (bgen s) (stg s) (ground s)) (ws s);
  i_bc : bcount s = cnt (barcur (bgen s)) (ws s) /\ bcount s < nthr pa;
  i_tok : ground s * nthr pa + nsec s + ntok_items s + ntok_todo s = nblocks script * nthr pa;
  i_wake : closed s = false -> 0 < cnt is_waitE (ws s) -> length (items s) <= cnt is_wokenE (ws s);
  i_waitf : pst s = PWaitF -> (0 < cur s)%N;
  i_cur : cur s = sumsz (items s);
  i_closed : (closed s = true <-> (pst s = PJoin \/ pst s = PDone)) /\ (closed s = true -> todo s = []);
  i_pwait : (pst s = PWaitF \/ pst s = PWokenF) -> exists t r, todo s = OPush t :: r;
  i_ex : 0 < cnt is_exited (ws s) -> closed s = true /\ items s = [];
  i_done : pst s = PDone -> cnt is_exited (ws s) = nthr pa;
  i_seq : Forall (fun it => (iseq it < nseq s)%N) (items s) /\ NoDup (map iseq (items s));
  i_ctg : Permutation (pushed s) (segd s ++ inflight (ws s) ++ qctg (items s));
  i_nctg : length (pushed s) + nctg_todo (todo s) = length (contig_sizes script)
}.

(* ------------------------------------------------------------------------------------------- init *)
Lemma list_sum_cons : forall x l, list_sum (x :: l) = x + list_sum l.
Proof. reflexivity. Qed.

Lemma ntok_todo_of : forall n sc, cnt is_tok_op (todo_of n sc) = nblocks sc * n.
Proof.
  intros n sc. unfold todo_of, nblocks, final_ops. rewrite cnt_app, cnt_repeat. cbn [is_tok_op token ttok b2n].
  assert (H : cnt is_tok_op (flat_map (ops_of_cmd n) sc) = list_sum (map blocks_of_cmd sc) * n).
  { induction sc as [|c r IH]; cbn [flat_map map cnt].
    - reflexivity.
    - rewrite cnt_app, list_sum_cons, IH.
      destruct c; cbn [ops_of_cmd blocks_of_cmd cnt is_tok_op contig token ttok b2n];
        rewrite ?cnt_app, ?cnt_repeat; cbn [cnt is_tok_op token ttok b2n]; lia. }
  rewrite H. lia.
Qed.

Lemma nctg_todo_of : forall n sc, nctg_todo (todo_of n sc) = length (contig_sizes sc).
Proof.
  intros n sc. unfold todo_of, nctg_todo, final_ops, contig_sizes. rewrite cnt_app, cnt_repeat.
  cbn [token ttok negb b2n].
  match goal with |- ?a + _ = ?b => assert (H : a = b) end.
  { induction sc as [|c r IH]; cbn [flat_map cnt length].
    - reflexivity.
    - rewrite cnt_app, app_length, IH.
      destruct c; cbn [ops_of_cmd cnt contig token ttok negb b2n length];
        rewrite ?cnt_app, ?cnt_repeat; cbn [cnt token ttok negb b2n]; lia. }
  rewrite H. lia.
Qed.

Lemma inflight_repeat : forall n r, inflight (repeat (mkW WPull r) n) = [].
Proof. induction n; intros; [reflexivity | unfold inflight in *; cbn; apply IHn]. Qed.

Lemma Forall_repeat : forall A (P : A -> Prop) x n, P x -> Forall P (repeat x n).
Proof. induction n; cbn; auto. Qed.

Lemma inv_init : 1 <= nthr pa -> Inv (init pa script).
Proof.
  intros Hn. unfold init. constructor; cbn [ws ground bgen bcount items todo closed pst cur nseq pushed segd].
  - apply repeat_length.
  - lia.
  - apply Forall_repeat. unfold wfw, stg. cbn. lia.
  - rewrite cnt_repeat. cbn. lia.
  - unfold nsec, ntok_items, ntok_todo. cbn [ws bgen items todo cnt]. rewrite cnt_repeat, ntok_todo_of. cbn. lia.
  - rewrite cnt_repeat. cbn. lia.
  - discriminate.
  - reflexivity.
  - split; [split; [discriminate | intros [H|H]; discriminate] | discriminate].
  - intros [H|H]; discriminate.
  - rewrite cnt_repeat. cbn. lia.
  - discriminate.
  - split; constructor.
  - rewrite inflight_repeat. cbn. constructor.
  - cbn [length]. rewrite nctg_todo_of. lia.
Qed.

(* changes of fields the invariant does not mention *)
Definition same_core (s s' : state) : Prop :=
  items s = items s' /\ cur s = cur s' /\ closed s = closed s' /\ nseq s = nseq s' /\ pst s = pst s' /\
  todo s = todo s' /\ ws s = ws s' /\ bcount s = bcount s' /\ bgen s = bgen s' /\ ground s = ground s' /\
  pushed s = pushed s' /\ segd s = segd s'.

Lemma inv_core : forall s s', Inv s -> same_core s s' -> Inv s'.
Proof.
  intros s s' H C. destruct s, s'. unfold same_core in C. cbn in C.
  destruct C as (? & ? & ? & ? & ? & ? & ? & ? & ? & ? & ? & ?). subst.
  destruct H. constructor; auto.
Qed.

(* ------------------------------------------------------------------------------- permutation helpers *)
Lemma cnt_perm : forall A (f : A -> bool) l l', Permutation l l' -> cnt f l = cnt f l'.
Proof. induction 1; cbn; lia. Qed.
Lemma sumsz_perm : forall l l', Permutation l l' -> sumsz l = sumsz l'.
Proof. induction 1; cbn; lia. Qed.
Lemma Forall_perm : forall A (P : A -> Prop) l l', Permutation l l' -> Forall P l -> Forall P l'.
Proof.
  intros A P l l' H F. rewrite Forall_forall in *. intros x I. apply F.
  eapply Permutation_in; [apply Permutation_sym; eauto | auto].
Qed.
Lemma qctg_perm : forall l l', Permutation l l' -> Permutation (qctg l) (qctg l').
Proof.
  unfold qctg. induction 1; cbn [filter map].
  - constructor.
  - destruct (negb (is_tok_item x)); cbn [map]; auto.
  - destruct (negb (is_tok_item x)), (negb (is_tok_item y)); cbn [map]; auto. apply perm_swap.
  - eapply perm_trans; eauto.
Qed.
Lemma qctg_cons : forall it l, qctg (it :: l) = if is_tok_item it then qctg l else iseq it :: qctg l.
Proof. intros. unfold qctg. cbn [filter]. destruct (is_tok_item it); reflexivity. Qed.

(* ------------------------------------------------------------------- steps that move one worker only *)
Lemma inv_frame : forall s i wk wk',
  Inv s -> nth_error (ws s) i = Some wk ->
  wfw (bgen s) (stg s) (ground s) wk' ->
  barcur (bgen s) wk' = barcur (bgen s) wk ->
  insec (bgen s) wk' = insec (bgen s) wk ->
  is_exited wk = false ->
  (is_exited wk' = true -> closed s = true /\ items s = []) ->
  (forall q, pc wk <> WSeg q) -> (forall q, pc wk' <> WSeg q) ->
  (closed s = false -> 0 < cnt is_waitE (upd i wk' (ws s)) ->
   length (items s) <= cnt is_wokenE (upd i wk' (ws s))) ->
  Inv (set_ws s (upd i wk' (ws s))).
Proof.
  intros s i wk wk' HI E Hwf Hbar Hsec Hex Hex' Hs Hs' Hwake.
  destruct HI. constructor; cbn [set_ws ws items cur closed nseq pst todo bcount bgen ground pushed segd]; auto.
  - rewrite upd_length. auto.
  - apply Forall_upd; auto.
  - pose proof (cnt_upd _ (barcur (bgen s)) i wk' wk _ E). rewrite Hbar in H. destruct i_bc0. split; lia.
  - unfold nsec, ntok_items, ntok_todo in *. cbn [set_ws ws items todo bgen].
    pose proof (cnt_upd _ (insec (bgen s)) i wk' wk _ E). rewrite Hsec in H. lia.
  - intros P. pose proof (cnt_upd _ is_exited i wk' wk _ E) as C. rewrite Hex in C.
    destruct (is_exited wk') eqn:X; [auto|]. cbn in C. apply i_ex0. lia.
  - intros D. specialize (i_done0 D). exfalso.
    rewrite <- i_len0 in i_done0. rewrite (cnt_full_all _ _ _ _ _ i_done0 E) in Hex. discriminate.
  - rewrite (inflight_upd_noseg _ _ _ _ E Hs Hs'). auto.
Qed.

(* ... and neither the old nor the new pc is inside not_empty.wait *)
Lemma inv_frame_quiet : forall s i wk wk',
  Inv s -> nth_error (ws s) i = Some wk ->
  wfw (bgen s) (stg s) (ground s) wk' ->
  barcur (bgen s) wk' = barcur (bgen s) wk ->
  insec (bgen s) wk' = insec (bgen s) wk ->
  is_exited wk = false -> is_exited wk' = false ->
  (forall q, pc wk <> WSeg q) -> (forall q, pc wk' <> WSeg q) ->
  is_waitE wk = false -> is_waitE wk' = false -> is_wokenE wk = false -> is_wokenE wk' = false ->
  Inv (set_ws s (upd i wk' (ws s))).
Proof.
  intros. apply inv_frame with (wk := wk); auto; try congruence.
  intros C P.
  pose proof (cnt_upd _ is_waitE i wk' wk _ H0). pose proof (cnt_upd _ is_wokenE i wk' wk _ H0).
  rewrite H8, H9 in H12. rewrite H10, H11 in H13. destruct H. cbn in *. apply i_wake0 in C; lia.
Qed.

End Inv.
