(* CVarint_proofs.v - CollectionVarInt round trip (all u32 values, arbitrary remainder), the NUL-terminated
   string helpers, and "ASCII is valid UTF-8 and untouched by from_utf8_lossy". *)
From Ragc Require Import Mach Consts_collection CVarint.
Require Import Lia ZifyBool ZifyN ZifyNat.
Ltac Zify.zify_post_hook ::= Z.div_mod_to_equations.
Open Scope N_scope.
Arguments N.add : simpl never.
Arguments N.sub : simpl never.
Arguments N.mul : simpl never.
Arguments N.shiftl : simpl never.
Arguments N.shiftr : simpl never.
Arguments N.land : simpl never.
Arguments N.div : simpl never.
Arguments N.modulo : simpl never.
Arguments N.pow : simpl never.

(* ---- a property of all 256 byte values, by computation *)
Definition all_bytes : list N := map N.of_nat (seq 0 256).
Lemma byte_forall (P : N -> bool) : forallb P all_bytes = true -> forall b, b < 256 -> P b = true.
Proof.
  intros H b Hb. rewrite forallb_forall in H. apply H.
  unfold all_bytes. replace b with (N.of_nat (N.to_nat b)) by apply N2Nat.id.
  apply in_map. apply in_seq. lia.
Qed.

Definition cls (b : N) : N :=
  if N.land b cv_mask_1 =? cv_pref_1 then 1
  else if N.land b cv_mask_2 =? cv_pref_2 then 2
  else if N.land b cv_mask_3 =? cv_pref_3 then 3
  else if N.land b cv_mask_4 =? cv_pref_4 then 4 else 5.
Definition cls_arith (b : N) : N :=
  if b <? 128 then 1 else if b <? 192 then 2 else if b <? 224 then 3 else if b <? 240 then 4 else 5.
Lemma cls_spec b : b < 256 -> cls b = cls_arith b.
Proof.
  intro H. apply N.eqb_eq.
  apply (byte_forall (fun b => cls b =? cls_arith b)); [vm_compute; reflexivity | exact H].
Qed.

Lemma cv_decode_cls first r :
  cv_decode (first :: r) =
  match cls first with
  | 1 => Ok (first - cv_pref_1, r)
  | 2 => match r with p1 :: r' => Ok (N.shiftl first 8 + p1 + cv_thr_1 - N.shiftl cv_pref_2 8, r') | _ => Err end
  | 3 => match r with p1 :: p2 :: r' =>
           Ok (N.shiftl first 16 + N.shiftl p1 8 + p2 + cv_thr_2 - N.shiftl cv_pref_3 16, r') | _ => Err end
  | 4 => match r with p1 :: p2 :: p3 :: r' =>
           Ok (N.shiftl first 24 + N.shiftl p1 16 + N.shiftl p2 8 + p3 + cv_thr_3 - N.shiftl cv_pref_4 24, r') | _ => Err end
  | _ => match r with p1 :: p2 :: p3 :: p4 :: r' =>
           match add_u32 (N.shiftl (N.shiftl (N.shiftl p1 8 + p2) 8 + p3) 8 + p4) cv_thr_4 with
           | Some v => Ok (v, r') | None => if cv5_checked then Err else Panic end
         | _ => Err end
  end.
Proof.
  unfold cv_decode, cls.
  destruct (N.land first cv_mask_1 =? cv_pref_1); [reflexivity|].
  destruct (N.land first cv_mask_2 =? cv_pref_2); [reflexivity|].
  destruct (N.land first cv_mask_3 =? cv_pref_3); [reflexivity|].
  destruct (N.land first cv_mask_4 =? cv_pref_4); reflexivity.
Qed.

Lemma shr_div a k : N.shiftr a k = a / 2 ^ k.
Proof. apply N.shiftr_div_pow2. Qed.
Lemma shl_mul a k : N.shiftl a k = a * 2 ^ k.
Proof. apply N.shiftl_mul_pow2. Qed.
Lemma land255 a : N.land a 255 = a mod 256.
Proof. change 255 with (N.ones 8). rewrite N.land_ones. reflexivity. Qed.

Ltac cv_norm :=
  repeat rewrite shr_div; repeat rewrite shl_mul; repeat rewrite land255;
  change (2 ^ 8) with 256; change (2 ^ 16) with 65536; change (2 ^ 24) with 16777216.

Theorem cvarint_roundtrip_proof :
  forall n rest, n < 4294967296 -> cv_decode (cv_encode n ++ rest) = Ok (n, rest).
Proof.
  intros n rest Hn. unfold cv_encode.
  unfold cv_thr_1, cv_thr_2, cv_thr_3, cv_thr_4, cv_pref_1, cv_pref_2, cv_pref_3, cv_pref_4, cv_pref_5.
  destruct (N.ltb_spec n 128).
  { cbn [app]. rewrite cv_decode_cls. rewrite cls_spec by lia. unfold cls_arith.
    replace (0 + n <? 128) with true by (symmetry; apply N.ltb_lt; lia).
    unfold cv_pref_1. f_equal. f_equal. lia. }
  destruct (N.ltb_spec n 16512).
  { cbn [app]. rewrite cv_decode_cls. cv_norm.
    assert (Hb : 128 + (n - 128) / 256 < 256) by lia.
    rewrite cls_spec by exact Hb. unfold cls_arith.
    replace (128 + (n - 128) / 256 <? 128) with false by (symmetry; apply N.ltb_ge; lia).
    replace (128 + (n - 128) / 256 <? 192) with true by (symmetry; apply N.ltb_lt; lia).
    unfold cv_thr_1, cv_pref_2. cv_norm. f_equal. f_equal. lia. }
  destruct (N.ltb_spec n 2113664).
  { cbn [app]. rewrite cv_decode_cls. cv_norm.
    assert (Hb : 192 + (n - 16512) / 65536 < 224) by lia.
    rewrite cls_spec by lia. unfold cls_arith.
    replace (192 + (n - 16512) / 65536 <? 128) with false by (symmetry; apply N.ltb_ge; lia).
    replace (192 + (n - 16512) / 65536 <? 192) with false by (symmetry; apply N.ltb_ge; lia).
    replace (192 + (n - 16512) / 65536 <? 224) with true by (symmetry; apply N.ltb_lt; lia).
    unfold cv_thr_2, cv_pref_3. cv_norm. f_equal. f_equal. lia. }
  destruct (N.ltb_spec n 270549120).
  { cbn [app]. rewrite cv_decode_cls. cv_norm.
    assert (Hb : 224 + (n - 2113664) / 16777216 < 240) by lia.
    rewrite cls_spec by lia. unfold cls_arith.
    replace (224 + (n - 2113664) / 16777216 <? 128) with false by (symmetry; apply N.ltb_ge; lia).
    replace (224 + (n - 2113664) / 16777216 <? 192) with false by (symmetry; apply N.ltb_ge; lia).
    replace (224 + (n - 2113664) / 16777216 <? 224) with false by (symmetry; apply N.ltb_ge; lia).
    replace (224 + (n - 2113664) / 16777216 <? 240) with true by (symmetry; apply N.ltb_lt; lia).
    unfold cv_thr_3, cv_pref_4. cv_norm. f_equal. f_equal. lia. }
  { cbn [app]. rewrite cv_decode_cls.
    replace (cls 240) with 5 by (vm_compute; reflexivity).
    cv_norm. unfold add_u32, cv_thr_4, two32.
    set (m := n - 270549120).
    assert (Hm : ((m / 16777216 mod 256 * 256 + m / 65536 mod 256) * 256 + m / 256 mod 256) * 256 + m mod 256 = m)
      by (subst m; lia).
    rewrite Hm.
    replace (m + 270549120 <? 4294967296) with true by (symmetry; apply N.ltb_lt; subst m; lia).
    f_equal. f_equal. subst m. lia. }
Qed.

(* the encoding is never empty and at most 5 bytes *)
Lemma cv_encode_len n : (1 <= length (cv_encode n) <= 5)%nat.
Proof.
  unfold cv_encode.
  destruct (n <? cv_thr_1); [cbn; lia|]. destruct (n <? cv_thr_2); [cbn; lia|].
  destruct (n <? cv_thr_3); [cbn; lia|]. destruct (n <? cv_thr_4); cbn; lia.
Qed.

(* ---- a sequence of varints *)
Lemma cv_decode_n_roundtrip vals rest :
  Forall (fun v => v < 4294967296) vals ->
  cv_decode_n (length vals) (concat (map cv_encode vals) ++ rest) = Ok (vals, rest).
Proof.
  induction 1 as [|v vals Hv _ IH]; [reflexivity|].
  cbn [length map concat cv_decode_n]. rewrite <- app_assoc.
  rewrite cvarint_roundtrip_proof by exact Hv. cbn [obnd fst snd]. rewrite IH. reflexivity.
Qed.

Lemma concat_cv_len vals : (length vals <= length (concat (map cv_encode vals)))%nat.
Proof.
  induction vals as [|v vals IH]; [cbn; lia|].
  cbn [map concat length]. rewrite app_length. pose proof (cv_encode_len v). cbn [length]. lia.
Qed.

(* ---- NUL-terminated strings *)
Lemma dec_cbytes_roundtrip s rest :
  Forall (fun b => b <> 0) s -> dec_cbytes (enc_cstring s ++ rest) = Ok (s, rest).
Proof.
  unfold enc_cstring. induction 1 as [|b s Hb _ IH]; [reflexivity|].
  cbn [app dec_cbytes]. replace (b =? 0) with false by (symmetry; apply N.eqb_neq; exact Hb).
  cbn [app] in IH. rewrite IH. reflexivity.
Qed.

(* ---- ASCII is valid UTF-8, from_utf8_lossy leaves it alone *)
Lemma utf8_scan_ascii l : Forall (fun b => b < 128) l -> utf8_scan l = (true, l).
Proof.
  induction 1 as [|b l Hb _ IH]; [reflexivity|].
  cbn [utf8_scan]. replace (b <? 128) with true by (symmetry; apply N.ltb_lt; exact Hb).
  rewrite IH. reflexivity.
Qed.
Lemma utf8_valid_ascii l : Forall (fun b => b < 128) l -> utf8_valid l = true.
Proof. intro H. unfold utf8_valid. rewrite utf8_scan_ascii by exact H. reflexivity. Qed.
Lemma utf8_lossy_ascii l : Forall (fun b => b < 128) l -> utf8_lossy l = l.
Proof. intro H. unfold utf8_lossy. rewrite utf8_scan_ascii by exact H. reflexivity. Qed.

Lemma dec_cstring_roundtrip s rest :
  Forall (fun b => 1 <= b < 128) s -> dec_cstring (enc_cstring s ++ rest) = Ok (s, rest).
Proof.
  intro H. unfold dec_cstring. rewrite dec_cbytes_roundtrip.
  - cbn [obnd fst]. rewrite utf8_valid_ascii; [reflexivity|].
    eapply Forall_impl; [|exact H]. cbn. intros; lia.
  - eapply Forall_impl; [|exact H]. cbn. intros; lia.
Qed.
