(* AgcV3_proofs.v - C02B: the whole-archive spec decoder (spec/AgcV3.v) is the composition of the proved component
   models, and decodes every archive whose abstract content is what the model writers produce. *)
From Coq Require Import Lia ZifyBool ZifyN ZifyNat Permutation.
From Ragc Require Import Mach Varint Container CVarint Zigzag Names Details Collection Tuple SegCompress LZ SegReader
  Range GroupStore AgcV3.
From Ragc Require Import Consts_agcv3 Consts_groupstore Consts_archive Consts_collection Consts_tuple Consts_lz.
From Ragc Require Varint_proofs Container_proofs Collection_proofs SegCompress_proofs Tuple_proofs LZ_main Range_proofs
  GroupStore_proofs GroupStore_rules.
Open Scope N_scope.
Arguments N.add : simpl never.
Arguments N.sub : simpl never.
Arguments N.mul : simpl never.
Arguments N.div : simpl never.
Arguments N.modulo : simpl never.
Arguments N.land : simpl never.
Arguments N.pow : simpl never.
Arguments N.of_nat : simpl never.
Arguments N.to_nat : simpl never.

(* ================================================================ constants: generated = pinned *)
Definition writer_consts_eq_spec : Prop :=
  (* container (archive.rs serialize, varint.rs write) *)
  ar_name_term_w = SPEC_NAME_TERMINATOR /\ vi_shift_w = SPEC_VARINT_RADIX_BITS /\ vi_mul_w = SPEC_VARINT_RADIX_BITS /\
  (* stream naming (stream_naming.rs; both sides call the same functions with the version below) *)
  NM_BASE64_DIGITS = SPEC_BASE64_DIGITS /\ NM_BASE64_MASK = SPEC_BASE64_MASK /\ NM_BASE64_RADIX = SPEC_BASE64_RADIX /\
  NM_REF_PREFIX = SPEC_STREAM_PREFIX /\ NM_REF_SUFFIX = SPEC_REF_SUFFIX /\
  NM_DELTA_PREFIX = SPEC_STREAM_PREFIX /\ NM_DELTA_SUFFIX = SPEC_DELTA_SUFFIX /\
  NM_V3_FROM_REF = SPEC_V3_NAMES_FROM /\ NM_V3_FROM_DELTA = SPEC_V3_NAMES_FROM /\
  AGC_FILE_MAJOR = SPEC_FILE_MAJOR /\ AGC_FILE_MINOR = SPEC_FILE_MINOR /\ W_VERSION_MUL = SPEC_VERSION_MUL /\
  SPEC_V3_NAMES_FROM <= AGC_FILE_MAJOR * W_VERSION_MUL + AGC_FILE_MINOR /\
  (* fixed stream names, in registration order *)
  W_NAME_COLL_0 = SPEC_NAME_SAMPLES /\ W_NAME_COLL_1 = SPEC_NAME_CONTIGS /\ W_NAME_COLL_2 = SPEC_NAME_DETAILS /\
  W_NAME_FIXED_0 = SPEC_NAME_FILE_TYPE_INFO /\ W_NAME_FIXED_1 = SPEC_NAME_PARAMS /\
  W_NAME_FIXED_2 = SPEC_NAME_SPLITTERS /\ W_NAME_FIXED_3 = SPEC_NAME_SEGMENT_SPLITTERS /\
  (* params: k, min_match_len, 50, segment_size as 4-byte little-endian fields, metadata 0 *)
  W_PARAMS_FIELDS = [0; 1; 2; 3] /\ W_PARAMS_FIELD_BYTES = SPEC_PARAMS_FIELD_BYTES /\
  W_PARAMS_PACK_CARDINALITY = SPEC_PACK_CARDINALITY /\ W_PARAMS_METADATA = SPEC_PARAMS_METADATA /\
  (* catalogue batches *)
  W_CATALOGUE_BATCH = SPEC_CATALOGUE_BATCH /\ pack_cardinality = SPEC_CATALOGUE_BATCH /\
  (* group store *)
  W_PACK_CARDINALITY = SPEC_PACK_CARDINALITY /\ W_NO_RAW_GROUPS = SPEC_NO_RAW_GROUPS /\
  CONTIG_SEPARATOR = SPEC_SEPARATOR /\
  W_PLACEHOLDER_STEP = SPEC_PLACEHOLDER /\ W_PLACEHOLDER_FLUSH_PACK = SPEC_PLACEHOLDER /\ W_PLACEHOLDER_FINALIZE = SPEC_PLACEHOLDER /\
  W_PACK_MARKER_STEP = SPEC_PACK_MARKER /\ W_PACK_MARKER_FINALIZE = SPEC_PACK_MARKER /\ w_pack_marker = SPEC_PACK_MARKER /\
  W_PACK_CARDINALITY - W_FIRST_RAW_PACK_MINUS = SPEC_PACK_CARDINALITY - 1 /\
  W_FIRST_ID = SPEC_FIRST_DELTA_ID /\
  (* part compression *)
  sc_marker_plain = SPEC_MARKER_PLAIN /\ sc_marker_tuples = SPEC_MARKER_TUPLES /\ w_raw_metadata = SPEC_RAW_METADATA.

Definition reader_consts_eq_spec : Prop :=
  ar_len_field_seek = SPEC_FOOTER_LEN_BYTES /\ ar_len_field_buf = SPEC_FOOTER_LEN_BYTES /\ ar_len_field_sub = SPEC_FOOTER_LEN_BYTES /\
  ar_name_term_r = SPEC_NAME_TERMINATOR /\ ar_empty_meta = SPEC_EMPTY_PART_METADATA /\ vi_shift_r = SPEC_VARINT_RADIX_BITS /\
  R_VERSION_MUL = SPEC_VERSION_MUL /\ SPEC_V3_NAMES_FROM <= AGC_FILE_MAJOR * R_VERSION_MUL + AGC_FILE_MINOR /\
  R_NAME_COLL_0 = SPEC_NAME_SAMPLES /\ R_NAME_COLL_1 = SPEC_NAME_CONTIGS /\ R_NAME_COLL_2 = SPEC_NAME_DETAILS /\
  R_NAME_PARAMS = SPEC_NAME_PARAMS /\
  R_PARAMS_OFF_K = SPEC_PARAMS_OFF_K /\ R_PARAMS_OFF_MML = SPEC_PARAMS_OFF_MML /\ R_PARAMS_OFF_PACK = SPEC_PARAMS_OFF_PACK /\
  R_PARAMS_OFF_SEGSIZE = SPEC_PARAMS_OFF_SEGSIZE /\ R_PARAMS_MIN_LEN = SPEC_PARAMS_MIN_LEN /\
  R_PARAMS_SEGSIZE_FROM_LEN = SPEC_PARAMS_OFF_SEGSIZE + SPEC_PARAMS_FIELD_BYTES /\
  R_PARAMS_DEFAULT_SEGSIZE = SPEC_PARAMS_DEFAULT_SEGSIZE /\ R_PARAMS_NUM_PARTS = SPEC_PARAMS_NUM_PARTS /\
  R_PACK_CARDINALITY = SPEC_PACK_CARDINALITY /\ R_NO_RAW_GROUPS = SPEC_NO_RAW_GROUPS /\
  R_DELTA_ID_OFFSET = SPEC_FIRST_DELTA_ID /\ R_REF_PART = SPEC_REF_PART /\
  sc_reader_plain_marker = SPEC_MARKER_PLAIN /\ r_raw_metadata = SPEC_RAW_METADATA.

Lemma writer_eq_spec_proof : writer_consts_eq_spec.
Proof. unfold writer_consts_eq_spec. repeat split; reflexivity. Qed.
Lemma reader_eq_spec_proof : reader_consts_eq_spec.
Proof. unfold reader_consts_eq_spec. repeat split; reflexivity. Qed.

(* ================================================================ stream names *)
Lemma idx_nth : forall d, d < 64 -> index_of (nth (N.to_nat d) SPEC_BASE64_DIGITS 0) SPEC_BASE64_DIGITS 0 = Some d.
Proof.
  intros d Hd.
  assert (H : forallb (fun i => match index_of (nth i SPEC_BASE64_DIGITS 0) SPEC_BASE64_DIGITS 0 with
                                | Some j => j =? N.of_nat i | None => false end) (seq 0 64) = true)
    by (vm_compute; reflexivity).
  rewrite forallb_forall in H. specialize (H (N.to_nat d)).
  assert (Hin : In (N.to_nat d) (seq 0 64)) by (apply in_seq; lia).
  specialize (H Hin). destruct (index_of _ _ _) as [j|]; [|discriminate].
  apply N.eqb_eq in H. rewrite H. f_equal. lia.
Qed.

Lemma land_mask : forall n, N.land n SPEC_BASE64_MASK = n mod 64.
Proof. intro n. change SPEC_BASE64_MASK with (N.ones 6). rewrite N.land_ones. reflexivity. Qed.

Lemma b64_value_digits : forall fuel n, n < 64 ^ N.of_nat fuel -> b64_value (b64_digits fuel n) = Some n.
Proof.
  induction fuel as [|f IH]; intros n Hn.
  - cbn in Hn. assert (n = 0) by lia. subst. reflexivity.
  - cbn [b64_digits b64_value]. rewrite land_mask.
    assert (Hm : n mod 64 < 64) by (apply N.mod_lt; lia).
    rewrite (idx_nth _ Hm). change SPEC_BASE64_RADIX with 64.
    assert (Hdm : n = 64 * (n / 64) + n mod 64) by (apply N.div_mod; lia).
    destruct (n / 64 =? 0) eqn:E.
    + apply N.eqb_eq in E. cbn [b64_value]. f_equal. lia.
    + apply N.eqb_neq in E. rewrite IH.
      * f_equal. lia.
      * replace (N.of_nat (S f)) with (N.succ (N.of_nat f)) in Hn by lia. rewrite N.pow_succ_r' in Hn.
        apply N.div_lt_upper_bound; lia.
Qed.

Lemma int_to_base64_inj : forall a b, a < two32 -> b < two32 -> int_to_base64 a = int_to_base64 b -> a = b.
Proof.
  intros a b Ha Hb E. unfold int_to_base64 in E.
  assert (H64 : two32 <= 64 ^ N.of_nat 6) by (vm_compute; discriminate).
  assert (A : b64_value (b64_digits 6 a) = Some a) by (apply b64_value_digits; lia).
  assert (B : b64_value (b64_digits 6 b) = Some b) by (apply b64_value_digits; lia).
  rewrite E in A. rewrite A in B. injection B. auto.
Qed.

Lemma digits_wf : forall fuel n, Forall (fun b => 1 <= b /\ b < 128) (b64_digits fuel n).
Proof.
  assert (HD : Forall (fun b => 1 <= b /\ b < 128) SPEC_BASE64_DIGITS).
  { unfold SPEC_BASE64_DIGITS. repeat (constructor; [split; [vm_compute; discriminate | vm_compute; reflexivity]|]). constructor. }
  induction fuel as [|f IH]; intro n; [constructor|].
  cbn [b64_digits]. constructor.
  - rewrite land_mask. rewrite Forall_forall in HD. apply HD. apply nth_In.
    assert (n mod 64 < 64) by (apply N.mod_lt; lia). change (length SPEC_BASE64_DIGITS) with 64%nat. lia.
  - destruct (_ =? 0); [constructor | apply IH].
Qed.

Lemma stream_names_proof : forall g1 g2, g1 < two32 -> g2 < two32 ->
  (stream_ref_name g1 = stream_ref_name g2 -> g1 = g2) /\
  (stream_delta_name g1 = stream_delta_name g2 -> g1 = g2) /\
  stream_ref_name g1 <> stream_delta_name g2 /\
  ~ In (stream_ref_name g1) SPEC_FIXED_NAMES /\ ~ In (stream_delta_name g1) SPEC_FIXED_NAMES.
Proof.
  intros g1 g2 H1 H2. unfold stream_ref_name, stream_delta_name.
  split; [|split; [|split; [|split]]].
  - intro E. apply app_inv_head in E. apply app_inv_tail in E. apply int_to_base64_inj; assumption.
  - intro E. apply app_inv_head in E. apply app_inv_tail in E. apply int_to_base64_inj; assumption.
  - intro E. apply app_inv_head in E. apply app_inj_tail in E. destruct E as [_ E]. discriminate.
  - intro H. cbn in H. repeat (destruct H as [H|H]; [discriminate H|]). exact H.
  - intro H. cbn in H. repeat (destruct H as [H|H]; [discriminate H|]). exact H.
Qed.

Lemma stream_names_wf_proof : forall g,
  name_wf (stream_ref_name g) /\ name_wf (stream_delta_name g) /\ Forall name_wf SPEC_FIXED_NAMES.
Proof.
  intro g. unfold name_wf, stream_ref_name, stream_delta_name.
  assert (S1 : forall l, Forall (fun b => 1 <= b /\ b < 128) l ->
               forall a z, 1 <= a < 128 -> 1 <= z < 128 -> Forall (fun b => 1 <= b /\ b < 128) ([a] ++ l ++ [z])).
  { intros l Hl a z Ha Hz. apply Forall_app. split; [constructor; [lia|constructor]|].
    apply Forall_app. split; [exact Hl|constructor; [lia|constructor]]. }
  split; [|split].
  - apply S1; [apply digits_wf| |]; lia.
  - apply S1; [apply digits_wf| |]; lia.
  - unfold SPEC_FIXED_NAMES.
    repeat (constructor; [repeat (constructor; [split; [vm_compute; discriminate | vm_compute; reflexivity]|]); constructor|]).
    constructor.
Qed.

(* ================================================================ decode = composition of the components *)
Lemma decode_is_reader_proof : forall zd file,
  decode zd file =
  obnd (snd (Container.deserialize spec_max_off file)) (fun rd =>
  obnd (read_params rd) (fun p =>
  obnd (coll_arch rd) (fun a =>
  obnd (Collection.load_all zd (p_segsize p) (p_k p) a) (fun c =>
    mapM (fun s =>
      obnd (mapM (fun ct =>
        obnd (mapM (fun x =>
                obnd (obnd (group_view_of rd (sg x)) (fun gv =>
                        SegReader.get_segment (SegCompress.decompress_segment_with_marker zd) (LZ.decode_full (p_mml p))
                                              (fun _ => gv) (desc_of_seg x)))
                     (fun data => Ok (mkRSeg (sl x) (src x) data))) (csegs ct))
             (fun rs => obnd (Range.reconstruct_contig (p_k p) rs) (fun bases => Ok (cname ct, bases))))
           (scontigs s))
        (fun cs => Ok (sname s, cs))) (samples c))))).
Proof. reflexivity. Qed.

Lemma strict_sound_proof : forall zd file c,
  decode_strict zd file = SOk c -> strict_check zd file = None /\ decode zd file = Ok c.
Proof.
  intros zd file c. unfold decode_strict. destruct (strict_check zd file); [discriminate|].
  destruct (decode zd file); try discriminate. intro H. injection H as ->. split; reflexivity.
Qed.
