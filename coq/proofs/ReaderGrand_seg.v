(* ReaderGrand_seg.v - C08G, segment half: on the abstract archive of a file, the stateless specification of the C08
   reader model (ReaderState.seg_spec / recon_spec / recon_all_spec) returns what the whole-archive decoder
   (AgcV3.get_seg / decode_contig / decode_sample) returns, whenever the latter succeeds. *)
From Coq Require Import Lia ZifyBool ZifyN ZifyNat.
From Ragc Require Import Mach Consts_groupstore Container Details Collection SegCompress LZ SegReader Range AgcV3.
From Ragc Require Import ReaderGrand ReaderGrand_cat.
From Ragc Require ReaderState.
Open Scope N_scope.
Arguments N.add : simpl never.
Arguments N.sub : simpl never.
Arguments N.mul : simpl never.
Arguments N.div : simpl never.
Arguments N.modulo : simpl never.
Arguments N.min : simpl never.
Arguments N.leb : simpl never.
Arguments N.ltb : simpl never.
Arguments N.eqb : simpl never.

(* ------------------------------------------------------------------ SegReader.get_segment = reference ; delta path *)
Lemma get_segment_split : forall dwm lz (av : archive_view) d, (R_NO_RAW_GROUPS <=? d_group d) = true ->
  SegReader.get_segment dwm lz av d =
  obnd (load_reference dwm (av (d_group d))) (fun reference =>
    if d_id d =? 0 then Ok reference else lz_delta dwm lz (av (d_group d)) (d_id d) reference).
Proof. intros dwm lz av d H. unfold SegReader.get_segment, lz_delta. rewrite H. reflexivity. Qed.

Lemma get_segment_ext : forall dwm lz (av : archive_view) d d', d_group d = d_group d' -> d_id d = d_id d' ->
  SegReader.get_segment dwm lz av d = SegReader.get_segment dwm lz av d'.
Proof. intros dwm lz av d d' Hg Hi. unfold SegReader.get_segment. rewrite Hg, Hi. reflexivity. Qed.

Lemma pop_last_spec : forall l, l <> [] -> ReaderState.pop_last l = Some (removelast l, last l 0).
Proof.
  induction l as [|x r IH]; intro H; [contradiction|].
  destruct r as [|y r]; [reflexivity|].
  change (ReaderState.pop_last (x :: y :: r))
    with (match ReaderState.pop_last (y :: r) with Some (b, m) => Some (x :: b, m) | None => None end).
  rewrite IH by discriminate. reflexivity.
Qed.

(* get_segment's reference decoder, written twice (SegReader.load_reference for C02, ReaderState.ref_via_segment for
   C08), agrees whenever the former succeeds *)
Lemma ref_agree : forall zd gv parts p rf,
  gv_ref gv = Some parts -> nthN parts R_REF_PART = Some p ->
  load_reference (file_dz zd) gv = Ok rf ->
  ReaderState.ref_via_segment (file_dz zd) (ReaderState.get_part p) = Ok rf.
Proof.
  intros zd gv parts [meta data] rf Hr Hp H. unfold load_reference in H. rewrite Hr in H.
  unfold SegReader.get_part in H. rewrite Hp in H. cbn [obnd] in H.
  apply obnd_ok_inv in H. destruct H as (dref & Ed & H). cbn [fst] in H.
  unfold load_part in Ed. unfold ReaderState.ref_via_segment, ReaderState.get_part. cbn [snd].
  destruct (meta =? 0) eqn:Em.
  - inversion Ed; subst dref. apply N.eqb_eq in Em. subst meta.
    destruct data as [|d ds]; cbn [fst snd]; change (0 =? 0) with true in *; cbn [negb andb obnd] in *; exact H.
  - destruct data as [|d ds]; [discriminate|]. cbn [fst snd]. rewrite Em.
    rewrite pop_last_spec by discriminate. rewrite Ed. cbn [obnd]. cbn [negb andb] in *. exact H.
Qed.

Section Seg.
  Variable zd : list N -> option (list N).
  Variable rd : reader.
  Variables k mml : N.
  Variable ar : ReaderState.archive.
  Hypothesis Hk : ReaderState.ar_k ar = k.
  Hypothesis Href : ReaderState.ar_ref ar = file_ref rd.
  Hypothesis Hlz : ReaderState.ar_lz ar = file_lz zd rd mml.
  Hypothesis Hraw : ReaderState.ar_raw ar = file_raw zd rd mml.

  Notation dz := (file_dz zd).

  Lemma seg_agree : forall x data, get_seg zd rd mml (desc_of_seg x) = Ok data ->
    ReaderState.seg_spec dz ar (conv_seg x) = Ok data.
  Proof.
    intros x data H. unfold get_seg in H. apply obnd_ok_inv in H. destruct H as (gv & Egv & H).
    cbn [desc_of_seg d_group] in Egv.
    unfold ReaderState.seg_spec. cbn [conv_seg ReaderState.d_group ReaderState.d_in].
    destruct (16 <=? sg x) eqn:E16.
    - rewrite get_segment_split in H by exact E16. cbn [desc_of_seg d_group d_id] in H.
      apply obnd_ok_inv in H. destruct H as (rf & Erf & H).
      assert (Espec : ReaderState.ref_spec dz ar (sg x) = Ok rf).
      { unfold ReaderState.ref_spec. rewrite Href. unfold file_ref. rewrite Egv.
        pose proof Erf as Erf'. unfold load_reference in Erf'.
        destruct (gv_ref gv) as [parts|] eqn:Er; [|discriminate].
        unfold SegReader.get_part in Erf'. destruct (nthN parts R_REF_PART) as [p|] eqn:Ep; [|discriminate].
        exact (ref_agree zd gv parts p rf Er Ep Erf). }
      rewrite Espec. cbn [obnd]. destruct (si x =? 0); [exact H|].
      rewrite Hlz. unfold file_lz. rewrite Egv. cbn [obnd]. exact H.
    - rewrite Hraw. unfold file_raw. rewrite Egv. cbn [obnd]. rewrite <- H.
      apply get_segment_ext; reflexivity.
  Qed.

  Lemma mapM_cons_inv : forall {A B} (f : A -> outcome B) x r ys, mapM f (x :: r) = Ok ys ->
    exists y ys', f x = Ok y /\ mapM f r = Ok ys' /\ ys = y :: ys'.
  Proof.
    intros A B f x r ys H. cbn [mapM] in H. apply obnd_ok_inv in H. destruct H as (y & Ey & H).
    apply obnd_ok_inv in H. destruct H as (ys' & Eys & H). inversion H. exists y, ys'. auto.
  Qed.

  Lemma decode_seg_inv : forall x r, decode_seg zd rd mml x = Ok r ->
    exists data, get_seg zd rd mml (desc_of_seg x) = Ok data /\ r = mkRSeg (sl x) (src x) data.
  Proof.
    intros x r H. unfold decode_seg in H. apply obnd_ok_inv in H. destruct H as (data & Ed & H).
    inversion H. exists data. auto.
  Qed.

  Lemma recon_agree : forall segs rs acc i bases,
    mapM (decode_seg zd rd mml) segs = Ok rs ->
    reconstruct_loop k i rs acc = Ok bases ->
    ReaderState.recon_spec dz ar (map conv_seg segs) (Nat.eqb i 0) acc = Ok bases.
  Proof.
    induction segs as [|x segs IH]; intros rs acc i bases Hm Hr.
    - cbn [mapM] in Hm. inversion Hm; subst rs. cbn [reconstruct_loop] in Hr. exact Hr.
    - apply mapM_cons_inv in Hm. destruct Hm as (r & rs' & Er & Ers & ->).
      apply decode_seg_inv in Er. destruct Er as (data & Ed & ->).
      cbn [map ReaderState.recon_spec]. rewrite (seg_agree x data Ed). cbn [obnd].
      cbn [reconstruct_loop] in Hr. rewrite Hk.
      change (ReaderState.orient (conv_seg x) data) with (oriented (mkRSeg (sl x) (src x) data)).
      destruct (Nat.eqb i 0).
      + exact (IH rs' _ (S i) bases Ers Hr).
      + destruct (lenN (oriented (mkRSeg (sl x) (src x) data)) <? k); [discriminate|].
        exact (IH rs' _ (S i) bases Ers Hr).
  Qed.

  Lemma contig_agree : forall ct y, decode_contig zd rd k mml ct = Ok y ->
    fst y = cname ct /\
    ReaderState.recon_spec dz ar (map conv_seg (csegs ct)) true [] = Ok (snd y) /\
    exists rs, mapM (decode_seg zd rd mml) (csegs ct) = Ok rs /\ reconstruct_contig k rs = Ok (snd y).
  Proof.
    intros ct y H. unfold decode_contig in H. apply obnd_ok_inv in H. destruct H as (rs & Ers & H).
    apply obnd_ok_inv in H. destruct H as (bases & Eb & H). inversion H; subst y. cbn [fst snd].
    split; [reflexivity|]. split; [|exists rs; auto].
    exact (recon_agree (csegs ct) rs [] 0%nat bases Ers Eb).
  Qed.

  Definition contig_rel (ct : Collection.contig) (y : list N * list N) : Prop :=
    fst y = cname ct /\ ReaderState.recon_spec dz ar (map conv_seg (csegs ct)) true [] = Ok (snd y) /\
    exists rs, mapM (decode_seg zd rd mml) (csegs ct) = Ok rs /\ reconstruct_contig k rs = Ok (snd y).

  Lemma contigs_agree : forall cts cs, mapM (decode_contig zd rd k mml) cts = Ok cs -> Forall2 contig_rel cts cs.
  Proof.
    induction cts as [|ct cts IH]; intros cs H.
    - cbn [mapM] in H. inversion H. constructor.
    - apply mapM_cons_inv in H. destruct H as (y & cs' & Ey & Ecs & ->). constructor; [|exact (IH _ Ecs)].
      exact (contig_agree ct y Ey).
  Qed.

  Lemma recon_all_agree : forall cts cs, Forall2 contig_rel cts cs -> forall acc,
    ReaderState.recon_all_spec dz ar (conv_row cts) acc = Ok (acc ++ cs).
  Proof.
    induction 1 as [|ct y cts cs (Hn & Hr & _) _ IH]; intro acc.
    - cbn. rewrite app_nil_r. reflexivity.
    - cbn [conv_row map ReaderState.recon_all_spec conv_contig snd fst]. rewrite Hr. cbn [obnd].
      fold (conv_row cts). rewrite IH. rewrite <- app_assoc. cbn [app]. rewrite <- Hn. destruct y. reflexivity.
  Qed.

  Definition sample_rel (s : sample) (x : list N * list (list N * list N)) : Prop :=
    fst x = sname s /\ Forall2 contig_rel (scontigs s) (snd x).

  Lemma samples_agree : forall sl cat, mapM (decode_sample zd rd k mml) sl = Ok cat -> Forall2 sample_rel sl cat.
  Proof.
    induction sl as [|s sl IH]; intros cat H.
    - cbn [mapM] in H. inversion H. constructor.
    - apply mapM_cons_inv in H. destruct H as (x & cat' & Ex & Ecat & ->). constructor; [|exact (IH _ Ecat)].
      unfold decode_sample in Ex. apply obnd_ok_inv in Ex. destruct Ex as (cs & Ecs & Ex). inversion Ex; subst x.
      split; [reflexivity|]. exact (contigs_agree _ _ Ecs).
  Qed.
End Seg.

(* ------------------------------------------------------------------ lookups *)
Lemma Forall2_nth_error : forall {A B} (R : A -> B -> Prop) l1 l2, Forall2 R l1 l2 ->
  forall j x, nth_error l1 j = Some x -> exists y, nth_error l2 j = Some y /\ R x y.
Proof.
  induction 1 as [|a b l1 l2 Hab _ IH]; intros [|j] x Hx; cbn [nth_error] in *; try discriminate.
  - inversion Hx; subst. exists b. auto.
  - exact (IH j x Hx).
Qed.

Lemma Forall2_map_fst : forall {A B C} (R : A -> B -> Prop) (f : A -> C) (g : B -> C) l1 l2,
  Forall2 R l1 l2 -> (forall a b, R a b -> g b = f a) -> map g l2 = map f l1.
Proof.
  induction 1 as [|a b l1 l2 Hab _ IH]; intro Hf; [reflexivity|]. cbn [map]. rewrite (Hf a b Hab), IH by exact Hf.
  reflexivity.
Qed.

(* sample_ids (last duplicate wins) against find_sample *)
Lemma sid_from_range : forall ns i s j, ReaderState.sid_from ns i s = Some j -> (i <= j < i + length ns)%nat.
Proof.
  induction ns as [|n ns IH]; intros i s j H; cbn [ReaderState.sid_from] in H; [discriminate|].
  destruct (ReaderState.sid_from ns (S i) s) as [j'|] eqn:E.
  - inversion H; subst. apply IH in E. cbn [length]. lia.
  - destruct (ReaderState.name_eqb n s); [|discriminate]. inversion H; subst. cbn [length]. lia.
Qed.

Lemma find_sample_sid : forall (cat : samples_t) i s,
  find_sample cat s =
  match ReaderState.sid_from (map fst cat) i s with
  | Some j => option_map snd (nth_error cat (j - i))
  | None => None
  end.
Proof.
  induction cat as [|x cat IH]; intros i s; [reflexivity|].
  cbn [find_sample map ReaderState.sid_from]. rewrite (IH (S i) s).
  destruct (ReaderState.sid_from (map fst cat) (S i) s) as [j|] eqn:E.
  - apply sid_from_range in E. replace (j - i)%nat with (S (j - S i)) by lia. cbn [nth_error].
    destruct (nth_error cat (j - S i)) as [y|] eqn:En; [reflexivity|].
    apply nth_error_None in En. rewrite map_length in E. lia.
  - destruct (ReaderState.name_eqb (fst x) s); [|reflexivity]. rewrite Nat.sub_diag. reflexivity.
Qed.

Lemma find_cons_eq : forall {A} (f : A -> bool) x l, find f (x :: l) = if f x then Some x else find f l.
Proof. reflexivity. Qed.

Lemma find_contig_rel : forall zd rd k mml ar cts cs c, Forall2 (contig_rel zd rd k mml ar) cts cs ->
  match find (fun x => ReaderState.name_eqb (fst x) c) (conv_row cts) with
  | Some d => exists ct sq, In ct cts /\ In (c, sq) cs /\ d = conv_contig ct /\ find_contig cs c = Some sq /\
                            contig_rel zd rd k mml ar ct (c, sq)
  | None => find_contig cs c = None
  end.
Proof.
  intros zd rd k mml ar cts cs c H. induction H as [|ct y cts cs Hr _ IH]; [reflexivity|].
  unfold find_contig in *. destruct Hr as (Hn & Hr).
  change (conv_row (ct :: cts)) with (conv_contig ct :: conv_row cts).
  rewrite !find_cons_eq. change (fst (conv_contig ct)) with (cname ct).
  rewrite <- Hn. unfold ReaderState.name, Names.name in *.
  destruct (ReaderState.name_eqb (fst y) c) eqn:E.
  - assert (Ec : fst y = c).
    { clear - E. revert E. generalize (fst y). intro a. revert c. induction a as [|p a IHa]; intros [|q c] E; cbn in E; try discriminate.
      - reflexivity.
      - apply andb_true_iff in E. destruct E as [E1 E2]. apply N.eqb_eq in E1. subst. f_equal. apply IHa. exact E2. }
    exists ct, (snd y). split; [left; reflexivity|].
    split; [left; destruct y as [y1 y2]; cbn [fst snd] in *; rewrite <- Ec; reflexivity|].
    split; [reflexivity|]. split; [reflexivity|].
    rewrite <- Ec. split; [exact Hn|]. cbn [snd]. exact Hr.
  - match goal with |- match ?X with _ => _ end => destruct X as [d|] end.
    + destruct IH as (ct' & sq & H1 & H2 & H3 & H4 & H5). exists ct', sq.
      split; [right; exact H1|]. split; [right; exact H2|]. auto.
    + exact IH.
Qed.
