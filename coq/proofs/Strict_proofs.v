(* Strict_proofs.v - C02S: COMPLETENESS of the strict mode of spec/AgcV3.v on written files.
     props/C02B.v strict_sound  : strict accepts  => plain decode returns the same catalogue      (any file)
     here         strict_accepts_written : every file the model writer produces passes EVERY strict check
                                           (under the hypotheses of writer_conforms + the shape of the directory)
                  grand_strict          : the instance for ModelCreate.model_build (hypotheses of grand_roundtrip)
                  strict_none_inv / check_group_inv / unpack_packs_inv : what acceptance means, rule by rule (any file)
   Sections:
     1. the final layout of a group's two streams, read off the group-store invariant (GroupStore_inv / _proofs)
     2. the strict checker's own functions on that layout (split_sep, unpack_part, unpack_packs, id_ok, names)
     3. strict_accepts_written
     4. what strict acceptance means (inversion, any file)
     5. the instance for model_build *)
From Coq Require Import Lia ZifyBool ZifyN ZifyNat Permutation.
From Ragc Require Import Mach Varint Container CVarint Zigzag Names Details Collection Tuple SegCompress LZ SegReader
  Range GroupStore AgcV3.
From Ragc Require Import Consts_agcv3 Consts_groupstore Consts_archive Consts_collection Consts_tuple Consts_lz.
From Ragc Require Import GroupStore_base GroupStore_inv GroupStore_proofs.
From Ragc Require GroupStore_rules Container_proofs Collection_proofs.
From Ragc Require Import AgcV3_proofs AgcV3_compose.
Open Scope N_scope.
Arguments N.add : simpl never.
Arguments N.sub : simpl never.
Arguments N.mul : simpl never.
Arguments N.div : simpl never.
Arguments N.modulo : simpl never.
Arguments N.land : simpl never.
Arguments N.pow : simpl never.
Arguments N.max : simpl never.
Arguments N.of_nat : simpl never.
Arguments N.to_nat : simpl never.

Lemma ok_inj' {A} (x y : A) : Ok x = Ok y -> x = y.
Proof. intro H. injection H as H. exact H. Qed.

(* ================================================================ 1. the final layout of a group *)
(* the packs of a delta stream: non-empty, at most 50 entries, every pack but the last exactly 50, no separator inside *)
Fixpoint chunks_ok (l : list (list (list N))) : Prop :=
  match l with
  | [] => True
  | c :: r => c <> [] /\ (length c <= 50)%nat /\ Forall nosep c /\ (r <> [] -> length c = 50%nat) /\ chunks_ok r
  end.

Lemma chunks_ok_app : forall packs tail,
  Forall (fun c => length c = 50%nat /\ Forall nosep c) packs ->
  (tail = [] \/ exists c, tail = [c] /\ c <> [] /\ (length c <= 50)%nat /\ Forall nosep c) ->
  chunks_ok (packs ++ tail).
Proof.
  induction packs as [|c packs IH]; intros tail Hf Ht.
  - cbn [app]. destruct Ht as [->|[c [-> [H1 [H2 H3]]]]]; cbn [chunks_ok]; [exact I|].
    split; [exact H1|]. split; [exact H2|]. split; [exact H3|]. split; [intro Hc; contradiction|exact I].
  - inversion Hf as [|? ? [Hl Hn] Hf']; subst. cbn [app chunks_ok].
    split; [intro Hc; rewrite Hc in Hl; discriminate|]. split; [lia|]. split; [exact Hn|].
    split; [intros _; exact Hl|]. apply IH; assumption.
Qed.

(* the id of a registration addresses an entry of the nested pack list *)
Definition addr_ok (lz : bool) (id : N) (chunks : list (list (list N))) : Prop :=
  if lz then id = 0 \/ exists c, nth_error chunks (N.to_nat ((id - 1) / 50)) = Some c /\ (id - 1) mod 50 < lenN c
  else id <> 0 /\ exists c, nth_error chunks (N.to_nat (id / 50)) = Some c /\ id mod 50 < lenN c.

Lemma slot_addr : forall (chunks : list (list (list N))) c (e : list N) n,
  nth_error chunks (N.to_nat n / 50) = Some c -> nth_error c (N.to_nat n mod 50) = Some e ->
  nth_error chunks (N.to_nat (n / 50)) = Some c /\ n mod 50 < lenN c.
Proof.
  intros chunks c e n H1 H2. split.
  - rewrite N2Nat.inj_div. exact H1.
  - assert (H : (N.to_nat n mod 50 < length c)%nat) by (apply nth_error_Some; congruence).
    assert (E : N.to_nat (n mod 50) = (N.to_nat n mod 50)%nat) by (rewrite N2Nat.inj_mod; reflexivity).
    unfold lenN. lia.
Qed.

Section InvLayout.
  Variable lz_enc : list N -> list N -> list N.
  Variable compress_ref : list N -> list N * N.
  Variable compress_pack : list N -> list N.

  Lemma inv_layout : forall lz buf rp dp regs packs ents,
    Inv lz_enc compress_ref compress_pack lz buf rp dp regs packs ents ->
    (forall e, In e ents -> nosep e) -> regs <> [] ->
    chunks_ok (final_chunks lz buf packs) /\
    (if lz then exists r, b_reference buf = Some r /\ rp = [ref_part compress_ref r]
     else rp = [] /\ exists rest crest, final_chunks lz buf packs = ([PH] :: rest) :: crest) /\
    (forall s id, In (s, id) regs -> addr_ok lz id (final_chunks lz buf packs)).
  Proof.
    intros lz buf rp dp regs packs ents HI Hns Hne.
    pose proof (inv_regs _ _ _ _ _ _ _ _ _ _ HI) as Hregs. rewrite Forall_forall in Hregs.
    pose proof (inv_ref _ _ _ _ _ _ _ _ _ _ HI) as Href.
    pose proof (inv_full _ _ _ _ _ _ _ _ _ _ HI) as Hfull. rewrite Forall_forall in Hfull.
    assert (Hsh : forall c, In c (final_chunks lz buf packs) -> c <> [] /\ (length c <= 50)%nat /\ Forall nosep c).
    { intros c Hc. destruct (final_chunks_shape _ _ _ _ _ _ _ _ _ _ HI c Hc) as [H1 [H2 H3]].
      split; [exact H1|]. split; [exact H2|]. apply Forall_forall. intros e He. specialize (H3 e He).
      unfold slots_of in H3. apply in_app_or in H3. destruct H3 as [H3|H3]; [|apply Hns; exact H3].
      destruct lz; [destruct H3|]. destruct H3 as [<-|[]]. intros [Hc1|[]]. apply ph_not_sep. exact Hc1. }
    assert (Hx : exists x, In x regs) by (destruct regs as [|x r]; [contradiction|exists x; left; reflexivity]).
    split; [|split].
    - unfold final_chunks in *. destruct (is_nil (b_pending buf)).
      + rewrite <- (app_nil_r packs). apply chunks_ok_app; [|left; reflexivity].
        apply Forall_forall. intros c Hc. split; [exact (Hfull c Hc)|]. exact (proj2 (proj2 (Hsh c Hc))).
      + apply chunks_ok_app.
        * apply Forall_forall. intros c Hc. split; [exact (Hfull c Hc)|].
          apply (Hsh c). apply in_or_app. left. exact Hc.
        * right. exists (open_of lz buf). split; [reflexivity|]. apply Hsh. apply in_or_app. right. left. reflexivity.
    - destruct lz.
      + destruct (b_reference buf) as [r|].
        * destruct Href as [_ [Hrp _]]. exists r. split; [reflexivity|exact Hrp].
        * destruct Href as [_ [_ [Hrg _]]]. contradiction.
      + destruct Href as [_ [_ Hrp]]. split; [exact Hrp|].
        destruct Hx as [[s id] Hin]. pose proof (Hregs _ Hin) as Hreg. unfold reg_ok in Hreg. destruct Hreg as [_ Hnth].
        assert (Hents : ents <> []) by (intro Hc; rewrite Hc in Hnth; destruct (N.to_nat (id - 1)); discriminate).
        destruct (slot_lookup lz_enc (fun _ _ => Err) compress_ref compress_pack (fun _ _ => Err) _ _ _ _ _ _ _ 0%nat [PH] HI Hents eq_refl) as [c [Hc He]].
        change (0 / 50)%nat with 0%nat in Hc. change (0 mod 50)%nat with 0%nat in He.
        destruct (final_chunks false buf packs) as [|c' crest]; [discriminate|]. cbn [nth_error] in Hc.
        injection Hc as ->. destruct c as [|e rest]; [discriminate|]. cbn [nth_error] in He. injection He as ->.
        exists rest, crest. reflexivity.
    - intros s id Hin. pose proof (Hregs _ Hin) as Hreg. unfold reg_ok in Hreg. unfold addr_ok. destruct lz.
      + destruct (b_reference buf) as [r|]; [|contradiction].
        destruct Hreg as [[H0 _]|[H1 [Hnth _]]]; [left; exact H0|right].
        assert (Hents : ents <> []) by (intro Hc; rewrite Hc in Hnth; destruct (N.to_nat (id - 1)); discriminate).
        destruct (slot_lookup lz_enc (fun _ _ => Err) compress_ref compress_pack (fun _ _ => Err) _ _ _ _ _ _ _ (N.to_nat (id - 1)) _ HI Hents Hnth) as [c [Hc He]].
        exists c. exact (slot_addr _ _ _ _ Hc He).
      + destruct Hreg as [H1 Hnth]. split; [lia|].
        assert (Hents : ents <> []) by (intro Hc; rewrite Hc in Hnth; destruct (N.to_nat (id - 1)); discriminate).
        assert (Hk : nth_error (slots_of false ents) (N.to_nat id) = Some (s_data s)).
        { unfold slots_of. replace (N.to_nat id) with (S (N.to_nat (id - 1))) by lia. cbn [app nth_error]. exact Hnth. }
        destruct (slot_lookup lz_enc (fun _ _ => Err) compress_ref compress_pack (fun _ _ => Err) _ _ _ _ _ _ _ (N.to_nat id) _ HI Hents Hk) as [c [Hc He]].
        exists c. exact (slot_addr _ _ _ _ Hc He).
  Qed.
End InvLayout.

Section GroupLayout.
  Variable lz_enc : list N -> list N -> list N.
  Variable lz_dec : list N -> list N -> outcome (list N).
  Variable compress_ref : list N -> list N * N.
  Variable compress_pack : list N -> list N.
  Variable dwm : list N -> N -> outcome (list N).
  Variable ref_dom : list N -> Prop.
  Variable lz_dom : list N -> list N -> Prop.
  Hypothesis HC : codecs_ok lz_enc lz_dec compress_ref compress_pack dwm ref_dom lz_dom.

  (* both streams of a group that holds a registration, as the finalized store shows them *)
  Lemma group_layout : forall ops st g s0 id0,
    ops_ok ref_dom lz_dom ops -> run lz_enc compress_ref compress_pack ops = Ok st ->
    In (s0, id0) (regs_of st g) ->
    exists chunks rparts,
      view_of (finalize compress_pack st) g =
        {| gv_ref := Some rparts; gv_delta := Some (map (mkpart compress_pack) chunks) |} /\
      chunks_ok chunks /\
      (if is_lz g then exists r, rparts = [ref_part compress_ref r] /\ ref_dom r
       else rparts = [] /\ exists rest crest, chunks = ([PH] :: rest) :: crest) /\
      (forall s id, In (s, id) (regs_of st g) -> addr_ok (is_lz g) id chunks).
  Proof.
    intros ops st g s0 id0 Hops Hrun Hin0. unfold regs_of, get_group in *.
    destruct (st g) as [gs|] eqn:Eg; [|destruct Hin0].
    destruct (GroupStore_rules.group_facts _ _ _ _ _ _ _ HC ops st g gs Hops Hrun Eg) as [packs [ents [HI [Hns [_ Hrefd]]]]].
    destruct (fin_delta lz_enc compress_ref compress_pack g gs packs ents HI) as [Hfd [Hfr _]].
    assert (Hne : g_regs gs <> []) by (intro Hc; rewrite Hc in Hin0; destruct Hin0).
    destruct (inv_layout _ _ _ _ _ _ _ _ _ _ HI Hns Hne) as [Hck [Hrp Haddr]].
    exists (final_chunks (is_lz g) (g_buf gs) packs), (g_ref gs).
    split; [|split; [exact Hck|split; [|exact Haddr]]].
    - unfold view_of, finalize. rewrite Eg. rewrite Hfd, Hfr. reflexivity.
    - destruct (is_lz g) eqn:El; [|exact Hrp].
      destruct Hrp as [r [Er Hr]]. exists r. split; [exact Hr|].
      apply N.leb_le in El. change W_NO_RAW_GROUPS with 16 in El. exact (proj1 (Hrefd r Er El)).
  Qed.
End GroupLayout.

(* ================================================================ 2. the strict checker on that layout *)
Lemma split_sep_entry : forall e rest acc, nosep e ->
  split_sep (e ++ CONTIG_SEPARATOR :: rest) acc =
  ((rev acc ++ e) :: fst (split_sep rest []), snd (split_sep rest [])).
Proof.
  induction e as [|b e IH]; intros rest acc Hn.
  - cbn [app split_sep]. change (CONTIG_SEPARATOR =? SPEC_SEPARATOR) with true. cbv iota.
    destruct (split_sep rest []) as [es t]. cbn [fst snd]. rewrite app_nil_r. reflexivity.
  - cbn [app split_sep].
    replace (b =? SPEC_SEPARATOR) with false
      by (symmetry; apply N.eqb_neq; intro Hc; apply Hn; left; exact Hc).
    rewrite IH by (intro Hc; apply Hn; right; exact Hc).
    cbn [rev]. rewrite <- app_assoc. reflexivity.
Qed.

Lemma split_sep_flat : forall c, Forall nosep c -> split_sep (flat c) [] = (c, []).
Proof.
  induction c as [|e c IH]; intro H; [reflexivity|].
  inversion H as [|? ? He Hc]; subst. unfold flat. cbn [flat_map]. fold (flat c).
  rewrite <- app_assoc. cbn [app]. rewrite (split_sep_entry e (flat c) [] He), (IH Hc). reflexivity.
Qed.

(* a part written by `store_part` passes the metadata check; its marker is the one appended (or none: stored raw) *)
Lemma unpack_store_part : forall zd c m raw, dwm zd c m = Ok raw ->
  exists mk, unpack_part zd (store_part (c ++ [m]) raw) = SOk (raw, mk) /\ (mk = None \/ mk = Some m).
Proof.
  intros zd c m raw H. unfold store_part. destruct (lenN (c ++ [m]) <? lenN raw) eqn:E.
  - apply N.ltb_lt in E. exists (Some m). split; [|right; reflexivity].
    unfold unpack_part.
    replace (lenN raw =? SPEC_RAW_METADATA) with false by (symmetry; apply N.eqb_neq; unfold SPEC_RAW_METADATA; lia).
    destruct c as [|y c'].
    + exfalso. unfold dwm, decompress_segment_with_marker in H. apply ok_inj' in H. subst raw.
      unfold lenN in E. cbn [app length] in E. lia.
    + destruct ((y :: c') ++ [m]) as [|x l] eqn:Ecm; [discriminate|]. cbv beta iota zeta.
      rewrite <- Ecm. rewrite removelast_last, last_last.
      unfold dwm, decompress_segment_with_marker, zdo in H. cbv beta iota in H.
      change sc_reader_plain_marker with 0 in H. change SPEC_MARKER_PLAIN with 0.
      destruct (zd (y :: c')) as [u|]; destruct (m =? 0); cbn [obnd] in H; try discriminate.
      * apply ok_inj' in H. subst u. rewrite N.eqb_refl. reflexivity.
      * rewrite H. rewrite N.eqb_refl. reflexivity.
  - exists None. split; [|left; reflexivity]. reflexivity.
Qed.

Lemma unpack_packs_written : forall zd cp,
  (forall c, c <> [] -> dwm zd (cp (flat c)) MK = Ok (flat c)) ->
  forall l, chunks_ok l -> unpack_packs zd (map (mkpart cp) l) = SOk l.
Proof.
  intros zd cp Hcp. induction l as [|c r IH]; intro H; [reflexivity|].
  cbn [chunks_ok] in H. destruct H as [Hne [Hle [Hns [Hfull Hr]]]].
  cbn [map unpack_packs]. unfold mkpart at 1.
  destruct (unpack_store_part zd (cp (flat c)) MK (flat c) (Hcp c Hne)) as [mk [Hu Hmk]].
  rewrite Hu.
  assert (Hmb : marker_bad mk = false) by (destruct Hmk as [->| ->]; reflexivity).
  rewrite Hmb. rewrite (split_sep_flat c Hns). cbv beta iota zeta. cbn [is_nil negb orb].
  assert (Hl : 1 <= lenN c <= 50) by (unfold lenN; destruct c; [contradiction|cbn [length] in *; lia]).
  replace (lenN c =? 0) with false by (symmetry; apply N.eqb_neq; lia).
  replace (SPEC_PACK_CARDINALITY <? lenN c) with false by (symmetry; apply N.ltb_ge; unfold SPEC_PACK_CARDINALITY; lia).
  cbn [orb].
  assert (Hlast : negb (is_nil (map (mkpart cp) r)) && negb (lenN c =? SPEC_PACK_CARDINALITY) = false).
  { destruct r as [|c2 r']; [reflexivity|]. cbn [map is_nil negb andb].
    assert (E : length c = 50%nat) by (apply Hfull; discriminate).
    unfold lenN. rewrite E. reflexivity. }
  rewrite Hlast. rewrite (IH Hr). reflexivity.
Qed.

Lemma id_ok_of_addr : forall g id chunks, addr_ok (is_lz g) id chunks -> id_ok g id chunks = true.
Proof.
  intros g id chunks. unfold addr_ok, id_ok, is_lz. change W_NO_RAW_GROUPS with SPEC_NO_RAW_GROUPS.
  destruct (SPEC_NO_RAW_GROUPS <=? g).
  - intros [->|[c [Hc Hlt]]]; [reflexivity|]. apply orb_true_iff. right.
    unfold SPEC_FIRST_DELTA_ID, SPEC_PACK_CARDINALITY, nthN. rewrite Hc. apply N.ltb_lt. exact Hlt.
  - intros [Hne [c [Hc Hlt]]]. apply andb_true_iff. split; [apply negb_true_iff; apply N.eqb_neq; exact Hne|].
    unfold SPEC_PACK_CARDINALITY, nthN. rewrite Hc. apply N.ltb_lt. exact Hlt.
Qed.

(* one group: the checks of [check_group] on a view of the shape [group_layout] gives *)
Lemma check_group_of_view : forall zd rd g cp chunks rparts b,
  group_view_of rd g = Ok {| gv_ref := Some rparts; gv_delta := Some (map (mkpart cp) chunks) |} ->
  (SPEC_NO_RAW_GROUPS <=? g) = b ->
  chunks_ok chunks -> (forall c, c <> [] -> dwm zd (cp (flat c)) MK = Ok (flat c)) ->
  (if b then exists p x, rparts = [p] /\ unpack_part zd p = SOk x
   else rparts = [] /\ exists rest crest, chunks = ([PH] :: rest) :: crest) ->
  check_group zd rd g = SOk chunks.
Proof.
  intros zd rd g cp chunks rparts b Hv Hb Hck Hcp Hr. unfold check_group. rewrite Hv, Hb. cbv beta iota zeta.
  cbn [gv_ref gv_delta]. rewrite (unpack_packs_written zd cp Hcp chunks Hck). destruct b.
  - destruct Hr as [p [x [-> Hx]]]. rewrite Hx. reflexivity.
  - destruct Hr as [-> [rest [crest ->]]]. reflexivity.
Qed.

(* ---- directory *)
Lemma seg_stream_id_gen : forall dg sfx g isr, b64_value dg = Some g ->
  (sfx = 114 /\ isr = true) \/ (sfx = 100 /\ isr = false) ->
  120 :: dg ++ [sfx] = (if isr then stream_ref_name g else stream_delta_name g) ->
  seg_stream_id (120 :: dg ++ [sfx]) = Some (g, isr).
Proof.
  intros dg sfx g isr Hv Hs Hn. unfold seg_stream_id.
  change (list_eqb N.eqb [120] SPEC_STREAM_PREFIX) with true. cbv beta iota.
  rewrite rev_app_distr. cbn [rev app]. cbv beta iota zeta.
  destruct Hs as [[-> ->]|[-> ->]].
  - change (list_eqb N.eqb [114] SPEC_REF_SUFFIX) with true. cbn [orb]. cbv beta iota.
    rewrite rev_involutive, Hv. cbv beta iota. rewrite Hn.
    rewrite (proj2 (list_eqb_N_spec (stream_ref_name g) (stream_ref_name g)) eq_refl). reflexivity.
  - change (list_eqb N.eqb [100] SPEC_REF_SUFFIX) with false. change (list_eqb N.eqb [100] SPEC_DELTA_SUFFIX) with true.
    cbn [orb]. cbv beta iota.
    rewrite rev_involutive, Hv. cbv beta iota. rewrite Hn.
    rewrite (proj2 (list_eqb_N_spec (stream_delta_name g) (stream_delta_name g)) eq_refl). reflexivity.
Qed.

Lemma b64_of_u32 : forall g, g < two32 -> b64_value (int_to_base64 g) = Some g.
Proof.
  intros g Hg. unfold int_to_base64. apply b64_value_digits.
  change (64 ^ N.of_nat 6) with 68719476736. unfold two32 in Hg. lia.
Qed.

Lemma seg_stream_id_ref : forall g, g < two32 -> seg_stream_id (stream_ref_name g) = Some (g, true).
Proof.
  intros g Hg. change (stream_ref_name g) with (120 :: int_to_base64 g ++ [114]) at 1.
  apply seg_stream_id_gen; [apply b64_of_u32; exact Hg|left; split; reflexivity|reflexivity].
Qed.

Lemma seg_stream_id_delta : forall g, g < two32 -> seg_stream_id (stream_delta_name g) = Some (g, false).
Proof.
  intros g Hg. change (stream_delta_name g) with (120 :: int_to_base64 g ++ [100]) at 1.
  apply seg_stream_id_gen; [apply b64_of_u32; exact Hg|right; split; reflexivity|reflexivity].
Qed.

(* the shape of the stream directory of a written archive: every name is a pinned fixed name or the canonical
   name of one of the two streams of a u32 group id, and both streams of that group are there *)
Definition names_paired (nms : list (list N)) : Prop :=
  Forall (fun nm => In nm SPEC_FIXED_NAMES \/
            exists g, g < two32 /\ (nm = stream_ref_name g \/ nm = stream_delta_name g) /\
                      In (stream_ref_name g) nms /\ In (stream_delta_name g) nms) nms.

Lemma existsb_list_eqb : forall (x : list N) l, In x l -> existsb (list_eqb N.eqb x) l = true.
Proof.
  intros x l H. apply existsb_exists. exists x. split; [exact H|]. apply list_eqb_N_spec. reflexivity.
Qed.

Lemma names_ok_paired : forall rd, names_paired (get_stream_names rd) -> names_ok rd = true.
Proof.
  intros rd H. unfold names_ok. cbv zeta. apply forallb_forall. intros nm Hnm.
  unfold names_paired in H. rewrite Forall_forall in H.
  destruct (H nm Hnm) as [Hf|[g [Hg [Hn [Hr Hd]]]]].
  - rewrite (existsb_list_eqb nm _ Hf). reflexivity.
  - apply orb_true_iff. right. destruct Hn as [->| ->].
    + rewrite (seg_stream_id_ref g Hg). apply existsb_list_eqb. exact Hd.
    + rewrite (seg_stream_id_delta g Hg). apply existsb_list_eqb. exact Hr.
Qed.

(* ---- the table of groups and the descriptor loop *)
Lemma nodupN_in : forall l seen x, In x (nodupN l seen) -> In x l.
Proof.
  induction l as [|a l IH]; intros seen x H; cbn [nodupN] in H; [destruct H|].
  destruct (existsb (N.eqb a) seen).
  - right. exact (IH _ _ H).
  - destruct H as [<-|H]; [left; reflexivity|right; exact (IH _ _ H)].
Qed.

Lemma nodupN_complete : forall l seen x, In x l -> In x (nodupN l seen) \/ In x seen.
Proof.
  induction l as [|a l IH]; intros seen x H; [destruct H|]. cbn [nodupN].
  destruct (existsb (N.eqb a) seen) eqn:E.
  - destruct H as [<-|H]; [|apply IH; exact H].
    right. apply existsb_exists in E. destruct E as [y [Hy Ey]]. apply N.eqb_eq in Ey. subst y. exact Hy.
  - destruct H as [<-|H]; [left; left; reflexivity|].
    destruct (IH (a :: seen) x H) as [H1|[<-|H1]]; [left; right; exact H1|left; left; reflexivity|right; exact H1].
Qed.

Definition packs_of (zd : list N -> option (list N)) (rd : reader) (g : N) : list (list (list N)) :=
  match check_group zd rd g with SOk x => x | SErr _ => [] end.

Lemma check_groups_ok : forall zd rd gs, (forall g, In g gs -> exists x, check_group zd rd g = SOk x) ->
  check_groups zd rd gs = SOk (map (fun g => (g, packs_of zd rd g)) gs).
Proof.
  induction gs as [|a gs IH]; intro H; [reflexivity|]. cbn [check_groups map].
  destruct (H a (or_introl eq_refl)) as [x Hx]. unfold packs_of at 1. rewrite Hx.
  rewrite IH by (intros g Hg; apply H; right; exact Hg). reflexivity.
Qed.

Lemma assoc_g_map : forall {A} (f : N -> A) gs g, In g gs -> assoc_g g (map (fun x => (x, f x)) gs) = Some (f g).
Proof.
  induction gs as [|a gs IH]; intros g H; [destruct H|]. cbn [map assoc_g].
  destruct (N.eqb_spec a g) as [->|Ne]; [reflexivity|]. destruct H as [H|H]; [contradiction|]. apply IH. exact H.
Qed.

Lemma first_err_none : forall {A} (f : A -> option N) l, (forall x, In x l -> f x = None) -> first_err f l = None.
Proof.
  induction l as [|x l IH]; intro H; [reflexivity|]. cbn [first_err]. rewrite (H x (or_introl eq_refl)).
  apply IH. intros y Hy. apply H. right. exact Hy.
Qed.

Lemma all_segs_placed : forall (L : layout) cr, samples cr = samples_of L ->
  forall x, In x (all_segs cr) -> exists p, placed_in L p /\ x = pl_desc p.
Proof.
  intros L cr H x Hx. unfold all_segs in Hx. rewrite H in Hx. apply in_flat_map in Hx. destruct Hx as [sm' [Hs Hx]].
  unfold samples_of in Hs. apply in_map_iff in Hs. destruct Hs as [sm [<- Hsm]]. cbn [scontigs] in Hx.
  apply in_flat_map in Hx. destruct Hx as [ct' [Hc Hx]]. apply in_map_iff in Hc. destruct Hc as [ct [<- Hct]].
  cbn [csegs] in Hx. apply in_map_iff in Hx. destruct Hx as [p [<- Hp]].
  exists p. split; [exists sm, ct; auto|reflexivity].
Qed.

(* ================================================================ 3. every written file passes every strict check *)
Section StrictWritten.
  Variable zc : N -> list N -> list N.
  Variable zd : list N -> option (list N).
  Hypothesis Hzd : forall l x, zd (zc l x) = Some x.
  Hypothesis Hzc : forall l x, zc l x <> [].
  Variable k mml ss level : N.
  Hypothesis Hmml : 4 <= mml.
  Hypothesis Hk32 : k < two32.
  Hypothesis Hm32 : mml < two32.
  Hypothesis Hs32 : ss < two32.
  Hypothesis Hssk : ss + k <= 2147483648.
  Variable gops : list op.
  Variable st : store.
  Hypothesis Hrun : run (m_lz_enc mml) (m_cref zc) (m_cpack zc level) gops = Ok st.
  Hypothesis Hops : GroupStore_proofs.ops_ok ref_dom (lz_dom mml) gops.
  Variable L : layout.
  Variable c cw : coll.
  Variable a : arch.
  Hypothesis Hsamples : samples c = samples_of L.
  Hypothesis Hss : segment_size c = ss.
  Hypothesis Hkk : kmer_length c = k.
  Hypothesis Hn : lenN (samples c) < 4294967296.
  Hypothesis Hnames : Forall (fun s => Forall (fun b => 1 <= b < 128) (sname s)) (samples c).
  Hypothesis Hbatches : Forall (Collection_proofs.batch_ok zc ss k)
                               (Collection_proofs.chunks (length (samples c)) (N.to_nat SPEC_CATALOGUE_BATCH) (samples c)).
  Hypothesis Hstore : store_all zc SPEC_CATALOGUE_BATCH c arch_empty = Ok (cw, a).
  Hypothesis Hplaced : forall p, placed_in L p -> In (pl_seg p, pl_id p) (regs_of st (pl_group p)).
  Hypothesis Hoverlap : forall sm ct, In sm L -> In ct (snd sm) ->
                        Forall (fun p => k <= lenN (s_data (pl_seg p))) (tl (snd ct)).
  Variable ops : list wop.
  Hypothesis Hwf : Forall wop_wf ops.
  Let w := fst (wrun w_init ops).
  Let s := fst (sp_run sp_init ops).
  Hypothesis Hlen : lenN (close w) <= spec_max_off.
  Hypothesis Hparams : sp_parts s SPEC_NAME_PARAMS = Some [(encode_params k mml ss, SPEC_PARAMS_METADATA)].
  Hypothesis Hsam : sp_parts s SPEC_NAME_SAMPLES = Some (a_samples a).
  Hypothesis Hcon : sp_parts s SPEC_NAME_CONTIGS = Some (a_contigs a).
  Hypothesis Hdet : sp_parts s SPEC_NAME_DETAILS = Some (a_details a).
  Hypothesis Hgroups : forall p, placed_in L p ->
    sp_parts s (stream_ref_name (pl_group p)) =
      option_map (map unswap) (gv_ref (view_of (finalize (m_cpack zc level) st) (pl_group p))) /\
    sp_parts s (stream_delta_name (pl_group p)) =
      option_map (map unswap) (gv_delta (view_of (finalize (m_cpack zc level) st) (pl_group p))).
  (* the one hypothesis writer_conforms does not need: nothing else is in the directory *)
  Hypothesis Hdir : names_paired (map ss_name (sp_streams s)).

  Let HC := codecs_instance_proof zc zd Hzd Hzc mml level Hmml.

  Lemma check_group_written : forall rd, (forall name, stream_items rd name = Ok (sp_items s name)) ->
    forall p, placed_in L p ->
    exists chunks, check_group zd rd (pl_group p) = SOk chunks /\
      forall sg id, In (sg, id) (regs_of st (pl_group p)) -> id_ok (pl_group p) id chunks = true.
  Proof.
    intros rd Hitems p Hp. destruct (Hgroups p Hp) as [Hr Hd].
    pose proof (group_view_ok zc zd Hzd Hzc mml level Hmml gops st Hrun Hops ops rd Hitems (pl_group p) Hr Hd) as Hgv.
    destruct (group_layout _ _ _ _ _ _ _ HC gops st (pl_group p) (pl_seg p) (pl_id p) Hops Hrun (Hplaced p Hp))
      as [chunks [rparts [Hview [Hck [Hrefp Haddr]]]]].
    rewrite Hview in Hgv.
    exists chunks. split.
    - apply (check_group_of_view zd rd (pl_group p) (m_cpack zc level) chunks rparts (is_lz (pl_group p)) Hgv eq_refl Hck).
      + intros c0 Hc0. destruct HC as [_ [Hpk _]]. apply Hpk. apply flat_nonempty. exact Hc0.
      + destruct (is_lz (pl_group p)); [|exact Hrefp].
        destruct Hrefp as [r [-> Hrd]]. destruct HC as [Hrf _]. destruct (Hrf r Hrd) as [Hdw _].
        destruct (unpack_store_part zd _ _ _ Hdw) as [mk [Hu _]].
        exists (ref_part (m_cref zc) r), (r, mk). split; [reflexivity|exact Hu].
    - intros sg id Hin. apply id_ok_of_addr. exact (Haddr sg id Hin).
  Qed.

  Theorem strict_accepts_written_proof : strict_check zd (close w) = None.
  Proof.
    destruct (catalogue_half_proof zc zd Hzd Hzc ss k Hssk c cw a Hss Hkk Hn Hnames Hbatches Hstore ops Hwf Hlen
                Hsam Hcon Hdet) as [rd [cr [Hopen [Hitems [Hcoll [Hload [Hsm _]]]]]]].
    fold w in Hopen. fold s in Hitems.
    assert (Hnm : get_stream_names rd = map ss_name (sp_streams s)).
    { assert (H64 : lenN (close w) < two64) by (unfold spec_max_off, two64 in *; lia).
      destruct (Container_proofs.container_refines_spec_proof ops spec_max_off Hwf H64 Hlen) as [_ [rd' [Hd [Hdir' _]]]].
      fold w in Hd. fold s in Hdir'. pose proof Hopen as Ho. unfold open_archive in Ho. rewrite Hd in Ho. cbn [snd] in Ho.
      apply ok_inj' in Ho. subst rd'. unfold get_stream_names. unfold directory, sp_directory in Hdir'.
      pose proof (f_equal (map (fun x : list N * N * N => fst (fst x))) Hdir') as E. rewrite !map_map in E.
      cbn [fst] in E. exact E. }
    assert (Hp : read_params rd = Ok (mkParams k mml SPEC_PACK_CARDINALITY ss None 16)).
    { unfold read_params. rewrite Hitems. cbn [obnd]. rewrite sp_items_parts, Hparams. cbn [option_map map].
      assert (E : sp_view (encode_params k mml ss, SPEC_PARAMS_METADATA) = (encode_params k mml ss, SPEC_PARAMS_METADATA))
        by (unfold encode_params; cbn [le_bytes app]; reflexivity).
      rewrite E. cbn [fst]. apply decode_encode_params; assumption. }
    unfold strict_check. rewrite Hopen.
    rewrite (names_ok_paired rd) by (rewrite Hnm; exact Hdir). cbn [negb].
    rewrite Hp. change (params_ok (mkParams k mml SPEC_PACK_CARDINALITY ss None 16)) with true.
    cbn [negb p_segsize p_k p_mml]. rewrite Hcoll. cbn [obnd]. rewrite Hload. cbv zeta.
    pose proof (all_segs_placed L cr (eq_trans Hsm Hsamples)) as Hsegs.
    set (segs := all_segs cr) in *.
    assert (Hgrp : forall g, In g (nodupN (map sg segs) []) -> exists x, check_group zd rd g = SOk x).
    { intros g Hg. apply nodupN_in in Hg. apply in_map_iff in Hg. destruct Hg as [x [<- Hx]].
      destruct (Hsegs x Hx) as [p [Hp' ->]]. cbn [pl_desc sg].
      destruct (check_group_written rd Hitems p Hp') as [ch [Hc _]]. exists ch. exact Hc. }
    rewrite (check_groups_ok zd rd _ Hgrp).
    apply first_err_none. intros x Hx. destruct (Hsegs x Hx) as [p [Hp' Ex]].
    assert (Hing : In (pl_group p) (nodupN (map sg segs) [])).
    { destruct (nodupN_complete (map sg segs) [] (pl_group p)) as [H|[]]; [|exact H].
      apply in_map_iff. exists x. split; [rewrite Ex; reflexivity|exact Hx]. }
    subst x. unfold check_desc. cbn [pl_desc sg si sl].
    rewrite (assoc_g_map (packs_of zd rd) _ _ Hing).
    destruct (check_group_written rd Hitems p Hp') as [ch [Hc Hid]]. unfold packs_of. rewrite Hc.
    rewrite (Hid _ _ (Hplaced p Hp')).
    destruct (Hgroups p Hp') as [Hr Hd].
    destruct (segment_half_proof zc zd Hzd Hzc mml level Hmml gops st Hrun Hops ops rd Hitems (pl_group p) Hr Hd
                (pl_seg p) (pl_id p) (Hplaced p Hp')) as [Hg Hl].
    change (desc_of_seg (pl_desc p)) with (desc_of (pl_group p) (pl_seg p) (pl_id p)).
    rewrite Hg, Hl, N.eqb_refl. reflexivity.
  Qed.

  Theorem strict_decodes_written_proof : decode_strict zd (close w) = SOk (reassembled k L).
  Proof.
    unfold decode_strict. rewrite strict_accepts_written_proof.
    pose proof (writer_conforms_proof zc zd Hzd Hzc k mml ss level Hmml Hk32 Hm32 Hs32 Hssk gops st Hrun Hops L c cw a
               Hsamples Hss Hkk Hn Hnames Hbatches Hstore Hplaced Hoverlap ops Hwf Hlen Hparams Hsam Hcon Hdet Hgroups) as HW.
    fold w in HW. rewrite HW. reflexivity.
  Qed.

  Theorem strict_accepts_written_both :
    strict_check zd (close w) = None /\ decode_strict zd (close w) = SOk (reassembled k L).
  Proof. split; [exact strict_accepts_written_proof|exact strict_decodes_written_proof]. Qed.
End StrictWritten.

(* ================================================================ 4. what strict acceptance means, rule by rule
   (ANY file: these are inversions of the checker; with section 3 they hold for every written file) *)
Lemma sok_inj {A} (x y : A) : SOk x = SOk y -> x = y.
Proof. intro H. injection H as H. exact H. Qed.

Ltac split_matches H :=
  repeat match type of H with
         | SErr _ = SOk _ => discriminate H
         | Some _ = None => discriminate H
         | context [match ?X with _ => _ end] => destruct X eqn:?; try discriminate H
         end.

(* metadata 0 <=> the part holds the raw bytes (no marker); otherwise it unpacks to exactly `metadata` bytes *)
Lemma unpack_part_meaning : forall zd (q : SegReader.part) raw mk, unpack_part zd q = SOk (raw, mk) ->
  (fst q = 0 /\ raw = snd q /\ mk = None) \/ (fst q <> 0 /\ lenN raw = fst q /\ mk <> None).
Proof.
  intros zd [meta data] raw mk H. unfold unpack_part in H. change SPEC_RAW_METADATA with 0 in H. cbn [fst snd].
  destruct (N.eqb_spec meta 0) as [E|E].
  - apply sok_inj in H. injection H as <- <-. left. auto.
  - right. cbv beta iota zeta in H. split_matches H.
    apply sok_inj in H. injection H as <- <-.
    match goal with Hl : (lenN _ =? meta) = true |- _ => apply N.eqb_eq in Hl; rewrite Hl end.
    split; [exact E|]. split; [reflexivity|discriminate].
Qed.

Lemma marker_ok_meaning : forall mk, marker_bad mk = false -> mk = None \/ mk = Some 0.
Proof.
  intros [m|] H; [|left; reflexivity]. right. unfold marker_bad, SPEC_PACK_MARKER in H.
  apply negb_false_iff in H. apply N.eqb_eq in H. subst. reflexivity.
Qed.

Lemma unpack_packs_inv : forall zd parts packs, unpack_packs zd parts = SOk packs ->
  length packs = length parts /\
  forall i q es, nth_error parts i = Some q -> nth_error packs i = Some es ->
    exists raw mk, unpack_part zd q = SOk (raw, mk) /\ marker_bad mk = false /\
                   split_sep raw [] = (es, []) /\ 1 <= lenN es <= 50 /\
                   ((S i < length parts)%nat -> lenN es = 50).
Proof.
  intros zd. induction parts as [|q rest IH]; intros packs H; cbn [unpack_packs] in H.
  - apply sok_inj in H. subst. split; [reflexivity|]. intros [|i] ? ? Hq; discriminate.
  - destruct (unpack_part zd q) as [[raw mk]|e] eqn:Eu; [|discriminate].
    destruct (marker_bad mk) eqn:Em; [discriminate|].
    destruct (split_sep raw []) as [es t] eqn:Es. cbv beta iota zeta in H.
    destruct (negb (is_nil t) || (lenN es =? 0) || (SPEC_PACK_CARDINALITY <? lenN es)
              || negb (is_nil rest) && negb (lenN es =? SPEC_PACK_CARDINALITY)) eqn:Ec; [discriminate|].
    destruct (unpack_packs zd rest) as [r|e] eqn:Er; [|discriminate].
    apply sok_inj in H. subst packs. destruct (IH r eq_refl) as [Hlen Hall].
    apply orb_false_iff in Ec. destruct Ec as [Ec E4]. apply orb_false_iff in Ec. destruct Ec as [Ec E3].
    apply orb_false_iff in Ec. destruct Ec as [E1 E2].
    apply negb_false_iff in E1. apply is_nil_true in E1. subst t.
    apply N.eqb_neq in E2. apply N.ltb_ge in E3. unfold SPEC_PACK_CARDINALITY in E3, E4.
    split; [cbn [length]; rewrite Hlen; reflexivity|].
    intros [|i] q' es' Hq Hes; cbn [nth_error] in Hq, Hes.
    + injection Hq as <-. injection Hes as <-. exists raw, mk.
      split; [exact Eu|]. split; [exact Em|]. split; [exact Es|]. split; [lia|].
      intro Hlt. cbn [length] in Hlt. destruct rest as [|q2 rest']; [cbn [length] in Hlt; lia|].
      cbn [is_nil negb andb] in E4. apply negb_false_iff in E4. apply N.eqb_eq in E4. exact E4.
    + destruct (Hall i q' es' Hq Hes) as [raw' [mk' [H1 [H2 [H3 [H4 H5]]]]]]. exists raw', mk'.
      split; [exact H1|]. split; [exact H2|]. split; [exact H3|]. split; [exact H4|].
      intro Hlt. apply H5. cbn [length] in Hlt. lia.
Qed.

Lemma check_group_inv : forall zd rd g packs, check_group zd rd g = SOk packs ->
  exists gv dparts,
    group_view_of rd g = Ok gv /\ gv_delta gv = Some dparts /\
    (if SPEC_NO_RAW_GROUPS <=? g
     then exists q u, gv_ref gv = Some [q] /\ unpack_part zd q = SOk u
     else gv_ref gv = None \/ gv_ref gv = Some []) /\
    unpack_packs zd dparts = SOk packs /\
    ((SPEC_NO_RAW_GROUPS <=? g) = false -> exists rest crest, packs = ([SPEC_PLACEHOLDER] :: rest) :: crest).
Proof.
  intros zd rd g packs H. unfold check_group in H.
  destruct (group_view_of rd g) as [gv| |] eqn:Eg; try discriminate. cbv beta iota zeta in H.
  exists gv. destruct (SPEC_NO_RAW_GROUPS <=? g) eqn:El.
  - destruct (gv_ref gv) as [[|q [|q2 r]]|] eqn:Er; cbv beta iota in H; try discriminate.
    destruct (unpack_part zd q) as [u|e] eqn:Eu; cbv beta iota in H; [|discriminate].
    destruct (gv_delta gv) as [dparts|]; [|discriminate].
    destruct (unpack_packs zd dparts) as [pk|e] eqn:Eup; [|discriminate].
    apply sok_inj in H. subst pk. exists dparts.
    split; [reflexivity|]. split; [reflexivity|]. split; [exists q, u; auto|]. split; [exact Eup|discriminate].
  - destruct (gv_ref gv) as [[|q [|q2 r]]|] eqn:Er; cbv beta iota in H; try discriminate.
    + destruct (gv_delta gv) as [dparts|]; [|discriminate].
      destruct (unpack_packs zd dparts) as [pk|e] eqn:Eup; [|discriminate].
      destruct pk as [|[|e0 rest] crest]; try discriminate.
      destruct (list_eqb N.eqb e0 [SPEC_PLACEHOLDER]) eqn:Ee; [|discriminate].
      apply list_eqb_N_spec in Ee. subst e0. apply sok_inj in H. subst packs. exists dparts.
      split; [reflexivity|]. split; [reflexivity|]. split; [right; reflexivity|]. split; [exact Eup|].
      intros _. exists rest, crest. reflexivity.
    + destruct (gv_delta gv) as [dparts|]; [|discriminate].
      destruct (unpack_packs zd dparts) as [pk|e] eqn:Eup; [|discriminate].
      destruct pk as [|[|e0 rest] crest]; try discriminate.
      destruct (list_eqb N.eqb e0 [SPEC_PLACEHOLDER]) eqn:Ee; [|discriminate].
      apply list_eqb_N_spec in Ee. subst e0. apply sok_inj in H. subst packs. exists dparts.
      split; [reflexivity|]. split; [reflexivity|]. split; [left; reflexivity|]. split; [exact Eup|].
      intros _. exists rest, crest. reflexivity.
Qed.

Lemma check_groups_inv : forall zd rd gs tbl, check_groups zd rd gs = SOk tbl ->
  forall g packs, assoc_g g tbl = Some packs -> check_group zd rd g = SOk packs.
Proof.
  intros zd rd. induction gs as [|a gs IH]; intros tbl H g packs Ha; cbn [check_groups] in H.
  - apply sok_inj in H. subst tbl. discriminate.
  - destruct (check_group zd rd a) as [pk|e] eqn:Ec; [|discriminate].
    destruct (check_groups zd rd gs) as [t|e] eqn:Et; [|discriminate].
    apply sok_inj in H. subst tbl. cbn [assoc_g] in Ha. destruct (N.eqb_spec a g) as [->|Ne].
    + injection Ha as <-. exact Ec.
    + exact (IH t eq_refl g packs Ha).
Qed.

Lemma first_err_inv : forall {A} (f : A -> option N) l, first_err f l = None -> forall x, In x l -> f x = None.
Proof.
  induction l as [|y l IH]; intros H x Hx; [destruct Hx|]. cbn [first_err] in H.
  destruct (f y) eqn:Ey; [discriminate|]. destruct Hx as [<-|Hx]; [exact Ey|exact (IH H x Hx)].
Qed.

(* what the reader sees first: the directory, the params, the catalogue *)
Definition opened (zd : list N -> option (list N)) (file : list N) (rd : reader) (p : params) (cr : coll) : Prop :=
  open_archive file = Ok rd /\ read_params rd = Ok p /\
  obnd (coll_arch rd) (load_all zd (p_segsize p) (p_k p)) = Ok cr.

Lemma accepted_opens : forall zd file, strict_check zd file = None -> exists rd p cr, opened zd file rd p cr.
Proof.
  intros zd file H. unfold strict_check in H.
  destruct (open_archive file) as [rd| |] eqn:Eo; try discriminate.
  destruct (negb (names_ok rd)); [discriminate|].
  destruct (read_params rd) as [p| |] eqn:Ep; try discriminate.
  destruct (negb (params_ok p)); [discriminate|].
  destruct (obnd (coll_arch rd) (load_all zd (p_segsize p) (p_k p))) as [cr| |] eqn:Ec; try discriminate.
  exists rd, p, cr. split; [exact Eo|]. split; [exact Ep|exact Ec].
Qed.

Lemma accepted_facts : forall zd file, strict_check zd file = None ->
  forall rd p cr, opened zd file rd p cr ->
  names_ok rd = true /\ params_ok p = true /\
  forall x, In x (all_segs cr) ->
    exists gv dparts packs data,
      group_view_of rd (sg x) = Ok gv /\ gv_delta gv = Some dparts /\
      (if SPEC_NO_RAW_GROUPS <=? sg x
       then exists q u, gv_ref gv = Some [q] /\ unpack_part zd q = SOk u
       else gv_ref gv = None \/ gv_ref gv = Some []) /\
      unpack_packs zd dparts = SOk packs /\
      ((SPEC_NO_RAW_GROUPS <=? sg x) = false -> exists rest crest, packs = ([SPEC_PLACEHOLDER] :: rest) :: crest) /\
      id_ok (sg x) (si x) packs = true /\
      get_seg zd rd (p_mml p) (desc_of_seg x) = Ok data /\ lenN data = sl x.
Proof.
  intros zd file H rd p cr (Eo & Ep & Ec). unfold strict_check in H. rewrite Eo in H.
  destruct (names_ok rd); [|discriminate]. cbn [negb] in H. rewrite Ep in H.
  destruct (params_ok p); [|discriminate]. cbn [negb] in H. rewrite Ec in H. cbv zeta in H.
  split; [reflexivity|]. split; [reflexivity|].
  destruct (check_groups zd rd (nodupN (map sg (all_segs cr)) [])) as [tbl|e] eqn:Et; [|discriminate].
  intros x Hx. pose proof (first_err_inv _ _ H x Hx) as Hd. unfold check_desc in Hd.
  destruct (assoc_g (sg x) tbl) as [packs|] eqn:Ea; [|discriminate].
  destruct (id_ok (sg x) (si x) packs) eqn:Ei; [|discriminate].
  destruct (get_seg zd rd (p_mml p) (desc_of_seg x)) as [data| |] eqn:Eg; try discriminate.
  destruct (lenN data =? sl x) eqn:El; [|discriminate]. apply N.eqb_eq in El.
  destruct (check_group_inv zd rd (sg x) packs (check_groups_inv zd rd _ tbl Et (sg x) packs Ea))
    as [gv [dparts [H1 [H2 [H3 [H4 H5]]]]]].
  exists gv, dparts, packs, data. repeat (split; [first [assumption|reflexivity]|]). exact El.
Qed.

(* ---- the rules, one per error code of [strict_check], as predicates on (zd, file) *)
Definition rule_container (file : list N) : Prop := exists rd, open_archive file = Ok rd.
Definition rule_names (file : list N) : Prop := forall rd, open_archive file = Ok rd -> names_ok rd = true.
Definition rule_params (file : list N) : Prop :=
  exists rd p, open_archive file = Ok rd /\ read_params rd = Ok p /\ params_ok p = true.
Definition rule_collection (zd : list N -> option (list N)) (file : list N) : Prop := exists rd p cr, opened zd file rd p cr.
(* the others speak about every descriptor x of the catalogue the file holds *)
Definition per_desc (zd : list N -> option (list N)) (file : list N)
    (R : reader -> params -> seg -> Prop) : Prop :=
  forall rd p cr x, opened zd file rd p cr -> In x (all_segs cr) -> R rd p x.
Definition rule_stream zd file : Prop := per_desc zd file (fun rd _ x =>
  exists gv dparts, group_view_of rd (sg x) = Ok gv /\ gv_delta gv = Some dparts).
Definition rule_ref_parts zd file : Prop := per_desc zd file (fun rd _ x =>
  exists gv, group_view_of rd (sg x) = Ok gv /\
    if SPEC_NO_RAW_GROUPS <=? sg x then exists q, gv_ref gv = Some [q]
    else gv_ref gv = None \/ gv_ref gv = Some []).
Definition rule_metadata zd file : Prop := per_desc zd file (fun rd _ x =>
  exists gv dparts, group_view_of rd (sg x) = Ok gv /\ gv_delta gv = Some dparts /\
    forall q, In q dparts \/ (SPEC_NO_RAW_GROUPS <= sg x /\ gv_ref gv = Some [q]) ->
      exists raw mk, unpack_part zd q = SOk (raw, mk) /\
        ((fst q = 0 /\ raw = snd q /\ mk = None) \/ (fst q <> 0 /\ lenN raw = fst q /\ mk <> None))).
Definition rule_pack_marker zd file : Prop := per_desc zd file (fun rd _ x =>
  exists gv dparts, group_view_of rd (sg x) = Ok gv /\ gv_delta gv = Some dparts /\
    forall q, In q dparts -> exists raw mk, unpack_part zd q = SOk (raw, mk) /\ (mk = None \/ mk = Some SPEC_PACK_MARKER)).
Definition rule_pack_layout zd file : Prop := per_desc zd file (fun rd _ x =>
  exists gv dparts packs, group_view_of rd (sg x) = Ok gv /\ gv_delta gv = Some dparts /\
    unpack_packs zd dparts = SOk packs /\ length packs = length dparts /\
    forall i q es, nth_error dparts i = Some q -> nth_error packs i = Some es ->
      exists raw mk, unpack_part zd q = SOk (raw, mk) /\ split_sep raw [] = (es, []) /\
        1 <= lenN es <= SPEC_PACK_CARDINALITY /\ ((S i < length dparts)%nat -> lenN es = SPEC_PACK_CARDINALITY)).
Definition rule_placeholder zd file : Prop := per_desc zd file (fun rd _ x =>
  sg x < SPEC_NO_RAW_GROUPS ->
  exists gv dparts packs rest crest, group_view_of rd (sg x) = Ok gv /\ gv_delta gv = Some dparts /\
    unpack_packs zd dparts = SOk packs /\ packs = ([SPEC_PLACEHOLDER] :: rest) :: crest).
Definition rule_id zd file : Prop := per_desc zd file (fun rd _ x =>
  exists gv dparts packs, group_view_of rd (sg x) = Ok gv /\ gv_delta gv = Some dparts /\
    unpack_packs zd dparts = SOk packs /\ id_ok (sg x) (si x) packs = true).
Definition rule_decode zd file : Prop := per_desc zd file (fun rd p x =>
  exists data, get_seg zd rd (p_mml p) (desc_of_seg x) = Ok data).
Definition rule_desc_len zd file : Prop := per_desc zd file (fun rd p x =>
  forall data, get_seg zd rd (p_mml p) (desc_of_seg x) = Ok data -> lenN data = sl x).

Section Accepted.
  Variable zd : list N -> option (list N).
  Variable file : list N.
  Hypothesis Hacc : strict_check zd file = None.

  Lemma acc_container : rule_container file.
  Proof. destruct (accepted_opens zd file Hacc) as [rd [p [cr [H _]]]]. exists rd. exact H. Qed.
  Lemma acc_names : rule_names file.
  Proof.
    intros rd Ho. destruct (accepted_opens zd file Hacc) as [rd' [p [cr Hop]]].
    pose proof Hop as [Ho' _]. rewrite Ho in Ho'. apply ok_inj' in Ho'. subst rd'.
    exact (proj1 (accepted_facts zd file Hacc rd p cr Hop)).
  Qed.
  Lemma acc_params : rule_params file.
  Proof.
    destruct (accepted_opens zd file Hacc) as [rd [p [cr Hop]]]. exists rd, p.
    split; [exact (proj1 Hop)|]. split; [exact (proj1 (proj2 Hop))|].
    exact (proj1 (proj2 (accepted_facts zd file Hacc rd p cr Hop))).
  Qed.
  Lemma acc_collection : rule_collection zd file.
  Proof. exact (accepted_opens zd file Hacc). Qed.

  Ltac facts rd p cr x Hop Hx :=
    destruct (proj2 (proj2 (accepted_facts zd file Hacc rd p cr Hop)) x Hx)
      as [gv [dparts [packs [data [F1 [F2 [F3 [F4 [F5 [F6 [F7 F8]]]]]]]]]]].

  Lemma acc_stream : rule_stream zd file.
  Proof. intros rd p cr x Hop Hx. facts rd p cr x Hop Hx. exists gv, dparts. auto. Qed.
  Lemma acc_ref_parts : rule_ref_parts zd file.
  Proof.
    intros rd p cr x Hop Hx. facts rd p cr x Hop Hx. exists gv. split; [exact F1|].
    destruct (SPEC_NO_RAW_GROUPS <=? sg x); [|exact F3]. destruct F3 as [q [u [H _]]]. exists q. exact H.
  Qed.
  Lemma acc_metadata : rule_metadata zd file.
  Proof.
    intros rd p cr x Hop Hx. facts rd p cr x Hop Hx. exists gv, dparts. split; [exact F1|]. split; [exact F2|].
    intros q [Hq|[Hg Hq]].
    - apply In_nth_error in Hq. destruct Hq as [i Hi]. destruct (unpack_packs_inv zd dparts packs F4) as [Hl Hall].
      destruct (nth_error packs i) as [es|] eqn:Ees.
      + destruct (Hall i q es Hi Ees) as [raw [mk [H1 _]]]. exists raw, mk. split; [exact H1|].
        exact (unpack_part_meaning zd q raw mk H1).
      + exfalso. apply nth_error_None in Ees. assert (i < length dparts)%nat by (apply nth_error_Some; congruence). lia.
    - apply N.leb_le in Hg. rewrite Hg in F3. destruct F3 as [q' [[raw mk] [Hr Hu]]]. rewrite Hq in Hr.
      injection Hr as <-. exists raw, mk. split; [exact Hu|]. exact (unpack_part_meaning zd q raw mk Hu).
  Qed.
  Lemma acc_pack_marker : rule_pack_marker zd file.
  Proof.
    intros rd p cr x Hop Hx. facts rd p cr x Hop Hx. exists gv, dparts. split; [exact F1|]. split; [exact F2|].
    intros q Hq. apply In_nth_error in Hq. destruct Hq as [i Hi].
    destruct (unpack_packs_inv zd dparts packs F4) as [Hl Hall].
    destruct (nth_error packs i) as [es|] eqn:Ees.
    - destruct (Hall i q es Hi Ees) as [raw [mk [H1 [H2 _]]]]. exists raw, mk. split; [exact H1|].
      exact (marker_ok_meaning mk H2).
    - exfalso. apply nth_error_None in Ees. assert (i < length dparts)%nat by (apply nth_error_Some; congruence). lia.
  Qed.
  Lemma acc_pack_layout : rule_pack_layout zd file.
  Proof.
    intros rd p cr x Hop Hx. facts rd p cr x Hop Hx. exists gv, dparts, packs.
    destruct (unpack_packs_inv zd dparts packs F4) as [Hl Hall].
    split; [exact F1|]. split; [exact F2|]. split; [exact F4|]. split; [exact Hl|].
    intros i q es Hi Hes. destruct (Hall i q es Hi Hes) as [raw [mk [H1 [_ [H3 [H4 H5]]]]]].
    exists raw, mk. split; [exact H1|]. split; [exact H3|]. split; [exact H4|exact H5].
  Qed.
  Lemma acc_placeholder : rule_placeholder zd file.
  Proof.
    intros rd p cr x Hop Hx Hlt. facts rd p cr x Hop Hx.
    assert (El : (SPEC_NO_RAW_GROUPS <=? sg x) = false) by (apply N.leb_gt; exact Hlt).
    destruct (F5 El) as [rest [crest E]]. exists gv, dparts, packs, rest, crest. auto.
  Qed.
  Lemma acc_id : rule_id zd file.
  Proof. intros rd p cr x Hop Hx. facts rd p cr x Hop Hx. exists gv, dparts, packs. auto. Qed.
  Lemma acc_decode : rule_decode zd file.
  Proof. intros rd p cr x Hop Hx. facts rd p cr x Hop Hx. exists data. exact F7. Qed.
  Lemma acc_desc_len : rule_desc_len zd file.
  Proof.
    intros rd p cr x Hop Hx data' Hg. facts rd p cr x Hop Hx. rewrite F7 in Hg. apply ok_inj' in Hg. subst data'. exact F8.
  Qed.
End Accepted.

(* every rule at once *)
Definition all_rules (zd : list N -> option (list N)) (file : list N) : Prop :=
  rule_container file /\ rule_names file /\ rule_params file /\ rule_collection zd file /\ rule_stream zd file /\
  rule_ref_parts zd file /\ rule_metadata zd file /\ rule_pack_marker zd file /\ rule_pack_layout zd file /\
  rule_placeholder zd file /\ rule_id zd file /\ rule_decode zd file /\ rule_desc_len zd file.

Lemma accepted_rules : forall zd file, strict_check zd file = None -> all_rules zd file.
Proof.
  intros zd file H. unfold all_rules.
  repeat split; [apply acc_container with zd|apply acc_names with zd|apply acc_params with zd|apply acc_collection
    |apply acc_stream|apply acc_ref_parts|apply acc_metadata|apply acc_pack_marker|apply acc_pack_layout
    |apply acc_placeholder|apply acc_id|apply acc_decode|apply acc_desc_len]; exact H.
Qed.

(* a file written by the model writers: the hypotheses of writer_conforms plus the shape of the directory *)
Definition written_file (zc : N -> list N -> list N) (k mml ss level : N) (L : layout) (file : list N) : Prop :=
  exists (gops : list op) (st : store) (c cw : coll) (a : arch) (ops : list wop),
    run (m_lz_enc mml) (m_cref zc) (m_cpack zc level) gops = Ok st /\
    GroupStore_proofs.ops_ok ref_dom (lz_dom mml) gops /\
    samples c = samples_of L /\ segment_size c = ss /\ kmer_length c = k /\
    lenN (samples c) < 4294967296 /\
    Forall (fun s => Forall (fun b => 1 <= b < 128) (sname s)) (samples c) /\
    Forall (Collection_proofs.batch_ok zc ss k)
           (Collection_proofs.chunks (length (samples c)) (N.to_nat SPEC_CATALOGUE_BATCH) (samples c)) /\
    store_all zc SPEC_CATALOGUE_BATCH c arch_empty = Ok (cw, a) /\
    (forall p, placed_in L p -> In (pl_seg p, pl_id p) (regs_of st (pl_group p))) /\
    (forall sm ct, In sm L -> In ct (snd sm) -> Forall (fun p => k <= lenN (s_data (pl_seg p))) (tl (snd ct))) /\
    Forall wop_wf ops /\
    file = close (fst (wrun w_init ops)) /\
    lenN file <= spec_max_off /\
    sp_parts (fst (sp_run sp_init ops)) SPEC_NAME_PARAMS = Some [(encode_params k mml ss, SPEC_PARAMS_METADATA)] /\
    sp_parts (fst (sp_run sp_init ops)) SPEC_NAME_SAMPLES = Some (a_samples a) /\
    sp_parts (fst (sp_run sp_init ops)) SPEC_NAME_CONTIGS = Some (a_contigs a) /\
    sp_parts (fst (sp_run sp_init ops)) SPEC_NAME_DETAILS = Some (a_details a) /\
    (forall p, placed_in L p ->
       sp_parts (fst (sp_run sp_init ops)) (stream_ref_name (pl_group p)) =
         option_map (map unswap) (gv_ref (view_of (finalize (m_cpack zc level) st) (pl_group p))) /\
       sp_parts (fst (sp_run sp_init ops)) (stream_delta_name (pl_group p)) =
         option_map (map unswap) (gv_delta (view_of (finalize (m_cpack zc level) st) (pl_group p)))) /\
    names_paired (map ss_name (sp_streams (fst (sp_run sp_init ops)))).

Section Written.
  Variable zc : N -> list N -> list N.
  Variable zd : list N -> option (list N).
  Hypothesis Hzd : forall l x, zd (zc l x) = Some x.
  Hypothesis Hzc : forall l x, zc l x <> [].
  Variable k mml ss level : N.
  Hypothesis Hmml : 4 <= mml.
  Hypothesis Hk32 : k < two32.
  Hypothesis Hm32 : mml < two32.
  Hypothesis Hs32 : ss < two32.
  Hypothesis Hssk : ss + k <= 2147483648.
  Variable L : layout.
  Variable file : list N.
  Hypothesis Hw : written_file zc k mml ss level L file.

  Lemma written_accepted : strict_check zd file = None.
  Proof.
    destruct Hw as (gops & st & c & cw & a & ops & H1 & H2 & H3 & H4 & H5 & H6 & H7 & H8 & H9 & H10 & H11 & H12 & H13
                    & H14 & H15 & H16 & H17 & H18 & H19 & H20).
    subst file.
    exact (strict_accepts_written_proof zc zd Hzd Hzc k mml ss level Hmml Hk32 Hm32 Hs32 Hssk gops st H1 H2 L c cw a
             H3 H4 H5 H6 H7 H8 H9 H10 ops H12 H14 H15 H16 H17 H18 H19 H20).
  Qed.

  Lemma written_decodes : decode_strict zd file = SOk (reassembled k L).
  Proof.
    destruct Hw as (gops & st & c & cw & a & ops & H1 & H2 & H3 & H4 & H5 & H6 & H7 & H8 & H9 & H10 & H11 & H12 & H13
                    & H14 & H15 & H16 & H17 & H18 & H19 & H20).
    subst file.
    exact (strict_decodes_written_proof zc zd Hzd Hzc k mml ss level Hmml Hk32 Hm32 Hs32 Hssk gops st H1 H2 L c cw a
             H3 H4 H5 H6 H7 H8 H9 H10 H11 ops H12 H14 H15 H16 H17 H18 H19 H20).
  Qed.

  Lemma written_rules : all_rules zd file.
  Proof. exact (accepted_rules zd file written_accepted). Qed.

  Lemma written_container_opens_proof : rule_container file.       Proof. exact (proj1 written_rules). Qed.
  Lemma written_names_paired_proof : rule_names file.              Proof. exact (proj1 (proj2 written_rules)). Qed.
  Lemma written_params_ok_proof : rule_params file.                Proof. exact (proj1 (proj2 (proj2 written_rules))). Qed.
  Lemma written_collection_loads_proof : rule_collection zd file.
  Proof. exact (proj1 (proj2 (proj2 (proj2 written_rules)))). Qed.
  Lemma written_streams_exist_proof : rule_stream zd file.
  Proof. exact (proj1 (proj2 (proj2 (proj2 (proj2 written_rules))))). Qed.
  Lemma written_one_ref_part_proof : rule_ref_parts zd file.
  Proof. exact (proj1 (proj2 (proj2 (proj2 (proj2 (proj2 written_rules)))))). Qed.
  Lemma written_metadata_convention_proof : rule_metadata zd file.
  Proof. exact (proj1 (proj2 (proj2 (proj2 (proj2 (proj2 (proj2 written_rules))))))). Qed.
  Lemma written_pack_marker_proof : rule_pack_marker zd file.
  Proof. exact (proj1 (proj2 (proj2 (proj2 (proj2 (proj2 (proj2 (proj2 written_rules)))))))). Qed.
  Lemma written_pack_layout_proof : rule_pack_layout zd file.
  Proof. exact (proj1 (proj2 (proj2 (proj2 (proj2 (proj2 (proj2 (proj2 (proj2 written_rules))))))))). Qed.
  Lemma written_placeholder_proof : rule_placeholder zd file.
  Proof. exact (proj1 (proj2 (proj2 (proj2 (proj2 (proj2 (proj2 (proj2 (proj2 (proj2 written_rules)))))))))). Qed.
  Lemma written_ids_address_entries_proof : rule_id zd file.
  Proof. exact (proj1 (proj2 (proj2 (proj2 (proj2 (proj2 (proj2 (proj2 (proj2 (proj2 (proj2 written_rules))))))))))). Qed.
  Lemma written_segments_decode_proof : rule_decode zd file.
  Proof. exact (proj1 (proj2 (proj2 (proj2 (proj2 (proj2 (proj2 (proj2 (proj2 (proj2 (proj2 (proj2 written_rules)))))))))))). Qed.
  Lemma written_desc_len_proof : rule_desc_len zd file.
  Proof. exact (proj2 (proj2 (proj2 (proj2 (proj2 (proj2 (proj2 (proj2 (proj2 (proj2 (proj2 (proj2 written_rules)))))))))))). Qed.
End Written.

(* ================================================================ 5. the instance for ModelCreate.model_build *)
From Ragc Require Import Consts_kmer Consts_segment Consts_pipeline.
From Ragc Require Import Kmer Segment Pipeline SegReader GroupStore Tuple SegCompress LZ Details Collection Container
  Range AgcV3 ModelCreate.
From Ragc Require Import Segment_proofs Pipeline_proofs GroupStore_proofs Compose_codecs Compose_proofs.
From Ragc Require Import AgcV3_compose Grand_proofs.

(* the directory after "register pairwise different names; add_part_buffered; flush_buffers" holds exactly those names *)
Lemma history_names : forall names buffered, NoDup names ->
  Forall (fun x => fst x < lenN names) buffered ->
  map ss_name (sp_streams (fst (sp_run sp_init (map WRegister names ++ map addbuf buffered ++ [WFlush])))) = names.
Proof.
  intros names buffered ND Hb.
  rewrite sp_run_app, sp_run_registers by exact ND. cbn [sp_init sp_streams sp_pending app].
  rewrite sp_run_app, sp_run_addbufs. cbn [sp_streams sp_pending app]. rewrite sp_run_cons.
  cbn [sp_run fst sp_step sp_streams sp_pending].
  set (st0 := map (fun nm0 => mkSS nm0 0 []) names).
  assert (Hb' : Forall (fun x => fst x < lenN st0) (sort_by_sid buffered)).
  { apply Container_proofs.Forall_sort_by_sid. unfold st0, lenN. rewrite map_length. exact Hb. }
  destruct (commit_all_spec _ st0 Hb') as (st' & Hc & Hn & _). rewrite Hc. cbn [fst sp_streams].
  rewrite Hn. unfold st0. rewrite map_map. cbn [ss_name]. apply map_id.
Qed.

Lemma model_names : forall fp gp : plan, length fp = 7%nat -> NoDup (map fst (fp ++ gp)) ->
  map ss_name (sp_streams (fst (sp_run sp_init (model_wops fp gp)))) = map fst (fp ++ gp).
Proof.
  intros fp gp Hl ND. unfold model_wops. rewrite <- (map_map fst WRegister).
  apply history_names; [exact ND|exact (model_buffered_sids fp gp Hl)].
Qed.

Lemma names_paired_plan : forall groups, Forall (fun g => g < two32) groups ->
  names_paired (SPEC_FIXED_NAMES ++ group_names groups).
Proof.
  intros groups Hb. unfold names_paired. apply Forall_forall. intros nm Hnm. apply in_app_or in Hnm.
  destruct Hnm as [Hf|Hg]; [left; exact Hf|right].
  destruct (group_names_in _ _ Hg) as (g & Hin & Ex). exists g.
  split; [rewrite Forall_forall in Hb; exact (Hb g Hin)|].
  split; [destruct Ex as [->| ->]; [right|left]; reflexivity|].
  split; apply in_or_app; right; unfold group_names; apply in_flat_map; exists g; (split; [exact Hin|]).
  - right. left. reflexivity.
  - left. reflexivity.
Qed.

Section GrandStrict.
  Variable zc : N -> list N -> list N.
  Variable zd : list N -> option (list N).
  Hypothesis Hzd : forall l x, zd (zc l x) = Some x.
  Hypothesis Hzc : forall l x, zc l x <> [].
  Variable ecn : Pipeline.name -> Pipeline.name.
  Variables (k mml segsize level : N).
  Variable spl : N -> bool.
  Variable dec : nat -> nat -> decision.
  Variable grp : nat -> nat -> N.
  Variable sched : list registration -> list registration.
  Variable gops : list op.
  Variable fti : Container.item.
  Variable samples : list (Pipeline.name * list (Pipeline.name * list N)).
  Hypothesis Hk : 1 <= k <= 32.
  Hypothesis Hmml : 4 <= mml.
  Hypothesis Hm32 : mml < two32.
  Hypothesis Hs32 : segsize < two32.
  Hypothesis Hssk : segsize + k <= 2147483648.
  Hypothesis Hin : inputs_ok samples.
  Hypothesis Hdom : inputs_in_dom mml (pushes_of samples).
  Hypothesis Hdec : decisions_ok k spl segsize dec (pushes_of samples).
  Hypothesis Hlz : lz_contigs_nonempty (pushes_of samples) grp.
  Hypothesis Hgrp : forall i part, grp i part < two32.
  Hypothesis Hsched : forall l, Permutation l (sched l).
  Hypothesis Hcarry : ops_carry (all_emit k spl segsize dec grp 0 (pushes_of samples)) gops.

  Let Hz : zstd_ok zc zd := conj Hzd (fun l x _ => Hzc l x).

  Variable b : built.
  Hypothesis Hb : model_build zc ecn k mml segsize level spl dec grp sched gops fti samples = Ok b.
  Hypothesis Hcat : catalogue_in_dom zc segsize k (mc_cat_of (b_coll b)).
  Hypothesis Hmeta : parts_meta_u64 (b_wops b).
  Hypothesis Hfile : lenN (b_file b) <= spec_max_off.

  (* the same route as Grand_proofs.grand_roundtrip_proof, ending in strict_accepts_written instead of writer_conforms *)
  Theorem grand_strict_check_proof : strict_check zd (b_file b) = None.
  Proof.
    pose proof (history_wf_proof _ _ _ _ _ _ _ _ _ _ _ _ _ _ Hb Hmeta) as Hwf.
    unfold model_build, obnd in Hb.
    destruct (run (mc_lz_enc mml) (mc_cref zc) (mc_cpack zc level) gops) as [st| |] eqn:Hrun; try discriminate.
    destruct (create ecn k spl segsize dec (mc_store_addr k spl segsize dec grp (pushes_of samples) st) sched (pushes_of samples))
      as [[coll stored]| |] eqn:Hc; try discriminate.
    change (fst (coll, stored)) with coll in Hb. change (snd (coll, stored)) with stored in Hb.
    destruct (store_all zc W_CATALOGUE_BATCH (mc_coll segsize k coll) arch_empty) as [[cw a]| |] eqn:Hst; try discriminate.
    change (snd (cw, a)) with a in Hb. cbv zeta in Hb.
    apply ok_inj in Hb. subst b. unfold b_coll in Hcat. unfold b_wops in Hwf. unfold b_file in Hfile. unfold b_file.
    set (fin := finalize (mc_cpack zc level) st) in *.
    set (fp := fixed_plan k mml segsize a fti) in *.
    set (gp := group_plan fin (groups_of gops)) in *.
    assert (Hrel : store_fed_by stored gops /\ addresses_from_store stored st /\ pieces_in_dom mml stored).
    { pose proof Hc as Hc'. unfold create in Hc'.
      destruct (register_all ecn [] (pushes_of samples)) as [coll0| |]; cbn [obnd] in Hc'; try discriminate.
      destruct (all_regs k spl segsize dec _ 0 (pushes_of samples)) as [regs| |] eqn:Ea; cbn [obnd] in Hc'; try discriminate.
      inversion Hc'; subst coll stored; clear Hc'.
      destruct (store_addr_consistent_proof k spl segsize dec grp _ _ _ (pushes_of samples) gops st regs
                  ltac:(lia) Hdec Hcarry Hrun Ea) as [Hf Ha].
      split; [exact Hf|]. split; [exact Ha|].
      apply (pieces_in_dom_from_inputs_proof k spl segsize dec (store_addr k spl segsize dec grp (pushes_of samples) st)
               (pushes_of samples) regs mml Hk Hmml Hdec Hdom); [exact Hlz|exact Ea]. }
    destruct Hrel as (Hfed & Haddr & Hpdom).
    pose proof (fed_in_dom mml stored gops Hfed Hpdom) as Hcops.
    pose proof (create_stored_len _ _ _ _ _ _ _ _ _ _ Hc) as Hslen.
    pose proof (stored_ok_from_groupstore_proof zc zd Hz mml level stored gops st Hslen Hpdom Hfed Hrun Haddr) as Hsok.
    set (get := store_get zc zd mml level st) in *.
    set (get' := guarded stored get).
    destruct (create_extract_roundtrip_proof ecn get' k spl segsize dec _ sched samples coll stored Hk Hin Hdec Hsched Hc
                (guarded_stored_ok stored get Hsok)) as [_ Hext].
    destruct (extract_all_agree get' k coll samples Hext (proj1 Hin)) as [_ Hfine].
    assert (Hback : all_descs (fun d => desc_backed st d /\ got get' d = s_data (seg_pick st d)) coll).
    { apply all_descs_intro. intros s c d Hs Hcin Hd.
      rewrite Forall_forall in Hfine. specialize (Hfine s Hs). rewrite Forall_forall in Hfine.
      destruct (Hfine c Hcin) as [Hr _]. rewrite Forall_forall in Hr.
      destruct (guarded_reads stored get d (Hr d Hd)) as [[b0 Hdb] Eg].
      destruct (Haddr d b0 Hdb) as (s0 & Hreg & Hdata & Hrc).
      assert (Hbk : desc_backed st d).
      { apply (seg_pick_ok st d s0 Hreg Hrc). rewrite Hdata. symmetry. exact (Hslen d b0 Hdb). }
      split; [exact Hbk|]. destruct Hbk as (Hreg' & Hrc' & Hlen').
      destruct (store_then_get_concrete_proof zc zd mml level Hz gops st (Pipeline.d_group d) (seg_pick st d) (Pipeline.d_id d)
                  Hcops Hrun Hreg') as [Hget _].
      assert (Ed : desc_of (Pipeline.d_group d) (seg_pick st d) (Pipeline.d_id d) = rdesc d).
      { unfold desc_of, rdesc. rewrite Hrc', Hlen'. reflexivity. }
      rewrite Ed in Hget. unfold got, get'. rewrite Eg. unfold get, store_get. rewrite Hget. reflexivity. }
    assert (Hback1 : all_descs (desc_backed st) coll).
    { apply all_descs_intro. intros s c d Hs Hcin Hd. exact (proj1 (all_descs_in _ _ Hback s c d Hs Hcin Hd)). }
    assert (Hgroups_nd : NoDup (groups_of gops)) by (exact (proj1 (dedupN_spec _ []))).
    assert (Hgroups_b : Forall (fun g => g < two32) (groups_of gops)).
    { apply Forall_forall. intros g Hg. apply groups_of_in in Hg. destruct Hg as (o & Ho & Eo & Hne).
      destruct (snd o) as [|sg rest] eqn:Es; [contradiction|].
      assert (Hsg : In sg (GroupStore.segs_of gops g)).
      { apply segs_of_in. exists o. rewrite Es. split; [exact Ho|]. split; [exact Eo|]. left. reflexivity. }
      apply (Permutation_in _ (Hcarry g)) in Hsg. apply in_map_iff in Hsg. destruct Hsg as ([g' sg'] & _ & Hf).
      apply filter_In in Hf. destruct Hf as [Hem Eg]. cbn [fst] in Eg. apply N.eqb_eq in Eg. subst g'.
      apply all_emit_in in Hem. destruct Hem as (i & s & c & pc & _ & E). inversion E. apply Hgrp. }
    assert (Hplaced_group : forall d, desc_backed st d -> In (Pipeline.d_group d) (groups_of gops) /\ st (Pipeline.d_group d) <> None).
    { intros d (Hreg & _ & _). split.
      - apply groups_of_in.
        assert (Hs : In (seg_pick st d) (GroupStore.segs_of gops (Pipeline.d_group d))).
        { apply (Permutation_in _ (GroupStore_rules.every_segment_registered_proof _ _ _ gops st (Pipeline.d_group d) Hrun)).
          apply in_map_iff. exists (seg_pick st d, Pipeline.d_id d). split; [reflexivity|exact Hreg]. }
        apply segs_of_in in Hs. destruct Hs as (o & Ho & Eo & Hs). exists o. split; [exact Ho|]. split; [exact Eo|].
        intro E. rewrite E in Hs. contradiction.
      - intro E. unfold regs_of, get_group in Hreg. rewrite E in Hreg. cbn in Hreg. contradiction. }
    assert (Hfpl : length fp = 7%nat) by reflexivity.
    assert (Hnd : NoDup (map fst (fp ++ gp))) by (exact (plan_names_nodup k mml segsize a fti fin (groups_of gops) Hgroups_nd Hgroups_b)).
    pose proof (model_stream_state fp gp Hfpl Hnd) as Hstate.
    set (L := layout_of st coll).
    assert (Hcat' : catalogue_in_dom zc segsize k (cat_of coll)) by exact Hcat.
    destruct Hcat' as (Hn & Hnames & Hbatches).
    pose proof (strict_accepts_written_proof zc zd Hzd Hzc k mml segsize level Hmml ltac:(unfold two32; lia) Hm32 Hs32 Hssk
                  gops st Hrun (ops_ok_weaken mml gops Hcops) L (mc_coll segsize k coll) cw a
                  (eq_sym (layout_samples st coll Hback1)) eq_refl eq_refl Hn Hnames Hbatches Hst) as HW.
    apply HW; clear HW.
    - intros p Hp. destruct (layout_placed st coll p Hp) as (s & c & d & Hs & Hcin & Hd & ->).
      exact (proj1 (all_descs_in _ _ Hback1 s c d Hs Hcin Hd)).
    - exact Hwf.
    - exact Hfile.
    - exact (Hstate (W_NAME_FIXED_1, [(w_params k mml segsize, W_PARAMS_METADATA)]) ltac:(apply in_or_app; left; cbn; tauto)).
    - exact (Hstate (W_NAME_COLL_0, a_samples a) ltac:(apply in_or_app; left; cbn; tauto)).
    - exact (Hstate (W_NAME_COLL_1, a_contigs a) ltac:(apply in_or_app; left; cbn; tauto)).
    - exact (Hstate (W_NAME_COLL_2, a_details a) ltac:(apply in_or_app; left; cbn; tauto)).
    - intros p Hp. destruct (layout_placed st coll p Hp) as (s & c & d & Hs & Hcin & Hd & ->). cbn [placed_of pl_group].
      destruct (Hplaced_group d (all_descs_in _ _ Hback1 s c d Hs Hcin Hd)) as [Hg Hsome].
      set (g := Pipeline.d_group d) in *.
      assert (Hview : exists r dl, view_of fin g = {| gv_ref := Some r; gv_delta := Some dl |}).
      { unfold view_of, fin, finalize. destruct (st g) as [gs|]; [|contradiction]. eauto. }
      destruct Hview as (r & dl & Ev). change (finalize (m_cpack zc level) st) with fin. rewrite Ev. cbn [gv_ref gv_delta option_map].
      assert (Hing : forall e, In e [ (w_delta_name g, opt_items (gv_delta (view_of fin g)));
                                     (w_ref_name g, opt_items (gv_ref (view_of fin g))) ] -> In e (fp ++ gp)).
      { intros e He. apply in_or_app. right. unfold gp, group_plan. apply in_flat_map. exists g. split; [exact Hg|exact He]. }
      split.
      + pose proof (Hstate _ (Hing _ (or_intror (or_introl eq_refl)))) as H1. cbn [fst snd] in H1. rewrite Ev in H1. exact H1.
      + pose proof (Hstate _ (Hing _ (or_introl eq_refl))) as H1. cbn [fst snd] in H1. rewrite Ev in H1. exact H1.
    - (* the directory: exactly the seven fixed names and the two names of every group *)
      rewrite (model_names fp gp Hfpl Hnd). unfold fp, gp. rewrite plan_names.
      exact (names_paired_plan (groups_of gops) Hgroups_b).
  Qed.

  Theorem grand_strict_proof : decode_strict zd (b_file b) = SOk samples.
  Proof.
    unfold decode_strict. rewrite grand_strict_check_proof.
    rewrite (grand_roundtrip_proof zc zd Hzd Hzc ecn k mml segsize level spl dec grp sched gops fti samples Hk Hmml Hm32 Hs32
               Hssk Hin Hdom Hdec Hlz Hgrp Hsched Hcarry b Hb Hcat Hmeta Hfile).
    reflexivity.
  Qed.

  Theorem grand_strict_both : strict_check zd (b_file b) = None /\ decode_strict zd (b_file b) = SOk samples.
  Proof. split; [exact grand_strict_check_proof|exact grand_strict_proof]. Qed.
End GrandStrict.
