(* GroupStore_toy.v - a concrete instance of the codec hypotheses (non-vacuity of every theorem of props/C02.v)
   and concrete op sequences crossing the pack boundaries.  The toy compressor shortens runs of one symbol, so
   both outcomes of the "did compression help" test occur. *)
From Coq Require Import Lia ZifyBool ZifyN ZifyNat.
From Ragc Require Import Mach Consts_groupstore SegReader GroupStore GroupStore_base GroupStore_proofs GroupStore_rules.
Open Scope N_scope.

Definition toy_c (x : list N) : list N :=
  match x with
  | [] => [1]
  | a :: tl => if forallb (N.eqb a) tl && (3 <? lenN x) then [0; a; lenN x] else 1 :: x
  end.
Definition toy_d (c : list N) : outcome (list N) :=
  match c with
  | [0; a; n] => Ok (repeat a (N.to_nat n))
  | 1 :: x => Ok x
  | _ => Err
  end.
Definition toy_dwm (c : list N) (m : N) : outcome (list N) := toy_d c.
Definition toy_cref (x : list N) : list N * N := (toy_c x, 1).
Definition toy_lz_enc (r t : list N) : list N := if list_eqb N.eqb t r then [] else 65 :: t.
Definition toy_lz_dec (r e : list N) : outcome (list N) := match e with _ :: t => Ok t | [] => Err end.
Definition toy_ref_dom (x : list N) : Prop := True.
Definition toy_lz_dom (r t : list N) : Prop := ~ In CONTIG_SEPARATOR t.

Lemma forallb_repeat : forall a tl, forallb (N.eqb a) tl = true -> repeat a (length tl) = tl.
Proof.
  induction tl as [|b tl IH]; cbn; intro H; [reflexivity|].
  apply andb_true_iff in H. destruct H as [H1 H2]. apply N.eqb_eq in H1. subst b. rewrite (IH H2). reflexivity.
Qed.

Lemma toy_roundtrip : forall x, toy_d (toy_c x) = Ok x /\ toy_c x <> [].
Proof.
  intros [|a tl]; [split; [reflexivity|discriminate]|].
  unfold toy_c. destruct (forallb (N.eqb a) tl && (3 <? lenN (a :: tl))) eqn:E.
  - split; [|discriminate]. apply andb_true_iff in E. destruct E as [E _].
    cbn [toy_d]. f_equal. unfold lenN. rewrite Nat2N.id. cbn [length repeat]. rewrite (forallb_repeat a tl E). reflexivity.
  - split; [reflexivity|discriminate].
Qed.

Lemma toy_codecs_ok : codecs_ok toy_lz_enc toy_lz_dec toy_cref toy_c toy_dwm toy_ref_dom toy_lz_dom.
Proof.
  split; [|split].
  - intros x _. unfold toy_cref, toy_dwm. cbn [fst snd]. apply toy_roundtrip.
  - intros x _. unfold toy_dwm. apply toy_roundtrip.
  - intros r t Hd. unfold toy_lz_enc. destruct (list_eqb N.eqb t r) eqn:E.
    + apply list_eqb_N_spec in E. repeat split; try congruence. intros [].
    + split; [discriminate|]. split; [reflexivity|]. intros [Hc|Hc]; [discriminate|]. apply Hd. exact Hc.
Qed.

(* a decidable sufficient condition for ops_alpha with the toy domains *)
Definition seg_okb (s : seg_in) : bool :=
  (lenN (s_data s) <? two32) && forallb (fun b => b <=? 30) (s_data s).

Lemma toy_ops_alpha : forall ops,
  forallb seg_okb (flat_map snd ops) = true -> ops_alpha toy_ref_dom toy_lz_dom ops.
Proof.
  intros ops H g s Hin. rewrite forallb_forall in H.
  pose proof (H s (segs_of_subset _ _ _ Hin)) as Hs. unfold seg_okb in Hs.
  apply andb_true_iff in Hs. destruct Hs as [H1 H2]. apply N.ltb_lt in H1. rewrite forallb_forall in H2.
  split; [exact H1|]. split.
  - intros _. apply Forall_forall. intros b Hb. apply N.leb_le. apply H2. exact Hb.
  - intros _. split; [exact I|]. intros s' _. unfold toy_lz_dom. intro Hc. specialize (H2 _ Hc).
    change CONTIG_SEPARATOR with 255 in H2. apply N.leb_le in H2. lia.
Qed.

(* ---- concrete op sequences *)
Definition mkseg (sample part : N) (data : list N) (rc : bool) : seg_in :=
  {| s_sample := [83; sample]; s_contig := [99]; s_part := part; s_data := data; s_rc := rc |}.

(* LZ group 16: reference (a run: stored compressed), a copy of the reference (id 0), a delta, the same delta
   again (de-duplicated while pending), then 118 distinct deltas in a second round: packs of 50, 50, 19.
   Raw group 3: 120 segments: packs of 49 + placeholder, 50, 21. *)
Definition ex_ref : list N := repeat 2 12.
Definition ex_delta (i : nat) : list N := [0; 1; N.of_nat i mod 4; N.of_nat i / 4 mod 31; 3].
Definition ex_ops : list op :=
  [ (16, [mkseg 2 0 (ex_delta 0) true; mkseg 1 0 ex_ref false; mkseg 3 0 ex_ref true; mkseg 4 0 (ex_delta 0) false]);
    (3, map (fun i => mkseg (N.of_nat i) 7 (ex_delta i) false) (seq 0 60));
    (16, map (fun i => mkseg (N.of_nat i + 10) 1 (ex_delta i) false) (seq 1 118));
    (3, map (fun i => mkseg (N.of_nat i) 8 (ex_delta (i + 60)) true) (seq 0 60)) ].

Definition toy_run := run toy_lz_enc toy_cref toy_c.
Definition toy_view (st : store) := view_of (finalize toy_c st).
Definition toy_get (st : store) (g : N) (x : seg_in * N) : outcome (list N) :=
  get_segment toy_dwm toy_lz_dec (toy_view st) (desc_of g (fst x) (snd x)).
Definition all_read_back (st : store) (g : N) : bool :=
  forallb (fun x => match toy_get st g x with Ok b => list_eqb N.eqb b (s_data (fst x)) | _ => false end) (regs_of st g).
