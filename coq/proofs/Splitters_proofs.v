(* Splitters_proofs.v — lemmas for C11 (model: Splitters.v; uses Kmer_proofs for the k-mer state machine and
   Segment_proofs for the segmentation loop).  Structure:
     A. sorting hypothesis, sets as sorted duplicate-free lists
     B. remove_non_singletons / duplicates scan on a sorted list = "occurs once" / "occurs more than once"
     C. the multiset of canonical k-mers: permutation and reverse-complement invariance
     D. the pick loop with positions: every pick is an occurrence of a candidate, loop picks are spaced,
        the end pick lies after every loop pick
     E. the segmentation loop with positions (cut ends)
     F. a splitter occurs in the reference only at its pick position; interior spacing
     G. the statements pinned in props/C11.v *)
From Coq Require Import Lia ZifyBool ZifyN ZifyNat Permutation Sorting.Sorted Orders Sorting.Mergesort.
From Ragc Require Import Mach Consts_kmer Consts_segment Kmer Kmer_proofs Segment Segment_proofs Splitters.
Open Scope N_scope.
Arguments N.add : simpl never. Arguments N.sub : simpl never. Arguments N.mul : simpl never.
Arguments N.shiftl : simpl never. Arguments N.shiftr : simpl never. Arguments N.land : simpl never.
Arguments N.lor : simpl never. Arguments N.modulo : simpl never. Arguments N.div : simpl never.
Arguments N.pow : simpl never.

(* ================================================================ A. sorting, sets *)
Definition sort_ok (sort : list N -> list N) : Prop :=
  forall l, Permutation (sort l) l /\ StronglySorted N.le (sort l).

Lemma nsort_ok : sort_ok NSort.sort.
Proof.
  intro l. split.
  - apply Permutation_sym. apply NSort.Permuted_sort.
  - assert (T : Transitive (fun x y => is_true (NLeBool.leb x y))).
    { intros x y z. unfold is_true, NLeBool.leb. rewrite !N.leb_le. lia. }
    pose proof (NSort.StronglySorted_sort l T) as H.
    induction H as [|a l' H IH F]; constructor; auto.
    apply Forall_impl with (2 := F). intros b. unfold is_true, NLeBool.leb. rewrite N.leb_le. auto.
Qed.

Notation cnt := (count_occ N.eq_dec).

Lemma perm_cnt l l' v : Permutation l l' -> cnt l v = cnt l' v.
Proof. intro H. apply (proj1 (Permutation_count_occ N.eq_dec l l') H). Qed.

Lemma ss_le_In x l y : StronglySorted N.le (x :: l) -> In y l -> x <= y.
Proof. intros H Hy. apply StronglySorted_inv in H. destruct H as (_ & F). rewrite Forall_forall in F. auto. Qed.

(* two sorted lists with the same elements counted with multiplicity are equal *)
Lemma sorted_perm_eq : forall l l', StronglySorted N.le l -> StronglySorted N.le l' -> Permutation l l' -> l = l'.
Proof.
  induction l as [|x l IH]; intros l' H H' P.
  - apply Permutation_nil in P. auto.
  - destruct l' as [|y l']; [apply Permutation_sym, Permutation_nil in P; discriminate|].
    assert (x = y).
    { assert (Hx : In x (y :: l')) by (apply Permutation_in with (1 := P); left; reflexivity).
      assert (Hy : In y (x :: l)) by (apply Permutation_in with (1 := Permutation_sym P); left; reflexivity).
      destruct Hx as [->|Hx]; [reflexivity|]. destruct Hy as [->|Hy]; [reflexivity|].
      pose proof (ss_le_In _ _ _ H Hy). pose proof (ss_le_In _ _ _ H' Hx). lia. }
    subst y. f_equal. apply IH.
    + apply StronglySorted_inv in H; tauto.
    + apply StronglySorted_inv in H'; tauto.
    + apply Permutation_cons_inv with (a := x). exact P.
Qed.

Lemma sort_perm_eq sort l l' : sort_ok sort -> Permutation l l' -> sort l = sort l'.
Proof.
  intros S P. apply sorted_perm_eq; try apply S.
  apply perm_trans with l; [apply S|]. apply perm_trans with l'; [exact P|]. apply Permutation_sym, S.
Qed.

(* dedup_adj on a sorted list: same members, strictly increasing *)
Lemma dedup_adj_In l v : In v (dedup_adj l) <-> In v l.
Proof.
  induction l as [|x l IH]; [reflexivity|].
  cbn [dedup_adj]. destruct l as [|y l']; [reflexivity|].
  destruct (N.eqb_spec x y) as [->|Hn].
  - rewrite IH. cbn [In]. tauto.
  - cbn [In] in *. rewrite IH. tauto.
Qed.

Lemma dedup_adj_sorted l : StronglySorted N.le l -> StronglySorted N.lt (dedup_adj l).
Proof.
  induction l as [|x l IH]; intro H; [constructor|].
  cbn [dedup_adj]. destruct l as [|y l']; [repeat constructor|].
  pose proof (StronglySorted_inv H) as (H1 & F).
  destruct (N.eqb_spec x y) as [->|Hn]; [apply IH; exact H1|].
  constructor; [apply IH; exact H1|].
  rewrite Forall_forall. intros z Hz. apply (proj1 (dedup_adj_In _ _)) in Hz. cbn [In] in Hz.
  rewrite Forall_forall in F. pose proof (F y (or_introl eq_refl)).
  destruct Hz as [<-|Hz]; [lia|].
  pose proof (ss_le_In _ _ _ H1 Hz). lia.
Qed.

Lemma canon_set_In sort l v : sort_ok sort -> In v (canon_set sort l) <-> In v l.
Proof.
  intro S. unfold canon_set. rewrite dedup_adj_In. split; intro H.
  - apply Permutation_in with (1 := proj1 (S l)). exact H.
  - apply Permutation_in with (1 := Permutation_sym (proj1 (S l))). exact H.
Qed.

Lemma canon_set_sorted sort l : sort_ok sort -> StronglySorted N.lt (canon_set sort l).
Proof. intro S. apply dedup_adj_sorted. apply S. Qed.

Lemma slt_In x l y : StronglySorted N.lt (x :: l) -> In y l -> x < y.
Proof. intros H Hy. apply StronglySorted_inv in H. destruct H as (_ & F). rewrite Forall_forall in F. auto. Qed.

(* strictly increasing lists with the same members are equal *)
Lemma strict_ext : forall l l', StronglySorted N.lt l -> StronglySorted N.lt l' ->
  (forall v, In v l <-> In v l') -> l = l'.
Proof.
  induction l as [|x l IH]; intros l' H H' E.
  - destruct l' as [|y l']; [reflexivity|]. exfalso. apply (proj2 (E y)). left; reflexivity.
  - destruct l' as [|y l']; [exfalso; apply (proj1 (E x)); left; reflexivity|].
    assert (x = y).
    { destruct (proj1 (E x) (or_introl eq_refl)) as [->|Hx]; [reflexivity|].
      destruct (proj2 (E y) (or_introl eq_refl)) as [->|Hy]; [reflexivity|].
      pose proof (slt_In _ _ _ H Hy). pose proof (slt_In _ _ _ H' Hx). lia. }
    subst y. f_equal. apply IH.
    + apply StronglySorted_inv in H; tauto.
    + apply StronglySorted_inv in H'; tauto.
    + intro v. split; intro Hv.
      * destruct (proj1 (E v) (or_intror Hv)) as [<-|]; [|assumption].
        pose proof (slt_In _ _ _ H Hv). lia.
      * destruct (proj2 (E v) (or_intror Hv)) as [<-|]; [|assumption].
        pose proof (slt_In _ _ _ H' Hv). lia.
Qed.

Lemma canon_set_ext sort l l' : sort_ok sort -> (forall v, In v l <-> In v l') ->
  canon_set sort l = canon_set sort l'.
Proof.
  intros S E. apply strict_ext; try (apply canon_set_sorted; exact S).
  intro v. rewrite !canon_set_In by exact S. apply E.
Qed.

Lemma mem_In l v : mem l v = true <-> In v l.
Proof.
  unfold mem. rewrite existsb_exists. split.
  - intros (x & Hx & E). apply N.eqb_eq in E. subst. exact Hx.
  - intro H. exists v. split; [exact H | apply N.eqb_refl].
Qed.

(* ================================================================ B. runs of a sorted list *)
Lemma run_len_split x l : l = repeat x (run_len x l) ++ skipn (run_len x l) l.
Proof.
  induction l as [|y l IH]; cbn [run_len]; [reflexivity|].
  destruct (N.eqb_spec x y) as [<-|Hn]; [|reflexivity].
  cbn [repeat app skipn]. f_equal. exact IH.
Qed.

Lemma run_len_stop x l : match skipn (run_len x l) l with [] => True | y :: _ => x <> y end.
Proof.
  induction l as [|y l IH]; cbn [run_len]; [exact I|].
  destruct (N.eqb_spec x y) as [<-|Hn]; cbn [skipn]; [exact IH | exact Hn].
Qed.

Lemma run_len_le x l : (run_len x l <= length l)%nat.
Proof.
  induction l as [|y l IH]; cbn [run_len length]; [lia|]. destruct (x =? y); lia.
Qed.

Lemma ss_skipn n : forall l, StronglySorted N.le l -> StronglySorted N.le (skipn n l).
Proof.
  induction n as [|n IH]; intros l H; [exact H|]. destruct l as [|x l]; [constructor|].
  cbn [skipn]. apply IH. apply StronglySorted_inv in H. tauto.
Qed.

Lemma In_skipn {A} n : forall (l : list A) x, In x (skipn n l) -> In x l.
Proof.
  induction n as [|n IH]; intros l x H; [exact H|]. destruct l as [|y l]; [destruct H|].
  right. apply IH. exact H.
Qed.

Lemma ss_rest_gt x l : StronglySorted N.le (x :: l) -> Forall (fun y => x < y) (skipn (run_len x l) l).
Proof.
  intro H. pose proof (run_len_stop x l) as Hs.
  assert (Hr : StronglySorted N.le (skipn (run_len x l) l)).
  { apply ss_skipn. apply StronglySorted_inv in H. tauto. }
  destruct (skipn (run_len x l) l) as [|y r] eqn:E; [constructor|].
  assert (Hy : In y l) by (apply In_skipn with (n := run_len x l); rewrite E; left; reflexivity).
  pose proof (ss_le_In _ _ _ H Hy) as Hxy.
  constructor; [lia|]. rewrite Forall_forall. intros z Hz.
  pose proof (ss_le_In _ _ _ Hr Hz). lia.
Qed.

Lemma cnt_repeat x n v : cnt (repeat x n) v = if N.eq_dec x v then n else 0%nat.
Proof.
  induction n as [|n IH]; cbn [repeat count_occ]; [destruct (N.eq_dec x v); reflexivity|].
  destruct (N.eq_dec x v); lia.
Qed.

Lemma cnt_zero_notin l v : ~ In v l -> cnt l v = 0%nat.
Proof. apply count_occ_not_In. Qed.

Lemma cnt_pos_In l v : (1 <= cnt l v)%nat -> In v l.
Proof. intro H. apply (count_occ_In N.eq_dec). lia. Qed.

Lemma rns_loop_spec : forall fuel l, (length l <= fuel)%nat -> StronglySorted N.le l ->
  let r := rns_loop fuel l in
  (forall v, In v (fst r) <-> cnt l v = 1%nat) /\
  (forall v, In v (snd r) <-> (2 <= cnt l v)%nat) /\
  StronglySorted N.lt (fst r) /\ StronglySorted N.lt (snd r).
Proof.
  induction fuel as [|f IH]; intros l Hl Hs.
  - destruct l; [|cbn in Hl; lia]. cbn.
    split; [|split; [|split]]; [intro v; split; [intros [] | lia] | intro v; split; [intros [] | lia] | constructor | constructor].
  - destruct l as [|x l].
    { cbn. split; [|split; [|split]]; [intro v; split; [intros [] | lia] | intro v; split; [intros [] | lia] | constructor | constructor]. }
    cbn [rns_loop]. set (n := run_len x l). set (rest := skipn n l).
    assert (Hrest : Forall (fun y => x < y) rest) by (apply ss_rest_gt; exact Hs).
    assert (Hnx : ~ In x rest).
    { intro Hx. rewrite Forall_forall in Hrest. pose proof (Hrest x Hx). lia. }
    assert (Hsr : StronglySorted N.le rest).
    { apply ss_skipn. apply StronglySorted_inv in Hs. tauto. }
    assert (Hlr : (length rest <= f)%nat).
    { unfold rest. rewrite skipn_length. cbn [length] in Hl. lia. }
    destruct (IH rest Hlr Hsr) as (I1 & I2 & S1 & S2).
    assert (Hc : forall v, cnt (x :: l) v = ((if N.eq_dec x v then S n else 0) + cnt rest v)%nat).
    { intro v. rewrite (run_len_split x l) at 1. fold n. fold rest.
      cbn [count_occ]. rewrite count_occ_app, cnt_repeat. destruct (N.eq_dec x v); lia. }
    assert (G1 : forall v, In v (fst (rns_loop f rest)) -> x < v).
    { intros v Hv. apply I1 in Hv. rewrite Forall_forall in Hrest. apply Hrest. apply cnt_pos_In. lia. }
    assert (G2 : forall v, In v (snd (rns_loop f rest)) -> x < v).
    { intros v Hv. apply I2 in Hv. rewrite Forall_forall in Hrest. apply Hrest. apply cnt_pos_In. lia. }
    pose proof (cnt_zero_notin rest x Hnx) as Hx0.
    destruct (Nat.eqb_spec n 0) as [Hn|Hn]; cbn [fst snd].
    + split; [|split; [|split]].
      * intro v. rewrite Hc. cbn [In]. rewrite I1. destruct (N.eq_dec x v) as [<-|Hv]; lia.
      * intro v. rewrite Hc. rewrite I2. destruct (N.eq_dec x v) as [<-|Hv]; lia.
      * constructor; [exact S1|]. rewrite Forall_forall. exact G1.
      * exact S2.
    + split; [|split; [|split]].
      * intro v. rewrite Hc. rewrite I1. destruct (N.eq_dec x v) as [<-|Hv]; lia.
      * intro v. rewrite Hc. cbn [In]. rewrite I2. destruct (N.eq_dec x v) as [<-|Hv]; lia.
      * exact S1.
      * constructor; [exact S2|]. rewrite Forall_forall. exact G2.
Qed.

Lemma singletons_of_sorted l v : StronglySorted N.le l ->
  In v (remove_non_singletons l 0) <-> cnt l v = 1%nat.
Proof.
  intro H. unfold remove_non_singletons, remove_non_singletons_with_duplicates. cbn [skipn firstn app fst].
  apply (rns_loop_spec (length l) l (le_n _) H).
Qed.

Lemma duplicates_of_sorted l v : StronglySorted N.le l ->
  In v (duplicates_scan l) <-> (2 <= cnt l v)%nat.
Proof. intro H. unfold duplicates_scan. apply (rns_loop_spec (length l) l (le_n _) H). Qed.

(* the generic statements about kmer_extract.rs *)
Lemma remove_non_singletons_spec_proof : forall vec,
  StronglySorted N.le vec ->
  let r := remove_non_singletons_with_duplicates vec 0 in
  (forall v, In v (fst r) <-> cnt vec v = 1%nat) /\
  (forall v, In v (snd r) <-> (2 <= cnt vec v)%nat) /\
  StronglySorted N.lt (fst r) /\ StronglySorted N.lt (snd r).
Proof.
  intros vec H. unfold remove_non_singletons_with_duplicates. cbn [skipn firstn app fst snd].
  apply (rns_loop_spec (length vec) vec (le_n _) H).
Qed.

Lemma with_duplicates_same_kept_proof : forall vec vb,
  remove_non_singletons vec vb = fst (remove_non_singletons_with_duplicates vec vb) /\
  firstn vb (remove_non_singletons vec vb) = firstn vb vec.
Proof.
  intros vec vb. split; [reflexivity|].
  unfold remove_non_singletons, remove_non_singletons_with_duplicates. cbn [fst].
  destruct (Nat.le_gt_cases vb (length vec)) as [H|H].
  - rewrite firstn_app. rewrite firstn_length_le by exact H. rewrite Nat.sub_diag. cbn [firstn].
    rewrite app_nil_r. rewrite firstn_firstn. f_equal. lia.
  - rewrite skipn_all2 by lia. cbn. rewrite app_nil_r. rewrite firstn_firstn. f_equal. lia.
Qed.

(* ================================================================ C. the multiset of canonical k-mers *)
Definition kmers_of_ref (k : N) (contigs : list (list N)) : list N := concat (map (kmers_spec k) contigs).

Lemma all_kmers_spec contigs k : 1 <= k <= 32 -> all_kmers contigs k = kmers_of_ref k contigs.
Proof.
  intro Hk. unfold all_kmers, kmers_of_ref. f_equal. apply map_ext. intro c. apply kmers_spec_proof. exact Hk.
Qed.

Lemma perm_concat_map {A B} (f : A -> list B) l l' : Permutation l l' ->
  Permutation (concat (map f l)) (concat (map f l')).
Proof. intro P. rewrite <- !flat_map_concat_map. apply Permutation_flat_map. exact P. Qed.

(* ---- windows of a reversed / mapped list *)
Lemma lastn_cons_ge {A} n (a : A) l : (n <= length l)%nat -> lastn n (a :: l) = lastn n l.
Proof.
  intro H. unfold lastn. cbn [length]. replace (S (length l) - n)%nat with (S (length l - n)) by lia. reflexivity.
Qed.

Lemma windows_snoc k : forall c b, (1 <= k)%nat ->
  windows k (c ++ [b]) = windows k c ++ (if (k <=? S (length c))%nat then [lastn k (c ++ [b])] else []).
Proof.
  induction c as [|a c IH]; intros b Hk.
  - cbn [app windows length]. destruct (Nat.leb_spec k 1); [|reflexivity].
    replace k with 1%nat by lia. reflexivity.
  - change ((a :: c) ++ [b]) with (a :: (c ++ [b])). cbn [windows]. rewrite IH by exact Hk.
    cbn [length]. rewrite app_length. cbn [length]. rewrite Nat.add_1_r.
    destruct (Nat.leb_spec k (S (S (length c)))) as [H2|H2].
    + destruct (Nat.leb_spec k (S (length c))) as [H1|H1].
      * (* k <= |c|+1 *)
        rewrite <- app_assoc. cbn [app]. f_equal.
        -- change (a :: c ++ [b]) with ((a :: c) ++ [b]). rewrite firstn_app. cbn [length].
           replace (k - S (length c))%nat with 0%nat by lia. cbn [firstn]. rewrite app_nil_r. reflexivity.
        -- f_equal. f_equal. symmetry. apply lastn_cons_ge. rewrite app_length. cbn. lia.
      * (* k = |c|+2 *)
        assert (k = S (S (length c))) by lia. subst k.
        rewrite (Kmer_proofs.windows_short (S (S (length c))) c) by lia. cbn [app].
        f_equal. unfold lastn. cbn [length]. rewrite app_length. cbn [length].
        replace (S (length c + 1) - S (S (length c)))%nat with 0%nat by lia. cbn [skipn].
        apply firstn_all2. cbn [length]. rewrite app_length. cbn. lia.
    + destruct (Nat.leb_spec k (S (length c))); [lia|]. rewrite !app_nil_r. reflexivity.
Qed.

Lemma lastn_rev {A} k (l : list A) : (k <= length l)%nat -> lastn k (rev l) = rev (firstn k l).
Proof.
  intro H. unfold lastn. rewrite rev_length, skipn_rev. f_equal. f_equal. lia.
Qed.

Lemma windows_rev k : forall c, (1 <= k)%nat -> windows k (rev c) = rev (map (@rev N) (windows k c)).
Proof.
  induction c as [|a c IH]; intro Hk; [reflexivity|].
  cbn [rev]. rewrite windows_snoc by exact Hk. rewrite IH by exact Hk. rewrite rev_length.
  cbn [windows]. rewrite map_app, rev_app_distr. f_equal.
  cbn [length]. destruct (Nat.leb_spec k (S (length c))) as [H|H]; [|reflexivity].
  cbn [map rev app]. f_equal. change (rev c ++ [a]) with (rev (a :: c)). apply lastn_rev. cbn [length]. lia.
Qed.

Lemma windows_map (f : N -> N) k : forall c, windows k (map f c) = map (map f) (windows k c).
Proof.
  induction c as [|a c IH]; [reflexivity|].
  cbn [map windows]. rewrite IH, map_app. f_equal. cbn [length]. rewrite map_length.
  destruct (k <=? S (length c))%nat; [|reflexivity]. cbn [map]. f_equal.
  change (f a :: map f c) with (map f (a :: c)). apply firstn_map.
Qed.

Lemma filter_rev {A} (p : A -> bool) l : filter p (rev l) = rev (filter p l).
Proof.
  induction l as [|a l IH]; [reflexivity|]. cbn [rev filter]. rewrite filter_app, IH. cbn [filter].
  destruct (p a); [reflexivity | apply app_nil_r].
Qed.

Lemma filter_map_comm {A B} (p : B -> bool) (g : A -> B) l : filter p (map g l) = map g (filter (fun x => p (g x)) l).
Proof.
  induction l as [|a l IH]; [reflexivity|]. cbn [map filter]. rewrite IH. destruct (p (g a)); reflexivity.
Qed.

Lemma forallb_rev {A} (p : A -> bool) l : forallb p (rev l) = forallb p l.
Proof.
  induction l as [|a l IH]; [reflexivity|]. cbn [rev forallb]. rewrite forallb_app, IH. cbn [forallb].
  rewrite andb_true_r. apply andb_comm.
Qed.

Section RevComp.
Variable comp : N -> N.
Hypothesis comp_acgt : forall b, b < 4 -> comp b = 3 - b.
Hypothesis comp_other : forall b, 4 <= b -> 4 <= comp b.

Definition rc_contig (c : list N) : list N := rev (map comp c).

Lemma comp_acgtb b : acgtb (comp b) = acgtb b.
Proof.
  unfold acgtb. destruct (N.ltb_spec b 4) as [H|H].
  - rewrite comp_acgt by exact H. apply N.ltb_lt. lia.
  - apply N.ltb_ge. apply comp_other. exact H.
Qed.

Lemma rc_forallb w : forallb acgtb (rev (map comp w)) = forallb acgtb w.
Proof.
  rewrite forallb_rev. induction w as [|b w IH]; [reflexivity|].
  cbn [map forallb]. rewrite comp_acgtb, IH. reflexivity.
Qed.
End RevComp.

Section RevComp2.
Variable comp : N -> N.
Hypothesis comp_acgt : forall b, b < 4 -> comp b = 3 - b.
Hypothesis comp_other : forall b, 4 <= b -> 4 <= comp b.

Lemma rc_is_revcomp w : Forall acgt w -> rev (map comp w) = revcomp w.
Proof.
  intro H. unfold revcomp. f_equal. apply map_ext_in. intros b Hb.
  rewrite Forall_forall in H. specialize (H b Hb). unfold acgt in H.
  rewrite comp_acgt by exact H. symmetry. apply Segment_proofs.rc_base_acgt. exact H.
Qed.

Lemma canon_rc k w : Forall acgt w -> canon k (rev (map comp w)) = canon k w.
Proof.
  intro H. rewrite rc_is_revcomp by exact H. unfold canon. rewrite revcomp_invol by exact H. apply N.min_comm.
Qed.

Lemma kmers_spec_rc k c : (1 <= N.to_nat k)%nat ->
  kmers_spec k (rc_contig comp c) = rev (kmers_spec k c).
Proof.
  intro Hk. unfold kmers_spec, rc_contig.
  rewrite windows_rev by exact Hk. rewrite windows_map, map_map.
  rewrite filter_rev, filter_map_comm, map_rev, map_map. f_equal.
  rewrite (filter_ext _ (forallb acgtb)) by (intro w; apply rc_forallb; assumption).
  apply map_ext_in. intros w Hw. apply filter_In in Hw. destruct Hw as (_ & Hw).
  apply canon_rc. apply acgtb_forall. exact Hw.
Qed.

Lemma enumerate_rc_proof k c : 1 <= k <= 32 ->
  enumerate_kmers (rc_contig comp c) k = rev (enumerate_kmers c k).
Proof. intro Hk. rewrite !kmers_spec_proof by exact Hk. apply kmers_spec_rc. lia. Qed.

(* c' is c with some contigs reverse-complemented *)
Definition rc_some (contigs contigs' : list (list N)) : Prop :=
  Forall2 (fun c c' => c' = c \/ c' = rc_contig comp c) contigs contigs'.

Lemma rc_some_perm k contigs contigs' : 1 <= k <= 32 -> rc_some contigs contigs' ->
  Permutation (all_kmers contigs k) (all_kmers contigs' k).
Proof.
  intros Hk H. unfold all_kmers. induction H as [|c c' l l' Hc H IH]; [constructor|].
  cbn [map concat]. apply Permutation_app; [|exact IH].
  destruct Hc as [->| ->]; [apply Permutation_refl|].
  rewrite enumerate_rc_proof by exact Hk. apply Permutation_rev.
Qed.
End RevComp2.

(* ---- the three sets in terms of counts *)
Lemma det_unfold sort contigs k seg :
  determine_splitters_gen sort contigs k seg =
  (canon_set sort (concat (map (fun c => find_actual_splitters_in_contig c
        (mem (remove_non_singletons (sort (all_kmers contigs k)) 0)) k seg) contigs)),
   canon_set sort (remove_non_singletons (sort (all_kmers contigs k)) 0),
   canon_set sort (duplicates_scan (sort (all_kmers contigs k)))).
Proof. reflexivity. Qed.

Lemma singletons_exact_proof : forall sort contigs k seg spl sing dup,
  (forall l, Permutation (sort l) l /\ StronglySorted N.le (sort l)) -> 1 <= k <= 32 ->
  determine_splitters_gen sort contigs k seg = (spl, sing, dup) ->
  forall v, In v sing <-> cnt (concat (map (kmers_spec k) contigs)) v = 1%nat.
Proof.
  intros sort contigs k seg spl sing dup S Hk E v. rewrite det_unfold in E. injection E as _ <- _.
  rewrite canon_set_In by exact S. rewrite singletons_of_sorted by apply S.
  rewrite (perm_cnt _ _ v (proj1 (S _))). rewrite all_kmers_spec by exact Hk. reflexivity.
Qed.

Lemma duplicates_exact_proof : forall sort contigs k seg spl sing dup,
  (forall l, Permutation (sort l) l /\ StronglySorted N.le (sort l)) -> 1 <= k <= 32 ->
  determine_splitters_gen sort contigs k seg = (spl, sing, dup) ->
  forall v, In v dup <-> (2 <= cnt (concat (map (kmers_spec k) contigs)) v)%nat.
Proof.
  intros sort contigs k seg spl sing dup S Hk E v. rewrite det_unfold in E. injection E as _ _ <-.
  rewrite canon_set_In by exact S. rewrite duplicates_of_sorted by apply S.
  rewrite (perm_cnt _ _ v (proj1 (S _))). rewrite all_kmers_spec by exact Hk. reflexivity.
Qed.

Lemma disjoint_proof : forall sort contigs k seg spl sing dup,
  (forall l, Permutation (sort l) l /\ StronglySorted N.le (sort l)) -> 1 <= k <= 32 ->
  determine_splitters_gen sort contigs k seg = (spl, sing, dup) ->
  forall v, In v sing -> In v dup -> False.
Proof.
  intros sort contigs k seg spl sing dup S Hk E v H1 H2.
  apply (singletons_exact_proof _ _ _ _ _ _ _ S Hk E) in H1.
  apply (duplicates_exact_proof _ _ _ _ _ _ _ S Hk E) in H2. lia.
Qed.

Lemma sets_sorted_proof : forall sort contigs k seg spl sing dup,
  (forall l, Permutation (sort l) l /\ StronglySorted N.le (sort l)) ->
  determine_splitters_gen sort contigs k seg = (spl, sing, dup) ->
  StronglySorted N.lt spl /\ StronglySorted N.lt sing /\ StronglySorted N.lt dup.
Proof.
  intros sort contigs k seg spl sing dup S E. rewrite det_unfold in E. injection E as <- <- <-.
  repeat split; apply canon_set_sorted; exact S.
Qed.

Lemma perm_invariant_proof : forall sort contigs contigs' k seg,
  (forall l, Permutation (sort l) l /\ StronglySorted N.le (sort l)) ->
  Permutation contigs contigs' ->
  determine_splitters_gen sort contigs k seg = determine_splitters_gen sort contigs' k seg.
Proof.
  intros sort contigs contigs' k seg S P. rewrite !det_unfold.
  assert (E : sort (all_kmers contigs k) = sort (all_kmers contigs' k)).
  { apply sort_perm_eq; [exact S|]. unfold all_kmers. apply perm_concat_map. exact P. }
  rewrite <- E. f_equal. f_equal. unfold canon_set. f_equal.
  apply sort_perm_eq; [exact S|]. apply perm_concat_map. exact P.
Qed.

Lemma rc_invariant_proof : forall sort comp contigs contigs' k seg spl sing dup spl' sing' dup',
  (forall l, Permutation (sort l) l /\ StronglySorted N.le (sort l)) -> 1 <= k <= 32 ->
  (forall b, b < 4 -> comp b = 3 - b) -> (forall b, 4 <= b -> 4 <= comp b) ->
  Forall2 (fun c c' => c' = c \/ c' = rev (map comp c)) contigs contigs' ->
  determine_splitters_gen sort contigs k seg = (spl, sing, dup) ->
  determine_splitters_gen sort contigs' k seg = (spl', sing', dup') ->
  sing = sing' /\ dup = dup'.
Proof.
  intros sort comp contigs contigs' k seg spl sing dup spl' sing' dup' S Hk C1 C2 F E E'.
  rewrite det_unfold in E, E'. injection E as _ <- <-. injection E' as _ <- <-.
  assert (Q : sort (all_kmers contigs k) = sort (all_kmers contigs' k)).
  { apply sort_perm_eq; [exact S|]. apply (rc_some_perm comp C1 C2 k contigs contigs' Hk F). }
  rewrite Q. split; reflexivity.
Qed.

(* ================================================================ D. occurrences and the pick loop with positions *)
(* [occ c k e v]: the k bases of c ending just before index e are ACGT and their canonical value is v *)
Definition occ (c : list N) (k : N) (e : nat) (v : N) : Prop :=
  exists p w post, c = p ++ w ++ post /\ length w = N.to_nat k /\ e = (length p + N.to_nat k)%nat /\
                   Forall acgt w /\ canon k w = v.

Lemma kspec_app k p r : exists X, kmers_spec k (p ++ r) = X ++ kmers_spec k r.
Proof.
  unfold kmers_spec. induction p as [|a p (X & IH)]; [exists []; reflexivity|].
  cbn [app windows]. rewrite filter_app, map_app, IH. eexists. rewrite app_assoc. reflexivity.
Qed.

Lemma kspec_head k w post : (1 <= N.to_nat k)%nat -> length w = N.to_nat k -> Forall acgt w ->
  kmers_spec k (w ++ post) = canon k w :: kmers_spec k (tl (w ++ post)).
Proof.
  intros Hk Hl Hw. unfold kmers_spec. destruct w as [|a w0]; [cbn in Hl; lia|].
  cbn [app tl windows]. change (a :: w0 ++ post) with ((a :: w0) ++ post).
  rewrite app_length, Hl. destruct (Nat.leb_spec (N.to_nat k) (N.to_nat k + length post)) as [_|H]; [|lia].
  rewrite firstn_app, Hl, Nat.sub_diag. cbn [firstn]. rewrite app_nil_r.
  rewrite <- Hl, firstn_all. cbn [app filter].
  rewrite (proj2 (acgtb_forall (a :: w0)) Hw). reflexivity.
Qed.

Lemma occ_split c k e v : (1 <= N.to_nat k)%nat -> occ c k e v ->
  exists X, kmers_spec k c = X ++ v :: kmers_spec k (skipn (S (e - N.to_nat k)) c).
Proof.
  intros Hk (p & w & post & -> & Hl & -> & Hw & <-).
  destruct (kspec_app k p (w ++ post)) as (X & E). exists X. rewrite E.
  rewrite kspec_head by assumption. do 2 f_equal.
  replace (length p + N.to_nat k - N.to_nat k)%nat with (length p) by lia.
  destruct (w ++ post) as [|a t] eqn:Et.
  { apply (f_equal (@length N)) in Et. rewrite app_length in Et. cbn in Et. lia. }
  cbn [tl]. rewrite <- (Nat.add_1_r (length p)), <- skipn_skipn.
  rewrite skipn_app, Nat.sub_diag, skipn_all. reflexivity.
Qed.

Lemma occ_In c k e v : (1 <= N.to_nat k)%nat -> occ c k e v -> In v (kmers_spec k c).
Proof. intros Hk H. destruct (occ_split c k e v Hk H) as (X & ->). apply in_or_app. right. left. reflexivity. Qed.

Lemma occ_skip c k e v n : occ c k e v -> (n + N.to_nat k <= e)%nat -> occ (skipn n c) k (e - n) v.
Proof.
  intros (p & w & post & -> & Hl & -> & Hw & <-) Hn.
  exists (skipn n p), w, post. rewrite skipn_app. replace (n - length p)%nat with 0%nat by lia. cbn [skipn].
  rewrite skipn_length. repeat split; auto. lia.
Qed.

Lemma occ_two c k e e' v : (1 <= N.to_nat k)%nat -> occ c k e v -> occ c k e' v -> (e < e')%nat ->
  (2 <= cnt (kmers_spec k c) v)%nat.
Proof.
  intros Hk H H' Hlt. destruct (occ_split c k e v Hk H) as (X & ->).
  assert (He : (N.to_nat k <= e)%nat) by (destruct H as (p & w & post & _ & _ & -> & _); lia).
  pose proof (occ_skip c k e' v (S (e - N.to_nat k)) H' ltac:(lia)) as H2.
  apply occ_In in H2; [|exact Hk]. apply (count_occ_In N.eq_dec) in H2.
  rewrite count_occ_app. cbn [count_occ]. destruct (N.eq_dec v v); [|congruence]. lia.
Qed.

Lemma occ_unique c k e e' v : (1 <= N.to_nat k)%nat -> occ c k e v -> occ c k e' v ->
  (cnt (kmers_spec k c) v <= 1)%nat -> e = e'.
Proof.
  intros Hk H H' Hc. destruct (Nat.lt_trichotomy e e') as [Hlt|[->|Hlt]]; [|reflexivity|].
  - pose proof (occ_two c k e e' v Hk H H' Hlt). lia.
  - pose proof (occ_two c k e' e v Hk H' H Hlt). lia.
Qed.

(* the value of a full window of the state machine *)
Lemma full_value k run : 1 <= k <= 32 -> Forall acgt run -> (N.to_nat k <= length run)%nat ->
  data_canonical (feed (kmer_new k) run) = canon k (lastn (N.to_nat k) run).
Proof.
  intros Hk Hr Hl. pose proof (Segment_proofs.lastn_split (N.to_nat k) run) as E.
  rewrite <- E at 1. rewrite <- E in Hr. apply Forall_app in Hr. destruct Hr as (H1 & H2).
  rewrite canonical_is_min_proof; auto.
  unfold lenN. rewrite Segment_proofs.lastn_length by exact Hl. lia.
Qed.

Lemma occ_of_run c k pre rest p0 run : c = pre ++ rest -> pre = p0 ++ run -> Forall acgt run ->
  (N.to_nat k <= length run)%nat ->
  occ c k (length pre) (canon k (lastn (N.to_nat k) run)).
Proof.
  intros -> -> Hr Hl. pose proof (Segment_proofs.lastn_split (N.to_nat k) run) as E.
  exists (p0 ++ firstn (length run - N.to_nat k) run), (lastn (N.to_nat k) run), rest.
  split. { rewrite <- !app_assoc. f_equal. rewrite app_assoc, E. reflexivity. }
  split. { apply Segment_proofs.lastn_length. exact Hl. }
  split. { rewrite !app_length, firstn_length. lia. }
  split; [|reflexivity]. rewrite <- E in Hr. apply Forall_app in Hr. tauto.
Qed.

Section Sel.
Variables (cand : N -> bool) (seg kN : N) (c : list N).
Hypothesis Hk : 1 <= kN <= 32.

Fixpoint end_pick_pos (recent : list (nat * N)) : list (nat * N) :=
  match recent with
  | [] => []
  | ev :: r => if cand (snd ev) then [ev] else end_pick_pos r
  end.

(* sel_loop with the index just after each k-mer attached; loop picks and the end pick are returned apart *)
Fixpoint sel_pos (rest : list N) (pos : nat) (x : kmer) (cl : N) (recent : list (nat * N))
  : list (nat * N) * list (nat * N) :=
  match rest with
  | [] => ([], end_pick_pos recent)
  | base :: rest' =>
      if 3 <? base then sel_pos rest' (S pos) (kmer_reset x) (cl + 1) []
      else
        let x1 := insert_canonical x base in
        if is_full x1 then
          let v := data_canonical x1 in
          if (seg <=? cl) && cand v then
            let r := sel_pos rest' (S pos) (kmer_reset x1) (0 + 1) [] in ((S pos, v) :: fst r, snd r)
          else sel_pos rest' (S pos) x1 (cl + 1) ((S pos, v) :: recent)
        else sel_pos rest' (S pos) x1 (cl + 1) recent
  end.

Lemma end_pick_erase recent : end_pick cand (map snd recent) = map snd (end_pick_pos recent).
Proof.
  induction recent as [|ev r IH]; [reflexivity|]. cbn [map end_pick end_pick_pos].
  destruct (cand (snd ev)); [reflexivity | exact IH].
Qed.

Lemma sel_pos_erase : forall rest pos x cl recent,
  sel_loop cand seg rest x cl (map snd recent) =
  map snd (fst (sel_pos rest pos x cl recent) ++ snd (sel_pos rest pos x cl recent)).
Proof.
  induction rest as [|base rest IH]; intros pos x cl recent.
  - cbn [sel_loop sel_pos fst snd app]. apply end_pick_erase.
  - cbn [sel_loop sel_pos]. destruct (3 <? base).
    + apply (IH (S pos) (kmer_reset x) (cl + 1) []).
    + cbv zeta. destruct (is_full (insert_canonical x base)).
      * destruct ((seg <=? cl) && cand (data_canonical (insert_canonical x base))).
        -- cbn [fst snd app map]. f_equal. apply (IH (S pos) _ (0 + 1) []).
        -- apply (IH (S pos) _ (cl + 1) ((S pos, data_canonical (insert_canonical x base)) :: recent)).
      * apply IH.
Qed.

Lemma end_pick_pos_spec recent : forall ev, In ev (end_pick_pos recent) -> In ev recent /\ cand (snd ev) = true.
Proof.
  induction recent as [|e r IH]; intros ev H; [destruct H|].
  cbn [end_pick_pos] in H. destruct (cand (snd e)) eqn:E.
  - destruct H as [<-|[]]. split; [left; reflexivity | exact E].
  - destruct (IH ev H). split; [right|]; assumption.
Qed.

Lemma end_pick_pos_len recent : (length (end_pick_pos recent) <= 1)%nat.
Proof. induction recent as [|e r IH]; cbn; [lia|]. destruct (cand (snd e)); cbn; lia. Qed.

(* spacing of the loop picks, from a state (current_len = cl, next index = pos) *)
Fixpoint picks_ok (cl : N) (pos : nat) (L : list (nat * N)) : Prop :=
  match L with
  | [] => True
  | ev :: L' => (pos < fst ev)%nat /\ seg <= cl + N.of_nat (fst ev - 1 - pos) /\ picks_ok 1 (fst ev) L'
  end.

Lemma picks_ok_shift cl pos L : picks_ok (cl + 1) (S pos) L -> picks_ok cl pos L.
Proof. destruct L as [|ev L']; [auto|]. cbn [picks_ok]. intros (H1 & H2 & H3). repeat split; auto; lia. Qed.

Lemma picks_ok_lb : forall L cl pos, picks_ok cl pos L ->
  forall ev, In ev L -> (pos < fst ev)%nat /\ seg <= cl + N.of_nat (fst ev - 1 - pos).
Proof.
  induction L as [|e L IH]; intros cl pos H ev Hin; [destruct Hin|].
  cbn [picks_ok] in H. destruct H as (H1 & H2 & H3). destruct Hin as [<-|Hin]; [auto|].
  destruct (IH _ _ H3 ev Hin). split; lia.
Qed.

Lemma picks_ok_spaced : forall L cl pos, picks_ok cl pos L ->
  forall ev ev', In ev L -> In ev' L -> (fst ev < fst ev')%nat -> N.of_nat (fst ev) + seg <= N.of_nat (fst ev').
Proof.
  induction L as [|e L IH]; intros cl pos H ev ev' Hin Hin' Hlt; [destruct Hin|].
  cbn [picks_ok] in H. destruct H as (H1 & H2 & H3).
  destruct Hin as [<-|Hin]; destruct Hin' as [<-|Hin'].
  - lia.
  - destruct (picks_ok_lb _ _ _ H3 ev' Hin'). lia.
  - destruct (picks_ok_lb _ _ _ H3 ev Hin). lia.
  - apply (IH _ _ H3 ev ev'); assumption.
Qed.

Definition sel_good (pre : list N) (recent : list (nat * N)) (r : list (nat * N) * list (nat * N)) (cl : N) : Prop :=
  Forall (fun ev => occ c kN (fst ev) (snd ev) /\ cand (snd ev) = true) (fst r ++ snd r) /\
  picks_ok cl (length pre) (fst r) /\
  (forall ev, In ev (snd r) ->
     (In ev recent /\ fst r = []) \/
     ((length pre < fst ev)%nat /\ forall ev', In ev' (fst r) -> (fst ev' < fst ev)%nat)) /\
  (length (snd r) <= 1)%nat.

Lemma sel_pos_inv : forall rest pre run p0 cl recent,
  c = pre ++ rest -> pre = p0 ++ run -> Forall acgt run ->
  Forall (fun ev => occ c kN (fst ev) (snd ev) /\ (fst ev <= length pre)%nat) recent ->
  sel_good pre recent (sel_pos rest (length pre) (feed (kmer_new kN) run) cl recent) cl.
Proof.
  induction rest as [|base rest IH]; intros pre run p0 cl recent Hc Hp Hrun Hrec.
  - cbn [sel_pos]. unfold sel_good. cbn [fst snd app picks_ok]. split; [|split; [exact I|split]].
    + rewrite Forall_forall. intros ev Hev. destruct (end_pick_pos_spec recent ev Hev) as (Hin & Hc').
      rewrite Forall_forall in Hrec. destruct (Hrec ev Hin). auto.
    + intros ev Hev. left. split; [|reflexivity]. apply (end_pick_pos_spec recent ev Hev).
    + apply end_pick_pos_len.
  - assert (Hc' : c = (pre ++ [base]) ++ rest) by (rewrite <- app_assoc; exact Hc).
    assert (Hlen' : length (pre ++ [base]) = S (length pre)) by (rewrite app_length; cbn; lia).
    cbn [sel_pos]. destruct (3 <? base) eqn:Hb.
    + (* non-ACGT: k-mer and recent_kmers cleared, current_len keeps counting *)
      rewrite Segment_proofs.reset_feed. rewrite <- Hlen'.
      specialize (IH (pre ++ [base]) [] (pre ++ [base]) (cl + 1) [] Hc' (eq_sym (app_nil_r _)) (Forall_nil _) (Forall_nil _)).
      change (feed (kmer_new kN) []) with (kmer_new kN) in IH.
      destruct IH as (G1 & G2 & G3 & G4). unfold sel_good. rewrite Hlen' in *.
      split; [exact G1|]. split; [apply picks_ok_shift; exact G2|]. split; [|exact G4].
      intros ev Hev. destruct (G3 ev Hev) as [([] & _)|(Hlt & Hall)]. right. split; [lia | exact Hall].
    + apply Segment_proofs.acgt_ltb in Hb.
      assert (Hrun' : Forall acgt (run ++ [base])) by (apply Forall_app; split; [assumption | repeat constructor; assumption]).
      assert (Hp' : pre ++ [base] = p0 ++ run ++ [base]) by (rewrite Hp, <- app_assoc; reflexivity).
      assert (Hl' : length (run ++ [base]) = S (length run)) by (rewrite app_length; cbn; lia).
      cbv zeta. rewrite <- Segment_proofs.feed_snoc. rewrite Segment_proofs.is_full_feed.
      destruct (N.leb_spec kN (lenN (run ++ [base]))) as [Hfull|Hnf].
      * unfold lenN in Hfull. rewrite Hl' in Hfull.
        assert (Hocc : occ c kN (S (length pre)) (data_canonical (feed (kmer_new kN) (run ++ [base])))).
        { rewrite full_value by (auto; lia). rewrite <- Hlen'.
          apply (occ_of_run c kN (pre ++ [base]) rest p0 (run ++ [base])); auto. lia. }
        set (v := data_canonical (feed (kmer_new kN) (run ++ [base]))) in *.
        destruct ((seg <=? cl) && cand v) eqn:Hpick.
        -- (* a pick *)
           apply andb_true_iff in Hpick. destruct Hpick as (Hseg & Hcand). apply N.leb_le in Hseg.
           rewrite Segment_proofs.reset_feed. rewrite <- Hlen'.
           specialize (IH (pre ++ [base]) [] (pre ++ [base]) (0 + 1) [] Hc' (eq_sym (app_nil_r _)) (Forall_nil _) (Forall_nil _)).
           change (feed (kmer_new kN) []) with (kmer_new kN) in IH.
           destruct IH as (G1 & G2 & G3 & G4). unfold sel_good. rewrite Hlen' in *. cbn [fst snd].
           split; [|split; [|split]].
           ++ cbn [app]. constructor; [cbn [fst snd]; auto | exact G1].
           ++ cbn [picks_ok fst]. split; [lia|]. split; [lia|]. exact G2.
           ++ intros ev Hev. destruct (G3 ev Hev) as [([] & _)|(Hlt & Hall)]. right. split; [lia|].
              intros ev' [<-|Hin]; [cbn [fst]; lia | apply Hall; exact Hin].
           ++ exact G4.
        -- (* full k-mer, not picked: remembered in recent_kmers *)
           rewrite <- Hlen'.
           assert (Hrec' : Forall (fun ev => occ c kN (fst ev) (snd ev) /\ (fst ev <= length (pre ++ [base]))%nat)
                                  ((length (pre ++ [base]), v) :: recent)).
           { constructor; [cbn [fst snd]; rewrite Hlen'; auto|].
             apply Forall_impl with (2 := Hrec). intros ev (H1 & H2). split; [exact H1 | lia]. }
           specialize (IH (pre ++ [base]) (run ++ [base]) p0 (cl + 1) _ Hc' Hp' Hrun' Hrec').
           destruct IH as (G1 & G2 & G3 & G4). unfold sel_good. rewrite Hlen' in *.
           split; [exact G1|]. split; [apply picks_ok_shift; exact G2|]. split; [|exact G4].
           intros ev Hev. destruct (G3 ev Hev) as [([<-|Hin] & He)|(Hlt & Hall)].
           ++ right. cbn [fst]. split; [lia|]. rewrite He. intros ev' [].
           ++ left. auto.
           ++ right. split; [lia | exact Hall].
      * (* window not full *)
        rewrite <- Hlen'.
        assert (Hrec' : Forall (fun ev => occ c kN (fst ev) (snd ev) /\ (fst ev <= length (pre ++ [base]))%nat) recent).
        { apply Forall_impl with (2 := Hrec). intros ev (H1 & H2). split; [exact H1 | lia]. }
        specialize (IH (pre ++ [base]) (run ++ [base]) p0 (cl + 1) _ Hc' Hp' Hrun' Hrec').
        destruct IH as (G1 & G2 & G3 & G4). unfold sel_good. rewrite Hlen' in *.
        split; [exact G1|]. split; [apply picks_ok_shift; exact G2|]. split; [|exact G4].
        intros ev Hev. destruct (G3 ev Hev) as [(Hin & He)|(Hlt & Hall)]; [left; auto|].
        right. split; [lia | exact Hall].
Qed.

(* the pick loop on the whole contig *)
Definition picks_of : list (nat * N) * list (nat * N) := sel_pos c 0 (kmer_new kN) seg [].

Lemma picks_of_erase : find_actual_splitters_in_contig c cand kN seg = map snd (fst picks_of ++ snd picks_of).
Proof. unfold find_actual_splitters_in_contig, picks_of. apply (sel_pos_erase c 0 (kmer_new kN) seg []). Qed.

Lemma picks_of_good : sel_good [] [] picks_of seg.
Proof.
  unfold picks_of.
  apply (sel_pos_inv c [] [] [] seg [] eq_refl eq_refl (Forall_nil _) (Forall_nil _)).
Qed.
End Sel.

(* ================================================================ E. the segmentation loop with cut positions *)
Lemma occ_bounds c k e v : occ c k e v -> (N.to_nat k <= e <= length c)%nat.
Proof. intros (p & w & post & -> & Hl & -> & _). rewrite !app_length. lia. Qed.

Section Cuts.
Variables (c : list N) (spl : N -> bool) (kN : N).
Hypothesis Hk : 1 <= kN <= 32.
Local Notation k := (N.to_nat kN).

(* [cutsP s lo L]: L is the list of segments produced from segment start s when every further cut ends at
   an index >= lo: each cut ends at an occurrence of a splitter, the next segment starts k bases earlier *)
Inductive cutsP : nat -> nat -> list segment -> Prop :=
| cp_last s lo sg : sdata sg = skipn s c -> cutsP s lo [sg]
| cp_cons s lo e v sg tl : (lo <= e)%nat -> (s < e)%nat -> occ c kN e v -> spl v = true ->
    sdata sg = slice c s e -> cutsP (e - k) (S e) tl -> cutsP s lo (sg :: tl).

Lemma cutsP_lo s lo lo' L : cutsP s lo L -> (lo' <= lo)%nat -> cutsP s lo' L.
Proof.
  intros H Hlo. destruct H as [s lo sg H | s lo e v sg tl H1 H2 H3 H4 H5 H6].
  - apply cp_last. exact H.
  - apply cp_cons with (e := e) (v := v); auto. lia.
Qed.

Lemma cutsP_inv s lo L : cutsP s lo L ->
  (exists sg, L = [sg] /\ sdata sg = skipn s c) \/
  (exists e v sg tl, L = sg :: tl /\ (lo <= e)%nat /\ (s < e)%nat /\ occ c kN e v /\ spl v = true /\
                     sdata sg = slice c s e /\ cutsP (e - k) (S e) tl).
Proof.
  intro H. destruct H as [s lo sg H | s lo e v sg tl H1 H2 H3 H4 H5 H6]; [left; eauto|].
  right. exists e, v, sg, tl. auto 10.
Qed.

Lemma seg_cuts_gen ws : ws = true -> forall rest pre run p0 s f fd,
  c = pre ++ rest -> pre = p0 ++ run -> Forall acgt run -> (s <= length pre)%nat -> (s < length c)%nat ->
  cutsP s (S (length pre)) (seg_loop ws spl k c rest (length pre) (feed (kmer_new kN) run) s f fd).
Proof.
  intro Hws.
  induction rest as [|base rest IH]; intros pre run p0 s f fd Hc Hp Hrun Hs Hlt.
  - cbn [seg_loop]. rewrite Segment_proofs.seg_final_eq by assumption. apply cp_last. reflexivity.
  - assert (Hc' : c = (pre ++ [base]) ++ rest) by (rewrite <- app_assoc; exact Hc).
    assert (Hlen' : length (pre ++ [base]) = S (length pre)) by (rewrite app_length; cbn; lia).
    assert (Hle : (S (length pre) <= length c)%nat) by (rewrite Hc', app_length; lia).
    cbn [seg_loop]. destruct (3 <? base) eqn:Hb.
    + rewrite Segment_proofs.reset_feed. rewrite <- Hlen'.
      apply cutsP_lo with (lo := S (length (pre ++ [base]))); [|lia].
      apply (IH (pre ++ [base]) [] (pre ++ [base]) s f fd); auto.
      * rewrite app_nil_r; reflexivity.
      * lia.
    + apply Segment_proofs.acgt_ltb in Hb.
      assert (Hrun' : Forall acgt (run ++ [base])) by (apply Forall_app; split; [assumption | repeat constructor; assumption]).
      assert (Hp' : pre ++ [base] = p0 ++ run ++ [base]) by (rewrite Hp, <- app_assoc; reflexivity).
      assert (Hl' : length (run ++ [base]) = S (length run)) by (rewrite app_length; cbn; lia).
      rewrite <- Segment_proofs.feed_snoc. rewrite Segment_proofs.is_full_feed.
      destruct (N.leb_spec kN (lenN (run ++ [base]))) as [Hfull|Hnf].
      * unfold lenN in Hfull. rewrite Hl' in Hfull.
        assert (Hocc : occ c kN (S (length pre)) (data_canonical (feed (kmer_new kN) (run ++ [base])))).
        { rewrite full_value by (auto; lia). rewrite <- Hlen'.
          apply (occ_of_run c kN (pre ++ [base]) rest p0 (run ++ [base])); auto. lia. }
        destruct (spl (data_canonical (feed (kmer_new kN) (run ++ [base])))) eqn:Hspl.
        -- rewrite Segment_proofs.pushed_eq by lia. cbn [app].
           apply cp_cons with (e := S (length pre)) (v := data_canonical (feed (kmer_new kN) (run ++ [base]))); auto; [lia|].
           subst ws. cbv iota. rewrite Segment_proofs.reset_feed. rewrite <- Hlen'.
           apply (IH (pre ++ [base]) [] (pre ++ [base])); auto.
           ++ rewrite app_nil_r; reflexivity.
           ++ lia.
           ++ lia.
        -- rewrite <- Hlen'. apply cutsP_lo with (lo := S (length (pre ++ [base]))); [|lia].
           apply (IH (pre ++ [base]) (run ++ [base]) p0 s f fd); auto. lia.
      * rewrite <- Hlen'. apply cutsP_lo with (lo := S (length (pre ++ [base]))); [|lia].
        apply (IH (pre ++ [base]) (run ++ [base]) p0 s f fd); auto. lia.
Qed.

Lemma seg_cuts : forall rest pre run p0 s f fd,
  c = pre ++ rest -> pre = p0 ++ run -> Forall acgt run -> (s <= length pre)%nat -> (s < length c)%nat ->
  cutsP s (S (length pre)) (seg_loop true spl k c rest (length pre) (feed (kmer_new kN) run) s f fd).
Proof. exact (seg_cuts_gen true eq_refl). Qed.

Lemma split_cuts : kN <= lenN c -> cutsP 0 1 (split_gen true c spl kN).
Proof.
  intro Hl. unfold split_gen. destruct (N.ltb_spec (lenN c) kN) as [H|_]; [lia|].
  assert (Hlt : (0 < length c)%nat) by (unfold lenN in Hl; lia).
  pose proof (seg_cuts c [] [] [] 0%nat MISSING_KMER false eq_refl eq_refl (Forall_nil _) (le_n _) Hlt) as C.
  cbn [length feed fold_left] in C.
  destruct (seg_loop true spl k c c 0 (kmer_new kN) 0 MISSING_KMER false) eqn:E; [inversion C | exact C].
Qed.

(* ---- interior segments, given what the selection guarantees about the cut positions *)
Variables (seg : N) (Lp Ep : list (nat * N)).
Hypothesis HP : forall e v, occ c kN e v -> spl v = true -> In (e, v) (Lp ++ Ep).
Hypothesis Hsp : forall ev ev', In ev Lp -> In ev' Lp -> (fst ev < fst ev')%nat ->
  N.of_nat (fst ev) + seg <= N.of_nat (fst ev').
Hypothesis Hend : forall ev ev', In ev Ep -> In ev' Lp -> (fst ev' < fst ev)%nat.
Hypothesis Hone : (length Ep <= 1)%nat.

Lemma Ep_one a b : In a Ep -> In b Ep -> a = b.
Proof.
  destruct Ep as [|x [|y t]]; cbn in *; [tauto | | lia]. intros [<-|[]] [<-|[]]. reflexivity.
Qed.

(* a cut that is followed by a later cut is a loop pick *)
Lemma earlier_cut_is_loop e v e2 v2 : occ c kN e v -> spl v = true -> occ c kN e2 v2 -> spl v2 = true ->
  (e < e2)%nat -> In (e, v) Lp.
Proof.
  intros O1 S1 O2 S2 Hlt. pose proof (HP e v O1 S1) as H1. pose proof (HP e2 v2 O2 S2) as H2.
  apply in_app_or in H1. apply in_app_or in H2. destruct H1 as [H1|H1]; [exact H1|]. exfalso.
  destruct H2 as [H2|H2].
  - pose proof (Hend _ _ H1 H2). cbn [fst] in *. lia.
  - pose proof (Ep_one _ _ H1 H2) as E. injection E as E _. lia.
Qed.

Lemma interior_tail : forall s lo L, cutsP s lo L ->
  forall e0 v0, s = (e0 - k)%nat -> lo = S e0 -> occ c kN e0 v0 -> spl v0 = true ->
  forall j sg, (j + 3 <= length L)%nat -> nth_error L j = Some sg -> seg + kN <= lenN (sdata sg).
Proof.
  induction 1 as [s lo sg0 H | s lo e v sg0 tl H1 H2 H3 H4 H5 H6 IH]; intros e0 v0 Es El O0 S0 j sg Hj Hn.
  - cbn [length] in Hj. lia.
  - destruct j as [|j].
    + cbn in Hn. injection Hn as <-.
      (* the tail has at least two segments: there is a later cut *)
      inversion H6 as [s' lo' sg' Hd | s' lo' e2 v2 sg' tl' K1 K2 K3 K4 K5 K6]; subst.
      { cbn [length] in Hj. lia. }
      pose proof (occ_bounds _ _ _ _ O0) as B0. pose proof (occ_bounds _ _ _ _ H3) as B1.
      assert (I0 : In (e0, v0) Lp) by (apply (earlier_cut_is_loop e0 v0 e v); auto; lia).
      assert (I1 : In (e, v) Lp) by (apply (earlier_cut_is_loop e v e2 v2); auto; lia).
      pose proof (Hsp _ _ I0 I1 ltac:(cbn [fst]; lia)) as Hd. cbn [fst] in Hd.
      unfold lenN. rewrite H5. rewrite Segment_proofs.slice_length by lia. lia.
    + cbn [nth_error] in Hn. cbn [length] in Hj.
      apply (IH e v eq_refl eq_refl H3 H4 j sg); [lia | exact Hn].
Qed.

Lemma interior_from_cuts : forall i sg, (1 <= i)%nat -> (i + 3 <= length (split_gen true c spl kN))%nat ->
  nth_error (split_gen true c spl kN) i = Some sg -> seg + kN <= lenN (sdata sg).
Proof.
  intros i sg Hi Hlen Hn.
  destruct (N.ltb_spec (lenN c) kN) as [Hs|Hl].
  { rewrite Segment_proofs.short_single_proof in Hlen by exact Hs. cbn [length] in Hlen. lia. }
  pose proof (split_cuts Hl) as C.
  apply cutsP_inv in C.
  destruct C as [(sg0 & E & _) | (e & v & sg0 & tl & E & H1 & H2 & H3 & H4 & H5 & H6)]; rewrite E in Hlen, Hn;
    [cbn [length] in Hlen; lia|].
  destruct i as [|i]; [lia|]. cbn [nth_error] in Hn. cbn [length] in Hlen.
  apply (interior_tail _ _ _ H6 e v eq_refl eq_refl H3 H4 i sg); [lia | exact Hn].
Qed.
End Cuts.

(* ================================================================ F. a splitter occurs only at its pick position *)
Lemma cnt_concat_In (ls : list (list N)) l v : In l ls -> In v l -> (1 <= cnt (concat ls) v)%nat.
Proof.
  intros H1 H2. assert (H : In v (concat ls)) by (apply in_concat; exists l; auto).
  apply (count_occ_In N.eq_dec) in H. lia.
Qed.

Section Pick.
Variables (sort : list N -> list N) (A B : list (list N)) (c : list N) (kN seg : N).
Hypothesis S : sort_ok sort.
Hypothesis Hk : 1 <= kN <= 32.
Let contigs := A ++ c :: B.
Let cands := remove_non_singletons (sort (all_kmers contigs kN)) 0.
Let used := concat (map (fun c' => find_actual_splitters_in_contig c' (mem cands) kN seg) contigs).

Lemma cand_singleton v : mem cands v = true -> cnt (kmers_of_ref kN contigs) v = 1%nat.
Proof.
  intro H. apply mem_In in H. unfold cands in H. apply singletons_of_sorted in H; [|apply S].
  rewrite (perm_cnt _ _ v (proj1 (S _))) in H. rewrite all_kmers_spec in H by exact Hk. exact H.
Qed.

Lemma ref_split v : cnt (kmers_of_ref kN contigs) v =
  (cnt (kmers_of_ref kN A) v + cnt (kmers_spec kN c) v + cnt (kmers_of_ref kN B) v)%nat.
Proof.
  unfold kmers_of_ref, contigs. rewrite map_app, concat_app. cbn [map concat].
  rewrite !count_occ_app. lia.
Qed.

Lemma used_pick e v : occ c kN e v -> In v used ->
  In (e, v) (fst (picks_of (mem cands) seg kN c) ++ snd (picks_of (mem cands) seg kN c)).
Proof.
  intros O Hu. unfold used in Hu. apply in_concat in Hu. destruct Hu as (l & Hl & Hv).
  apply in_map_iff in Hl. destruct Hl as (c' & <- & Hc').
  rewrite picks_of_erase in Hv. apply in_map_iff in Hv. destruct Hv as (ev & Hev & Hin).
  destruct (picks_of_good (mem cands) seg kN c' Hk) as (G1 & _).
  rewrite Forall_forall in G1. destruct (G1 ev Hin) as (O' & Hcand). rewrite Hev in O', Hcand.
  pose proof (cand_singleton v Hcand) as H1. rewrite ref_split in H1.
  assert (Hkn : (1 <= N.to_nat kN)%nat) by lia.
  pose proof (occ_In c kN e v Hkn O) as I0. apply (count_occ_In N.eq_dec) in I0.
  pose proof (occ_In c' kN (fst ev) v Hkn O') as I1.
  unfold contigs in Hc'. apply in_app_or in Hc'. destruct Hc' as [Hc'|[Hc'|Hc']].
  - pose proof (cnt_concat_In (map (kmers_spec kN) A) _ v (in_map _ _ _ Hc') I1). unfold kmers_of_ref in H1. lia.
  - subst c'. assert (E : fst ev = e) by (apply (occ_unique c kN (fst ev) e v Hkn O' O); lia).
    destruct ev as (e' & v'). cbn [fst snd] in *. subst. exact Hin.
  - pose proof (cnt_concat_In (map (kmers_spec kN) B) _ v (in_map _ _ _ Hc') I1). unfold kmers_of_ref in H1. lia.
Qed.
End Pick.

(* every returned splitter is picked somewhere, hence a candidate *)
Lemma splitters_subset_proof : forall sort contigs k seg spl sing dup,
  (forall l, Permutation (sort l) l /\ StronglySorted N.le (sort l)) -> 1 <= k <= 32 ->
  determine_splitters_gen sort contigs k seg = (spl, sing, dup) ->
  forall v, In v spl -> In v sing /\ cnt (concat (map (kmers_spec k) contigs)) v = 1%nat.
Proof.
  intros sort contigs k seg spl sing dup S Hk E v Hv.
  assert (Hs : In v sing); [|split; [exact Hs | apply (singletons_exact_proof _ _ _ _ _ _ _ S Hk E); exact Hs]].
  rewrite det_unfold in E. injection E as <- <- _.
  rewrite canon_set_In in Hv by exact S. rewrite canon_set_In by exact S.
  apply in_concat in Hv. destruct Hv as (l & Hl & Hv). apply in_map_iff in Hl. destruct Hl as (c' & <- & Hc').
  rewrite picks_of_erase in Hv. apply in_map_iff in Hv. destruct Hv as (ev & Hev & Hin).
  destruct (picks_of_good (mem (remove_non_singletons (sort (all_kmers contigs k)) 0)) seg k c' Hk) as (G1 & _).
  rewrite Forall_forall in G1. destruct (G1 ev Hin) as (_ & Hcand). rewrite Hev in Hcand.
  apply mem_In. exact Hcand.
Qed.

Lemma interior_spacing_proof : forall sort contigs k seg spl sing dup c i s,
  (forall l, Permutation (sort l) l /\ StronglySorted N.le (sort l)) -> 1 <= k <= 32 ->
  determine_splitters_gen sort contigs k seg = (spl, sing, dup) ->
  In c contigs ->
  (1 <= i)%nat -> (i + 3 <= length (split_at_splitters_with_size c (set_of_list spl) k seg))%nat ->
  nth_error (split_at_splitters_with_size c (set_of_list spl) k seg) i = Some s ->
  seg + k <= lenN (sdata s).
Proof.
  intros sort contigs k seg spl sing dup c i s S Hk E Hc Hi Hlen Hn.
  apply in_split in Hc. destruct Hc as (A & B & ->).
  rewrite det_unfold in E. injection E as <- _ _.
  set (cands := remove_non_singletons (sort (all_kmers (A ++ c :: B) k)) 0) in *.
  set (used := concat (map (fun c' => find_actual_splitters_in_contig c' (mem cands) k seg) (A ++ c :: B))) in *.
  unfold split_at_splitters_with_size in *.
  destruct (picks_of_good (mem cands) seg k c Hk) as (G1 & G2 & G3 & G4).
  apply (interior_from_cuts c (set_of_list (canon_set sort used)) k Hk seg
           (fst (picks_of (mem cands) seg k c)) (snd (picks_of (mem cands) seg k c))) with (i := i); auto.
  - intros e v O Hs. apply (used_pick sort A B c k seg S Hk e v O).
    change (set_of_list (canon_set sort used) v) with (mem (canon_set sort used) v) in Hs.
    apply mem_In in Hs. apply canon_set_In in Hs; [exact Hs | exact S].
  - intros ev ev'. apply (picks_ok_spaced (mem cands) seg k Hk _ _ _ G2).
  - intros ev ev' He He'. destruct (G3 ev He) as [([] & _)|(_ & Hall)]. apply Hall. exact He'.
Qed.

(* ================================================================ G. remaining pinned statements *)
Lemma find_candidate_kmers_multi_spec_proof : forall sort contigs k,
  (forall l, Permutation (sort l) l /\ StronglySorted N.le (sort l)) -> 1 <= k <= 32 ->
  StronglySorted N.lt (find_candidate_kmers_multi_gen sort contigs k) /\
  forall v, In v (find_candidate_kmers_multi_gen sort contigs k) <->
            cnt (concat (map (kmers_spec k) contigs)) v = 1%nat.
Proof.
  intros sort contigs k S Hk. unfold find_candidate_kmers_multi_gen. split.
  - unfold remove_non_singletons. apply (remove_non_singletons_spec_proof (sort (all_kmers contigs k))). apply S.
  - intro v. rewrite singletons_of_sorted by apply S.
    rewrite (perm_cnt _ _ v (proj1 (S _))). rewrite all_kmers_spec by exact Hk. reflexivity.
Qed.

Lemma find_candidate_kmers_one_proof : forall sort contig k,
  find_candidate_kmers_gen sort contig k = find_candidate_kmers_multi_gen sort [contig] k.
Proof.
  intros. unfold find_candidate_kmers_gen, find_candidate_kmers_multi_gen, all_kmers. cbn [map concat].
  rewrite app_nil_r. reflexivity.
Qed.

(* the streaming variants skip empty records, the in-memory one does not: no difference *)
Definition nonempty (c : list N) : bool := match c with [] => false | _ :: _ => true end.

Lemma concat_map_skip_nil {B} (f : list N -> list B) l : f [] = [] ->
  concat (map f (filter nonempty l)) = concat (map f l).
Proof.
  intro H. induction l as [|c l IH]; [reflexivity|]. cbn [filter].
  destruct c as [|a c]; cbn [nonempty map concat]; [rewrite H; exact IH | rewrite IH; reflexivity].
Qed.

Lemma enumerate_nil k : enumerate_kmers [] k = [].
Proof. unfold enumerate_kmers. destruct (lenN [] <? k); reflexivity. Qed.

Lemma skip_empty_proof : forall sort contigs k seg,
  determine_splitters_gen sort (filter nonempty contigs) k seg = determine_splitters_gen sort contigs k seg.
Proof.
  intros sort contigs k seg. rewrite !det_unfold.
  assert (E : all_kmers (filter nonempty contigs) k = all_kmers contigs k).
  { unfold all_kmers. apply concat_map_skip_nil. apply enumerate_nil. }
  rewrite E. rewrite concat_map_skip_nil by reflexivity. reflexivity.
Qed.
