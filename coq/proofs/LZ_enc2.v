(* LZ_enc2.v - the encoder loop invariant (DESIGN.md appendix A.1) *)
From Coq Require Import Lia ZifyBool ZifyN ZifyNat.
From Ragc Require Import LZ_base LZ_int LZ_dec LZ_match LZ_enc1.

Lemma sub_u64_ok a b : b <= a -> sub_u64 a b = Some (a - b).
Proof. unfold sub_u64. intros. destruct (b <=? a) eqn:E; auto. lia. Qed.
Lemma sub_u32_ok a b : b <= a -> sub_u32 a b = Some (a - b).
Proof. unfold sub_u32. intros. destruct (b <=? a) eqn:E; auto. lia. Qed.
Lemma add_u32_ok a b : a + b < 4294967296 -> add_u32 a b = Some (a + b).
Proof. unfold add_u32, two32. intros. destruct (a + b <? 4294967296) eqn:E; auto. lia. Qed.

Lemma ser_match_shape st amp len pp b : ser_match st amp len pp = Ok b ->
  Forall small b /\ exists b', rev b = period_byte :: b'.
Proof.
  assert (IB : forall z, Forall small (append_int z)).
  { intros. eapply Forall_impl; [|apply append_int_bytes]. unfold int_byte, is_digit, small. consts. lia. }
  unfold ser_match. destruct (sub_i32 _ _); [|discriminate]. destruct len.
  - destruct (sub_u32 _ _); [|discriminate]. intros H; inversion H; subst. split.
    + apply Forall_app. split; auto. constructor. { unfold small; consts; lia. }
      apply Forall_app. split; auto. constructor; auto. unfold small; consts; lia.
    + rewrite rev_app_distr. cbn [rev]. rewrite rev_app_distr. cbn [rev app]. eauto.
  - intros H; inversion H; subst. split.
    + apply Forall_app. split; auto. constructor; auto. unfold small; consts; lia.
    + rewrite rev_app_distr. cbn [rev app]. eauto.
Qed.

Lemma DecTo_eq st e o p e' o' p' : DecTo st e o p -> e = e' -> o = o' -> p = p' -> DecTo st e' o' p'.
Proof. intros; subst; auto. Qed.

Section Loop.
  Variable hash : N -> N.
  Variables (st : lzst) (rf tgt : list N).
  Hypothesis Hwf : wf_st st rf.
  Hypothesis Hsym : Forall sym_ok tgt.
  Hypothesis Hsz : lenN (refp st) + lenN tgt < 2147483648.
  Hypothesis mml_small : mml st < 2147483648.

  Definition seg (a n : N) : list N := firstnN n (skipnN a tgt).

  Lemma seg_sym a n : Forall sym_ok (seg a n).
  Proof. unfold seg. apply Forall_firstnN, Forall_skipnN, Hsym. Qed.
  Lemma seg_len a n : a + n <= lenN tgt -> lenN (seg a n) = n.
  Proof. intros. unfold seg. apply lenN_firstnN. rewrite lenN_skipnN. lia. Qed.
  Lemma seg_add a n m : seg a (n + m) = seg a n ++ seg (a + n) m.
  Proof. unfold seg. rewrite firstnN_add, skipnN_skipnN. do 3 f_equal. lia. Qed.
  Lemma firstn_seg a n : firstnN a tgt ++ seg a n = firstnN (a + n) tgt.
  Proof. unfold seg. now rewrite firstnN_add. Qed.

  Definition inv (i pp npl : N) (renc : list N) : Prop :=
    npl <= i /\ npl <= pp /\ i <= lenN tgt /\ pp <= lenN (refp st) + i /\ Forall small renc /\
    exists renc0, renc = rev (lits (seg (i - npl) npl)) ++ renc0 /\ stop_head renc0 /\
      DecTo st (rev renc0) (firstnN (i - npl) tgt) (pp - npl).

  Lemma inv_dec i pp npl renc : inv i pp npl renc -> DecTo st (rev renc) (firstnN i tgt) pp.
  Proof.
    intros (H1 & H2 & H3 & H4 & H5 & renc0 & -> & Hs & D).
    eapply DecTo_eq; [apply (DecTo_lits st (seg (i - npl) npl) _ _ _ D (seg_sym _ _))| | |].
    - now rewrite rev_app_distr, rev_involutive.
    - rewrite firstn_seg. f_equal. lia.
    - rewrite seg_len; lia.
  Qed.

  Lemma inv_op i pp renc :
    DecTo st (rev renc) (firstnN i tgt) pp -> i <= lenN tgt -> pp <= lenN (refp st) + i ->
    Forall small renc -> stop_head renc -> inv i pp 0 renc.
  Proof.
    intros D H1 H2 H3 H4. unfold inv. repeat split; auto; try lia.
    exists renc. rewrite !N.sub_0_r. repeat split; auto.
  Qed.

  Lemma inv_lit i pp npl renc c : inv i pp npl renc -> nthN tgt i = Some c ->
    inv (i + 1) (pp + 1) (npl + 1) ((lit_base + c) :: renc).
  Proof.
    intros (H1 & H2 & H3 & H4 & H5 & renc0 & -> & Hs & D) Hc.
    assert (Hi := nthN_some_lt _ _ _ Hc).
    assert (Hok : sym_ok c).
    { unfold nthN in Hc. apply nth_error_In in Hc. rewrite Forall_forall in Hsym. auto. }
    unfold inv. repeat split; try lia.
    - constructor; auto. apply sym_ok_le in Hok. unfold small. consts. lia.
    - exists renc0. replace (i + 1 - (npl + 1)) with (i - npl) by lia.
      replace (pp + 1 - (npl + 1)) with (pp - npl) by lia. repeat split; auto.
      rewrite seg_add. replace (i - npl + npl) with i by lia.
      assert (seg i 1 = [c]) as ->.
      { unfold seg. rewrite (skipnN_cons_nth _ _ _ Hc). reflexivity. }
      rewrite lits_app, rev_app_distr. reflexivity.
  Qed.

  Definition good (res : outcome (list N)) : Prop :=
    exists renc' ppf, res = Ok renc' /\ DecTo st (rev renc') tgt ppf /\ Forall small renc'.

  Definition IHf (f : nat) : Prop :=
    forall i pp npl xprev renc, inv i pp npl renc -> (N.to_nat (lenN tgt - i) < f)%nat ->
      good (enc_loop hash st tgt (lenN tgt) f i (skipnN i tgt) pp npl xprev renc).

  (* ---------------- the literal continuation *)
  Definition lit_k (f : nat) (i pp npl : N) (x : option N) (renc : list N) : outcome (list N) :=
    match skipnN i tgt with
    | [] => Panic
    | c :: suf' =>
      match add_u32 pp 1 with
      | None => Panic
      | Some pp' => obnd (emit_literal c renc)
                         (fun r => enc_loop hash st tgt (lenN tgt) f (i + 1) suf' pp' (npl + 1) x r)
      end
    end.

  Lemma lit_good f i pp npl x renc : IHf f -> inv i pp npl renc -> i < lenN tgt ->
    (N.to_nat (lenN tgt - i) < S f)%nat -> good (lit_k f i pp npl x renc).
  Proof.
    intros IH Hi Hlt Hf. unfold lit_k.
    destruct (nthN_lt tgt i Hlt) as (c & Hc). rewrite (skipnN_cons_nth _ _ _ Hc).
    assert (Hb : pp <= lenN (refp st) + i) by (destruct Hi; tauto).
    rewrite add_u32_ok by lia.
    assert (Hok : sym_ok c).
    { unfold nthN in Hc. apply nth_error_In in Hc. rewrite Forall_forall in Hsym. auto. }
    rewrite emit_literal_ok by auto. cbn [obnd]. apply IH.
    - apply inv_lit; auto.
    - lia.
  Qed.

  (* ---------------- the match continuation *)
  Definition match_k (f : nat) (i pp npl code : N) (renc : list N) (mp lb lf : N) : outcome (list N) :=
    let renc1 := skipnN lb renc in
    match sub_u64 i lb, sub_u32 pp lb, add_u32 lb lf, sub_u32 mp lb with
    | Some i1, Some pp1, Some total, Some amp =>
      let len_to_encode :=
        if (i1 + total =? lenN tgt) && (mp + lf =? ref_len st) then None else Some total in
      let scanned :=
        if amp =? pp1
        then bang_scan (refp st) (N.to_nat (N.min (lenN renc1) amp) - 1) 1 amp renc1
        else Ok renc1 in
      match scanned with
      | Panic => Panic
      | Err => Err
      | Ok renc2 =>
        match ser_match st amp len_to_encode pp1, add_u32 amp total with
        | Ok b, Some pp2 => enc_loop hash st tgt (lenN tgt) f (i1 + total) (skipnN lf (skipnN i tgt)) pp2 0 (Some code)
                                     (rev_append b renc2)
        | Err, _ => Err
        | _, _ => Panic
        end
      end
    | _, _, _, _ => Panic
    end.

  Lemma scan_good i pp npl renc lb amp :
    inv i pp npl renc -> lb <= npl -> amp <= lenN (refp st) ->
    exists renc2,
      (if amp =? pp - lb
       then bang_scan (refp st) (N.to_nat (N.min (lenN (skipnN lb renc)) amp) - 1) 1 amp (skipnN lb renc)
       else Ok (skipnN lb renc)) = Ok renc2 /\
      DecTo st (rev renc2) (firstnN (i - lb) tgt) (pp - lb) /\ Forall small renc2.
  Proof.
    intros (H1 & H2 & H3 & H4 & H5 & renc0 & -> & Hs & D) Hlb Hamp.
    set (m := npl - lb). set (a := i - npl).
    assert (E1 : seg a npl = seg a m ++ seg (i - lb) lb).
    { replace npl with (m + lb) at 1 by (unfold m; lia). rewrite seg_add. do 2 f_equal. unfold a, m. lia. }
    assert (E2 : skipnN lb (rev (lits (seg a npl)) ++ renc0) = lits (rev (seg a m)) ++ renc0).
    { rewrite E1, lits_app, rev_app_distr, <- app_assoc.
      replace lb with (lenN (rev (lits (seg (i - lb) lb)))) at 1
        by (rewrite lenN_rev, lenN_lits, seg_len; lia).
      rewrite skipnN_app_l. now rewrite lits_rev. }
    rewrite E2. clear E2.
    assert (S0 : Forall small renc0) by (apply Forall_app in H5; tauto).
    assert (Lm : lenN (rev (seg a m)) = m) by (rewrite lenN_rev, seg_len; unfold a, m; lia).
    assert (Sy : Forall sym_ok (rev (seg a m))) by (apply Forall_rev, seg_sym).
    assert (Ef : firstnN a tgt ++ rev (rev (seg a m)) = firstnN (i - lb) tgt).
    { rewrite rev_involutive, firstn_seg. f_equal. unfold a, m. lia. }
    destruct (amp =? pp - lb) eqn:Ea.
    - assert (amp = pp - lb) by lia.
      destruct (bang_scan_spec st amp renc0 Hs Hamp
                  (N.to_nat (N.min (lenN (lits (rev (seg a m)) ++ renc0)) amp) - 1) 1 (rev (seg a m)) Sy
                  ltac:(lia) ltac:(lia)) as (rbs & Eb & Hv).
      exists (rbs ++ renc0). split; [exact Eb|]. split.
      + eapply DecTo_eq; [eapply (DecTo_RVar st amp (rev (seg a m)) 1 rbs _ _ _ D Hv Sy)| | |].
        * rewrite Lm. unfold m. lia.
        * now rewrite rev_app_distr.
        * exact Ef.
        * rewrite Lm. unfold m. lia.
      + apply Forall_app. split; auto. eapply RVar_small; eauto.
    - exists (lits (rev (seg a m)) ++ renc0). split; auto. split.
      + eapply DecTo_eq; [apply (DecTo_lits st (seg a m) _ _ _ D (seg_sym _ _))| | |].
        * now rewrite rev_app_distr, lits_rev, rev_involutive.
        * rewrite <- Ef. now rewrite rev_involutive.
        * rewrite lenN_rev in Lm. rewrite Lm. unfold m. lia.
      + apply Forall_app. split; auto. apply lits_small; auto.
  Qed.

  Lemma match_eq i mp lb lf : back_eq tgt (refp st) i mp lb ->
    firstnN lf (skipnN i tgt) = firstnN lf (skipnN mp (refp st)) -> lb <= i -> lb <= mp ->
    firstnN (lb + lf) (skipnN (mp - lb) (refp st)) = seg (i - lb) (lb + lf).
  Proof.
    intros Hb Hf H1 H2. unfold seg, back_eq in *. rewrite !firstnN_add, !skipnN_skipnN, Hb.
    replace (lb + (i - lb)) with i by lia. replace (lb + (mp - lb)) with mp by lia. now rewrite Hf.
  Qed.


  Lemma match_good f i pp npl code renc mp lb lf : IHf f -> inv i pp npl renc ->
    match_post st tgt i npl mp lb lf -> mml st <= lb + lf ->
    (N.to_nat (lenN tgt - i) < S f)%nat -> good (match_k f i pp npl code renc mp lb lf).
  Proof.
    intros IH Hi (P1 & P2 & P3 & P4 & P5 & P6 & P7 & P8 & P9) Hm Hf.
    assert (Hi' := Hi). destruct Hi' as (H1 & H2 & H3 & H4 & H5 & _).
    assert (Hkl : 1 <= key_len st) by (destruct Hwf; tauto).
    assert (Hrl : ref_len st <= lenN (refp st)).
    { destruct Hwf as (W1 & W2 & _). rewrite W1, W2, lenN_app. lia. }
    unfold match_k.
    rewrite (sub_u64_ok i lb), (sub_u32_ok pp lb), (add_u32_ok lb lf), (sub_u32_ok mp lb) by lia.
    destruct (scan_good i pp npl renc lb (mp - lb) Hi P5 ltac:(lia)) as (renc2 & Es & D2 & S2).
    cbv zeta. rewrite Es.
    set (len := if (i - lb + (lb + lf) =? lenN tgt) && (mp + lf =? ref_len st) then None else Some (lb + lf)).
    destruct (ser_match_ok st (mp - lb) len (pp - lb) ltac:(lia) ltac:(lia)) as (b & Eb & _).
    { unfold len. destruct (_ && _); auto. }
    rewrite Eb, add_u32_ok by lia.
    destruct (ser_match_shape _ _ _ _ _ Eb) as (Sb & b' & Rb).
    rewrite skipnN_skipnN. replace (lf + i) with (i - lb + (lb + lf)) by lia.
    apply IH; [|lia]. apply inv_op; try lia.
    - eapply DecTo_eq;
        [eapply (DecTo_match st _ _ _ (mp - lb) len b (lb + lf) D2 ltac:(lia) ltac:(lia) mml_small Eb)| | |].
      + unfold len. destruct ((i - lb + (lb + lf) =? lenN tgt) && (mp + lf =? ref_len st)) eqn:E; lia.
      + lia.
      + destruct Hwf as (_ & _ & _ & _ & _ & W6). exact W6.
      + now rewrite rev_append_rev, rev_app_distr, rev_involutive.
      + rewrite (match_eq i mp lb lf) by auto. apply firstn_seg.
      + lia.
    - rewrite rev_append_rev. apply Forall_app. split; auto. apply Forall_rev; auto.
    - rewrite rev_append_rev, Rb. cbn. reflexivity.
  Qed.

  (* ---------------- the loop *)
  Lemma enc_loop_S f i pp npl xprev renc :
    enc_loop hash st tgt (lenN tgt) (S f) i (skipnN i tgt) pp npl xprev renc =
    if i + key_len st <? lenN tgt then
      match (match xprev with
             | Some prev => if 0 <? npl then get_code_skip1 st prev (skipnN i tgt) else get_code st (skipnN i tgt)
             | None => get_code st (skipnN i tgt)
             end) with
      | Panic => Panic
      | Err => Err
      | Ok None =>
        if min_nrun_len <=? get_nrun_len (skipnN i tgt) (lenN tgt - i) then
          obnd (ser_nrun (get_nrun_len (skipnN i tgt) (lenN tgt - i)))
               (fun b => enc_loop hash st tgt (lenN tgt) f (i + get_nrun_len (skipnN i tgt) (lenN tgt - i))
                                  (skipnN (get_nrun_len (skipnN i tgt) (lenN tgt - i)) (skipnN i tgt)) pp 0 None
                                  (rev_append b renc))
        else lit_k f i pp npl None renc
      | Ok (Some code) =>
        match find_best_match_lp st code (hash code) tgt (skipnN i tgt) i (lenN tgt - i) npl with
        | Panic => Panic
        | Err => Err
        | Ok None => lit_k f i pp npl (Some code) renc
        | Ok (Some (mp, lb, lf)) => match_k f i pp npl code renc mp lb lf
        end
      end
    else enc_tail (skipnN i tgt) renc.
  Proof. reflexivity. Qed.

  Lemma code_ok i npl xprev : i + key_len st < lenN tgt ->
    exists x, (match xprev with
               | Some prev => if 0 <? npl then get_code_skip1 st prev (skipnN i tgt) else get_code st (skipnN i tgt)
               | None => get_code st (skipnN i tgt)
               end) = Ok x.
  Proof.
    intros H. assert (Hkl : 1 <= key_len st) by (destruct Hwf; tauto).
    assert (G : exists x, get_code st (skipnN i tgt) = Ok x).
    { unfold get_code. destruct (get_code_go _ _ _) eqn:E; eauto.
      - exfalso. revert E. apply get_code_go_not_err.
      - exfalso. apply get_code_go_panic in E. destruct E as (_ & E).
        assert (L := lenN_skipnN i tgt). unfold lenN in *. lia. }
    destruct xprev as [prev|]; auto. destruct (0 <? npl); auto.
    unfold get_code_skip1. rewrite sub_u64_ok by lia.
    destruct (nthN_lt (skipnN i tgt) (key_len st - 1)) as (c & ->). { rewrite lenN_skipnN. lia. }
    destruct (_ <? _); eauto.
  Qed.

  Lemma loop_good f : IHf f.
  Proof.
    induction f as [|f IH]; intros i pp npl xprev renc Hi Hf. { lia. }
    assert (Hi' := Hi). destruct Hi' as (H1 & H2 & H3 & H4 & H5 & _).
    rewrite enc_loop_S. destruct (i + key_len st <? lenN tgt) eqn:Ek.
    - destruct (code_ok i npl xprev ltac:(lia)) as (x & ->). destruct x as [code|].
      + destruct (find_best_match_lp_total st rf code (hash code) tgt i (lenN tgt - i) npl Hwf)
          as [->|(mp & lb & lf & -> & Hp & Hm)]; try lia.
        * split; lia.
        * apply lit_good; auto. lia.
        * apply match_good; auto.
      + destruct (get_nrun_len_spec (skipnN i tgt) (lenN tgt - i)) as (N1 & N2).
        { rewrite lenN_skipnN. lia. }
        set (nr := get_nrun_len (skipnN i tgt) (lenN tgt - i)) in *.
        destruct (min_nrun_len <=? nr) eqn:En; [|apply lit_good; auto; lia].
        destruct (ser_nrun_ok nr ltac:(lia)) as (b & Eb & Sb & b' & Rb). rewrite Eb. cbn [obnd].
        rewrite lenN_skipnN in N1. revert En. consts. intros En.
        rewrite skipnN_skipnN. replace (nr + i) with (i + nr) by lia.
        apply IH; [|lia]. apply inv_op; try lia.
        * eapply DecTo_eq; [apply (DecTo_nrun st _ _ _ nr b (inv_dec _ _ _ _ Hi) ltac:(lia) Eb)| | |]; auto.
          -- now rewrite rev_append_rev, rev_app_distr, rev_involutive.
          -- rewrite <- firstn_seg. unfold seg. rewrite N2 by lia. reflexivity.
        * rewrite rev_append_rev. apply Forall_app. split; auto. apply Forall_rev; auto.
        * rewrite rev_append_rev, Rb. cbn. reflexivity.
    - rewrite enc_tail_ok by (apply Forall_skipnN, Hsym).
      exists (rev (lits (skipnN i tgt)) ++ renc), (pp + lenN (skipnN i tgt)). split; auto. split.
      + eapply DecTo_eq; [apply (DecTo_lits st (skipnN i tgt) _ _ _ (inv_dec _ _ _ _ Hi))| | |]; auto.
        * apply Forall_skipnN, Hsym.
        * now rewrite rev_app_distr, rev_involutive.
        * apply firstnN_skipnN.
      + apply Forall_app. split; auto. apply Forall_rev, lits_small, Forall_skipnN, Hsym.
  Qed.

  Lemma inv_init : inv 0 0 0 [].
  Proof.
    apply inv_op; cbn; auto; try lia. apply DecTo_nil.
  Qed.

  Theorem enc_main_good :
    exists enc, obnd (enc_loop hash st tgt (lenN tgt) (S (length tgt)) 0 tgt 0 0 None [])
                     (fun renc => Ok (rev renc)) = Ok enc /\
      lz_decode st enc = Ok tgt /\ Forall small enc.
  Proof.
    destruct (loop_good (S (length tgt)) 0 0 0 None [] inv_init) as (renc & ppf & E & D & S).
    { unfold lenN. lia. }
    rewrite skipnN_0 in E. rewrite E.
    exists (rev renc). cbn [obnd]. split; auto. split.
    - eapply DecTo_final; eauto.
    - apply Forall_rev; auto.
  Qed.
End Loop.
