(* Names_proofs.v - the contig-name codec gives back every table of names over bytes 1..127. *)
From Ragc Require Import Mach Consts_collection CVarint Names CVarint_proofs.
Require Import Lia ZifyBool ZifyN ZifyNat.
Open Scope N_scope.
Arguments N.add : simpl never.
Arguments N.sub : simpl never.
Arguments N.mul : simpl never.
Arguments N.land : simpl never.
Arguments N.min : simpl never.

Definition nbyte (b : N) : Prop := 1 <= b < 128.            (* a byte of a name *)
Definition fbyte (b : N) : Prop := 1 <= b < 128 /\ b <> 32.  (* a byte of a field *)
Definition ebyte (b : N) : Prop := b <> 0 /\ b <> 32.        (* a byte of an encoded field *)
Definition name_ok (n : list N) : Prop := Forall nbyte n.
Definition field_ok (f : list N) : Prop := Forall fbyte f.

(* ---------------------------------------------------------------- generic *)
Lemma beqb_eq a b : beqb a b = true <-> a = b.
Proof.
  unfold beqb. revert b. induction a as [|x a IH]; intros [|y b]; cbn [list_eqb]; split; intro H;
    try reflexivity; try discriminate.
  - apply andb_true_iff in H. destruct H as [H1 H2]. apply N.eqb_eq in H1. apply IH in H2. congruence.
  - inversion H; subst. apply andb_true_iff. split; [apply N.eqb_refl | apply IH; reflexivity].
Qed.
Lemma beqb_refl a : beqb a a = true.
Proof. apply beqb_eq. reflexivity. Qed.
Lemma beqb_neq a b : beqb a b = false <-> a <> b.
Proof.
  split; intro H.
  - intro E. apply beqb_eq in E. congruence.
  - destruct (beqb a b) eqn:E; [apply beqb_eq in E; contradiction | reflexivity].
Qed.

Lemma lenN_app {A} (a b : list A) : lenN (a ++ b) = lenN a + lenN b.
Proof. unfold lenN. rewrite app_length. lia. Qed.
Lemma lenN_cons {A} (x : A) l : lenN (x :: l) = lenN l + 1.
Proof. unfold lenN. cbn [length]. lia. Qed.
Lemma lenN_nil {A} : lenN (@nil A) = 0.
Proof. reflexivity. Qed.
Lemma to_nat_lenN {A} (l : list A) : N.to_nat (lenN l) = length l.
Proof. unfold lenN. apply Nat2N.id. Qed.

Lemma firstnN_app {A} (a b : list A) : firstnN (lenN a) (a ++ b) = a.
Proof.
  unfold firstnN. rewrite to_nat_lenN. rewrite firstn_app, Nat.sub_diag, firstn_all. cbn [firstn].
  apply app_nil_r.
Qed.
Lemma skipnN_app {A} (a b : list A) : skipnN (lenN a) (a ++ b) = b.
Proof.
  unfold skipnN. rewrite to_nat_lenN. rewrite skipn_app, Nat.sub_diag, skipn_all. reflexivity.
Qed.

Lemma clamp_id n ptr : n <= lenN ptr + 1 -> clamp n ptr = N.to_nat n.
Proof. intro H. unfold clamp. rewrite N.min_l by exact H. reflexivity. Qed.

Lemma wrap32_small x : x < 4294967296 -> wrap32 x = x.
Proof. intro H. unfold wrap32, two32. apply N.mod_small. exact H. Qed.

(* ---------------------------------------------------------------- split / join *)
Lemma split_sp_nonempty l : split_sp l <> [].
Proof.
  destruct l as [|b r]; cbn [split_sp]; [discriminate|].
  destruct (b =? 32); [discriminate|]. destruct (split_sp r); discriminate.
Qed.

Lemma split_sp_cons b r :
  split_sp (b :: r) = if b =? 32 then [] :: split_sp r
                      else (b :: hd [] (split_sp r)) :: tl (split_sp r).
Proof.
  cbn [split_sp]. destruct (b =? 32); [reflexivity|].
  pose proof (split_sp_nonempty r). destruct (split_sp r); [contradiction | reflexivity].
Qed.

Lemma join_split l : join_sp (split_sp l) = l.
Proof.
  induction l as [|b r IH]; [reflexivity|].
  rewrite split_sp_cons. pose proof (split_sp_nonempty r) as Hne.
  destruct (N.eqb_spec b 32) as [->|Hb].
  - destruct (split_sp r) as [|f fs] eqn:E; [contradiction|].
    cbn [join_sp app]. cbn [join_sp] in IH. rewrite IH. reflexivity.
  - destruct (split_sp r) as [|f fs] eqn:E; [contradiction|].
    cbn [hd tl]. destruct fs as [|g fs'].
    + cbn [join_sp] in *. rewrite IH. reflexivity.
    + cbn [join_sp] in *. cbn [app]. rewrite IH. reflexivity.
Qed.

Lemma split_nosp f : Forall (fun b => b <> 32) f -> split_sp f = [f].
Proof.
  induction 1 as [|b f Hb _ IH]; [reflexivity|].
  rewrite split_sp_cons. replace (b =? 32) with false by (symmetry; apply N.eqb_neq; exact Hb).
  rewrite IH. reflexivity.
Qed.
Lemma split_app f rest : Forall (fun b => b <> 32) f -> split_sp (f ++ 32 :: rest) = f :: split_sp rest.
Proof.
  induction 1 as [|b f Hb _ IH].
  - cbn [app]. rewrite split_sp_cons. reflexivity.
  - cbn [app]. rewrite split_sp_cons. replace (b =? 32) with false by (symmetry; apply N.eqb_neq; exact Hb).
    rewrite IH. reflexivity.
Qed.
Lemma split_join fs : fs <> [] -> Forall (Forall (fun b => b <> 32)) fs -> split_sp (join_sp fs) = fs.
Proof.
  induction fs as [|f fs IH]; [contradiction|]. intros _ H. inversion H as [|? ? Hf Hfs]; subst.
  destruct fs as [|g fs'].
  - cbn [join_sp]. apply split_nosp. exact Hf.
  - change (join_sp (f :: g :: fs')) with (f ++ 32 :: join_sp (g :: fs')).
    rewrite split_app by exact Hf. rewrite IH; [reflexivity | discriminate | exact Hfs].
Qed.

Lemma split_sp_fields n : name_ok n -> Forall field_ok (split_sp n).
Proof.
  induction 1 as [|b r Hb _ IH]; [repeat constructor|].
  rewrite split_sp_cons. pose proof (split_sp_nonempty r) as Hne.
  destruct (split_sp r) as [|f fs]; [contradiction|]. inversion IH; subst.
  destruct (N.eqb_spec b 32).
  - constructor; [constructor | constructor; assumption].
  - cbn [hd tl]. constructor; [|assumption]. constructor; [split; assumption | assumption].
Qed.

Lemma join_sp_forall (P : N -> Prop) fs : P 32 -> Forall (Forall P) fs -> Forall P (join_sp fs).
Proof.
  intros H32. induction 1 as [|f fs Hf Hfs IH]; [constructor|].
  destruct fs as [|g fs']; [exact Hf|].
  change (join_sp (f :: g :: fs')) with (f ++ 32 :: join_sp (g :: fs')).
  apply Forall_app. split; [exact Hf | constructor; [exact H32 | exact IH]].
Qed.

(* ---------------------------------------------------------------- one field *)
Lemma dec_bytes_lits p c : Forall (fun b => b < 128) c -> dec_bytes p c = Ok c.
Proof.
  intro H. revert p. induction H as [|b c Hb _ IH]; intro p; [reflexivity|].
  cbn [dec_bytes]. replace (b <? 128) with true by (symmetry; apply N.ltb_lt; exact Hb).
  rewrite IH. reflexivity.
Qed.

Lemma dec_lit x p b e : b < 128 -> dec_bytes (x :: p) (b :: e) = obnd (dec_bytes p e) (fun r => Ok (b :: r)).
Proof. intro H. cbn [dec_bytes tl]. replace (b <? 128) with true by (symmetry; apply N.ltb_lt; exact H). reflexivity. Qed.

Lemma dec_marker pre p e :
  1 <= lenN pre <= 100 ->
  dec_bytes (pre ++ p) ((256 - lenN pre) :: e) = obnd (dec_bytes p e) (fun r => Ok (pre ++ r)).
Proof.
  intro H. cbn [dec_bytes].
  replace (256 - lenN pre <? 128) with false by (symmetry; apply N.ltb_ge; lia).
  replace (256 - lenN pre =? 128) with false by (symmetry; apply N.eqb_neq; lia).
  replace (256 - (256 - lenN pre)) with (lenN pre) by lia.
  replace (lenN pre <=? lenN (pre ++ p)) with true by (symmetry; apply N.leb_le; rewrite lenN_app; lia).
  rewrite skipnN_app, firstnN_app. reflexivity.
Qed.

Lemma flush_dec pre p e :
  lenN pre <= 100 ->
  dec_bytes (pre ++ p) (flush (lenN pre) ++ e) = obnd (dec_bytes p e) (fun r => Ok (pre ++ r)).
Proof.
  intro H. unfold flush. destruct (N.ltb_spec 0 (lenN pre)).
  - cbn [app]. apply dec_marker. lia.
  - destruct pre; [|rewrite lenN_cons in *; lia]. cbn [app]. destruct (dec_bytes p e); reflexivity.
Qed.

Lemma rle_dec c : forall p pre,
  length p = length c -> Forall (fun b => b < 128) c -> lenN pre <= 100 ->
  dec_bytes (pre ++ p) (rle p c (lenN pre)) = Ok (pre ++ c).
Proof.
  unfold run_cap.
  induction c as [|cb c IH]; intros p pre Hlen Hc Hpre.
  - destruct p; [|discriminate]. cbn [rle].
    rewrite <- (app_nil_r (flush (lenN pre))). rewrite flush_dec by exact Hpre. reflexivity.
  - destruct p as [|pb p]; [discriminate|]. inversion Hc as [|? ? Hcb Hc']; subst.
    injection Hlen as Hlen. cbn [rle].
    destruct (N.eqb_spec pb cb) as [->|Hne].
    + unfold run_cap. destruct (N.eqb_spec (lenN pre) 100) as [E|E].
      * rewrite dec_marker by lia.
        specialize (IH p [cb] Hlen Hc'). change (lenN [cb]) with 1 in IH. cbn [app] in IH.
        rewrite IH by lia. reflexivity.
      * specialize (IH p (pre ++ [cb]) Hlen Hc'). rewrite lenN_app in IH. change (lenN [cb]) with 1 in IH.
        rewrite <- app_assoc in IH. cbn [app] in IH. rewrite IH by lia. rewrite <- app_assoc. reflexivity.
    + rewrite flush_dec by exact Hpre. rewrite dec_lit by exact Hcb.
      specialize (IH p [] Hlen Hc'). change (lenN []) with 0 in IH. cbn [app] in IH. rewrite IH by lia.
      reflexivity.
Qed.

(* what the run-length coder can emit: bytes of c and markers 156..255 *)
Lemma rle_shape (P : N -> Prop) c : forall p cnt,
  Forall P c -> (forall b, 156 <= b < 256 -> P b) -> cnt <= 100 -> Forall P (rle p c cnt).
Proof.
  unfold run_cap.
  assert (Hflush : forall cnt, (forall b, 156 <= b < 256 -> P b) -> cnt <= 100 -> Forall P (flush cnt)).
  { intros cnt HP Hc. unfold flush. destruct (N.ltb_spec 0 cnt); [|constructor].
    constructor; [apply HP; lia | constructor]. }
  induction c as [|cb c IH]; intros p cnt Hc HP Hcnt.
  - cbn [rle]. destruct p; apply Hflush; assumption.
  - inversion Hc; subst. destruct p as [|pb p]; [cbn [rle]; apply Hflush; assumption|].
    cbn [rle]. destruct (pb =? cb).
    + unfold run_cap. destruct (N.eqb_spec cnt 100).
      * constructor; [apply HP; lia | apply IH; try assumption; lia].
      * apply IH; try assumption; lia.
    + apply Forall_app. split; [apply Hflush; assumption|].
      constructor; [assumption | apply IH; try assumption; lia].
Qed.

Lemma dec_field_not_marker p e : ~ In 129 e -> dec_field p e = dec_bytes p e.
Proof.
  intro H. unfold dec_field, same_marker_dec. destruct e as [|b [|b2 e']]; try reflexivity.
  destruct (N.eqb_spec b 129) as [->|]; [exfalso; apply H; left; reflexivity | reflexivity].
Qed.

Lemma fbyte_lt b : fbyte b -> b < 128.
Proof. unfold fbyte. lia. Qed.

Theorem field_roundtrip_proof :
  forall p c, Forall (fun b => 1 <= b < 128 /\ b <> 32) c -> dec_field p (enc_field p c) = Ok c.
Proof.
  intros p c Hc. fold fbyte in Hc.
  assert (Hlt : Forall (fun b => b < 128) c) by (eapply Forall_impl; [apply fbyte_lt | exact Hc]).
  unfold enc_field. destruct (beqb p c) eqn:E.
  - apply beqb_eq in E. subst. unfold same_marker. cbn [dec_field]. unfold same_marker_dec.
    rewrite N.eqb_refl. reflexivity.
  - destruct (Nat.eqb_spec (length p) (length c)) as [Hl|Hl]; cbn [negb].
    + assert (Hsh : Forall (fun b => b <> 129) (rle p c 0)).
      { apply rle_shape; [| intros; lia | lia]. eapply Forall_impl; [|exact Hlt]. cbn. intros; lia. }
      rewrite dec_field_not_marker.
      * apply (rle_dec c p [] Hl Hlt). cbn. lia.
      * intro Hin. rewrite Forall_forall in Hsh. apply (Hsh 129 Hin). reflexivity.
    + rewrite dec_field_not_marker.
      * apply dec_bytes_lits. exact Hlt.
      * intro Hin. rewrite Forall_forall in Hlt. specialize (Hlt 129 Hin). lia.
Qed.

(* an encoded field has neither NUL nor space *)
Lemma enc_field_ebytes p c : field_ok c -> Forall ebyte (enc_field p c).
Proof.
  intro Hc. assert (He : Forall ebyte c).
  { eapply Forall_impl; [|exact Hc]. unfold fbyte, ebyte. intros; lia. }
  unfold enc_field, same_marker. destruct (beqb p c).
  - constructor; [unfold ebyte; lia | constructor].
  - destruct (negb (Nat.eqb (length p) (length c))); [exact He|].
    apply rle_shape; [exact He | unfold ebyte; intros; lia | lia].
Qed.

(* ---------------------------------------------------------------- all fields of a name *)
Lemma enc_fields_length prev cur : length prev = length cur -> length (enc_fields prev cur) = length cur.
Proof.
  revert prev. induction cur as [|c cur IH]; intros [|p prev] H; try discriminate; [reflexivity|].
  cbn [enc_fields length]. injection H as H. rewrite IH by exact H. reflexivity.
Qed.
Lemma enc_fields_ebytes prev cur :
  length prev = length cur -> Forall field_ok cur -> Forall (Forall ebyte) (enc_fields prev cur).
Proof.
  revert prev. induction cur as [|c cur IH]; intros [|p prev] H Hc; try discriminate; [constructor|].
  inversion Hc; subst. injection H as H. cbn [enc_fields].
  constructor; [apply enc_field_ebytes; assumption | apply IH; assumption].
Qed.
Lemma dec_enc_fields prev cur :
  length prev = length cur -> Forall field_ok cur -> dec_fields prev (enc_fields prev cur) = Ok cur.
Proof.
  revert prev. induction cur as [|c cur IH]; intros [|p prev] H Hc; try discriminate; [reflexivity|].
  inversion Hc; subst. injection H as H. cbn [enc_fields dec_fields].
  rewrite field_roundtrip_proof by assumption. cbn [obnd]. rewrite IH by assumption. reflexivity.
Qed.

Lemma nbyte_ascii n : name_ok n -> Forall (fun b => b < 128) n.
Proof. intro H. eapply Forall_impl; [|exact H]. unfold nbyte. intros; lia. Qed.
Lemma nbyte_nonzero n : name_ok n -> Forall (fun b => b <> 0) n.
Proof. intro H. eapply Forall_impl; [|exact H]. unfold nbyte. intros; lia. Qed.

(* ---------------------------------------------------------------- the contigs of one sample *)
Lemma ser_contigs_len prev names : (length names <= length (ser_contigs prev names))%nat.
Proof.
  revert prev. induction names as [|nm names IH]; intro prev; [cbn; lia|].
  cbn [ser_contigs length]. rewrite app_length. specialize (IH (split_sp nm)).
  destruct (negb (Nat.eqb (length (split_sp nm)) (length prev))).
  - unfold enc_cstring. rewrite app_length. cbn [length]. lia.
  - rewrite app_length. cbn [length]. lia.
Qed.

Lemma contigs_roundtrip names : forall prev rest,
  Forall name_ok names -> Forall field_ok prev ->
  dec_contigs (length names) prev (ser_contigs prev names ++ rest) = Ok (names, rest).
Proof.
  induction names as [|nm names IH]; intros prev rest Hn Hp; [reflexivity|].
  inversion Hn as [|? ? Hnm Hn']; subst.
  pose proof (split_sp_fields nm Hnm) as Hcs.
  pose proof (split_sp_nonempty nm) as Hne.
  cbn [length ser_contigs dec_contigs].
  destruct (Nat.eqb_spec (length (split_sp nm)) (length prev)) as [Hl|Hl]; cbn [negb].
  - (* delta coded *)
    assert (Heb : Forall (Forall ebyte) (enc_fields prev (split_sp nm)))
      by (apply enc_fields_ebytes; [symmetry; exact Hl | exact Hcs]).
    unfold encode_split.
    rewrite <- app_assoc.
    change (join_sp (enc_fields prev (split_sp nm)) ++ [0])
      with (enc_cstring (join_sp (enc_fields prev (split_sp nm)))).
    rewrite dec_cbytes_roundtrip.
    2:{ apply join_sp_forall; [lia|]. eapply Forall_impl; [|exact Heb].
        intros f Hf. eapply Forall_impl; [|exact Hf]. unfold ebyte. intros; lia. }
    cbn [obnd fst snd].
    rewrite split_join.
    2:{ intro E. apply (f_equal (@length _)) in E. rewrite enc_fields_length in E by (symmetry; exact Hl).
        destruct (split_sp nm); [contradiction | discriminate]. }
    2:{ eapply Forall_impl; [|exact Heb]. intros f Hf. eapply Forall_impl; [|exact Hf]. unfold ebyte. intros; lia. }
    rewrite enc_fields_length by (symmetry; exact Hl).
    destruct prev as [|p0 prev'].
    { destruct (split_sp nm); [contradiction | discriminate]. }
    rewrite Hl, Nat.eqb_refl. cbn [negb orb].
    unfold decode_split. rewrite dec_enc_fields by (try (symmetry; exact Hl); exact Hcs).
    cbn [obnd]. rewrite join_split. rewrite utf8_valid_ascii by (apply nbyte_ascii; exact Hnm).
    cbn [obnd fst snd]. rewrite IH by assumption. reflexivity.
  - (* plain *)
    rewrite <- app_assoc. rewrite dec_cbytes_roundtrip by (apply nbyte_nonzero; exact Hnm).
    cbn [obnd fst snd].
    replace (negb (Nat.eqb (length (split_sp nm)) (length prev))) with true
      by (symmetry; apply negb_true_iff; apply Nat.eqb_neq; exact Hl).
    rewrite orb_true_r. cbn [obnd fst snd].
    rewrite utf8_lossy_ascii by (apply nbyte_ascii; exact Hnm).
    rewrite IH by assumption. reflexivity.
Qed.

(* ---------------------------------------------------------------- samples, batch *)
Definition sample_ok (names : list name) : Prop := Forall name_ok names /\ lenN names < 4294967296.

Lemma ser_sample_len names : (1 <= length (ser_sample names))%nat.
Proof. unfold ser_sample. rewrite app_length. pose proof (cv_encode_len (wrap32 (lenN names))). lia. Qed.
Lemma concat_ser_sample_len batch : (length batch <= length (concat (map ser_sample batch)))%nat.
Proof.
  induction batch as [|s batch IH]; [cbn; lia|].
  cbn [map concat length]. rewrite app_length. pose proof (ser_sample_len s). lia.
Qed.

Lemma samples_roundtrip batch : forall avail rest,
  Forall sample_ok batch -> lenN batch <= avail ->
  dec_samples (length batch) avail (concat (map ser_sample batch) ++ rest) = Ok (batch, rest).
Proof.
  induction batch as [|s batch IH]; intros avail rest Hb Ha; [reflexivity|].
  inversion Hb as [|? ? [Hs Hlen] Hb']; subst. rewrite lenN_cons in Ha.
  cbn [length map concat dec_samples]. unfold ser_sample at 1. rewrite <- !app_assoc.
  rewrite wrap32_small by exact Hlen. rewrite cvarint_roundtrip_proof by exact Hlen.
  cbn [obnd fst snd].
  replace (avail =? 0) with false by (symmetry; apply N.eqb_neq; lia).
  rewrite clamp_id.
  2:{ rewrite lenN_app. pose proof (ser_contigs_len [] s). unfold lenN. lia. }
  rewrite to_nat_lenN. rewrite contigs_roundtrip by (try exact Hs; constructor).
  cbn [obnd fst snd]. rewrite IH by (try exact Hb'; lia). reflexivity.
Qed.

Theorem names_roundtrip_proof :
  forall (batch : list (list (list N))) (avail : N),
  Forall (fun names => Forall (fun n => Forall (fun b => 1 <= b < 128) n) names /\ lenN names < 4294967296) batch ->
  lenN batch < 4294967296 -> lenN batch <= avail ->
  deser_names avail (ser_names batch) = Ok (lenN batch, batch).
Proof.
  intros batch avail Hb Hlen Ha. unfold deser_names, ser_names.
  rewrite wrap32_small by exact Hlen.
  rewrite <- (app_nil_r (concat (map ser_sample batch))).
  rewrite cvarint_roundtrip_proof by exact Hlen. cbn [obnd fst snd].
  rewrite clamp_id.
  2:{ rewrite app_nil_r. pose proof (concat_ser_sample_len batch). unfold lenN. lia. }
  rewrite to_nat_lenN. rewrite samples_roundtrip by assumption. reflexivity.
Qed.

(* ---------------------------------------------------------------- sample names *)
Lemma strings_roundtrip names rest :
  Forall name_ok names ->
  dec_strings (length names) (concat (map enc_cstring names) ++ rest) = Ok (names, rest).
Proof.
  induction 1 as [|nm names Hnm _ IH]; [reflexivity|].
  cbn [length map concat dec_strings]. rewrite <- app_assoc.
  rewrite dec_cstring_roundtrip by exact Hnm. cbn [obnd fst snd]. rewrite IH. reflexivity.
Qed.
Lemma concat_cstring_len names : (length names <= length (concat (map enc_cstring names)))%nat.
Proof.
  induction names as [|s names IH]; [cbn; lia|].
  cbn [map concat length]. rewrite app_length.
  assert (length (enc_cstring s) = S (length s)) by (unfold enc_cstring; rewrite app_length; cbn [length]; lia).
  lia.
Qed.

Theorem sample_names_roundtrip_proof :
  forall names : list (list N),
  Forall (fun n => Forall (fun b => 1 <= b < 128) n) names -> lenN names < 4294967296 ->
  deser_sample_names (ser_sample_names names) = Ok names.
Proof.
  intros names Hn Hlen. unfold deser_sample_names, ser_sample_names.
  rewrite wrap32_small by exact Hlen.
  rewrite <- (app_nil_r (concat (map enc_cstring names))).
  rewrite cvarint_roundtrip_proof by exact Hlen. cbn [obnd fst snd].
  rewrite clamp_id.
  2:{ rewrite app_nil_r. pose proof (concat_cstring_len names). unfold lenN, name in *. lia. }
  rewrite to_nat_lenN. rewrite strings_roundtrip by exact Hn. reflexivity.
Qed.
