(* Protocol_live.v - deadlock freedom, termination measure, final states (C05) *)
From Coq Require Import Lia ZifyBool ZifyN ZifyNat Permutation Wellfounded.
From Ragc Require Import Protocol Protocol_base Protocol_inv Protocol_steps.
Arguments N.add : simpl never.
Arguments N.sub : simpl never.
Arguments N.mul : simpl never.
Arguments Nat.mul : simpl never.
Arguments Nat.sub : simpl never.
Open Scope nat_scope.

Ltac flds := cbn [set_ws set_pst set_todo do_close ws items cur closed nseq pst todo bcount bgen claimable ground
                  pushed segd rawbuf rounds].

Lemma sumsz_in : forall l it, In it l -> (tsize (itask it) <= sumsz l)%N.
Proof.
  induction l; cbn; intros it I; [contradiction|]. destruct I as [->|I]; [lia|]. specialize (IHl _ I). lia.
Qed.

Lemma notify_first : forall l, exists l', notify_empty l (first_waiter l 0) = Some l'.
Proof.
  intros l. unfold notify_empty. destruct (first_waiter l 0) as [j|] eqn:F.
  - destruct (first_waiter_some _ _ _ F) as (w & _ & E & W). rewrite Nat.sub_0_r in E. rewrite E, W. eauto.
  - rewrite (first_waiter_none _ _ F). eauto.
Qed.

Lemma cnt3_partition : forall A (f g h : A -> bool) l,
  (forall i x, nth_error l i = Some x -> b2n (f x) + b2n (g x) + b2n (h x) = 1) ->
  cnt f l + cnt g l + cnt h l = length l.
Proof.
  induction l; intros H; cbn; auto.
  pose proof (H 0 a eq_refl). assert (forall i x, nth_error l i = Some x -> b2n (f x) + b2n (g x) + b2n (h x) = 1).
  { intros i x E. apply (H (S i) x E). }
  specialize (IHl H1). lia.
Qed.

Lemma mul_between : forall g b n s, g * n + s = b * n -> s < n -> s = 0.
Proof.
  intros g b n s H L. destruct (Nat.le_gt_cases b g) as [Le|Gt].
  - assert (b * n <= g * n) by (apply Nat.mul_le_mono_r; auto). lia.
  - assert ((S g) * n <= b * n) by (apply Nat.mul_le_mono_r; lia). lia.
Qed.

(* a worker that is not blocked: closed = c, generation = g *)
Definition activeb (c : bool) (g : nat) (w : worker) : bool :=
  match pc w with
  | WExited => false
  | WWaitE => c
  | WBarW _ g' => negb (g' =? g)
  | _ => true
  end.

Section Live.
Variable pa : params.
Variable script : list cmd.
Hypothesis Hrule : old_rule pa = false.
Hypothesis Hn : 1 <= nthr pa.
Notation Inv := (Inv pa script).

Lemma finalb_spec : forall s, finalb s = true <-> final s.
Proof.
  intros s. unfold finalb, final. destruct (pst s); try (split; [discriminate | intros [H _]; discriminate]).
  rewrite forallb_forall, Forall_forall. split.
  - intros H. split; auto. intros w I. specialize (H w I). unfold is_exited in H. destruct (pc w); try discriminate; auto.
  - intros [_ H] w I. unfold is_exited. rewrite (H w I). auto.
Qed.

(* ------------------------------------------------------------------------------- enabled threads *)
Lemma pull_enabled : forall s i wk,
  Inv s -> nth_error (ws s) i = Some wk ->
  exists sq s', step_pull s i wk sq = Some s' /\
                sq = match find_max (items s) with Some it => iseq it | None => 0%N end.
Proof.
  intros s i wk HI E. unfold step_pull.
  destruct (items s) as [|x r] eqn:EI.
  - exists 0%N. destruct (closed s); eauto.
  - rewrite <- EI.
    destruct (find_max_spec (items s)) as (it & FM & IN & MX); [rewrite EI; discriminate|].
    destruct HI. destruct i_seq as (_ & ND).
    destruct (extract_found _ _ IN ND) as (rest & EX).
    exists (iseq it). rewrite FM, EX, MX.
    pose proof (sumsz_in _ _ IN). unfold sub_u64.
    destruct (N.leb_spec (tsize (itask it)) (cur s)); [|lia]. eauto.
Qed.

Lemma worker_enabled : forall s i wk,
  Inv s -> nth_error (ws s) i = Some wk -> activeb (closed s) (bgen s) wk = true ->
  enabledb pa s (TWork i) = true.
Proof.
  intros s i wk HI E A.
  pose proof (wf_at _ _ _ _ _ HI E) as Hw.
  assert (GB : stg s < 4). { destruct HI. unfold stg. lia. }
  unfold enabledb, canon_label. cbn [step stutter]. unfold step_work. rewrite E.
  unfold activeb in A. unfold wfw in Hw.
  destruct (pc wk) as [| | |q|k|k g|k|] eqn:Hpc.
  - destruct (pull_enabled _ _ _ HI E) as (sq & s' & P & ->). rewrite P. reflexivity.
  - rewrite A. reflexivity.
  - destruct (pull_enabled _ _ _ HI E) as (sq & s' & P & ->). rewrite P. reflexivity.
  - reflexivity.
  - unfold step_arrive. destruct (Nat.leb_spec 4 k); [lia|]. destruct (S (bcount s) <? nthr pa); reflexivity.
  - destruct (g =? bgen s); [discriminate|reflexivity].
  - destruct k as [|[|[|k]]]; [| | |lia].
    + destruct (i =? 0); reflexivity.
    + destruct (claimable s); reflexivity.
    + destruct (i =? 0); reflexivity.
  - discriminate.
Qed.

Lemma enabledb_sound : forall s t, enabledb pa s t = true -> enabled pa s t.
Proof.
  intros s t H. unfold enabledb in H. destruct (step pa s (canon_label s t)) as [s'|] eqn:E; [|discriminate].
  exists (canon_label s t), s'. split; [destruct t; reflexivity|]. split; auto.
  destruct (stutter s (canon_label s t)); auto; discriminate.
Qed.

Lemma producer_enabled : forall s,
  Inv s -> closed s = false -> items s = [] -> pst s <> PWaitF -> enabledb pa s TProd = true.
Proof.
  intros s HI C EI NW. unfold enabledb, canon_label. cbn [step stutter]. unfold step_prod.
  destruct (notify_first (ws s)) as (l' & NF).
  assert (PU : forall t rest, exists s', step_push pa s t rest (first_waiter (ws s) 0) = Some s').
  { intros. unfold step_push. rewrite C. destruct (push_blocked pa s (tsize t)); eauto.
    unfold do_admit. rewrite NF. eauto. }
  destruct HI.
  destruct (pst s) eqn:P.
  - destruct (todo s) as [|[t|] rest] eqn:T.
    + rewrite C. reflexivity.
    + destruct (PU t rest) as (s' & ->). reflexivity.
    + rewrite EI. reflexivity.
  - congruence.
  - destruct i_pwait as (t & rest & T); auto. rewrite T. destruct (PU t rest) as (s' & ->). reflexivity.
  - destruct i_closed as (A & _). assert (closed s = true) by (apply A; auto). congruence.
  - destruct i_closed as (A & _). assert (closed s = true) by (apply A; auto). congruence.
Qed.

(* --------------------------------------------------------------------------------- deadlock freedom *)
Lemma deadlock_free_b : forall s, Inv s -> finalb s = false -> exists t, enabledb pa s t = true.
Proof.
  intros s HI NF.
  destruct (cnt (activeb (closed s) (bgen s)) (ws s)) eqn:CA.
  2:{ destruct (cnt_pos_ex _ (activeb (closed s) (bgen s)) (ws s)) as (i & wk & E & A); [rewrite CA; lia|].
      exists (TWork i). eapply worker_enabled; eauto. }
  (* nobody is active: every worker is exited, blocked in not_empty.wait, or waiting at the barrier *)
  assert (PS : forall i x, nth_error (ws s) i = Some x ->
               b2n (is_exited x) + b2n (is_waitE x && negb (closed s)) + b2n (barcur (bgen s) x) = 1 /\
               is_wokenE x = false).
  { intros i x E. pose proof (cnt_zero_all _ _ _ _ _ CA E) as Z.
    unfold activeb in Z. unfold is_exited, is_waitE, barcur, is_wokenE.
    destruct (pc x); try discriminate; cbn; try rewrite Z; cbn; auto.
    rewrite Bool.negb_false_iff in Z. rewrite Z. auto. }
  pose proof (cnt3_partition _ is_exited (fun x => is_waitE x && negb (closed s)) (barcur (bgen s)) (ws s)
                (fun i x E => proj1 (PS i x E))) as PT.
  assert (K0 : cnt is_wokenE (ws s) = 0).
  { apply cnt_all_false. intros i x E. apply (PS i x E). }
  pose proof HI as HI0. destruct HI.
  destruct i_bc as (BC & BL). rewrite <- BC in PT.
  destruct (closed s) eqn:C.
  - (* closed *)
    assert (W0 : cnt (fun x : worker => is_waitE x && negb true) (ws s) = 0).
    { apply cnt_all_false. intros. cbn. apply Bool.andb_false_r. }
    rewrite W0 in PT.
    assert (S0 : nsec s = bcount s).
    { unfold nsec. rewrite BC. apply cnt_ext. intros i x E. destruct (PS i x E) as (P1 & _).
      unfold insec, barcur, is_exited, is_waitE in *. destruct (pc x); cbn in *; try lia.
      destruct (g =? bgen s); cbn in *; try lia. }
    assert (B0 : bcount s = 0).
    { destruct (bcount s) eqn:B; auto. exfalso.
      assert (X : 0 < cnt is_exited (ws s)) by lia.
      destruct (i_ex X) as (_ & EI). destruct i_closed as (_ & TD). specialize (TD eq_refl).
      unfold ntok_items, ntok_todo in i_tok. rewrite EI, TD in i_tok. cbn [cnt] in i_tok.
      rewrite S0 in i_tok.
      assert (S n = 0); [|lia]. apply (mul_between (ground s) (nblocks script) (nthr pa)); lia. }
    assert (AX : cnt is_exited (ws s) = length (ws s)) by lia.
    destruct i_closed as (A & _). destruct A as (A & _). specialize (A eq_refl).
    exists TProd. unfold enabledb, canon_label. cbn [step stutter]. unfold step_prod.
    destruct A as [P|P]; rewrite P.
    + apply forallb_cnt in AX. rewrite AX. reflexivity.
    + exfalso. unfold finalb in NF. rewrite P in NF. apply forallb_cnt in AX. congruence.
  - (* open: somebody is blocked in not_empty.wait, nobody was notified, so the queue is empty *)
    assert (X0 : cnt is_exited (ws s) = 0).
    { destruct (cnt is_exited (ws s)) eqn:X; auto. destruct i_ex; [lia|congruence]. }
    assert (WE : cnt (fun x : worker => is_waitE x && negb false) (ws s) = cnt is_waitE (ws s)).
    { apply cnt_ext. intros. cbn. apply Bool.andb_true_r. }
    rewrite WE, X0 in PT.
    assert (U : 0 < cnt is_waitE (ws s)) by lia.
    specialize (i_wake eq_refl U). rewrite K0 in i_wake.
    assert (EI : items s = []) by (destruct (items s); auto; cbn in i_wake; lia).
    exists TProd. apply producer_enabled; auto.
    intros P. specialize (i_waitf P). rewrite i_cur, EI in i_waitf. cbn in i_waitf. lia.
Qed.

Theorem deadlock_free_proof : forall s, Inv s -> ~ final s -> exists t, enabled pa s t.
Proof.
  intros s HI NF. destruct (finalb s) eqn:F.
  - exfalso. apply NF. apply finalb_spec. auto.
  - destruct (deadlock_free_b s HI F) as (t & E). exists t. apply enabledb_sound. auto.
Qed.

(* ------------------------------------------------------------------------------------ the measure *)
Lemma wsum_upd : forall c i x y l,
  nth_error l i = Some y -> wsum c (upd i x l) + wpw c (pc y) = wsum c l + wpw c (pc x).
Proof. intros. unfold wsum. apply (sum_upd _ (fun w => wpw c (pc w))). auto. Qed.

Lemma wsum_close : forall l, wsum true l <= wsum false l + 2 * length l.
Proof.
  unfold wsum. intros. apply (sum_le_pointwise _ (fun w => wpw true (pc w)) (fun w => wpw false (pc w)) 2).
  intros x. destruct (pc x); cbn; lia.
Qed.

Lemma measure_work : forall s i sq nb s',
  Inv s -> step_work pa s i sq nb = Some s' -> mlt (measure s') (measure s).
Proof.
  intros s i sq nb s' HI H. unfold step_work in H.
  destruct (nth_error (ws s) i) as [wk|] eqn:E; [|discriminate].
  pose proof (wf_at _ _ _ _ _ HI E) as Hw.
  assert (GB : stg s < 4). { destruct HI. unfold stg. lia. }
  unfold wfw in Hw.
  assert (PULL : (pc wk = WPull \/ pc wk = WWokenE) -> forall s', step_pull s i wk sq = Some s' ->
                 mlt (measure s') (measure s)).
  { clear H s'. intros Hpc s' H. unfold step_pull in H.
    destruct (items s) as [|x rr] eqn:EI.
    - destruct (closed s) eqn:C; inversion H; subst s'; clear H; left;
        unfold measure, measureA; cbn [fst]; flds; rewrite C, EI, ?upd_length;
        match goal with |- context [upd i ?w _] => pose proof (wsum_upd (closed s) i w _ _ E) as WS end;
        rewrite C in WS; cbn [set_pc pc wpw] in WS; destruct Hpc as [P|P]; rewrite P in WS; cbn [wpw] in WS; lia.
    - rewrite <- EI in H.
      destruct (extract sq (items s)) as [[it rest]|] eqn:EX; [|discriminate].
      destruct (is_max it (items s)); [|discriminate].
      destruct (sub_u64 (cur s) (tsize (itask it))); [|discriminate].
      inversion H; subst s'; clear H. apply extract_length in EX.
      left. unfold measure, measureA; cbn [fst]; flds. rewrite EX, ?upd_length.
      match goal with |- context [upd i ?w _] => pose proof (wsum_upd (closed s) i w _ _ E) as WS end.
      cbn [set_pc pc] in WS.
      assert (pstw (notify_full (pst s)) <= pstw (pst s) + 1) by (destruct (pst s); cbn; lia).
      destruct (ttok (itask it)); destruct Hpc as [P|P]; rewrite P in WS; cbn [wpw] in WS;
        change (14 - 3 * 0) with 14 in WS; lia. }
  destruct (pc wk) as [| | |q|k|k g|k|] eqn:Hpc.
  - apply PULL; auto.
  - destruct (closed s) eqn:C; [|discriminate]. inversion H; subst s'; clear H. left.
    unfold measure, measureA; cbn [fst]; flds. rewrite C, ?upd_length.
    match goal with |- context [upd i ?w _] => pose proof (wsum_upd true i w _ _ E) as WS end.
    rewrite Hpc in WS. cbn [set_pc pc wpw] in WS. lia.
  - apply PULL; auto.
  - inversion H; subst s'; clear H. left.
    unfold measure, measureA; cbn [fst]; flds. rewrite ?upd_length.
    match goal with |- context [upd i ?w _] => pose proof (wsum_upd (closed s) i w _ _ E) as WS end.
    rewrite Hpc in WS. cbn [set_pc pc wpw] in WS. lia.
  - unfold step_arrive in H. destruct (Nat.leb_spec 4 k); [discriminate|].
    destruct (S (bcount s) <? nthr pa); inversion H; subst s'; clear H; left;
      unfold measure, measureA; cbn [fst]; flds; rewrite ?upd_length;
      match goal with |- context [upd i ?w _] => pose proof (wsum_upd (closed s) i w _ _ E) as WS end;
      rewrite Hpc in WS; unfold after_bar in *; cbn [set_pc pc wpw] in WS.
    + lia.
    + destruct (Nat.eqb_spec k 3); cbn [pc wpw] in WS; lia.
  - destruct (g =? bgen s); [discriminate|]. inversion H; subst s'; clear H. left.
    unfold measure, measureA; cbn [fst]; flds. rewrite ?upd_length.
    match goal with |- context [upd i ?w _] => pose proof (wsum_upd (closed s) i w _ _ E) as WS end.
    rewrite Hpc in WS. unfold after_bar in *.
    assert (k <= 3) by (destruct Hw as [(_ & ? & _)|(_ & [(? & _)|(? & _)])]; lia).
    destruct (Nat.eqb_spec k 3); cbn [pc wpw] in WS; lia.
  - destruct k as [|[|[|k]]]; [| | |discriminate].
    + destruct (i =? 0); inversion H; subst s'; clear H; left;
        unfold measure, measureA; cbn [fst]; flds; rewrite ?upd_length;
        match goal with |- context [upd i ?w _] => pose proof (wsum_upd (closed s) i w _ _ E) as WS end;
        rewrite Hpc in WS; cbn [set_pc pc wpw] in WS; lia.
    + destruct (claimable s) eqn:CL; inversion H; subst s'; clear H.
      * left. unfold measure, measureA; cbn [fst]; flds; rewrite ?upd_length.
        match goal with |- context [upd i ?w _] => pose proof (wsum_upd (closed s) i w _ _ E) as WS end.
        rewrite Hpc in WS; cbn [set_pc pc wpw] in WS; lia.
      * right. unfold measure, measureA; cbn [fst snd]; flds. rewrite CL. lia.
    + destruct (i =? 0); inversion H; subst s'; clear H; left;
        unfold measure, measureA; cbn [fst]; flds; rewrite ?upd_length;
        match goal with |- context [upd i ?w _] => pose proof (wsum_upd (closed s) i w _ _ E) as WS end;
        rewrite Hpc in WS; cbn [set_pc pc wpw] in WS; lia.
  - discriminate.
Qed.

Lemma measure_prod : forall s ntf s',
  Inv s -> step_prod pa s ntf = Some s' -> stutter s (LProd ntf) = false -> mlt (measure s') (measure s).
Proof.
  intros s ntf s' HI H NS. unfold step_prod in H. cbn [stutter] in NS.
  assert (PUSH : forall t rest, (pst s = PRun \/ pst s = PWokenF) -> todo s = OPush t :: rest ->
                 step_push pa s t rest ntf = Some s' -> mlt (measure s') (measure s)).
  { intros t rest P T HP. unfold step_push in HP.
    destruct (closed s) eqn:C; [discriminate|].
    destruct (push_blocked pa s (tsize t)).
    - inversion HP; subst s'. left. unfold measure, measureA; cbn [fst]; flds. rewrite C.
      destruct P as [P|P]; rewrite P; cbn [pstw]; lia.
    - unfold do_admit in HP. destruct (notify_empty (ws s) ntf) as [l|] eqn:NE; [|discriminate].
      inversion HP; subst s'. left. unfold measure, measureA; cbn [fst]; flds. rewrite C, T.
      cbn [map opw list_sum length].
      assert (WL : wsum false l <= wsum false (ws s) + 1 /\ length l = length (ws s)).
      { unfold notify_empty in NE. destruct ntf as [j|].
        - destruct (nth_error (ws s) j) as [w|] eqn:E; [|discriminate].
          destruct (is_waitE w) eqn:W; [|discriminate]. inversion NE; subst l.
          pose proof (wsum_upd false j (set_pc w WWokenE) _ _ E) as WS.
          unfold is_waitE in W. destruct (pc w); try discriminate. cbn [set_pc pc wpw] in WS.
          rewrite upd_length. lia.
        - destruct (existsb is_waitE (ws s)); [discriminate|]. inversion NE; subst l. lia. }
      assert (pstw (pst s) >= 1) by (destruct P as [P|P]; rewrite P; cbn; lia).
      change (list_sum (17 :: map opw rest)) with (17 + list_sum (map opw rest)).
      cbn [pstw]. lia. }
  destruct (pst s) eqn:P.
  - destruct (todo s) as [|[t|] rest] eqn:T.
    + destruct (closed s) eqn:C; [discriminate|]. inversion H; subst s'. left.
      unfold measure, measureA; cbn [fst]; flds. rewrite C, P, T. cbn [pstw].
      pose proof (wsum_close (ws s)). lia.
    + eapply PUSH; eauto.
    + destruct (items s) eqn:EI; [|discriminate]. inversion H; subst s'. left.
      unfold measure, measureA; cbn [fst]; flds. rewrite T, EI.
      change (list_sum (map opw (OPoll :: rest))) with (1 + list_sum (map opw rest)). lia.
  - discriminate.
  - destruct (todo s) as [|[t|] rest] eqn:T; try discriminate. eapply PUSH; eauto.
  - destruct (forallb is_exited (ws s)); [|discriminate]. inversion H; subst s'. left.
    unfold measure, measureA; cbn [fst]; flds. rewrite P. cbn [pstw]. lia.
  - discriminate.
Qed.

Theorem measure_decreases_proof : forall s l s',
  Inv s -> step pa s l = Some s' -> stutter s l = false -> mlt (measure s') (measure s).
Proof.
  intros s l s' HI H NS. destruct l; cbn [stutter] in NS; try discriminate; cbn [step] in H.
  - eapply measure_prod; eauto.
  - eapply measure_work; eauto.
Qed.

(* ------------------------------------------------------------------------------------ termination *)
Lemma reach_inv : forall s, reachable pa script s -> Inv s.
Proof. intros. apply inv_reachable_all; auto. Qed.

Definition pstep (s' s : state) : Prop := reachable pa script s /\ exists l, progress pa s l s'.

Theorem terminates_proof : well_founded pstep.
Proof.
  apply (wf_incl _ _ (fun s' s => mlt (measure s') (measure s))).
  - intros s' s (R & l & H & NS). eapply measure_decreases_proof; eauto. apply reach_inv; auto.
  - apply wf_inverse_image. apply mlt_wf.
Qed.

Theorem run_reaches_final_proof : forall s, reachable pa script s -> ends_final pa s.
Proof.
  intros s. induction s as [s IH] using (well_founded_induction terminates_proof). intros R.
  destruct (finalb s) eqn:F.
  - apply ef_final. apply finalb_spec; auto.
  - apply ef_step.
    + apply deadlock_free_proof; [apply reach_inv; auto|]. intros Fi. apply finalb_spec in Fi. congruence.
    + intros l s' (H & NS). apply IH.
      * split; auto. exists l; split; auto.
      * eapply reach_step; eauto.
Qed.

(* ------------------------------------------------------------------------------------ final states *)
Theorem final_complete_proof : forall s, Inv s -> final s ->
  items s = [] /\ closed s = true /\ todo s = [] /\
  Forall (fun w => pc w = WExited /\ wrounds w = nblocks script) (ws s) /\
  ground s = nblocks script /\
  Permutation (pushed s) (segd s) /\
  length (segd s) = length (contig_sizes script).
Proof.
  intros s HI (PD & FX). pose proof HI as HI0. destruct HI.
  assert (AX : cnt is_exited (ws s) = length (ws s)).
  { apply cnt_all_true. intros i x E. rewrite Forall_nth in FX. unfold is_exited. rewrite (FX _ _ E). auto. }
  assert (C : closed s = true) by (apply i_closed; auto).
  assert (TD : todo s = []) by (apply i_closed; auto).
  assert (EI : items s = []) by (apply i_ex; lia).
  assert (NS : nsec s = 0).
  { unfold nsec. apply cnt_all_false. intros i x E. rewrite Forall_nth in FX. unfold insec. rewrite (FX _ _ E). auto. }
  assert (GR : ground s = nblocks script).
  { unfold ntok_items, ntok_todo in i_tok. rewrite NS, EI, TD in i_tok. cbn [cnt] in i_tok.
    apply (Nat.mul_cancel_r _ _ (nthr pa)); lia. }
  repeat split; auto.
  - rewrite Forall_nth in *. intros i x E. specialize (FX _ _ E). specialize (i_wf _ _ E).
    unfold wfw in i_wf. rewrite FX in i_wf. split; auto. lia.
  - rewrite i_ctg, EI, (inflight_nil _ FX). cbn. rewrite app_nil_r. auto.
  - rewrite TD in i_nctg. cbn in i_nctg. rewrite <- i_nctg.
    assert (P : Permutation (pushed s) (segd s)).
    { rewrite i_ctg, EI, (inflight_nil _ FX). cbn. rewrite app_nil_r. auto. }
    rewrite (Permutation_length P). lia.
Qed.

(* ----------------------------------------------------------------------- the A.6 accounting invariant *)
Theorem inv_reachable_proof : forall s, reachable pa script s ->
  (ntok_items s + ntok_todo s + nsec s) mod nthr pa = 0 /\
  ground s * nthr pa + nsec s + ntok_items s + ntok_todo s = nblocks script * nthr pa /\
  (forall w1 w2, In w1 (ws s) -> In w2 (ws s) -> insec (bgen s) w1 = true -> insec (bgen s) w2 = true ->
     stage (bgen s) (pc w1) = stage (bgen s) (pc w2) /\ wrounds w1 = wrounds w2) /\
  bcount s = cnt (fun w => match pc w with WBarW _ g => g =? bgen s | _ => false end) (ws s) /\
  bcount s < nthr pa.
Proof.
  intros s R. pose proof (reach_inv s R) as HI. destruct HI.
  split; [|split; [auto|split; [|exact i_bc]]].
  - assert (E : ntok_items s + ntok_todo s + nsec s = (nblocks script - ground s) * nthr pa).
    { rewrite Nat.mul_sub_distr_r. lia. }
    rewrite E. apply Nat.mod_mul. lia.
  - assert (ST : forall w, In w (ws s) -> insec (bgen s) w = true ->
                 stage (bgen s) (pc w) = Some (stg s) /\ wrounds w = ground s).
    { intros w I S. rewrite Forall_forall in i_wf. specialize (i_wf w I).
      unfold wfw in i_wf. unfold insec in S. unfold stage.
      destruct (pc w); try discriminate.
      - destruct i_wf; subst; auto.
      - destruct i_wf as [(A & B & C)|(A & [(B & C)|(B & C & D)])].
        + subst. rewrite Nat.eqb_refl. auto.
        + assert (g =? bgen s = false) by (apply Nat.eqb_neq; lia). rewrite H in *.
          destruct (Nat.eqb_spec k 3); [discriminate|]. subst; auto.
        + assert (g =? bgen s = false) by (apply Nat.eqb_neq; lia). rewrite H in S.
          subst k. discriminate.
      - destruct i_wf; subst; auto. }
    intros w1 w2 I1 I2 S1 S2. destruct (ST _ I1 S1) as (A1 & B1). destruct (ST _ I2 S2) as (A2 & B2).
    split; congruence.
Qed.

Theorem no_lost_wakeup_proof : forall s, reachable pa script s ->
  (closed s = false -> 0 < cnt is_waitE (ws s) ->
   length (items s) <= cnt (fun w => match pc w with WWokenE => true | _ => false end) (ws s)) /\
  (pst s = PWaitF -> items s <> []).
Proof.
  intros s R. pose proof (reach_inv s R) as HI. destruct HI. split; [exact i_wake|].
  intros P E. specialize (i_waitf P). rewrite i_cur, E in i_waitf. cbn in i_waitf. lia.
Qed.

(* --------------------------------------------------------------------- enabledb decides enabledness *)
Lemma enabledb_complete : forall s t, Inv s -> enabled pa s t -> enabledb pa s t = true.
Proof.
  intros s t HI (l & s' & T & H & NS).
  destruct l as [ntf|w sq nb|w|]; cbn [stutter] in NS; try discriminate; cbn [tid_of] in T; subst t;
    cbn [step] in H; unfold enabledb, canon_label; cbn [step stutter].
  - (* producer: only the choice of the notified waiter differs *)
    rewrite NS.
    assert (X : exists s'', step_prod pa s (first_waiter (ws s) 0) = Some s'').
    { unfold step_prod in *. destruct (pst s); try discriminate; eauto.
      - destruct (todo s) as [|[t|] rest]; eauto.
        unfold step_push in *. destruct (closed s); [discriminate|].
        destruct (push_blocked pa s (tsize t)); eauto.
        unfold do_admit. destruct (notify_first (ws s)) as (l' & ->). eauto.
      - destruct (todo s) as [|[t|] rest]; try discriminate.
        unfold step_push in *. destruct (closed s); [discriminate|].
        destruct (push_blocked pa s (tsize t)); eauto.
        unfold do_admit. destruct (notify_first (ws s)) as (l' & ->). eauto. }
    destruct X as (s'' & ->). reflexivity.
  - unfold step_work in *. destruct (nth_error (ws s) w) as [wk|] eqn:E; [|discriminate].
    destruct (pc wk) as [| | |q|k|k g|k|] eqn:Hpc; try discriminate.
    + destruct (pull_enabled _ _ _ HI E) as (sq' & s'' & P & ->). rewrite P. reflexivity.
    + destruct (closed s); [reflexivity|discriminate].
    + destruct (pull_enabled _ _ _ HI E) as (sq' & s'' & P & ->). rewrite P. reflexivity.
    + reflexivity.
    + rewrite H. reflexivity.
    + destruct (g =? bgen s); [discriminate|reflexivity].
    + destruct k as [|[|[|k]]]; [| | |discriminate].
      * destruct (w =? 0); reflexivity.
      * destruct (claimable s); reflexivity.
      * destruct (w =? 0); reflexivity.
Qed.

Theorem enabledb_sound_proof : forall s t, reachable pa script s ->
  (enabledb pa s t = true <-> enabled pa s t).
Proof.
  intros s t R. split; [apply enabledb_sound | apply enabledb_complete; apply reach_inv; auto].
Qed.

Theorem stuckb_sound_proof : forall s, reachable pa script s -> stuckb pa s = true ->
  ~ final s /\ forall t, ~ enabled pa s t.
Proof.
  intros s R H. unfold stuckb in H. apply Bool.andb_true_iff in H. destruct H as (F & X).
  apply Bool.negb_true_iff in F, X. split.
  - intros Fi. apply finalb_spec in Fi. congruence.
  - intros t En. pose proof En as En0. apply (enabledb_complete s t (reach_inv s R)) in En.
    assert (I : In t (tids s)).
    { unfold tids. destruct t as [|w]; [left; auto|right]. apply in_map. apply in_seq.
      destruct En0 as (l & s' & T & Hs & NS). destruct l as [ntf|w' sq nb|w'|]; cbn in T; try discriminate; inversion T; subst.
      cbn [step] in Hs. unfold step_work in Hs. destruct (nth_error (ws s) w) eqn:E; [|discriminate].
      assert (w < length (ws s)) by (apply nth_error_Some; congruence). lia. }
    assert (existsb (enabledb pa s) (tids s) = true) by (apply existsb_exists; eauto). congruence.
Qed.

End Live.
