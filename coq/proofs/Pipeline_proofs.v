(* Pipeline_proofs.v — lemmas for C01 (contig level; model: Pipeline.v).  Structure:
     1. the three reverse-complement tables agree and are involutive (the obligations a regression of
        reverse_complement_sequence breaks); sequence-level consequences
     2. split_segment_at_position under decisions_ok: both halves longer than k, overlap exactly k
     3. one raw segment: the pieces, un-oriented and put in part order, are the forward pieces [seg_fwd]
     4. one contig: part numbers are dense; the forward pieces glue back to the contig (uses C10)
     5. the catalogue: placement in any order, register_all, a repeated name is rejected
     6. the reader, and create ; extract_all = the sample set *)
From Coq Require Import Lia ZifyBool ZifyN ZifyNat Permutation.
From Ragc Require Import Mach Consts_kmer Consts_segment Consts_pipeline Kmer Segment Segment_proofs Pipeline.
Open Scope N_scope.
Arguments N.add : simpl never. Arguments N.sub : simpl never. Arguments N.mul : simpl never.
Arguments N.shiftl : simpl never. Arguments N.shiftr : simpl never. Arguments N.land : simpl never.
Arguments N.lor : simpl never. Arguments N.modulo : simpl never. Arguments N.div : simpl never.
Arguments N.pow : simpl never.
Ltac Zify.zify_post_hook ::= Z.div_mod_to_equations.

(* ---------------------------------------------------------------- 1. the tables *)
Lemma rc_seq_tab_eq : rc_seq_tab = rc_dec_tab.
Proof. vm_compute. reflexivity. Qed.
Lemma rc_pre_tab_eq : rc_pre_tab = rc_dec_tab.
Proof. vm_compute. reflexivity. Qed.

Lemma rc_seq_eq_rc_dec_proof : forall x, rc_seq x = rc_dec x.
Proof. intro x. unfold rc_seq, rc_dec. rewrite rc_seq_tab_eq. reflexivity. Qed.
Lemma rc_pre_eq_rc_dec_proof : forall x, rc_pre x = rc_dec x.
Proof. intro x. unfold rc_pre, rc_dec. rewrite rc_pre_tab_eq. reflexivity. Qed.

Lemma rc_dec_tab_len : length rc_dec_tab = 256%nat.
Proof. vm_compute. reflexivity. Qed.
Lemma rc_dec_tab_invol :
  forallb (fun i => nth (N.to_nat (nth i rc_dec_tab (N.of_nat i))) rc_dec_tab (nth i rc_dec_tab (N.of_nat i))
                    =? N.of_nat i) (seq 0 256) = true.
Proof. vm_compute. reflexivity. Qed.

Lemma rc_dec_involutive_proof : forall x, rc_dec (rc_dec x) = x.
Proof.
  intro x. unfold rc_dec.
  destruct (Nat.lt_ge_cases (N.to_nat x) 256) as [H|H].
  - pose proof rc_dec_tab_invol as F. rewrite forallb_forall in F.
    specialize (F (N.to_nat x)). rewrite in_seq in F. specialize (F ltac:(lia)).
    rewrite N2Nat.id in F. apply N.eqb_eq in F. exact F.
  - rewrite (nth_overflow rc_dec_tab x) by (rewrite rc_dec_tab_len; lia).
    rewrite (nth_overflow rc_dec_tab x) by (rewrite rc_dec_tab_len; lia). reflexivity.
Qed.

(* sequence level: [rcs] is the decompressor's function; the two writer-side functions equal it *)
Notation rcs := reverse_complement_segment.

Lemma data_rc_of_eq l : data_rc_of l = rcs l.
Proof. unfold data_rc_of, rcs. apply map_ext. exact rc_pre_eq_rc_dec_proof. Qed.
Lemma rc_sequence_eq l : reverse_complement_sequence l = rcs l.
Proof. unfold reverse_complement_sequence, rcs. apply map_ext. exact rc_seq_eq_rc_dec_proof. Qed.

Lemma rcs_length l : length (rcs l) = length l.
Proof. unfold rcs. rewrite map_length, rev_length. reflexivity. Qed.
Lemma rcs_app a b : rcs (a ++ b) = rcs b ++ rcs a.
Proof. unfold rcs. rewrite rev_app_distr, map_app. reflexivity. Qed.
Lemma rcs_invol l : rcs (rcs l) = l.
Proof.
  unfold rcs. rewrite <- map_rev, rev_involutive, map_map.
  rewrite <- (map_id l) at 2. apply map_ext. exact rc_dec_involutive_proof.
Qed.

Lemma rcs_firstn n l : (n <= length l)%nat -> rcs (firstn n l) = skipn (length l - n) (rcs l).
Proof.
  intro H. rewrite <- (firstn_skipn n l) at 3. rewrite rcs_app.
  rewrite skipn_app. rewrite rcs_length, skipn_length.
  replace (length l - n - (length l - n))%nat with 0%nat by lia. cbn [skipn].
  rewrite skipn_all2 by (rewrite rcs_length, skipn_length; lia). reflexivity.
Qed.
Lemma rcs_skipn n l : (n <= length l)%nat -> rcs (skipn n l) = firstn (length l - n) (rcs l).
Proof.
  intro H. rewrite <- (firstn_skipn n l) at 3. rewrite rcs_app.
  rewrite firstn_app. rewrite rcs_length, skipn_length.
  replace (length l - n - (length l - n))%nat with 0%nat by lia. cbn [firstn]. rewrite app_nil_r.
  rewrite firstn_all2 by (rewrite rcs_length, skipn_length; lia). reflexivity.
Qed.

(* ---------------------------------------------------------------- 2. the split *)
Lemma half_ceil_bounds k : (1 <= k)%nat -> (1 <= half_ceil k <= k)%nat.
Proof. intro H. unfold half_ceil. split.
  - apply Nat.div_le_lower_bound; lia.
  - apply Nat.div_le_upper_bound; lia. Qed.

(* decisions_ok for one split position *)
Definition pos_ok (k len pos : nat) : Prop := (split_min_size k <= pos /\ pos + split_min_size k <= len)%nat.

Lemma split_ok sd pos k : (1 <= k)%nat -> pos_ok k (length sd) pos ->
  let s2 := (pos - half_ceil k)%nat in
  split_segment_at_position sd pos k = Ok (firstn (s2 + k) sd, skipn s2 sd) /\
  (1 <= s2)%nat /\ (s2 + k < length sd)%nat.
Proof.
  intros Hk [H1 H2] s2. unfold split_min_size in *. pose proof (half_ceil_bounds k Hk) as Hh.
  unfold split_segment_at_position. fold s2.
  assert (1 <= s2)%nat by (unfold s2; lia). assert (s2 + k < length sd)%nat by (unfold s2; lia).
  destruct (Nat.ltb_spec (length sd) s2); [lia|].
  destruct (Nat.ltb_spec (length sd) (s2 + k)); [lia|]. auto.
Qed.

Lemma firstn_skipn_glue {A} (l : list A) a k : (k <= a)%nat ->
  firstn a l ++ skipn k (skipn (a - k) l) = l.
Proof.
  intro H. rewrite skipn_skipn. replace (a - k + k)%nat with a by lia. apply firstn_skipn.
Qed.

Lemma firstn_lastn_overlap {A} (l : list A) a k : (k <= a <= length l)%nat ->
  firstn k (skipn (a - k) l) = lastn k (firstn a l).
Proof.
  intros H. unfold lastn. rewrite firstn_length_le by lia.
  rewrite <- (firstn_skipn (a - k) (firstn a l)) at 1.
  assert (E : skipn (a - k) (firstn a l) = firstn k (skipn (a - k) l)).
  { rewrite skipn_firstn_comm. f_equal. lia. }
  rewrite E. rewrite skipn_app.
  rewrite firstn_length, firstn_length_le by lia.
  rewrite (skipn_all2 (firstn (a - k) (firstn a l))) by (rewrite firstn_length, firstn_length_le; lia).
  replace (a - k - Nat.min (a - k) a)%nat with 0%nat by lia. reflexivity.
Qed.

(* ---------------------------------------------------------------- 3. one raw segment *)
(* what the reader makes of a stored piece *)
Definition unorient (p : piece) : list N := if p_rc p then rcs (p_data p) else p_data p.

(* the forward pieces of a raw segment, in forward (= part number) order *)
Definition seg_fwd (k : nat) (s : segment) (d : decision) : list (list N) :=
  let data := sdata s in
  match d with
  | Split o pos _ _ =>
      let s2 := (pos - half_ceil k)%nat in
      if should_reverse s o
      then [firstn (length data - s2) data; skipn (length data - (s2 + k)) data]
      else [firstn (s2 + k) data; skipn s2 data]
  | _ => [data]
  end.

Lemma unorient_orient n f sr x :
  unorient (mkPiece n f (if xorb f sr then reverse_complement_sequence x else x)) = if sr then rcs x else x.
Proof.
  unfold unorient; cbn [p_rc p_data]. rewrite (rc_sequence_eq x).
  destruct f, sr; cbn [xorb]; rewrite ?rcs_invol; reflexivity.
Qed.

Lemma segment_data_fwd s o : (if should_reverse s o then rcs (if should_reverse s o then data_rc_of (sdata s) else sdata s)
                              else (if should_reverse s o then data_rc_of (sdata s) else sdata s)) = sdata s.
Proof. destruct (should_reverse s o); [rewrite (data_rc_of_eq (sdata s)), rcs_invol|]; reflexivity. Qed.

Lemma split_inv sd pos k l r : split_segment_at_position sd pos k = Ok (l, r) ->
  let s2 := (pos - half_ceil k)%nat in
  l = firstn (s2 + k) sd /\ r = skipn s2 sd /\ (s2 + k <= length sd)%nat.
Proof.
  intros H s2. unfold split_segment_at_position in H. fold s2 in H. cbv zeta in H.
  destruct (Nat.ltb_spec (length sd) s2); [discriminate|].
  destruct (Nat.ltb_spec (length sd) (s2 + k)); [discriminate|]. inversion H. auto.
Qed.

(* orientation: whenever the writer produced pieces, un-orienting them and putting them in part order gives
   the forward pieces *)
Lemma seg_pieces_spec k s d n ps : seg_pieces k s d n = Ok ps ->
  exists ps', Permutation ps ps' /\ map p_part ps' = seq n (part_incr d) /\ map unorient ps' = seg_fwd k s d.
Proof.
  unfold seg_pieces. destruct d as [o|o pos lf rf|o f|o f]; cbn [dec_o part_incr seg_fwd].
  - intro H. inversion H; subst. eexists; split; [apply Permutation_refl|]. split; [reflexivity|].
    cbn [map]. unfold unorient; cbn [p_rc p_data]. f_equal. apply segment_data_fwd.
  - set (sr := should_reverse s o).
    set (sd := if sr then data_rc_of (sdata s) else sdata s).
    destruct (split_segment_at_position sd pos k) as [[l r]| |] eqn:E; try discriminate.
    apply split_inv in E. destruct E as (El & Er & Hle).
    set (s2 := (pos - half_ceil k)%nat) in *.
    assert (Hlen : length sd = length (sdata s)).
    { unfold sd. destruct sr; [rewrite (data_rc_of_eq (sdata s)), rcs_length|]; reflexivity. }
    destruct sr eqn:Esr; intro H; inversion H; subst ps; clear H.
    + (* reversed: the code's left half is the forward suffix and carries part n + 1 *)
      eexists. split; [apply perm_swap|]. split; [reflexivity|].
      cbn [map]. rewrite !unorient_orient.
      assert (Esd : sd = rcs (sdata s)) by (unfold sd; apply data_rc_of_eq).
      rewrite Er, El, Esd.
      rewrite rcs_skipn by (rewrite rcs_length; lia). rewrite rcs_firstn by (rewrite rcs_length; lia).
      rewrite rcs_invol, rcs_length. reflexivity.
    + eexists. split; [apply Permutation_refl|]. split; [reflexivity|].
      cbn [map]. rewrite !unorient_orient. rewrite El, Er. reflexivity.
  - intro H. inversion H; subst. eexists; split; [apply Permutation_refl|]. split; [reflexivity|].
    cbn [map]. rewrite unorient_orient. f_equal. apply segment_data_fwd.
  - intro H. inversion H; subst. eexists; split; [apply Permutation_refl|]. split; [reflexivity|].
    cbn [map]. rewrite unorient_orient. f_equal. apply segment_data_fwd.
Qed.

(* under decisions_ok the writer does not panic *)
Lemma seg_pieces_ok k s d n : (1 <= k)%nat -> decision_okb k s d = true -> exists ps, seg_pieces k s d n = Ok ps.
Proof.
  intros Hk Hd. unfold seg_pieces. destruct d as [o|o pos lf rf|o f|o f]; cbn [dec_o]; try (eexists; reflexivity).
  cbn [decision_okb] in Hd. apply andb_prop in Hd. destruct Hd as [H1 H2].
  apply Nat.leb_le in H1, H2.
  set (sd := if should_reverse s o then data_rc_of (sdata s) else sdata s).
  assert (Hlen : length sd = length (sdata s)).
  { unfold sd. destruct (should_reverse s o); [rewrite (data_rc_of_eq (sdata s)), rcs_length|]; reflexivity. }
  destruct (split_ok sd pos k Hk) as (E & _). { unfold pos_ok. rewrite Hlen. auto. }
  rewrite E. destruct (should_reverse s o); eexists; reflexivity.
Qed.

(* the split: both forward halves are longer than k and overlap in exactly k symbols *)
Lemma split_fwd k s o pos lf rf : (1 <= k)%nat -> decision_okb k s (Split o pos lf rf) = true ->
  exists A B, seg_fwd k s (Split o pos lf rf) = [A; B] /\
    (k < length A)%nat /\ (k < length B)%nat /\ A ++ skipn k B = sdata s /\ firstn k B = lastn k A.
Proof.
  intros Hk Hd. cbn [decision_okb] in Hd. apply andb_prop in Hd. destruct Hd as [H1 H2].
  apply Nat.leb_le in H1, H2. unfold split_min_size in *. pose proof (half_ceil_bounds k Hk) as Hh.
  cbn [seg_fwd]. set (s2 := (pos - half_ceil k)%nat). set (data := sdata s) in *.
  assert (1 <= s2)%nat by (unfold s2; lia). assert (s2 + k < length data)%nat by (unfold s2; lia).
  destruct (should_reverse s o).
  - exists (firstn (length data - s2) data), (skipn (length data - (s2 + k)) data).
    split; [reflexivity|]. rewrite firstn_length_le, skipn_length by lia.
    split; [lia|]. split; [lia|].
    replace (length data - (s2 + k))%nat with (length data - s2 - k)%nat by lia.
    split; [apply firstn_skipn_glue; lia | apply firstn_lastn_overlap; lia].
  - exists (firstn (s2 + k) data), (skipn s2 data).
    split; [reflexivity|]. rewrite firstn_length_le, skipn_length by lia.
    split; [lia|]. split; [lia|].
    pose proof (firstn_skipn_glue data (s2 + k) k ltac:(lia)) as G1.
    pose proof (firstn_lastn_overlap data (s2 + k) k ltac:(lia)) as G2.
    replace (s2 + k - k)%nat with s2 in G1, G2 by lia. split; assumption.
Qed.

(* head whole, the rest minus k: what the reader's loop computes from the forward pieces *)
Definition tails (k : nat) (l : list (list N)) : list N := concat (map (skipn k) l).
Definition glue_pieces (k : nat) (l : list (list N)) : list N :=
  match l with [] => [] | x :: r => x ++ tails k r end.

Lemma tails_app k a b : tails k (a ++ b) = tails k a ++ tails k b.
Proof. unfold tails. rewrite map_app, concat_app. reflexivity. Qed.

Lemma seg_fwd_glue k s d : (1 <= k)%nat -> decision_okb k s d = true ->
  exists x r, seg_fwd k s d = x :: r /\ x ++ tails k r = sdata s /\
              Forall (fun y => k <= length y)%nat r /\
              ((k <= length (sdata s))%nat -> (k <= length x)%nat /\ tails k (x :: r) = skipn k (sdata s)).
Proof.
  intros Hk Hd. destruct d as [o|o pos lf rf|o f|o f];
    try (exists (sdata s), []; cbn [seg_fwd]; split; [reflexivity|]; split; [apply app_nil_r|];
         split; [constructor|]; intro; split; [assumption | unfold tails; cbn; apply app_nil_r]).
  destruct (split_fwd k s o pos lf rf Hk Hd) as (A & B & E & HA & HB & Hg & _).
  exists A, [B]. split; [exact E|]. unfold tails. cbn [map concat]. rewrite app_nil_r.
  split; [exact Hg|]. split; [repeat constructor; lia|]. intros _. split; [lia|].
  rewrite <- Hg. rewrite skipn_app. replace (k - length A)%nat with 0%nat by lia. reflexivity.
Qed.

(* ---------------------------------------------------------------- 4. one contig *)
Fixpoint contig_fwd (k : nat) (segs : list segment) (dec : nat -> decision) (j : nat) : list (list N) :=
  match segs with
  | [] => []
  | s :: rest => seg_fwd k s (dec j) ++ contig_fwd k rest dec (S j)
  end.

Definition decs_ok (k : nat) (segs : list segment) (dec : nat -> decision) (j : nat) : Prop :=
  forall i s, nth_error segs i = Some s -> decision_okb k s (dec (j + i)%nat) = true.

Lemma decs_ok_tail k s rest dec j : decs_ok k (s :: rest) dec j ->
  decision_okb k s (dec j) = true /\ decs_ok k rest dec (S j).
Proof.
  intro H. split.
  - specialize (H 0%nat s eq_refl). rewrite Nat.add_0_r in H. exact H.
  - intros i t Ht. specialize (H (S i) t Ht). replace (S j + i)%nat with (j + S i)%nat by lia. exact H.
Qed.

Lemma contig_pieces_spec k dec : (1 <= k)%nat -> forall segs j n, decs_ok k segs dec j ->
  exists ps ps', contig_pieces k segs dec j n = Ok ps /\ Permutation ps ps' /\
                 map p_part ps' = seq n (length ps') /\ map unorient ps' = contig_fwd k segs dec j.
Proof.
  intros Hk. induction segs as [|s rest IH]; intros j n Hd.
  - exists [], []. repeat split; constructor.
  - apply decs_ok_tail in Hd. destruct Hd as [Hs Hr].
    destruct (seg_pieces_ok k s (dec j) n Hk Hs) as (ps1 & E1).
    destruct (seg_pieces_spec _ _ _ _ _ E1) as (ps1' & P1 & N1 & U1).
    destruct (IH (S j) (n + part_incr (dec j))%nat Hr) as (ps2 & ps2' & E2 & P2 & N2 & U2).
    exists (ps1 ++ ps2), (ps1' ++ ps2'). cbn [contig_pieces contig_fwd]. rewrite E1. cbn [obnd]. rewrite E2. cbn [obnd].
    split; [reflexivity|]. split; [apply Permutation_app; assumption|].
    assert (L1 : length ps1' = part_incr (dec j)).
    { rewrite <- (map_length p_part), N1, seq_length. reflexivity. }
    rewrite !map_app, app_length, seq_app, N1, N2, U1, U2, L1. auto.
Qed.

Lemma part_numbers_dense_proof : forall k segs dec j ps, (1 <= k)%nat -> decs_ok k segs dec j ->
  contig_pieces k segs dec j 0 = Ok ps -> Permutation (map p_part ps) (seq 0 (length ps)).
Proof.
  intros k segs dec j ps Hk Hd E.
  destruct (contig_pieces_spec k dec Hk segs j 0%nat Hd) as (ps0 & ps' & E' & P & Np & _).
  rewrite E in E'. inversion E'; subst ps0.
  rewrite (Permutation_length P). rewrite <- Np. apply Permutation_map. exact P.
Qed.

(* the forward pieces of all segments of a chain s0 :: rest glue to  sdata s0 ++ (later segments minus k) *)
Lemma contig_fwd_glue k dec : (1 <= k)%nat -> forall rest j, decs_ok k rest dec j ->
  Forall (fun s => k <= length (sdata s))%nat rest ->
  tails k (contig_fwd k rest dec j) = concat (map (fun s => skipn k (sdata s)) rest) /\
  Forall (fun y => k <= length y)%nat (contig_fwd k rest dec j).
Proof.
  intros Hk. induction rest as [|s rest IH]; intros j Hd Hl.
  - split; [reflexivity | constructor].
  - apply decs_ok_tail in Hd. destruct Hd as [Hs Hr]. inversion Hl; subst.
    destruct (seg_fwd_glue k s (dec j) Hk Hs) as (x & r & E & _ & Hr' & Hx).
    destruct (Hx H1) as [Hx1 Hx2]. destruct (IH (S j) Hr H2) as [IH1 IH2].
    cbn [contig_fwd map concat]. rewrite tails_app, E, Hx2, IH1. split; [reflexivity|].
    apply Forall_app. split; [constructor; assumption | assumption].
Qed.

Lemma contig_glue_proof : forall ws contig spl k dec, 1 <= k <= 32 ->
  let segs := split_gen ws contig spl k in
  decs_ok (N.to_nat k) segs dec 0 ->
  exists x r, contig_fwd (N.to_nat k) segs dec 0 = x :: r /\ x ++ tails (N.to_nat k) r = contig /\
              Forall (fun y => N.to_nat k <= length y)%nat r.
Proof.
  intros ws contig spl k dec Hk segs Hd.
  assert (Hk' : (1 <= N.to_nat k)%nat) by lia.
  destruct segs as [|s0 rest] eqn:Es. { exfalso. exact (nonempty_output_proof ws contig spl k Es). }
  pose proof (tiling_proof ws contig spl k s0 rest Hk Es) as T.
  assert (Hl : Forall (fun s => N.to_nat k <= length (sdata s))%nat rest).
  { apply Forall_forall. intros t Ht. apply In_nth_error in Ht. destruct Ht as [i Hi].
    apply (later_len_ge_k_proof ws contig spl k i t Hk). unfold segs in Es. rewrite Es. exact Hi. }
  apply decs_ok_tail in Hd. destruct Hd as [H0 Hr].
  destruct (seg_fwd_glue _ s0 (dec 0%nat) Hk' H0) as (x & r & E & Hg & Hr' & _).
  destruct (contig_fwd_glue _ dec Hk' rest 1%nat Hr Hl) as [G1 G2].
  exists x, (r ++ contig_fwd (N.to_nat k) rest dec 1). cbn [contig_fwd]. rewrite E. split; [reflexivity|].
  split.
  - rewrite tails_app, app_assoc, Hg, G1. exact T.
  - apply Forall_app. split; assumption.
Qed.

(* ---------------------------------------------------------------- 5. the catalogue *)
(* ---- names *)
Lemma name_eqb_eq a : forall b, name_eqb a b = true <-> a = b.
Proof.
  unfold name_eqb. induction a as [|x a IH]; destruct b as [|y b]; cbn [list_eqb]; split; intro H;
    try reflexivity; try discriminate.
  - apply andb_prop in H. destruct H as [H1 H2]. apply N.eqb_eq in H1. apply IH in H2. subst. reflexivity.
  - inversion H; subst. rewrite N.eqb_refl. apply IH. reflexivity.
Qed.
Lemma name_eqb_refl a : name_eqb a a = true.
Proof. apply name_eqb_eq. reflexivity. Qed.
Lemma name_eqb_neq a b : a <> b -> name_eqb a b = false.
Proof. intro H. destruct (name_eqb a b) eqn:E; [|reflexivity]. apply name_eqb_eq in E. contradiction. Qed.
Lemma name_eqb_false a b : name_eqb a b = false -> a <> b.
Proof. intros H E. subst. rewrite name_eqb_refl in H. discriminate. Qed.

(* ---- place_at as a point update of a vector padded with the hole descriptor *)
Lemma upd_nth {A} (w : list A) : forall p d q dflt, (p < length w)%nat ->
  nth q (firstn p w ++ d :: skipn (S p) w) dflt = if Nat.eqb q p then d else nth q w dflt.
Proof.
  induction w as [|a w IH]; intros p d q dflt H; [cbn in H; lia|].
  destruct p, q; cbn [firstn skipn app nth Nat.eqb]; try reflexivity.
  apply IH. cbn in H. lia.
Qed.
Lemma upd_length {A} (w : list A) p d : (p < length w)%nat ->
  length (firstn p w ++ d :: skipn (S p) w) = length w.
Proof. intro H. rewrite app_length, firstn_length_le by lia. cbn [length]. rewrite skipn_length. lia. Qed.

Definition padded (v : list seg_desc) (p : nat) : list seg_desc :=
  if Nat.leb (length v) p then v ++ repeat empty_desc (p + 1 - length v) else v.
Lemma padded_length v p : length (padded v p) = Nat.max (length v) (S p).
Proof.
  unfold padded. destruct (Nat.leb_spec (length v) p); [|lia].
  rewrite app_length, repeat_length. lia.
Qed.
Lemma padded_nth v p q : nth q (padded v p) empty_desc = nth q v empty_desc.
Proof.
  unfold padded. destruct (Nat.leb_spec (length v) p); [|reflexivity].
  destruct (Nat.lt_ge_cases q (length v)).
  - apply app_nth1. assumption.
  - rewrite app_nth2 by assumption. rewrite (nth_overflow v) by assumption.
    apply nth_repeat.
Qed.
Lemma place_at_padded v p d : place_at v p d = firstn p (padded v p) ++ d :: skipn (S p) (padded v p).
Proof. reflexivity. Qed.

Lemma place_at_length v p d : length (place_at v p d) = Nat.max (length v) (S p).
Proof. rewrite place_at_padded, upd_length; rewrite padded_length; lia. Qed.
Lemma place_at_nth v p d q :
  nth q (place_at v p d) empty_desc = if Nat.eqb q p then d else nth q v empty_desc.
Proof. rewrite place_at_padded, upd_nth by (rewrite padded_length; lia). rewrite padded_nth. reflexivity. Qed.

Lemma place_at_comm v p d q e : p <> q -> place_at (place_at v p d) q e = place_at (place_at v q e) p d.
Proof.
  intro H. apply (nth_ext _ _ empty_desc empty_desc).
  - rewrite !place_at_length. lia.
  - intros n _. rewrite !place_at_nth.
    destruct (Nat.eqb_spec n q), (Nat.eqb_spec n p); try reflexivity. lia.
Qed.
Lemma place_at_end v d : place_at v (length v) d = v ++ [d].
Proof.
  apply (nth_ext _ _ empty_desc empty_desc).
  - rewrite place_at_length, app_length. cbn. lia.
  - intros n _. rewrite place_at_nth. destruct (Nat.eqb_spec n (length v)).
    + subst. rewrite app_nth2, Nat.sub_diag by lia. reflexivity.
    + destruct (Nat.lt_ge_cases n (length v)).
      * rewrite app_nth1 by assumption. reflexivity.
      * rewrite !nth_overflow; [reflexivity | rewrite app_length; cbn; lia | lia].
Qed.

(* the registrations of one contig, applied in the order they arrive *)
Definition place_list (v : list seg_desc) (L : list (nat * seg_desc)) : list seg_desc :=
  fold_left (fun v x => place_at v (fst x) (snd x)) L v.

Lemma place_list_perm : forall L L', Permutation L L' -> NoDup (map fst L) ->
  forall v, place_list v L = place_list v L'.
Proof.
  induction 1 as [|x l l' P IH|x y l|l l' l'' P1 IH1 P2 IH2]; intros ND v.
  - reflexivity.
  - cbn. apply IH. inversion ND; assumption.
  - cbn. f_equal. apply place_at_comm. cbn in ND. inversion ND as [|? ? Hn _]; subst. cbn in Hn. intuition.
  - rewrite IH1 by assumption. apply IH2.
    apply (Permutation_NoDup (Permutation_map fst P1)). assumption.
Qed.
Lemma place_list_sorted : forall L v, map fst L = seq (length v) (length L) -> place_list v L = v ++ map snd L.
Proof.
  induction L as [|x L IH]; intros v H; [cbn; rewrite app_nil_r; reflexivity|].
  change (place_list v (x :: L)) with (place_list (place_at v (fst x) (snd x)) L).
  cbn [map length seq] in H. inversion H as [[H1 H2]]. rewrite H1, place_at_end.
  rewrite IH; [cbn [map]; rewrite <- app_assoc; reflexivity|]. rewrite app_length. cbn [length].
  rewrite H2. f_equal. lia.
Qed.
Lemma place_perm_dense L L' : Permutation L L' -> map fst L' = seq 0 (length L') ->
  place_list [] L = map snd L'.
Proof.
  intros P H. rewrite (place_list_perm L L' P).
  - apply (place_list_sorted L' []). exact H.
  - apply (Permutation_NoDup (Permutation_map fst (Permutation_sym P))). rewrite H. apply seq_NoDup.
Qed.

(* ---- the catalogue as a function of its shape (sample names with their contig names) *)
Definition shape := list (name * list name).
Definition build (sh : shape) (V : name -> name -> list seg_desc) : collection :=
  map (fun s => (fst s, map (fun c => (c, V (fst s) c)) (snd s))) sh.
Definition shape_ok (sh : shape) : Prop := NoDup (map fst sh) /\ Forall (fun s => NoDup (snd s)) sh.

Lemma build_ext sh V1 V2 : (forall s c, In s sh -> In c (snd s) -> V1 (fst s) c = V2 (fst s) c) ->
  build sh V1 = build sh V2.
Proof.
  intro H. unfold build. apply map_ext_in. intros s Hs. f_equal. apply map_ext_in. intros c Hc.
  f_equal. apply H; assumption.
Qed.

Lemma NoDup_key_inj {A} (key : A -> name) (l : list A) a b :
  NoDup (map key l) -> In a l -> In b l -> key a = key b -> a = b.
Proof.
  induction l as [|x l IH]; intros ND Ha Hb E; [contradiction|].
  cbn in ND. inversion ND as [|? ? Hn ND']; subst.
  destruct Ha as [<-|Ha], Hb as [<-|Hb]; auto.
  - exfalso. apply Hn. rewrite E. apply in_map. assumption.
  - exfalso. apply Hn. rewrite <- E. apply in_map. assumption.
Qed.

Lemma upd_first_keyed {A B} (key : A -> name) (F : A -> B) (f : name * B -> name * B) a (l : list A) :
  NoDup (map key l) ->
  upd_first (is_named a) f (map (fun x => (key x, F x)) l) =
  map (fun x => if name_eqb (key x) a then f (key x, F x) else (key x, F x)) l.
Proof.
  induction l as [|x l IH]; intro ND; [reflexivity|].
  cbn in ND. inversion ND as [|? ? Hn ND']; subst.
  cbn [map upd_first]. unfold is_named at 1. cbn [fst].
  destruct (name_eqb (key x) a) eqn:E.
  - f_equal. apply map_ext_in. intros y Hy.
    rewrite name_eqb_neq; [reflexivity|]. apply name_eqb_eq in E. subst a.
    intro E'. apply Hn. rewrite <- E'. apply in_map. assumption.
  - f_equal. apply IH. assumption.
Qed.

Definition updV (V : name -> name -> list seg_desc) (st c : name) (p : nat) (d : seg_desc)
  : name -> name -> list seg_desc :=
  fun s' c' => if name_eqb s' st && name_eqb c' c then place_at (V s' c') p d else V s' c'.

Lemma find_build_in sh V st sd : find (is_named st) (build sh V) = Some sd ->
  exists s, In s sh /\ fst s = st /\ sd = (fst s, map (fun c => (c, V (fst s) c)) (snd s)).
Proof.
  intro H. apply find_some in H. destruct H as [Hin Hn].
  unfold build in Hin. apply in_map_iff in Hin. destruct Hin as (s & <- & Hs).
  exists s. split; [assumption|]. split; [|reflexivity].
  unfold is_named in Hn. cbn [fst] in Hn. apply name_eqb_eq in Hn. assumption.
Qed.

Lemma existsb_named_map {B} (F : name -> B) c l :
  existsb (is_named c) (map (fun c' => (c', F c')) l) = existsb (fun c' => name_eqb c' c) l.
Proof. induction l as [|x l IH]; [reflexivity|]. cbn. rewrite IH. reflexivity. Qed.

Lemma place_step_build ecn sh V r : shape_ok sh ->
  place_step ecn (build sh V) r =
  build sh (updV V (stored_sample_name ecn (r_sample r) (r_contig r)) (r_contig r) (r_place r) (r_desc r)).
Proof.
  intros [ND NDc]. unfold place_step, add_segment_placed.
  set (st := stored_sample_name ecn (r_sample r) (r_contig r)). set (c := r_contig r).
  destruct (find (is_named st) (build sh V)) as [sd|] eqn:Ef.
  - destruct (find_build_in _ _ _ _ Ef) as (s0 & Hs0 & Est & ->). cbn [snd].
    rewrite existsb_named_map.
    destruct (existsb (fun c' => name_eqb c' c) (snd s0)) eqn:Ex.
    + unfold build at 1. rewrite (upd_first_keyed fst _ _ st sh ND).
      unfold build. apply map_ext_in. intros s Hs.
      destruct (name_eqb (fst s) st) eqn:Es.
      * cbn [fst snd]. f_equal.
        rewrite (upd_first_keyed (fun c' : name => c') (fun c' => V (fst s) c')).
        -- apply map_ext_in. intros c' Hc'. unfold updV. rewrite Es. cbn [andb].
           destruct (name_eqb c' c); reflexivity.
        -- rewrite map_id. rewrite Forall_forall in NDc. apply NDc. assumption.
      * f_equal. apply map_ext_in. intros c' Hc'. unfold updV. rewrite Es. reflexivity.
    + apply build_ext. intros s c' Hs Hc'. unfold updV.
      destruct (name_eqb (fst s) st) eqn:Es; [|reflexivity]. cbn [andb].
      apply name_eqb_eq in Es.
      assert (s = s0) by (apply (NoDup_key_inj fst sh); congruence). subst s.
      destruct (name_eqb c' c) eqn:Ec; [|reflexivity].
      exfalso. assert (Hex : existsb (fun c'0 => name_eqb c'0 c) (snd s0) = true).
      { apply existsb_exists. exists c'. auto. } congruence.
  - apply build_ext. intros s c' Hs Hc'. unfold updV.
    destruct (name_eqb (fst s) st) eqn:Es; [|reflexivity].
    exfalso. pose proof (find_none _ _ Ef (fst s, map (fun c0 => (c0, V (fst s) c0)) (snd s))) as Hn.
    unfold is_named in Hn. cbn [fst] in Hn. rewrite Es in Hn.
    assert (true = false); [|discriminate]. apply Hn. unfold build. apply in_map_iff. exists s. auto.
Qed.

(* the registrations that concern contig (s, c), as (place, descriptor) pairs in arrival order *)
Definition sel (ecn : name -> name) (s c : name) (rs : list registration) : list (nat * seg_desc) :=
  map (fun r => (r_place r, r_desc r))
      (filter (fun r => name_eqb s (stored_sample_name ecn (r_sample r) (r_contig r)) && name_eqb c (r_contig r)) rs).

Lemma place_all_build ecn sh : shape_ok sh -> forall rs V,
  place_all ecn (build sh V) rs = build sh (fun s c => place_list (V s c) (sel ecn s c rs)).
Proof.
  intros Hsh. induction rs as [|r rs IH]; intro V; [reflexivity|].
  unfold place_all in *. cbn [fold_left]. rewrite place_step_build by assumption. rewrite IH.
  apply build_ext. intros s c _ _. unfold sel, updV. cbn [filter].
  destruct (name_eqb (fst s) (stored_sample_name ecn (r_sample r) (r_contig r)) && name_eqb c (r_contig r));
    reflexivity.
Qed.

(* ---- push-time registration *)
Lemma stored_name_nonempty ecn s c : s <> [] -> stored_sample_name ecn s c = s.
Proof. destruct s; [contradiction | reflexivity]. Qed.

Lemma find_app_none {A} (p : A -> bool) l1 l2 : (forall x, In x l1 -> p x = false) ->
  find p (l1 ++ l2) = find p l2.
Proof. induction l1 as [|x l1 IH]; intro H; [reflexivity|]. cbn. rewrite (H x (or_introl eq_refl)). apply IH. intros; apply H; right; assumption. Qed.
Lemma existsb_none {A} (p : A -> bool) l : (forall x, In x l -> p x = false) -> existsb p l = false.
Proof. induction l as [|x l IH]; intro H; [reflexivity|]. cbn. rewrite (H x (or_introl eq_refl)). apply IH. intros; apply H; right; assumption. Qed.
Lemma upd_first_app_none {A} (p : A -> bool) f l1 l2 : (forall x, In x l1 -> p x = false) ->
  upd_first p f (l1 ++ l2) = l1 ++ upd_first p f l2.
Proof. induction l1 as [|x l1 IH]; intro H; [reflexivity|]. cbn. rewrite (H x (or_introl eq_refl)). f_equal. apply IH. intros; apply H; right; assumption. Qed.

Lemma not_named (coll : collection) sn : (forall x, In x coll -> fst x <> sn) ->
  forall x, In x coll -> is_named sn x = false.
Proof. intros H x Hx. unfold is_named. apply name_eqb_neq. apply H. assumption. Qed.

(* the first contig of a new sample *)
Lemma reg_first ecn (coll : collection) sn cn data rest : sn <> [] -> (forall x, In x coll -> fst x <> sn) ->
  register_all ecn coll ((sn, cn, data) :: rest) = register_all ecn (coll ++ [(sn, [(cn, [])])]) rest.
Proof.
  intros Hs Hc. pose proof (not_named coll sn Hc) as Hn.
  cbn [register_all]. unfold register_sample_contig. rewrite stored_name_nonempty by assumption.
  unfold collection, sample_desc, contig_desc in *.
  rewrite (existsb_none _ _ Hn). rewrite (find_app_none _ _ _ Hn). cbn [find].
  unfold is_named at 1. cbn [fst]. rewrite name_eqb_refl. cbn [snd existsb].
  rewrite (upd_first_app_none _ _ _ _ Hn). cbn [upd_first]. unfold is_named at 1. cbn [fst snd app].
  rewrite name_eqb_refl. reflexivity.
Qed.

(* a further contig of the sample being filled *)
Lemma reg_next ecn (coll : collection) sn pre cn data rest : sn <> [] -> (forall x, In x coll -> fst x <> sn) ->
  register_all ecn (coll ++ [(sn, pre)]) ((sn, cn, data) :: rest) =
  if existsb (is_named cn) pre then Err else register_all ecn (coll ++ [(sn, pre ++ [(cn, [])])]) rest.
Proof.
  intros Hs Hc. pose proof (not_named coll sn Hc) as Hn.
  cbn [register_all]. unfold register_sample_contig. rewrite stored_name_nonempty by assumption.
  unfold collection, sample_desc, contig_desc in *.
  assert (Ex : existsb (is_named sn) (coll ++ [(sn, pre)]) = true).
  { rewrite existsb_app. cbn [existsb]. unfold is_named. cbn [fst]. rewrite name_eqb_refl. cbn [orb].
    apply orb_true_r. }
  rewrite Ex. rewrite (find_app_none _ _ _ Hn). cbn [find].
  unfold is_named at 1. cbn [fst]. rewrite name_eqb_refl. cbn [snd].
  destruct (existsb (is_named cn) pre); [reflexivity|].
  rewrite (upd_first_app_none _ _ _ _ Hn). cbn [upd_first]. unfold is_named at 1. cbn [fst snd].
  rewrite name_eqb_refl. reflexivity.
Qed.

Fixpoint sample_reg (pre : list contig_desc) (cs : list (name * list N)) : option (list contig_desc) :=
  match cs with
  | [] => Some pre
  | c :: cs' => if existsb (is_named (fst c)) pre then None else sample_reg (pre ++ [(fst c, [])]) cs'
  end.

Lemma reg_cs ecn sn (coll : collection) rest : sn <> [] -> (forall x, In x coll -> fst x <> sn) ->
  forall cs pre,
  register_all ecn (coll ++ [(sn, pre)]) (map (fun c => (sn, fst c, snd c)) cs ++ rest) =
  match sample_reg pre cs with Some pre' => register_all ecn (coll ++ [(sn, pre')]) rest | None => Err end.
Proof.
  intros Hs Hc. induction cs as [|c cs IH]; intro pre; [reflexivity|].
  cbn [map app sample_reg]. rewrite reg_next by assumption.
  destruct (existsb (is_named (fst c)) pre); [reflexivity | apply IH].
Qed.

Lemma existsb_named_false (pre : list contig_desc) cn :
  existsb (is_named cn) pre = false -> ~ In cn (map fst pre).
Proof.
  intros H Hin. apply in_map_iff in Hin. destruct Hin as (x & E & Hx).
  assert (existsb (is_named cn) pre = true); [|congruence].
  apply existsb_exists. exists x. split; [assumption|]. unfold is_named. rewrite E. apply name_eqb_refl.
Qed.
Lemma existsb_named_true (pre : list contig_desc) cn :
  existsb (is_named cn) pre = true -> In cn (map fst pre).
Proof.
  intro H. apply existsb_exists in H. destruct H as (x & Hx & E). unfold is_named in E. apply name_eqb_eq in E.
  subst. apply in_map. assumption.
Qed.

Lemma NoDup_snoc {A} (l : list A) a : NoDup l -> ~ In a l -> NoDup (l ++ [a]).
Proof.
  induction l as [|x l IH]; cbn; intros ND Hn; [constructor; [intros []|constructor]|].
  inversion ND; subst. constructor.
  - intro Hin. apply in_app_or in Hin. destruct Hin as [Hin|[E|[]]]; [contradiction|].
    subst. apply Hn. left. reflexivity.
  - apply IH; [assumption|]. intro. apply Hn. right. assumption.
Qed.

Lemma sample_reg_some : forall cs pre pre', sample_reg pre cs = Some pre' -> NoDup (map fst pre) ->
  pre' = pre ++ map (fun c => (fst c, [])) cs /\ NoDup (map fst pre ++ map fst cs).
Proof.
  induction cs as [|c cs IH]; intros pre pre' H ND; cbn [sample_reg] in H.
  - inversion H; subst. cbn. rewrite !app_nil_r. auto.
  - destruct (existsb (is_named (fst c)) pre) eqn:E; [discriminate|].
    apply existsb_named_false in E.
    assert (ND' : NoDup (map fst (pre ++ [(fst c, [])]))).
    { rewrite map_app. cbn [map fst]. apply NoDup_snoc; assumption. }
    destruct (IH _ _ H ND') as [E1 E2]. split.
    + rewrite E1, <- app_assoc. reflexivity.
    + rewrite map_app, <- app_assoc in E2. exact E2.
Qed.
Lemma sample_reg_none : forall cs pre, sample_reg pre cs = None -> ~ NoDup (map fst pre ++ map fst cs).
Proof.
  induction cs as [|c cs IH]; intros pre H ND; cbn [sample_reg] in H; [discriminate|].
  destruct (existsb (is_named (fst c)) pre) eqn:E.
  - apply existsb_named_true in E. cbn [map] in ND. apply NoDup_remove_2 in ND. apply ND.
    apply in_or_app. left. assumption.
  - apply (IH _ H). rewrite map_app, <- app_assoc. exact ND.
Qed.

Definition shape_of (samples : list (name * list (name * list N))) : shape :=
  map (fun s => (fst s, map fst (snd s))) samples.
Definition inputs_ok (samples : list (name * list (name * list N))) : Prop :=
  NoDup (map fst samples) /\ Forall (fun s => fst s <> [] /\ snd s <> []) samples.
Definition contig_names_ok (samples : list (name * list (name * list N))) : Prop :=
  Forall (fun s => NoDup (map fst (snd s))) samples.

Lemma pushes_of_cons s samples :
  pushes_of (s :: samples) = map (fun c => (fst s, fst c, snd c)) (snd s) ++ pushes_of samples.
Proof. reflexivity. Qed.

Lemma reg_samples ecn : forall samples (coll : collection),
  (forall s x, In s samples -> In x coll -> fst x <> fst s) -> inputs_ok samples ->
  (contig_names_ok samples ->
   register_all ecn coll (pushes_of samples) = Ok (coll ++ build (shape_of samples) (fun _ _ => []))) /\
  (~ contig_names_ok samples -> register_all ecn coll (pushes_of samples) = Err).
Proof.
  induction samples as [|s samples IH]; intros coll Hd [ND Hne].
  - split; [intros _; cbn; rewrite app_nil_r; reflexivity | intro H; exfalso; apply H; constructor].
  - destruct s as [sn cs]. cbn [map fst] in ND. inversion ND as [|? ? Hn ND']; subst.
    inversion Hne as [|? ? [Hs Hcs] Hne']; subst. cbn [fst snd] in Hs, Hcs.
    destruct cs as [|c0 cs]; [contradiction|].
    assert (Hc : forall x, In x coll -> fst x <> sn).
    { intros x Hx. apply (Hd (sn, c0 :: cs) x); [left; reflexivity | assumption]. }
    rewrite pushes_of_cons. cbn [fst snd map app]. rewrite reg_first by assumption.
    rewrite reg_cs by assumption.
    destruct (sample_reg [(fst c0, [])] cs) as [pre'|] eqn:Esr.
    + destruct (sample_reg_some _ _ _ Esr) as [Epre NDc]. { cbn. constructor; [intros []|constructor]. }
      assert (Hd' : forall s x, In s samples -> In x (coll ++ [(sn, pre')]) -> fst x <> fst s).
      { intros s x Hs' Hx. apply in_app_or in Hx. destruct Hx as [Hx|[<-|[]]].
        - apply (Hd s x); [right|]; assumption.
        - cbn [fst]. intro E. apply Hn. rewrite E. apply in_map. assumption. }
      destruct (IH (coll ++ [(sn, pre')]) Hd' (conj ND' Hne')) as [IH1 IH2].
      split.
      * intro Hok. inversion Hok as [|? ? Hok1 Hok2]; subst x l. etransitivity; [apply IH1; assumption|].
        f_equal. rewrite <- app_assoc. f_equal. cbn [shape_of build map fst snd app]. rewrite Epre.
        do 2 f_equal. cbn [map fst app]. f_equal. rewrite map_map. reflexivity.
      * intro Hbad. apply IH2. intro Hok. apply Hbad. constructor; [|assumption]. exact NDc.
    + split.
      * intro Hok. inversion Hok; subst. exfalso. apply (sample_reg_none _ _ Esr). assumption.
      * reflexivity.
Qed.

Lemma register_all_ok ecn samples coll : inputs_ok samples ->
  register_all ecn [] (pushes_of samples) = Ok coll ->
  contig_names_ok samples /\ coll = build (shape_of samples) (fun _ _ => []).
Proof.
  intros Hin H. destruct (reg_samples ecn samples [] (fun _ _ _ F => match F with end) Hin) as [H1 H2].
  assert (Hok : contig_names_ok samples).
  { unfold contig_names_ok. apply Forall_forall. intros s Hs.
    destruct (ListDec.NoDup_dec (list_eq_dec N.eq_dec) (map fst (snd s))) as [|Hbad]; [assumption|].
    exfalso. rewrite H2 in H; [discriminate|]. intro Hall. apply Hbad.
    unfold contig_names_ok in Hall. rewrite Forall_forall in Hall. apply Hall. assumption. }
  split; [assumption|]. rewrite H1 in H by assumption. inversion H. reflexivity.
Qed.

Lemma shape_of_ok samples : inputs_ok samples -> contig_names_ok samples -> shape_ok (shape_of samples).
Proof.
  intros [ND _] Hc. split.
  - unfold shape_of. rewrite map_map. cbn [fst]. exact ND.
  - unfold shape_of. apply Forall_map. cbn [snd]. exact Hc.
Qed.

(* ---------------------------------------------------------------- 6. reader and round trip *)
Section RoundTrip.
  Variable get : seg_desc -> outcome (list N).

  (* descriptor d yields forward piece x *)
  Definition reads (d : seg_desc) (x : list N) : Prop :=
    exists b, get d = Ok b /\ (if d_rc d then rcs b else b) = x.

  Lemma reconstruct_later k : forall ds xs, Forall2 reads ds xs -> Forall (fun y => k <= length y)%nat xs ->
    forall acc, reconstruct_loop get k false ds acc = Ok (acc ++ tails k xs).
  Proof.
    induction 1 as [|d x ds xs (b & Eg & Eb) _ IH]; intros Hl acc.
    - cbn. rewrite app_nil_r. reflexivity.
    - inversion Hl; subst. cbn [reconstruct_loop]. rewrite Eg. cbn [obnd].
      destruct (Nat.ltb_spec (length (if d_rc d then rcs b else b)) k); [lia|].
      rewrite IH by assumption. unfold tails. cbn [map concat]. rewrite app_assoc. reflexivity.
  Qed.

  Lemma reconstruct_spec k ds xs : Forall2 reads ds xs -> Forall (fun y => N.to_nat k <= length y)%nat (tl xs) ->
    reconstruct_contig get k ds = Ok (glue_pieces (N.to_nat k) xs).
  Proof.
    intros H Hl. unfold reconstruct_contig. destruct H as [|d x ds xs (b & Eg & Eb) H]; [reflexivity|].
    cbn [reconstruct_loop]. rewrite Eg. cbn [obnd app]. rewrite Eb. cbn [tl] in Hl.
    rewrite (reconstruct_later _ _ _ H Hl). reflexivity.
  Qed.

  Section OneContig.
    Variables (ecn : name -> name) (k : N) (spl : N -> bool) (segsize : N).
    Variables (dec : nat -> nat -> decision) (addr : nat -> nat -> N * N).

    Definition reg_of (i : nat) (s c : name) (pc : piece) : registration :=
      let (g, id) := addr i (p_part pc) in
      mkReg s c (p_part pc) (mkDesc g id (p_rc pc) (wrap32 (lenN (p_data pc)))) (p_data pc).

    Lemma reg_of_fields i s c pc :
      r_sample (reg_of i s c pc) = s /\ r_contig (reg_of i s c pc) = c /\ r_place (reg_of i s c pc) = p_part pc /\
      d_rc (r_desc (reg_of i s c pc)) = p_rc pc /\ r_data (reg_of i s c pc) = p_data pc.
    Proof. unfold reg_of. destruct (addr i (p_part pc)). cbn. auto. Qed.

    Lemma contig_regs_eq i s c data :
      contig_regs k spl segsize dec addr i (s, c, data) =
      obnd (contig_pieces (N.to_nat k) (split_gen true data spl k) (dec i) 0 0)
           (fun ps => Ok (map (reg_of i s c) ps)).
    Proof. reflexivity. Qed.

    (* one contig: whatever the arrival order of its registrations, the reader rebuilds the input *)
    Lemma contig_roundtrip i s c data rs L : 1 <= k <= 32 ->
      decs_ok (N.to_nat k) (split_gen true data spl k) (dec i) 0 ->
      contig_regs k spl segsize dec addr i (s, c, data) = Ok rs ->
      (forall r, In r rs -> get (r_desc r) = Ok (r_data r)) ->
      Permutation (map (fun r => (r_place r, r_desc r)) rs) L ->
      reconstruct_contig get k (place_list [] L) = Ok data.
    Proof.
      intros Hk Hd E Hget P. rewrite contig_regs_eq in E.
      assert (Hk' : (1 <= N.to_nat k)%nat) by lia.
      destruct (contig_pieces_spec _ (dec i) Hk' _ 0%nat 0%nat Hd) as (ps & ps' & Ep & Pp & Np & Up).
      rewrite Ep in E. cbn [obnd] in E. inversion E; subst rs; clear E.
      set (pd := fun r => (r_place r, r_desc r)) in *.
      assert (PL : Permutation L (map pd (map (reg_of i s c) ps'))).
      { eapply Permutation_trans; [apply Permutation_sym; exact P|]. do 2 apply Permutation_map. exact Pp. }
      rewrite (place_perm_dense _ _ PL).
      2:{ rewrite !map_map, !map_length. rewrite <- Np. apply map_ext. intro pc.
          unfold pd. cbn [fst]. apply reg_of_fields. }
      destruct (contig_glue_proof true data spl k (dec i) Hk Hd) as (x & r & Ef & Eg & Hl).
      rewrite (reconstruct_spec k _ (map unorient ps')).
      - rewrite Up, Ef. cbn [glue_pieces]. rewrite Eg. reflexivity.
      - rewrite !map_map. clear PL Np Up. assert (Hin : forall pc, In pc ps' -> In pc ps).
        { intros pc H. apply (Permutation_in _ (Permutation_sym Pp)). assumption. }
        clear Pp. induction ps' as [|pc ps' IH]; [constructor|]. cbn [map]. constructor.
        + exists (p_data pc). unfold pd. cbn [snd].
          destruct (reg_of_fields i s c pc) as (_ & _ & _ & Erc & Edata). rewrite Erc. split; [|reflexivity].
          rewrite <- Edata. apply Hget. apply in_map. apply Hin. left. reflexivity.
        + apply IH. intros pc' H. apply Hin. right. assumption.
      - rewrite Up, Ef. cbn [tl]. exact Hl.
    Qed.
  End OneContig.
End RoundTrip.

(* ---- which registrations belong to which contig *)
Definition key_of (p : push) : name * name := (fst (fst p), snd (fst p)).

Lemma Permutation_filter {A} (f : A -> bool) l l' : Permutation l l' -> Permutation (filter f l) (filter f l').
Proof.
  induction 1 as [|x l l' P IH|x y l|l l' l'' P1 IH1 P2 IH2]; cbn.
  - constructor.
  - destruct (f x); [constructor|]; assumption.
  - destruct (f x), (f y); try apply Permutation_refl. apply perm_swap.
  - eapply Permutation_trans; eassumption.
Qed.

Lemma sel_perm ecn s c rs rs' : Permutation rs rs' -> Permutation (sel ecn s c rs) (sel ecn s c rs').
Proof. intro P. unfold sel. apply Permutation_map. apply Permutation_filter. assumption. Qed.
Lemma sel_app ecn s c a b : sel ecn s c (a ++ b) = sel ecn s c a ++ sel ecn s c b.
Proof. unfold sel. rewrite filter_app, map_app. reflexivity. Qed.

Lemma sel_all ecn s c rs : s <> [] -> (forall r, In r rs -> r_sample r = s /\ r_contig r = c) ->
  sel ecn s c rs = map (fun r => (r_place r, r_desc r)) rs.
Proof.
  intros Hs H. unfold sel. f_equal. induction rs as [|r rs IH]; [reflexivity|]. cbn [filter].
  destruct (H r (or_introl eq_refl)) as [E1 E2]. rewrite E1, E2, stored_name_nonempty by assumption.
  rewrite !name_eqb_refl. cbn [andb]. f_equal. apply IH. intros; apply H; right; assumption.
Qed.
Lemma sel_none ecn s c rs : (forall r, In r rs -> r_sample r <> [] /\ (r_sample r, r_contig r) <> (s, c)) ->
  sel ecn s c rs = [].
Proof.
  intro H. unfold sel. induction rs as [|r rs IH]; [reflexivity|]. cbn [filter].
  destruct (H r (or_introl eq_refl)) as [E1 E2]. rewrite stored_name_nonempty by assumption.
  destruct (name_eqb s (r_sample r)) eqn:Es, (name_eqb c (r_contig r)) eqn:Ec; cbn [andb];
    try (apply IH; intros; apply H; right; assumption).
  apply name_eqb_eq in Es, Ec. subst. exfalso. apply E2. reflexivity.
Qed.

Section AllRegs.
  Variables (ecn : name -> name) (k : N) (spl : N -> bool) (segsize : N).
  Variables (dec : nat -> nat -> decision) (addr : nat -> nat -> N * N).

  Lemma contig_regs_names i s c data rs : contig_regs k spl segsize dec addr i (s, c, data) = Ok rs ->
    forall r, In r rs -> r_sample r = s /\ r_contig r = c.
  Proof.
    rewrite contig_regs_eq. destruct (contig_pieces _ _ _ _ _) as [ps| |]; cbn [obnd]; try discriminate.
    intro E. inversion E; subst. intros r Hr. apply in_map_iff in Hr. destruct Hr as (pc & <- & _).
    destruct (reg_of_fields addr i s c pc) as (E1 & E2 & _). auto.
  Qed.

  Lemma all_regs_names : forall pushes i regs, all_regs k spl segsize dec addr i pushes = Ok regs ->
    forall r, In r regs -> exists p, In p pushes /\ key_of p = (r_sample r, r_contig r).
  Proof.
    induction pushes as [|p pushes IH]; intros i regs E r Hr; cbn [all_regs] in E.
    - inversion E; subst. contradiction.
    - destruct (contig_regs k spl segsize dec addr i p) as [rs0| |] eqn:E0; cbn [obnd] in E; try discriminate.
      destruct (all_regs k spl segsize dec addr (S i) pushes) as [more| |] eqn:E1; cbn [obnd] in E; try discriminate.
      inversion E; subst. apply in_app_or in Hr. destruct Hr as [Hr|Hr].
      + exists p. split; [left; reflexivity|]. destruct p as [[s c] data].
        destruct (contig_regs_names _ _ _ _ _ E0 r Hr) as [-> ->]. reflexivity.
      + destruct (IH _ _ E1 r Hr) as (p' & Hp' & Ek). exists p'. split; [right|]; assumption.
  Qed.

  Lemma all_regs_sel : forall pushes i regs, all_regs k spl segsize dec addr i pushes = Ok regs ->
    NoDup (map key_of pushes) -> (forall p, In p pushes -> fst (fst p) <> []) ->
    forall j s c data, nth_error pushes j = Some (s, c, data) ->
    exists rs, contig_regs k spl segsize dec addr (i + j) (s, c, data) = Ok rs /\
               sel ecn s c regs = map (fun r => (r_place r, r_desc r)) rs /\
               (forall r, In r rs -> In r regs).
  Proof.
    induction pushes as [|p pushes IH]; intros i regs E ND Hne j s c data Hj; [destruct j; discriminate|].
    cbn [all_regs] in E.
    destruct (contig_regs k spl segsize dec addr i p) as [rs0| |] eqn:E0; cbn [obnd] in E; try discriminate.
    destruct (all_regs k spl segsize dec addr (S i) pushes) as [more| |] eqn:E1; cbn [obnd] in E; try discriminate.
    inversion E; subst regs; clear E. cbn [map] in ND. inversion ND as [|? ? Hn ND']; subst.
    destruct j as [|j]; cbn [nth_error] in Hj.
    - inversion Hj; subst p. exists rs0. rewrite Nat.add_0_r. split; [assumption|]. split.
      + rewrite sel_app. rewrite (sel_all ecn s c rs0).
        * rewrite (sel_none ecn s c more); [apply app_nil_r|].
          intros r Hr. destruct (all_regs_names _ _ _ E1 r Hr) as (p' & Hp' & Ek). split.
          -- injection Ek as E2 E3. rewrite <- E2. apply Hne. right. assumption.
          -- intro Eq. apply Hn.
             assert (Ek' : key_of p' = key_of (s, c, data)) by (rewrite Ek, Eq; reflexivity).
             rewrite <- Ek'. apply in_map. assumption.
        * apply (Hne (s, c, data)). left. reflexivity.
        * apply (contig_regs_names _ _ _ _ _ E0).
      + intros r Hr. apply in_or_app. left. assumption.
    - destruct (IH (S i) more E1 ND' (fun p' H => Hne p' (or_intror H)) j s c data Hj) as (rs & Er & Es & Hin).
      exists rs. replace (i + S j)%nat with (S i + j)%nat by lia. split; [assumption|]. split.
      + rewrite sel_app, Es. rewrite (sel_none ecn s c rs0); [reflexivity|].
        intros r Hr. destruct p as [[s0 c0] data0].
        destruct (contig_regs_names _ _ _ _ _ E0 r Hr) as [-> ->]. split.
        * apply (Hne (s0, c0, data0)). left. reflexivity.
        * intro Eq. injection Eq as E2 E3. subst s0 c0. apply Hn.
          replace (key_of (s, c, data0)) with (key_of (s, c, data)) by reflexivity. apply in_map.
          apply nth_error_In with j. assumption.
      + intros r Hr. apply in_or_app. right. apply Hin. assumption.
  Qed.
End AllRegs.

(* ---- the push list of a well-formed sample set *)
Lemma NoDup_app_intro {A} (a b : list A) : NoDup a -> NoDup b -> (forall x, In x a -> ~ In x b) -> NoDup (a ++ b).
Proof.
  induction a as [|x a IH]; intros Ha Hb Hd; [assumption|]. inversion Ha; subst. cbn. constructor.
  - intro H. apply in_app_or in H. destruct H; [contradiction|]. apply (Hd x); [left; reflexivity | assumption].
  - apply IH; try assumption. intros y Hy. apply Hd. right. assumption.
Qed.

Lemma pushes_keys samples : forall p, In p (pushes_of samples) ->
  exists s c, In s samples /\ In c (snd s) /\ p = (fst s, fst c, snd c).
Proof.
  intros p H. unfold pushes_of in H. apply in_flat_map in H. destruct H as (s & Hs & H).
  apply in_map_iff in H. destruct H as (c & <- & Hc). exists s, c. auto.
Qed.

Lemma pushes_nodup samples : NoDup (map fst samples) -> contig_names_ok samples ->
  NoDup (map key_of (pushes_of samples)).
Proof.
  induction samples as [|s samples IH]; intros ND Hc; [constructor|].
  cbn [map] in ND. inversion ND as [|? ? Hn ND']; subst. inversion Hc as [|? ? Hc1 Hc2]; subst.
  rewrite pushes_of_cons, map_app. apply NoDup_app_intro.
  - rewrite map_map. unfold key_of. cbn [fst snd].
    clear - Hc1. induction (snd s) as [|c cs IHc]; [constructor|]. cbn [map] in *. inversion Hc1; subst.
    constructor; [|apply IHc; assumption]. intro H. apply in_map_iff in H. destruct H as (c' & E & Hc').
    injection E as E. apply H1. rewrite <- E. apply in_map. assumption.
  - apply IH; assumption.
  - intros x Hx Hx'. apply in_map_iff in Hx. destruct Hx as (p & <- & Hp).
    apply in_map_iff in Hp. destruct Hp as (c & <- & Hcin).
    apply in_map_iff in Hx'. destruct Hx' as (p' & E & Hp'). apply pushes_keys in Hp'.
    destruct Hp' as (s' & c' & Hs' & _ & ->). unfold key_of in E. cbn [fst snd] in E. injection E as E _.
    apply Hn. rewrite <- E. apply in_map. assumption.
Qed.

Lemma pushes_nonempty samples : inputs_ok samples -> forall p, In p (pushes_of samples) -> fst (fst p) <> [].
Proof.
  intros [_ H] p Hp. apply pushes_keys in Hp. destruct Hp as (s & c & Hs & _ & ->). cbn [fst].
  rewrite Forall_forall in H. apply (H s Hs).
Qed.

(* ---- reading the catalogue back *)
Lemma find_build sh V s0 : NoDup (map fst sh) -> In s0 sh ->
  find (is_named (fst s0)) (build sh V) = Some (fst s0, map (fun c => (c, V (fst s0) c)) (snd s0)).
Proof.
  induction sh as [|x sh IH]; intros ND Hin; [contradiction|].
  cbn [map] in ND. inversion ND as [|? ? Hn ND']; subst. cbn [build map find]. unfold is_named at 1. cbn [fst].
  destruct (name_eqb (fst x) (fst s0)) eqn:E.
  - apply name_eqb_eq in E. destruct Hin as [->|Hin]; [reflexivity|].
    exfalso. apply Hn. rewrite E. apply in_map. assumption.
  - destruct Hin as [->|Hin]; [rewrite name_eqb_refl in E; discriminate|]. apply IH; assumption.
Qed.

Section Extract.
  Variable get : seg_desc -> outcome (list N).
  Lemma reconstruct_all_ok k (V : name -> name -> list seg_desc) (sn : name) : forall cs : list (name * list N),
    (forall c, In c cs -> reconstruct_contig get k (V sn (fst c)) = Ok (snd c)) ->
    reconstruct_all get k (map (fun c => (c, V sn c)) (map fst cs)) = Ok cs.
  Proof.
    induction cs as [|c cs IH]; intro H; [reflexivity|]. cbn [map reconstruct_all].
    rewrite (H c (or_introl eq_refl)). cbn [obnd]. rewrite IH by (intros; apply H; right; assumption).
    cbn [obnd]. destruct c; reflexivity.
  Qed.
  Lemma extract_samples_ok k coll : forall samples : list (name * list (name * list N)),
    (forall s, In s samples -> get_sample get k coll (fst s) = Ok (snd s)) ->
    extract_samples get k coll (map fst samples) = Ok samples.
  Proof.
    induction samples as [|s samples IH]; intro H; [reflexivity|]. cbn [map extract_samples].
    rewrite (H s (or_introl eq_refl)). cbn [obnd]. rewrite IH by (intros; apply H; right; assumption).
    cbn [obnd]. destruct s; reflexivity.
  Qed.
End Extract.

(* what find_split_by_cost guarantees, for every raw segment of every pushed contig *)
Definition decisions_ok (k : N) (spl : N -> bool) (segsize : N) (dec : nat -> nat -> decision)
           (pushes : list push) : Prop :=
  forall i s c data j sg, nth_error pushes i = Some (s, c, data) ->
    nth_error (split_at_splitters_with_size data spl k segsize) j = Some sg ->
    decision_okb (N.to_nat k) sg (dec i j) = true.

Lemma create_extract_roundtrip_proof :
  forall ecn get k spl segsize dec addr sched samples coll stored,
  1 <= k <= 32 ->
  inputs_ok samples ->
  decisions_ok k spl segsize dec (pushes_of samples) ->
  (forall l, Permutation l (sched l)) ->
  create ecn k spl segsize dec addr sched (pushes_of samples) = Ok (coll, stored) ->
  stored_ok get stored ->
  contig_names_ok samples /\ extract_all get k coll = Ok samples.
Proof.
  intros ecn get k spl segsize dec addr sched samples coll stored Hk Hin Hdec Hsched Hc Hst.
  unfold create in Hc.
  destruct (register_all ecn [] (pushes_of samples)) as [coll0| |] eqn:Er; cbn [obnd] in Hc; try discriminate.
  destruct (all_regs k spl segsize dec addr 0 (pushes_of samples)) as [regs| |] eqn:Ea; cbn [obnd] in Hc;
    try discriminate.
  inversion Hc; subst coll stored; clear Hc.
  destruct (register_all_ok ecn samples coll0 Hin Er) as [Hnames ->]. split; [assumption|].
  pose proof (shape_of_ok samples Hin Hnames) as Hsh.
  rewrite (place_all_build ecn _ Hsh).
  unfold extract_all, list_samples.
  assert (Enames : map fst (build (shape_of samples) (fun s c => place_list [] (sel ecn s c (sched regs))))
                   = map fst samples).
  { unfold build, shape_of. rewrite !map_map. reflexivity. }
  rewrite Enames. apply extract_samples_ok. intros s Hs.
  unfold get_sample.
  assert (Hs' : In (fst s, map fst (snd s)) (shape_of samples)).
  { unfold shape_of. apply in_map_iff. exists s. auto. }
  rewrite (find_build _ _ (fst s, map fst (snd s)) (proj1 Hsh) Hs'). cbn [fst snd].
  apply (reconstruct_all_ok get k (fun s c => place_list [] (sel ecn s c (sched regs))) (fst s)). intros c Hcin.
  (* the push of this contig *)
  assert (Hp : In (fst s, fst c, snd c) (pushes_of samples)).
  { unfold pushes_of. apply in_flat_map. exists s. split; [assumption|]. apply in_map_iff. exists c. auto. }
  apply In_nth_error in Hp. destruct Hp as [j Hj].
  destruct (all_regs_sel ecn k spl segsize dec addr _ _ _ Ea (pushes_nodup _ (proj1 Hin) Hnames)
                         (pushes_nonempty _ Hin) j _ _ _ Hj) as (rs & Ers & Esel & Hrs).
  cbn [Nat.add] in Ers.
  apply (contig_roundtrip get ecn k spl segsize dec addr j (fst s) (fst c) (snd c) rs); try assumption.
  - intros i sg Hsg. rewrite Nat.add_0_l. apply (Hdec j (fst s) (fst c) (snd c) i sg Hj). exact Hsg.
  - intros r Hr. apply (Hst (r_desc r) (r_data r)). apply in_map_iff. exists r. split; [reflexivity|].
    apply Hrs. assumption.
  - rewrite <- Esel. apply sel_perm. apply Hsched.
Qed.

(* a repeated contig name in a sample: create fails *)
Lemma duplicate_name_rejected_proof :
  forall ecn k spl segsize dec addr sched samples,
  inputs_ok samples -> ~ contig_names_ok samples ->
  create ecn k spl segsize dec addr sched (pushes_of samples) = Err.
Proof.
  intros ecn k spl segsize dec addr sched samples Hin Hbad. unfold create.
  destruct (reg_samples ecn samples [] (fun _ _ _ F => match F with end) Hin) as [_ H2].
  rewrite (H2 Hbad). reflexivity.
Qed.

(* ---- statements pinned in props/C01.v that combine the lemmas above *)
Lemma split_overlap_proof : forall k s o pos lf rf n, (1 <= k)%nat ->
  decision_okb k s (Split o pos lf rf) = true ->
  exists ps pa pb,
    seg_pieces k s (Split o pos lf rf) n = Ok ps /\ Permutation ps [pa; pb] /\
    p_part pa = n /\ p_part pb = S n /\
    (k < length (unorient pa))%nat /\ (k < length (unorient pb))%nat /\
    unorient pa ++ skipn k (unorient pb) = sdata s /\
    firstn k (unorient pb) = lastn k (unorient pa).
Proof.
  intros k s o pos lf rf n Hk Hd.
  destruct (seg_pieces_ok k s _ n Hk Hd) as (ps & E).
  destruct (seg_pieces_spec _ _ _ _ _ E) as (ps' & P & Np & Up).
  destruct (split_fwd k s o pos lf rf Hk Hd) as (A & B & Ef & HA & HB & Hg & Ho).
  rewrite Ef in Up. cbn [part_incr seq] in Np.
  destruct ps' as [|pa [|pb [|? ?]]]; try discriminate.
  cbn [map] in Np, Up. inversion Np. inversion Up. subst.
  exists ps, pa, pb. repeat split; assumption.
Qed.

Lemma orient_ok_proof : forall k s d n ps, seg_pieces k s d n = Ok ps ->
  exists ps', Permutation ps ps' /\ map p_part ps' = seq n (part_incr d) /\ map unorient ps' = seg_fwd k s d.
Proof. exact seg_pieces_spec. Qed.

Lemma placement_order_irrelevant_proof : forall (L L' : list (nat * seg_desc)),
  Permutation L L' -> map fst L' = seq 0 (length L') ->
  fold_left (fun v x => place_at v (fst x) (snd x)) L [] = map snd L'.
Proof. exact place_perm_dense. Qed.

Lemma reassemble_proof :
  forall get k spl segsize dec addr i s c data rs L, 1 <= k <= 32 ->
  (forall j sg, nth_error (split_at_splitters_with_size data spl k segsize) j = Some sg ->
                decision_okb (N.to_nat k) sg (dec i j) = true) ->
  contig_regs k spl segsize dec addr i (s, c, data) = Ok rs ->
  (forall r, In r rs -> get (r_desc r) = Ok (r_data r)) ->
  Permutation (map (fun r => (r_place r, r_desc r)) rs) L ->
  reconstruct_contig get k (fold_left (fun v x => place_at v (fst x) (snd x)) L []) = Ok data.
Proof.
  intros get k spl segsize dec addr i s c data rs L Hk Hd E Hg P.
  apply (contig_roundtrip get (fun x => x) k spl segsize dec addr i s c data rs L); assumption.
Qed.
