(* Pipeline_proofs.v — lemmas for C01 (contig level; model: Pipeline.v).  Structure:
     1. the three reverse-complement tables agree and are involutive (the obligations a regression of
        reverse_complement_sequence breaks); sequence-level consequences
     2. split_segment_at_position under decisions_ok: both halves longer than k, overlap exactly k
     3. one raw segment: the pieces, un-oriented and put in part order, are the forward pieces [seg_fwd]
     4. one contig: part numbers are dense; the forward pieces glue back to the contig (uses C10)
     5. the catalogue: placement in any order, register_all, a repeated name is rejected
     6. the reader, and create ; extract_all = the sample set *)
From Coq Require Import Lia ZifyBool ZifyN ZifyNat Permutation.
From Ragc Require Import Mach Consts_kmer Consts_segment Consts_pipeline Kmer Segment Segment_proofs Pipeline.
Open Scope N_scope.
Arguments N.add : simpl never. Arguments N.sub : simpl never. Arguments N.mul : simpl never.
Arguments N.shiftl : simpl never. Arguments N.shiftr : simpl never. Arguments N.land : simpl never.
Arguments N.lor : simpl never. Arguments N.modulo : simpl never. Arguments N.div : simpl never.
Arguments N.pow : simpl never.
Ltac Zify.zify_post_hook ::= Z.div_mod_to_equations.

(* ---------------------------------------------------------------- 1. the tables *)
Lemma rc_seq_tab_eq : rc_seq_tab = rc_dec_tab.
Proof. vm_compute. reflexivity. Qed.
Lemma rc_pre_tab_eq : rc_pre_tab = rc_dec_tab.
Proof. vm_compute. reflexivity. Qed.

Lemma rc_seq_eq_rc_dec_proof : forall x, rc_seq x = rc_dec x.
Proof. intro x. unfold rc_seq, rc_dec. rewrite rc_seq_tab_eq. reflexivity. Qed.
Lemma rc_pre_eq_rc_dec_proof : forall x, rc_pre x = rc_dec x.
Proof. intro x. unfold rc_pre, rc_dec. rewrite rc_pre_tab_eq. reflexivity. Qed.

Lemma rc_dec_tab_len : length rc_dec_tab = 256%nat.
Proof. vm_compute. reflexivity. Qed.
Lemma rc_dec_tab_invol :
  forallb (fun i => nth (N.to_nat (nth i rc_dec_tab (N.of_nat i))) rc_dec_tab (nth i rc_dec_tab (N.of_nat i))
                    =? N.of_nat i) (seq 0 256) = true.
Proof. vm_compute. reflexivity. Qed.

Lemma rc_dec_involutive_proof : forall x, rc_dec (rc_dec x) = x.
Proof.
  intro x. unfold rc_dec.
  destruct (Nat.lt_ge_cases (N.to_nat x) 256) as [H|H].
  - pose proof rc_dec_tab_invol as F. rewrite forallb_forall in F.
    specialize (F (N.to_nat x)). rewrite in_seq in F. specialize (F ltac:(lia)).
    rewrite N2Nat.id in F. apply N.eqb_eq in F. exact F.
  - rewrite (nth_overflow rc_dec_tab x) by (rewrite rc_dec_tab_len; lia).
    rewrite (nth_overflow rc_dec_tab x) by (rewrite rc_dec_tab_len; lia). reflexivity.
Qed.

(* sequence level: [rcs] is the decompressor's function; the two writer-side functions equal it *)
Notation rcs := reverse_complement_segment.

Lemma data_rc_of_eq l : data_rc_of l = rcs l.
Proof. unfold data_rc_of, rcs. apply map_ext. exact rc_pre_eq_rc_dec_proof. Qed.
Lemma rc_sequence_eq l : reverse_complement_sequence l = rcs l.
Proof. unfold reverse_complement_sequence, rcs. apply map_ext. exact rc_seq_eq_rc_dec_proof. Qed.

Lemma rcs_length l : length (rcs l) = length l.
Proof. unfold rcs. rewrite map_length, rev_length. reflexivity. Qed.
Lemma rcs_app a b : rcs (a ++ b) = rcs b ++ rcs a.
Proof. unfold rcs. rewrite rev_app_distr, map_app. reflexivity. Qed.
Lemma rcs_invol l : rcs (rcs l) = l.
Proof.
  unfold rcs. rewrite <- map_rev, rev_involutive, map_map.
  rewrite <- (map_id l) at 2. apply map_ext. exact rc_dec_involutive_proof.
Qed.

Lemma rcs_firstn n l : (n <= length l)%nat -> rcs (firstn n l) = skipn (length l - n) (rcs l).
Proof.
  intro H. rewrite <- (firstn_skipn n l) at 3. rewrite rcs_app.
  rewrite skipn_app. rewrite rcs_length, skipn_length.
  replace (length l - n - (length l - n))%nat with 0%nat by lia. cbn [skipn].
  rewrite skipn_all2 by (rewrite rcs_length, skipn_length; lia). reflexivity.
Qed.
Lemma rcs_skipn n l : (n <= length l)%nat -> rcs (skipn n l) = firstn (length l - n) (rcs l).
Proof.
  intro H. rewrite <- (firstn_skipn n l) at 3. rewrite rcs_app.
  rewrite firstn_app. rewrite rcs_length, skipn_length.
  replace (length l - n - (length l - n))%nat with 0%nat by lia. cbn [firstn]. rewrite app_nil_r.
  rewrite firstn_all2 by (rewrite rcs_length, skipn_length; lia). reflexivity.
Qed.

(* ---------------------------------------------------------------- 2. the split *)
Lemma half_ceil_bounds k : (1 <= k)%nat -> (1 <= half_ceil k <= k)%nat.
Proof. intro H. unfold half_ceil. split.
  - apply Nat.div_le_lower_bound; lia.
  - apply Nat.div_le_upper_bound; lia. Qed.

(* decisions_ok for one split position *)
Definition pos_ok (k len pos : nat) : Prop := (split_min_size k <= pos /\ pos + split_min_size k <= len)%nat.

Lemma split_ok sd pos k : (1 <= k)%nat -> pos_ok k (length sd) pos ->
  let s2 := (pos - half_ceil k)%nat in
  split_segment_at_position sd pos k = Ok (firstn (s2 + k) sd, skipn s2 sd) /\
  (1 <= s2)%nat /\ (s2 + k < length sd)%nat.
Proof.
  intros Hk [H1 H2] s2. unfold split_min_size in *. pose proof (half_ceil_bounds k Hk) as Hh.
  unfold split_segment_at_position. fold s2.
  assert (1 <= s2)%nat by (unfold s2; lia). assert (s2 + k < length sd)%nat by (unfold s2; lia).
  destruct (Nat.ltb_spec (length sd) s2); [lia|].
  destruct (Nat.ltb_spec (length sd) (s2 + k)); [lia|]. auto.
Qed.

Lemma firstn_skipn_glue {A} (l : list A) a k : (k <= a)%nat ->
  firstn a l ++ skipn k (skipn (a - k) l) = l.
Proof.
  intro H. rewrite skipn_skipn. replace (a - k + k)%nat with a by lia. apply firstn_skipn.
Qed.

Lemma firstn_lastn_overlap {A} (l : list A) a k : (k <= a <= length l)%nat ->
  firstn k (skipn (a - k) l) = lastn k (firstn a l).
Proof.
  intros H. unfold lastn. rewrite firstn_length_le by lia.
  rewrite <- (firstn_skipn (a - k) (firstn a l)) at 1.
  assert (E : skipn (a - k) (firstn a l) = firstn k (skipn (a - k) l)).
  { rewrite skipn_firstn_comm. f_equal. lia. }
  rewrite E. rewrite skipn_app.
  rewrite firstn_length, firstn_length_le by lia.
  rewrite (skipn_all2 (firstn (a - k) (firstn a l))) by (rewrite firstn_length, firstn_length_le; lia).
  replace (a - k - Nat.min (a - k) a)%nat with 0%nat by lia. reflexivity.
Qed.

(* ---------------------------------------------------------------- 3. one raw segment *)
(* what the reader makes of a stored piece *)
Definition unorient (p : piece) : list N := if p_rc p then rcs (p_data p) else p_data p.

(* the forward pieces of a raw segment, in forward (= part number) order *)
Definition seg_fwd (k : nat) (s : segment) (d : decision) : list (list N) :=
  let data := sdata s in
  match d with
  | Split o pos _ _ =>
      let s2 := (pos - half_ceil k)%nat in
      if should_reverse s o
      then [firstn (length data - s2) data; skipn (length data - (s2 + k)) data]
      else [firstn (s2 + k) data; skipn s2 data]
  | _ => [data]
  end.

Lemma unorient_orient n f sr x :
  unorient (mkPiece n f (if xorb f sr then reverse_complement_sequence x else x)) = if sr then rcs x else x.
Proof.
  unfold unorient; cbn [p_rc p_data]. rewrite (rc_sequence_eq x).
  destruct f, sr; cbn [xorb]; rewrite ?rcs_invol; reflexivity.
Qed.

Lemma segment_data_fwd s o : (if should_reverse s o then rcs (if should_reverse s o then data_rc_of (sdata s) else sdata s)
                              else (if should_reverse s o then data_rc_of (sdata s) else sdata s)) = sdata s.
Proof. destruct (should_reverse s o); [rewrite (data_rc_of_eq (sdata s)), rcs_invol|]; reflexivity. Qed.

Lemma split_inv sd pos k l r : split_segment_at_position sd pos k = Ok (l, r) ->
  let s2 := (pos - half_ceil k)%nat in
  l = firstn (s2 + k) sd /\ r = skipn s2 sd /\ (s2 + k <= length sd)%nat.
Proof.
  intros H s2. unfold split_segment_at_position in H. fold s2 in H. cbv zeta in H.
  destruct (Nat.ltb_spec (length sd) s2); [discriminate|].
  destruct (Nat.ltb_spec (length sd) (s2 + k)); [discriminate|]. inversion H. auto.
Qed.

(* orientation: whenever the writer produced pieces, un-orienting them and putting them in part order gives
   the forward pieces *)
Lemma seg_pieces_spec k s d n ps : seg_pieces k s d n = Ok ps ->
  exists ps', Permutation ps ps' /\ map p_part ps' = seq n (part_incr d) /\ map unorient ps' = seg_fwd k s d.
Proof.
  unfold seg_pieces. destruct d as [o|o pos lf rf|o f|o f]; cbn [dec_o part_incr seg_fwd].
  - intro H. inversion H; subst. eexists; split; [apply Permutation_refl|]. split; [reflexivity|].
    cbn [map]. unfold unorient; cbn [p_rc p_data]. f_equal. apply segment_data_fwd.
  - set (sr := should_reverse s o).
    set (sd := if sr then data_rc_of (sdata s) else sdata s).
    destruct (split_segment_at_position sd pos k) as [[l r]| |] eqn:E; try discriminate.
    apply split_inv in E. destruct E as (El & Er & Hle).
    set (s2 := (pos - half_ceil k)%nat) in *.
    assert (Hlen : length sd = length (sdata s)).
    { unfold sd. destruct sr; [rewrite (data_rc_of_eq (sdata s)), rcs_length|]; reflexivity. }
    destruct sr eqn:Esr; intro H; inversion H; subst ps; clear H.
    + (* reversed: the code's left half is the forward suffix and carries part n + 1 *)
      eexists. split; [apply perm_swap|]. split; [reflexivity|].
      cbn [map]. rewrite !unorient_orient.
      assert (Esd : sd = rcs (sdata s)) by (unfold sd; apply data_rc_of_eq).
      rewrite Er, El, Esd.
      rewrite rcs_skipn by (rewrite rcs_length; lia). rewrite rcs_firstn by (rewrite rcs_length; lia).
      rewrite rcs_invol, rcs_length. reflexivity.
    + eexists. split; [apply Permutation_refl|]. split; [reflexivity|].
      cbn [map]. rewrite !unorient_orient. rewrite El, Er. reflexivity.
  - intro H. inversion H; subst. eexists; split; [apply Permutation_refl|]. split; [reflexivity|].
    cbn [map]. rewrite unorient_orient. f_equal. apply segment_data_fwd.
  - intro H. inversion H; subst. eexists; split; [apply Permutation_refl|]. split; [reflexivity|].
    cbn [map]. rewrite unorient_orient. f_equal. apply segment_data_fwd.
Qed.

(* under decisions_ok the writer does not panic *)
Lemma seg_pieces_ok k s d n : (1 <= k)%nat -> decision_okb k s d = true -> exists ps, seg_pieces k s d n = Ok ps.
Proof.
  intros Hk Hd. unfold seg_pieces. destruct d as [o|o pos lf rf|o f|o f]; cbn [dec_o]; try (eexists; reflexivity).
  cbn [decision_okb] in Hd. apply andb_prop in Hd. destruct Hd as [H1 H2].
  apply Nat.leb_le in H1, H2.
  set (sd := if should_reverse s o then data_rc_of (sdata s) else sdata s).
  assert (Hlen : length sd = length (sdata s)).
  { unfold sd. destruct (should_reverse s o); [rewrite (data_rc_of_eq (sdata s)), rcs_length|]; reflexivity. }
  destruct (split_ok sd pos k Hk) as (E & _). { unfold pos_ok. rewrite Hlen. auto. }
  rewrite E. destruct (should_reverse s o); eexists; reflexivity.
Qed.

(* the split: both forward halves are longer than k and overlap in exactly k symbols *)
Lemma split_fwd k s o pos lf rf : (1 <= k)%nat -> decision_okb k s (Split o pos lf rf) = true ->
  exists A B, seg_fwd k s (Split o pos lf rf) = [A; B] /\
    (k < length A)%nat /\ (k < length B)%nat /\ A ++ skipn k B = sdata s /\ firstn k B = lastn k A.
Proof.
  intros Hk Hd. cbn [decision_okb] in Hd. apply andb_prop in Hd. destruct Hd as [H1 H2].
  apply Nat.leb_le in H1, H2. unfold split_min_size in *. pose proof (half_ceil_bounds k Hk) as Hh.
  cbn [seg_fwd]. set (s2 := (pos - half_ceil k)%nat). set (data := sdata s) in *.
  assert (1 <= s2)%nat by (unfold s2; lia). assert (s2 + k < length data)%nat by (unfold s2; lia).
  destruct (should_reverse s o).
  - exists (firstn (length data - s2) data), (skipn (length data - (s2 + k)) data).
    split; [reflexivity|]. rewrite firstn_length_le, skipn_length by lia.
    split; [lia|]. split; [lia|].
    replace (length data - (s2 + k))%nat with (length data - s2 - k)%nat by lia.
    split; [apply firstn_skipn_glue; lia | apply firstn_lastn_overlap; lia].
  - exists (firstn (s2 + k) data), (skipn s2 data).
    split; [reflexivity|]. rewrite firstn_length_le, skipn_length by lia.
    split; [lia|]. split; [lia|].
    pose proof (firstn_skipn_glue data (s2 + k) k ltac:(lia)) as G1.
    pose proof (firstn_lastn_overlap data (s2 + k) k ltac:(lia)) as G2.
    replace (s2 + k - k)%nat with s2 in G1, G2 by lia. split; assumption.
Qed.

(* head whole, the rest minus k: what the reader's loop computes from the forward pieces *)
Definition tails (k : nat) (l : list (list N)) : list N := concat (map (skipn k) l).
Definition glue_pieces (k : nat) (l : list (list N)) : list N :=
  match l with [] => [] | x :: r => x ++ tails k r end.

Lemma tails_app k a b : tails k (a ++ b) = tails k a ++ tails k b.
Proof. unfold tails. rewrite map_app, concat_app. reflexivity. Qed.

Lemma seg_fwd_glue k s d : (1 <= k)%nat -> decision_okb k s d = true ->
  exists x r, seg_fwd k s d = x :: r /\ x ++ tails k r = sdata s /\
              Forall (fun y => k <= length y)%nat r /\
              ((k <= length (sdata s))%nat -> (k <= length x)%nat /\ tails k (x :: r) = skipn k (sdata s)).
Proof.
  intros Hk Hd. destruct d as [o|o pos lf rf|o f|o f];
    try (exists (sdata s), []; cbn [seg_fwd]; split; [reflexivity|]; split; [apply app_nil_r|];
         split; [constructor|]; intro; split; [assumption | unfold tails; cbn; apply app_nil_r]).
  destruct (split_fwd k s o pos lf rf Hk Hd) as (A & B & E & HA & HB & Hg & _).
  exists A, [B]. split; [exact E|]. unfold tails. cbn [map concat]. rewrite app_nil_r.
  split; [exact Hg|]. split; [repeat constructor; lia|]. intros _. split; [lia|].
  rewrite <- Hg. rewrite skipn_app. replace (k - length A)%nat with 0%nat by lia. reflexivity.
Qed.

(* ---------------------------------------------------------------- 4. one contig *)
Fixpoint contig_fwd (k : nat) (segs : list segment) (dec : nat -> decision) (j : nat) : list (list N) :=
  match segs with
  | [] => []
  | s :: rest => seg_fwd k s (dec j) ++ contig_fwd k rest dec (S j)
  end.

Definition decs_ok (k : nat) (segs : list segment) (dec : nat -> decision) (j : nat) : Prop :=
  forall i s, nth_error segs i = Some s -> decision_okb k s (dec (j + i)%nat) = true.

Lemma decs_ok_tail k s rest dec j : decs_ok k (s :: rest) dec j ->
  decision_okb k s (dec j) = true /\ decs_ok k rest dec (S j).
Proof.
  intro H. split.
  - specialize (H 0%nat s eq_refl). rewrite Nat.add_0_r in H. exact H.
  - intros i t Ht. specialize (H (S i) t Ht). replace (S j + i)%nat with (j + S i)%nat by lia. exact H.
Qed.

Lemma contig_pieces_spec k dec : (1 <= k)%nat -> forall segs j n, decs_ok k segs dec j ->
  exists ps ps', contig_pieces k segs dec j n = Ok ps /\ Permutation ps ps' /\
                 map p_part ps' = seq n (length ps') /\ map unorient ps' = contig_fwd k segs dec j.
Proof.
  intros Hk. induction segs as [|s rest IH]; intros j n Hd.
  - exists [], []. repeat split; constructor.
  - apply decs_ok_tail in Hd. destruct Hd as [Hs Hr].
    destruct (seg_pieces_ok k s (dec j) n Hk Hs) as (ps1 & E1).
    destruct (seg_pieces_spec _ _ _ _ _ E1) as (ps1' & P1 & N1 & U1).
    destruct (IH (S j) (n + part_incr (dec j))%nat Hr) as (ps2 & ps2' & E2 & P2 & N2 & U2).
    exists (ps1 ++ ps2), (ps1' ++ ps2'). cbn [contig_pieces contig_fwd]. rewrite E1. cbn [obnd]. rewrite E2. cbn [obnd].
    split; [reflexivity|]. split; [apply Permutation_app; assumption|].
    assert (L1 : length ps1' = part_incr (dec j)).
    { rewrite <- (map_length p_part), N1, seq_length. reflexivity. }
    rewrite !map_app, app_length, seq_app, N1, N2, U1, U2, L1. auto.
Qed.

Lemma part_numbers_dense_proof : forall k segs dec j ps, (1 <= k)%nat -> decs_ok k segs dec j ->
  contig_pieces k segs dec j 0 = Ok ps -> Permutation (map p_part ps) (seq 0 (length ps)).
Proof.
  intros k segs dec j ps Hk Hd E.
  destruct (contig_pieces_spec k dec Hk segs j 0%nat Hd) as (ps0 & ps' & E' & P & Np & _).
  rewrite E in E'. inversion E'; subst ps0.
  rewrite (Permutation_length P). rewrite <- Np. apply Permutation_map. exact P.
Qed.

(* the forward pieces of all segments of a chain s0 :: rest glue to  sdata s0 ++ (later segments minus k) *)
Lemma contig_fwd_glue k dec : (1 <= k)%nat -> forall rest j, decs_ok k rest dec j ->
  Forall (fun s => k <= length (sdata s))%nat rest ->
  tails k (contig_fwd k rest dec j) = concat (map (fun s => skipn k (sdata s)) rest) /\
  Forall (fun y => k <= length y)%nat (contig_fwd k rest dec j).
Proof.
  intros Hk. induction rest as [|s rest IH]; intros j Hd Hl.
  - split; [reflexivity | constructor].
  - apply decs_ok_tail in Hd. destruct Hd as [Hs Hr]. inversion Hl; subst.
    destruct (seg_fwd_glue k s (dec j) Hk Hs) as (x & r & E & _ & Hr' & Hx).
    destruct (Hx H1) as [Hx1 Hx2]. destruct (IH (S j) Hr H2) as [IH1 IH2].
    cbn [contig_fwd map concat]. rewrite tails_app, E, Hx2, IH1. split; [reflexivity|].
    apply Forall_app. split; [constructor; assumption | assumption].
Qed.

Lemma contig_glue_proof : forall ws contig spl k dec, 1 <= k <= 32 ->
  let segs := split_gen ws contig spl k in
  decs_ok (N.to_nat k) segs dec 0 ->
  exists x r, contig_fwd (N.to_nat k) segs dec 0 = x :: r /\ x ++ tails (N.to_nat k) r = contig /\
              Forall (fun y => N.to_nat k <= length y)%nat r.
Proof.
  intros ws contig spl k dec Hk segs Hd.
  assert (Hk' : (1 <= N.to_nat k)%nat) by lia.
  destruct segs as [|s0 rest] eqn:Es. { exfalso. exact (nonempty_output_proof ws contig spl k Es). }
  pose proof (tiling_proof ws contig spl k s0 rest Hk Es) as T.
  assert (Hl : Forall (fun s => N.to_nat k <= length (sdata s))%nat rest).
  { apply Forall_forall. intros t Ht. apply In_nth_error in Ht. destruct Ht as [i Hi].
    apply (later_len_ge_k_proof ws contig spl k i t Hk). unfold segs in Es. rewrite Es. exact Hi. }
  apply decs_ok_tail in Hd. destruct Hd as [H0 Hr].
  destruct (seg_fwd_glue _ s0 (dec 0%nat) Hk' H0) as (x & r & E & Hg & Hr' & _).
  destruct (contig_fwd_glue _ dec Hk' rest 1%nat Hr Hl) as [G1 G2].
  exists x, (r ++ contig_fwd (N.to_nat k) rest dec 1). cbn [contig_fwd]. rewrite E. split; [reflexivity|].
  split.
  - rewrite tails_app, app_assoc, Hg, G1. exact T.
  - apply Forall_app. split; assumption.
Qed.
