(* LZ_len_store.v - from the LZ size bound (LZ_len.v) to the metadata of the parts the writer produces.

   1. pack_bytes: a pack of at most 50 entries, each of at most B bytes, has at most 50 * (B + 1) + 2 bytes.
   2. the group store (GroupStore.run / finalize), ANY schedule, any codecs with |lz_enc r t| <= B for |t| <= L:
      every part of every group's delta / reference stream carries a metadata value <= 50 * (B + 1)
      (read off the structural invariant GroupStore_inv.Inv: packs are chunks of <= 50 slots, every slot is the
       placeholder or the entry of a registered segment, registered segments = pushed segments).
   3. ModelCreate.model_build: the segments pushed are pieces of the input contigs (ops_carry, piece_facts), the
      catalogue-details parts carry metadata 0, params / splitters / segment-splitters carry constants: hence
      parts_meta_u64 (b_wops b) from bounds on the INPUT (contig lengths), on the caller's file_type_info value and on
      the lengths of the serialized NAME streams (collection-samples / collection-contigs parts). *)
From Coq Require Import Lia ZifyBool ZifyN ZifyNat Permutation.
From Ragc Require Import Mach Consts_groupstore Consts_agcv3.
From Ragc Require Import Kmer Segment Pipeline SegReader GroupStore LZ Names Details Collection Container ModelCreate.
From Ragc Require Import GroupStore_base GroupStore_inv GroupStore_proofs Pipeline_proofs Compose_codecs Compose_proofs Grand_proofs.
From Ragc Require LZ_len.
Open Scope N_scope.
Arguments N.add : simpl never.
Arguments N.sub : simpl never.
Arguments N.mul : simpl never.
Arguments N.of_nat : simpl never.
Arguments N.to_nat : simpl never.

(* ================================================================ 1. packs *)
Lemma flat_len : forall (c : list (list N)) B, Forall (fun e => lenN e <= B) c -> lenN (flat c) <= lenN c * (B + 1).
Proof.
  induction c as [|e c IH]; intros B H.
  - unfold flat, lenN. cbn [flat_map length]. lia.
  - inversion H as [|? ? He Hc]; subst. specialize (IH B Hc). unfold flat in *. cbn [flat_map].
    rewrite !lenN_app, (lenN_cons e c). unfold lenN at 2. cbn [length]. lia.
Qed.

Theorem pack_len_bound_proof : forall (placeholder : bool) (ph : N) (deltas : list (list N)) B,
  lenN deltas <= 50 -> Forall (fun d => lenN d <= B) deltas ->
  lenN (pack_bytes placeholder ph deltas) <= 50 * (B + 1) + 2.
Proof.
  intros placeholder ph deltas B Hn Hd. unfold pack_bytes. rewrite lenN_app.
  pose proof (flat_len deltas B Hd) as F. unfold flat in F.
  assert (lenN (if placeholder then [ph; CONTIG_SEPARATOR] else []) <= 2) by (destruct placeholder; unfold lenN; cbn [length]; lia).
  nia.
Qed.

(* with the LZ bound under lz_roundtrip's size hypothesis: entries shorter than 2^36 give packs shorter than 2^42 *)
Theorem pack_len_u64_proof : forall (placeholder : bool) (ph : N) (deltas : list (list N)),
  lenN deltas <= 50 -> Forall (fun d => lenN d < 68719476736) deltas ->
  lenN (pack_bytes placeholder ph deltas) < 4398046511104.
Proof.
  intros placeholder ph deltas Hn Hd.
  assert (H := pack_len_bound_proof placeholder ph deltas 68719476735 Hn).
  assert (Hd' : Forall (fun d => lenN d <= 68719476735) deltas).
  { eapply Forall_impl; [|exact Hd]. cbn beta. intros. lia. }
  specialize (H Hd'). lia.
Qed.

(* ================================================================ 2. the group store *)
Section Store.
  Variable lz_enc : list N -> list N -> list N.
  Variable compress_ref : list N -> list N * N.
  Variable compress_pack : list N -> list N.
  Variables (L B : N).
  Hypothesis Hlz : forall r t, lenN t <= L -> lenN (lz_enc r t) <= B.
  Hypothesis HLB : L <= B.
  Hypothesis HB1 : 1 <= B.

  Lemma store_part_meta_le : forall cm raw, fst (store_part cm raw) <= lenN raw.
  Proof. intros cm raw. destruct (store_part_meta cm raw) as [(-> & _)|(-> & _)]; lia. Qed.

  Lemma entry_of_len : forall lz rf s, lenN (s_data s) <= L -> lenN (entry_of lz_enc lz rf s) <= B.
  Proof.
    intros lz rf s Hs. unfold entry_of. destruct rf as [r|]; [destruct lz|]; try lia. apply Hlz. exact Hs.
  Qed.

  Theorem store_meta_bound_proof : forall ops st,
    run lz_enc compress_ref compress_pack ops = Ok st ->
    (forall g s, In s (GroupStore.segs_of ops g) -> lenN (s_data s) <= L) ->
    forall g gs, finalize compress_pack st g = Some gs ->
    Forall (fun p : SegReader.part => fst p <= 50 * (B + 1)) (g_delta gs) /\
    Forall (fun p : SegReader.part => fst p <= L) (g_ref gs).
  Proof.
    intros ops st Hrun Hsegs g gs Hfin.
    destruct (run_inv lz_enc compress_ref compress_pack ops st Hrun) as [HG HP].
    unfold finalize in Hfin. destruct (st g) as [gs0|] eqn:Eg; [|discriminate].
    injection Hfin as <-.
    destruct (HG g gs0 Eg) as (packs & ents & HI).
    destruct (fin_delta lz_enc compress_ref compress_pack g gs0 packs ents HI) as (Ed & Er & _).
    (* registered segments are pushed segments *)
    assert (Hreg : forall s id, In (s, id) (g_regs gs0) -> lenN (s_data s) <= L).
    { intros s id Hin. apply (Hsegs g). eapply Permutation_in; [apply (HP g)|].
      unfold regs_of, get_group. rewrite Eg. apply in_map_iff. exists (s, id). auto. }
    split.
    - rewrite Ed. apply Forall_forall. intros p Hp. apply in_map_iff in Hp. destruct Hp as (c & <- & Hc).
      destruct (final_chunks_shape lz_enc compress_ref compress_pack _ _ _ _ _ _ _ HI c Hc) as (_ & Hl & Hin).
      unfold mkpart. eapply N.le_trans; [apply store_part_meta_le|].
      assert (Hc50 : lenN c <= 50) by (unfold lenN; lia).
      assert (F : Forall (fun e => lenN e <= B) c).
      { apply Forall_forall. intros e He. specialize (Hin e He). unfold slots_of in Hin.
        apply in_app_or in Hin. destruct Hin as [Hin|Hin].
        - destruct (is_lz g); [destruct Hin|]. destruct Hin as [<-|[]]. unfold lenN. cbn [length]. lia.
        - destruct (inv_ents _ _ _ _ _ _ _ _ _ _ HI e Hin) as (s & id & Hs & ->).
          apply entry_of_len. exact (Hreg s id Hs). }
      pose proof (flat_len c B F). nia.
    - rewrite Er. pose proof (inv_ref _ _ _ _ _ _ _ _ _ _ HI) as Hr.
      destruct (is_lz g).
      + destruct (b_reference (g_buf gs0)) as [r|].
        * destruct Hr as (_ & -> & s0 & Hs0 & <-). constructor; [|constructor].
          unfold ref_part. eapply N.le_trans; [apply store_part_meta_le|]. exact (Hreg s0 0 Hs0).
        * destruct Hr as (_ & -> & _). constructor.
      + destruct Hr as (_ & _ & ->). constructor.
  Qed.
End Store.

(* ================================================================ 3. the writer history of ModelCreate *)
Lemma mc_lz_enc_len : forall mml r t, lenN (mc_lz_enc mml r t) <= 24 * lenN t + 23.
Proof.
  intros mml r t. unfold mc_lz_enc. destruct (LZ.encode mml r t) as [e| |] eqn:E; try (unfold lenN; cbn [length]; lia).
  exact (LZ_len.encode_len_proof mml r t e E).
Qed.

(* the pieces handed to the group store are no longer than the contig they are cut from *)
Lemma segs_len_from_inputs : forall k spl segsize dec grp (pushes : list push) gops L,
  1 <= k <= 32 ->
  decisions_ok k spl segsize dec pushes ->
  ops_carry (all_emit k spl segsize dec grp 0 pushes) gops ->
  (forall s c data, In (s, c, data) pushes -> lenN data <= L) ->
  forall g s, In s (GroupStore.segs_of gops g) -> lenN (s_data s) <= L.
Proof.
  intros k spl segsize dec grp pushes gops L Hk Hdec Hcarry Hlen g s Hs.
  apply (Permutation_in _ (Hcarry g)) in Hs. apply in_map_iff in Hs. destruct Hs as ([g' s'] & Es & Hx). cbn [snd] in Es. subst s'.
  apply filter_In in Hx. destruct Hx as [Hx _].
  apply all_emit_in in Hx. destruct Hx as (i & sn & cn & pc & (data & ps & _ & Hn & Ep & Hpc) & E).
  injection E as _ ->. rewrite Nat.sub_0_r in Hn.
  destruct (piece_facts k spl segsize dec i data ps pc Hk (fun j sg Hj => Hdec i sn cn data j sg Hn Hj) Ep Hpc) as (_ & Fl & _).
  cbn [seg_of_piece s_data]. specialize (Hlen sn cn data (nth_error_In _ _ Hn)). unfold lenN in *. lia.
Qed.

(* the catalogue parts: metadata of collection-details parts is 0; the metadata of a collection-samples /
   collection-contigs part is the length of a serialized name stream *)
Definition cat_meta_ok (a : arch) : Prop :=
  Forall (fun p : Collection.part => exists names, snd p = lenN (ser_sample_names names)) (a_samples a) /\
  Forall (fun p : Collection.part => exists batch, snd p = lenN (ser_names batch)) (a_contigs a) /\
  Forall (fun p : Collection.part => snd p = 0) (a_details a).

Lemma store_loop_meta zc : forall fuel bs n i c a cw a',
  store_loop zc fuel bs n i c a = Ok (cw, a') -> cat_meta_ok a -> cat_meta_ok a'.
Proof.
  induction fuel as [|f IH]; intros bs n i c a cw a' H Ha; cbn [store_loop] in H.
  - destruct (n <=? i); [|discriminate]. injection H as _ <-. exact Ha.
  - destruct (n <=? i). { injection H as _ <-. exact Ha. }
    destruct (store_contig_batch zc c a i (N.min (i + bs) n)) as [[c1 a1]| |] eqn:E; cbn [obnd fst snd] in H; try discriminate.
    apply (IH _ _ _ _ _ _ _ H). clear H IH.
    unfold store_contig_batch in E. unfold serialize_contig_names in E.
    destruct (range_ok c i (N.min (i + bs) n)); cbn [obnd] in E; [|discriminate].
    destruct (serialize_contig_details c i (N.min (i + bs) n)) as [vd| |]; cbn [obnd] in E; try discriminate.
    injection E as _ <-. destruct Ha as (H1 & H2 & H3). unfold cat_meta_ok. cbn [a_samples a_contigs a_details].
    split; [exact H1|]. split.
    + apply Forall_app. split; [exact H2|]. constructor; [|constructor]. cbn [snd]. eexists. reflexivity.
    + apply Forall_app. split; [exact H3|]. constructor; [|constructor]. reflexivity.
Qed.

Lemma store_all_meta zc : forall bs c cw a, store_all zc bs c arch_empty = Ok (cw, a) -> cat_meta_ok a.
Proof.
  intros bs c cw a H. unfold store_all in H. apply (store_loop_meta _ _ _ _ _ _ _ _ _ H).
  unfold store_batch_sample_names, cat_meta_ok. cbn [a_samples a_contigs a_details arch_empty app].
  split; [|split]; constructor; [|constructor]. cbn [snd]. eexists. reflexivity.
Qed.

(* ---- the plan: where a buffered part comes from *)
Lemma all_tagged_in : forall p base x, In x (all_tagged base p) -> exists e, In e p /\ In (snd x) (snd e).
Proof.
  induction p as [|e p IH]; intros base x H; cbn [all_tagged] in H; [destruct H|].
  apply in_app_or in H. destruct H as [H|H].
  - unfold tagged in H. apply in_map_iff in H. destruct H as (it & <- & Hit). exists e. split; [left; reflexivity|exact Hit].
  - destruct (IH _ _ H) as (e' & He' & Hx). exists e'. split; [right; exact He'|exact Hx].
Qed.

Lemma model_buffered_in : forall fp gp x, In x (model_buffered fp gp) -> exists e, In e (fp ++ gp) /\ In (snd x) (snd e).
Proof.
  intros fp gp x H. unfold model_buffered in H. apply in_app_or in H. destruct H as [H|H].
  - destruct (all_tagged_in _ _ _ H) as (e & He & Hx). exists e. split; [apply in_or_app; right; exact He|exact Hx].
  - apply in_flat_map in H. destruct H as (i & _ & Hi). unfold tagged in Hi. apply in_map_iff in Hi.
    destruct Hi as (it & <- & Hit). unfold parts_at in Hit. destruct (nth_error fp i) as [e|] eqn:En; [|destruct Hit].
    exists e. split; [apply in_or_app; left; exact (nth_error_In _ _ En)|exact Hit].
Qed.

Section Writer.
  Variable zc : N -> list N -> list N.
  Variable ecn : Pipeline.name -> Pipeline.name.
  Variables (k mml segsize level : N).
  Variable spl : N -> bool.
  Variable dec : nat -> nat -> decision.
  Variable grp : nat -> nat -> N.
  Variable sched : list registration -> list registration.
  Variable gops : list op.
  Variable fti : Container.item.
  Variable samples : list (Pipeline.name * list (Pipeline.name * list N)).
  Variable L : N.
  Hypothesis Hk : 1 <= k <= 32.
  Hypothesis Hdec : decisions_ok k spl segsize dec (pushes_of samples).
  Hypothesis Hcarry : ops_carry (all_emit k spl segsize dec grp 0 (pushes_of samples)) gops.
  Hypothesis Hlen : forall s c data, In (s, c, data) (pushes_of samples) -> lenN data <= L.
  Variable b : built.
  Hypothesis Hb : model_build zc ecn k mml segsize level spl dec grp sched gops fti samples = Ok b.

  (* every part of a segment stream (x<id>d, x<id>r) carries metadata <= 50 * (24 L + 24) *)
  Theorem group_parts_meta_proof : forall e it,
    In e (group_plan (finalize (mc_cpack zc level) (b_store b)) (groups_of gops)) -> In it (snd e) ->
    snd it <= 1200 * L + 1200.
  Proof using Hk Hdec Hcarry Hlen Hb.
    intros e it He Hit.
    destruct (model_build_inv _ _ _ _ _ _ _ _ _ _ _ _ _ _ Hb) as (st & coll & stored & cw & a & Hrun & _ & _ & ->).
    cbn [b_store] in He.
    pose proof (segs_len_from_inputs k spl segsize dec grp (pushes_of samples) gops L Hk Hdec Hcarry Hlen) as Hsegs.
    assert (HLZ : forall r t, lenN t <= L -> lenN (mc_lz_enc mml r t) <= 24 * L + 23).
    { intros r t Ht. pose proof (mc_lz_enc_len mml r t). lia. }
    unfold group_plan in He. apply in_flat_map in He. destruct He as (g & _ & Hg).
    unfold view_of in Hg.
    destruct (finalize (mc_cpack zc level) st g) as [gs|] eqn:Ef.
    2:{ cbn [gv_delta gv_ref opt_items] in Hg. destruct Hg as [<-|[<-|[]]]; destruct Hit. }
    destruct (store_meta_bound_proof (mc_lz_enc mml) (mc_cref zc) (mc_cpack zc level) L (24 * L + 23) HLZ ltac:(lia) ltac:(lia)
                gops st Hrun Hsegs g gs Ef) as [Hd Hr].
    rewrite Forall_forall in Hd, Hr.
    cbn [gv_delta gv_ref opt_items] in Hg. destruct Hg as [<-|[<-|[]]]; cbn [snd] in Hit;
      apply in_map_iff in Hit; destruct Hit as (p & <- & Hp); unfold unswap_part; cbn [snd].
    - specialize (Hd p Hp). cbn beta in Hd. lia.
    - specialize (Hr p Hp). cbn beta in Hr. lia.
  Qed.

  (* PARTS_META_U64 from inputs: contig lengths below 2^50 (in the domain of C09 they are below 2^30), the caller's
     file_type_info metadata below 2^64, and the lengths of the serialized name streams (the metadata of the
     collection-samples / collection-contigs parts) below 2^64 *)
  Hypothesis HL : L <= 1125899906842624.
  Hypothesis Hfti : snd fti < two64.
  Hypothesis Hnames : Forall (fun p : Collection.part => snd p < two64) (a_samples (b_arch b) ++ a_contigs (b_arch b)).

  Theorem parts_meta_u64_from_inputs_proof : parts_meta_u64 (b_wops b).
  Proof using All.
    pose proof group_parts_meta_proof as HG.
    destruct (model_build_inv _ _ _ _ _ _ _ _ _ _ _ _ _ _ Hb) as (st & coll & stored & cw & a & Hrun & _ & Hst & Eb).
    rewrite Eb in HG, Hnames |- *. cbn [b_wops b_store b_arch] in *.
    destruct (store_all_meta zc _ _ _ _ Hst) as (_ & _ & Hdet).
    unfold parts_meta_u64, model_wops. apply Forall_app. split.
    { apply Forall_forall. intros o Ho. apply in_map_iff in Ho. destruct Ho as (e & <- & _). exact I. }
    apply Forall_app. split; [|constructor; [exact I|constructor]].
    apply Forall_forall. intros o Ho. apply in_map_iff in Ho. destruct Ho as (x & <- & Hx). unfold addbuf.
    destruct (model_buffered_in _ _ _ Hx) as (e & He & Hit). apply in_app_or in He. destruct He as [He|He].
    - (* the seven fixed streams *)
      rewrite Forall_forall in Hnames, Hdet.
      unfold fixed_plan in He. cbn [In] in He.
      destruct He as [<-|[<-|[<-|[<-|[<-|[<-|[<-|[]]]]]]]]; cbn [snd] in Hit.
      + apply Hnames. apply in_or_app. left. exact Hit.
      + apply Hnames. apply in_or_app. right. exact Hit.
      + rewrite (Hdet _ Hit). reflexivity.
      + destruct Hit as [<-|[]]. exact Hfti.
      + destruct Hit as [<-|[]]. reflexivity.
      + destruct Hit as [<-|[]]. reflexivity.
      + destruct Hit as [<-|[]]. reflexivity.
    - specialize (HG e (snd x) He Hit). unfold two64. lia.
  Qed.
End Writer.

(* the same with the input hypothesis of C09 / C01T (inputs_in_dom: 2 * |contig| + mml < 2^31) *)
Lemma inputs_in_dom_len_proof : forall mml (pushes : list push), inputs_in_dom mml pushes ->
  forall s c data, In (s, c, data) pushes -> lenN data <= 1073741824.
Proof. intros mml pushes H s c data Hin. destruct (H s c data Hin) as [_ Hl]. lia. Qed.

Theorem parts_meta_u64_in_dom_proof :
  forall zc ecn k mml segsize level spl dec grp sched gops (fti : Container.item)
         (samples : list (Pipeline.name * list (Pipeline.name * list N))),
  1 <= k <= 32 ->
  decisions_ok k spl segsize dec (pushes_of samples) ->
  ops_carry (all_emit k spl segsize dec grp 0 (pushes_of samples)) gops ->
  inputs_in_dom mml (pushes_of samples) ->
  forall b, model_build zc ecn k mml segsize level spl dec grp sched gops fti samples = Ok b ->
  snd fti < two64 ->
  Forall (fun p : Collection.part => snd p < two64) (a_samples (b_arch b) ++ a_contigs (b_arch b)) ->
  parts_meta_u64 (b_wops b).
Proof.
  intros zc ecn k mml segsize level spl dec grp sched gops fti samples Hk Hdec Hcarry Hdom b Hb Hfti Hnames.
  apply (parts_meta_u64_from_inputs_proof zc ecn k mml segsize level spl dec grp sched gops fti samples 1073741824
           Hk Hdec Hcarry (inputs_in_dom_len_proof mml _ Hdom) b Hb); [lia|exact Hfti|exact Hnames].
Qed.
