(* Container_proofs.v - lemmas about model/Container.v (Archive writer / reader) for C13 and C14 *)
From Ragc Require Import Mach Consts_archive Varint Container Varint_proofs.
From Coq Require Import Lia ZifyBool ZifyN ZifyNat.
Arguments N.add : simpl never.
Arguments N.sub : simpl never.
Arguments N.mul : simpl never.
Arguments N.shiftl : simpl never.
Arguments N.shiftr : simpl never.
Arguments N.land : simpl never.
Arguments N.modulo : simpl never.
Arguments N.div : simpl never.
Arguments N.pow : simpl never.
Arguments N.of_nat : simpl never.
Arguments N.to_nat : simpl never.
Arguments write_varint : simpl never.
Arguments read_varint : simpl never.

Ltac aconsts := unfold ar_len_field_seek, ar_len_field_buf, ar_len_field_sub, ar_name_term_w, ar_name_term_r,
  ar_empty_meta in *.

(* ------------------------------------------------------------------ lists *)
Lemma nthS_eq : forall {A} (l : list A) i, nthS l i = nthN l i.
Proof.
  intros. unfold nthS, nthN, lenN. destruct (i <? N.of_nat (length l)) eqn:E; [reflexivity|].
  symmetry. apply nth_error_None. lia.
Qed.

Lemma skipnS_eq : forall {A} n (l : list A), skipnS n l = skipnN n l.
Proof.
  intros A n l. revert n. induction l as [|x r IH]; intros n; cbn [skipnS].
  - unfold skipnN. rewrite skipn_nil. reflexivity.
  - destruct (n =? 0) eqn:E.
    + apply N.eqb_eq in E. subst. reflexivity.
    + rewrite IH. unfold skipnN. replace (N.to_nat n) with (S (N.to_nat (N.pred n))) by lia. reflexivity.
Qed.

Lemma firstnS_eq : forall {A} n (l : list A), firstnS n l = firstnN n l.
Proof.
  intros A n l. revert n. induction l as [|x r IH]; intros n; cbn [firstnS].
  - unfold firstnN. rewrite firstn_nil. reflexivity.
  - destruct (n =? 0) eqn:E.
    + apply N.eqb_eq in E. subst. reflexivity.
    + rewrite IH. unfold firstnN. replace (N.to_nat n) with (S (N.to_nat (N.pred n))) by lia. reflexivity.
Qed.

Lemma name_eqb_eq : forall a b, name_eqb a b = true <-> a = b.
Proof.
  unfold name_eqb. induction a; destruct b; cbn [list_eqb]; split; intro H; try reflexivity; try discriminate.
  - apply andb_prop in H. destruct H as [H1 H2]. apply N.eqb_eq in H1. apply IHa in H2. subst. reflexivity.
  - inversion H; subst. rewrite N.eqb_refl. cbn. apply IHa. reflexivity.
Qed.

Lemma name_eqb_refl : forall a, name_eqb a a = true.
Proof. intros. apply name_eqb_eq. reflexivity. Qed.

Lemma name_eqb_neq : forall a b, name_eqb a b = false <-> a <> b.
Proof.
  intros. split; intro H.
  - intro E. apply name_eqb_eq in E. congruence.
  - destruct (name_eqb a b) eqn:E; [|reflexivity]. apply name_eqb_eq in E. contradiction.
Qed.

Lemma upd_nth_length : forall {A} n (f : A -> A) l, length (upd_nth n f l) = length l.
Proof. induction n; destruct l; cbn [upd_nth length]; try reflexivity. rewrite IHn. reflexivity. Qed.

Lemma lenN_upd_nth : forall {A} n (f : A -> A) l, lenN (upd_nth n f l) = lenN l.
Proof. intros. unfold lenN. rewrite upd_nth_length. reflexivity. Qed.

Lemma map_upd_nth : forall {A B} (g : A -> B) (f : A -> A) (f' : B -> B) n l,
  (forall x, g (f x) = f' (g x)) -> map g (upd_nth n f l) = upd_nth n f' (map g l).
Proof.
  induction n; destruct l; intros H; cbn [upd_nth map]; try reflexivity.
  - rewrite H. reflexivity.
  - rewrite IHn by assumption. reflexivity.
Qed.

Lemma map_upd_nth_id : forall {A B} (g : A -> B) (f : A -> A) n l,
  (forall x, g (f x) = g x) -> map g (upd_nth n f l) = map g l.
Proof.
  induction n; destruct l; intros H; cbn [upd_nth map]; try reflexivity.
  - rewrite H. reflexivity.
  - rewrite IHn by assumption. reflexivity.
Qed.

Lemma Forall2_upd_nth : forall {A B} (P : A -> B -> Prop) f g n l1 l2,
  Forall2 P l1 l2 -> (forall a b, P a b -> P (f a) (g b)) -> Forall2 P (upd_nth n f l1) (upd_nth n g l2).
Proof.
  induction n; intros l1 l2 H Hf; destruct H; cbn [upd_nth]; constructor; auto.
Qed.

Lemma Forall_upd_nth : forall {A} (P : A -> Prop) f n l,
  Forall P l -> (forall a, P a -> P (f a)) -> Forall P (upd_nth n f l).
Proof.
  induction n; intros l H Hf; destruct H; cbn [upd_nth]; constructor; auto.
Qed.

Lemma Forall2_len : forall {A B} (P : A -> B -> Prop) l1 l2, Forall2 P l1 l2 -> length l1 = length l2.
Proof. intros A B P l1 l2 H. induction H; cbn [length]; congruence. Qed.

Lemma Forall2_lenN : forall {A B} (P : A -> B -> Prop) l1 l2, Forall2 P l1 l2 -> lenN l1 = lenN l2.
Proof. intros. unfold lenN. erewrite Forall2_len by eassumption. reflexivity. Qed.

Lemma Forall2_nth_l : forall {A B} (P : A -> B -> Prop) l1 l2 n a,
  Forall2 P l1 l2 -> nth_error l1 n = Some a -> exists b, nth_error l2 n = Some b /\ P a b.
Proof.
  intros A B P l1 l2 n a H. revert n. induction H; intros n Hn; destruct n; cbn [nth_error] in *; try discriminate.
  - inversion Hn; subst. eauto.
  - auto.
Qed.

Lemma Forall2_nth_none : forall {A B} (P : A -> B -> Prop) l1 l2 n,
  Forall2 P l1 l2 -> nth_error l1 n = None -> nth_error l2 n = None.
Proof.
  intros. apply nth_error_None. apply nth_error_None in H0. erewrite <- Forall2_len by eassumption. assumption.
Qed.

Lemma Forall2_app_one : forall {A B} (P : A -> B -> Prop) l1 l2 a b,
  Forall2 P l1 l2 -> P a b -> Forall2 P (l1 ++ [a]) (l2 ++ [b]).
Proof. intros. apply Forall2_app; [assumption | constructor; [assumption | constructor]]. Qed.

Lemma Forall2_impl : forall {A B} (P Q : A -> B -> Prop) l1 l2,
  (forall a b, P a b -> Q a b) -> Forall2 P l1 l2 -> Forall2 Q l1 l2.
Proof. intros A B P Q l1 l2 H F. induction F; constructor; auto. Qed.

Lemma firstnN_app_exact : forall {A} (a b : list A) n, lenN a = n -> firstnN n (a ++ b) = a.
Proof. intros. unfold firstnN. apply firstn_app_exact. unfold lenN in *. lia. Qed.

Lemma skipnN_app_exact : forall {A} (a b : list A) n, lenN a = n -> skipnN n (a ++ b) = b.
Proof. intros. unfold skipnN. apply skipn_app_exact. unfold lenN in *. lia. Qed.

Lemma lenN_firstnN : forall {A} n (l : list A), n <= lenN l -> lenN (firstnN n l) = n.
Proof. intros. unfold lenN, firstnN in *. rewrite firstn_length. lia. Qed.

Lemma lenN_skipnN : forall {A} n (l : list A), lenN (skipnN n l) = lenN l - n.
Proof. intros. unfold lenN, skipnN. rewrite skipn_length. lia. Qed.

Lemma firstnN_skipnN : forall {A} n (l : list A), firstnN n l ++ skipnN n l = l.
Proof. intros. apply firstn_skipn. Qed.

Lemma concat_rev_cons2 : forall {A} (a b : list A) l, concat (rev (a :: b :: l)) = concat (rev l) ++ b ++ a.
Proof.
  intros. cbn [rev]. rewrite !concat_app. cbn [concat]. rewrite !app_nil_r, <- app_assoc. reflexivity.
Qed.

Lemma lenN_flat_map_ge : forall {A B} (f : A -> list B) l, (forall x, 1 <= lenN (f x)) -> lenN l <= lenN (flat_map f l).
Proof.
  induction l; intros H; cbn [flat_map].
  - unfold lenN. cbn. lia.
  - rewrite lenN_app, lenN_cons. pose proof (H a). specialize (IHl H). lia.
Qed.
(* ------------------------------------------------------------------ writer vs spec: committed streams *)
Definition part_ok (file : list N) (p : part) (it : item) : Prop :=
  p_size p = lenN (fst it) /\ snd it < two64 /\
  exists pre rest, file = pre ++ write_varint (snd it) ++ fst it ++ rest /\ lenN pre = p_off p.

Definition stream_ok (file : list N) (ws : wstream) (ss : sstream) : Prop :=
  ws_name ws = ss_name ss /\ name_wf (ss_name ss) /\ ws_raw ws = ss_raw ss /\ ss_raw ss < two64 /\
  Forall2 (part_ok file) (ws_parts ws) (ss_parts ss).

Fixpoint find_idx (name : list N) (i : N) (l : list (list N)) : option N :=
  match l with
  | [] => None
  | x :: r => if name_eqb name x then Some i else find_idx name (i + 1) r
  end.

Lemma sp_find_idx : forall name l i, sp_find name i l = find_idx name i (map ss_name l).
Proof. induction l; intros; cbn [sp_find find_idx map]; [reflexivity|]. rewrite IHl. reflexivity. Qed.

Lemma find_idx_app : forall name l i x,
  find_idx name i (l ++ [x]) =
  match find_idx name i l with Some k => Some k | None => if name_eqb name x then Some (i + lenN l) else None end.
Proof.
  induction l; intros; cbn [find_idx app].
  - rewrite lenN_nil, N.add_0_r. reflexivity.
  - destruct (name_eqb name a); [reflexivity|]. rewrite IHl, lenN_cons. replace (i + 1 + lenN l) with (i + (1 + lenN l)) by lia. reflexivity.
Qed.

Lemma find_idx_none : forall name l i, find_idx name i l = None <-> ~ In name l.
Proof.
  induction l; intros; cbn [find_idx In]; split; intro H; try tauto.
  - destruct (name_eqb name a) eqn:E; [discriminate|]. apply name_eqb_neq in E. apply IHl in H. intros [X|X]; [congruence | contradiction].
  - destruct (name_eqb name a) eqn:E.
    + apply name_eqb_eq in E. subst. tauto.
    + apply IHl. tauto.
Qed.

Record Rcore (w : writer) (st : list sstream) : Prop := {
  Rc_off : w_off w = lenN (w_bytes w);
  Rc_streams : Forall2 (stream_ok (w_bytes w)) (w_streams w) st;
  Rc_map : forall name, map_get name (w_map w) = find_idx name 0 (map ss_name st);
  Rc_nodup : NoDup (map ss_name st)
}.

Lemma part_ok_mono : forall file more p it, part_ok file p it -> part_ok (file ++ more) p it.
Proof.
  intros file more p it (H1 & H2 & pre & rest & H3 & H4). split; [assumption|]. split; [assumption|].
  exists pre, (rest ++ more). split; [|assumption]. rewrite H3. rewrite <- !app_assoc. reflexivity.
Qed.

Lemma stream_ok_mono : forall file more ws ss, stream_ok file ws ss -> stream_ok (file ++ more) ws ss.
Proof.
  intros file more ws ss (H1 & H2 & H3 & H4 & H5). repeat split; try assumption.
  eapply Forall2_impl; [|eassumption]. intros. apply part_ok_mono. assumption.
Qed.

Lemma Rcore_init : Rcore w_init [].
Proof. constructor; cbn; try reflexivity; constructor. Qed.

(* add_part against the spec's commit *)
Lemma add_part_core : forall w st sid d m, Rcore w st -> m < two64 ->
  match sp_commit1 st sid (d, m) with
  | Some st' => exists w', add_part w sid d m = (w', Ok tt) /\ Rcore w' st' /\ w_buf w' = w_buf w
  | None => add_part w sid d m = (w, Err)
  end.
Proof.
  intros w st sid d m [Ho Hs Hm Hn] Hmeta. unfold sp_commit1, add_part.
  rewrite <- (Forall2_lenN _ _ _ Hs).
  destruct (sid <? lenN (w_streams w)) eqn:E.
  - destruct (lenN (w_streams w) <=? sid) eqn:E2; [lia|].
    eexists. split; [reflexivity|]. split; [|reflexivity].
    assert (Hb : w_bytes (mkW (w_off w + lenN (write_varint m) + lenN d)
                 (upd_nth (N.to_nat sid) (ws_push_part (mkPart (w_off w) (lenN d))) (w_streams w))
                 (w_map w) (w_buf w) (d :: write_varint m :: w_chunks w)) = w_bytes w ++ write_varint m ++ d).
    { unfold w_bytes. cbn [w_chunks]. apply concat_rev_cons2. }
    constructor.
    + rewrite Hb. cbn [w_off]. rewrite !lenN_app. lia.
    + rewrite Hb. cbn [w_streams]. apply Forall2_upd_nth.
      * eapply Forall2_impl; [|eassumption]. intros. apply stream_ok_mono. assumption.
      * intros a b (H1 & H2 & H3 & H4 & H5). unfold ws_push_part. cbn [ws_name ws_raw ws_parts ss_name ss_raw ss_parts].
        repeat split; try assumption. apply Forall2_app_one; [assumption|].
        unfold part_ok. cbn [p_size p_off fst snd]. split; [reflexivity|]. split; [assumption|].
        exists (w_bytes w), []. split; [rewrite app_nil_r; reflexivity | symmetry; assumption].
    + cbn [w_map]. intro name. rewrite Hm. f_equal. symmetry. apply map_upd_nth_id. reflexivity.
    + erewrite map_upd_nth_id by reflexivity. assumption.
  - destruct (lenN (w_streams w) <=? sid) eqn:E2; [reflexivity | lia].
Qed.
(* ------------------------------------------------------------------ write_buffer vs the spec's pending list *)
Definition flatten (b : list (N * list item)) : list (N * item) :=
  flat_map (fun g => map (pair (fst g)) (snd g)) b.

Inductive buf_wf : list (N * list item) -> Prop :=
| bw_nil : buf_wf []
| bw_cons : forall k v r, v <> [] -> Forall (fun g => k < fst g) r -> buf_wf r -> buf_wf ((k, v) :: r).

Lemma ins_stable_pass : forall x k (v : list item) l, ~ (fst x < k) ->
  ins_stable x (map (pair k) v ++ l) = map (pair k) v ++ ins_stable x l.
Proof.
  induction v; intros l H; cbn [map app ins_stable]; [reflexivity|].
  cbn [fst]. destruct (fst x <? k) eqn:E; [lia|]. rewrite IHv by assumption. reflexivity.
Qed.

Lemma ins_stable_head : forall x l, Forall (fun y => fst x < fst y) l -> ins_stable x l = x :: l.
Proof.
  intros x l H. destruct H; cbn [ins_stable]; [reflexivity|]. destruct (fst x <? fst x0) eqn:E; [reflexivity | lia].
Qed.

Lemma flatten_keys : forall k r, Forall (fun g => k < fst g) r -> Forall (fun y : N * item => k < fst y) (flatten r).
Proof.
  induction r; intros H; cbn [flatten flat_map]; [constructor|]. inversion H; subst.
  apply Forall_app. split; [|apply IHr; assumption].
  apply Forall_forall. intros y Hy. apply in_map_iff in Hy. destruct Hy as (z & <- & _). cbn [fst]. assumption.
Qed.

Lemma buf_push_keys : forall (P : N -> Prop) sid it b, P sid -> Forall (fun g => P (fst g)) b ->
  Forall (fun g => P (fst g)) (buf_push sid it b).
Proof.
  induction b as [|[k v] r]; intros Hs Hb; cbn [buf_push].
  - constructor; [assumption | constructor].
  - inversion Hb; subst. destruct (sid <? k); [constructor; assumption|].
    destruct (sid =? k); constructor; auto.
Qed.

Lemma buf_push_spec : forall sid it b, buf_wf b ->
  flatten (buf_push sid it b) = ins_stable (sid, it) (flatten b) /\ buf_wf (buf_push sid it b).
Proof.
  induction b as [|[k v] r]; intros H; cbn [buf_push].
  - split; [reflexivity|]. constructor; [discriminate | constructor | constructor].
  - inversion H; subst. destruct (sid <? k) eqn:E1.
    + split.
      * cbn [flatten flat_map fst snd map app]. symmetry. destruct v as [|v0 v']; [contradiction|].
        cbn [map app ins_stable fst]. rewrite E1. reflexivity.
      * constructor; [discriminate | | assumption]. constructor; [cbn [fst]; lia|].
        eapply Forall_impl; [|eassumption]. cbn. intros. lia.
    + destruct (sid =? k) eqn:E2.
      * apply N.eqb_eq in E2. subst k. split.
        -- cbn [flatten flat_map fst snd]. rewrite map_app. cbn [map]. rewrite <- app_assoc. cbn [app].
           rewrite ins_stable_pass by (cbn [fst]; lia). f_equal.
           symmetry. apply ins_stable_head. apply (flatten_keys sid r). assumption.
        -- constructor; [destruct v; discriminate | assumption | assumption].
      * destruct (IHr H5) as [I1 I2]. split.
        -- cbn [flatten flat_map fst snd]. fold (flatten (buf_push sid it r)). fold (flatten r).
           rewrite I1. symmetry. apply ins_stable_pass. cbn [fst]. lia.
        -- constructor; [assumption | | assumption].
           apply (buf_push_keys (fun x => k < x)); [lia | assumption].
Qed.

Lemma sort_by_sid_snoc : forall l x, sort_by_sid (l ++ [x]) = ins_stable x (sort_by_sid l).
Proof. intros. unfold sort_by_sid. rewrite fold_left_app. reflexivity. Qed.

Lemma Forall_ins_stable : forall (P : N * item -> Prop) x l, P x -> Forall P l -> Forall P (ins_stable x l).
Proof.
  induction l; intros Hx Hl; cbn [ins_stable].
  - constructor; [assumption | constructor].
  - inversion Hl; subst. destruct (fst x <? fst a); constructor; auto.
Qed.

Lemma Forall_sort_by_sid : forall (P : N * item -> Prop) l, Forall P l -> Forall P (sort_by_sid l).
Proof.
  intros P l. induction l using rev_ind; intros H.
  - constructor.
  - rewrite sort_by_sid_snoc. apply Forall_app in H. destruct H as [H1 H2]. inversion H2; subst.
    apply Forall_ins_stable; auto.
Qed.

Lemma sp_commit_all_app : forall l1 l2 st,
  sp_commit_all st (l1 ++ l2) =
  match sp_commit_all st l1 with (st1, WOk) => sp_commit_all st1 l2 | other => other end.
Proof.
  induction l1 as [|[sid it] r]; intros; cbn [app sp_commit_all]; [reflexivity|].
  destruct (sp_commit1 st sid it); [apply IHr | reflexivity].
Qed.

Lemma sp_commit_all_res : forall l st, snd (sp_commit_all st l) = WOk \/ snd (sp_commit_all st l) = WErr.
Proof.
  induction l as [|[sid it] r]; intros; cbn [sp_commit_all]; [left; reflexivity|].
  destruct (sp_commit1 st sid it); [apply IHr | right; reflexivity].
Qed.

Definition meta_ok (x : N * item) : Prop := snd (snd x) < two64.

Lemma flush_items_core : forall its w st sid, Rcore w st -> Forall (fun it => snd it < two64) its ->
  exists w' st' r, flush_items w sid its = (w', r) /\ sp_commit_all st (map (pair sid) its) = (st', wres_of r) /\
    Rcore w' st' /\ w_buf w' = w_buf w /\ (r = Ok tt \/ r = Err).
Proof.
  induction its as [|[d m] its']; intros w st sid HR Hits; cbn [flush_items map sp_commit_all].
  - exists w, st, (Ok tt). split; [reflexivity|]. split; [reflexivity|]. split; [assumption|]. split; [reflexivity|]. left; reflexivity.
  - inversion Hits; subst. cbn [snd] in H1.
    pose proof (add_part_core w st sid d m HR H1) as A.
    destruct (sp_commit1 st sid (d, m)) as [st1|].
    + destruct A as (w1 & A1 & A2 & A3). rewrite A1. cbv beta iota.
      destruct (IHits' w1 st1 sid A2 H2) as (w' & st' & r & B1 & B2 & B3 & B4 & B5).
      exists w', st', r. split; [assumption|]. split; [assumption|]. split; [assumption|]. split; [congruence | assumption].
    + rewrite A. cbv beta iota. exists w, st, Err. split; [reflexivity|]. split; [reflexivity|]. split; [assumption|]. split; [reflexivity|]. right; reflexivity.
Qed.

Lemma flush_groups_core : forall b w st, Rcore w st -> Forall meta_ok (flatten b) ->
  exists w' st' r, flush_groups w b = (w', r) /\ sp_commit_all st (flatten b) = (st', wres_of r) /\
    Rcore w' st' /\ w_buf w' = w_buf w.
Proof.
  induction b as [|[sid its] b']; intros w st HR Hm; cbn [flush_groups].
  - exists w, st, (Ok tt). split; [reflexivity|]. split; [reflexivity|]. split; [assumption | reflexivity].
  - cbn [flatten flat_map fst snd] in *. fold (flatten b') in *. apply Forall_app in Hm. destruct Hm as [Hm1 Hm2].
    assert (Hits : Forall (fun it => snd it < two64) its).
    { apply Forall_forall. intros it Hit. rewrite Forall_forall in Hm1. apply (Hm1 (sid, it)). apply in_map. assumption. }
    destruct (flush_items_core its w st sid HR Hits) as (w1 & st1 & r1 & A1 & A2 & A3 & A4 & A5).
    rewrite A1, sp_commit_all_app. unfold item in *. rewrite A2.
    destruct A5 as [-> | ->]; cbn [wres_of]; cbv beta iota.
    + destruct (IHb' w1 st1 A3 Hm2) as (w' & st' & r & B1 & B2 & B3 & B4).
      exists w', st', r. split; [assumption|]. split; [assumption|]. split; [assumption | congruence].
    + exists w1, st1, Err. split; [reflexivity|]. split; [reflexivity|]. split; assumption.
Qed.

Lemma NoDup_app_one : forall {A} (l : list A) x, NoDup l -> ~ In x l -> NoDup (l ++ [x]).
Proof.
  induction l; intros x H Hx; cbn [app].
  - constructor; [intros [] | constructor].
  - inversion H; subst. constructor.
    + intro Hin. apply in_app_or in Hin. destruct Hin as [Hin | [Hin | []]]; [contradiction|]. subst. apply Hx. left. reflexivity.
    + apply IHl; [assumption|]. intro. apply Hx. right. assumption.
Qed.

(* ------------------------------------------------------------------ the simulation *)
Record Rel (w : writer) (s : spec) : Prop := {
  R_core : Rcore w (sp_streams s);
  R_buf : flatten (w_buf w) = sort_by_sid (sp_pending s);
  R_bufwf : buf_wf (w_buf w);
  R_pend : Forall meta_ok (sp_pending s)
}.

Lemma Rel_init : Rel w_init sp_init.
Proof. constructor; [apply Rcore_init | reflexivity | constructor | constructor]. Qed.

Lemma step_sim : forall w s o, Rel w s -> wop_wf o ->
  Rel (fst (wstep w o)) (fst (sp_step s o)) /\ snd (wstep w o) = snd (sp_step s o).
Proof.
  intros w s o [HC HB HW HP] Hwf. destruct o as [name | sid d m | sid d m | | sid raw]; cbn [wstep sp_step wop_wf] in *.
  - (* register *)
    unfold register_stream. pose proof HC as [Ho Hs Hm Hn]. rewrite Hm, <- sp_find_idx.
    destruct (sp_find name 0 (sp_streams s)) as [id|] eqn:E; cbn [fst snd].
    + split; [constructor; assumption | reflexivity].
    + split; [|rewrite (Forall2_lenN _ _ _ Hs); reflexivity].
      constructor; cbn [sp_streams sp_pending w_buf]; try assumption.
      rewrite sp_find_idx in E.
      constructor; cbn [w_off w_streams w_map w_bytes w_chunks].
      * exact Ho.
      * apply Forall2_app_one; [exact Hs|]. unfold stream_ok. cbn. repeat split; try assumption; try reflexivity. constructor.
      * intro nm. cbn [map_get]. rewrite map_app. cbn [map ss_name]. rewrite find_idx_app, <- Hm.
        rewrite N.add_0_l. unfold lenN at 2. rewrite map_length. fold (lenN (sp_streams s)). rewrite (Forall2_lenN _ _ _ Hs).
        destruct (name_eqb nm name) eqn:En.
        -- apply name_eqb_eq in En. subst nm. rewrite Hm, E. reflexivity.
        -- destruct (map_get nm (w_map w)); reflexivity.
      * rewrite map_app. cbn [map ss_name]. apply NoDup_app_one; [assumption|]. apply (find_idx_none name _ 0). assumption.
  - (* add *)
    pose proof (add_part_core w (sp_streams s) sid d m HC Hwf) as A.
    destruct (sp_commit1 (sp_streams s) sid (d, m)) as [st'|].
    + destruct A as (w' & A1 & A2 & A3). rewrite A1. cbv beta iota. cbn [fst snd wres_of]. split; [|reflexivity].
      constructor; cbn [sp_streams sp_pending]; try assumption; rewrite A3; assumption.
    + rewrite A. cbv beta iota. cbn [fst snd wres_of]. split; [constructor; assumption | reflexivity].
  - (* add buffered *)
    cbn [fst snd]. split; [|reflexivity]. unfold add_part_buffered.
    destruct (buf_push_spec sid (d, m) (w_buf w) HW) as [B1 B2].
    constructor; cbn [sp_streams sp_pending w_buf].
    + destruct HC as [Ho Hs Hm Hn]. constructor; assumption.
    + rewrite B1, sort_by_sid_snoc, HB. reflexivity.
    + assumption.
    + apply Forall_app. split; [assumption|]. constructor; [exact Hwf | constructor].
  - (* flush *)
    unfold flush_buffers.
    assert (HC0 : Rcore (mkW (w_off w) (w_streams w) (w_map w) [] (w_chunks w)) (sp_streams s)).
    { destruct HC as [Ho Hs Hm Hn]. constructor; assumption. }
    assert (HM : Forall meta_ok (flatten (w_buf w))) by (rewrite HB; apply Forall_sort_by_sid; assumption).
    destruct (flush_groups_core (w_buf w) _ _ HC0 HM) as (w' & st' & r & F1 & F2 & F3 & F4).
    rewrite F1, <- HB, F2. cbv beta iota. cbn [fst snd]. split; [|reflexivity].
    constructor; cbn [sp_streams sp_pending]; try assumption; try rewrite F4; cbn [w_buf]; try reflexivity; constructor.
  - (* set raw *)
    cbn [fst snd]. split; [|reflexivity]. unfold set_raw_size.
    pose proof HC as [Ho Hs Hm Hn]. rewrite <- (Forall2_lenN _ _ _ Hs).
    destruct (sid <? lenN (w_streams w)) eqn:E.
    + constructor; cbn [sp_streams sp_pending w_buf]; try assumption.
      constructor; cbn [w_off w_streams w_map w_bytes w_chunks]; try assumption.
      * apply Forall2_upd_nth; [exact Hs|]. intros a b (H1 & H2 & H3 & H4 & H5). unfold stream_ok. cbn. repeat split; assumption.
      * intro nm. rewrite Hm. f_equal. symmetry. apply map_upd_nth_id. reflexivity.
      * erewrite map_upd_nth_id by reflexivity. assumption.
    + constructor; assumption.
Qed.
Lemma run_sim : forall ops w s, Rel w s -> Forall wop_wf ops ->
  Rel (fst (wrun w ops)) (fst (sp_run s ops)) /\ snd (wrun w ops) = snd (sp_run s ops).
Proof.
  induction ops as [|o r]; intros w s HR Hwf; cbn [wrun sp_run].
  - split; [assumption | reflexivity].
  - inversion Hwf; subst. destruct (step_sim w s o HR H1) as [S1 S2].
    destruct (wstep w o) as [w1 x]. destruct (sp_step s o) as [s1 y]. cbn [fst snd] in *. subst y.
    destruct (IHr w1 s1 S1 H2) as [T1 T2].
    destruct (wrun w1 r) as [w2 xs]. destruct (sp_run s1 r) as [s2 ys]. cbn [fst snd] in *. subst ys.
    split; [assumption | reflexivity].
Qed.

(* ------------------------------------------------------------------ the reader on arbitrary bytes: unfolding *)
Lemma firstnN_all_le : forall {A} n (l : list A), lenN l <= n -> firstnN n l = l.
Proof. intros. unfold firstnN. apply firstn_all2. unfold lenN in *. lia. Qed.

Definition footer_len (bs : list N) : N := le_value (skipnN (lenN bs - 8) bs).

Lemma deserialize_short : forall max_off bs, lenN bs < 8 -> deserialize max_off bs = ([], Err).
Proof.
  intros. unfold deserialize, file_seek_end. aconsts. destruct (lenN bs <? 8) eqn:E; [reflexivity | lia].
Qed.

Lemma deserialize_unfold : forall max_off bs, 8 <= lenN bs ->
  deserialize max_off bs =
  let fsz := footer_len bs in
  if lenN bs - 8 <? fsz then ([], Err)
  else let fstart := lenN bs - 8 - fsz in
       if max_off <? fstart then ([], Err)
       else ([fsz], obnd (parse_footer fstart (firstnN fsz (skipnN fstart bs)))
                         (fun sts => Ok (mkR bs sts (build_map 0 sts [])))).
Proof.
  intros max_off bs H. unfold deserialize, file_seek_end. aconsts.
  destruct (lenN bs <? 8) eqn:E; [lia|].
  unfold file_read_exact at 1. change (8 =? 0) with false. cbv iota.
  destruct (lenN bs - 8 + 8 <=? lenN bs) eqn:E2; [|lia].
  rewrite (firstnN_all_le 8) by (rewrite lenN_skipnN; lia).
  cbv zeta. fold (footer_len bs). set (fsz := footer_len bs).
  unfold obind, sub_u64. destruct (8 <=? lenN bs) eqn:E3; [|lia].
  destruct (fsz <=? lenN bs - 8) eqn:E4.
  - destruct (lenN bs - 8 <? fsz) eqn:E5; [lia|].
    unfold file_seek_start. destruct (max_off <? lenN bs - 8 - fsz) eqn:E6; [reflexivity|].
    f_equal. unfold file_read_exact. destruct (fsz =? 0) eqn:E7.
    + apply N.eqb_eq in E7. rewrite E7. change (firstnN 0 (skipnN (lenN bs - 8 - 0) bs)) with (@nil N).
      destruct (parse_footer (lenN bs - 8 - 0) []); cbn [obnd]; try reflexivity.
      destruct (max_off <? 0) eqn:E8; [lia | reflexivity].
    + destruct (lenN bs - 8 - fsz + fsz <=? lenN bs) eqn:E8; [|lia].
      destruct (parse_footer (lenN bs - 8 - fsz) (firstnN fsz (skipnN (lenN bs - 8 - fsz) bs))); cbn [obnd]; try reflexivity.
      destruct (max_off <? 0) eqn:E9; [lia | reflexivity].
  - destruct (lenN bs - 8 <? fsz) eqn:E5; [reflexivity | lia].
Qed.

(* ------------------------------------------------------------------ parsing what serialize wrote *)
Definition to_rs (ws : wstream) : rstream := mkRS (ws_name ws) (ws_raw ws) (ws_parts ws) 0.

Lemma read_name_enc : forall nm rest, name_wf nm -> read_name (nm ++ 0 :: rest) = Some (nm, rest).
Proof.
  induction nm; intros rest H; cbn [app read_name]; aconsts.
  - reflexivity.
  - inversion H; subst. destruct (a =? 0) eqn:E; [lia|]. rewrite IHnm by assumption.
    unfold char_utf8. destruct (a <? 128) eqn:E2; [reflexivity | lia].
Qed.

Lemma obnd_ok : forall {A B} (a : A) (f : A -> outcome B), obnd (Ok a) f = f a.
Proof. reflexivity. Qed.

Definition part_fits (fs : N) (p : part) : Prop := p_off p + p_size p <= fs.

Lemma read_parts_enc : forall ps fuel fs rest, fs < two64 -> Forall (part_fits fs) ps -> (length ps <= fuel)%nat ->
  read_parts fuel (lenN ps) fs (flat_map ser_part ps ++ rest) = Ok (ps, rest).
Proof.
  induction ps as [|[off sz] ps']; intros fuel fs rest Hfs Hfit Hfuel.
  - destruct fuel; reflexivity.
  - destruct fuel as [|f]; [cbn [length] in Hfuel; lia|]. cbn [length] in Hfuel.
    inversion Hfit; subst. unfold part_fits in H1. cbn [p_off p_size] in H1.
    cbn [read_parts]. rewrite lenN_cons. destruct (1 + lenN ps' =? 0) eqn:E; [lia|].
    cbn [flat_map]. unfold ser_part at 1. cbn [p_off p_size]. rewrite <- !app_assoc.
    rewrite varint_roundtrip_proof by lia. rewrite obnd_ok. cbv beta iota.
    rewrite varint_roundtrip_proof by lia. rewrite obnd_ok. cbv beta iota.
    unfold add_u64. destruct (off + sz <? two64) eqn:E2; [|lia].
    destruct (fs <? off + sz) eqn:E3; [lia|].
    replace (1 + lenN ps' - 1) with (lenN ps') by lia.
    rewrite IHps' by (try assumption; lia). reflexivity.
Qed.

Definition ws_fits (fs : N) (ws : wstream) : Prop :=
  name_wf (ws_name ws) /\ ws_raw ws < two64 /\ lenN (ws_parts ws) < two64 /\ Forall (part_fits fs) (ws_parts ws).

Lemma ser_part_len : forall p, 1 <= lenN (ser_part p).
Proof.
  intros. unfold ser_part. rewrite lenN_app. pose proof (write_varint_nonempty (p_off p)).
  destruct (write_varint (p_off p)); [contradiction|]. rewrite lenN_cons. lia.
Qed.

Lemma ser_stream_len : forall s, 1 <= lenN (ser_stream s).
Proof. intros. unfold ser_stream. rewrite !lenN_app, lenN_cons. lia. Qed.

Lemma read_streams_enc : forall wss fuel fs rest, fs < two64 -> Forall (ws_fits fs) wss -> (length wss <= fuel)%nat ->
  read_streams fuel (lenN wss) fs (flat_map ser_stream wss ++ rest) = Ok (map to_rs wss).
Proof.
  induction wss as [|[nm raw ps] wss']; intros fuel fs rest Hfs Hfit Hfuel.
  - destruct fuel; reflexivity.
  - destruct fuel as [|f]; [cbn [length] in Hfuel; lia|]. cbn [length] in Hfuel.
    inversion Hfit; subst. destruct H1 as (F1 & F2 & F3 & F4). cbn [ws_name ws_raw ws_parts] in *.
    cbn [read_streams]. rewrite lenN_cons. destruct (1 + lenN wss' =? 0) eqn:E; [lia|].
    cbn [flat_map]. unfold ser_stream at 1. cbn [ws_name ws_raw ws_parts]. aconsts. rewrite <- !app_assoc. cbn [app].
    rewrite read_name_enc by assumption.
    rewrite varint_roundtrip_proof by assumption. rewrite obnd_ok. cbv beta iota.
    rewrite varint_roundtrip_proof by assumption. rewrite obnd_ok. cbv beta iota.
    rewrite read_parts_enc; try assumption.
    + rewrite obnd_ok. cbv beta iota. replace (1 + lenN wss' - 1) with (lenN wss') by lia.
      rewrite IHwss' by (try assumption; lia). rewrite obnd_ok. reflexivity.
    + pose proof (lenN_flat_map_ge ser_part ps ser_part_len) as L. rewrite app_length. unfold lenN in L. lia.
Qed.

Lemma parse_footer_enc : forall w fs, fs < two64 -> lenN (w_streams w) < two64 -> Forall (ws_fits fs) (w_streams w) ->
  parse_footer fs (footer_of w) = Ok (map to_rs (w_streams w)).
Proof.
  intros w fs Hfs Hn Hfit. unfold parse_footer, footer_of.
  rewrite varint_roundtrip_proof by assumption. rewrite obnd_ok. cbv beta iota.
  rewrite <- (app_nil_r (flat_map ser_stream (w_streams w))) at 2.
  apply read_streams_enc; try assumption.
  pose proof (lenN_flat_map_ge ser_stream (w_streams w) ser_stream_len) as L. unfold lenN in L. lia.
Qed.

Lemma flat_map_in_len : forall {A B} (f : A -> list B) l x, In x l -> lenN (f x) <= lenN (flat_map f l).
Proof.
  induction l; intros x H; cbn [flat_map]; [contradiction|]. rewrite lenN_app. destruct H as [-> | H]; [lia|].
  specialize (IHl x H). lia.
Qed.

Lemma part_ok_fits : forall file p it, part_ok file p it -> part_fits (lenN file) p.
Proof.
  intros file p it (H1 & H2 & pre & rest & H3 & H4). unfold part_fits. rewrite H3, !lenN_app. lia.
Qed.

Lemma Rcore_fits : forall w st, Rcore w st -> lenN (footer_of w) < two64 ->
  Forall (ws_fits (lenN (w_bytes w))) (w_streams w) /\ lenN (w_streams w) < two64.
Proof.
  intros w st [Ho Hs Hm Hn] HF. split.
  - apply Forall_forall. intros ws Hin.
    destruct (In_nth_error _ _ Hin) as [n Hn'].
    destruct (Forall2_nth_l _ _ _ _ _ Hs Hn') as (ss & _ & (S1 & S2 & S3 & S4 & S5)).
    unfold ws_fits. rewrite S1, S3. split; [assumption|]. split; [assumption|]. split.
    + pose proof (flat_map_in_len ser_stream _ _ Hin) as L1. unfold footer_of in HF. rewrite lenN_app in HF.
      assert (L2 : lenN (flat_map ser_part (ws_parts ws)) <= lenN (ser_stream ws)) by (unfold ser_stream; rewrite !lenN_app; lia).
      pose proof (lenN_flat_map_ge ser_part (ws_parts ws) ser_part_len). lia.
    + clear - S5. induction S5; constructor; [|assumption]. eapply part_ok_fits. eassumption.
  - unfold footer_of in HF. rewrite lenN_app in HF.
    pose proof (lenN_flat_map_ge ser_stream (w_streams w) ser_stream_len). lia.
Qed.

Lemma footer_nonempty : forall w, 1 <= lenN (footer_of w).
Proof.
  intros. unfold footer_of. rewrite lenN_app. pose proof (write_varint_nonempty (lenN (w_streams w))).
  destruct (write_varint (lenN (w_streams w))); [contradiction|]. rewrite lenN_cons. lia.
Qed.

Lemma close_len : forall w, lenN (close w) = lenN (w_bytes w) + lenN (footer_of w) + 8.
Proof.
  intros. unfold close. cbv zeta. rewrite !lenN_app. unfold write_fixed_u64. unfold lenN at 3. rewrite le_bytes_length. lia.
Qed.

Lemma deserialize_close : forall w st max_off, Rcore w st -> lenN (close w) < two64 -> lenN (close w) <= max_off ->
  deserialize max_off (close w) =
  ([lenN (footer_of w)], Ok (mkR (close w) (map to_rs (w_streams w)) (build_map 0 (map to_rs (w_streams w)) []))).
Proof.
  intros w st max_off HR H64 Hmax. pose proof (close_len w) as HL. pose proof (footer_nonempty w) as HF.
  rewrite deserialize_unfold by lia. cbv zeta.
  assert (Hfl : footer_len (close w) = lenN (footer_of w)).
  { unfold footer_len. unfold close at 2. cbv zeta. rewrite app_assoc. rewrite skipnN_app_exact by (rewrite lenN_app; lia).
    apply le_value_fixed. lia. }
  rewrite Hfl. destruct (lenN (close w) - 8 <? lenN (footer_of w)) eqn:E; [lia|].
  replace (lenN (close w) - 8 - lenN (footer_of w)) with (lenN (w_bytes w)) by lia.
  destruct (max_off <? lenN (w_bytes w)) eqn:E2; [lia|]. f_equal.
  unfold close at 1. cbv zeta. rewrite skipnN_app_exact by reflexivity. rewrite firstnN_app_exact by reflexivity.
  destruct (Rcore_fits w st HR ltac:(lia)) as [F1 F2].
  rewrite parse_footer_enc; try assumption; [reflexivity | lia].
Qed.
(* ------------------------------------------------------------------ the reopened archive against the spec *)
Lemma directory_eq : forall file wss st, Forall2 (stream_ok file) wss st ->
  map (fun s => (rs_name s, rs_raw s, lenN (rs_parts s))) (map to_rs wss) =
  map (fun ss => (ss_name ss, ss_raw ss, lenN (ss_parts ss))) st.
Proof.
  intros file wss st H. induction H; cbn [map]; [reflexivity|].
  destruct H as (H1 & H2 & H3 & H4 & H5). unfold to_rs at 1 2 3. cbn [rs_name rs_raw rs_parts].
  rewrite H1, H3, (Forall2_lenN _ _ _ H5), IHForall2. reflexivity.
Qed.

Lemma names_eq : forall file wss st, Forall2 (stream_ok file) wss st ->
  map rs_name (map to_rs wss) = map ss_name st.
Proof.
  intros file wss st H. induction H; cbn [map]; [reflexivity|].
  destruct H as (H1 & _). unfold to_rs at 1. cbn [rs_name]. rewrite H1, IHForall2. reflexivity.
Qed.

Lemma build_map_get : forall sts i m name, NoDup (map rs_name sts) ->
  map_get name (build_map i sts m) =
  match find_idx name i (map rs_name sts) with Some k => Some k | None => map_get name m end.
Proof.
  induction sts as [|s r]; intros i m name Hn; cbn [build_map map find_idx]; [reflexivity|].
  inversion Hn; subst. rewrite IHr by assumption. cbn [map_get].
  destruct (name_eqb name (rs_name s)) eqn:E.
  - apply name_eqb_eq in E. subst name.
    destruct (find_idx (rs_name s) (i + 1) (map rs_name r)) eqn:F; [|reflexivity].
    exfalso. assert (X : find_idx (rs_name s) (i + 1) (map rs_name r) = None) by (apply find_idx_none; assumption). congruence.
  - reflexivity.
Qed.

Definition rs_ok (file : list N) (rs : rstream) (x : list item * N) : Prop :=
  rs_cur rs = snd x /\ Forall2 (part_ok file) (rs_parts rs) (fst x).

Lemma read_part_data_ok : forall max_off file p it, part_ok file p it -> lenN file <= max_off ->
  snd (read_part_data max_off file p) = Ok (sp_view it).
Proof.
  intros max_off file p [d m] (H1 & H2 & pre & rest & H3 & H4) Hmax. cbn [fst snd] in *.
  unfold read_part_data, sp_view. cbn [fst]. aconsts.
  destruct d as [|d0 d'].
  - rewrite H1. reflexivity.
  - destruct (p_size p =? 0) eqn:E; [rewrite H1, lenN_cons in E; lia|].
    unfold file_seek_start. destruct (max_off <? p_off p) eqn:E2.
    { rewrite H3, !lenN_app in Hmax. lia. }
    rewrite skipnS_eq, H3, skipnN_app_exact by assumption.
    rewrite varint_roundtrip_proof by assumption. cbn [snd].
    cbv zeta. rewrite firstnS_eq, firstnN_app_exact by (symmetry; assumption).
    rewrite H1, N.eqb_refl. reflexivity.
Qed.

Lemma nthN_Forall2 : forall {A B} (P : A -> B -> Prop) l1 l2 i, Forall2 P l1 l2 ->
  match nthN l1 i, nthN l2 i with
  | Some a, Some b => P a b
  | None, None => True
  | _, _ => False
  end.
Proof.
  intros A B P l1 l2 i H. unfold nthN. destruct (nth_error l1 (N.to_nat i)) eqn:E.
  - destruct (Forall2_nth_l _ _ _ _ _ H E) as (b & -> & Hb). assumption.
  - rewrite (Forall2_nth_none _ _ _ _ H E). exact I.
Qed.

Lemma rstep_sim : forall max_off file rd st o,
  r_file rd = file -> lenN file <= max_off -> Forall2 (rs_ok file) (r_streams rd) st ->
  snd (snd (rstep max_off rd o)) = snd (sp_rstep st o) /\
  r_file (fst (rstep max_off rd o)) = file /\
  Forall2 (rs_ok file) (r_streams (fst (rstep max_off rd o))) (fst (sp_rstep st o)).
Proof.
  intros max_off file rd st o Hf Hmax HS. destruct o as [sid | sid pid]; cbn [rstep sp_rstep].
  - unfold get_part. rewrite !nthS_eq. pose proof (nthN_Forall2 _ _ _ sid HS) as X.
    destruct (nthN (r_streams rd) sid) as [rs|]; destruct (nthN st sid) as [[ps cur]|]; try contradiction.
    + destruct X as [X1 X2]. cbn [fst snd] in X1, X2. rewrite !nthS_eq, X1.
      pose proof (nthN_Forall2 _ _ _ cur X2) as Y.
      destruct (nthN (rs_parts rs) cur) as [p|]; destruct (nthN ps cur) as [it|]; try contradiction.
      * pose proof (read_part_data_ok max_off file p it Y Hmax) as Z. rewrite Hf.
        destruct (read_part_data max_off file p) as [al res]. cbn [snd] in Z. subst res. cbn [fst snd obnd r_file r_streams].
        split; [reflexivity|]. split; [first [assumption | reflexivity]|].
        apply Forall2_upd_nth; [assumption|]. intros a b [A1 A2]. split; cbn [rs_advance rs_cur rs_parts fst snd]; [congruence | assumption].
      * cbn [fst snd]. auto.
    + cbn [fst snd]. auto.
  - unfold get_part_by_id. rewrite !nthS_eq. pose proof (nthN_Forall2 _ _ _ sid HS) as X.
    destruct (nthN (r_streams rd) sid) as [rs|]; destruct (nthN st sid) as [[ps cur]|]; try contradiction.
    + destruct X as [X1 X2]. cbn [fst snd] in X1, X2. rewrite !nthS_eq.
      pose proof (nthN_Forall2 _ _ _ pid X2) as Y.
      destruct (nthN (rs_parts rs) pid) as [p|]; destruct (nthN ps pid) as [it|]; try contradiction.
      * pose proof (read_part_data_ok max_off file p it Y Hmax) as Z. rewrite Hf.
        destruct (read_part_data max_off file p) as [al res]. cbn [snd] in Z. subst res. cbn [fst snd obnd]. auto.
      * cbn [fst snd]. auto.
    + cbn [fst snd]. auto.
Qed.

Lemma rrun_sim : forall max_off file rops rd st,
  r_file rd = file -> lenN file <= max_off -> Forall2 (rs_ok file) (r_streams rd) st ->
  map snd (rrun max_off rd rops) = sp_rrun st rops.
Proof.
  induction rops as [|o r]; intros rd st Hf Hmax HS; cbn [rrun sp_rrun map]; [reflexivity|].
  destruct (rstep_sim max_off file rd st o Hf Hmax HS) as (S1 & S2 & S3).
  destruct (rstep max_off rd o) as [rd' x]. destruct (sp_rstep st o) as [st' y]. cbn [fst snd map] in *.
  rewrite S1. f_equal. apply IHr; assumption.
Qed.

Theorem container_refines_spec_proof : forall ops max_off, Forall wop_wf ops ->
  let w := fst (wrun w_init ops) in
  let s := fst (sp_run sp_init ops) in
  lenN (close w) < two64 -> lenN (close w) <= max_off ->
  snd (wrun w_init ops) = snd (sp_run sp_init ops) /\
  exists rd, deserialize max_off (close w) = ([lenN (footer_of w)], Ok rd) /\
    directory rd = sp_directory s /\
    (forall name, get_stream_id rd name = sp_find name 0 (sp_streams s)) /\
    (forall rops, map snd (rrun max_off rd rops) = sp_rrun (sp_read_init s) rops).
Proof.
  intros ops max_off Hwf w s H64 Hmax.
  destruct (run_sim ops w_init sp_init Rel_init Hwf) as [HR Hres]. fold w in HR. fold s in HR.
  split; [assumption|]. destruct HR as [HC _ _ _]. pose proof HC as [Ho Hs Hm Hn].
  eexists. split; [apply (deserialize_close w (sp_streams s)); assumption|].
  split; [|split].
  - unfold directory, sp_directory. cbn [r_streams]. eapply directory_eq. eassumption.
  - intro name. unfold get_stream_id. cbn [r_map]. rewrite build_map_get.
    + rewrite (names_eq _ _ _ Hs), <- sp_find_idx. cbn [map_get]. destruct (sp_find name 0 (sp_streams s)); reflexivity.
    + rewrite (names_eq _ _ _ Hs). assumption.
  - intro rops. apply (rrun_sim max_off (close w)); [reflexivity | assumption|]. cbn [r_streams].
    unfold sp_read_init. clear - Hs. induction Hs; cbn [map]; constructor; [|assumption].
    destruct H as (_ & _ & _ & _ & H5). split; [reflexivity|]. cbn [to_rs rs_parts fst].
    eapply Forall2_impl; [|eassumption]. intros. unfold close. cbv zeta. apply part_ok_mono. assumption.
Qed.

Theorem register_idempotent_proof : forall w name,
  let (w1, id1) := register_stream w name in
  let (w2, id2) := register_stream w1 name in
  id2 = id1 /\ w2 = w1.
Proof.
  intros w name. unfold register_stream at 1. destruct (map_get name (w_map w)) as [id|] eqn:E.
  - unfold register_stream. rewrite E. auto.
  - unfold register_stream. cbn [w_map map_get]. rewrite name_eqb_refl. auto.
Qed.

(* a flush leaves nothing buffered (spec level): after it every part added so far is committed or was refused *)
Theorem flush_commits_everything_proof : forall ops s, sp_pending (fst (sp_run s (ops ++ [WFlush]))) = [].
Proof.
  induction ops as [|o r]; intros s; cbn [app sp_run].
  - cbn [sp_step]. destruct (sp_commit_all (sp_streams s) (sort_by_sid (sp_pending s))). reflexivity.
  - destruct (sp_step s o) as [s1 x]. specialize (IHr s1). destruct (sp_run s1 (r ++ [WFlush])). assumption.
Qed.

Definition directory_of_file (bs : list N) : option (list (list N * N * N)) :=
  match snd (deserialize max_u64 bs) with Ok rd => Some (directory rd) | _ => None end.
(* ------------------------------------------------------------------ C14: the reader on arbitrary bytes *)
Lemma read_name_shorter : forall cur nm r, read_name cur = Some (nm, r) -> (length r < length cur)%nat.
Proof.
  induction cur as [|b cur']; intros nm r H; cbn [read_name] in H; [discriminate|].
  destruct (b =? ar_name_term_r).
  - inversion H; subst. cbn [length]. lia.
  - destruct (read_name cur') as [[nm' r']|] eqn:E; [|discriminate]. inversion H; subst.
    specialize (IHcur' _ _ eq_refl). cbn [length]. lia.
Qed.

Lemma read_parts_safe : forall fuel n fs cur, (length cur < fuel)%nat ->
  match read_parts fuel n fs cur with
  | Ok (ps, c) => (length c <= length cur)%nat /\ Forall (part_fits fs) ps
  | Err => True
  | Panic => False
  end.
Proof.
  induction fuel as [|f IH]; intros n fs cur Hf; [lia|].
  cbn [read_parts]. destruct (n =? 0); [split; [lia | constructor]|].
  destruct (read_varint cur) as [[[off k1] c1]| |] eqn:E1; cbn [obnd]; [|exact I|exact (read_varint_no_panic _ E1)].
  apply read_varint_consumes in E1.
  destruct (read_varint c1) as [[[sz k2] c2]| |] eqn:E2; cbn [obnd]; [|exact I|exact (read_varint_no_panic _ E2)].
  apply read_varint_consumes in E2.
  unfold add_u64. destruct (off + sz <? two64) eqn:E3; [|exact I].
  destruct (fs <? off + sz) eqn:E4; [exact I|].
  specialize (IH (n - 1) fs c2 ltac:(lia)).
  destruct (read_parts f (n - 1) fs c2) as [[ps c3]| |]; cbn [obnd]; [|exact I|contradiction].
  destruct IH as [I1 I2]. split; [lia|]. constructor; [|assumption]. unfold part_fits. cbn [p_off p_size]. lia.
Qed.

Definition rs_fits (fs : N) (rs : rstream) : Prop := Forall (part_fits fs) (rs_parts rs).

Lemma read_streams_safe : forall fuel n fs cur, (length cur < fuel)%nat ->
  match read_streams fuel n fs cur with
  | Ok sts => Forall (rs_fits fs) sts
  | Err => True
  | Panic => False
  end.
Proof.
  induction fuel as [|f IH]; intros n fs cur Hf; [lia|].
  cbn [read_streams]. destruct (n =? 0); [constructor|].
  destruct (read_name cur) as [[nm c1]|] eqn:E0; [|exact I]. apply read_name_shorter in E0.
  destruct (read_varint c1) as [[[np k1] c2]| |] eqn:E1; cbn [obnd]; [|exact I|exact (read_varint_no_panic _ E1)].
  apply read_varint_consumes in E1.
  destruct (read_varint c2) as [[[raw k2] c3]| |] eqn:E2; cbn [obnd]; [|exact I|exact (read_varint_no_panic _ E2)].
  apply read_varint_consumes in E2.
  pose proof (read_parts_safe (S (length c3)) np fs c3 ltac:(lia)) as P.
  destruct (read_parts (S (length c3)) np fs c3) as [[ps c4]| |]; cbn [obnd]; [|exact I|contradiction].
  destruct P as [P1 P2].
  specialize (IH (n - 1) fs c4 ltac:(lia)).
  destruct (read_streams f (n - 1) fs c4) as [rest| |]; cbn [obnd]; [|exact I|contradiction].
  constructor; [exact P2 | exact IH].
Qed.

Lemma parse_footer_safe : forall fs footer,
  match parse_footer fs footer with
  | Ok sts => Forall (rs_fits fs) sts
  | Err => True
  | Panic => False
  end.
Proof.
  intros. unfold parse_footer.
  destruct (read_varint footer) as [[[ns k] cur]| |] eqn:E; cbn [obnd]; [|exact I|exact (read_varint_no_panic _ E)].
  apply read_streams_safe. lia.
Qed.

Definition rd_ok (bs : list N) (rd : reader) : Prop :=
  r_file rd = bs /\ Forall (rs_fits (lenN bs)) (r_streams rd).

Lemma rs_fits_mono : forall a b rs, a <= b -> rs_fits a rs -> rs_fits b rs.
Proof.
  intros a b rs H F. unfold rs_fits in *. eapply Forall_impl; [|eassumption]. unfold part_fits. intros. lia.
Qed.

Lemma deserialize_safe : forall max_off bs,
  Forall (fun a => a <= lenN bs) (fst (deserialize max_off bs)) /\
  match snd (deserialize max_off bs) with
  | Ok rd => rd_ok bs rd
  | Err => True
  | Panic => False
  end.
Proof.
  intros max_off bs. destruct (lenN bs <? 8) eqn:E.
  - rewrite deserialize_short by lia. cbn [fst snd]. split; [constructor | exact I].
  - rewrite deserialize_unfold by lia. cbv zeta.
    destruct (lenN bs - 8 <? footer_len bs) eqn:E1; [cbn [fst snd]; split; [constructor | exact I]|].
    destruct (max_off <? lenN bs - 8 - footer_len bs) eqn:E2; [cbn [fst snd]; split; [constructor | exact I]|].
    cbn [fst snd]. split; [constructor; [lia | constructor]|].
    pose proof (parse_footer_safe (lenN bs - 8 - footer_len bs)
                  (firstnN (footer_len bs) (skipnN (lenN bs - 8 - footer_len bs) bs))) as P.
    destruct (parse_footer (lenN bs - 8 - footer_len bs) (firstnN (footer_len bs) (skipnN (lenN bs - 8 - footer_len bs) bs)));
      cbn [obnd]; [|exact I|contradiction].
    split; [reflexivity|]. cbn [r_streams]. eapply Forall_impl; [|exact P]. intros rs. apply rs_fits_mono. lia.
Qed.

Theorem open_total_safe_proof : forall max_off bs, snd (deserialize max_off bs) <> Panic.
Proof.
  intros max_off bs H. destruct (deserialize_safe max_off bs) as [_ S]. rewrite H in S. exact S.
Qed.

Theorem alloc_bounded_proof : forall max_off bs, Forall (fun a => a <= lenN bs) (fst (deserialize max_off bs)).
Proof. intros. apply deserialize_safe. Qed.

Lemma read_part_data_safe : forall max_off file p, p_size p <= lenN file ->
  Forall (fun a => a <= lenN file) (fst (read_part_data max_off file p)) /\ snd (read_part_data max_off file p) <> Panic.
Proof.
  intros max_off file p H. unfold read_part_data.
  destruct (p_size p =? 0); [cbn [fst snd]; split; [constructor | discriminate]|].
  destruct (file_seek_start max_off (p_off p)); [|cbn [fst snd]; split; [constructor | discriminate]].
  destruct (read_varint (skipnS n file)) as [[[m k] c]| |] eqn:E.
  - cbn [fst snd]. split; [constructor; [assumption | constructor]|]. cbv zeta. destruct (lenN (firstnS (p_size p) c) =? p_size p); discriminate.
  - cbn [fst snd]. split; [constructor | discriminate].
  - exfalso. exact (read_varint_no_panic _ E).
Qed.

Lemma nthN_in : forall {A} (l : list A) i x, nthN l i = Some x -> In x l.
Proof. intros. unfold nthN in *. eapply nth_error_In. eassumption. Qed.

Lemma rstep_safe : forall max_off bs rd o, rd_ok bs rd ->
  rd_ok bs (fst (rstep max_off rd o)) /\
  Forall (fun a => a <= lenN bs) (fst (snd (rstep max_off rd o))) /\ snd (snd (rstep max_off rd o)) <> Panic.
Proof.
  intros max_off bs rd o [Hf Hs]. destruct o as [sid | sid pid]; cbn [rstep].
  - unfold get_part. rewrite nthS_eq. destruct (nthN (r_streams rd) sid) as [rs|] eqn:E1.
    + rewrite nthS_eq. destruct (nthN (rs_parts rs) (rs_cur rs)) as [p|] eqn:E2.
      * assert (Hp : p_size p <= lenN bs).
        { apply nthN_in in E1. apply nthN_in in E2. rewrite Forall_forall in Hs. specialize (Hs rs E1).
          unfold rs_fits in Hs. rewrite Forall_forall in Hs. specialize (Hs p E2). unfold part_fits in Hs. lia. }
        rewrite Hf. destruct (read_part_data_safe max_off bs p Hp) as [S1 S2].
        destruct (read_part_data max_off bs p) as [al res]. cbn [fst snd] in *. split; [|split].
        -- split; [reflexivity|]. cbn [r_streams]. apply Forall_upd_nth; [assumption|]. intros a Ha. exact Ha.
        -- assumption.
        -- destruct res; cbn [obnd]; try discriminate. contradiction.
      * cbn [fst snd]. split; [split; assumption|]. split; [constructor | discriminate].
    + cbn [fst snd]. split; [split; assumption|]. split; [constructor | discriminate].
  - cbn [fst snd]. split; [split; assumption|]. unfold get_part_by_id. rewrite nthS_eq.
    destruct (nthN (r_streams rd) sid) as [rs|] eqn:E1; [|cbn [fst snd]; split; [constructor | discriminate]].
    rewrite nthS_eq. destruct (nthN (rs_parts rs) pid) as [p|] eqn:E2; [|cbn [fst snd]; split; [constructor | discriminate]].
    assert (Hp : p_size p <= lenN bs).
    { apply nthN_in in E1. apply nthN_in in E2. rewrite Forall_forall in Hs. specialize (Hs rs E1).
      unfold rs_fits in Hs. rewrite Forall_forall in Hs. specialize (Hs p E2). unfold part_fits in Hs. lia. }
    rewrite Hf. destruct (read_part_data_safe max_off bs p Hp) as [S1 S2].
    destruct (read_part_data max_off bs p) as [al res]. cbn [fst snd] in *. split; [assumption|].
    destruct res; cbn [obnd]; try discriminate. contradiction.
Qed.

Theorem reads_alloc_bounded_proof : forall max_off bs rd, snd (deserialize max_off bs) = Ok rd ->
  forall rops, Forall (fun x => Forall (fun a => a <= lenN bs) (fst x) /\ snd x <> Panic) (rrun max_off rd rops).
Proof.
  intros max_off bs rd H rops. destruct (deserialize_safe max_off bs) as [_ S]. rewrite H in S. clear H.
  revert rd S. induction rops as [|o r]; intros rd S; cbn [rrun]; [constructor|].
  destruct (rstep_safe max_off bs rd o S) as (S1 & S2 & S3).
  destruct (rstep max_off rd o) as [rd' x]. cbn [fst snd] in *. constructor; [split; assumption|]. apply IHr. assumption.
Qed.

Theorem open_ok_iff_proof : forall max_off bs,
  (exists rd, snd (deserialize max_off bs) = Ok rd) <->
  (8 <= lenN bs /\
   let fsz := le_value (skipnN (lenN bs - 8) bs) in
   fsz <= lenN bs - 8 /\ lenN bs - 8 - fsz <= max_off /\
   exists sts, parse_footer (lenN bs - 8 - fsz) (firstnN fsz (skipnN (lenN bs - 8 - fsz) bs)) = Ok sts).
Proof.
  intros max_off bs. fold (footer_len bs). cbv zeta. destruct (lenN bs <? 8) eqn:E.
  - rewrite deserialize_short by lia. cbn [snd]. split; [intros [rd H]; discriminate | intros [H _]; lia].
  - rewrite deserialize_unfold by lia. cbv zeta.
    destruct (lenN bs - 8 <? footer_len bs) eqn:E1.
    { cbn [snd]. split; [intros [rd H]; discriminate | intros (_ & H & _); lia]. }
    destruct (max_off <? lenN bs - 8 - footer_len bs) eqn:E2.
    { cbn [snd]. split; [intros [rd H]; discriminate | intros (_ & _ & H & _); lia]. }
    cbn [snd].
    destruct (parse_footer (lenN bs - 8 - footer_len bs) (firstnN (footer_len bs) (skipnN (lenN bs - 8 - footer_len bs) bs)))
      as [sts| |]; cbn [obnd].
    + split; [intros _ | intros _; eexists; reflexivity]. repeat split; try lia. eexists; reflexivity.
    + split; [intros [rd H]; discriminate | intros (_ & _ & _ & sts & H); discriminate].
    + split; [intros [rd H]; discriminate | intros (_ & _ & _ & sts & H); discriminate].
Qed.

Theorem prefix_rejected_partial_proof : forall bs n max_off, n <= lenN bs ->
  n < 8 \/ n - 8 < le_value (skipnN (n - 8) (firstnN n bs)) ->
  deserialize max_off (firstnN n bs) = ([], Err).
Proof.
  intros bs n max_off Hn H. pose proof (lenN_firstnN n bs Hn) as L.
  destruct (n <? 8) eqn:E.
  - apply deserialize_short. lia.
  - destruct H as [H | H]; [lia|]. rewrite deserialize_unfold by lia. cbv zeta. unfold footer_len. rewrite L.
    destruct (n - 8 <? le_value (skipnN (n - 8) (firstnN n bs))) eqn:E1; [reflexivity | lia].
Qed.

Lemma le_value_app : forall a b, le_value (a ++ b) = le_value a + 256 ^ lenN a * le_value b.
Proof.
  induction a; intros b; cbn [app le_value].
  - change (lenN (@nil N)) with 0. change (256 ^ 0) with 1. lia.
  - rewrite IHa, lenN_cons. replace (1 + lenN a0) with (N.succ (lenN a0)) by lia. rewrite N.pow_succ_r'. lia.
Qed.

Lemma firstn_le_bytes : forall j n v, (j <= n)%nat -> firstn j (le_bytes n v) = le_bytes j v.
Proof.
  induction j; intros n v H; [reflexivity|]. destruct n; [lia|]. cbn [le_bytes firstn]. rewrite IHj by lia. reflexivity.
Qed.

Theorem prefix_rejected_trailer_partial_proof : forall w k max_off, 1 <= k <= 7 ->
  lenN (footer_of w) < 256 ^ (8 - k) ->
  lenN (close w) <= 256 ^ k * lenN (footer_of w) ->
  deserialize max_off (firstnN (lenN (close w) - k) (close w)) = ([], Err).
Proof.
  intros w k max_off Hk HF HA. pose proof (close_len w) as HL.
  set (DF := w_bytes w ++ footer_of w). set (F := lenN (footer_of w)) in *.
  assert (HC : close w = DF ++ le_bytes 8 F) by (unfold close, DF, write_fixed_u64; cbv zeta; rewrite app_assoc; reflexivity).
  assert (HDF : lenN DF = lenN (close w) - 8) by (unfold DF; rewrite lenN_app; fold F; lia).
  assert (HP : firstnN (lenN (close w) - k) (close w) = DF ++ le_bytes (N.to_nat (8 - k)) F).
  { rewrite HC at 2. unfold firstnN. rewrite firstn_app. rewrite firstn_all2 by (unfold lenN in *; lia).
    f_equal. replace (N.to_nat (lenN (close w) - k) - length DF)%nat with (N.to_nat (8 - k)) by (unfold lenN in *; lia).
    apply firstn_le_bytes. lia. }
  apply prefix_rejected_partial_proof; [lia|].
  destruct (lenN (close w) - k <? 8) eqn:E; [left; lia | right].
  rewrite HP. unfold skipnN. rewrite skipn_app.
  replace (N.to_nat (lenN (close w) - k - 8) - length DF)%nat with 0%nat by (unfold lenN in *; lia).
  cbn [skipn]. rewrite le_value_app, le_value_bytes.
  replace (N.of_nat (N.to_nat (8 - k))) with (8 - k) by lia. rewrite (N.mod_small F) by assumption.
  assert (HU : lenN (skipn (N.to_nat (lenN (close w) - k - 8)) DF) = k).
  { unfold lenN in *. rewrite skipn_length. lia. }
  rewrite HU. lia.
Qed.
