(* Container_proofs.v - lemmas about model/Container.v (Archive writer / reader) for C13 and C14 *)
From Ragc Require Import Mach Consts_archive Varint Container Varint_proofs.
From Coq Require Import Lia ZifyBool ZifyN ZifyNat.
Arguments N.add : simpl never.
Arguments N.sub : simpl never.
Arguments N.mul : simpl never.
Arguments N.shiftl : simpl never.
Arguments N.shiftr : simpl never.
Arguments N.land : simpl never.
Arguments N.modulo : simpl never.
Arguments N.div : simpl never.
Arguments N.pow : simpl never.
Arguments N.of_nat : simpl never.
Arguments N.to_nat : simpl never.
Arguments write_varint : simpl never.
Arguments read_varint : simpl never.

Ltac aconsts := unfold ar_len_field_seek, ar_len_field_buf, ar_len_field_sub, ar_name_term_w, ar_name_term_r,
  ar_empty_meta in *.

(* ------------------------------------------------------------------ lists *)
Lemma nthS_eq : forall {A} (l : list A) i, nthS l i = nthN l i.
Proof.
  intros. unfold nthS, nthN, lenN. destruct (i <? N.of_nat (length l)) eqn:E; [reflexivity|].
  symmetry. apply nth_error_None. lia.
Qed.

Lemma skipnS_eq : forall {A} n (l : list A), skipnS n l = skipnN n l.
Proof.
  intros. unfold skipnS, skipnN, lenN. destruct (N.of_nat (length l) <=? n) eqn:E; [|reflexivity].
  symmetry. apply skipn_all2. lia.
Qed.

Lemma name_eqb_eq : forall a b, name_eqb a b = true <-> a = b.
Proof.
  unfold name_eqb. induction a; destruct b; cbn [list_eqb]; split; intro H; try reflexivity; try discriminate.
  - apply andb_prop in H. destruct H as [H1 H2]. apply N.eqb_eq in H1. apply IHa in H2. subst. reflexivity.
  - inversion H; subst. rewrite N.eqb_refl. cbn. apply IHa. reflexivity.
Qed.

Lemma name_eqb_refl : forall a, name_eqb a a = true.
Proof. intros. apply name_eqb_eq. reflexivity. Qed.

Lemma name_eqb_neq : forall a b, name_eqb a b = false <-> a <> b.
Proof.
  intros. split; intro H.
  - intro E. apply name_eqb_eq in E. congruence.
  - destruct (name_eqb a b) eqn:E; [|reflexivity]. apply name_eqb_eq in E. contradiction.
Qed.

Lemma upd_nth_length : forall {A} n (f : A -> A) l, length (upd_nth n f l) = length l.
Proof. induction n; destruct l; cbn [upd_nth length]; try reflexivity. rewrite IHn. reflexivity. Qed.

Lemma lenN_upd_nth : forall {A} n (f : A -> A) l, lenN (upd_nth n f l) = lenN l.
Proof. intros. unfold lenN. rewrite upd_nth_length. reflexivity. Qed.

Lemma map_upd_nth : forall {A B} (g : A -> B) (f : A -> A) (f' : B -> B) n l,
  (forall x, g (f x) = f' (g x)) -> map g (upd_nth n f l) = upd_nth n f' (map g l).
Proof.
  induction n; destruct l; intros H; cbn [upd_nth map]; try reflexivity.
  - rewrite H. reflexivity.
  - rewrite IHn by assumption. reflexivity.
Qed.

Lemma map_upd_nth_id : forall {A B} (g : A -> B) (f : A -> A) n l,
  (forall x, g (f x) = g x) -> map g (upd_nth n f l) = map g l.
Proof.
  induction n; destruct l; intros H; cbn [upd_nth map]; try reflexivity.
  - rewrite H. reflexivity.
  - rewrite IHn by assumption. reflexivity.
Qed.

Lemma Forall2_upd_nth : forall {A B} (P : A -> B -> Prop) f g n l1 l2,
  Forall2 P l1 l2 -> (forall a b, P a b -> P (f a) (g b)) -> Forall2 P (upd_nth n f l1) (upd_nth n g l2).
Proof.
  induction n; intros l1 l2 H Hf; destruct H; cbn [upd_nth]; constructor; auto.
Qed.

Lemma Forall_upd_nth : forall {A} (P : A -> Prop) f n l,
  Forall P l -> (forall a, P a -> P (f a)) -> Forall P (upd_nth n f l).
Proof.
  induction n; intros l H Hf; destruct H; cbn [upd_nth]; constructor; auto.
Qed.

Lemma Forall2_len : forall {A B} (P : A -> B -> Prop) l1 l2, Forall2 P l1 l2 -> length l1 = length l2.
Proof. intros A B P l1 l2 H. induction H; cbn [length]; congruence. Qed.

Lemma Forall2_lenN : forall {A B} (P : A -> B -> Prop) l1 l2, Forall2 P l1 l2 -> lenN l1 = lenN l2.
Proof. intros. unfold lenN. erewrite Forall2_len by eassumption. reflexivity. Qed.

Lemma Forall2_nth_l : forall {A B} (P : A -> B -> Prop) l1 l2 n a,
  Forall2 P l1 l2 -> nth_error l1 n = Some a -> exists b, nth_error l2 n = Some b /\ P a b.
Proof.
  intros A B P l1 l2 n a H. revert n. induction H; intros n Hn; destruct n; cbn [nth_error] in *; try discriminate.
  - inversion Hn; subst. eauto.
  - auto.
Qed.

Lemma Forall2_nth_none : forall {A B} (P : A -> B -> Prop) l1 l2 n,
  Forall2 P l1 l2 -> nth_error l1 n = None -> nth_error l2 n = None.
Proof.
  intros. apply nth_error_None. apply nth_error_None in H0. erewrite <- Forall2_len by eassumption. assumption.
Qed.

Lemma Forall2_app_one : forall {A B} (P : A -> B -> Prop) l1 l2 a b,
  Forall2 P l1 l2 -> P a b -> Forall2 P (l1 ++ [a]) (l2 ++ [b]).
Proof. intros. apply Forall2_app; [assumption | constructor; [assumption | constructor]]. Qed.

Lemma Forall2_impl : forall {A B} (P Q : A -> B -> Prop) l1 l2,
  (forall a b, P a b -> Q a b) -> Forall2 P l1 l2 -> Forall2 Q l1 l2.
Proof. intros A B P Q l1 l2 H F. induction F; constructor; auto. Qed.

Lemma firstnN_app_exact : forall {A} (a b : list A) n, lenN a = n -> firstnN n (a ++ b) = a.
Proof. intros. unfold firstnN. apply firstn_app_exact. unfold lenN in *. lia. Qed.

Lemma skipnN_app_exact : forall {A} (a b : list A) n, lenN a = n -> skipnN n (a ++ b) = b.
Proof. intros. unfold skipnN. apply skipn_app_exact. unfold lenN in *. lia. Qed.

Lemma lenN_firstnN : forall {A} n (l : list A), n <= lenN l -> lenN (firstnN n l) = n.
Proof. intros. unfold lenN, firstnN in *. rewrite firstn_length. lia. Qed.

Lemma lenN_skipnN : forall {A} n (l : list A), lenN (skipnN n l) = lenN l - n.
Proof. intros. unfold lenN, skipnN. rewrite skipn_length. lia. Qed.

Lemma firstnN_skipnN : forall {A} n (l : list A), firstnN n l ++ skipnN n l = l.
Proof. intros. apply firstn_skipn. Qed.

Lemma concat_rev_cons2 : forall {A} (a b : list A) l, concat (rev (a :: b :: l)) = concat (rev l) ++ b ++ a.
Proof.
  intros. cbn [rev]. rewrite !concat_app. cbn [concat]. rewrite !app_nil_r, <- app_assoc. reflexivity.
Qed.

Lemma lenN_flat_map_ge : forall {A B} (f : A -> list B) l, (forall x, 1 <= lenN (f x)) -> lenN l <= lenN (flat_map f l).
Proof.
  induction l; intros H; cbn [flat_map].
  - unfold lenN. cbn. lia.
  - rewrite lenN_app, lenN_cons. pose proof (H a). specialize (IHl H). lia.
Qed.
