(* OpenStage_proofs.v - C14O: lemmas about model/OpenStage.v (Decompressor::open after Archive::open) *)
From Ragc Require Import Mach Consts_archive Consts_collection Consts_agcv3 Consts_open.
From Ragc Require Import Varint Container CVarint Names Collection OpenStage.
From Ragc Require Import Varint_proofs Container_proofs CVarint_proofs Names_proofs.
From Coq Require Import Lia ZifyBool ZifyN ZifyNat.
Open Scope N_scope.
Arguments N.add : simpl never.
Arguments N.sub : simpl never.
Arguments N.mul : simpl never.
Arguments N.shiftl : simpl never.
Arguments N.shiftr : simpl never.
Arguments N.land : simpl never.
Arguments N.modulo : simpl never.
Arguments N.div : simpl never.
Arguments N.pow : simpl never.
Arguments N.of_nat : simpl never.
Arguments N.to_nat : simpl never.
Arguments write_varint : simpl never.
Arguments read_varint : simpl never.

(* ------------------------------------------------------------------ the logging monad *)
Lemma lbind_eq {A B} (x : lres A) (f : A -> lres B) :
  lbind x f = match snd x with
              | O2ok a => (fst x ++ fst (f a), snd (f a))
              | O2err e => (fst x, O2err e)
              | O2panic => (fst x, O2panic)
              end.
Proof. unfold lbind. destruct (snd x); reflexivity. Qed.

Lemma lbind_ext {A B} (x : lres A) (f g : A -> lres B) : (forall a, f a = g a) -> lbind x f = lbind x g.
Proof. intro H. unfold lbind. destruct (snd x); try reflexivity. rewrite H. reflexivity. Qed.

Lemma lbind_ok_inv {A B} (x : lres A) (f : A -> lres B) b :
  snd (lbind x f) = O2ok b -> exists a, snd x = O2ok a /\ snd (f a) = O2ok b.
Proof. rewrite lbind_eq. destruct (snd x) as [a|e|]; cbn [snd]; intro H; try discriminate. exists a. split; [reflexivity | exact H]. Qed.

Lemma lbind_ok {A B} (x : lres A) (f : A -> lres B) a :
  snd x = O2ok a -> lbind x f = (fst x ++ fst (f a), snd (f a)).
Proof. intro H. rewrite lbind_eq, H. reflexivity. Qed.

Lemma lbind_err {A B} (x : lres A) (f : A -> lres B) e :
  snd x = O2err e -> lbind x f = (fst x, O2err e).
Proof. intro H. rewrite lbind_eq, H. reflexivity. Qed.

Lemma lbind_panic_inv {A B} (x : lres A) (f : A -> lres B) :
  snd (lbind x f) = O2panic -> snd x = O2panic \/ exists a, snd x = O2ok a /\ snd (f a) = O2panic.
Proof.
  rewrite lbind_eq. destruct (snd x) as [a|e|]; cbn [snd]; intro H; try discriminate.
  - right. exists a. split; [reflexivity | exact H].
  - left. reflexivity.
Qed.

Lemma lbind_safe {A B} (x : lres A) (f : A -> lres B) :
  snd x <> O2panic -> (forall a, snd x = O2ok a -> snd (f a) <> O2panic) -> snd (lbind x f) <> O2panic.
Proof. intros H1 H2 H. apply lbind_panic_inv in H. destruct H as [H | (a & Ha & H)]; [exact (H1 H) | exact (H2 a Ha H)]. Qed.

Lemma lbind_log {A B} (P : alloc -> Prop) (x : lres A) (f : A -> lres B) :
  Forall P (fst x) -> (forall a, snd x = O2ok a -> Forall P (fst (f a))) -> Forall P (fst (lbind x f)).
Proof.
  intros H1 H2. rewrite lbind_eq. destruct (snd x) as [a|e|] eqn:E; cbn [fst]; try assumption.
  apply Forall_app. split; [assumption | apply H2; reflexivity].
Qed.

(* ------------------------------------------------------------------ CollectionVarInt::decode: where the profiles differ *)
Lemma land_mod256 a m : N.land 255 m = m -> N.land a m = N.land (a mod 256) m.
Proof. intro H. rewrite <- (land255 a), <- N.land_assoc, H. reflexivity. Qed.

Lemma cls_mod256 f : cls f = cls (f mod 256).
Proof.
  unfold cls, cv_mask_1, cv_mask_2, cv_mask_3, cv_mask_4.
  rewrite (land_mod256 f 128), (land_mod256 f 192), (land_mod256 f 224), (land_mod256 f 240) by reflexivity.
  reflexivity.
Qed.

Lemma cls_arith_mod f : cls f = cls_arith (f mod 256).
Proof. rewrite cls_mod256. apply cls_spec. apply N.mod_lt. discriminate. Qed.

Lemma cv5_num_arith p1 p2 p3 p4 :
  N.shiftl (N.shiftl (N.shiftl p1 8 + p2) 8 + p3) 8 + p4 = ((p1 * 256 + p2) * 256 + p3) * 256 + p4.
Proof. rewrite !shl_mul. change (2 ^ 8) with 256. reflexivity. Qed.

Lemma cv_decode_panic_iff v : cv_decode v = Panic <-> cv5_overflows v = true.
Proof.
  destruct v as [|f r]; [cbn; split; discriminate|].
  rewrite cv_decode_cls, cls_arith_mod. unfold cv5_overflows, cls_arith.
  destruct (f mod 256 <? 128) eqn:E1.
  { cbv beta iota. destruct r as [|p1 [|p2 [|p3 [|p4 r']]]]; split; try discriminate;
      intro H; apply andb_true_iff in H; destruct H as [H _]; lia. }
  destruct (f mod 256 <? 192) eqn:E2.
  { cbv beta iota. destruct r as [|p1 [|p2 [|p3 [|p4 r']]]]; split; try discriminate;
      intro H; apply andb_true_iff in H; destruct H as [H _]; lia. }
  destruct (f mod 256 <? 224) eqn:E3.
  { cbv beta iota. destruct r as [|p1 [|p2 [|p3 [|p4 r']]]]; split; try discriminate;
      intro H; apply andb_true_iff in H; destruct H as [H _]; lia. }
  destruct (f mod 256 <? 240) eqn:E4.
  { cbv beta iota. destruct r as [|p1 [|p2 [|p3 [|p4 r']]]]; split; try discriminate;
      intro H; apply andb_true_iff in H; destruct H as [H _]; lia. }
  cbv beta iota. destruct r as [|p1 [|p2 [|p3 [|p4 r']]]]; try (split; discriminate).
  rewrite cv5_num_arith. unfold add_u32.
  destruct (((p1 * 256 + p2) * 256 + p3) * 256 + p4 + cv_thr_4 <? two32) eqn:E5.
  - split; [discriminate|]. intro H. apply andb_true_iff in H. destruct H as [_ H]. lia.
  - split; [|reflexivity]. intros _. apply andb_true_iff. split; lia.
Qed.

Lemma cv5_overflows_num v : cv5_overflows v = true -> exists x, cv5_num v = Some x.
Proof.
  destruct v as [|f [|p1 [|p2 [|p3 [|p4 r]]]]]; cbn [cv5_overflows]; try discriminate. intros _. eexists. reflexivity.
Qed.

Lemma cv_decode_p_dev v : cv_decode_p Dev v = cv_decode v.
Proof. unfold cv_decode_p. destruct (cv_decode v); reflexivity. Qed.

Lemma cv_decode_p_same pf v : cv5_overflows v = false -> cv_decode_p pf v = cv_decode v.
Proof.
  intro H. unfold cv_decode_p. destruct (cv_decode v) eqn:E; try reflexivity.
  apply cv_decode_panic_iff in E. congruence.
Qed.

Lemma cv_decode_p_release_safe v : cv_decode_p Release v <> Panic.
Proof.
  unfold cv_decode_p. destruct (cv_decode v) eqn:E; try discriminate.
  apply cv_decode_panic_iff, cv5_overflows_num in E. destruct E as [[num r] E]. rewrite E.
  change CV5_ADD_FORM with 0. cbv iota. discriminate.
Qed.

Lemma cv_decode_p_dev_panic v : cv_decode_p Dev v = Panic <-> cv5_overflows v = true.
Proof. rewrite cv_decode_p_dev. apply cv_decode_panic_iff. Qed.

(* every form consumes at least one byte *)
Lemma cv_decode_consumes v n r : cv_decode v = Ok (n, r) -> lenN r < lenN v.
Proof.
  destruct v as [|f t]; [cbn; discriminate|]. rewrite cv_decode_cls. unfold cls.
  destruct (N.land f cv_mask_1 =? cv_pref_1).
  { intro H. inversion H; subst. rewrite Varint_proofs.lenN_cons. lia. }
  destruct (N.land f cv_mask_2 =? cv_pref_2).
  { destruct t as [|p1 t]; [discriminate|]. intro H. inversion H; subst. rewrite !Varint_proofs.lenN_cons. lia. }
  destruct (N.land f cv_mask_3 =? cv_pref_3).
  { destruct t as [|p1 [|p2 t]]; try discriminate. intro H. inversion H; subst. rewrite !Varint_proofs.lenN_cons. lia. }
  destruct (N.land f cv_mask_4 =? cv_pref_4).
  { destruct t as [|p1 [|p2 [|p3 t]]]; try discriminate. intro H. inversion H; subst. rewrite !Varint_proofs.lenN_cons. lia. }
  destruct t as [|p1 [|p2 [|p3 [|p4 t]]]]; try discriminate.
  destruct (add_u32 _ _); [|discriminate]. intro H. inversion H; subst. rewrite !Varint_proofs.lenN_cons. lia.
Qed.

Lemma cv_decode_p_consumes pf v n r : cv_decode_p pf v = Ok (n, r) -> lenN r < lenN v.
Proof.
  unfold cv_decode_p. destruct (cv_decode v) as [[n' r']| |] eqn:E.
  - intro H. inversion H; subst. eapply cv_decode_consumes; eassumption.
  - discriminate.
  - change CV5_ADD_FORM with 0. cbv iota. destruct pf; [discriminate|].
    destruct v as [|f [|p1 [|p2 [|p3 [|p4 t]]]]]; cbn [cv5_num]; try discriminate.
    intro H. inversion H; subst. rewrite !Varint_proofs.lenN_cons. lia.
Qed.

(* ------------------------------------------------------------------ the string loop *)
Lemma dec_cbytes_no_panic ptr : dec_cbytes ptr <> Panic.
Proof.
  induction ptr as [|b r IH]; cbn [dec_cbytes]; [discriminate|].
  destruct (b =? 0); [discriminate|]. destruct (dec_cbytes r) as [[s r']| |]; cbn [obnd]; try discriminate. contradiction.
Qed.

Lemma dec_cbytes_len ptr s r : dec_cbytes ptr = Ok (s, r) -> lenN ptr = lenN s + 1 + lenN r.
Proof.
  revert s r. induction ptr as [|b t IH]; intros s r; cbn [dec_cbytes]; [discriminate|].
  destruct (b =? 0).
  - intro H. inversion H; subst. rewrite Varint_proofs.lenN_cons. change (lenN (@nil N)) with 0. lia.
  - destruct (dec_cbytes t) as [[s' r']| |]; cbn [obnd fst snd]; try discriminate.
    intro H. inversion H; subst. rewrite !Varint_proofs.lenN_cons. rewrite (IH _ _ eq_refl). lia.
Qed.

(* the part of the input before the NUL is exactly what was there: ptr = s ++ 0 :: r *)
Lemma dec_cbytes_split ptr s r : dec_cbytes ptr = Ok (s, r) -> ptr = s ++ 0 :: r /\ ~ In 0 s.
Proof.
  revert s r. induction ptr as [|b t IH]; intros s r; cbn [dec_cbytes]; [discriminate|].
  destruct (b =? 0) eqn:E.
  - intro H. inversion H; subst. apply N.eqb_eq in E. subst b. split; [reflexivity | intros []].
  - destruct (dec_cbytes t) as [[s' r']| |]; cbn [obnd fst snd]; try discriminate.
    intro H. inversion H; subst. destruct (IH _ _ eq_refl) as [I1 I2]. split; [cbn [app]; f_equal; exact I1|].
    intros [X | X]; [subst; discriminate | exact (I2 X)].
Qed.

Lemma dec_names_safe n : forall i ptr, snd (dec_names n i ptr) <> O2panic.
Proof.
  induction n as [|n IH]; intros i ptr; cbn [dec_names]; [cbn; discriminate|].
  destruct (dec_cbytes ptr) as [[s r]| |] eqn:E; [| cbn; discriminate | exact (fun _ => dec_cbytes_no_panic _ E)].
  destruct (utf8_valid s); [|cbn; discriminate].
  apply lbind_safe; [cbn; discriminate|]. intros _ _.
  apply lbind_safe; [apply IH|]. intros ns _. cbn. discriminate.
Qed.

(* the C03 decoder (Names.dec_strings) computes the same result *)
Lemma dec_names_strings n : forall i ptr,
  o2_outcome (snd (dec_names n i ptr)) = obnd (dec_strings n ptr) (fun tr => Ok (fst tr)).
Proof.
  induction n as [|n IH]; intros i ptr; cbn [dec_names dec_strings]; [reflexivity|].
  unfold dec_cstring. destruct (dec_cbytes ptr) as [[s r]| |] eqn:E; cbn [obnd fst snd]; try reflexivity.
  destruct (utf8_valid s); cbn [obnd fst snd]; [|reflexivity].
  rewrite lbind_eq. cbn [fst snd]. rewrite lbind_eq. specialize (IH (i + 1) r).
  destruct (snd (dec_names n (i + 1) r)) as [ns|e|]; cbn [snd o2_outcome] in *;
    destruct (dec_strings n r) as [[ns' r']| |]; cbn [obnd fst snd] in *; try discriminate; try reflexivity.
  inversion IH; subst. reflexivity.
Qed.

Definition names_alloc_ok (i bound : N) (a : alloc) : Prop :=
  match a with AName m => m < bound | ATable k => i < k <= i + bound | _ => False end.

Lemma dec_names_alloc n : forall i ptr, Forall (names_alloc_ok i (lenN ptr)) (fst (dec_names n i ptr)).
Proof.
  induction n as [|n IH]; intros i ptr; cbn [dec_names]; [constructor|].
  destruct (dec_cbytes ptr) as [[s r]| |] eqn:E; [| constructor | constructor].
  apply dec_cbytes_len in E.
  destruct (utf8_valid s).
  - apply lbind_log.
    + cbn [fst]. repeat constructor; cbn [names_alloc_ok]; lia.
    + intros _ _. apply lbind_log; [|intros; constructor].
      eapply Forall_impl; [|apply IH]. intros a. destruct a; cbn [names_alloc_ok]; lia.
  - cbn [fst]. repeat constructor. cbn [names_alloc_ok]. lia.
Qed.

Lemma deser_names_alloc pf v : Forall (stream_alloc_ok (lenN v)) (fst (deser_sample_names_p pf v)).
Proof.
  unfold deser_sample_names_p. destruct (cv_decode_p pf v) as [[n r]| |] eqn:E; [| constructor | constructor].
  apply cv_decode_p_consumes in E.
  eapply Forall_impl; [|apply dec_names_alloc]. intros a. destruct a; cbn [names_alloc_ok stream_alloc_ok]; lia.
Qed.

Lemma deser_names_release_safe v : snd (deser_sample_names_p Release v) <> O2panic.
Proof.
  unfold deser_sample_names_p. destruct (cv_decode_p Release v) as [[n r]| |] eqn:E.
  - apply dec_names_safe.
  - cbn. discriminate.
  - exfalso. exact (cv_decode_p_release_safe _ E).
Qed.

Lemma deser_names_dev_panic_iff v : snd (deser_sample_names_p Dev v) = O2panic <-> cv5_overflows v = true.
Proof.
  unfold deser_sample_names_p. rewrite <- cv_decode_p_dev_panic.
  destruct (cv_decode_p Dev v) as [[n r]| |]; cbn [snd]; split; try discriminate; try reflexivity.
  intro H. exfalso. exact (dec_names_safe _ _ _ H).
Qed.

Lemma deser_names_same pf v : cv5_overflows v = false -> deser_sample_names_p pf v = deser_sample_names_p Dev v.
Proof. intro H. unfold deser_sample_names_p. rewrite !cv_decode_p_same by assumption. reflexivity. Qed.

(* = Names.deser_sample_names (the C03 model of deserialize_sample_names, dev profile) *)
Lemma deser_names_c03 v :
  o2_outcome (snd (deser_sample_names_p Dev v)) = deser_sample_names v.
Proof.
  unfold deser_sample_names_p, deser_sample_names. rewrite cv_decode_p_dev.
  destruct (cv_decode v) as [[n r]| |]; cbn [obnd fst snd o2_outcome]; try reflexivity.
  rewrite dec_names_strings. destruct (dec_strings (clamp n r) r) as [[ns r']| |]; reflexivity.
Qed.

(* ------------------------------------------------------------------ the stages before the sample table *)
Ltac pconsts := unfold R_PARAMS_OFF_K, R_PARAMS_OFF_MML, R_PARAMS_OFF_PACK, R_PARAMS_OFF_SEGSIZE, R_PARAMS_MIN_LEN,
  R_PARAMS_SEGSIZE_FROM_LEN, R_PARAMS_DEFAULT_SEGSIZE, R_PARAMS_NUM_PARTS, R_PARAMS_PART_ID, R_PARAMS_FIELD_BYTES in *.

Lemma u32_le_at_some data off : off + 4 <= lenN data -> u32_le_at data off = Some (le32_at data off).
Proof. intro H. unfold u32_le_at, le32_at. pconsts. destruct (off + 4 <=? lenN data) eqn:E; [reflexivity | lia]. Qed.

Lemma get_part_by_id_not_none mo rd sid pid : snd (get_part_by_id mo rd sid pid) <> Ok None.
Proof.
  unfold get_part_by_id. destruct (nthS (r_streams rd) sid) as [s|]; [|cbn; discriminate].
  destruct (nthS (rs_parts s) pid) as [p|]; [|cbn; discriminate].
  destruct (read_part_data mo (r_file rd) p) as [al res]. cbn [snd]. destruct res; cbn [obnd]; discriminate.
Qed.

Definition file_log (bs : list N) (l : list alloc) : Prop :=
  exists fl, l = map AFile fl /\ Forall (fun a => a <= lenN bs) fl.

Lemma file_log_nil bs : file_log bs [].
Proof. exists []. split; [reflexivity | constructor]. Qed.
Lemma file_log_map bs fl : Forall (fun a => a <= lenN bs) fl -> file_log bs (map AFile fl).
Proof. intro H. exists fl. split; [reflexivity | exact H]. Qed.
Lemma file_log_app bs a b : file_log bs a -> file_log bs b -> file_log bs (a ++ b).
Proof.
  intros (fa & Ea & Fa) (fb & Eb & Fb). exists (fa ++ fb). subst. split; [symmetry; apply map_app | apply Forall_app; split; assumption].
Qed.

(* what load_params returns, declaratively *)
Lemma load_params_ok_iff mo rd prm :
  snd (load_params mo rd) = O2ok prm <->
  exists sid data meta, get_stream_id rd R_NAME_PARAMS = Some sid /\ get_num_parts rd sid = 1 /\
    snd (get_part_by_id mo rd sid 0) = Ok (Some (data, meta)) /\ 12 <= lenN data /\ prm = params_fields data.
Proof.
  unfold load_params. destruct (get_stream_id rd R_NAME_PARAMS) as [sid|].
  2:{ cbn [snd]. split; [discriminate | intros (s & d & m & H & _); discriminate]. }
  pconsts. destruct (get_num_parts rd sid =? 1) eqn:E1; cbn [negb].
  2:{ cbn [snd]. split; [discriminate | intros (s & d & m & H & H2 & _)]. inversion H; subst. lia. }
  cbv zeta. cbn [snd].
  destruct (snd (get_part_by_id mo rd sid 0)) as [[[data meta]|]| |] eqn:E2.
  - destruct (lenN data <? 12) eqn:E3.
    { split; [discriminate | intros (s & d & m & H & _ & H3 & H4 & _)]. inversion H; subst. rewrite E2 in H3. inversion H3; subst. lia. }
    rewrite !u32_le_at_some by lia. unfold params_fields.
    destruct (16 <=? lenN data) eqn:E4.
    + rewrite u32_le_at_some by lia. split.
      * intro H. inversion H; subst. exists sid, data, meta. rewrite E4. repeat split; try reflexivity; try exact E2; lia.
      * intros (s & d & m & H & _ & H3 & _ & H5). inversion H; subst. rewrite E2 in H3. inversion H3; subst. rewrite E4. reflexivity.
    + split.
      * intro H. inversion H; subst. exists sid, data, meta. rewrite E4. repeat split; try reflexivity; try exact E2; lia.
      * intros (s & d & m & H & _ & H3 & _ & H5). inversion H; subst. rewrite E2 in H3. inversion H3; subst. rewrite E4. reflexivity.
  - split; [discriminate | intros (s & d & m & H & _ & H3 & _)]. inversion H; subst. rewrite E2 in H3. discriminate.
  - split; [discriminate | intros (s & d & m & H & _ & H3 & _)]. inversion H; subst. rewrite E2 in H3. discriminate.
  - split; [discriminate | intros (s & d & m & H & _ & H3 & _)]. inversion H; subst. rewrite E2 in H3. discriminate.
Qed.

Lemma load_params_safe mo bs rd : rd_ok bs rd ->
  file_log bs (fst (load_params mo rd)) /\ snd (load_params mo rd) <> O2panic.
Proof.
  intro H. unfold load_params. destruct (get_stream_id rd R_NAME_PARAMS) as [sid|]; [|split; [apply file_log_nil | cbn; discriminate]].
  destruct (negb (get_num_parts rd sid =? R_PARAMS_NUM_PARTS)); [split; [apply file_log_nil | cbn; discriminate]|].
  cbv zeta. cbn [fst snd].
  destruct (rstep_safe mo bs rd (RById sid R_PARAMS_PART_ID) H) as (_ & S2 & S3). cbn [rstep snd] in S2, S3.
  pose proof (get_part_by_id_not_none mo rd sid R_PARAMS_PART_ID) as NN.
  split; [apply file_log_map; exact S2|].
  destruct (snd (get_part_by_id mo rd sid R_PARAMS_PART_ID)) as [[[data meta]|]| |]; try contradiction; try discriminate.
  pconsts. destruct (lenN data <? 12) eqn:E3; [discriminate|].
  rewrite !u32_le_at_some by lia. destruct (16 <=? lenN data) eqn:E4; [|discriminate].
  rewrite u32_le_at_some by lia. discriminate.
Qed.

Lemma prepare_ok_iff rd sid :
  snd (prepare rd) = O2ok sid <->
  get_stream_id rd R_NAME_COLL_0 = Some sid /\ get_stream_id rd R_NAME_COLL_1 <> None /\ get_stream_id rd R_NAME_COLL_2 <> None.
Proof.
  unfold prepare. change R_PREP_CHECK_ORDER with [0; 1; 2]. cbn [prep_checks coll_name].
  destruct (get_stream_id rd R_NAME_COLL_0) as [s0|]; [|cbn; split; [discriminate | intros [H _]; discriminate]].
  destruct (get_stream_id rd R_NAME_COLL_1) as [s1|]; [|cbn; split; [discriminate | intros (_ & H & _); contradiction]].
  destruct (get_stream_id rd R_NAME_COLL_2) as [s2|]; [|cbn; split; [discriminate | intros (_ & _ & H); contradiction]].
  cbn. split.
  - intro H. inversion H; subst. repeat split; discriminate.
  - intros [H _]. inversion H; subst. reflexivity.
Qed.

Lemma prepare_props rd : fst (prepare rd) = [] /\ snd (prepare rd) <> O2panic.
Proof.
  unfold prepare. destruct (prep_checks rd R_PREP_CHECK_ORDER); [split; [reflexivity | cbn; discriminate]|].
  destruct (get_stream_id rd R_NAME_COLL_0); split; try reflexivity; cbn; discriminate.
Qed.

Lemma load_samples_ok_iff mo zd rd sid rv :
  snd (load_samples_stream mo zd rd sid) = O2ok rv <->
  exists frame raw, snd (snd (get_part mo rd sid)) = Ok (Some (frame, raw)) /\ zd frame = Some (snd rv) /\
    lenN (snd rv) = raw /\ fst rv = fst (get_part mo rd sid).
Proof.
  unfold load_samples_stream. cbv zeta.
  destruct (snd (snd (get_part mo rd sid))) as [[[frame raw]|]| |] eqn:E.
  - destruct (zd frame) as [v|] eqn:Z.
    + cbn [snd]. destruct (lenN v =? raw) eqn:E2.
      * split.
        -- intro H. inversion H; subst. cbn [fst snd]. exists frame, raw. repeat split; try assumption; lia.
        -- intros (f & r & H1 & H2 & H3 & H4). inversion H1; subst. rewrite Z in H2. inversion H2; subst.
           destruct rv as [a b]. cbn [fst snd] in *. subst. reflexivity.
      * split; [discriminate|]. intros (f & r & H1 & H2 & H3 & H4). inversion H1; subst. rewrite Z in H2. inversion H2; subst. lia.
    + cbn [snd]. split; [discriminate|]. intros (f & r & H1 & H2 & _). inversion H1; subst. rewrite Z in H2. discriminate.
  - cbn [snd]. split; [discriminate | intros (f & r & H1 & _); discriminate].
  - cbn [snd]. split; [discriminate | intros (f & r & H1 & _); discriminate].
  - cbn [snd]. split; [discriminate | intros (f & r & H1 & _); discriminate].
Qed.

Lemma read_part_data_len mo file p d m : snd (read_part_data mo file p) = Ok (d, m) -> lenN d <= lenN file.
Proof.
  unfold read_part_data. destruct (p_size p =? 0).
  { cbn [snd]. intro H. inversion H; subst. change (lenN (@nil N)) with 0. lia. }
  destruct (file_seek_start mo (p_off p)) as [pos|]; [|cbn; discriminate].
  destruct (read_varint (skipnS pos file)) as [[[meta k] c]| |] eqn:E; [|cbn; discriminate|cbn; discriminate].
  cbn [snd]. cbv zeta. destruct (lenN (firstnS (p_size p) c) =? p_size p); [|discriminate].
  intro H. inversion H; subst. apply read_varint_consumes in E.
  rewrite firstnS_eq. rewrite skipnS_eq in E. unfold firstnN, skipnN, lenN in *.
  rewrite firstn_length. rewrite skipn_length in E. lia.
Qed.

Lemma get_part_len mo rd sid d m : snd (snd (get_part mo rd sid)) = Ok (Some (d, m)) -> lenN d <= lenN (r_file rd).
Proof.
  unfold get_part. destruct (nthS (r_streams rd) sid) as [s|]; [|cbn; discriminate].
  destruct (nthS (rs_parts s) (rs_cur s)) as [p|]; [|cbn; discriminate].
  destruct (read_part_data mo (r_file rd) p) as [al res] eqn:E. cbn [snd].
  destruct res as [[d' m']| |]; cbn [obnd]; try discriminate. intro H. inversion H; subst.
  eapply read_part_data_len. rewrite E. reflexivity.
Qed.

(* the log of load_batch_sample_names up to the decoded stream *)
Lemma load_samples_safe mo zd bs rd sid : rd_ok bs rd ->
  snd (load_samples_stream mo zd rd sid) <> O2panic /\
  (file_log bs (fst (load_samples_stream mo zd rd sid)) \/
   exists l frame v, fst (load_samples_stream mo zd rd sid) = l ++ [AZstd (lenN v)] /\ file_log bs l /\
                     zd frame = Some v /\ lenN frame <= lenN bs) /\
  (forall rv, snd (load_samples_stream mo zd rd sid) = O2ok rv ->
   exists l frame, fst (load_samples_stream mo zd rd sid) = l ++ [AZstd (lenN (snd rv))] /\ file_log bs l /\
                   zd frame = Some (snd rv) /\ lenN frame <= lenN bs).
Proof.
  intro H. destruct (rstep_safe mo bs rd (RGet sid) H) as (_ & S2 & S3). cbn [rstep] in S2, S3.
  pose proof (get_part_len mo rd sid) as GL. destruct H as [Hf _]. rewrite Hf in GL.
  unfold load_samples_stream. cbv zeta.
  destruct (snd (snd (get_part mo rd sid))) as [[[frame raw]|]| |] eqn:E; try contradiction.
  - specialize (GL _ _ eq_refl). destruct (zd frame) as [v|] eqn:Z.
    + cbn [fst snd]. split; [destruct (lenN v =? raw); discriminate|]. split.
      * right. exists (map AFile (fst (snd (get_part mo rd sid)))), frame, v. repeat split; try assumption. apply file_log_map. exact S2.
      * intros rv Hrv. destruct (lenN v =? raw); [|discriminate]. inversion Hrv; subst. cbn [snd].
        exists (map AFile (fst (snd (get_part mo rd sid)))), frame. repeat split; try assumption. apply file_log_map. exact S2.
    + cbn [fst snd]. split; [discriminate|]. split; [left; apply file_log_map; exact S2 | discriminate].
  - cbn [fst snd]. split; [discriminate|]. split; [left; apply file_log_map; exact S2 | discriminate].
  - cbn [fst snd]. split; [discriminate|]. split; [left; apply file_log_map; exact S2 | discriminate].
Qed.

(* ------------------------------------------------------------------ open_pre: structure *)
Definition stage0 (mo : N) (file : list N) : lres reader :=
  (map AFile (fst (deserialize mo file)),
   match snd (deserialize mo file) with Ok rd => O2ok rd | Err => O2err e_archive | Panic => O2panic end).

Lemma open_pre_unfold mo zd file :
  open_pre mo zd file =
  lbind (stage0 mo file) (fun rd =>
  lbind (load_params mo rd) (fun prm =>
  lbind (prepare rd) (fun sid =>
  lbind (load_samples_stream mo zd rd sid) (fun rv =>
  lret (mkPre (fst (fst prm)) (snd (fst prm)) (snd prm) (fst rv) (snd rv)))))).
Proof.
  unfold open_pre, stage0. cbv zeta. apply lbind_ext. intro rd. apply lbind_ext. intros [[ss k] mml]. reflexivity.
Qed.

Lemma stage0_props mo file :
  file_log file (fst (stage0 mo file)) /\ snd (stage0 mo file) <> O2panic /\
  (forall rd, snd (stage0 mo file) = O2ok rd -> rd_ok file rd /\ snd (deserialize mo file) = Ok rd).
Proof.
  destruct (deserialize_safe mo file) as [A S]. unfold stage0. cbn [fst snd].
  split; [apply file_log_map; exact A|].
  destruct (snd (deserialize mo file)) as [rd| |]; [ | split; [discriminate | intros ? H; discriminate] | contradiction].
  split; [discriminate|]. intros rd' H. inversion H; subst. split; [exact S | reflexivity].
Qed.

Lemma stage0_ok_iff mo file rd : snd (stage0 mo file) = O2ok rd <-> snd (deserialize mo file) = Ok rd.
Proof.
  unfold stage0. cbn [snd]. destruct (snd (deserialize mo file)); split; intro H; try discriminate; inversion H; reflexivity.
Qed.

Lemma open_pre_ok_stages mo zd file st :
  snd (open_pre mo zd file) = O2ok st <->
  exists rd prm sid rv, snd (deserialize mo file) = Ok rd /\ snd (load_params mo rd) = O2ok prm /\
    snd (prepare rd) = O2ok sid /\ snd (load_samples_stream mo zd rd sid) = O2ok rv /\
    st = mkPre (fst (fst prm)) (snd (fst prm)) (snd prm) (fst rv) (snd rv).
Proof.
  rewrite open_pre_unfold. split.
  - intro H. apply lbind_ok_inv in H. destruct H as (rd & H0 & H). apply lbind_ok_inv in H. destruct H as (prm & H1 & H).
    apply lbind_ok_inv in H. destruct H as (sid & H2 & H). apply lbind_ok_inv in H. destruct H as (rv & H3 & H).
    cbn [lret snd] in H. inversion H. exists rd, prm, sid, rv. apply stage0_ok_iff in H0. repeat split; assumption.
  - intros (rd & prm & sid & rv & H0 & H1 & H2 & H3 & ->). apply stage0_ok_iff in H0.
    rewrite (lbind_ok _ _ rd H0). cbn [snd]. rewrite (lbind_ok _ _ prm H1). cbn [snd].
    rewrite (lbind_ok _ _ sid H2). cbn [snd]. rewrite (lbind_ok _ _ rv H3). reflexivity.
Qed.

Lemma open_pre_safe mo zd file : snd (open_pre mo zd file) <> O2panic.
Proof.
  rewrite open_pre_unfold. destruct (stage0_props mo file) as (_ & S0 & R0).
  apply lbind_safe; [exact S0|]. intros rd Hrd. destruct (R0 rd Hrd) as [RD _].
  apply lbind_safe; [apply (load_params_safe mo file rd RD)|]. intros prm _.
  apply lbind_safe; [apply prepare_props|]. intros sid _.
  apply lbind_safe; [apply (load_samples_safe mo zd file rd sid RD)|]. intros rv _. cbn. discriminate.
Qed.

(* the log of everything before the sample table: file-sized buffers, then possibly the decoded stream *)
Definition pre_log (bs : list N) (zd : list N -> option (list N)) (l : list alloc) : Prop :=
  file_log bs l \/
  exists l0 frame v, l = l0 ++ [AZstd (lenN v)] /\ file_log bs l0 /\ zd frame = Some v /\ lenN frame <= lenN bs.

Lemma pre_log_app bs zd a b : file_log bs a -> pre_log bs zd b -> pre_log bs zd (a ++ b).
Proof.
  intros Ha [Hb | (l0 & frame & v & E & F & Z & L)].
  - left. apply file_log_app; assumption.
  - right. exists (a ++ l0), frame, v. subst b. rewrite app_assoc. repeat split; try assumption. apply file_log_app; assumption.
Qed.

Lemma open_pre_log mo zd file :
  pre_log file zd (fst (open_pre mo zd file)) /\
  (forall st, snd (open_pre mo zd file) = O2ok st ->
   exists l0 frame, fst (open_pre mo zd file) = l0 ++ [AZstd (lenN (ps_stream st))] /\ file_log file l0 /\
                    zd frame = Some (ps_stream st) /\ lenN frame <= lenN file).
Proof.
  rewrite open_pre_unfold. destruct (stage0_props mo file) as (L0 & _ & R0).
  destruct (snd (stage0 mo file)) as [rd|e|] eqn:E0.
  2:{ rewrite (lbind_err _ _ e E0). cbn [fst snd]. split; [left; exact L0 | discriminate]. }
  2:{ rewrite lbind_eq, E0. cbn [fst snd]. split; [left; exact L0 | discriminate]. }
  rewrite (lbind_ok _ _ rd E0). cbn [fst snd]. destruct (R0 rd eq_refl) as [RD _].
  destruct (load_params_safe mo file rd RD) as [L1 _].
  destruct (snd (load_params mo rd)) as [prm|e|] eqn:E1.
  2:{ rewrite (lbind_err _ _ e E1). cbn [fst snd]. split; [left; apply file_log_app; assumption | discriminate]. }
  2:{ rewrite lbind_eq, E1. cbn [fst snd]. split; [left; apply file_log_app; assumption | discriminate]. }
  rewrite (lbind_ok _ _ prm E1). cbn [fst snd]. destruct (prepare_props rd) as [L2 _].
  destruct (snd (prepare rd)) as [sid|e|] eqn:E2.
  2:{ rewrite (lbind_err _ _ e E2), L2. cbn [fst snd]. rewrite app_nil_r. split; [left; apply file_log_app; assumption | discriminate]. }
  2:{ rewrite lbind_eq, E2, L2. cbn [fst snd]. rewrite app_nil_r. split; [left; apply file_log_app; assumption | discriminate]. }
  rewrite (lbind_ok _ _ sid E2), L2. cbn [fst snd app].
  destruct (load_samples_safe mo zd file rd sid RD) as (_ & L3 & R3).
  destruct (snd (load_samples_stream mo zd rd sid)) as [rv|e|] eqn:E3.
  2:{ rewrite (lbind_err _ _ e E3). cbn [fst snd]. split; [|discriminate].
      apply pre_log_app; [assumption|]. apply pre_log_app; [assumption|]. exact L3. }
  2:{ rewrite lbind_eq, E3. cbn [fst snd]. split; [|discriminate].
      apply pre_log_app; [assumption|]. apply pre_log_app; [assumption|]. exact L3. }
  rewrite (lbind_ok _ _ rv E3). cbn [lret fst snd]. rewrite app_nil_r.
  destruct (R3 rv eq_refl) as (l & frame & EQ & FL & Z & LF). rewrite EQ. split.
  - right. exists (fst (stage0 mo file) ++ fst (load_params mo rd) ++ l), frame, (snd rv).
    rewrite <- !app_assoc. repeat split; try assumption. apply file_log_app; [assumption|]. apply file_log_app; assumption.
  - intros st H. inversion H; subst. cbn [ps_stream].
    exists (fst (stage0 mo file) ++ fst (load_params mo rd) ++ l), frame.
    rewrite <- !app_assoc. repeat split; try assumption. apply file_log_app; [assumption|]. apply file_log_app; assumption.
Qed.

(* ------------------------------------------------------------------ open2: the theorems *)
Lemma open2_unfold pf mo zd file :
  open2 pf mo zd file =
  lbind (open_pre mo zd file) (fun st =>
  lbind (deser_sample_names_p pf (ps_stream st)) (fun ns =>
  lret (mkHandle (ps_segment_size st) (ps_kmer_length st) (ps_min_match_len st)
                 (coll_of_names (ps_segment_size st) (ps_kmer_length st) ns) (ps_reader st)))).
Proof. reflexivity. Qed.

Theorem open2_release_total_safe_proof : forall max_off zd file, snd (open2 Release max_off zd file) <> O2panic.
Proof.
  intros mo zd file. rewrite open2_unfold. apply lbind_safe; [apply open_pre_safe|]. intros st _.
  apply lbind_safe; [apply deser_names_release_safe|]. intros ns _. cbn. discriminate.
Qed.

Theorem open2_dev_panic_iff_proof : forall max_off zd file,
  snd (open2 Dev max_off zd file) = O2panic <->
  exists st, snd (open_pre max_off zd file) = O2ok st /\ cv5_overflows (ps_stream st) = true.
Proof.
  intros mo zd file. rewrite open2_unfold. split.
  - intro H. apply lbind_panic_inv in H. destruct H as [H | (st & Hst & H)]; [exfalso; exact (open_pre_safe _ _ _ H)|].
    exists st. split; [assumption|]. apply lbind_panic_inv in H. destruct H as [H | (ns & _ & H)].
    + apply deser_names_dev_panic_iff. exact H.
    + cbn in H. discriminate.
  - intros (st & Hst & Hov). rewrite (lbind_ok _ _ st Hst). cbn [snd].
    apply deser_names_dev_panic_iff in Hov. rewrite lbind_eq, Hov. reflexivity.
Qed.

Theorem open2_total_safe_partial_proof : forall max_off zd file,
  (forall st, snd (open_pre max_off zd file) = O2ok st -> cv5_overflows (ps_stream st) = false) ->
  forall pf, snd (open2 pf max_off zd file) <> O2panic.
Proof.
  intros mo zd file H pf. destruct pf; [|apply open2_release_total_safe_proof].
  intro P. apply open2_dev_panic_iff_proof in P. destruct P as (st & Hst & Hov). rewrite (H st Hst) in Hov. discriminate.
Qed.

Theorem open2_profiles_agree_proof : forall max_off zd file,
  (forall st, snd (open_pre max_off zd file) = O2ok st -> cv5_overflows (ps_stream st) = false) ->
  open2 Dev max_off zd file = open2 Release max_off zd file.
Proof.
  intros mo zd file H. rewrite !open2_unfold. destruct (snd (open_pre mo zd file)) as [st|e|] eqn:E.
  - rewrite !(lbind_ok _ _ st E). rewrite (deser_names_same Release) by (apply H; reflexivity). reflexivity.
  - rewrite !(lbind_err _ _ e E). reflexivity.
  - rewrite !lbind_eq, E. reflexivity.
Qed.

Theorem open2_alloc_bounded_proof : forall pf max_off zd file,
  exists fl zl, fst (open2 pf max_off zd file) = map AFile fl ++ zl /\
    Forall (fun n => n <= lenN file) fl /\
    (zl = [] \/
     exists frame v nl, zl = AZstd (lenN v) :: nl /\ zd frame = Some v /\ lenN frame <= lenN file /\
                        Forall (stream_alloc_ok (lenN v)) nl).
Proof.
  intros pf mo zd file. rewrite open2_unfold. destruct (open_pre_log mo zd file) as [PL RL].
  destruct (snd (open_pre mo zd file)) as [st|e|] eqn:E.
  - rewrite (lbind_ok _ _ st E). cbn [fst]. destruct (RL st eq_refl) as (l0 & frame & EQ & (fl & -> & FL) & Z & LF).
    rewrite EQ. exists fl. eexists. rewrite <- app_assoc. split; [reflexivity|]. split; [exact FL|]. right.
    exists frame, (ps_stream st). eexists. cbn [app]. split; [reflexivity|]. repeat split; try assumption.
    apply lbind_log; [apply deser_names_alloc | intros; constructor].
  - rewrite (lbind_err _ _ e E). cbn [fst].
    destruct PL as [(fl & -> & FL) | (l0 & frame & v & -> & (fl & -> & FL) & Z & LF)].
    + exists fl, []. rewrite app_nil_r. repeat split; try assumption. left. reflexivity.
    + exists fl. eexists. split; [reflexivity|]. split; [exact FL|]. right. exists frame, v, []. repeat split; try assumption. constructor.
  - exfalso. exact (open_pre_safe _ _ _ E).
Qed.

Lemma samples_of_names ss k ns : get_samples_list (coll_of_names ss k ns) = ns.
Proof. unfold get_samples_list, coll_of_names. cbn [samples]. rewrite map_map. cbn [sname]. apply map_id. Qed.

Theorem open2_ok_means_listable_proof : forall pf max_off zd file h,
  snd (open2 pf max_off zd file) = O2ok h ->
  exists st ns, snd (open_pre max_off zd file) = O2ok st /\
    snd (deser_sample_names_p pf (ps_stream st)) = O2ok ns /\
    h_samples h = ns /\
    h_coll h = coll_of_names (ps_segment_size st) (ps_kmer_length st) ns /\
    h_segment_size h = ps_segment_size st /\ h_kmer_length h = ps_kmer_length st /\
    h_min_match_len h = ps_min_match_len st /\ h_reader h = ps_reader st.
Proof.
  intros pf mo zd file h H. rewrite open2_unfold in H. apply lbind_ok_inv in H. destruct H as (st & Hst & H).
  apply lbind_ok_inv in H. destruct H as (ns & Hns & H). cbn [lret snd] in H. inversion H; subst.
  exists st, ns. unfold h_samples. cbn [h_coll h_segment_size h_kmer_length h_min_match_len h_reader].
  rewrite samples_of_names. repeat split; assumption.
Qed.

Lemma open2_ok_intro pf mo zd file st ns :
  snd (open_pre mo zd file) = O2ok st -> snd (deser_sample_names_p pf (ps_stream st)) = O2ok ns ->
  snd (open2 pf mo zd file) =
  O2ok (mkHandle (ps_segment_size st) (ps_kmer_length st) (ps_min_match_len st)
                 (coll_of_names (ps_segment_size st) (ps_kmer_length st) ns) (ps_reader st)).
Proof. intros H1 H2. rewrite open2_unfold, (lbind_ok _ _ st H1). cbn [snd]. rewrite (lbind_ok _ _ ns H2). reflexivity. Qed.

(* what "the decoded sample-name table" is in terms of the C03 model *)
Theorem open2_names_are_c03_decoder_proof : forall pf v,
  cv5_overflows v = false ->
  o2_outcome (snd (deser_sample_names_p pf v)) = deser_sample_names v /\
  forall ss k, obnd (deser_sample_names v) (fun ns => Ok (coll_of_names ss k ns)) =
               deserialize_sample_names (coll_new ss k) v.
Proof.
  intros pf v H. split.
  - rewrite (deser_names_same pf v H). apply deser_names_c03.
  - intros ss k. unfold deserialize_sample_names. destruct (deser_sample_names v); reflexivity.
Qed.

(* the declarative reading of "open_pre returns st" *)
Theorem open_pre_ok_iff_proof : forall max_off zd file st,
  snd (open_pre max_off zd file) = O2ok st <->
  exists rd sidp pdata pmeta sids frame raw,
    snd (deserialize max_off file) = Ok rd /\
    get_stream_id rd R_NAME_PARAMS = Some sidp /\ get_num_parts rd sidp = 1 /\
    snd (get_part_by_id max_off rd sidp 0) = Ok (Some (pdata, pmeta)) /\ 12 <= lenN pdata /\
    (ps_segment_size st, ps_kmer_length st, ps_min_match_len st) = params_fields pdata /\
    get_stream_id rd R_NAME_COLL_0 = Some sids /\
    get_stream_id rd R_NAME_COLL_1 <> None /\ get_stream_id rd R_NAME_COLL_2 <> None /\
    snd (snd (get_part max_off rd sids)) = Ok (Some (frame, raw)) /\
    ps_reader st = fst (get_part max_off rd sids) /\
    zd frame = Some (ps_stream st) /\ lenN (ps_stream st) = raw.
Proof.
  intros mo zd file st. rewrite open_pre_ok_stages. split.
  - intros (rd & prm & sid & rv & H0 & H1 & H2 & H3 & ->).
    apply load_params_ok_iff in H1. destruct H1 as (sidp & pdata & pmeta & P1 & P2 & P3 & P4 & ->).
    apply prepare_ok_iff in H2. destruct H2 as (Q1 & Q2 & Q3).
    apply load_samples_ok_iff in H3. destruct H3 as (frame & raw & S1 & S2 & S3 & S4).
    exists rd, sidp, pdata, pmeta, sid, frame, raw. cbn [ps_segment_size ps_kmer_length ps_min_match_len ps_reader ps_stream].
    repeat split; try assumption.
  - intros (rd & sidp & pdata & pmeta & sids & frame & raw & H0 & P1 & P2 & P3 & P4 & P5 & Q1 & Q2 & Q3 & S1 & S2 & S3 & S4).
    exists rd, (params_fields pdata), sids, (ps_reader st, ps_stream st). split; [assumption|]. split.
    { apply load_params_ok_iff. exists sidp, pdata, pmeta. repeat split; assumption. }
    split. { apply prepare_ok_iff. repeat split; assumption. }
    split. { apply load_samples_ok_iff. exists frame, raw. cbn [fst snd]. repeat split; assumption. }
    rewrite <- P5. destruct st. reflexivity.
Qed.

(* an error before the sample table is the same error in both profiles *)
Lemma open2_pre_err pf mo zd file e :
  snd (open_pre mo zd file) = O2err e -> open2 pf mo zd file = (fst (open_pre mo zd file), O2err e).
Proof. intro H. rewrite open2_unfold, (lbind_err _ _ e H). reflexivity. Qed.

Lemma open2_archive_err pf mo zd file :
  snd (deserialize mo file) = Err -> open2 pf mo zd file = (map AFile (fst (deserialize mo file)), O2err e_archive).
Proof.
  intro H. assert (E : snd (stage0 mo file) = O2err e_archive) by (unfold stage0; cbn [snd]; rewrite H; reflexivity).
  rewrite (open2_pre_err pf mo zd file e_archive); rewrite open_pre_unfold, (lbind_err _ _ _ E); reflexivity.
Qed.
