(* OpenStage_proofs.v - C14O: lemmas about model/OpenStage.v (Decompressor::open after Archive::open) *)
From Ragc Require Import Mach Consts_archive Consts_collection Consts_agcv3 Consts_open.
From Ragc Require Import Varint Container CVarint Names Collection OpenStage.
From Ragc Require Import Varint_proofs Container_proofs CVarint_proofs Names_proofs.
From Coq Require Import Lia ZifyBool ZifyN ZifyNat.
Open Scope N_scope.
Arguments N.add : simpl never.
Arguments N.sub : simpl never.
Arguments N.mul : simpl never.
Arguments N.shiftl : simpl never.
Arguments N.shiftr : simpl never.
Arguments N.land : simpl never.
Arguments N.modulo : simpl never.
Arguments N.div : simpl never.
Arguments N.pow : simpl never.
Arguments N.of_nat : simpl never.
Arguments N.to_nat : simpl never.
Arguments write_varint : simpl never.
Arguments read_varint : simpl never.

(* ------------------------------------------------------------------ the logging monad *)
Lemma lbind_eq {A B} (x : lres A) (f : A -> lres B) :
  lbind x f = match snd x with
              | O2ok a => (fst x ++ fst (f a), snd (f a))
              | O2err e => (fst x, O2err e)
              | O2panic => (fst x, O2panic)
              end.
Proof. unfold lbind. destruct (snd x); reflexivity. Qed.

Lemma lbind_ok_inv {A B} (x : lres A) (f : A -> lres B) b :
  snd (lbind x f) = O2ok b -> exists a, snd x = O2ok a /\ snd (f a) = O2ok b.
Proof. rewrite lbind_eq. destruct (snd x) as [a|e|]; cbn [snd]; intro H; try discriminate. exists a. split; [reflexivity | exact H]. Qed.

Lemma lbind_ok {A B} (x : lres A) (f : A -> lres B) a :
  snd x = O2ok a -> lbind x f = (fst x ++ fst (f a), snd (f a)).
Proof. intro H. rewrite lbind_eq, H. reflexivity. Qed.

Lemma lbind_err {A B} (x : lres A) (f : A -> lres B) e :
  snd x = O2err e -> lbind x f = (fst x, O2err e).
Proof. intro H. rewrite lbind_eq, H. reflexivity. Qed.

Lemma lbind_panic_inv {A B} (x : lres A) (f : A -> lres B) :
  snd (lbind x f) = O2panic -> snd x = O2panic \/ exists a, snd x = O2ok a /\ snd (f a) = O2panic.
Proof.
  rewrite lbind_eq. destruct (snd x) as [a|e|]; cbn [snd]; intro H; try discriminate.
  - right. exists a. split; [reflexivity | exact H].
  - left. reflexivity.
Qed.

Lemma lbind_safe {A B} (x : lres A) (f : A -> lres B) :
  snd x <> O2panic -> (forall a, snd x = O2ok a -> snd (f a) <> O2panic) -> snd (lbind x f) <> O2panic.
Proof. intros H1 H2 H. apply lbind_panic_inv in H. destruct H as [H | (a & Ha & H)]; [exact (H1 H) | exact (H2 a Ha H)]. Qed.

Lemma lbind_log {A B} (P : alloc -> Prop) (x : lres A) (f : A -> lres B) :
  Forall P (fst x) -> (forall a, snd x = O2ok a -> Forall P (fst (f a))) -> Forall P (fst (lbind x f)).
Proof.
  intros H1 H2. rewrite lbind_eq. destruct (snd x) as [a|e|] eqn:E; cbn [fst]; try assumption.
  apply Forall_app. split; [assumption | apply H2; reflexivity].
Qed.

(* ------------------------------------------------------------------ CollectionVarInt::decode: where the profiles differ *)
Lemma land_mod256 a m : N.land 255 m = m -> N.land a m = N.land (a mod 256) m.
Proof. intro H. rewrite <- (land255 a), <- N.land_assoc, H. reflexivity. Qed.

Lemma cls_mod256 f : cls f = cls (f mod 256).
Proof.
  unfold cls, cv_mask_1, cv_mask_2, cv_mask_3, cv_mask_4.
  rewrite (land_mod256 f 128), (land_mod256 f 192), (land_mod256 f 224), (land_mod256 f 240) by reflexivity.
  reflexivity.
Qed.

Lemma cls_arith_mod f : cls f = cls_arith (f mod 256).
Proof. rewrite cls_mod256. apply cls_spec. apply N.mod_lt. discriminate. Qed.

Lemma cv5_num_arith p1 p2 p3 p4 :
  N.shiftl (N.shiftl (N.shiftl p1 8 + p2) 8 + p3) 8 + p4 = ((p1 * 256 + p2) * 256 + p3) * 256 + p4.
Proof. rewrite !shl_mul. change (2 ^ 8) with 256. reflexivity. Qed.

Lemma cv_decode_panic_iff v : cv_decode v = Panic <-> cv5_overflows v = true.
Proof.
  destruct v as [|f r]; [cbn; split; discriminate|].
  rewrite cv_decode_cls, cls_arith_mod. unfold cv5_overflows, cls_arith.
  destruct (f mod 256 <? 128) eqn:E1.
  { cbv beta iota. destruct r as [|p1 [|p2 [|p3 [|p4 r']]]]; split; try discriminate;
      intro H; apply andb_true_iff in H; destruct H as [H _]; lia. }
  destruct (f mod 256 <? 192) eqn:E2.
  { cbv beta iota. destruct r as [|p1 [|p2 [|p3 [|p4 r']]]]; split; try discriminate;
      intro H; apply andb_true_iff in H; destruct H as [H _]; lia. }
  destruct (f mod 256 <? 224) eqn:E3.
  { cbv beta iota. destruct r as [|p1 [|p2 [|p3 [|p4 r']]]]; split; try discriminate;
      intro H; apply andb_true_iff in H; destruct H as [H _]; lia. }
  destruct (f mod 256 <? 240) eqn:E4.
  { cbv beta iota. destruct r as [|p1 [|p2 [|p3 [|p4 r']]]]; split; try discriminate;
      intro H; apply andb_true_iff in H; destruct H as [H _]; lia. }
  cbv beta iota. destruct r as [|p1 [|p2 [|p3 [|p4 r']]]]; try (split; discriminate).
  rewrite cv5_num_arith. unfold add_u32.
  destruct (((p1 * 256 + p2) * 256 + p3) * 256 + p4 + cv_thr_4 <? two32) eqn:E5.
  - split; [discriminate|]. intro H. apply andb_true_iff in H. destruct H as [_ H]. lia.
  - split; [|reflexivity]. intros _. apply andb_true_iff. split; lia.
Qed.

Lemma cv5_overflows_num v : cv5_overflows v = true -> exists x, cv5_num v = Some x.
Proof.
  destruct v as [|f [|p1 [|p2 [|p3 [|p4 r]]]]]; cbn [cv5_overflows]; try discriminate. intros _. eexists. reflexivity.
Qed.

Lemma cv_decode_p_dev v : cv_decode_p Dev v = cv_decode v.
Proof. unfold cv_decode_p. destruct (cv_decode v); reflexivity. Qed.

Lemma cv_decode_p_same pf v : cv5_overflows v = false -> cv_decode_p pf v = cv_decode v.
Proof.
  intro H. unfold cv_decode_p. destruct (cv_decode v) eqn:E; try reflexivity.
  apply cv_decode_panic_iff in E. congruence.
Qed.

Lemma cv_decode_p_release_safe v : cv_decode_p Release v <> Panic.
Proof.
  unfold cv_decode_p. destruct (cv_decode v) eqn:E; try discriminate.
  apply cv_decode_panic_iff, cv5_overflows_num in E. destruct E as [[num r] E]. rewrite E.
  change CV5_ADD_FORM with 0. cbv iota. discriminate.
Qed.

Lemma cv_decode_p_dev_panic v : cv_decode_p Dev v = Panic <-> cv5_overflows v = true.
Proof. rewrite cv_decode_p_dev. apply cv_decode_panic_iff. Qed.

(* every form consumes at least one byte *)
Lemma cv_decode_consumes v n r : cv_decode v = Ok (n, r) -> lenN r < lenN v.
Proof.
  destruct v as [|f t]; [cbn; discriminate|]. rewrite cv_decode_cls. unfold cls.
  destruct (N.land f cv_mask_1 =? cv_pref_1).
  { intro H. inversion H; subst. rewrite Varint_proofs.lenN_cons. lia. }
  destruct (N.land f cv_mask_2 =? cv_pref_2).
  { destruct t as [|p1 t]; [discriminate|]. intro H. inversion H; subst. rewrite !Varint_proofs.lenN_cons. lia. }
  destruct (N.land f cv_mask_3 =? cv_pref_3).
  { destruct t as [|p1 [|p2 t]]; try discriminate. intro H. inversion H; subst. rewrite !Varint_proofs.lenN_cons. lia. }
  destruct (N.land f cv_mask_4 =? cv_pref_4).
  { destruct t as [|p1 [|p2 [|p3 t]]]; try discriminate. intro H. inversion H; subst. rewrite !Varint_proofs.lenN_cons. lia. }
  destruct t as [|p1 [|p2 [|p3 [|p4 t]]]]; try discriminate.
  destruct (add_u32 _ _); [|discriminate]. intro H. inversion H; subst. rewrite !Varint_proofs.lenN_cons. lia.
Qed.

Lemma cv_decode_p_consumes pf v n r : cv_decode_p pf v = Ok (n, r) -> lenN r < lenN v.
Proof.
  unfold cv_decode_p. destruct (cv_decode v) as [[n' r']| |] eqn:E.
  - intro H. inversion H; subst. eapply cv_decode_consumes; eassumption.
  - discriminate.
  - change CV5_ADD_FORM with 0. cbv iota. destruct pf; [discriminate|].
    destruct v as [|f [|p1 [|p2 [|p3 [|p4 t]]]]]; cbn [cv5_num]; try discriminate.
    intro H. inversion H; subst. rewrite !Varint_proofs.lenN_cons. lia.
Qed.

(* ------------------------------------------------------------------ the string loop *)
Lemma dec_cbytes_no_panic ptr : dec_cbytes ptr <> Panic.
Proof.
  induction ptr as [|b r IH]; cbn [dec_cbytes]; [discriminate|].
  destruct (b =? 0); [discriminate|]. destruct (dec_cbytes r) as [[s r']| |]; cbn [obnd]; try discriminate. contradiction.
Qed.

Lemma dec_cbytes_len ptr s r : dec_cbytes ptr = Ok (s, r) -> lenN ptr = lenN s + 1 + lenN r.
Proof.
  revert s r. induction ptr as [|b t IH]; intros s r; cbn [dec_cbytes]; [discriminate|].
  destruct (b =? 0).
  - intro H. inversion H; subst. rewrite Varint_proofs.lenN_cons. change (lenN (@nil N)) with 0. lia.
  - destruct (dec_cbytes t) as [[s' r']| |]; cbn [obnd fst snd]; try discriminate.
    intro H. inversion H; subst. rewrite !Varint_proofs.lenN_cons. rewrite (IH _ _ eq_refl). lia.
Qed.

(* the part of the input before the NUL is exactly what was there: ptr = s ++ 0 :: r *)
Lemma dec_cbytes_split ptr s r : dec_cbytes ptr = Ok (s, r) -> ptr = s ++ 0 :: r /\ ~ In 0 s.
Proof.
  revert s r. induction ptr as [|b t IH]; intros s r; cbn [dec_cbytes]; [discriminate|].
  destruct (b =? 0) eqn:E.
  - intro H. inversion H; subst. apply N.eqb_eq in E. subst b. split; [reflexivity | intros []].
  - destruct (dec_cbytes t) as [[s' r']| |]; cbn [obnd fst snd]; try discriminate.
    intro H. inversion H; subst. destruct (IH _ _ eq_refl) as [I1 I2]. split; [cbn [app]; f_equal; exact I1|].
    intros [X | X]; [subst; discriminate | exact (I2 X)].
Qed.

Lemma dec_names_safe n : forall i ptr, snd (dec_names n i ptr) <> O2panic.
Proof.
  induction n as [|n IH]; intros i ptr; cbn [dec_names]; [cbn; discriminate|].
  destruct (dec_cbytes ptr) as [[s r]| |] eqn:E; [| cbn; discriminate | exact (fun _ => dec_cbytes_no_panic _ E)].
  destruct (utf8_valid s); [|cbn; discriminate].
  apply lbind_safe; [cbn; discriminate|]. intros _ _.
  apply lbind_safe; [apply IH|]. intros ns _. cbn. discriminate.
Qed.

(* the C03 decoder (Names.dec_strings) computes the same result *)
Lemma dec_names_strings n : forall i ptr,
  o2_outcome (snd (dec_names n i ptr)) = obnd (dec_strings n ptr) (fun tr => Ok (fst tr)).
Proof.
  induction n as [|n IH]; intros i ptr; cbn [dec_names dec_strings]; [reflexivity|].
  unfold dec_cstring. destruct (dec_cbytes ptr) as [[s r]| |] eqn:E; cbn [obnd fst snd]; try reflexivity.
  destruct (utf8_valid s); cbn [obnd fst snd]; [|reflexivity].
  rewrite lbind_eq. cbn [fst snd]. rewrite lbind_eq. specialize (IH (i + 1) r).
  destruct (snd (dec_names n (i + 1) r)) as [ns|e|]; cbn [snd o2_outcome] in *;
    destruct (dec_strings n r) as [[ns' r']| |]; cbn [obnd fst snd] in *; try discriminate; try reflexivity.
  inversion IH; subst. reflexivity.
Qed.

Definition names_alloc_ok (i bound : N) (a : alloc) : Prop :=
  match a with AName m => m < bound | ATable k => i < k <= i + bound | _ => False end.

Lemma dec_names_alloc n : forall i ptr, Forall (names_alloc_ok i (lenN ptr)) (fst (dec_names n i ptr)).
Proof.
  induction n as [|n IH]; intros i ptr; cbn [dec_names]; [constructor|].
  destruct (dec_cbytes ptr) as [[s r]| |] eqn:E; [| constructor | constructor].
  apply dec_cbytes_len in E.
  destruct (utf8_valid s).
  - apply lbind_log.
    + cbn [fst]. repeat constructor; cbn [names_alloc_ok]; lia.
    + intros _ _. apply lbind_log; [|intros; constructor].
      eapply Forall_impl; [|apply IH]. intros a. destruct a; cbn [names_alloc_ok]; lia.
  - cbn [fst]. repeat constructor. cbn [names_alloc_ok]. lia.
Qed.

Definition stream_alloc_ok (bound : N) (a : alloc) : Prop :=
  match a with AName m => m < bound | ATable k => k < bound | _ => False end.

Lemma deser_names_alloc pf v : Forall (stream_alloc_ok (lenN v)) (fst (deser_sample_names_p pf v)).
Proof.
  unfold deser_sample_names_p. destruct (cv_decode_p pf v) as [[n r]| |] eqn:E; [| constructor | constructor].
  apply cv_decode_p_consumes in E.
  eapply Forall_impl; [|apply dec_names_alloc]. intros a. destruct a; cbn [names_alloc_ok stream_alloc_ok]; lia.
Qed.

Lemma deser_names_release_safe v : snd (deser_sample_names_p Release v) <> O2panic.
Proof.
  unfold deser_sample_names_p. destruct (cv_decode_p Release v) as [[n r]| |] eqn:E.
  - apply dec_names_safe.
  - cbn. discriminate.
  - exfalso. exact (cv_decode_p_release_safe _ E).
Qed.

Lemma deser_names_dev_panic_iff v : snd (deser_sample_names_p Dev v) = O2panic <-> cv5_overflows v = true.
Proof.
  unfold deser_sample_names_p. rewrite <- cv_decode_p_dev_panic.
  destruct (cv_decode_p Dev v) as [[n r]| |]; cbn [snd]; split; try discriminate; try reflexivity.
  intro H. exfalso. exact (dec_names_safe _ _ _ H).
Qed.

Lemma deser_names_same pf v : cv5_overflows v = false -> deser_sample_names_p pf v = deser_sample_names_p Dev v.
Proof. intro H. unfold deser_sample_names_p. rewrite !cv_decode_p_same by assumption. reflexivity. Qed.

(* = Names.deser_sample_names (the C03 model of deserialize_sample_names, dev profile) *)
Lemma deser_names_c03 v :
  o2_outcome (snd (deser_sample_names_p Dev v)) = deser_sample_names v.
Proof.
  unfold deser_sample_names_p, deser_sample_names. rewrite cv_decode_p_dev.
  destruct (cv_decode v) as [[n r]| |]; cbn [obnd fst snd o2_outcome]; try reflexivity.
  rewrite dec_names_strings. destruct (dec_strings (clamp n r) r) as [[ns r']| |]; reflexivity.
Qed.
