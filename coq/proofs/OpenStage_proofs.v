(* OpenStage_proofs.v - C14O: lemmas about model/OpenStage.v (Decompressor::open after Archive::open) *)
From Ragc Require Import Mach Consts_archive Consts_collection Consts_agcv3 Consts_open.
From Ragc Require Import Varint Container CVarint Names Collection OpenStage.
From Ragc Require Import Varint_proofs Container_proofs CVarint_proofs Names_proofs.
From Coq Require Import Lia ZifyBool ZifyN ZifyNat.
Open Scope N_scope.
Arguments N.add : simpl never.
Arguments N.sub : simpl never.
Arguments N.mul : simpl never.
Arguments N.shiftl : simpl never.
Arguments N.shiftr : simpl never.
Arguments N.land : simpl never.
Arguments N.modulo : simpl never.
Arguments N.div : simpl never.
Arguments N.pow : simpl never.
Arguments N.of_nat : simpl never.
Arguments N.to_nat : simpl never.
Arguments write_varint : simpl never.
Arguments read_varint : simpl never.

(* ------------------------------------------------------------------ the logging monad *)
Lemma lbind_eq {A B} (x : lres A) (f : A -> lres B) :
  lbind x f = match snd x with
              | O2ok a => (fst x ++ fst (f a), snd (f a))
              | O2err e => (fst x, O2err e)
              | O2panic => (fst x, O2panic)
              end.
Proof. unfold lbind. destruct (snd x); reflexivity. Qed.

Lemma lbind_ext {A B} (x : lres A) (f g : A -> lres B) : (forall a, f a = g a) -> lbind x f = lbind x g.
Proof. intro H. unfold lbind. destruct (snd x); try reflexivity. rewrite H. reflexivity. Qed.

Lemma lbind_ext_ok0 {A B} (x : lres A) (f g : A -> lres B) :
  (forall a, snd x = O2ok a -> f a = g a) -> lbind x f = lbind x g.
Proof. intro H. unfold lbind. destruct (snd x) as [a|e|] eqn:E; try reflexivity. rewrite (H a eq_refl). reflexivity. Qed.

Lemma lbind_ok_inv {A B} (x : lres A) (f : A -> lres B) b :
  snd (lbind x f) = O2ok b -> exists a, snd x = O2ok a /\ snd (f a) = O2ok b.
Proof. rewrite lbind_eq. destruct (snd x) as [a|e|]; cbn [snd]; intro H; try discriminate. exists a. split; [reflexivity | exact H]. Qed.

Lemma lbind_ok {A B} (x : lres A) (f : A -> lres B) a :
  snd x = O2ok a -> lbind x f = (fst x ++ fst (f a), snd (f a)).
Proof. intro H. rewrite lbind_eq, H. reflexivity. Qed.

Lemma lbind_err {A B} (x : lres A) (f : A -> lres B) e :
  snd x = O2err e -> lbind x f = (fst x, O2err e).
Proof. intro H. rewrite lbind_eq, H. reflexivity. Qed.

Lemma lbind_panic_inv {A B} (x : lres A) (f : A -> lres B) :
  snd (lbind x f) = O2panic -> snd x = O2panic \/ exists a, snd x = O2ok a /\ snd (f a) = O2panic.
Proof.
  rewrite lbind_eq. destruct (snd x) as [a|e|]; cbn [snd]; intro H; try discriminate.
  - right. exists a. split; [reflexivity | exact H].
  - left. reflexivity.
Qed.

Lemma lbind_safe {A B} (x : lres A) (f : A -> lres B) :
  snd x <> O2panic -> (forall a, snd x = O2ok a -> snd (f a) <> O2panic) -> snd (lbind x f) <> O2panic.
Proof. intros H1 H2 H. apply lbind_panic_inv in H. destruct H as [H | (a & Ha & H)]; [exact (H1 H) | exact (H2 a Ha H)]. Qed.

Lemma lbind_log {A B} (P : alloc -> Prop) (x : lres A) (f : A -> lres B) :
  Forall P (fst x) -> (forall a, snd x = O2ok a -> Forall P (fst (f a))) -> Forall P (fst (lbind x f)).
Proof.
  intros H1 H2. rewrite lbind_eq. destruct (snd x) as [a|e|] eqn:E; cbn [fst]; try assumption.
  apply Forall_app. split; [assumption | apply H2; reflexivity].
Qed.

(* ------------------------------------------------------------------ CollectionVarInt::decode: where the profiles differ *)
Lemma land_mod256 a m : N.land 255 m = m -> N.land a m = N.land (a mod 256) m.
Proof. intro H. rewrite <- (land255 a), <- N.land_assoc, H. reflexivity. Qed.

Lemma cls_mod256 f : cls f = cls (f mod 256).
Proof.
  unfold cls, cv_mask_1, cv_mask_2, cv_mask_3, cv_mask_4.
  rewrite (land_mod256 f 128), (land_mod256 f 192), (land_mod256 f 224), (land_mod256 f 240) by reflexivity.
  reflexivity.
Qed.

Lemma cls_arith_mod f : cls f = cls_arith (f mod 256).
Proof. rewrite cls_mod256. apply cls_spec. apply N.mod_lt. discriminate. Qed.

Lemma cv5_num_arith p1 p2 p3 p4 :
  N.shiftl (N.shiftl (N.shiftl p1 8 + p2) 8 + p3) 8 + p4 = ((p1 * 256 + p2) * 256 + p3) * 256 + p4.
Proof. rewrite !shl_mul. change (2 ^ 8) with 256. reflexivity. Qed.

Lemma cv_decode_f_cls form pf first r :
  cv_decode_f form pf (first :: r) =
  match cls first with
  | 1 => Ok (first - cv_pref_1, r)
  | 2 => match r with p1 :: r' => Ok (N.shiftl first 8 + p1 + cv_thr_1 - N.shiftl cv_pref_2 8, r') | _ => Err end
  | 3 => match r with p1 :: p2 :: r' =>
           Ok (N.shiftl first 16 + N.shiftl p1 8 + p2 + cv_thr_2 - N.shiftl cv_pref_3 16, r') | _ => Err end
  | 4 => match r with p1 :: p2 :: p3 :: r' =>
           Ok (N.shiftl first 24 + N.shiftl p1 16 + N.shiftl p2 8 + p3 + cv_thr_3 - N.shiftl cv_pref_4 24, r') | _ => Err end
  | _ => match r with p1 :: p2 :: p3 :: p4 :: r' =>
           match add_u32 (N.shiftl (N.shiftl (N.shiftl p1 8 + p2) 8 + p3) 8 + p4) cv_thr_4 with
           | Some v => Ok (v, r')
           | None => match form, pf with
                     | 0, Dev => Panic
                     | 0, Release | 1, _ => Ok (wrap32 (N.shiftl (N.shiftl (N.shiftl p1 8 + p2) 8 + p3) 8 + p4 + cv_thr_4), r')
                     | _, _ => Err
                     end
           end
         | _ => Err end
  end.
Proof.
  unfold cv_decode_f, cls.
  destruct (N.land first cv_mask_1 =? cv_pref_1); [reflexivity|].
  destruct (N.land first cv_mask_2 =? cv_pref_2); [reflexivity|].
  destruct (N.land first cv_mask_3 =? cv_pref_3); [reflexivity|].
  destruct (N.land first cv_mask_4 =? cv_pref_4); reflexivity.
Qed.

Lemma cv5_overflows_false_lt f r : f mod 256 < 240 -> cv5_overflows (f :: r) = false.
Proof.
  intro H. destruct r as [|p1 [|p2 [|p3 [|p4 r']]]]; cbn [cv5_overflows]; try reflexivity.
  destruct (240 <=? f mod 256) eqn:E; [lia | reflexivity].
Qed.

(* the whole behaviour of cv_decode_f: outside cv5_overflows the form and the profile are irrelevant and there is
   no panic; inside, the form and the profile decide *)
Lemma cv_decode_f_spec form pf v :
  (cv5_overflows v = false /\ cv_decode_f form pf v = cv_decode_f 2 Dev v /\ cv_decode_f form pf v <> Panic) \/
  (cv5_overflows v = true /\ exists f p1 p2 p3 p4 r, v = f :: p1 :: p2 :: p3 :: p4 :: r /\
     cv_decode_f form pf v =
     match form, pf with
     | 0, Dev => Panic
     | 0, Release | 1, _ => Ok (wrap32 (((p1 * 256 + p2) * 256 + p3) * 256 + p4 + cv_thr_4), r)
     | _, _ => Err
     end).
Proof.
  destruct v as [|f r]; [left; repeat split; discriminate|].
  rewrite !cv_decode_f_cls, cls_arith_mod. unfold cls_arith.
  destruct (f mod 256 <? 128) eqn:E1.
  { left. split; [apply cv5_overflows_false_lt; lia|]. split; [reflexivity|]. cbv beta iota. discriminate. }
  destruct (f mod 256 <? 192) eqn:E2.
  { left. split; [apply cv5_overflows_false_lt; lia|]. split; [reflexivity|]. cbv beta iota. destruct r; discriminate. }
  destruct (f mod 256 <? 224) eqn:E3.
  { left. split; [apply cv5_overflows_false_lt; lia|]. split; [reflexivity|]. cbv beta iota. destruct r as [|p1 [|p2 r']]; discriminate. }
  destruct (f mod 256 <? 240) eqn:E4.
  { left. split; [apply cv5_overflows_false_lt; lia|]. split; [reflexivity|]. cbv beta iota.
    destruct r as [|p1 [|p2 [|p3 r']]]; discriminate. }
  cbv beta iota. destruct r as [|p1 [|p2 [|p3 [|p4 r']]]]; try (left; repeat split; discriminate).
  rewrite !cv5_num_arith. unfold add_u32.
  destruct (((p1 * 256 + p2) * 256 + p3) * 256 + p4 + cv_thr_4 <? two32) eqn:E5.
  - left. split; [|split; [reflexivity | discriminate]]. cbn [cv5_overflows].
    destruct (two32 <=? ((p1 * 256 + p2) * 256 + p3) * 256 + p4 + cv_thr_4) eqn:E6; [lia|]. apply andb_false_r.
  - right. split.
    + cbn [cv5_overflows]. apply andb_true_iff. split; lia.
    + exists f, p1, p2, p3, p4, r'. split; reflexivity.
Qed.

Lemma cv_decode_f_panic_iff form pf v :
  cv_decode_f form pf v = Panic <-> form = 0 /\ pf = Dev /\ cv5_overflows v = true.
Proof.
  destruct (cv_decode_f_spec form pf v) as [(H1 & _ & H3) | (H1 & f & p1 & p2 & p3 & p4 & r & _ & H2)].
  - split; [contradiction | intros (_ & _ & H); congruence].
  - rewrite H2. destruct form as [|[p|p|]]; destruct pf; split; try discriminate;
      try (intros (X & Y & _); discriminate); intros _; repeat split; assumption.
Qed.

Lemma cv_decode_f_release_safe form v : cv_decode_f form Release v <> Panic.
Proof. intro H. apply cv_decode_f_panic_iff in H. destruct H as (_ & H & _). discriminate. Qed.

(* a repaired addition (wrapping_add or checked_add) cannot panic in either profile *)
Lemma cv_decode_f_repaired_safe form pf v : form <> 0 -> cv_decode_f form pf v <> Panic.
Proof. intros Hf H. apply cv_decode_f_panic_iff in H. destruct H as (H & _). contradiction. Qed.

Lemma cv_decode_f_same form pf form' pf' v : cv5_overflows v = false ->
  cv_decode_f form pf v = cv_decode_f form' pf' v.
Proof.
  intro H.
  destruct (cv_decode_f_spec form pf v) as [(_ & A & _) | (X & _)]; [|congruence].
  destruct (cv_decode_f_spec form' pf' v) as [(_ & B & _) | (X & _)]; [|congruence].
  rewrite A, B. reflexivity.
Qed.

(* with a repaired addition nothing depends on the profile *)
Lemma cv_decode_f_profile form v : form <> 0 -> cv_decode_f form Dev v = cv_decode_f form Release v.
Proof.
  intro Hf. destruct (cv5_overflows v) eqn:E; [|apply cv_decode_f_same; exact E].
  destruct (cv_decode_f_spec form Dev v) as [(X & _) | (_ & f & p1 & p2 & p3 & p4 & r & Ev & A)]; [congruence|].
  destruct (cv_decode_f_spec form Release v) as [(X & _) | (_ & f' & q1 & q2 & q3 & q4 & r' & Ev' & B)]; [congruence|].
  rewrite A, B. rewrite Ev in Ev'. inversion Ev'; subst. destruct form as [|[p|p|]]; try reflexivity. contradiction.
Qed.

Lemma cv_decode_f_consumes form pf v n r : cv_decode_f form pf v = Ok (n, r) -> lenN r < lenN v.
Proof.
  destruct v as [|f t]; [cbn; discriminate|]. rewrite cv_decode_f_cls. unfold cls.
  destruct (N.land f cv_mask_1 =? cv_pref_1).
  { intro H. inversion H; subst. rewrite Varint_proofs.lenN_cons. lia. }
  destruct (N.land f cv_mask_2 =? cv_pref_2).
  { destruct t as [|p1 t]; [discriminate|]. intro H. inversion H; subst. rewrite !Varint_proofs.lenN_cons. lia. }
  destruct (N.land f cv_mask_3 =? cv_pref_3).
  { destruct t as [|p1 [|p2 t]]; try discriminate. intro H. inversion H; subst. rewrite !Varint_proofs.lenN_cons. lia. }
  destruct (N.land f cv_mask_4 =? cv_pref_4).
  { destruct t as [|p1 [|p2 [|p3 t]]]; try discriminate. intro H. inversion H; subst. rewrite !Varint_proofs.lenN_cons. lia. }
  destruct t as [|p1 [|p2 [|p3 [|p4 t]]]]; try discriminate.
  destruct (add_u32 _ _).
  - intro H. inversion H; subst. rewrite !Varint_proofs.lenN_cons. lia.
  - destruct form as [|[p|p|]]; destruct pf; try discriminate; intro H; inversion H; subst; rewrite !Varint_proofs.lenN_cons; lia.
Qed.

Lemma cv_decode_p_consumes pf v n r : cv_decode_p pf v = Ok (n, r) -> lenN r < lenN v.
Proof. apply cv_decode_f_consumes. Qed.

(* the C03 model of the same function (CVarint.cv_decode) agrees wherever the count is in range *)
Lemma cv_decode_f_c03 form pf v : cv5_overflows v = false -> cv_decode_f form pf v = cv_decode v.
Proof.
  intro H. destruct v as [|f r]; [reflexivity|]. unfold cv_decode_f, cv_decode.
  destruct (N.land f cv_mask_1 =? cv_pref_1) eqn:E1; [reflexivity|].
  destruct (N.land f cv_mask_2 =? cv_pref_2) eqn:E2; [reflexivity|].
  destruct (N.land f cv_mask_3 =? cv_pref_3) eqn:E3; [reflexivity|].
  destruct (N.land f cv_mask_4 =? cv_pref_4) eqn:E4; [reflexivity|].
  destruct r as [|p1 [|p2 [|p3 [|p4 r']]]]; try reflexivity. cbv zeta.
  destruct (add_u32 (N.shiftl (N.shiftl (N.shiftl p1 8 + p2) 8 + p3) 8 + p4) cv_thr_4) eqn:E5; [reflexivity|].
  exfalso. assert (C : cls f = 5) by (unfold cls; rewrite E1, E2, E3, E4; reflexivity).
  rewrite cls_arith_mod in C. unfold cls_arith in C.
  rewrite cv5_num_arith in E5. unfold add_u32 in E5. cbn [cv5_overflows] in H.
  destruct (((p1 * 256 + p2) * 256 + p3) * 256 + p4 + cv_thr_4 <? two32) eqn:E6; [discriminate|].
  destruct (f mod 256 <? 128); [discriminate|]. destruct (f mod 256 <? 192); [discriminate|].
  destruct (f mod 256 <? 224); [discriminate|]. destruct (f mod 256 <? 240) eqn:E7; [discriminate|].
  apply andb_false_iff in H. destruct H as [H | H]; lia.
Qed.

(* ------------------------------------------------------------------ the string loop *)
Lemma dec_cbytes_no_panic ptr : dec_cbytes ptr <> Panic.
Proof.
  induction ptr as [|b r IH]; cbn [dec_cbytes]; [discriminate|].
  destruct (b =? 0); [discriminate|]. destruct (dec_cbytes r) as [[s r']| |]; cbn [obnd]; try discriminate. contradiction.
Qed.

Lemma dec_cbytes_len ptr s r : dec_cbytes ptr = Ok (s, r) -> lenN ptr = lenN s + 1 + lenN r.
Proof.
  revert s r. induction ptr as [|b t IH]; intros s r; cbn [dec_cbytes]; [discriminate|].
  destruct (b =? 0).
  - intro H. inversion H; subst. rewrite Varint_proofs.lenN_cons. change (lenN (@nil N)) with 0. lia.
  - destruct (dec_cbytes t) as [[s' r']| |]; cbn [obnd fst snd]; try discriminate.
    intro H. inversion H; subst. rewrite !Varint_proofs.lenN_cons. rewrite (IH _ _ eq_refl). lia.
Qed.

(* the part of the input before the NUL is exactly what was there: ptr = s ++ 0 :: r *)
Lemma dec_cbytes_split ptr s r : dec_cbytes ptr = Ok (s, r) -> ptr = s ++ 0 :: r /\ ~ In 0 s.
Proof.
  revert s r. induction ptr as [|b t IH]; intros s r; cbn [dec_cbytes]; [discriminate|].
  destruct (b =? 0) eqn:E.
  - intro H. inversion H; subst. apply N.eqb_eq in E. subst b. split; [reflexivity | intros []].
  - destruct (dec_cbytes t) as [[s' r']| |]; cbn [obnd fst snd]; try discriminate.
    intro H. inversion H; subst. destruct (IH _ _ eq_refl) as [I1 I2]. split; [cbn [app]; f_equal; exact I1|].
    intros [X | X]; [subst; discriminate | exact (I2 X)].
Qed.

Lemma dec_names_safe n : forall i ptr, snd (dec_names n i ptr) <> O2panic.
Proof.
  induction n as [|n IH]; intros i ptr; cbn [dec_names]; [cbn; discriminate|].
  destruct (dec_cbytes ptr) as [[s r]| |] eqn:E; [| cbn; discriminate | exact (fun _ => dec_cbytes_no_panic _ E)].
  destruct (utf8_valid s); [|cbn; discriminate].
  apply lbind_safe; [cbn; discriminate|]. intros _ _.
  apply lbind_safe; [apply IH|]. intros ns _. cbn. discriminate.
Qed.

(* the C03 decoder (Names.dec_strings) computes the same result *)
Lemma dec_names_strings n : forall i ptr,
  o2_outcome (snd (dec_names n i ptr)) = obnd (dec_strings n ptr) (fun tr => Ok (fst tr)).
Proof.
  induction n as [|n IH]; intros i ptr; cbn [dec_names dec_strings]; [reflexivity|].
  unfold dec_cstring. destruct (dec_cbytes ptr) as [[s r]| |] eqn:E; cbn [obnd fst snd]; try reflexivity.
  destruct (utf8_valid s); cbn [obnd fst snd]; [|reflexivity].
  rewrite lbind_eq. cbn [fst snd]. rewrite lbind_eq. specialize (IH (i + 1) r).
  destruct (snd (dec_names n (i + 1) r)) as [ns|e|]; cbn [snd o2_outcome] in *;
    destruct (dec_strings n r) as [[ns' r']| |]; cbn [obnd fst snd] in *; try discriminate; try reflexivity.
  inversion IH; subst. reflexivity.
Qed.

Definition names_alloc_ok (i bound : N) (a : alloc) : Prop :=
  match a with AName m => m < bound | ATable k => i < k <= i + bound | _ => False end.

Lemma dec_names_alloc n : forall i ptr, Forall (names_alloc_ok i (lenN ptr)) (fst (dec_names n i ptr)).
Proof.
  induction n as [|n IH]; intros i ptr; cbn [dec_names]; [constructor|].
  destruct (dec_cbytes ptr) as [[s r]| |] eqn:E; [| constructor | constructor].
  apply dec_cbytes_len in E.
  destruct (utf8_valid s).
  - apply lbind_log.
    + cbn [fst]. repeat constructor; cbn [names_alloc_ok]; lia.
    + intros _ _. apply lbind_log; [|intros; constructor].
      eapply Forall_impl; [|apply IH]. intros a. destruct a; cbn [names_alloc_ok]; lia.
  - cbn [fst]. repeat constructor. cbn [names_alloc_ok]. lia.
Qed.

Lemma deser_f_alloc form pf v : Forall (stream_alloc_ok (lenN v)) (fst (deser_sample_names_f form pf v)).
Proof.
  unfold deser_sample_names_f. destruct (cv_decode_f form pf v) as [[n r]| |] eqn:E; [| constructor | constructor].
  apply cv_decode_f_consumes in E.
  eapply Forall_impl; [|apply dec_names_alloc]. intros a. destruct a; cbn [names_alloc_ok stream_alloc_ok]; lia.
Qed.

Lemma deser_f_panic_iff form pf v :
  snd (deser_sample_names_f form pf v) = O2panic <-> form = 0 /\ pf = Dev /\ cv5_overflows v = true.
Proof.
  rewrite <- cv_decode_f_panic_iff. unfold deser_sample_names_f.
  destruct (cv_decode_f form pf v) as [[n r]| |]; cbn [snd]; split; try discriminate; try reflexivity.
  intro H. exfalso. exact (dec_names_safe _ _ _ H).
Qed.

Lemma deser_f_release_safe form v : snd (deser_sample_names_f form Release v) <> O2panic.
Proof. intro H. apply deser_f_panic_iff in H. destruct H as (_ & H & _). discriminate. Qed.

Lemma deser_f_repaired_safe form pf v : form <> 0 -> snd (deser_sample_names_f form pf v) <> O2panic.
Proof. intros Hf H. apply deser_f_panic_iff in H. destruct H as (H & _). contradiction. Qed.

Lemma deser_f_same form pf form' pf' v : cv5_overflows v = false ->
  deser_sample_names_f form pf v = deser_sample_names_f form' pf' v.
Proof. intro H. unfold deser_sample_names_f. rewrite (cv_decode_f_same form pf form' pf') by assumption. reflexivity. Qed.

Lemma deser_f_profile form v : form <> 0 -> deser_sample_names_f form Dev v = deser_sample_names_f form Release v.
Proof. intro H. unfold deser_sample_names_f. rewrite (cv_decode_f_profile form v H). reflexivity. Qed.

(* = Names.deser_sample_names (the C03 model of deserialize_sample_names) wherever the count varint is in range *)
Lemma deser_names_c03 form pf v : cv5_overflows v = false ->
  o2_outcome (snd (deser_sample_names_f form pf v)) = deser_sample_names v.
Proof.
  intro H. unfold deser_sample_names_f, deser_sample_names. rewrite cv_decode_f_c03 by assumption.
  destruct (cv_decode v) as [[n r]| |] eqn:E; cbn [obnd fst snd o2_outcome]; try reflexivity.
  rewrite dec_names_strings. destruct (dec_strings (clamp n r) r) as [[ns r']| |]; reflexivity.
Qed.

(* ------------------------------------------------------------------ the stages before the sample table *)
Ltac pconsts := unfold R_PARAMS_OFF_K, R_PARAMS_OFF_MML, R_PARAMS_OFF_PACK, R_PARAMS_OFF_SEGSIZE, R_PARAMS_MIN_LEN,
  R_PARAMS_SEGSIZE_FROM_LEN, R_PARAMS_DEFAULT_SEGSIZE, R_PARAMS_NUM_PARTS, R_PARAMS_PART_ID, R_PARAMS_FIELD_BYTES in *.

Lemma u32_le_at_some data off : off + 4 <= lenN data -> u32_le_at data off = Some (le32_at data off).
Proof. intro H. unfold u32_le_at, le32_at. pconsts. destruct (off + 4 <=? lenN data) eqn:E; [reflexivity | lia]. Qed.

Lemma get_part_by_id_not_none mo rd sid pid : snd (get_part_by_id mo rd sid pid) <> Ok None.
Proof.
  unfold get_part_by_id. destruct (nthS (r_streams rd) sid) as [s|]; [|cbn; discriminate].
  destruct (nthS (rs_parts s) pid) as [p|]; [|cbn; discriminate].
  destruct (read_part_data mo (r_file rd) p) as [al res]. cbn [snd]. destruct res; cbn [obnd]; discriminate.
Qed.

Definition file_log (bs : list N) (l : list alloc) : Prop :=
  exists fl, l = map AFile fl /\ Forall (fun a => a <= lenN bs) fl.

Lemma file_log_nil bs : file_log bs [].
Proof. exists []. split; [reflexivity | constructor]. Qed.
Lemma file_log_map bs fl : Forall (fun a => a <= lenN bs) fl -> file_log bs (map AFile fl).
Proof. intro H. exists fl. split; [reflexivity | exact H]. Qed.
Lemma file_log_app bs a b : file_log bs a -> file_log bs b -> file_log bs (a ++ b).
Proof.
  intros (fa & Ea & Fa) (fb & Eb & Fb). exists (fa ++ fb). subst. split; [symmetry; apply map_app | apply Forall_app; split; assumption].
Qed.

(* what load_params returns, declaratively *)
Lemma load_params_ok_iff mo rd prm :
  snd (load_params mo rd) = O2ok prm <->
  exists sid data meta, get_stream_id rd R_NAME_PARAMS = Some sid /\ get_num_parts rd sid = 1 /\
    snd (get_part_by_id mo rd sid 0) = Ok (Some (data, meta)) /\ 12 <= lenN data /\ prm = params_fields data.
Proof.
  unfold load_params. destruct (get_stream_id rd R_NAME_PARAMS) as [sid|].
  2:{ cbn [snd]. split; [discriminate | intros (s & d & m & H & _); discriminate]. }
  pconsts. destruct (get_num_parts rd sid =? 1) eqn:E1; cbn [negb].
  2:{ cbn [snd]. split; [discriminate | intros (s & d & m & H & H2 & _)]. inversion H; subst. lia. }
  cbv zeta. cbn [snd].
  destruct (snd (get_part_by_id mo rd sid 0)) as [[[data meta]|]| |] eqn:E2.
  - destruct (lenN data <? 12) eqn:E3.
    { split; [discriminate | intros (s & d & m & H & _ & H3 & H4 & _)]. inversion H; subst. rewrite E2 in H3. inversion H3; subst. lia. }
    rewrite !u32_le_at_some by lia. unfold params_fields.
    destruct (16 <=? lenN data) eqn:E4.
    + rewrite u32_le_at_some by lia. split.
      * intro H. inversion H; subst. exists sid, data, meta. rewrite E4. repeat split; try reflexivity; try exact E2; lia.
      * intros (s & d & m & H & _ & H3 & _ & H5). inversion H; subst. rewrite E2 in H3. inversion H3; subst. rewrite E4. reflexivity.
    + split.
      * intro H. inversion H; subst. exists sid, data, meta. rewrite E4. repeat split; try reflexivity; try exact E2; lia.
      * intros (s & d & m & H & _ & H3 & _ & H5). inversion H; subst. rewrite E2 in H3. inversion H3; subst. rewrite E4. reflexivity.
  - split; [discriminate | intros (s & d & m & H & _ & H3 & _)]. inversion H; subst. rewrite E2 in H3. discriminate.
  - split; [discriminate | intros (s & d & m & H & _ & H3 & _)]. inversion H; subst. rewrite E2 in H3. discriminate.
  - split; [discriminate | intros (s & d & m & H & _ & H3 & _)]. inversion H; subst. rewrite E2 in H3. discriminate.
Qed.

Lemma load_params_safe mo bs rd : rd_ok bs rd ->
  file_log bs (fst (load_params mo rd)) /\ snd (load_params mo rd) <> O2panic.
Proof.
  intro H. unfold load_params. destruct (get_stream_id rd R_NAME_PARAMS) as [sid|]; [|split; [apply file_log_nil | cbn; discriminate]].
  destruct (negb (get_num_parts rd sid =? R_PARAMS_NUM_PARTS)); [split; [apply file_log_nil | cbn; discriminate]|].
  cbv zeta. cbn [fst snd].
  destruct (rstep_safe mo bs rd (RById sid R_PARAMS_PART_ID) H) as (_ & S2 & S3). cbn [rstep snd] in S2, S3.
  pose proof (get_part_by_id_not_none mo rd sid R_PARAMS_PART_ID) as NN.
  split; [apply file_log_map; exact S2|].
  destruct (snd (get_part_by_id mo rd sid R_PARAMS_PART_ID)) as [[[data meta]|]| |]; try contradiction; try discriminate.
  pconsts. destruct (lenN data <? 12) eqn:E3; [discriminate|].
  rewrite !u32_le_at_some by lia. destruct (16 <=? lenN data) eqn:E4; [|discriminate].
  rewrite u32_le_at_some by lia. discriminate.
Qed.

Lemma prepare_ok_iff rd sid :
  snd (prepare rd) = O2ok sid <->
  get_stream_id rd R_NAME_COLL_0 = Some sid /\ get_stream_id rd R_NAME_COLL_1 <> None /\ get_stream_id rd R_NAME_COLL_2 <> None.
Proof.
  unfold prepare. change R_PREP_CHECK_ORDER with [0; 1; 2]. cbn [prep_checks coll_name].
  destruct (get_stream_id rd R_NAME_COLL_0) as [s0|]; [|cbn; split; [discriminate | intros [H _]; discriminate]].
  destruct (get_stream_id rd R_NAME_COLL_1) as [s1|]; [|cbn; split; [discriminate | intros (_ & H & _); contradiction]].
  destruct (get_stream_id rd R_NAME_COLL_2) as [s2|]; [|cbn; split; [discriminate | intros (_ & _ & H); contradiction]].
  cbn. split.
  - intro H. inversion H; subst. repeat split; discriminate.
  - intros [H _]. inversion H; subst. reflexivity.
Qed.

Lemma prepare_props rd : fst (prepare rd) = [] /\ snd (prepare rd) <> O2panic.
Proof.
  unfold prepare. destruct (prep_checks rd R_PREP_CHECK_ORDER); [split; [reflexivity | cbn; discriminate]|].
  destruct (get_stream_id rd R_NAME_COLL_0); split; try reflexivity; cbn; discriminate.
Qed.

Lemma load_samples_ok_iff mo zd rd sid rv :
  snd (load_samples_stream mo zd rd sid) = O2ok rv <->
  exists frame raw, snd (snd (get_part mo rd sid)) = Ok (Some (frame, raw)) /\ zd frame = Some (snd rv) /\
    lenN (snd rv) = raw /\ fst rv = fst (get_part mo rd sid).
Proof.
  unfold load_samples_stream. cbv zeta.
  destruct (snd (snd (get_part mo rd sid))) as [[[frame raw]|]| |] eqn:E.
  - destruct (zd frame) as [v|] eqn:Z.
    + cbn [snd]. destruct (lenN v =? raw) eqn:E2.
      * split.
        -- intro H. inversion H; subst. cbn [fst snd]. exists frame, raw. repeat split; try assumption; lia.
        -- intros (f & r & H1 & H2 & H3 & H4). inversion H1; subst. rewrite Z in H2. inversion H2; subst.
           destruct rv as [a b]. cbn [fst snd] in *. subst. reflexivity.
      * split; [discriminate|]. intros (f & r & H1 & H2 & H3 & H4). inversion H1; subst. rewrite Z in H2. inversion H2; subst. lia.
    + cbn [snd]. split; [discriminate|]. intros (f & r & H1 & H2 & _). inversion H1; subst. rewrite Z in H2. discriminate.
  - cbn [snd]. split; [discriminate | intros (f & r & H1 & _); discriminate].
  - cbn [snd]. split; [discriminate | intros (f & r & H1 & _); discriminate].
  - cbn [snd]. split; [discriminate | intros (f & r & H1 & _); discriminate].
Qed.

Lemma read_part_data_len mo file p d m : snd (read_part_data mo file p) = Ok (d, m) -> lenN d <= lenN file.
Proof.
  unfold read_part_data. destruct (p_size p =? 0).
  { cbn [snd]. intro H. inversion H; subst. change (lenN (@nil N)) with 0. lia. }
  destruct (file_seek_start mo (p_off p)) as [pos|]; [|cbn; discriminate].
  destruct (read_varint (skipnS pos file)) as [[[meta k] c]| |] eqn:E; [|cbn; discriminate|cbn; discriminate].
  cbn [snd]. cbv zeta. destruct (lenN (firstnS (p_size p) c) =? p_size p); [|discriminate].
  intro H. inversion H; subst. apply read_varint_consumes in E.
  rewrite firstnS_eq. rewrite skipnS_eq in E. unfold firstnN, skipnN, lenN in *.
  rewrite firstn_length. rewrite skipn_length in E. lia.
Qed.

Lemma get_part_len mo rd sid d m : snd (snd (get_part mo rd sid)) = Ok (Some (d, m)) -> lenN d <= lenN (r_file rd).
Proof.
  unfold get_part. destruct (nthS (r_streams rd) sid) as [s|]; [|cbn; discriminate].
  destruct (nthS (rs_parts s) (rs_cur s)) as [p|]; [|cbn; discriminate].
  destruct (read_part_data mo (r_file rd) p) as [al res] eqn:E. cbn [snd].
  destruct res as [[d' m']| |]; cbn [obnd]; try discriminate. intro H. inversion H; subst.
  eapply read_part_data_len. rewrite E. reflexivity.
Qed.

(* the log of load_batch_sample_names up to the decoded stream *)
Lemma load_samples_safe mo zd bs rd sid : rd_ok bs rd ->
  snd (load_samples_stream mo zd rd sid) <> O2panic /\
  (file_log bs (fst (load_samples_stream mo zd rd sid)) \/
   exists l frame v, fst (load_samples_stream mo zd rd sid) = l ++ [AZstd (lenN v)] /\ file_log bs l /\
                     zd frame = Some v /\ lenN frame <= lenN bs) /\
  (forall rv, snd (load_samples_stream mo zd rd sid) = O2ok rv ->
   exists l frame, fst (load_samples_stream mo zd rd sid) = l ++ [AZstd (lenN (snd rv))] /\ file_log bs l /\
                   zd frame = Some (snd rv) /\ lenN frame <= lenN bs).
Proof.
  intro H. destruct (rstep_safe mo bs rd (RGet sid) H) as (_ & S2 & S3). cbn [rstep] in S2, S3.
  pose proof (get_part_len mo rd sid) as GL. destruct H as [Hf _]. rewrite Hf in GL.
  unfold load_samples_stream. cbv zeta.
  destruct (snd (snd (get_part mo rd sid))) as [[[frame raw]|]| |] eqn:E; try contradiction.
  - specialize (GL _ _ eq_refl). destruct (zd frame) as [v|] eqn:Z.
    + cbn [fst snd]. split; [destruct (lenN v =? raw); discriminate|]. split.
      * right. exists (map AFile (fst (snd (get_part mo rd sid)))), frame, v. repeat split; try assumption. apply file_log_map. exact S2.
      * intros rv Hrv. destruct (lenN v =? raw); [|discriminate]. inversion Hrv; subst. cbn [snd].
        exists (map AFile (fst (snd (get_part mo rd sid)))), frame. repeat split; try assumption. apply file_log_map. exact S2.
    + cbn [fst snd]. split; [discriminate|]. split; [left; apply file_log_map; exact S2 | discriminate].
  - cbn [fst snd]. split; [discriminate|]. split; [left; apply file_log_map; exact S2 | discriminate].
  - cbn [fst snd]. split; [discriminate|]. split; [left; apply file_log_map; exact S2 | discriminate].
Qed.

(* ------------------------------------------------------------------ open_pre: structure *)
Definition stage0 (mo : N) (file : list N) : lres reader :=
  (map AFile (fst (deserialize mo file)),
   match snd (deserialize mo file) with Ok rd => O2ok rd | Err => O2err e_archive | Panic => O2panic end).

Lemma open_pre_unfold mo zd file :
  open_pre mo zd file =
  lbind (stage0 mo file) (fun rd =>
  lbind (load_params mo rd) (fun prm =>
  lbind (prepare rd) (fun sid =>
  lbind (load_samples_stream mo zd rd sid) (fun rv =>
  lret (mkPre (fst (fst prm)) (snd (fst prm)) (snd prm) (fst rv) (snd rv)))))).
Proof.
  unfold open_pre, stage0. cbv zeta. apply lbind_ext. intro rd. apply lbind_ext. intros [[ss k] mml]. reflexivity.
Qed.

Lemma stage0_props mo file :
  file_log file (fst (stage0 mo file)) /\ snd (stage0 mo file) <> O2panic /\
  (forall rd, snd (stage0 mo file) = O2ok rd -> rd_ok file rd /\ snd (deserialize mo file) = Ok rd).
Proof.
  destruct (deserialize_safe mo file) as [A S]. unfold stage0. cbn [fst snd].
  split; [apply file_log_map; exact A|].
  destruct (snd (deserialize mo file)) as [rd| |]; [ | split; [discriminate | intros ? H; discriminate] | contradiction].
  split; [discriminate|]. intros rd' H. inversion H; subst. split; [exact S | reflexivity].
Qed.

Lemma stage0_ok_iff mo file rd : snd (stage0 mo file) = O2ok rd <-> snd (deserialize mo file) = Ok rd.
Proof.
  unfold stage0. cbn [snd]. destruct (snd (deserialize mo file)); split; intro H; try discriminate; inversion H; reflexivity.
Qed.

Lemma open_pre_ok_stages mo zd file st :
  snd (open_pre mo zd file) = O2ok st <->
  exists rd prm sid rv, snd (deserialize mo file) = Ok rd /\ snd (load_params mo rd) = O2ok prm /\
    snd (prepare rd) = O2ok sid /\ snd (load_samples_stream mo zd rd sid) = O2ok rv /\
    st = mkPre (fst (fst prm)) (snd (fst prm)) (snd prm) (fst rv) (snd rv).
Proof.
  rewrite open_pre_unfold. split.
  - intro H. apply lbind_ok_inv in H. destruct H as (rd & H0 & H). apply lbind_ok_inv in H. destruct H as (prm & H1 & H).
    apply lbind_ok_inv in H. destruct H as (sid & H2 & H). apply lbind_ok_inv in H. destruct H as (rv & H3 & H).
    cbn [lret snd] in H. inversion H. exists rd, prm, sid, rv. apply stage0_ok_iff in H0. repeat split; assumption.
  - intros (rd & prm & sid & rv & H0 & H1 & H2 & H3 & ->). apply stage0_ok_iff in H0.
    rewrite (lbind_ok _ _ rd H0). cbn [snd]. rewrite (lbind_ok _ _ prm H1). cbn [snd].
    rewrite (lbind_ok _ _ sid H2). cbn [snd]. rewrite (lbind_ok _ _ rv H3). reflexivity.
Qed.

Lemma open_pre_safe mo zd file : snd (open_pre mo zd file) <> O2panic.
Proof.
  rewrite open_pre_unfold. destruct (stage0_props mo file) as (_ & S0 & R0).
  apply lbind_safe; [exact S0|]. intros rd Hrd. destruct (R0 rd Hrd) as [RD _].
  apply lbind_safe; [apply (load_params_safe mo file rd RD)|]. intros prm _.
  apply lbind_safe; [apply prepare_props|]. intros sid _.
  apply lbind_safe; [apply (load_samples_safe mo zd file rd sid RD)|]. intros rv _. cbn. discriminate.
Qed.

(* the log of everything before the sample table: file-sized buffers, then possibly the decoded stream *)
Definition pre_log (bs : list N) (zd : list N -> option (list N)) (l : list alloc) : Prop :=
  file_log bs l \/
  exists l0 frame v, l = l0 ++ [AZstd (lenN v)] /\ file_log bs l0 /\ zd frame = Some v /\ lenN frame <= lenN bs.

Lemma pre_log_app bs zd a b : file_log bs a -> pre_log bs zd b -> pre_log bs zd (a ++ b).
Proof.
  intros Ha [Hb | (l0 & frame & v & E & F & Z & L)].
  - left. apply file_log_app; assumption.
  - right. exists (a ++ l0), frame, v. subst b. rewrite app_assoc. repeat split; try assumption. apply file_log_app; assumption.
Qed.

Lemma open_pre_log mo zd file :
  pre_log file zd (fst (open_pre mo zd file)) /\
  (forall st, snd (open_pre mo zd file) = O2ok st ->
   exists l0 frame, fst (open_pre mo zd file) = l0 ++ [AZstd (lenN (ps_stream st))] /\ file_log file l0 /\
                    zd frame = Some (ps_stream st) /\ lenN frame <= lenN file).
Proof.
  rewrite open_pre_unfold. destruct (stage0_props mo file) as (L0 & _ & R0).
  destruct (snd (stage0 mo file)) as [rd|e|] eqn:E0.
  2:{ rewrite (lbind_err _ _ e E0). cbn [fst snd]. split; [left; exact L0 | discriminate]. }
  2:{ rewrite lbind_eq, E0. cbn [fst snd]. split; [left; exact L0 | discriminate]. }
  rewrite (lbind_ok _ _ rd E0). cbn [fst snd]. destruct (R0 rd eq_refl) as [RD _].
  destruct (load_params_safe mo file rd RD) as [L1 _].
  destruct (snd (load_params mo rd)) as [prm|e|] eqn:E1.
  2:{ rewrite (lbind_err _ _ e E1). cbn [fst snd]. split; [left; apply file_log_app; assumption | discriminate]. }
  2:{ rewrite lbind_eq, E1. cbn [fst snd]. split; [left; apply file_log_app; assumption | discriminate]. }
  rewrite (lbind_ok _ _ prm E1). cbn [fst snd]. destruct (prepare_props rd) as [L2 _].
  destruct (snd (prepare rd)) as [sid|e|] eqn:E2.
  2:{ rewrite (lbind_err _ _ e E2), L2. cbn [fst snd]. rewrite app_nil_r. split; [left; apply file_log_app; assumption | discriminate]. }
  2:{ rewrite lbind_eq, E2, L2. cbn [fst snd]. rewrite app_nil_r. split; [left; apply file_log_app; assumption | discriminate]. }
  rewrite (lbind_ok _ _ sid E2), L2. cbn [fst snd app].
  destruct (load_samples_safe mo zd file rd sid RD) as (_ & L3 & R3).
  destruct (snd (load_samples_stream mo zd rd sid)) as [rv|e|] eqn:E3.
  2:{ rewrite (lbind_err _ _ e E3). cbn [fst snd]. split; [|discriminate].
      apply pre_log_app; [assumption|]. apply pre_log_app; [assumption|]. exact L3. }
  2:{ rewrite lbind_eq, E3. cbn [fst snd]. split; [|discriminate].
      apply pre_log_app; [assumption|]. apply pre_log_app; [assumption|]. exact L3. }
  rewrite (lbind_ok _ _ rv E3). cbn [lret fst snd]. rewrite app_nil_r.
  destruct (R3 rv eq_refl) as (l & frame & EQ & FL & Z & LF). rewrite EQ. split.
  - right. exists (fst (stage0 mo file) ++ fst (load_params mo rd) ++ l), frame, (snd rv).
    rewrite <- !app_assoc. repeat split; try assumption. apply file_log_app; [assumption|]. apply file_log_app; assumption.
  - intros st H. inversion H; subst. cbn [ps_stream].
    exists (fst (stage0 mo file) ++ fst (load_params mo rd) ++ l), frame.
    rewrite <- !app_assoc. repeat split; try assumption. apply file_log_app; [assumption|]. apply file_log_app; assumption.
Qed.

(* ------------------------------------------------------------------ open2: the theorems *)
Lemma open2_f_unfold form pf mo zd file :
  open2_f form pf mo zd file =
  lbind (open_pre mo zd file) (fun st =>
  lbind (deser_sample_names_f form pf (ps_stream st)) (fun ns =>
  lret (mkHandle (ps_segment_size st) (ps_kmer_length st) (ps_min_match_len st)
                 (coll_of_names (ps_segment_size st) (ps_kmer_length st) ns) (ps_reader st)))).
Proof. reflexivity. Qed.

Lemma open2_unfold pf mo zd file :
  open2 pf mo zd file =
  lbind (open_pre mo zd file) (fun st =>
  lbind (deser_sample_names_p pf (ps_stream st)) (fun ns =>
  lret (mkHandle (ps_segment_size st) (ps_kmer_length st) (ps_min_match_len st)
                 (coll_of_names (ps_segment_size st) (ps_kmer_length st) ns) (ps_reader st)))).
Proof. reflexivity. Qed.

(* what a repair of the addition buys: no panic in either profile, for all inputs *)
Theorem open2_total_safe_if_repaired_proof : forall form, form <> 0 ->
  forall pf max_off zd file, snd (open2_f form pf max_off zd file) <> O2panic.
Proof.
  intros form Hf pf mo zd file. rewrite open2_f_unfold. apply lbind_safe; [apply open_pre_safe|]. intros st _.
  apply lbind_safe; [apply deser_f_repaired_safe; exact Hf|]. intros ns _. cbn. discriminate.
Qed.

(* the code today (CV5_ADD_FORM = 2, checked_add): never a panic, both profiles, all inputs *)
Theorem open2_total_safe_proof : forall pf max_off zd file, snd (open2 pf max_off zd file) <> O2panic.
Proof. intros. apply (open2_total_safe_if_repaired_proof CV5_ADD_FORM). discriminate. Qed.

(* every form: release never panics *)
Theorem open2_f_release_safe_proof : forall form max_off zd file, snd (open2_f form Release max_off zd file) <> O2panic.
Proof.
  intros form mo zd file. rewrite open2_f_unfold. apply lbind_safe; [apply open_pre_safe|]. intros st _.
  apply lbind_safe; [apply deser_f_release_safe|]. intros ns _. cbn. discriminate.
Qed.

(* the old form (`num += THR_4`), dev profile: exactly when it panicked *)
Theorem open2_old_form_panic_iff_proof : forall form pf max_off zd file,
  snd (open2_f form pf max_off zd file) = O2panic <->
  form = 0 /\ pf = Dev /\ exists st, snd (open_pre max_off zd file) = O2ok st /\ cv5_overflows (ps_stream st) = true.
Proof.
  intros form pf mo zd file. rewrite open2_f_unfold. split.
  - intro H. apply lbind_panic_inv in H. destruct H as [H | (st & Hst & H)]; [exfalso; exact (open_pre_safe _ _ _ H)|].
    apply lbind_panic_inv in H. destruct H as [H | (ns & _ & H)]; [|cbn in H; discriminate].
    apply deser_f_panic_iff in H. destruct H as (F & P & O). repeat split; try assumption. exists st. split; assumption.
  - intros (F & P & st & Hst & Hov). rewrite (lbind_ok _ _ st Hst). cbn [snd].
    assert (X : snd (deser_sample_names_f form pf (ps_stream st)) = O2panic) by (apply deser_f_panic_iff; repeat split; assumption).
    rewrite lbind_eq, X. reflexivity.
Qed.

(* with a repaired addition the profile is irrelevant *)
Theorem open2_profile_independent_if_repaired_proof : forall form, form <> 0 ->
  forall max_off zd file, open2_f form Dev max_off zd file = open2_f form Release max_off zd file.
Proof.
  intros form Hf mo zd file. rewrite !open2_f_unfold. apply lbind_ext. intro st. rewrite (deser_f_profile form _ Hf). reflexivity.
Qed.

Theorem open2_profile_independent_proof : forall max_off zd file, open2 Dev max_off zd file = open2 Release max_off zd file.
Proof. intros. apply (open2_profile_independent_if_repaired_proof CV5_ADD_FORM). discriminate. Qed.

(* the repair is conservative: on files whose sample-name count is in range every form and profile agree *)
Theorem open2_repair_conservative_proof : forall max_off zd file,
  (forall st, snd (open_pre max_off zd file) = O2ok st -> cv5_overflows (ps_stream st) = false) ->
  forall form pf form' pf', open2_f form pf max_off zd file = open2_f form' pf' max_off zd file.
Proof.
  intros mo zd file H form pf form' pf'. rewrite !open2_f_unfold. apply lbind_ext_ok0. intros st Hst.
  rewrite (deser_f_same form pf form' pf') by (apply H; exact Hst). reflexivity.
Qed.

Theorem open2_alloc_bounded_proof : forall pf max_off zd file,
  exists fl zl, fst (open2 pf max_off zd file) = map AFile fl ++ zl /\
    Forall (fun n => n <= lenN file) fl /\
    (zl = [] \/
     exists frame v nl, zl = AZstd (lenN v) :: nl /\ zd frame = Some v /\ lenN frame <= lenN file /\
                        Forall (stream_alloc_ok (lenN v)) nl).
Proof.
  intros pf mo zd file. rewrite open2_unfold. destruct (open_pre_log mo zd file) as [PL RL].
  destruct (snd (open_pre mo zd file)) as [st|e|] eqn:E.
  - rewrite (lbind_ok _ _ st E). cbn [fst]. destruct (RL st eq_refl) as (l0 & frame & EQ & (fl & -> & FL) & Z & LF).
    rewrite EQ. exists fl. eexists. rewrite <- app_assoc. split; [reflexivity|]. split; [exact FL|]. right.
    exists frame, (ps_stream st). eexists. cbn [app]. split; [reflexivity|]. repeat split; try assumption.
    apply lbind_log; [apply deser_f_alloc | intros; constructor].
  - rewrite (lbind_err _ _ e E). cbn [fst].
    destruct PL as [(fl & -> & FL) | (l0 & frame & v & -> & (fl & -> & FL) & Z & LF)].
    + exists fl, []. rewrite app_nil_r. repeat split; try assumption. left. reflexivity.
    + exists fl. eexists. split; [reflexivity|]. split; [exact FL|]. right. exists frame, v, []. repeat split; try assumption. constructor.
  - exfalso. exact (open_pre_safe _ _ _ E).
Qed.

Lemma samples_of_names ss k ns : get_samples_list (coll_of_names ss k ns) = ns.
Proof. unfold get_samples_list, coll_of_names. cbn [samples]. rewrite map_map. cbn [sname]. apply map_id. Qed.

Theorem open2_ok_means_listable_proof : forall pf max_off zd file h,
  snd (open2 pf max_off zd file) = O2ok h ->
  exists st ns, snd (open_pre max_off zd file) = O2ok st /\
    snd (deser_sample_names_p pf (ps_stream st)) = O2ok ns /\
    h_samples h = ns /\
    h_coll h = coll_of_names (ps_segment_size st) (ps_kmer_length st) ns /\
    h_segment_size h = ps_segment_size st /\ h_kmer_length h = ps_kmer_length st /\
    h_min_match_len h = ps_min_match_len st /\ h_reader h = ps_reader st.
Proof.
  intros pf mo zd file h H. rewrite open2_unfold in H. apply lbind_ok_inv in H. destruct H as (st & Hst & H).
  apply lbind_ok_inv in H. destruct H as (ns & Hns & H). cbn [lret snd] in H. inversion H; subst.
  exists st, ns. unfold h_samples. cbn [h_coll h_segment_size h_kmer_length h_min_match_len h_reader].
  rewrite samples_of_names. repeat split; assumption.
Qed.

Lemma open2_ok_intro pf mo zd file st ns :
  snd (open_pre mo zd file) = O2ok st -> snd (deser_sample_names_p pf (ps_stream st)) = O2ok ns ->
  snd (open2 pf mo zd file) =
  O2ok (mkHandle (ps_segment_size st) (ps_kmer_length st) (ps_min_match_len st)
                 (coll_of_names (ps_segment_size st) (ps_kmer_length st) ns) (ps_reader st)).
Proof. intros H1 H2. rewrite open2_unfold, (lbind_ok _ _ st H1). cbn [snd]. rewrite (lbind_ok _ _ ns H2). reflexivity. Qed.

(* what "the decoded sample-name table" is in terms of the C03 model *)
Theorem open2_names_are_c03_decoder_proof : forall pf v,
  cv5_overflows v = false ->
  o2_outcome (snd (deser_sample_names_p pf v)) = deser_sample_names v /\
  forall ss k, obnd (deser_sample_names v) (fun ns => Ok (coll_of_names ss k ns)) =
               deserialize_sample_names (coll_new ss k) v.
Proof.
  intros pf v H. split.
  - apply deser_names_c03. exact H.
  - intros ss k. unfold deserialize_sample_names. destruct (deser_sample_names v); reflexivity.
Qed.

(* the declarative reading of "open_pre returns st" *)
Theorem open_pre_ok_iff_proof : forall max_off zd file st,
  snd (open_pre max_off zd file) = O2ok st <->
  exists rd sidp pdata pmeta sids frame raw,
    snd (deserialize max_off file) = Ok rd /\
    get_stream_id rd R_NAME_PARAMS = Some sidp /\ get_num_parts rd sidp = 1 /\
    snd (get_part_by_id max_off rd sidp 0) = Ok (Some (pdata, pmeta)) /\ 12 <= lenN pdata /\
    (ps_segment_size st, ps_kmer_length st, ps_min_match_len st) = params_fields pdata /\
    get_stream_id rd R_NAME_COLL_0 = Some sids /\
    get_stream_id rd R_NAME_COLL_1 <> None /\ get_stream_id rd R_NAME_COLL_2 <> None /\
    snd (snd (get_part max_off rd sids)) = Ok (Some (frame, raw)) /\
    ps_reader st = fst (get_part max_off rd sids) /\
    zd frame = Some (ps_stream st) /\ lenN (ps_stream st) = raw.
Proof.
  intros mo zd file st. rewrite open_pre_ok_stages. split.
  - intros (rd & prm & sid & rv & H0 & H1 & H2 & H3 & ->).
    apply load_params_ok_iff in H1. destruct H1 as (sidp & pdata & pmeta & P1 & P2 & P3 & P4 & ->).
    apply prepare_ok_iff in H2. destruct H2 as (Q1 & Q2 & Q3).
    apply load_samples_ok_iff in H3. destruct H3 as (frame & raw & S1 & S2 & S3 & S4).
    exists rd, sidp, pdata, pmeta, sid, frame, raw. cbn [ps_segment_size ps_kmer_length ps_min_match_len ps_reader ps_stream].
    repeat split; try assumption.
  - intros (rd & sidp & pdata & pmeta & sids & frame & raw & H0 & P1 & P2 & P3 & P4 & P5 & Q1 & Q2 & Q3 & S1 & S2 & S3 & S4).
    exists rd, (params_fields pdata), sids, (ps_reader st, ps_stream st). split; [assumption|]. split.
    { apply load_params_ok_iff. exists sidp, pdata, pmeta. repeat split; assumption. }
    split. { apply prepare_ok_iff. repeat split; assumption. }
    split. { apply load_samples_ok_iff. exists frame, raw. cbn [fst snd]. repeat split; assumption. }
    rewrite <- P5. destruct st. reflexivity.
Qed.

(* an error before the sample table is the same error in both profiles *)
Lemma open2_pre_err pf mo zd file e :
  snd (open_pre mo zd file) = O2err e -> open2 pf mo zd file = (fst (open_pre mo zd file), O2err e).
Proof. intro H. rewrite open2_unfold, (lbind_err _ _ e H). reflexivity. Qed.

Lemma open2_archive_err pf mo zd file :
  snd (deserialize mo file) = Err -> open2 pf mo zd file = (map AFile (fst (deserialize mo file)), O2err e_archive).
Proof.
  intro H. assert (E : snd (stage0 mo file) = O2err e_archive) by (unfold stage0; cbn [snd]; rewrite H; reflexivity).
  rewrite (open2_pre_err pf mo zd file e_archive); rewrite open_pre_unfold, (lbind_err _ _ _ E); reflexivity.
Qed.

(* ------------------------------------------------------------------ the largest offset does not matter *)
Lemma lbind_ext_ok {A B} (x : lres A) (f g : A -> lres B) :
  (forall a, snd x = O2ok a -> f a = g a) -> lbind x f = lbind x g.
Proof. intro H. unfold lbind. destruct (snd x) as [a|e|] eqn:E; try reflexivity. rewrite (H a eq_refl). reflexivity. Qed.

Lemma deserialize_mo mo1 mo2 bs : lenN bs <= mo1 -> lenN bs <= mo2 -> deserialize mo1 bs = deserialize mo2 bs.
Proof.
  intros H1 H2. destruct (lenN bs <? 8) eqn:E.
  - rewrite !deserialize_short by lia. reflexivity.
  - rewrite !deserialize_unfold by lia. cbv zeta.
    destruct (lenN bs - 8 <? footer_len bs) eqn:E1; [reflexivity|].
    destruct (mo1 <? lenN bs - 8 - footer_len bs) eqn:E2; [lia|].
    destruct (mo2 <? lenN bs - 8 - footer_len bs) eqn:E3; [lia|]. reflexivity.
Qed.

Lemma read_part_data_mo mo1 mo2 file p : p_off p <= mo1 -> p_off p <= mo2 ->
  read_part_data mo1 file p = read_part_data mo2 file p.
Proof.
  intros H1 H2. unfold read_part_data, file_seek_start.
  destruct (mo1 <? p_off p) eqn:E1; [lia|]. destruct (mo2 <? p_off p) eqn:E2; [lia|]. reflexivity.
Qed.

Lemma rd_ok_part bs rd sid s i p : rd_ok bs rd -> nthS (r_streams rd) sid = Some s -> nthS (rs_parts s) i = Some p ->
  p_off p <= lenN bs.
Proof.
  intros [_ Hs] E1 E2. rewrite nthS_eq in E1. rewrite nthS_eq in E2. apply nthN_in in E1. apply nthN_in in E2.
  rewrite Forall_forall in Hs. specialize (Hs s E1). unfold rs_fits in Hs. rewrite Forall_forall in Hs.
  specialize (Hs p E2). unfold part_fits in Hs. lia.
Qed.

Lemma get_part_by_id_mo mo1 mo2 bs rd sid pid : rd_ok bs rd -> lenN bs <= mo1 -> lenN bs <= mo2 ->
  get_part_by_id mo1 rd sid pid = get_part_by_id mo2 rd sid pid.
Proof.
  intros H H1 H2. unfold get_part_by_id. destruct (nthS (r_streams rd) sid) as [s|] eqn:E1; [|reflexivity].
  destruct (nthS (rs_parts s) pid) as [p|] eqn:E2; [|reflexivity].
  pose proof (rd_ok_part _ _ _ _ _ _ H E1 E2). rewrite (read_part_data_mo mo1 mo2) by lia. reflexivity.
Qed.

Lemma get_part_mo mo1 mo2 bs rd sid : rd_ok bs rd -> lenN bs <= mo1 -> lenN bs <= mo2 ->
  get_part mo1 rd sid = get_part mo2 rd sid.
Proof.
  intros H H1 H2. unfold get_part. destruct (nthS (r_streams rd) sid) as [s|] eqn:E1; [|reflexivity].
  destruct (nthS (rs_parts s) (rs_cur s)) as [p|] eqn:E2; [|reflexivity].
  pose proof (rd_ok_part _ _ _ _ _ _ H E1 E2). rewrite (read_part_data_mo mo1 mo2) by lia. reflexivity.
Qed.

Theorem open2_max_off_irrelevant_proof : forall pf mo1 mo2 zd file, lenN file <= mo1 -> lenN file <= mo2 ->
  open2 pf mo1 zd file = open2 pf mo2 zd file.
Proof.
  intros pf mo1 mo2 zd file H1 H2. rewrite !open2_unfold. f_equal.
  rewrite !open_pre_unfold. assert (S0 : stage0 mo1 file = stage0 mo2 file) by (unfold stage0; rewrite (deserialize_mo mo1 mo2) by assumption; reflexivity).
  rewrite S0. apply lbind_ext_ok. intros rd Hrd. destruct (stage0_props mo2 file) as (_ & _ & R0). destruct (R0 rd Hrd) as [RD _].
  assert (LP : load_params mo1 rd = load_params mo2 rd).
  { unfold load_params. destruct (get_stream_id rd R_NAME_PARAMS) as [sid|]; [|reflexivity].
    rewrite (get_part_by_id_mo mo1 mo2 file) by assumption. reflexivity. }
  rewrite LP. apply lbind_ext. intro prm. apply lbind_ext. intro sid.
  assert (LS : load_samples_stream mo1 zd rd sid = load_samples_stream mo2 zd rd sid).
  { unfold load_samples_stream. rewrite (get_part_mo mo1 mo2 file) by assumption. reflexivity. }
  rewrite LS. reflexivity.
Qed.

(* ------------------------------------------------------------------ the names must be in the file *)
Lemma prefixb_app p post : prefixb p (p ++ post) = true.
Proof. induction p as [|a p IH]; cbn [prefixb app]; [reflexivity|]. rewrite N.eqb_refl, IH. reflexivity. Qed.

Lemma infixb_intro p pre post : infixb p (pre ++ p ++ post) = true.
Proof.
  induction pre as [|a pre IH]; cbn [app].
  - destruct (p ++ post) eqn:E; cbn [infixb]; rewrite <- E, prefixb_app; reflexivity.
  - cbn [infixb]. rewrite IH. apply orb_true_r.
Qed.

Definition suffix_of (c l : list N) : Prop := exists pre, l = pre ++ c.
Lemma suffix_refl l : suffix_of l l.
Proof. exists []. reflexivity. Qed.
Lemma suffix_trans a b c : suffix_of a b -> suffix_of b c -> suffix_of a c.
Proof. intros [p1 ->] [p2 ->]. exists (p2 ++ p1). rewrite app_assoc. reflexivity. Qed.
Lemma suffix_cons x l : suffix_of l (x :: l).
Proof. exists [x]. reflexivity. Qed.

Lemma vi_read_be_suffix n : forall acc l v r, vi_read_be n acc l = Some (v, r) -> suffix_of r l.
Proof.
  induction n as [|n IH]; intros acc l v r; cbn [vi_read_be].
  - intro H. inversion H; subst. apply suffix_refl.
  - destruct l as [|b t]; [discriminate|]. intro H. apply IH in H. eapply suffix_trans; [exact H | apply suffix_cons].
Qed.

Lemma read_varint_suffix l v k r : read_varint l = Ok (v, k, r) -> suffix_of r l.
Proof.
  unfold read_varint. destruct l as [|nb t]; [discriminate|]. destruct (nb =? 0).
  - intro H. inversion H; subst. apply suffix_cons.
  - destruct (vi_read_be (N.to_nat nb) 0 t) as [[v' r']|] eqn:E; [|discriminate]. intro H. inversion H; subst.
    apply vi_read_be_suffix in E. eapply suffix_trans; [exact E | apply suffix_cons].
Qed.

Lemma read_parts_suffix fuel : forall n fs cur ps c, read_parts fuel n fs cur = Ok (ps, c) -> suffix_of c cur.
Proof.
  induction fuel as [|f IH]; intros n fs cur ps c; cbn [read_parts]; destruct (n =? 0);
    try (intro H; inversion H; subst; apply suffix_refl).
  destruct (read_varint cur) as [[[off k1] c1]| |] eqn:E1; cbn [obnd]; try discriminate.
  destruct (read_varint c1) as [[[sz k2] c2]| |] eqn:E2; cbn [obnd]; try discriminate.
  destruct (add_u64 off sz); [|discriminate]. destruct (fs <? n0); [discriminate|].
  destruct (read_parts f (n - 1) fs c2) as [[ps' c3]| |] eqn:E3; cbn [obnd]; try discriminate.
  intro H. inversion H; subst. apply IH in E3. apply read_varint_suffix in E1. apply read_varint_suffix in E2.
  eapply suffix_trans; [exact E3|]. eapply suffix_trans; eassumption.
Qed.

(* a name made of bytes below 128 is in the directory as it is, followed by its terminator *)
Lemma read_name_ascii cur : forall nm r, read_name cur = Some (nm, r) -> Forall (fun b => b < 128) nm ->
  cur = nm ++ 0 :: r.
Proof.
  induction cur as [|b t IH]; intros nm r; cbn [read_name]; [discriminate|].
  change ar_name_term_r with 0. destruct (b =? 0) eqn:E.
  - intros H _. inversion H; subst. apply N.eqb_eq in E. subst. reflexivity.
  - destruct (read_name t) as [[nm' r']|] eqn:E2; [|discriminate]. intros H F. inversion H; subst. clear H.
    unfold char_utf8 in F |- *. destruct (b <? 128) eqn:E3.
    + cbn [app] in *. inversion F; subst. rewrite (IH _ _ eq_refl H2). reflexivity.
    + cbn [app] in F. inversion F; subst. lia.
Qed.

Lemma read_streams_names fuel : forall n fs cur sts, read_streams fuel n fs cur = Ok sts ->
  forall s, In s sts -> Forall (fun b => b < 128) (rs_name s) -> exists c r, suffix_of c cur /\ c = rs_name s ++ 0 :: r.
Proof.
  induction fuel as [|f IH]; intros n fs cur sts; cbn [read_streams]; destruct (n =? 0);
    try (intro H; inversion H; subst; intros s []).
  destruct (read_name cur) as [[nm c1]|] eqn:E0; [|discriminate].
  destruct (read_varint c1) as [[[np k1] c2]| |] eqn:E1; cbn [obnd]; try discriminate.
  destruct (read_varint c2) as [[[raw k2] c3]| |] eqn:E2; cbn [obnd]; try discriminate.
  destruct (read_parts (S (length c3)) np fs c3) as [[ps c4]| |] eqn:E3; cbn [obnd]; try discriminate.
  destruct (read_streams f (n - 1) fs c4) as [rest| |] eqn:E4; cbn [obnd]; try discriminate.
  intro H. inversion H; subst. clear H. intros s [<- | Hin] Hs.
  - cbn [rs_name] in *. exists cur, c1. split; [apply suffix_refl | apply read_name_ascii; assumption].
  - destruct (IH _ _ _ _ E4 s Hin Hs) as (c & r & S & Ec). exists c, r. split; [|exact Ec].
    eapply suffix_trans; [exact S|]. apply read_parts_suffix in E3. apply read_varint_suffix in E2. apply read_varint_suffix in E1.
    eapply suffix_trans; [exact E3|]. eapply suffix_trans; [exact E2|]. eapply suffix_trans; [exact E1|].
    assert (X : exists pre, cur = pre ++ c1).
    { clear - E0. revert nm c1 E0. induction cur as [|b t IHc]; intros nm c1; cbn [read_name]; [discriminate|].
      destruct (b =? ar_name_term_r).
      - intro H. inversion H; subst. exists [b]. reflexivity.
      - destruct (read_name t) as [[nm' r']|] eqn:E; [|discriminate]. intro H. inversion H; subst.
        destruct (IHc _ _ eq_refl) as [pre ->]. exists (b :: pre). reflexivity. }
    exact X.
Qed.

Lemma map_get_build_map_in nm : forall sts i m v, map_get nm (build_map i sts m) = Some v ->
  (exists s, In s sts /\ rs_name s = nm) \/ map_get nm m = Some v.
Proof.
  induction sts as [|s r IH]; intros i m v; cbn [build_map]; [intro H; right; exact H|].
  intro H. apply IH in H. destruct H as [(s' & Hin & Hn) | H].
  - left. exists s'. split; [right; exact Hin | exact Hn].
  - cbn [map_get] in H. destruct (name_eqb nm (rs_name s)) eqn:E.
    + left. exists s. split; [left; reflexivity | symmetry; apply name_eqb_eq; exact E].
    + right. exact H.
Qed.

Lemma deserialize_ok_inv mo bs rd : snd (deserialize mo bs) = Ok rd ->
  8 <= lenN bs /\ footer_len bs <= lenN bs - 8 /\
  exists sts, parse_footer (lenN bs - 8 - footer_len bs) (firstnN (footer_len bs) (skipnN (lenN bs - 8 - footer_len bs) bs)) = Ok sts /\
              rd = mkR bs sts (build_map 0 sts []).
Proof.
  intro H. destruct (lenN bs <? 8) eqn:E; [rewrite deserialize_short in H by lia; discriminate|].
  rewrite deserialize_unfold in H by lia. cbv zeta in H.
  destruct (lenN bs - 8 <? footer_len bs) eqn:E1; [discriminate|].
  destruct (mo <? lenN bs - 8 - footer_len bs); [discriminate|]. cbn [snd] in H.
  destruct (parse_footer _ _) as [sts| |] eqn:P; cbn [obnd] in H; try discriminate. inversion H; subst.
  split; [lia|]. split; [lia|]. exists sts. split; reflexivity.
Qed.

(* the directory region that open trusts: the [footer_len] bytes before the trailing length field *)
Definition footer_region (bs : list N) : list N :=
  firstnN (footer_len bs) (skipnN (lenN bs - 8 - footer_len bs) bs).

Lemma stream_name_in_footer mo bs rd nm sid : snd (deserialize mo bs) = Ok rd -> Forall (fun b => b < 128) nm ->
  get_stream_id rd nm = Some sid -> infixb (nm ++ [0]) (footer_region bs) = true.
Proof.
  intros H F G. apply deserialize_ok_inv in H. destruct H as (_ & _ & sts & P & ->). fold (footer_region bs) in P.
  unfold get_stream_id in G. cbn [r_map] in G. apply map_get_build_map_in in G. destruct G as [(s & Hin & Hn) | G]; [|discriminate].
  unfold parse_footer in P. destruct (read_varint (footer_region bs)) as [[[ns k] cur]| |] eqn:E; cbn [obnd] in P; try discriminate.
  subst nm. destruct (read_streams_names _ _ _ _ _ P s Hin F) as (c & r & S & Ec).
  apply read_varint_suffix in E. destruct (suffix_trans _ _ _ S E) as [pre Epre]. rewrite Epre, Ec.
  replace (pre ++ rs_name s ++ 0 :: r) with (pre ++ (rs_name s ++ [0]) ++ r) by (rewrite <- (app_assoc (rs_name s)); reflexivity).
  apply infixb_intro.
Qed.

Lemma infixb_mono p : forall l pre post, infixb p l = true -> infixb p (pre ++ l ++ post) = true.
Proof.
  assert (A : forall l, infixb p l = true -> exists a b, l = a ++ p ++ b).
  { induction l as [|x l IH]; cbn [infixb].
    - rewrite orb_false_r. intro H. destruct p; [|discriminate]. exists [], []. reflexivity.
    - intro H. apply orb_true_iff in H. destruct H as [H | H].
      + exists []. cbn [app]. clear IH. revert x l H. induction p as [|a p IHp]; intros x l H.
        * exists (x :: l). reflexivity.
        * cbn [prefixb] in H. apply andb_true_iff in H. destruct H as [H1 H2]. apply N.eqb_eq in H1. subst.
          destruct l as [|y l]; [destruct p; [exists []; reflexivity | discriminate]|].
          destruct p as [|a' p]; [exists (y :: l); reflexivity|].
          destruct (IHp y l H2) as [b Hb]. exists b. cbn [app]. rewrite Hb. reflexivity.
      + destruct (IH H) as (a & b & ->). exists (x :: a), b. reflexivity. }
  intros l pre post H. destruct (A l H) as (a & b & ->).
  replace (pre ++ (a ++ p ++ b) ++ post) with ((pre ++ a) ++ p ++ (b ++ post)) by (rewrite <- !app_assoc; reflexivity).
  apply infixb_intro.
Qed.

Lemma footer_region_infix bs : exists pre post, bs = pre ++ footer_region bs ++ post.
Proof.
  unfold footer_region. set (o := lenN bs - 8 - footer_len bs). set (n := footer_len bs).
  exists (firstnN o bs), (skipnN n (skipnN o bs)). rewrite firstnN_skipnN. rewrite firstnN_skipnN. reflexivity.
Qed.

Lemma required_ascii nm : In nm required_names -> Forall (fun b => b < 128) nm.
Proof.
  unfold required_names. intros [<- | [<- | [<- | [<- | []]]]]; vm_compute; repeat constructor.
Qed.

Lemma open_pre_needs_names mo zd file st nm : snd (open_pre mo zd file) = O2ok st -> In nm required_names ->
  infixb (nm ++ [0]) (footer_region file) = true.
Proof.
  intros H Hin. apply open_pre_ok_iff_proof in H.
  destruct H as (rd & sidp & pdata & pmeta & sids & frame & raw & H0 & P1 & _ & _ & _ & _ & Q1 & Q2 & Q3 & _).
  pose proof (required_ascii nm Hin) as F. unfold required_names in Hin.
  destruct Hin as [<- | [<- | [<- | [<- | []]]]].
  - eapply stream_name_in_footer; eassumption.
  - eapply stream_name_in_footer; eassumption.
  - destruct (get_stream_id rd R_NAME_COLL_1) as [x|] eqn:E; [|contradiction]. eapply stream_name_in_footer; eassumption.
  - destruct (get_stream_id rd R_NAME_COLL_2) as [x|] eqn:E; [|contradiction]. eapply stream_name_in_footer; eassumption.
Qed.

(* anything but a handle from open_pre is an error value of open2, the same in both profiles *)
Lemma open2_not_pre_err pf mo zd file : (forall st, snd (open_pre mo zd file) <> O2ok st) ->
  exists e, snd (open2 pf mo zd file) = O2err e.
Proof.
  intro H. destruct (snd (open_pre mo zd file)) as [st|e|] eqn:E.
  - exfalso. exact (H st eq_refl).
  - exists e. rewrite (open2_pre_err pf mo zd file e E). reflexivity.
  - exfalso. exact (open_pre_safe _ _ _ E).
Qed.

Theorem open2_requires_names_proof : forall pf max_off zd file,
  (exists nm, In nm required_names /\
     (infixb (nm ++ [0]) (footer_region file) = false \/ infixb (nm ++ [0]) file = false)) ->
  exists e, snd (open2 pf max_off zd file) = O2err e.
Proof.
  intros pf mo zd file (nm & Hin & Hno). apply open2_not_pre_err. intros st H.
  pose proof (open_pre_needs_names mo zd file st nm H Hin) as I. destruct Hno as [Hno | Hno]; [congruence|].
  destruct (footer_region_infix file) as (pre & post & E). rewrite E in Hno.
  rewrite (infixb_mono _ _ pre post I) in Hno. discriminate.
Qed.

Theorem prefix_rejected_open2_partial_proof : forall pf bs n max_off zd, n <= lenN bs ->
  let p := firstnN n bs in
  (n < 8 \/ n - 8 < le_value (skipnN (n - 8) p)) \/
  (exists nm, In nm required_names /\ infixb (nm ++ [0]) p = false) \/
  (exists rd, snd (deserialize max_off p) = Ok rd /\
     (get_stream_id rd R_NAME_PARAMS = None \/
      (exists sid, get_stream_id rd R_NAME_PARAMS = Some sid /\ get_num_parts rd sid <> 1) \/
      get_stream_id rd R_NAME_COLL_0 = None \/ get_stream_id rd R_NAME_COLL_1 = None \/
      get_stream_id rd R_NAME_COLL_2 = None)) ->
  exists e, snd (open2 pf max_off zd p) = O2err e.
Proof.
  intros pf bs n mo zd Hn p [H | [H | H]].
  - exists e_archive. unfold p. rewrite open2_archive_err; [reflexivity|].
    rewrite (prefix_rejected_partial_proof bs n mo Hn H). reflexivity.
  - apply open2_requires_names_proof. destruct H as (nm & Hin & Hno). exists nm. split; [assumption | right; assumption].
  - destruct H as (rd & Hrd & Hc). apply open2_not_pre_err. intros st Hst. apply open_pre_ok_iff_proof in Hst.
    destruct Hst as (rd' & sidp & pdata & pmeta & sids & frame & raw & H0 & P1 & P2 & _ & _ & _ & Q1 & Q2 & Q3 & _).
    rewrite Hrd in H0. inversion H0; subst rd'.
    destruct Hc as [C | [(sid & C1 & C2) | [C | [C | C]]]]; try congruence.
Qed.

(* ------------------------------------------------------------------ the complete file of any writer history opens (with C13) *)
Lemma nthN_map {A B} (f : A -> B) l i : nthN (map f l) i = option_map f (nthN l i).
Proof.
  unfold nthN. generalize (N.to_nat i). intro n. revert l. induction n as [|n IH]; intros [|x l]; cbn; try reflexivity. apply IH.
Qed.

Lemma sp_view_nonempty d m : d <> [] -> sp_view (d, m) = (d, m).
Proof. intro H. unfold sp_view. cbn [fst]. destruct d; [contradiction | reflexivity]. Qed.

Theorem open2_complete_archive_ok_proof : forall ops max_off zd pf, Forall wop_wf ops ->
  let w := fst (wrun w_init ops) in
  let s := fst (sp_run sp_init ops) in
  lenN (close w) < two64 -> lenN (close w) <= max_off ->
  forall sidp pdata pmeta sids frame raw rest v ns,
  sp_find R_NAME_PARAMS 0 (sp_streams s) = Some sidp ->
  option_map ss_parts (nthN (sp_streams s) sidp) = Some [(pdata, pmeta)] -> 12 <= lenN pdata ->
  sp_find R_NAME_COLL_0 0 (sp_streams s) = Some sids ->
  option_map ss_parts (nthN (sp_streams s) sids) = Some ((frame, raw) :: rest) -> frame <> [] ->
  sp_find R_NAME_COLL_1 0 (sp_streams s) <> None -> sp_find R_NAME_COLL_2 0 (sp_streams s) <> None ->
  zd frame = Some v -> lenN v = raw ->
  snd (deser_sample_names_p pf v) = O2ok ns ->
  exists h, snd (open2 pf max_off zd (close w)) = O2ok h /\ h_samples h = ns /\
            (h_segment_size h, h_kmer_length h, h_min_match_len h) = params_fields pdata.
Proof.
  intros ops mo zd pf Hwf w s H64 Hmax sidp pdata pmeta sids frame raw rest v ns P1 P2 P3 Q1 Q2 Q3 Q4 Q5 Z1 Z2 D.
  destruct (container_refines_spec_proof ops mo Hwf H64 Hmax) as (_ & rd & R1 & R2 & R3 & R4).
  fold w in R1. fold s in R2, R3, R4.
  assert (PD : pdata <> []) by (intro X; subst pdata; change (lenN (@nil N)) with 0 in P3; lia).
  assert (NP : get_num_parts rd sidp = 1).
  { unfold get_num_parts. rewrite nthS_eq.
    assert (X : nthN (directory rd) sidp = nthN (sp_directory s) sidp) by (rewrite R2; reflexivity).
    unfold directory, sp_directory in X. rewrite !nthN_map in X.
    destruct (nthN (sp_streams s) sidp) as [ss|]; cbn [option_map] in P2, X; [|discriminate].
    destruct (nthN (r_streams rd) sidp) as [rs|]; cbn [option_map] in X; [|discriminate].
    inversion X. inversion P2. rewrite H2 in *. rewrite H3. reflexivity. }
  assert (GP : snd (get_part_by_id mo rd sidp 0) = Ok (Some (pdata, pmeta))).
  { specialize (R4 [RById sidp 0]). cbn [rrun rstep map snd sp_rrun sp_rstep] in R4.
    unfold sp_read_init in R4. rewrite nthS_eq, nthN_map in R4.
    destruct (nthN (sp_streams s) sidp) as [ss|]; cbn [option_map] in P2, R4; [|discriminate].
    inversion P2 as [P2']. rewrite P2' in R4. cbn [nthS lenN length N.of_nat] in R4.
    change (nthS [(pdata, pmeta)] 0) with (Some (pdata, pmeta)) in R4. cbn iota beta in R4.
    inversion R4 as [R4']. rewrite R4'. rewrite sp_view_nonempty by assumption. reflexivity. }
  assert (GS : snd (snd (get_part mo rd sids)) = Ok (Some (frame, raw))).
  { specialize (R4 [RGet sids]). cbn [rrun rstep map sp_rrun sp_rstep] in R4.
    unfold sp_read_init in R4. rewrite nthS_eq, nthN_map in R4.
    destruct (nthN (sp_streams s) sids) as [ss|]; cbn [option_map] in Q2, R4; [|discriminate].
    inversion Q2 as [Q2']. rewrite Q2' in R4.
    change (nthS ((frame, raw) :: rest) 0) with (Some (frame, raw)) in R4. cbn iota beta in R4.
    destruct (get_part mo rd sids) as [rd' x]. cbn [map snd] in *.
    inversion R4 as [R4']. rewrite R4'. rewrite sp_view_nonempty by assumption. reflexivity. }
  set (st := mkPre (fst (fst (params_fields pdata))) (snd (fst (params_fields pdata))) (snd (params_fields pdata))
                   (fst (get_part mo rd sids)) v).
  assert (PRE : snd (open_pre mo zd (close w)) = O2ok st).
  { apply open_pre_ok_iff_proof. exists rd, sidp, pdata, pmeta, sids, frame, raw.
    rewrite R1. cbn [snd]. rewrite !R3. unfold st. cbn [ps_segment_size ps_kmer_length ps_min_match_len ps_reader ps_stream].
    repeat split; try assumption. }
  eexists. split; [apply (open2_ok_intro pf mo zd (close w) st ns PRE D)|].
  unfold h_samples. cbn [h_coll h_segment_size h_kmer_length h_min_match_len]. rewrite samples_of_names.
  split; [reflexivity|]. unfold st. cbn [ps_segment_size ps_kmer_length ps_min_match_len].
  destruct (params_fields pdata) as [[a b] c]. reflexivity.
Qed.

(* ------------------------------------------------------------------ the clamp is exact: `for i in 0..no_samples` *)
Lemma dec_names_beyond n : forall m i ptr, (length ptr < n)%nat -> (length ptr < m)%nat ->
  dec_names n i ptr = dec_names m i ptr.
Proof.
  induction n as [|n IH]; intros m i ptr Hn Hm; [lia|]. destruct m as [|m]; [lia|].
  cbn [dec_names]. destruct (dec_cbytes ptr) as [[s r]| |] eqn:E; try reflexivity.
  apply dec_cbytes_len in E. destruct (utf8_valid s); [|reflexivity].
  assert (L : (length r < length ptr)%nat) by (unfold lenN in E; lia).
  rewrite (IH m (i + 1) r) by lia. reflexivity.
Qed.

Theorem open2_loop_is_count_loop_proof : forall pf v count ptr, cv_decode_p pf v = Ok (count, ptr) ->
  deser_sample_names_p pf v = dec_names (N.to_nat count) 0 ptr.
Proof.
  intros pf v count ptr H. unfold deser_sample_names_p, deser_sample_names_f.
  change (cv_decode_f CV5_ADD_FORM pf v) with (cv_decode_p pf v). rewrite H. unfold clamp.
  destruct (count <=? lenN ptr + 1) eqn:E.
  - rewrite N.min_l by lia. reflexivity.
  - rewrite N.min_r by lia. apply dec_names_beyond; unfold lenN in *; lia.
Qed.
