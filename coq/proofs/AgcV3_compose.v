(* AgcV3_compose.v - C02B: the spec decoder on archives written by the model writers.
   container_half  (C13): reading a stream by name returns the stored parts
   catalogue_half  (C13 + C03): file -> sample / contig names and descriptor tables
   segment_half    (C13 + w-c01a store_then_get + C12 + C09): file -> stored bytes of every registered segment
   writer_conforms (all of the above + C07): file -> the catalogue of stored segments re-assembled *)
From Coq Require Import Lia ZifyBool ZifyN ZifyNat Permutation.
From Ragc Require Import Mach Varint Container CVarint Zigzag Names Details Collection Tuple SegCompress LZ SegReader
  Range GroupStore AgcV3.
From Ragc Require Import Consts_agcv3 Consts_groupstore Consts_archive Consts_collection Consts_tuple Consts_lz.
From Ragc Require Varint_proofs Container_proofs Collection_proofs SegCompress_proofs Tuple_proofs LZ_main Range_proofs
  GroupStore_proofs GroupStore_rules.
From Ragc Require Import AgcV3_proofs.
Open Scope N_scope.
Arguments N.add : simpl never.
Arguments N.sub : simpl never.
Arguments N.mul : simpl never.
Arguments N.div : simpl never.
Arguments N.modulo : simpl never.
Arguments N.land : simpl never.
Arguments N.pow : simpl never.
Arguments N.of_nat : simpl never.
Arguments N.to_nat : simpl never.

(* ================================================================ the codecs of the model writer (C12, C09) *)
Definition m_lz_enc (mml : N) (r t : list N) : list N := match LZ.encode mml r t with Ok e => e | _ => [] end.
Definition m_cref (zc : N -> list N -> list N) (x : list N) : list N * N :=
  match compress_reference_segment zc x with Ok cm => cm | _ => ([], 0) end.
Definition m_cpack (zc : N -> list N -> list N) (level : N) (x : list N) : list N := compress_segment_configured zc x level.
Definition ref_dom (x : list N) : Prop := lenN x < 2147483648.
Definition lz_dom (mml : N) (r t : list N) : Prop :=
  t <> [] /\ Forall sym_ok t /\ lenN r + lenN t + mml < 2147483648.

Section Codecs.
  Variable zc : N -> list N -> list N.
  Variable zd : list N -> option (list N).
  Hypothesis Hzd : forall l x, zd (zc l x) = Some x.
  Hypothesis Hzc : forall l x, zc l x <> [].
  Variable mml level : N.
  Hypothesis Hmml : 4 <= mml.

  Lemma codecs_instance_proof :
    GroupStore_proofs.codecs_ok (m_lz_enc mml) (decode_full mml) (m_cref zc) (m_cpack zc level) (dwm zd) ref_dom (lz_dom mml).
  Proof.
    assert (Hzc' : forall l x, x <> [] -> zc l x <> []) by (intros; apply Hzc).
    unfold GroupStore_proofs.codecs_ok. split; [|split].
    - intros x Hx. unfold ref_dom in Hx.
      destruct (SegCompress_proofs.ref_part_total_proof zc x Hx) as [c [m [Hc _]]].
      unfold m_cref. rewrite Hc. cbn [fst snd]. split.
      + apply (SegCompress_proofs.ref_segment_roundtrip_proof zc zd Hzd Hzc' x c m Hc).
      + unfold compress_reference_segment in Hc. destruct (check_repetitiveness x); [|discriminate].
        destruct (frac_lt_thr p); injection Hc as <- _; apply Hzc.
    - intros x _. unfold m_cpack, dwm. change W_PACK_MARKER_STEP with w_pack_marker.
      apply (SegCompress_proofs.delta_segment_roundtrip_proof zc zd Hzd Hzc' level x).
    - intros r t [Hne [Hsym Hlen]].
      destruct (LZ_main.lz_roundtrip_proof mml r t Hmml Hne Hsym Hlen) as [enc [He Hd]].
      unfold m_lz_enc. rewrite He. split; [|split].
      + intro E. apply (LZ_main.lz_empty_iff_proof mml r t enc Hmml Hne Hsym Hlen He). exact E.
      + intros _. exact Hd.
      + change CONTIG_SEPARATOR with 255. apply (LZ_main.lz_no_separator_proof mml r t enc Hmml Hne Hsym Hlen He).
  Qed.
End Codecs.

(* ================================================================ generic lemmas *)
Lemma obnd_ok : forall {A B} (a : A) (f : A -> outcome B), obnd (Ok a) f = f a.
Proof. reflexivity. Qed.

Lemma mapM_ok : forall {A B} (f : A -> outcome B) (g : A -> B) l,
  (forall x, In x l -> f x = Ok (g x)) -> mapM f l = Ok (map g l).
Proof.
  induction l as [|x l IH]; intro H; [reflexivity|].
  cbn [mapM map]. rewrite (H x (or_introl eq_refl)). cbn [obnd]. rewrite IH; [reflexivity|].
  intros y Hy. apply H. right. exact Hy.
Qed.

Lemma mapM_seq : forall {A B} (l : list A) (f : A -> B) (g : nat -> outcome B) a,
  (forall i x, nth_error l i = Some x -> g (a + i)%nat = Ok (f x)) ->
  mapM g (seq a (length l)) = Ok (map f l).
Proof.
  induction l as [|x l IH]; intros f g a H; [reflexivity|].
  cbn [length seq mapM map]. rewrite <- (Nat.add_0_r a) at 1. rewrite (H 0%nat x eq_refl). cbn [obnd].
  rewrite (IH f g (S a)); [reflexivity|].
  intros i y Hy. replace (S a + i)%nat with (a + S i)%nat by lia. apply H. exact Hy.
Qed.

Lemma nth_error_map' : forall {A B} (f : A -> B) l n, nth_error (map f l) n = option_map f (nth_error l n).
Proof. induction l as [|x l IH]; intros [|n]; cbn; auto. Qed.

Lemma nthN_map : forall {A B} (f : A -> B) l n, nthN (map f l) n = option_map f (nthN l n).
Proof. intros. unfold nthN. apply nth_error_map'. Qed.

(* ================================================================ container half (C13) *)
(* the stream of a name in the abstract container state, its stored parts, and what reading them returns *)
Definition sp_stream (s : spec) (name : list N) : option sstream :=
  match sp_find name 0 (sp_streams s) with Some i => nthN (sp_streams s) i | None => None end.
Definition sp_parts (s : spec) (name : list N) : option (list Container.item) := option_map ss_parts (sp_stream s name).
Definition sp_items (s : spec) (name : list N) : option (list Container.item) :=
  option_map (fun ss => map sp_view (ss_parts ss)) (sp_stream s name).

Lemma sp_find_nth : forall name l i j, sp_find name i l = Some j ->
  i <= j /\ exists ss, nthN l (j - i) = Some ss.
Proof.
  induction l as [|x l IH]; intros i j H; [discriminate|].
  cbn [sp_find] in H. destruct (name_eqb name (ss_name x)).
  - injection H as <-. split; [lia|]. exists x. replace (i - i) with 0 by lia. reflexivity.
  - destruct (IH _ _ H) as [Hle [ss Hss]]. split; [lia|]. exists ss.
    unfold nthN in *. replace (N.to_nat (j - i)) with (S (N.to_nat (j - (i + 1)))) by lia. exact Hss.
Qed.

Section ContainerHalf.
  Variable ops : list wop.
  Hypothesis Hwf : Forall wop_wf ops.
  Let w := fst (wrun w_init ops).
  Let s := fst (sp_run sp_init ops).
  Hypothesis Hlen : lenN (close w) <= spec_max_off.

  Lemma open_ok : exists rd, open_archive (close w) = Ok rd /\
    forall name, stream_items rd name = Ok (sp_items s name).
  Proof.
    assert (H64 : lenN (close w) < two64) by (unfold spec_max_off, two64 in *; lia).
    destruct (Container_proofs.container_refines_spec_proof ops spec_max_off Hwf H64 Hlen)
      as [_ [rd [Hd [Hdir [Hid Hrr]]]]].
    fold w in Hd. fold s in Hdir, Hid, Hrr.
    exists rd. split; [unfold open_archive; rewrite Hd; reflexivity|].
    intro name. unfold stream_items, sp_items, sp_stream. rewrite Hid.
    destruct (sp_find name 0 (sp_streams s)) as [sid|] eqn:Ef; [|reflexivity].
    destruct (sp_find_nth _ _ _ _ Ef) as [_ [ss Hss]]. rewrite N.sub_0_r in Hss. rewrite Hss. cbn [option_map].
    (* number of parts *)
    assert (Hnp : get_num_parts rd sid = lenN (ss_parts ss)).
    { unfold get_num_parts. rewrite Container_proofs.nthS_eq.
      unfold directory, sp_directory in Hdir.
      assert (E : nthN (map (fun s0 => (rs_name s0, Container.rs_raw s0, lenN (rs_parts s0))) (r_streams rd)) sid =
                  nthN (map (fun ss0 => (ss_name ss0, ss_raw ss0, lenN (ss_parts ss0))) (sp_streams s)) sid)
        by (rewrite Hdir; reflexivity).
      rewrite !nthN_map in E. rewrite Hss in E. destruct (nthN (r_streams rd) sid); [|discriminate].
      cbn [option_map] in E. injection E as _ _ E. exact E. }
    unfold read_stream. rewrite Hnp. unfold lenN. rewrite Nat2N.id.
    rewrite (mapM_seq (ss_parts ss) sp_view); [reflexivity|].
    intros i it Hit. cbn [Nat.add]. unfold read_item.
    assert (Hstep : sp_rstep (sp_read_init s) (RById sid (N.of_nat i)) = (sp_read_init s, Ok (Some (sp_view it)))).
    { cbn [sp_rstep]. unfold sp_read_init. rewrite Container_proofs.nthS_eq. rewrite nthN_map, Hss. cbn [option_map].
      rewrite Container_proofs.nthS_eq. unfold nthN at 1. rewrite Nat2N.id, Hit. reflexivity. }
    specialize (Hrr [RById sid (N.of_nat i)]). cbn [rrun rstep map snd sp_rrun] in Hrr.
    rewrite Hstep in Hrr. injection Hrr as Hrr. rewrite Hrr. reflexivity.
  Qed.
End ContainerHalf.

(* ================================================================ params *)
Lemma le32_at_gen : forall a v b off, lenN a = off -> le32_at (a ++ le_bytes 4 v ++ b) off = v mod 4294967296.
Proof.
  intros a v b off H. unfold le32_at. rewrite (Container_proofs.skipnN_app_exact a _ off H).
  rewrite (Container_proofs.firstnN_app_exact (le_bytes 4 v) b).
  - rewrite Varint_proofs.le_value_bytes. reflexivity.
  - unfold lenN. rewrite Varint_proofs.le_bytes_length. reflexivity.
Qed.

Lemma lenN_le4 : forall v, lenN (le_bytes 4 v) = 4.
Proof. intro v. unfold lenN. rewrite Varint_proofs.le_bytes_length. reflexivity. Qed.

Lemma decode_encode_params : forall k mml ss, k < two32 -> mml < two32 -> ss < two32 ->
  decode_params (encode_params k mml ss) = Ok (mkParams k mml SPEC_PACK_CARDINALITY ss None 16).
Proof.
  intros k mml ss Hk Hm Hs. unfold decode_params, encode_params.
  assert (HL : lenN (le_bytes 4 k ++ le_bytes 4 mml ++ le_bytes 4 SPEC_PACK_CARDINALITY ++ le_bytes 4 ss) = 16).
  { unfold lenN. rewrite !app_length, !Varint_proofs.le_bytes_length. reflexivity. }
  rewrite HL. change (16 <? SPEC_PARAMS_MIN_LEN) with false. cbv iota.
  change (SPEC_PARAMS_OFF_SEGSIZE + SPEC_PARAMS_FIELD_BYTES <=? 16) with true.
  change (SPEC_PARAMS_OFF_RAW_GROUPS + SPEC_PARAMS_FIELD_BYTES <=? 16) with false. cbv iota.
  assert (E0 : le32_at (le_bytes 4 k ++ le_bytes 4 mml ++ le_bytes 4 SPEC_PACK_CARDINALITY ++ le_bytes 4 ss) SPEC_PARAMS_OFF_K = k).
  { pose proof (le32_at_gen [] k (le_bytes 4 mml ++ le_bytes 4 SPEC_PACK_CARDINALITY ++ le_bytes 4 ss) SPEC_PARAMS_OFF_K eq_refl) as E.
    cbn [app] in E. rewrite E. apply N.mod_small. exact Hk. }
  assert (E1 : le32_at (le_bytes 4 k ++ le_bytes 4 mml ++ le_bytes 4 SPEC_PACK_CARDINALITY ++ le_bytes 4 ss) SPEC_PARAMS_OFF_MML = mml).
  { rewrite (le32_at_gen (le_bytes 4 k) mml _ SPEC_PARAMS_OFF_MML (lenN_le4 k)). apply N.mod_small. exact Hm. }
  assert (E2 : le32_at (le_bytes 4 k ++ le_bytes 4 mml ++ le_bytes 4 SPEC_PACK_CARDINALITY ++ le_bytes 4 ss) SPEC_PARAMS_OFF_PACK
               = SPEC_PACK_CARDINALITY).
  { rewrite (app_assoc (le_bytes 4 k)).
    rewrite (le32_at_gen (le_bytes 4 k ++ le_bytes 4 mml) SPEC_PACK_CARDINALITY _ SPEC_PARAMS_OFF_PACK); [reflexivity|].
    unfold lenN. rewrite app_length, !Varint_proofs.le_bytes_length. reflexivity. }
  assert (E3 : le32_at (le_bytes 4 k ++ le_bytes 4 mml ++ le_bytes 4 SPEC_PACK_CARDINALITY ++ le_bytes 4 ss) SPEC_PARAMS_OFF_SEGSIZE = ss).
  { rewrite (app_assoc (le_bytes 4 k)). rewrite (app_assoc (le_bytes 4 k ++ le_bytes 4 mml)).
    rewrite <- (app_nil_r (le_bytes 4 ss)).
    rewrite (le32_at_gen ((le_bytes 4 k ++ le_bytes 4 mml) ++ le_bytes 4 SPEC_PACK_CARDINALITY) ss [] SPEC_PARAMS_OFF_SEGSIZE).
    - apply N.mod_small. exact Hs.
    - unfold lenN. rewrite !app_length, !Varint_proofs.le_bytes_length. reflexivity. }
  rewrite E0, E1, E2, E3. reflexivity.
Qed.

(* ================================================================ catalogue half (C13 + C03) *)
Definition arch_view (a : arch) : arch :=
  mkArch (map sp_view (a_samples a)) (map sp_view (a_contigs a)) (map sp_view (a_details a)) (a_cur a).

Lemma sp_view_read_part : forall p, Collection.read_part (sp_view p) = Collection.read_part p.
Proof. intros [[|b l] m]; reflexivity. Qed.

Lemma nthN_map_view : forall (l : list Collection.part) n,
  @nthN Collection.part (@map Collection.part Collection.part sp_view l) n = option_map sp_view (@nthN Collection.part l n).
Proof. intros. apply (nthN_map sp_view l n). Qed.

Lemma load_contig_batch_view : forall zd c a b, load_contig_batch zd c (arch_view a) b = load_contig_batch zd c a b.
Proof.
  intros zd c a b. unfold load_contig_batch, arch_view. cbn [a_contigs a_details]. rewrite !nthN_map_view.
  destruct (nthN (a_contigs a) b) as [p|]; cbn [option_map]; [|reflexivity].
  destruct (nthN (a_details a) b) as [q|]; cbn [option_map]; rewrite ?sp_view_read_part; reflexivity.
Qed.

Lemma load_loop_view : forall zd n b c a, load_loop zd n b c (arch_view a) = load_loop zd n b c a.
Proof.
  induction n as [|n IH]; intros b c a; [reflexivity|].
  cbn [load_loop]. rewrite load_contig_batch_view. destruct (load_contig_batch zd c a b); cbn [obnd]; auto.
Qed.

Lemma load_all_view : forall zd ss k a, load_all zd ss k (arch_view a) = load_all zd ss k a.
Proof.
  intros zd ss k a. unfold load_all, load_batch_sample_names. cbn [arch_view a_samples a_cur a_contigs a_details].
  rewrite nthN_map_view. destruct (nthN (a_samples a) (a_cur a)) as [p|]; cbn [option_map]; [|reflexivity].
  rewrite sp_view_read_part. destruct (unz zd _ _); cbn [obnd]; [|reflexivity|reflexivity].
  destruct (deserialize_sample_names _ _); cbn [obnd fst snd]; [|reflexivity|reflexivity].
  rewrite map_length.
  change (mkArch (map sp_view (a_samples a)) (map sp_view (a_contigs a)) (map sp_view (a_details a)) (a_cur a + 1))
    with (arch_view (mkArch (a_samples a) (a_contigs a) (a_details a) (a_cur a + 1))).
  apply load_loop_view.
Qed.

Lemma store_loop_cur : forall zc fuel bs n i c a c' a',
  store_loop zc fuel bs n i c a = Ok (c', a') -> a_cur a' = a_cur a.
Proof.
  induction fuel as [|f IH]; intros bs n i c a c' a' H; cbn [store_loop] in H; destruct (n <=? i).
  - injection H as _ <-. reflexivity.
  - discriminate.
  - injection H as _ <-. reflexivity.
  - unfold store_contig_batch in H at 1.
    destruct (serialize_contig_names c i (N.min (i + bs) n)); cbn [obnd] in H; try discriminate.
    destruct (serialize_contig_details c i (N.min (i + bs) n)); cbn [obnd fst snd] in H; try discriminate.
    apply IH in H. cbn [a_cur] in H. exact H.
Qed.

Lemma store_all_cur : forall zc bs c cw a, store_all zc bs c arch_empty = Ok (cw, a) -> a_cur a = 0.
Proof. intros zc bs c cw a H. unfold store_all in H. apply store_loop_cur in H. exact H. Qed.

Section CatalogueHalf.
  Variable zc : N -> list N -> list N.
  Variable zd : list N -> option (list N).
  Hypothesis Hzd : forall l x, zd (zc l x) = Some x.
  Hypothesis Hzc : forall l x, zc l x <> [].
  Variable ss k : N.
  Hypothesis Hssk : ss + k <= 2147483648.
  Variable c cw : coll.
  Variable a : arch.
  Hypothesis Hss : segment_size c = ss.
  Hypothesis Hk : kmer_length c = k.
  Hypothesis Hn : lenN (samples c) < 4294967296.
  Hypothesis Hnames : Forall (fun s => Forall (fun b => 1 <= b < 128) (sname s)) (samples c).
  Hypothesis Hbatches : Forall (Collection_proofs.batch_ok zc ss k)
                               (Collection_proofs.chunks (length (samples c)) (N.to_nat SPEC_CATALOGUE_BATCH) (samples c)).
  Hypothesis Hstore : store_all zc SPEC_CATALOGUE_BATCH c arch_empty = Ok (cw, a).

  Variable ops : list wop.
  Hypothesis Hwf : Forall wop_wf ops.
  Let w := fst (wrun w_init ops).
  Let s := fst (sp_run sp_init ops).
  Hypothesis Hlen : lenN (close w) <= spec_max_off.
  Hypothesis Hsam : sp_parts s SPEC_NAME_SAMPLES = Some (a_samples a).
  Hypothesis Hcon : sp_parts s SPEC_NAME_CONTIGS = Some (a_contigs a).
  Hypothesis Hdet : sp_parts s SPEC_NAME_DETAILS = Some (a_details a).

  Lemma sp_items_of_parts : forall name l, sp_parts s name = Some l -> sp_items s name = Some (map sp_view l).
  Proof.
    intros name l H. unfold sp_parts, sp_items in *. destruct (sp_stream s name); [|discriminate].
    cbn [option_map] in *. injection H as <-. reflexivity.
  Qed.

  Lemma catalogue_half_proof :
    exists rd cr, open_archive (close w) = Ok rd /\
      (forall name, stream_items rd name = Ok (sp_items s name)) /\
      coll_arch rd = Ok (arch_view a) /\ load_all zd ss k (arch_view a) = Ok cr /\
      samples cr = samples c /\ samples_loaded cr = lenN (samples c).
  Proof.
    destruct (open_ok ops Hwf Hlen) as [rd [Hopen Hitems]]. fold w in Hopen. fold s in Hitems.
    destruct (Collection_proofs.batches_roundtrip_proof zc zd Hzd Hzc ss k Hssk SPEC_CATALOGUE_BATCH c
                eq_refl Hss Hk Hn Hnames Hbatches) as [cw' [a' [cr [Hst [_ [_ [Hload [Hsm [Hsl _]]]]]]]]].
    rewrite Hstore in Hst. injection Hst as <- <-.
    exists rd, cr. split; [exact Hopen|]. split; [exact Hitems|]. split; [|split; [|split; assumption]].
    - unfold coll_arch. rewrite !Hitems.
      rewrite (sp_items_of_parts _ _ Hsam), (sp_items_of_parts _ _ Hcon), (sp_items_of_parts _ _ Hdet).
      cbn [obnd]. unfold arch_view. rewrite (store_all_cur _ _ _ _ _ Hstore). reflexivity.
    - rewrite load_all_view. exact Hload.
  Qed.
End CatalogueHalf.

(* ================================================================ segment half (C13 + store_then_get + C12 + C09) *)
Definition unswap (p : SegReader.part) : Container.item := (snd p, fst p).

Lemma sp_items_parts : forall s name, sp_items s name = option_map (map sp_view) (sp_parts s name).
Proof. intros. unfold sp_items, sp_parts. destruct (sp_stream s name); reflexivity. Qed.

Lemma swap_view_unswap : forall l : list SegReader.part,
  Forall (fun p => snd p = [] -> fst p = 0) l -> map swap_item (map sp_view (map unswap l)) = l.
Proof.
  induction l as [|[m d] l IH]; intro H; [reflexivity|].
  inversion H as [|? ? H1 H2]; subst. cbn [map]. rewrite (IH H2). f_equal.
  destruct d as [|b d]; cbn in *; [rewrite (H1 eq_refl)|]; reflexivity.
Qed.

Section SegmentHalf.
  Variable zc : N -> list N -> list N.
  Variable zd : list N -> option (list N).
  Hypothesis Hzd : forall l x, zd (zc l x) = Some x.
  Hypothesis Hzc : forall l x, zc l x <> [].
  Variable mml level : N.
  Hypothesis Hmml : 4 <= mml.
  Variable gops : list op.
  Variable st : store.
  Hypothesis Hrun : run (m_lz_enc mml) (m_cref zc) (m_cpack zc level) gops = Ok st.
  Hypothesis Hops : GroupStore_proofs.ops_ok ref_dom (lz_dom mml) gops.
  Let st' := finalize (m_cpack zc level) st.

  Variable ops : list wop.
  Hypothesis Hwf : Forall wop_wf ops.
  Let w := fst (wrun w_init ops).
  Let s := fst (sp_run sp_init ops).
  Variable rd : reader.
  Hypothesis Hitems : forall name, stream_items rd name = Ok (sp_items s name).

  Variable g : N.
  Hypothesis Href : sp_parts s (stream_ref_name g) = option_map (map unswap) (gv_ref (view_of st' g)).
  Hypothesis Hdel : sp_parts s (stream_delta_name g) = option_map (map unswap) (gv_delta (view_of st' g)).

  Let HC := codecs_instance_proof zc zd Hzd Hzc mml level Hmml.

  Lemma parts_meta0 : forall parts,
    (gv_ref (view_of st' g) = Some parts \/ gv_delta (view_of st' g) = Some parts) ->
    Forall (fun p => snd p = [] -> fst p = 0) parts.
  Proof.
    intros parts Hv. apply Forall_forall. intros [m d] Hin Hd. cbn [fst snd] in *. subst d.
    destruct (GroupStore_rules.metadata_convention_proof _ _ _ _ _ _ _ HC gops st g parts (m, []) Hops Hrun Hv Hin)
      as [raw [Hl _]].
    cbn [SegReader.load_part] in Hl. destruct (m =? 0) eqn:E; [apply N.eqb_eq in E; exact E | discriminate].
  Qed.

  Lemma group_view_ok : group_view_of rd g = Ok (view_of st' g).
  Proof.
    unfold group_view_of. rewrite !Hitems. cbn [obnd]. rewrite !sp_items_parts, Href, Hdel.
    pose proof parts_meta0 as HM.
    destruct (view_of st' g) as [r d]. cbn [gv_ref gv_delta] in *. f_equal. f_equal.
    - destruct r as [r|]; [|reflexivity]. cbn [option_map]. f_equal. apply swap_view_unswap. apply HM. left. reflexivity.
    - destruct d as [d|]; [|reflexivity]. cbn [option_map]. f_equal. apply swap_view_unswap. apply HM. right. reflexivity.
  Qed.

  Lemma segment_half_proof : forall sg id, In (sg, id) (regs_of st g) ->
    get_seg zd rd mml (desc_of g sg id) = Ok (s_data sg) /\ wrap32 (lenN (s_data sg)) = lenN (s_data sg).
  Proof.
    intros sg id Hin.
    destruct (GroupStore_proofs.store_then_get_proof _ _ _ _ _ _ _ HC gops st g sg id Hops Hrun Hin) as [Hget Hl].
    split; [|exact Hl].
    unfold get_seg. change (d_group (desc_of g sg id)) with g. rewrite group_view_ok. cbn [obnd]. exact Hget.
  Qed.
End SegmentHalf.

(* ================================================================ the whole archive *)
(* a catalogue of stored segments: per sample and contig the segments in part order, each with the group and the
   in-group id it was registered under *)
Record placed := mkPlaced { pl_seg : seg_in; pl_group : N; pl_id : N }.
Definition layout : Type := list (list N * list (list N * list placed)).
Definition pl_desc (p : placed) : seg :=
  mkSeg (pl_group p) (pl_id p) (s_rc (pl_seg p)) (wrap32 (lenN (s_data (pl_seg p)))).
Definition pl_rseg (p : placed) : rseg :=
  mkRSeg (wrap32 (lenN (s_data (pl_seg p)))) (s_rc (pl_seg p)) (s_data (pl_seg p)).
Definition samples_of (L : layout) : list sample :=
  map (fun sm => mkSample (fst sm) (map (fun ct => mkContig (fst ct) (map pl_desc (snd ct))) (snd sm))) L.
Definition placed_in (L : layout) (p : placed) : Prop :=
  exists sm ct, In sm L /\ In ct (snd sm) /\ In p (snd ct).
(* what extraction must return: every contig = its stored segments re-oriented and tiled with k-overlaps *)
Definition reassembled (k : N) (L : layout) : catalogue :=
  map (fun sm => (fst sm, map (fun ct => (fst ct, tiled k (map pl_rseg (snd ct)))) (snd sm))) L.

Lemma mapM_map_ok : forall {A B C} (h : A -> B) (f : B -> outcome C) (g : A -> C) l,
  (forall x, In x l -> f (h x) = Ok (g x)) -> mapM f (map h l) = Ok (map g l).
Proof.
  induction l as [|x l IH]; intro H; [reflexivity|].
  cbn [map mapM]. rewrite (H x (or_introl eq_refl)). cbn [obnd]. rewrite IH; [reflexivity|].
  intros y Hy. apply H. right. exact Hy.
Qed.

Lemma tl_map : forall {A B} (f : A -> B) l, tl (map f l) = map f (tl l).
Proof. intros A B f [|x l]; reflexivity. Qed.

Section WriterConforms.
  Variable zc : N -> list N -> list N.
  Variable zd : list N -> option (list N).
  Hypothesis Hzd : forall l x, zd (zc l x) = Some x.
  Hypothesis Hzc : forall l x, zc l x <> [].
  Variable k mml ss level : N.
  Hypothesis Hmml : 4 <= mml.
  Hypothesis Hk32 : k < two32.
  Hypothesis Hm32 : mml < two32.
  Hypothesis Hs32 : ss < two32.
  Hypothesis Hssk : ss + k <= 2147483648.
  (* the group store *)
  Variable gops : list op.
  Variable st : store.
  Hypothesis Hrun : run (m_lz_enc mml) (m_cref zc) (m_cpack zc level) gops = Ok st.
  Hypothesis Hops : GroupStore_proofs.ops_ok ref_dom (lz_dom mml) gops.
  (* the catalogue *)
  Variable L : layout.
  Variable c cw : coll.
  Variable a : arch.
  Hypothesis Hsamples : samples c = samples_of L.
  Hypothesis Hss : segment_size c = ss.
  Hypothesis Hkk : kmer_length c = k.
  Hypothesis Hn : lenN (samples c) < 4294967296.
  Hypothesis Hnames : Forall (fun s => Forall (fun b => 1 <= b < 128) (sname s)) (samples c).
  Hypothesis Hbatches : Forall (Collection_proofs.batch_ok zc ss k)
                               (Collection_proofs.chunks (length (samples c)) (N.to_nat SPEC_CATALOGUE_BATCH) (samples c)).
  Hypothesis Hstore : store_all zc SPEC_CATALOGUE_BATCH c arch_empty = Ok (cw, a).
  Hypothesis Hplaced : forall p, placed_in L p -> In (pl_seg p, pl_id p) (regs_of st (pl_group p)).
  Hypothesis Hoverlap : forall sm ct, In sm L -> In ct (snd sm) ->
                        Forall (fun p => k <= lenN (s_data (pl_seg p))) (tl (snd ct)).
  (* the container *)
  Variable ops : list wop.
  Hypothesis Hwf : Forall wop_wf ops.
  Let w := fst (wrun w_init ops).
  Let s := fst (sp_run sp_init ops).
  Hypothesis Hlen : lenN (close w) <= spec_max_off.
  Hypothesis Hparams : sp_parts s SPEC_NAME_PARAMS = Some [(encode_params k mml ss, SPEC_PARAMS_METADATA)].
  Hypothesis Hsam : sp_parts s SPEC_NAME_SAMPLES = Some (a_samples a).
  Hypothesis Hcon : sp_parts s SPEC_NAME_CONTIGS = Some (a_contigs a).
  Hypothesis Hdet : sp_parts s SPEC_NAME_DETAILS = Some (a_details a).
  Hypothesis Hgroups : forall p, placed_in L p ->
    sp_parts s (stream_ref_name (pl_group p)) =
      option_map (map unswap) (gv_ref (view_of (finalize (m_cpack zc level) st) (pl_group p))) /\
    sp_parts s (stream_delta_name (pl_group p)) =
      option_map (map unswap) (gv_delta (view_of (finalize (m_cpack zc level) st) (pl_group p))).

  Theorem writer_conforms_proof : decode zd (close w) = Ok (reassembled k L).
  Proof.
    destruct (catalogue_half_proof zc zd Hzd Hzc ss k Hssk c cw a Hss Hkk Hn Hnames Hbatches Hstore ops Hwf Hlen
                Hsam Hcon Hdet) as [rd [cr [Hopen [Hitems [Hcoll [Hload [Hsm _]]]]]]].
    fold w in Hopen. fold s in Hitems.
    unfold decode. rewrite Hopen. cbn [obnd].
    assert (Hp : read_params rd = Ok (mkParams k mml SPEC_PACK_CARDINALITY ss None 16)).
    { unfold read_params. rewrite Hitems. cbn [obnd]. rewrite sp_items_parts, Hparams. cbn [option_map map].
      assert (E : sp_view (encode_params k mml ss, SPEC_PARAMS_METADATA) = (encode_params k mml ss, SPEC_PARAMS_METADATA))
        by (unfold encode_params; cbn [le_bytes app]; reflexivity).
      rewrite E. cbn [fst]. apply decode_encode_params; assumption. }
    rewrite Hp. cbn [obnd p_k p_mml p_segsize]. rewrite Hcoll. cbn [obnd]. rewrite Hload. cbn [obnd].
    rewrite Hsm, Hsamples. unfold samples_of, reassembled.
    apply mapM_map_ok. intros sm Hsmin. unfold decode_sample. cbn [scontigs sname].
    rewrite (mapM_map_ok _ (decode_contig zd rd k mml) (fun ct => (fst ct, tiled k (map pl_rseg (snd ct))))); [reflexivity|].
    intros ct Hctin. unfold decode_contig. cbn [csegs cname].
    rewrite (mapM_map_ok pl_desc (decode_seg zd rd mml) pl_rseg).
    - cbn [obnd]. unfold name. rewrite (Range_proofs.reconstruct_total_proof k (map pl_rseg (snd ct))); [reflexivity|].
      split.
      + apply Forall_forall. intros r Hr. apply in_map_iff in Hr. destruct Hr as [p [<- Hpin]].
        assert (Hpl : placed_in L p) by (exists sm, ct; auto).
        destruct (Hgroups p Hpl) as [Hr Hd].
        destruct (segment_half_proof zc zd Hzd Hzc mml level Hmml gops st Hrun Hops ops rd Hitems (pl_group p) Hr Hd
                    (pl_seg p) (pl_id p) (Hplaced p Hpl)) as [_ Hl].
        cbn [pl_rseg Range.rs_raw rs_data]. exact Hl.
      + rewrite tl_map. apply Forall_forall. intros r Hr. apply in_map_iff in Hr. destruct Hr as [p [<- Hpin]].
        pose proof (Hoverlap sm ct Hsmin Hctin) as Ho. rewrite Forall_forall in Ho. cbn [pl_rseg rs_data]. apply Ho. exact Hpin.
    - intros p Hpin. assert (Hpl : placed_in L p) by (exists sm, ct; auto).
      destruct (Hgroups p Hpl) as [Hr Hd].
      destruct (segment_half_proof zc zd Hzd Hzc mml level Hmml gops st Hrun Hops ops rd Hitems (pl_group p) Hr Hd
                  (pl_seg p) (pl_id p) (Hplaced p Hpl)) as [Hg _].
      unfold decode_seg.
      change (desc_of_seg (pl_desc p)) with (desc_of (pl_group p) (pl_seg p) (pl_id p)).
      rewrite Hg. reflexivity.
  Qed.
End WriterConforms.

(* ================================================================ a decision procedure for ops_ok (non-vacuity examples) *)
Definition lz_domb (mml : N) (r t : list N) : bool :=
  negb (is_nil t) && forallb sym_okb t && (lenN r + lenN t + mml <? 2147483648).
Definition seg_okb (mml g : N) (segs : list seg_in) (s : seg_in) : bool :=
  (lenN (s_data s) <? two32) &&
  (if g <? 16 then negb (existsb (N.eqb CONTIG_SEPARATOR) (s_data s))
   else (lenN (s_data s) <? 2147483648) && forallb (fun s' => lz_domb mml (s_data s') (s_data s)) segs).
Definition ops_okb (mml : N) (ops : list op) : bool :=
  forallb (fun o : op => forallb (seg_okb mml (fst o) (GroupStore.segs_of ops (fst o))) (GroupStore.segs_of ops (fst o))) ops.

Lemma ops_okb_ok : forall mml ops, ops_okb mml ops = true -> GroupStore_proofs.ops_ok ref_dom (lz_dom mml) ops.
Proof.
  intros mml ops H g s Hin.
  assert (Hg : forallb (seg_okb mml g (GroupStore.segs_of ops g)) (GroupStore.segs_of ops g) = true).
  { unfold GroupStore.segs_of in Hin. apply in_flat_map in Hin. destruct Hin as [o [Ho Hs]].
    destruct (fst o =? g) eqn:E; [|destruct Hs]. apply N.eqb_eq in E.
    unfold ops_okb in H. rewrite forallb_forall in H. specialize (H o Ho). rewrite E in H. exact H. }
  rewrite forallb_forall in Hg. specialize (Hg s Hin). unfold seg_okb in Hg.
  apply andb_true_iff in Hg. destruct Hg as [H1 H2]. apply N.ltb_lt in H1.
  split; [exact H1|]. split.
  - intros Hlt Hsep. apply N.ltb_lt in Hlt. rewrite Hlt in H2. apply negb_true_iff in H2.
    assert (E : existsb (N.eqb CONTIG_SEPARATOR) (s_data s) = true)
      by (apply existsb_exists; exists CONTIG_SEPARATOR; split; [exact Hsep | apply N.eqb_refl]).
    rewrite E in H2. discriminate.
  - intro Hge. assert (E : (g <? 16) = false) by (apply N.ltb_ge; exact Hge). rewrite E in H2.
    apply andb_true_iff in H2. destruct H2 as [H2 H3]. split; [unfold ref_dom; apply N.ltb_lt; exact H2|].
    intros s' Hs'. rewrite forallb_forall in H3. specialize (H3 s' Hs'). unfold lz_domb in H3.
    apply andb_true_iff in H3. destruct H3 as [H3 H5]. apply andb_true_iff in H3. destruct H3 as [H3 H4].
    unfold lz_dom. split; [|split].
    + intro E0. rewrite E0 in H3. discriminate.
    + apply Forall_forall. intros c Hc. rewrite forallb_forall in H4. exact (H4 c Hc).
    + apply N.ltb_lt. exact H5.
Qed.
