(* Total_proofs.v - C01T: the model writer cannot fail.  grand_roundtrip (props/C01G.v) and end_to_end_inputs (props/C01.v)
   ASSUME model_build = Ok b, i.e. that the group store run and Pipeline.create return Ok.  Here those are PROVED from
   hypotheses on the inputs and the oracles:
     1. create_total          Pipeline.create returns Ok under inputs_ok, distinct contig names per sample, decisions_ok;
                              it returns Err exactly when a sample repeats a contig name, and never Panic
     2. store_run_total       the group store run returns Ok when no group receives 2^32 - 2 pieces; sufficient:
                              fewer than 2^32 - 2 pieces in total; sufficient: 2 * (bases + contigs) + 2 < 2^32
     3. catalogue             the descriptor vector create builds for a contig is a permutation of the descriptors it
                              registered for that contig (no holes, nothing else): every stored descriptor occurs in coll,
                              hence group ids of emitted pieces are bounded by the catalogue domain
     4. grand_roundtrip_total no "= Ok" hypothesis about the writer left *)
From Coq Require Import Lia ZifyBool ZifyN ZifyNat Permutation.
From Ragc Require Import Mach Consts_kmer Consts_segment Consts_pipeline Consts_groupstore Consts_agcv3 Consts_collection.
From Ragc Require Import Varint Kmer Segment Pipeline SegReader GroupStore Tuple SegCompress LZ Details Collection Container
  Range AgcV3 ModelCreate.
From Ragc Require Import Segment_proofs Pipeline_proofs GroupStore_proofs Compose_codecs Compose_proofs.
From Ragc Require GroupStore_inv GroupStore_rules Collection_proofs Container_proofs Range_proofs AgcV3_proofs.
From Ragc Require Import AgcV3_compose Grand_proofs.
Open Scope N_scope.
Arguments N.add : simpl never.
Arguments N.sub : simpl never.
Arguments N.mul : simpl never.
Arguments N.div : simpl never.
Arguments N.modulo : simpl never.
Arguments N.land : simpl never.
Arguments N.pow : simpl never.
Arguments N.of_nat : simpl never.
Arguments N.to_nat : simpl never.

(* ================================================================ 1. create cannot fail *)
Lemma decisions_decs_ok : forall k spl segsize dec pushes i s c data,
  decisions_ok k spl segsize dec pushes -> nth_error pushes i = Some (s, c, data) ->
  decs_ok (N.to_nat k) (split_gen true data spl k) (dec i) 0.
Proof.
  intros k spl segsize dec pushes i s c data Hdec Hi j sg Hj. rewrite Nat.add_0_l.
  exact (Hdec i s c data j sg Hi Hj).
Qed.

Lemma all_regs_total : forall k spl segsize dec addr, 1 <= k -> forall pushes i0,
  (forall j s c data, nth_error pushes j = Some (s, c, data) ->
                      decs_ok (N.to_nat k) (split_gen true data spl k) (dec (i0 + j)%nat) 0) ->
  exists regs, all_regs k spl segsize dec addr i0 pushes = Ok regs.
Proof.
  intros k spl segsize dec addr Hk. induction pushes as [|[[s c] data] rest IH]; intros i0 H.
  - exists []. reflexivity.
  - cbn [all_regs]. rewrite contig_regs_eq.
    assert (Hk' : (1 <= N.to_nat k)%nat) by lia.
    assert (H0 : decs_ok (N.to_nat k) (split_gen true data spl k) (dec i0) 0).
    { specialize (H 0%nat s c data eq_refl). rewrite Nat.add_0_r in H. exact H. }
    destruct (contig_pieces_spec _ (dec i0) Hk' _ 0%nat 0%nat H0) as (ps & _ & Ep & _). rewrite Ep. cbn [obnd].
    destruct (IH (S i0)) as (more & Em).
    { intros j s' c' data' Hj. replace (S i0 + j)%nat with (i0 + S j)%nat by lia. exact (H (S j) s' c' data' Hj). }
    rewrite Em. cbn [obnd]. eexists. reflexivity.
Qed.

Lemma contig_names_ok_dec : forall samples, {contig_names_ok samples} + {~ contig_names_ok samples}.
Proof.
  intro samples. unfold contig_names_ok. apply Forall_dec. intro s.
  apply ListDec.NoDup_dec. apply list_eq_dec. apply N.eq_dec.
Qed.

Lemma create_total_proof : forall ecn k spl segsize dec addr sched samples,
  1 <= k -> inputs_ok samples -> contig_names_ok samples -> decisions_ok k spl segsize dec (pushes_of samples) ->
  exists coll stored, create ecn k spl segsize dec addr sched (pushes_of samples) = Ok (coll, stored).
Proof.
  intros ecn k spl segsize dec addr sched samples Hk Hin Hnames Hdec. unfold create.
  destruct (reg_samples ecn samples [] (fun _ _ _ F => match F with end) Hin) as [H1 _].
  rewrite (H1 Hnames). cbn [obnd].
  destruct (all_regs_total k spl segsize dec addr Hk (pushes_of samples) 0%nat) as (regs & Er).
  { intros j s c data Hj. rewrite Nat.add_0_l. exact (decisions_decs_ok _ _ _ _ _ _ _ _ _ Hdec Hj). }
  rewrite Er. cbn [obnd]. eexists. eexists. reflexivity.
Qed.

(* the outcome of create is decided by the contig names alone *)
Lemma create_outcome_proof : forall ecn k spl segsize dec addr sched samples,
  1 <= k -> inputs_ok samples -> decisions_ok k spl segsize dec (pushes_of samples) ->
  (contig_names_ok samples <-> exists coll stored, create ecn k spl segsize dec addr sched (pushes_of samples) = Ok (coll, stored)) /\
  (~ contig_names_ok samples <-> create ecn k spl segsize dec addr sched (pushes_of samples) = Err) /\
  create ecn k spl segsize dec addr sched (pushes_of samples) <> Panic.
Proof.
  intros ecn k spl segsize dec addr sched samples Hk Hin Hdec.
  destruct (contig_names_ok_dec samples) as [Hok|Hbad].
  - destruct (create_total_proof ecn k spl segsize dec addr sched samples Hk Hin Hok Hdec) as (coll & stored & E).
    split; [|split].
    + split; [intros _; exists coll, stored; exact E | intros _; exact Hok].
    + split; [intro H; contradiction | intro H; rewrite H in E; discriminate].
    + rewrite E. discriminate.
  - pose proof (duplicate_name_rejected_proof ecn k spl segsize dec addr sched samples Hin Hbad) as E.
    split; [|split].
    + split; [intro H; contradiction | intros (coll & stored & E'); rewrite E' in E; discriminate].
    + split; [intros _; exact E | intros _; exact Hbad].
    + rewrite E. discriminate.
Qed.

(* ================================================================ 2. the group store run cannot trap *)
Lemma filter_length_le {A} (f : A -> bool) l : (length (filter f l) <= length l)%nat.
Proof. induction l as [|x l IH]; cbn [filter length]; [lia|]. destruct (f x); cbn [length]; lia. Qed.

Lemma store_run_total_proof : forall lz_enc compress_ref compress_pack (emitted : list (N * seg_in)) gops,
  ops_carry emitted gops ->
  (forall g, lenN (filter (fun x => fst x =? g) emitted) + 2 < two32) ->
  exists st, run lz_enc compress_ref compress_pack gops = Ok st.
Proof.
  intros lz_enc compress_ref compress_pack emitted gops Hcarry Hb.
  apply GroupStore_rules.run_no_trap_proof. intro g.
  pose proof (Permutation_length (Hcarry g)) as E. rewrite map_length in E.
  specialize (Hb g). unfold lenN in *. rewrite E. exact Hb.
Qed.

Lemma per_group_from_total : forall (emitted : list (N * seg_in)),
  lenN emitted + 2 < two32 -> forall g, lenN (filter (fun x => fst x =? g) emitted) + 2 < two32.
Proof.
  intros emitted H g. pose proof (filter_length_le (fun x : N * seg_in => fst x =? g) emitted). unfold lenN in *. lia.
Qed.

Lemma per_group_le_total : forall (emitted : list (N * seg_in)) g,
  lenN (filter (fun x => fst x =? g) emitted) <= lenN emitted.
Proof. intros emitted g. pose proof (filter_length_le (fun x : N * seg_in => fst x =? g) emitted). unfold lenN. lia. Qed.

(* ---- the number of pieces is bounded by the input size: at most one raw segment per symbol plus the final one,
   at most two pieces per raw segment *)
Lemma seg_final_count ws contig a f fd : (length (seg_final ws contig a f fd) <= 1)%nat.
Proof.
  unfold seg_final. destruct (Nat.ltb a (length contig)); [|cbn; lia].
  destruct (skipn a contig); [cbn; lia|]. destruct ws; [destruct (f =? MISSING_KMER)|]; cbn; lia.
Qed.

Lemma seg_loop_count ws spl k contig : forall rest pos x a f fd,
  (length (seg_loop ws spl k contig rest pos x a f fd) <= length rest + 1)%nat.
Proof.
  induction rest as [|b rest IH]; intros pos x a f fd; cbn [seg_loop length].
  - pose proof (seg_final_count ws contig a f fd). lia.
  - destruct (3 <? b); [specialize (IH (S pos) (kmer_reset x) a f fd); lia|].
    destruct (is_full (insert_canonical x b)); [|specialize (IH (S pos) (insert_canonical x b) a f fd); lia].
    destruct (spl (data_canonical (insert_canonical x b))); [|specialize (IH (S pos) (insert_canonical x b) a f fd); lia].
    rewrite app_length.
    match goal with |- (length ?p + length (seg_loop _ _ _ _ _ ?pos' ?x' ?a' ?f' ?fd') <= _)%nat =>
      specialize (IH pos' x' a' f' fd'); assert (length p <= 1)%nat end.
    { destruct (Segment.slice contig a (S pos)); [cbn; lia|].
      destruct ws; [destruct (f =? MISSING_KMER)|]; cbn; lia. }
    lia.
Qed.

Lemma split_gen_count ws contig spl k : (length (split_gen ws contig spl k) <= length contig + 1)%nat.
Proof.
  unfold split_gen. destruct (lenN contig <? k); [cbn; lia|].
  pose proof (seg_loop_count ws spl (N.to_nat k) contig contig 0%nat (kmer_new k) 0%nat MISSING_KMER false) as H.
  destruct (seg_loop ws spl (N.to_nat k) contig contig 0 (kmer_new k) 0 MISSING_KMER false); [cbn; lia|exact H].
Qed.

Lemma seg_pieces_count k s d n ps : seg_pieces k s d n = Ok ps -> (length ps <= 2)%nat.
Proof.
  unfold seg_pieces. destruct d as [o|o pos lf rf|o f|o f]; try (intro H; apply ok_inj in H; subst ps; cbn; lia).
  destruct (split_segment_at_position _ pos k) as [[l r]| |]; try discriminate.
  destruct (should_reverse s (dec_o (Split o pos lf rf))); intro H; apply ok_inj in H; subst ps; cbn; lia.
Qed.

Lemma contig_pieces_count k dec : forall segs j n ps,
  contig_pieces k segs dec j n = Ok ps -> (length ps <= 2 * length segs)%nat.
Proof.
  induction segs as [|s rest IH]; intros j n ps H; cbn [contig_pieces] in H.
  - apply ok_inj in H. subst ps. cbn. lia.
  - destruct (seg_pieces k s (dec j) n) as [ps1| |] eqn:E1; cbn [obnd] in H; try discriminate.
    destruct (contig_pieces k rest dec (S j) (n + part_incr (dec j))) as [ps2| |] eqn:E2; cbn [obnd] in H; try discriminate.
    apply ok_inj in H. subst ps. rewrite app_length. cbn [length].
    pose proof (seg_pieces_count _ _ _ _ _ E1). pose proof (IH _ _ _ E2). lia.
Qed.

(* the size of an input as the bound counts it: bases + contigs *)
Definition input_size (pushes : list push) : N := fold_right (fun p acc => lenN (snd p) + 1 + acc) 0 pushes.

Lemma all_emit_count k spl segsize dec grp : forall pushes i,
  lenN (all_emit k spl segsize dec grp i pushes) <= 2 * input_size pushes.
Proof.
  induction pushes as [|[[s c] data] rest IH]; intro i; cbn [all_emit input_size fold_right].
  - unfold lenN. cbn. lia.
  - specialize (IH (S i)). fold (input_size rest). unfold lenN in *. rewrite app_length. cbn [snd].
    assert (H : (length (contig_emit k spl segsize dec grp i (s, c, data)) <= 2 * (length data + 1))%nat).
    { unfold contig_emit, pieces_of. destruct (contig_pieces _ _ _ _ _) as [ps| |] eqn:E; [|cbn; lia|cbn; lia].
      rewrite map_length. apply contig_pieces_count in E.
      pose proof (split_gen_count true data spl k). unfold split_at_splitters_with_size in E. lia. }
    lia.
Qed.

Lemma store_run_total_inputs_proof : forall lz_enc compress_ref compress_pack k spl segsize dec grp pushes gops,
  ops_carry (all_emit k spl segsize dec grp 0 pushes) gops ->
  2 * input_size pushes + 2 < two32 ->
  exists st, run lz_enc compress_ref compress_pack gops = Ok st.
Proof.
  intros lz_enc compress_ref compress_pack k spl segsize dec grp pushes gops Hcarry Hb.
  apply (store_run_total_proof _ _ _ _ _ Hcarry). apply per_group_from_total.
  pose proof (all_emit_count k spl segsize dec grp pushes 0%nat). lia.
Qed.

(* ================================================================ 3. the catalogue create builds *)
Section Catalogue.
  Variable ecn : Pipeline.name -> Pipeline.name.
  Variables (k : N) (spl : N -> bool) (segsize : N).
  Variable dec : nat -> nat -> decision.
  Variable addr : nat -> nat -> N * N.
  Variable sched : list registration -> list registration.
  Variable samples : list (Pipeline.name * list (Pipeline.name * list N)).
  Hypothesis Hk : 1 <= k.
  Hypothesis Hin : inputs_ok samples.
  Hypothesis Hdec : decisions_ok k spl segsize dec (pushes_of samples).
  Hypothesis Hsched : forall l, Permutation l (sched l).

  Definition vec_of (regs : list registration) (s c : Pipeline.name) : list Pipeline.seg_desc :=
    place_list [] (sel ecn s c (sched regs)).

  (* what create = Ok says *)
  Lemma create_inv : forall coll stored,
    create ecn k spl segsize dec addr sched (pushes_of samples) = Ok (coll, stored) ->
    exists regs, contig_names_ok samples /\
      all_regs k spl segsize dec addr 0 (pushes_of samples) = Ok regs /\
      stored = map (fun r => (r_desc r, r_data r)) regs /\
      coll = build (shape_of samples) (vec_of regs).
  Proof.
    intros coll stored Hc. unfold create in Hc.
    destruct (register_all ecn [] (pushes_of samples)) as [coll0| |] eqn:Er; cbn [obnd] in Hc; try discriminate.
    destruct (all_regs k spl segsize dec addr 0 (pushes_of samples)) as [regs| |] eqn:Ea; cbn [obnd] in Hc; try discriminate.
    apply ok_inj in Hc. destruct (register_all_ok ecn samples coll0 Hin Er) as [Hnames ->].
    exists regs. split; [exact Hnames|]. split; [reflexivity|].
    pose proof (shape_of_ok samples Hin Hnames) as Hsh. rewrite (place_all_build ecn _ Hsh) in Hc.
    inversion Hc. split; reflexivity.
  Qed.

  (* the descriptor vector of contig number j is a permutation of the descriptors registered for its pieces:
     add_segment_placed leaves no hole and nothing else gets in *)
  Lemma contig_vector : forall regs, contig_names_ok samples ->
    all_regs k spl segsize dec addr 0 (pushes_of samples) = Ok regs ->
    forall j s c data, nth_error (pushes_of samples) j = Some (s, c, data) ->
    exists rs, contig_regs k spl segsize dec addr j (s, c, data) = Ok rs /\
               (forall r, In r rs -> In r regs) /\
               sel ecn s c regs = map (fun r => (r_place r, r_desc r)) rs /\
               Permutation (vec_of regs s c) (map r_desc rs).
  Proof.
    intros regs Hnames Ea j s c data Hj.
    destruct (all_regs_sel ecn k spl segsize dec addr _ _ _ Ea (pushes_nodup _ (proj1 Hin) Hnames)
                           (pushes_nonempty _ Hin) j _ _ _ Hj) as (rs & Ers & Esel & Hrs).
    cbn [Nat.add] in Ers. exists rs. split; [exact Ers|]. split; [exact Hrs|]. split; [exact Esel|].
    rewrite contig_regs_eq in Ers.
    assert (Hk' : (1 <= N.to_nat k)%nat) by lia.
    destruct (contig_pieces_spec _ (dec j) Hk' _ 0%nat 0%nat (decisions_decs_ok _ _ _ _ _ _ _ _ _ Hdec Hj))
      as (ps & ps' & Ep & Pp & Np & _).
    rewrite Ep in Ers. cbn [obnd] in Ers. apply ok_inj in Ers. subst rs.
    set (pd := fun r : registration => (r_place r, r_desc r)) in *.
    assert (PL : Permutation (sel ecn s c (sched regs)) (map pd (map (reg_of addr j s c) ps'))).
    { eapply Permutation_trans; [apply Permutation_sym; apply sel_perm; apply Hsched|]. rewrite Esel.
      do 2 apply Permutation_map. exact Pp. }
    unfold vec_of. rewrite (place_perm_dense _ _ PL).
    - assert (E : forall l, map snd (map pd l) = map r_desc l) by (intro l; rewrite map_map; reflexivity).
      rewrite E. do 2 apply Permutation_map. apply Permutation_sym. exact Pp.
    - rewrite !map_map, !map_length. rewrite <- Np. apply map_ext. intro pc. unfold pd. cbn [fst].
      apply (reg_of_fields addr j s c pc).
  Qed.

  Variables (coll : Pipeline.collection) (stored : list (Pipeline.seg_desc * list N)).
  Hypothesis Hc : create ecn k spl segsize dec addr sched (pushes_of samples) = Ok (coll, stored).

  Definition desc_in (cl : Pipeline.collection) (d : Pipeline.seg_desc) : Prop :=
    exists sd cd, In sd cl /\ In cd (snd sd) /\ In d (snd cd).

  Lemma build_entry : forall V (s : Pipeline.name * list (Pipeline.name * list N)) (c : Pipeline.name * list N) d,
    In s samples -> In c (snd s) -> In d (V (fst s) (fst c)) -> desc_in (build (shape_of samples) V) d.
  Proof.
    intros V s c d Hs Hcin Hd.
    exists (fst s, map (fun c0 => (c0, V (fst s) c0)) (map fst (snd s))), (fst c, V (fst s) (fst c)).
    split; [|split; [|exact Hd]].
    - unfold build, shape_of. apply in_map_iff. exists (fst s, map fst (snd s)). split; [reflexivity|].
      apply in_map_iff. exists s. auto.
    - cbn [snd]. apply in_map_iff. exists (fst c). split; [reflexivity|]. apply in_map. exact Hcin.
  Qed.

  (* every descriptor handed to the store occurs in the catalogue *)
  Lemma stored_in_coll : forall d b, In (d, b) stored -> desc_in coll d.
  Proof.
    intros d b Hdb. destruct (create_inv coll stored Hc) as (regs & Hnames & Ea & -> & ->).
    apply in_map_iff in Hdb. destruct Hdb as (r & Er & Hr).
    assert (Ed : r_desc r = d) by (inversion Er; reflexivity). clear Er.
    destruct (all_regs_names k spl segsize dec addr _ _ _ Ea r Hr) as ([[s c] data] & Hp & Ek).
    unfold key_of in Ek. cbn [fst snd] in Ek.
    destruct (pushes_keys samples _ Hp) as (s0 & c0 & Hs0 & Hc0 & Ep).
    assert (Fs : r_sample r = fst s0) by congruence. assert (Fc : r_contig r = fst c0) by congruence.
    rewrite Ep in Hp. clear Ek Ep s c data.
    pose proof (pushes_nonempty _ Hin _ Hp) as Hne. cbn [fst] in Hne.
    apply In_nth_error in Hp. destruct Hp as [j Hj].
    destruct (contig_vector regs Hnames Ea j _ _ _ Hj) as (rs & _ & _ & Esel & P).
    apply (build_entry _ s0 c0 d Hs0 Hc0). apply (Permutation_in _ (Permutation_sym P)).
    assert (Hsel : In (r_place r, r_desc r) (sel ecn (fst s0) (fst c0) regs)).
    { unfold sel. apply in_map_iff. exists r. split; [reflexivity|]. apply filter_In. split; [exact Hr|].
      rewrite Fs, Fc. rewrite stored_name_nonempty by exact Hne.
      rewrite !name_eqb_refl. reflexivity. }
    rewrite Esel in Hsel. apply in_map_iff in Hsel. destruct Hsel as (r' & Er' & Hr').
    apply in_map_iff. exists r'. split; [|exact Hr']. inversion Er'. rewrite <- Ed. assumption.
  Qed.

  (* and the catalogue holds nothing else *)
  Lemma coll_from_stored : forall d, desc_in coll d -> exists b, In (d, b) stored.
  Proof.
    intros d (sd & cd & Hsd & Hcd & Hd). destruct (create_inv coll stored Hc) as (regs & Hnames & Ea & -> & ->).
    unfold build, shape_of in Hsd. apply in_map_iff in Hsd. destruct Hsd as (sh0 & <- & Hsh0).
    apply in_map_iff in Hsh0. destruct Hsh0 as (s0 & <- & Hs0).
    cbn [fst snd] in Hcd. apply in_map_iff in Hcd. destruct Hcd as (cn0 & <- & Hcn0).
    apply in_map_iff in Hcn0. destruct Hcn0 as (c0 & <- & Hc0). cbn [snd] in Hd.
    assert (Hp : In (fst s0, fst c0, snd c0) (pushes_of samples)).
    { unfold pushes_of. apply in_flat_map. exists s0. split; [exact Hs0|]. apply in_map_iff. exists c0. auto. }
    apply In_nth_error in Hp. destruct Hp as [j Hj].
    destruct (contig_vector regs Hnames Ea j _ _ _ Hj) as (rs & _ & Hrs & _ & P).
    apply (Permutation_in _ P) in Hd. apply in_map_iff in Hd. destruct Hd as (r & <- & Hr).
    exists (r_data r). apply in_map_iff. exists r. split; [reflexivity|exact (Hrs r Hr)].
  Qed.
End Catalogue.

(* ---- the descriptor fields of a catalogue in the domain of the catalogue codec *)
Lemma chunks_cover {A} bs : (0 < bs)%nat -> forall f (l : list A), (length l <= f)%nat ->
  forall x, In x l -> exists B, In B (Collection_proofs.chunks f bs l) /\ In x B.
Proof.
  intro Hbs. induction f as [|f IH]; intros l Hl x Hx.
  - destruct l; [contradiction|cbn in Hl; lia].
  - destruct l as [|y l']; [contradiction|]. cbn [Collection_proofs.chunks].
    rewrite <- (firstn_skipn bs (y :: l')) in Hx. apply in_app_or in Hx. destruct Hx as [Hx|Hx].
    + exists (firstn bs (y :: l')). split; [left; reflexivity|exact Hx].
    + destruct (IH (skipn bs (y :: l'))) with (x := x) as (B & HB & HxB); [|exact Hx|].
      * rewrite skipn_length. cbn [length] in *. lia.
      * exists B. split; [right; exact HB|exact HxB].
Qed.

Lemma catalogue_descs_wf : forall zc ss k coll, catalogue_in_dom zc ss k (mc_cat_of coll) ->
  forall d, desc_in coll d ->
  (Pipeline.d_group d < 4294967295 /\ Pipeline.d_id d < 2147483647 /\ Pipeline.d_len d < 4294967296) \/
  mc_cat_seg d = seg_empty.
Proof.
  intros zc ss k coll (_ & _ & Hb) d (sd & cd & Hsd & Hcd & Hd).
  set (smp := Collection.mkSample (fst sd)
                (map (fun ct => Collection.mkContig (fst ct) (map mc_cat_seg (snd ct))) (snd sd))).
  assert (Hsmp : In smp (mc_cat_of coll)) by (unfold mc_cat_of; apply in_map_iff; exists sd; auto).
  destruct (chunks_cover (N.to_nat W_CATALOGUE_BATCH) ltac:(vm_compute; lia) _ _ (Nat.le_refl _) smp Hsmp) as (B & HB & HsB).
  rewrite Forall_forall in Hb. destruct (Hb B HB) as (Hwf & _). rewrite Forall_forall in Hwf.
  destruct (Hwf smp HsB) as (_ & Hcs). rewrite Forall_forall in Hcs.
  specialize (Hcs (Collection.mkContig (fst cd) (map mc_cat_seg (snd cd)))).
  destruct Hcs as (_ & _ & Hsegs).
  { unfold smp. cbn [scontigs]. apply in_map_iff. exists cd. auto. }
  cbn [csegs] in Hsegs. rewrite Forall_forall in Hsegs. specialize (Hsegs (mc_cat_seg d) (in_map _ _ _ Hd)).
  exact Hsegs.
Qed.

Lemma catalogue_group_bound : forall zc ss k coll, catalogue_in_dom zc ss k (mc_cat_of coll) ->
  forall d, desc_in coll d -> Pipeline.d_group d < two32.
Proof.
  intros zc ss k coll Hcat d Hd. destruct (catalogue_descs_wf zc ss k coll Hcat d Hd) as [(Hg & _)|E].
  - unfold two32. lia.
  - assert (Eg : Pipeline.d_group d = seg_empty_group) by (exact (f_equal Details.sg E)). rewrite Eg. reflexivity.
Qed.

(* (3) the group of every piece the pipeline emits is a group id of the catalogue, hence below 2^32 as soon as the
   catalogue is in the domain of the catalogue codec: "grp i part < 2^32" need not be assumed of the oracle *)
Lemma grp_bound_from_catalogue_proof :
  forall zc ecn k spl segsize dec grp sched samples st coll stored,
  1 <= k -> inputs_ok samples -> decisions_ok k spl segsize dec (pushes_of samples) ->
  (forall l, Permutation l (sched l)) ->
  create ecn k spl segsize dec (store_addr k spl segsize dec grp (pushes_of samples) st) sched (pushes_of samples)
    = Ok (coll, stored) ->
  catalogue_in_dom zc segsize k (mc_cat_of coll) ->
  forall x, In x (all_emit k spl segsize dec grp 0 (pushes_of samples)) -> fst x < two32.
Proof.
  intros zc ecn k spl segsize dec grp sched samples st coll stored Hk Hin Hdec Hsched Hc Hcat x Hx.
  apply all_emit_in in Hx. destruct Hx as (i & s & c & pc & Hp & ->). cbn [fst].
  set (addr := store_addr k spl segsize dec grp (pushes_of samples) st) in *.
  destruct (create_inv ecn k spl segsize dec addr sched samples Hin coll stored Hc) as (regs & _ & Ea & Est & _).
  assert (Hr : In (reg_of addr i s c pc) regs).
  { apply (all_regs_in k spl segsize dec grp addr _ _ _ Ea). exists i, s, c, pc. auto. }
  assert (Hst : In (r_desc (reg_of addr i s c pc), r_data (reg_of addr i s c pc)) stored).
  { rewrite Est. apply in_map_iff. exists (reg_of addr i s c pc). auto. }
  pose proof (stored_in_coll ecn k spl segsize dec addr sched samples Hk Hin Hdec Hsched coll stored Hc _ _ Hst) as Hd.
  pose proof (catalogue_group_bound zc segsize k coll Hcat _ Hd) as Hb.
  unfold reg_of, addr, store_addr in Hb. exact Hb.
Qed.

(* ================================================================ 4. the grand round trip without "= Ok" hypotheses *)
(* the oracle clamped to u32: it agrees with [grp] wherever [grp] is below 2^32 (used only inside the proof) *)
Definition clamp_grp (grp : nat -> nat -> N) : nat -> nat -> N :=
  fun i part => if grp i part <? two32 then grp i part else 0.

Lemma all_emit_ext k spl segsize dec grp grp' : forall pushes i0,
  (forall i s c pc, piece_at k spl segsize dec i0 pushes i s c pc -> grp' i (p_part pc) = grp i (p_part pc)) ->
  all_emit k spl segsize dec grp' i0 pushes = all_emit k spl segsize dec grp i0 pushes.
Proof.
  induction pushes as [|[[s c] data] rest IH]; intros i0 H; [reflexivity|]. cbn [all_emit]. f_equal.
  - unfold contig_emit. destruct (pieces_of k spl segsize dec i0 data) as [ps| |] eqn:Ep; try reflexivity.
    apply map_ext_in. intros pc Hpc. rewrite (H i0 s c pc); [reflexivity|].
    exact (piece_at_here k spl segsize dec i0 _ rest s c data ps pc eq_refl Ep Hpc).
  - apply IH. intros i s' c' pc Hp. apply (H i s' c' pc). exact (piece_at_later k spl segsize dec (fun _ _ => 0) i0 _ rest i s' c' pc Hp).
Qed.

Lemma all_regs_ext k spl segsize dec addr addr' : forall pushes i0,
  (forall i s c pc, piece_at k spl segsize dec i0 pushes i s c pc -> addr' i (p_part pc) = addr i (p_part pc)) ->
  all_regs k spl segsize dec addr' i0 pushes = all_regs k spl segsize dec addr i0 pushes.
Proof.
  induction pushes as [|[[s c] data] rest IH]; intros i0 H; [reflexivity|]. cbn [all_regs].
  rewrite (IH (S i0)).
  2:{ intros i s' c' pc Hp. apply (H i s' c' pc). exact (piece_at_later k spl segsize dec (fun _ _ => 0) i0 _ rest i s' c' pc Hp). }
  rewrite !contig_regs_eq.
  change (contig_pieces (N.to_nat k) (split_gen true data spl k) (dec i0) 0 0) with (pieces_of k spl segsize dec i0 data).
  destruct (pieces_of k spl segsize dec i0 data) as [ps| |] eqn:Ep; try reflexivity. cbn [obnd].
  replace (map (reg_of addr' i0 s c) ps) with (map (reg_of addr i0 s c) ps); [reflexivity|].
  apply map_ext_in. intros pc Hpc. unfold reg_of.
  rewrite (H i0 s c pc (piece_at_here k spl segsize dec i0 _ rest s c data ps pc eq_refl Ep Hpc)). reflexivity.
Qed.

Lemma create_ext ecn k spl segsize dec addr addr' sched pushes :
  (forall i s c pc, piece_at k spl segsize dec 0 pushes i s c pc -> addr' i (p_part pc) = addr i (p_part pc)) ->
  create ecn k spl segsize dec addr' sched pushes = create ecn k spl segsize dec addr sched pushes.
Proof. intro H. unfold create. rewrite (all_regs_ext k spl segsize dec addr addr' pushes 0%nat H). reflexivity. Qed.

Lemma model_build_ext : forall zc ecn k mml segsize level spl dec grp grp' sched gops fti samples,
  (forall i s c pc, piece_at k spl segsize dec 0 (pushes_of samples) i s c pc -> grp' i (p_part pc) = grp i (p_part pc)) ->
  model_build zc ecn k mml segsize level spl dec grp' sched gops fti samples =
  model_build zc ecn k mml segsize level spl dec grp sched gops fti samples.
Proof.
  intros zc ecn k mml segsize level spl dec grp grp' sched gops fti samples H. unfold model_build.
  destruct (run (mc_lz_enc mml) (mc_cref zc) (mc_cpack zc level) gops) as [st| |]; cbn [obnd]; try reflexivity.
  rewrite (create_ext ecn k spl segsize dec (mc_store_addr k spl segsize dec grp (pushes_of samples) st)
             (mc_store_addr k spl segsize dec grp' (pushes_of samples) st) sched (pushes_of samples)); [reflexivity|].
  intros i s c pc Hp. unfold mc_store_addr. rewrite (H i s c pc Hp). reflexivity.
Qed.

Section GrandTotal.
  Variable zc : N -> list N -> list N.
  Variable zd : list N -> option (list N).
  Hypothesis Hzd : forall l x, zd (zc l x) = Some x.
  Hypothesis Hzc : forall l x, zc l x <> [].
  Variable ecn : Pipeline.name -> Pipeline.name.
  Variables (k mml segsize level : N).
  Variable spl : N -> bool.
  Variable dec : nat -> nat -> decision.
  Variable grp : nat -> nat -> N.
  Variable sched : list registration -> list registration.
  Variable gops : list op.
  Variable fti : Container.item.
  Variable samples : list (Pipeline.name * list (Pipeline.name * list N)).
  Hypothesis Hk : 1 <= k <= 32.
  Hypothesis Hmml : 4 <= mml.
  Hypothesis Hm32 : mml < two32.
  Hypothesis Hs32 : segsize < two32.
  Hypothesis Hssk : segsize + k <= 2147483648.
  Hypothesis Hin : inputs_ok samples.
  Hypothesis Hnames : contig_names_ok samples.
  Hypothesis Hdom : inputs_in_dom mml (pushes_of samples).
  Hypothesis Hdec : decisions_ok k spl segsize dec (pushes_of samples).
  Hypothesis Hlz : lz_contigs_nonempty (pushes_of samples) grp.
  Hypothesis Hsched : forall l, Permutation l (sched l).
  Hypothesis Hcarry : ops_carry (all_emit k spl segsize dec grp 0 (pushes_of samples)) gops.
  (* no group receives 2^32 - 2 pieces *)
  Hypothesis Hcount : forall g,
    lenN (filter (fun x => fst x =? g) (all_emit k spl segsize dec grp 0 (pushes_of samples))) + 2 < two32.
  (* residual size conditions, on whatever the writer produces *)
  Hypothesis Hcat : forall st coll stored,
    run (mc_lz_enc mml) (mc_cref zc) (mc_cpack zc level) gops = Ok st ->
    create ecn k spl segsize dec (mc_store_addr k spl segsize dec grp (pushes_of samples) st) sched (pushes_of samples)
      = Ok (coll, stored) ->
    catalogue_in_dom zc segsize k (mc_cat_of coll).
  Hypothesis Hres : forall b,
    model_build zc ecn k mml segsize level spl dec grp sched gops fti samples = Ok b ->
    parts_meta_u64 (b_wops b) /\ lenN (b_file b) <= spec_max_off.

  (* the writer cannot fail *)
  Lemma model_build_succeeds : exists b,
    model_build zc ecn k mml segsize level spl dec grp sched gops fti samples = Ok b /\
    catalogue_in_dom zc segsize k (mc_cat_of (b_coll b)) /\
    create ecn k spl segsize dec (mc_store_addr k spl segsize dec grp (pushes_of samples) (b_store b)) sched (pushes_of samples)
      = Ok (b_coll b, b_stored b).
  Proof using Hzd Hzc Hk Hssk Hin Hnames Hdec Hcarry Hcount Hcat.
    destruct (store_run_total_proof (mc_lz_enc mml) (mc_cref zc) (mc_cpack zc level) _ gops Hcarry Hcount) as (st & Hrun).
    destruct (create_total_proof ecn k spl segsize dec (mc_store_addr k spl segsize dec grp (pushes_of samples) st) sched samples
                (proj1 Hk) Hin Hnames Hdec) as (coll & stored & Hc).
    pose proof (Hcat st coll stored Hrun Hc) as Hcd.
    destruct (model_build_total_proof zc zd Hzd Hzc ecn k mml segsize level spl dec grp sched gops fti samples st coll stored
                Hssk Hrun Hc Hcd) as (b & Hb & Est & Ecoll & Estored).
    exists b. split; [exact Hb|]. rewrite Est, Ecoll, Estored. split; [exact Hcd|exact Hc].
  Qed.

  Theorem grand_roundtrip_total_proof : exists b,
    model_build zc ecn k mml segsize level spl dec grp sched gops fti samples = Ok b /\
    decode zd (b_file b) = Ok samples.
  Proof.
    destruct model_build_succeeds as (b & Hb & Hcd & Hc). exists b. split; [exact Hb|].
    destruct (Hres b Hb) as [Hmeta Hfile].
    (* the groups of the emitted pieces are below 2^32: the clamped oracle builds the same file *)
    pose proof (grp_bound_from_catalogue_proof zc ecn k spl segsize dec grp sched samples (b_store b) (b_coll b) (b_stored b)
                  (proj1 Hk) Hin Hdec Hsched Hc Hcd) as Hgb.
    assert (Hagree : forall i s c pc, piece_at k spl segsize dec 0 (pushes_of samples) i s c pc ->
                                      clamp_grp grp i (p_part pc) = grp i (p_part pc)).
    { intros i s c pc Hp. unfold clamp_grp.
      assert (Hx : In (grp i (p_part pc), seg_of_piece s c pc) (all_emit k spl segsize dec grp 0 (pushes_of samples))).
      { apply all_emit_in. exists i, s, c, pc. auto. }
      specialize (Hgb _ Hx). cbn [fst] in Hgb. apply N.ltb_lt in Hgb. rewrite Hgb. reflexivity. }
    apply (grand_roundtrip_proof zc zd Hzd Hzc ecn k mml segsize level spl dec (clamp_grp grp) sched gops fti samples
             Hk Hmml Hm32 Hs32 Hssk Hin Hdom Hdec).
    - intros i s c data part Hn H16. apply (Hlz i s c data part Hn). unfold clamp_grp in H16.
      destruct (grp i part <? two32); [exact H16|lia].
    - intros i part. unfold clamp_grp. destruct (N.ltb_spec (grp i part) two32) as [H|H]; [exact H|reflexivity].
    - exact Hsched.
    - rewrite (all_emit_ext k spl segsize dec grp (clamp_grp grp) (pushes_of samples) 0%nat Hagree). exact Hcarry.
    - rewrite (model_build_ext zc ecn k mml segsize level spl dec grp (clamp_grp grp) sched gops fti samples Hagree). exact Hb.
    - exact Hcd.
    - exact Hmeta.
    - exact Hfile.
  Qed.
End GrandTotal.

(* ---- the same from FASTA text: what the reader accepts never repeats a contig name within a sample *)
Lemma add_contig_names_ok : forall arch s n c a, Fasta.add_contig arch (s, n, c) = Some a ->
  contig_names_ok arch -> contig_names_ok a.
Proof.
  induction arch as [|[s0 cs0] arch IH]; intros s n c a H Hok.
  - cbn in H. inversion H; subst. constructor; [|constructor]. cbn. constructor; [intros []|constructor].
  - cbn [Fasta.add_contig] in H. inversion Hok as [|? ? Hok1 Hok2]; subst. destruct (Fasta.bytes_eqb s0 s).
    + destruct (existsb (fun x => Fasta.bytes_eqb (fst x) n) cs0) eqn:E; [discriminate|]. inversion H; subst a; clear H.
      constructor; [|exact Hok2]. cbn [snd] in *. rewrite map_app. cbn [map fst]. apply Pipeline_proofs.NoDup_snoc; [exact Hok1|].
      intro Hin. apply in_map_iff in Hin. destruct Hin as (x & Ex & Hx).
      assert (T : existsb (fun x => Fasta.bytes_eqb (fst x) n) cs0 = true).
      { apply existsb_exists. exists x. split; [exact Hx|]. cbn beta. rewrite <- Ex. apply Fasta_proofs.bytes_eqb_refl. }
      rewrite T in E. discriminate.
    + destruct (Fasta.add_contig arch (s, n, c)) as [a'|] eqn:A; [|discriminate]. inversion H; subst a; clear H.
      constructor; [exact Hok1|]. exact (IH s n c a' A Hok2).
Qed.

Lemma collect_names_ok : forall cs arch a, Fasta.collect arch cs = Ok a -> contig_names_ok arch -> contig_names_ok a.
Proof.
  induction cs as [|[[s n] c] cs IH]; intros arch a H Hok; cbn [Fasta.collect] in H.
  - inversion H; subst. exact Hok.
  - destruct (Fasta.add_contig arch (s, n, c)) as [a1|] eqn:A; [|discriminate].
    exact (IH a1 a H (add_contig_names_ok arch s n c a1 A Hok)).
Qed.

Lemma text_samples_names_ok : forall files arch, text_samples files = Ok arch -> contig_names_ok arch.
Proof.
  intros files arch H. unfold text_samples in H. destruct (text_stream files) as [cs| |]; cbn [obnd] in H; try discriminate.
  apply (collect_names_ok cs [] arch H). constructor.
Qed.

Section GrandTextTotal.
  Variable zc : N -> list N -> list N.
  Variable zd : list N -> option (list N).
  Hypothesis Hzd : forall l x, zd (zc l x) = Some x.
  Hypothesis Hzc : forall l x, zc l x <> [].
  Variable ecn : Pipeline.name -> Pipeline.name.
  Variables (k mml segsize level : N).
  Variable spl : N -> bool.
  Variable dec : nat -> nat -> decision.
  Variable grp : nat -> nat -> N.
  Variable sched : list registration -> list registration.
  Variable gops : list op.
  Variable fti : Container.item.
  Variable files : list (list N * list N).
  Variable arch : list (list N * list (list N * list N)).
  Hypothesis Hk : 1 <= k <= 32.
  Hypothesis Hmml : 4 <= mml.
  Hypothesis Hm32 : mml < two32.
  Hypothesis Hs32 : segsize < two32.
  Hypothesis Hssk : segsize + k <= 2147483648.
  Hypothesis Htext : text_samples files = Ok arch.
  Hypothesis Hnonempty : Forall (fun s => fst s <> []) arch.
  Hypothesis Hlens : forall s c data, In (s, c, data) (pushes_of arch) -> 2 * lenN data + mml < 2147483648.
  Hypothesis Hdec : decisions_ok k spl segsize dec (pushes_of arch).
  Hypothesis Hsched : forall l, Permutation l (sched l).
  Hypothesis Hcarry : ops_carry (all_emit k spl segsize dec grp 0 (pushes_of arch)) gops.
  Hypothesis Hcount : forall g,
    lenN (filter (fun x => fst x =? g) (all_emit k spl segsize dec grp 0 (pushes_of arch))) + 2 < two32.
  Hypothesis Hcat : forall st coll stored,
    run (mc_lz_enc mml) (mc_cref zc) (mc_cpack zc level) gops = Ok st ->
    create ecn k spl segsize dec (mc_store_addr k spl segsize dec grp (pushes_of arch) st) sched (pushes_of arch)
      = Ok (coll, stored) ->
    catalogue_in_dom zc segsize k (mc_cat_of coll).
  Hypothesis Hres : forall b,
    model_build zc ecn k mml segsize level spl dec grp sched gops fti arch = Ok b ->
    parts_meta_u64 (b_wops b) /\ lenN (b_file b) <= spec_max_off.

  Theorem text_roundtrip_total_proof :
    (exists b, model_build zc ecn k mml segsize level spl dec grp sched gops fti arch = Ok b /\
               decode zd (b_file b) = Ok arch) /\
    Fasta.create_view files =
      Ok (map (fun sc => (fst sc, map (fun nc => (fst nc, Fasta.out_letters (snd nc))) (snd sc))) arch).
  Proof.
    destruct (text_samples_shape files arch Htext) as (ND & NE & Hcodes). split.
    - apply (grand_roundtrip_total_proof zc zd Hzd Hzc ecn k mml segsize level spl dec grp sched gops fti arch); try assumption.
      + split; [exact ND|]. apply Forall_forall. intros s Hs. rewrite Forall_forall in Hnonempty, NE.
        split; [exact (Hnonempty s Hs)|exact (NE s Hs)].
      + exact (text_samples_names_ok files arch Htext).
      + intros s c data Hp. split; [exact (proj1 (Hcodes s c data Hp))|exact (Hlens s c data Hp)].
      + intros i s c data part Hn _. exact (proj2 (Hcodes s c data (nth_error_In _ _ Hn))).
    - rewrite create_view_text_samples, Htext. reflexivity.
  Qed.
End GrandTextTotal.

(* ================================================================ 5. the catalogue domain, from inputs / oracles / the store
   catalogue_in_dom splits into input-level conditions (counts, name bytes), the oracle's range, the per-group piece
   count (in_group_id <= number of segments of the group) and ONE residual: batch_small, the sizes of the five
   serialized detail streams of each batch and of their zstd images *)
Lemma reg_id_bound : forall lz_enc compress_ref compress_pack ops st g s id,
  run lz_enc compress_ref compress_pack ops = Ok st -> In (s, id) (regs_of st g) -> id <= lenN (GroupStore.segs_of ops g).
Proof.
  intros lz_enc compress_ref compress_pack ops st g s id Hrun Hin.
  destruct (GroupStore_proofs.run_inv _ _ _ _ _ Hrun) as [HG HP].
  pose proof (Permutation_length (HP g)) as El. rewrite map_length in El.
  unfold regs_of, get_group in *. destruct (st g) as [gs|] eqn:Eg; [|destruct Hin].
  destruct (HG g gs Eg) as (packs & ents & HI).
  destruct HI as [_ _ _ _ _ _ _ Hregs _ Hcount _]. rewrite Forall_forall in Hregs. specialize (Hregs _ Hin).
  unfold GroupStore_inv.reg_ok in Hregs. unfold lenN. rewrite <- El.
  assert (Hnth : forall e, nth_error ents (N.to_nat (id - 1)) = Some e -> id <= N.of_nat (length (g_regs gs))).
  { intros e He. assert (N.to_nat (id - 1) < length ents)%nat by (apply nth_error_Some; congruence). lia. }
  destruct (GroupStore_proofs.is_lz g).
  - destruct (b_reference (g_buf gs)); [|contradiction].
    destruct Hregs as [[-> _]|(_ & H2 & _)]; [lia|exact (Hnth _ H2)].
  - destruct Hregs as (_ & H2). exact (Hnth _ H2).
Qed.

Lemma chunks_sub {A} bs : forall f (l : list A) B, In B (Collection_proofs.chunks f bs l) ->
  (length B <= bs)%nat /\ forall x, In x B -> In x l.
Proof.
  induction f as [|f IH]; intros l B HB; [destruct HB|]. cbn [Collection_proofs.chunks] in HB.
  destruct l as [|y l']; [destruct HB|]. destruct HB as [<-|HB].
  - split; [apply firstn_le_length|]. intros x Hx. rewrite <- (firstn_skipn bs (y :: l')). apply in_or_app. left. exact Hx.
  - destruct (IH _ _ HB) as [H1 H2]. split; [exact H1|]. intros x Hx. rewrite <- (firstn_skipn bs (y :: l')).
    apply in_or_app. right. exact (H2 x Hx).
Qed.

Definition name_bytes_ok (n : list N) : Prop := Forall (fun b => 1 <= b < 128) n.

Section CatDom.
  Variable zc : N -> list N -> list N.
  Variable ecn : Pipeline.name -> Pipeline.name.
  Variables (k : N) (spl : N -> bool) (segsize : N).
  Variable dec : nat -> nat -> decision.
  Variable grp : nat -> nat -> N.
  Variable sched : list registration -> list registration.
  Variable samples : list (Pipeline.name * list (Pipeline.name * list N)).
  Variables (lz_enc : list N -> list N -> list N) (compress_ref : list N -> list N * N) (compress_pack : list N -> list N).
  Variable gops : list op.
  Variable st : store.
  Variables (coll : Pipeline.collection) (stored : list (Pipeline.seg_desc * list N)).
  Hypothesis Hk : 1 <= k.
  Hypothesis Hin : inputs_ok samples.
  Hypothesis Hdec : decisions_ok k spl segsize dec (pushes_of samples).
  Hypothesis Hsched : forall l, Permutation l (sched l).
  Hypothesis Hcarry : ops_carry (all_emit k spl segsize dec grp 0 (pushes_of samples)) gops.
  Hypothesis Hrun : run lz_enc compress_ref compress_pack gops = Ok st.
  Hypothesis Hc : create ecn k spl segsize dec (store_addr k spl segsize dec grp (pushes_of samples) st) sched (pushes_of samples)
                  = Ok (coll, stored).
  (* input level: fewer than 2^32 samples, contigs per sample, 2 * (bases + 1) per contig; name bytes in 1..127 *)
  Hypothesis Hns : lenN samples < 4294967296.
  Hypothesis Hshape : Forall (fun s => name_bytes_ok (fst s) /\ lenN (snd s) < 4294967296 /\
                        Forall (fun c => name_bytes_ok (fst c) /\ 2 * (lenN (snd c) + 1) < 4294967296) (snd s)) samples.
  (* oracle: group ids of emitted pieces below u32::MAX; no group receives 2^31 - 1 pieces *)
  Hypothesis Hgrp : forall x, In x (all_emit k spl segsize dec grp 0 (pushes_of samples)) -> fst x < 4294967295.
  Hypothesis Hcount : forall g,
    lenN (filter (fun x => fst x =? g) (all_emit k spl segsize dec grp 0 (pushes_of samples))) < 2147483647.
  (* residual: stream sizes *)
  Hypothesis Hsmall : Forall (Collection_proofs.batch_small zc segsize k)
    (Collection_proofs.chunks (length (mc_cat_of coll)) (N.to_nat W_CATALOGUE_BATCH) (mc_cat_of coll)).

  Let addr := store_addr k spl segsize dec grp (pushes_of samples) st.

  Lemma stored_desc_in_range : forall d b, In (d, b) stored ->
    Pipeline.d_group d < 4294967295 /\ Pipeline.d_id d < 2147483647 /\ Pipeline.d_len d < 4294967296.
  Proof using All.
    intros d b Hdb.
    destruct (create_inv ecn k spl segsize dec addr sched samples Hin coll stored Hc) as (regs & _ & Ea & Est & _).
    destruct (store_addr_consistent_proof k spl segsize dec grp _ _ _ (pushes_of samples) gops st regs Hk Hdec Hcarry Hrun Ea)
      as [_ Haddr].
    rewrite <- Est in Haddr. destruct (Haddr d b Hdb) as (s & Hreg & _ & _).
    pose proof (reg_id_bound _ _ _ _ _ _ _ _ Hrun Hreg) as Hid.
    pose proof (Permutation_length (Hcarry (Pipeline.d_group d))) as El. rewrite map_length in El.
    split; [|split].
    - rewrite Est in Hdb. apply in_map_iff in Hdb. destruct Hdb as (r & Er & Hr).
      apply (all_regs_in k spl segsize dec grp addr _ _ _ Ea) in Hr. destruct Hr as (i & s' & c' & pc & Hp & ->).
      assert (Eg : Pipeline.d_group d = grp i (p_part pc)).
      { assert (E1 : r_desc (reg_of addr i s' c' pc) = d) by (exact (f_equal fst Er)). rewrite <- E1. unfold reg_of, addr, store_addr. reflexivity. }
      rewrite Eg. apply (Hgrp (grp i (p_part pc), seg_of_piece s' c' pc)). apply all_emit_in. exists i, s', c', pc. auto.
    - specialize (Hcount (Pipeline.d_group d)). unfold lenN in *. lia.
    - rewrite (create_stored_len _ _ _ _ _ _ _ _ _ _ Hc d b Hdb). unfold wrap32. apply N.mod_lt. discriminate.
  Qed.

  Lemma vec_length : forall regs, contig_names_ok samples ->
    all_regs k spl segsize dec addr 0 (pushes_of samples) = Ok regs ->
    forall s c, In s samples -> In c (snd s) ->
    (length (vec_of ecn sched regs (fst s) (fst c)) <= 2 * (length (snd c) + 1))%nat.
  Proof using All.
    intros regs Hnames Ea s c Hs Hcin.
    assert (Hp : In (fst s, fst c, snd c) (pushes_of samples)).
    { unfold pushes_of. apply in_flat_map. exists s. split; [exact Hs|]. apply in_map_iff. exists c. auto. }
    apply In_nth_error in Hp. destruct Hp as [j Hj].
    destruct (contig_vector ecn k spl segsize dec addr sched samples Hk Hin Hdec Hsched regs Hnames Ea j _ _ _ Hj)
      as (rs & Ers & _ & _ & P).
    rewrite (Permutation_length P), map_length. rewrite contig_regs_eq in Ers.
    destruct (contig_pieces (N.to_nat k) (split_gen true (snd c) spl k) (dec j) 0 0) as [ps| |] eqn:Ep; cbn [obnd] in Ers; try discriminate.
    apply ok_inj in Ers. subst rs. rewrite map_length. apply contig_pieces_count in Ep.
    pose proof (split_gen_count true (snd c) spl k). lia.
  Qed.

  Theorem catalogue_in_dom_from_inputs_proof : catalogue_in_dom zc segsize k (mc_cat_of coll).
  Proof using All.
    destruct (create_inv ecn k spl segsize dec addr sched samples Hin coll stored Hc) as (regs & Hnames & Ea & Est & Ecoll).
    pose proof Hshape as Hshape'. rewrite Forall_forall in Hshape'.
    assert (Hsmp : forall smp, In smp (mc_cat_of coll) ->
              name_bytes_ok (Collection.sname smp) /\ Collection_proofs.sample_wf smp).
    { intros smp Hsmp. unfold mc_cat_of in Hsmp. apply in_map_iff in Hsmp. destruct Hsmp as (sd & <- & Hsd).
      pose proof Hsd as Hsd0. rewrite Ecoll in Hsd. unfold build, shape_of in Hsd. apply in_map_iff in Hsd.
      destruct Hsd as (sh & Esd & Hsh). apply in_map_iff in Hsh. destruct Hsh as (s & <- & Hs).
      destruct (Hshape' s Hs) as (Hn & Hcn & Hcs). rewrite Forall_forall in Hcs. subst sd. cbn [fst snd Collection.sname].
      split; [exact Hn|]. unfold Collection_proofs.sample_wf. cbn [scontigs]. split.
      - unfold lenN in *. rewrite !map_length. exact Hcn.
      - apply Forall_forall. intros ct Hct. apply in_map_iff in Hct. destruct Hct as (cd & <- & Hcd). cbn [cname csegs].
        apply in_map_iff in Hcd. destruct Hcd as (cn & <- & Hcn'). apply in_map_iff in Hcn'. destruct Hcn' as (c & <- & Hcin).
        cbn [fst snd]. destruct (Hcs c Hcin) as (Hcname & Hclen). split; [exact Hcname|]. split.
        + pose proof (vec_length regs Hnames Ea s c Hs Hcin). unfold lenN in *. rewrite map_length.
          assert (Hgen : forall a b : nat, (b <= 2 * (a + 1))%nat -> 2 * (N.of_nat a + 1) < 4294967296 -> N.of_nat b < 4294967296)
            by (intros; lia).
          exact (Hgen _ _ H Hclen).
        + apply Forall_forall. intros x Hx. apply in_map_iff in Hx. destruct Hx as (d & <- & Hd). left.
          assert (Hdin : desc_in coll d).
          { exists (fst s, map (fun c0 => (c0, vec_of ecn sched regs (fst s) c0)) (map fst (snd s))),
                   (fst c, vec_of ecn sched regs (fst s) (fst c)).
            split; [exact Hsd0|]. split; [|exact Hd]. cbn [snd]. apply in_map_iff. exists (fst c). split; [reflexivity|].
            apply in_map. exact Hcin. }
          destruct (coll_from_stored ecn k spl segsize dec addr sched samples Hk Hin Hdec Hsched coll stored Hc d Hdin) as (b & Hdb).
          exact (stored_desc_in_range d b Hdb). }
    split; [|split].
    - rewrite Ecoll. unfold mc_cat_of, build, shape_of, lenN in *. rewrite !map_length. exact Hns.
    - apply Forall_forall. intros smp H. exact (proj1 (Hsmp smp H)).
    - apply Forall_forall. intros B HB. destruct (chunks_sub _ _ _ _ HB) as [HlB HinB]. split; [|split].
      + apply Forall_forall. intros smp H. exact (proj2 (Hsmp smp (HinB smp H))).
      + unfold lenN. assert (N.to_nat W_CATALOGUE_BATCH = 50%nat) by reflexivity. lia.
      + rewrite Forall_forall in Hsmall. exact (Hsmall B HB).
  Qed.
End CatDom.

(* ---- the grand round trip with the catalogue domain reduced to its stream-size part *)
Section GrandInputs.
  Variable zc : N -> list N -> list N.
  Variable zd : list N -> option (list N).
  Hypothesis Hzd : forall l x, zd (zc l x) = Some x.
  Hypothesis Hzc : forall l x, zc l x <> [].
  Variable ecn : Pipeline.name -> Pipeline.name.
  Variables (k mml segsize level : N).
  Variable spl : N -> bool.
  Variable dec : nat -> nat -> decision.
  Variable grp : nat -> nat -> N.
  Variable sched : list registration -> list registration.
  Variable gops : list op.
  Variable fti : Container.item.
  Variable samples : list (Pipeline.name * list (Pipeline.name * list N)).
  Hypothesis Hk : 1 <= k <= 32.
  Hypothesis Hmml : 4 <= mml.
  Hypothesis Hm32 : mml < two32.
  Hypothesis Hs32 : segsize < two32.
  Hypothesis Hssk : segsize + k <= 2147483648.
  Hypothesis Hin : inputs_ok samples.
  Hypothesis Hnames : contig_names_ok samples.
  Hypothesis Hdom : inputs_in_dom mml (pushes_of samples).
  Hypothesis Hns : lenN samples < 4294967296.
  Hypothesis Hshape : Forall (fun s => name_bytes_ok (fst s) /\ lenN (snd s) < 4294967296 /\
                        Forall (fun c => name_bytes_ok (fst c) /\ 2 * (lenN (snd c) + 1) < 4294967296) (snd s)) samples.
  Hypothesis Hdec : decisions_ok k spl segsize dec (pushes_of samples).
  Hypothesis Hlz : lz_contigs_nonempty (pushes_of samples) grp.
  Hypothesis Hgrp : forall x, In x (all_emit k spl segsize dec grp 0 (pushes_of samples)) -> fst x < 4294967295.
  Hypothesis Hsched : forall l, Permutation l (sched l).
  Hypothesis Hcarry : ops_carry (all_emit k spl segsize dec grp 0 (pushes_of samples)) gops.
  Hypothesis Hcount : forall g,
    lenN (filter (fun x => fst x =? g) (all_emit k spl segsize dec grp 0 (pushes_of samples))) < 2147483647.
  Hypothesis Hsmall : forall st coll stored,
    run (mc_lz_enc mml) (mc_cref zc) (mc_cpack zc level) gops = Ok st ->
    create ecn k spl segsize dec (mc_store_addr k spl segsize dec grp (pushes_of samples) st) sched (pushes_of samples)
      = Ok (coll, stored) ->
    Forall (Collection_proofs.batch_small zc segsize k)
      (Collection_proofs.chunks (length (mc_cat_of coll)) (N.to_nat W_CATALOGUE_BATCH) (mc_cat_of coll)).
  Hypothesis Hres : forall b,
    model_build zc ecn k mml segsize level spl dec grp sched gops fti samples = Ok b ->
    parts_meta_u64 (b_wops b) /\ lenN (b_file b) <= spec_max_off.

  Theorem grand_roundtrip_inputs_proof : exists b,
    model_build zc ecn k mml segsize level spl dec grp sched gops fti samples = Ok b /\
    decode zd (b_file b) = Ok samples.
  Proof.
    apply (grand_roundtrip_total_proof zc zd Hzd Hzc ecn k mml segsize level spl dec grp sched gops fti samples
             Hk Hmml Hm32 Hs32 Hssk Hin Hnames Hdom Hdec Hlz Hsched Hcarry).
    - intro g. specialize (Hcount g). unfold two32. lia.
    - intros st coll stored Hrun Hc.
      exact (catalogue_in_dom_from_inputs_proof zc ecn k spl segsize dec grp sched samples _ _ _ gops st coll stored
               (proj1 Hk) Hin Hdec Hsched Hcarry Hrun Hc Hns Hshape Hgrp Hcount (Hsmall st coll stored Hrun Hc)).
    - exact Hres.
  Qed.
End GrandInputs.
