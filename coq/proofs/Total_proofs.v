(* Total_proofs.v - C01T: the model writer cannot fail.  grand_roundtrip (props/C01G.v) and end_to_end_inputs (props/C01.v)
   ASSUME model_build = Ok b, i.e. that the group store run and Pipeline.create return Ok.  Here those are PROVED from
   hypotheses on the inputs and the oracles:
     1. create_total          Pipeline.create returns Ok under inputs_ok, distinct contig names per sample, decisions_ok;
                              it returns Err exactly when a sample repeats a contig name, and never Panic
     2. store_run_total       the group store run returns Ok when no group receives 2^32 - 2 pieces; sufficient:
                              fewer than 2^32 - 2 pieces in total; sufficient: 2 * (bases + contigs) + 2 < 2^32
     3. catalogue             the descriptor vector create builds for a contig is a permutation of the descriptors it
                              registered for that contig (no holes, nothing else): every stored descriptor occurs in coll,
                              hence group ids of emitted pieces are bounded by the catalogue domain
     4. grand_roundtrip_total no "= Ok" hypothesis about the writer left *)
From Coq Require Import Lia ZifyBool ZifyN ZifyNat Permutation.
From Ragc Require Import Mach Consts_kmer Consts_segment Consts_pipeline Consts_groupstore Consts_agcv3 Consts_collection.
From Ragc Require Import Varint Kmer Segment Pipeline SegReader GroupStore Tuple SegCompress LZ Details Collection Container
  Range AgcV3 ModelCreate.
From Ragc Require Import Segment_proofs Pipeline_proofs GroupStore_proofs Compose_codecs Compose_proofs.
From Ragc Require GroupStore_rules Collection_proofs Container_proofs Range_proofs AgcV3_proofs.
From Ragc Require Import AgcV3_compose Grand_proofs.
Open Scope N_scope.
Arguments N.add : simpl never.
Arguments N.sub : simpl never.
Arguments N.mul : simpl never.
Arguments N.div : simpl never.
Arguments N.modulo : simpl never.
Arguments N.land : simpl never.
Arguments N.pow : simpl never.
Arguments N.of_nat : simpl never.
Arguments N.to_nat : simpl never.

(* ================================================================ 1. create cannot fail *)
Lemma decisions_decs_ok : forall k spl segsize dec pushes i s c data,
  decisions_ok k spl segsize dec pushes -> nth_error pushes i = Some (s, c, data) ->
  decs_ok (N.to_nat k) (split_gen true data spl k) (dec i) 0.
Proof.
  intros k spl segsize dec pushes i s c data Hdec Hi j sg Hj. rewrite Nat.add_0_l.
  exact (Hdec i s c data j sg Hi Hj).
Qed.

Lemma all_regs_total : forall k spl segsize dec addr, 1 <= k -> forall pushes i0,
  (forall j s c data, nth_error pushes j = Some (s, c, data) ->
                      decs_ok (N.to_nat k) (split_gen true data spl k) (dec (i0 + j)%nat) 0) ->
  exists regs, all_regs k spl segsize dec addr i0 pushes = Ok regs.
Proof.
  intros k spl segsize dec addr Hk. induction pushes as [|[[s c] data] rest IH]; intros i0 H.
  - exists []. reflexivity.
  - cbn [all_regs]. rewrite contig_regs_eq.
    assert (Hk' : (1 <= N.to_nat k)%nat) by lia.
    assert (H0 : decs_ok (N.to_nat k) (split_gen true data spl k) (dec i0) 0).
    { specialize (H 0%nat s c data eq_refl). rewrite Nat.add_0_r in H. exact H. }
    destruct (contig_pieces_spec _ (dec i0) Hk' _ 0%nat 0%nat H0) as (ps & _ & Ep & _). rewrite Ep. cbn [obnd].
    destruct (IH (S i0)) as (more & Em).
    { intros j s' c' data' Hj. replace (S i0 + j)%nat with (i0 + S j)%nat by lia. exact (H (S j) s' c' data' Hj). }
    rewrite Em. cbn [obnd]. eexists. reflexivity.
Qed.

Lemma contig_names_ok_dec : forall samples, {contig_names_ok samples} + {~ contig_names_ok samples}.
Proof.
  intro samples. unfold contig_names_ok. apply Forall_dec. intro s.
  apply ListDec.NoDup_dec. apply list_eq_dec. apply N.eq_dec.
Qed.

Lemma create_total_proof : forall ecn k spl segsize dec addr sched samples,
  1 <= k -> inputs_ok samples -> contig_names_ok samples -> decisions_ok k spl segsize dec (pushes_of samples) ->
  exists coll stored, create ecn k spl segsize dec addr sched (pushes_of samples) = Ok (coll, stored).
Proof.
  intros ecn k spl segsize dec addr sched samples Hk Hin Hnames Hdec. unfold create.
  destruct (reg_samples ecn samples [] (fun _ _ _ F => match F with end) Hin) as [H1 _].
  rewrite (H1 Hnames). cbn [obnd].
  destruct (all_regs_total k spl segsize dec addr Hk (pushes_of samples) 0%nat) as (regs & Er).
  { intros j s c data Hj. rewrite Nat.add_0_l. exact (decisions_decs_ok _ _ _ _ _ _ _ _ _ Hdec Hj). }
  rewrite Er. cbn [obnd]. eexists. eexists. reflexivity.
Qed.

(* the outcome of create is decided by the contig names alone *)
Lemma create_outcome_proof : forall ecn k spl segsize dec addr sched samples,
  1 <= k -> inputs_ok samples -> decisions_ok k spl segsize dec (pushes_of samples) ->
  (contig_names_ok samples <-> exists coll stored, create ecn k spl segsize dec addr sched (pushes_of samples) = Ok (coll, stored)) /\
  (~ contig_names_ok samples <-> create ecn k spl segsize dec addr sched (pushes_of samples) = Err) /\
  create ecn k spl segsize dec addr sched (pushes_of samples) <> Panic.
Proof.
  intros ecn k spl segsize dec addr sched samples Hk Hin Hdec.
  destruct (contig_names_ok_dec samples) as [Hok|Hbad].
  - destruct (create_total_proof ecn k spl segsize dec addr sched samples Hk Hin Hok Hdec) as (coll & stored & E).
    split; [|split].
    + split; [intros _; exists coll, stored; exact E | intros _; exact Hok].
    + split; [intro H; contradiction | intro H; rewrite H in E; discriminate].
    + rewrite E. discriminate.
  - pose proof (duplicate_name_rejected_proof ecn k spl segsize dec addr sched samples Hin Hbad) as E.
    split; [|split].
    + split; [intro H; contradiction | intros (coll & stored & E'); rewrite E' in E; discriminate].
    + split; [intros _; exact E | intros _; exact Hbad].
    + rewrite E. discriminate.
Qed.

(* ================================================================ 2. the group store run cannot trap *)
Lemma filter_length_le {A} (f : A -> bool) l : (length (filter f l) <= length l)%nat.
Proof. induction l as [|x l IH]; cbn [filter length]; [lia|]. destruct (f x); cbn [length]; lia. Qed.

Lemma store_run_total_proof : forall lz_enc compress_ref compress_pack (emitted : list (N * seg_in)) gops,
  ops_carry emitted gops ->
  (forall g, lenN (filter (fun x => fst x =? g) emitted) + 2 < two32) ->
  exists st, run lz_enc compress_ref compress_pack gops = Ok st.
Proof.
  intros lz_enc compress_ref compress_pack emitted gops Hcarry Hb.
  apply GroupStore_rules.run_no_trap_proof. intro g.
  pose proof (Permutation_length (Hcarry g)) as E. rewrite map_length in E.
  specialize (Hb g). unfold lenN in *. rewrite E. exact Hb.
Qed.

Lemma per_group_from_total : forall (emitted : list (N * seg_in)),
  lenN emitted + 2 < two32 -> forall g, lenN (filter (fun x => fst x =? g) emitted) + 2 < two32.
Proof.
  intros emitted H g. pose proof (filter_length_le (fun x : N * seg_in => fst x =? g) emitted). unfold lenN in *. lia.
Qed.

(* ---- the number of pieces is bounded by the input size: at most one raw segment per symbol plus the final one,
   at most two pieces per raw segment *)
Lemma seg_final_count ws contig a f fd : (length (seg_final ws contig a f fd) <= 1)%nat.
Proof.
  unfold seg_final. destruct (Nat.ltb a (length contig)); [|cbn; lia].
  destruct (skipn a contig); [cbn; lia|]. destruct ws; [destruct (f =? MISSING_KMER)|]; cbn; lia.
Qed.

Lemma seg_loop_count ws spl k contig : forall rest pos x a f fd,
  (length (seg_loop ws spl k contig rest pos x a f fd) <= length rest + 1)%nat.
Proof.
  induction rest as [|b rest IH]; intros pos x a f fd; cbn [seg_loop length].
  - pose proof (seg_final_count ws contig a f fd). lia.
  - destruct (3 <? b); [specialize (IH (S pos) (kmer_reset x) a f fd); lia|].
    destruct (is_full (insert_canonical x b)); [|specialize (IH (S pos) (insert_canonical x b) a f fd); lia].
    destruct (spl (data_canonical (insert_canonical x b))); [|specialize (IH (S pos) (insert_canonical x b) a f fd); lia].
    rewrite app_length.
    match goal with |- (length ?p + length (seg_loop _ _ _ _ _ ?pos' ?x' ?a' ?f' ?fd') <= _)%nat =>
      specialize (IH pos' x' a' f' fd'); assert (length p <= 1)%nat end.
    { destruct (Segment.slice contig a (S pos)); [cbn; lia|].
      destruct ws; [destruct (f =? MISSING_KMER)|]; cbn; lia. }
    lia.
Qed.

Lemma split_gen_count ws contig spl k : (length (split_gen ws contig spl k) <= length contig + 1)%nat.
Proof.
  unfold split_gen. destruct (lenN contig <? k); [cbn; lia|].
  pose proof (seg_loop_count ws spl (N.to_nat k) contig contig 0%nat (kmer_new k) 0%nat MISSING_KMER false) as H.
  destruct (seg_loop ws spl (N.to_nat k) contig contig 0 (kmer_new k) 0 MISSING_KMER false); [cbn; lia|exact H].
Qed.

Lemma seg_pieces_count k s d n ps : seg_pieces k s d n = Ok ps -> (length ps <= 2)%nat.
Proof.
  unfold seg_pieces. destruct d as [o|o pos lf rf|o f|o f]; try (intro H; apply ok_inj in H; subst ps; cbn; lia).
  destruct (split_segment_at_position _ pos k) as [[l r]| |]; try discriminate.
  destruct (should_reverse s (dec_o (Split o pos lf rf))); intro H; apply ok_inj in H; subst ps; cbn; lia.
Qed.

Lemma contig_pieces_count k dec : forall segs j n ps,
  contig_pieces k segs dec j n = Ok ps -> (length ps <= 2 * length segs)%nat.
Proof.
  induction segs as [|s rest IH]; intros j n ps H; cbn [contig_pieces] in H.
  - apply ok_inj in H. subst ps. cbn. lia.
  - destruct (seg_pieces k s (dec j) n) as [ps1| |] eqn:E1; cbn [obnd] in H; try discriminate.
    destruct (contig_pieces k rest dec (S j) (n + part_incr (dec j))) as [ps2| |] eqn:E2; cbn [obnd] in H; try discriminate.
    apply ok_inj in H. subst ps. rewrite app_length. cbn [length].
    pose proof (seg_pieces_count _ _ _ _ _ E1). pose proof (IH _ _ _ E2). lia.
Qed.

(* the size of an input as the bound counts it: bases + contigs *)
Definition input_size (pushes : list push) : N := fold_right (fun p acc => lenN (snd p) + 1 + acc) 0 pushes.

Lemma all_emit_count k spl segsize dec grp : forall pushes i,
  lenN (all_emit k spl segsize dec grp i pushes) <= 2 * input_size pushes.
Proof.
  induction pushes as [|[[s c] data] rest IH]; intro i; cbn [all_emit input_size fold_right].
  - unfold lenN. cbn. lia.
  - specialize (IH (S i)). fold (input_size rest). unfold lenN in *. rewrite app_length. cbn [snd].
    assert (H : (length (contig_emit k spl segsize dec grp i (s, c, data)) <= 2 * (length data + 1))%nat).
    { unfold contig_emit, pieces_of. destruct (contig_pieces _ _ _ _ _) as [ps| |] eqn:E; [|cbn; lia|cbn; lia].
      rewrite map_length. apply contig_pieces_count in E.
      pose proof (split_gen_count true data spl k). unfold split_at_splitters_with_size in E. lia. }
    lia.
Qed.

Lemma store_run_total_inputs_proof : forall lz_enc compress_ref compress_pack k spl segsize dec grp pushes gops,
  ops_carry (all_emit k spl segsize dec grp 0 pushes) gops ->
  2 * input_size pushes + 2 < two32 ->
  exists st, run lz_enc compress_ref compress_pack gops = Ok st.
Proof.
  intros lz_enc compress_ref compress_pack k spl segsize dec grp pushes gops Hcarry Hb.
  apply (store_run_total_proof _ _ _ _ _ Hcarry). apply per_group_from_total.
  pose proof (all_emit_count k spl segsize dec grp pushes 0%nat). lia.
Qed.

(* ================================================================ 3. the catalogue create builds *)
Section Catalogue.
  Variable ecn : Pipeline.name -> Pipeline.name.
  Variables (k : N) (spl : N -> bool) (segsize : N).
  Variable dec : nat -> nat -> decision.
  Variable addr : nat -> nat -> N * N.
  Variable sched : list registration -> list registration.
  Variable samples : list (Pipeline.name * list (Pipeline.name * list N)).
  Hypothesis Hk : 1 <= k.
  Hypothesis Hin : inputs_ok samples.
  Hypothesis Hdec : decisions_ok k spl segsize dec (pushes_of samples).
  Hypothesis Hsched : forall l, Permutation l (sched l).

  Definition vec_of (regs : list registration) (s c : Pipeline.name) : list Pipeline.seg_desc :=
    place_list [] (sel ecn s c (sched regs)).

  (* what create = Ok says *)
  Lemma create_inv : forall coll stored,
    create ecn k spl segsize dec addr sched (pushes_of samples) = Ok (coll, stored) ->
    exists regs, contig_names_ok samples /\
      all_regs k spl segsize dec addr 0 (pushes_of samples) = Ok regs /\
      stored = map (fun r => (r_desc r, r_data r)) regs /\
      coll = build (shape_of samples) (vec_of regs).
  Proof.
    intros coll stored Hc. unfold create in Hc.
    destruct (register_all ecn [] (pushes_of samples)) as [coll0| |] eqn:Er; cbn [obnd] in Hc; try discriminate.
    destruct (all_regs k spl segsize dec addr 0 (pushes_of samples)) as [regs| |] eqn:Ea; cbn [obnd] in Hc; try discriminate.
    apply ok_inj in Hc. destruct (register_all_ok ecn samples coll0 Hin Er) as [Hnames ->].
    exists regs. split; [exact Hnames|]. split; [reflexivity|].
    pose proof (shape_of_ok samples Hin Hnames) as Hsh. rewrite (place_all_build ecn _ Hsh) in Hc.
    inversion Hc. split; reflexivity.
  Qed.

  (* the descriptor vector of contig number j is a permutation of the descriptors registered for its pieces:
     add_segment_placed leaves no hole and nothing else gets in *)
  Lemma contig_vector : forall regs, contig_names_ok samples ->
    all_regs k spl segsize dec addr 0 (pushes_of samples) = Ok regs ->
    forall j s c data, nth_error (pushes_of samples) j = Some (s, c, data) ->
    exists rs, contig_regs k spl segsize dec addr j (s, c, data) = Ok rs /\
               (forall r, In r rs -> In r regs) /\
               sel ecn s c regs = map (fun r => (r_place r, r_desc r)) rs /\
               Permutation (vec_of regs s c) (map r_desc rs).
  Proof.
    intros regs Hnames Ea j s c data Hj.
    destruct (all_regs_sel ecn k spl segsize dec addr _ _ _ Ea (pushes_nodup _ (proj1 Hin) Hnames)
                           (pushes_nonempty _ Hin) j _ _ _ Hj) as (rs & Ers & Esel & Hrs).
    cbn [Nat.add] in Ers. exists rs. split; [exact Ers|]. split; [exact Hrs|]. split; [exact Esel|].
    rewrite contig_regs_eq in Ers.
    assert (Hk' : (1 <= N.to_nat k)%nat) by lia.
    destruct (contig_pieces_spec _ (dec j) Hk' _ 0%nat 0%nat (decisions_decs_ok _ _ _ _ _ _ _ _ _ Hdec Hj))
      as (ps & ps' & Ep & Pp & Np & _).
    rewrite Ep in Ers. cbn [obnd] in Ers. apply ok_inj in Ers. subst rs.
    set (pd := fun r : registration => (r_place r, r_desc r)) in *.
    assert (PL : Permutation (sel ecn s c (sched regs)) (map pd (map (reg_of addr j s c) ps'))).
    { eapply Permutation_trans; [apply Permutation_sym; apply sel_perm; apply Hsched|]. rewrite Esel.
      do 2 apply Permutation_map. exact Pp. }
    unfold vec_of. rewrite (place_perm_dense _ _ PL).
    - rewrite map_map. unfold pd. cbn [snd]. rewrite <- (map_map (reg_of addr j s c) r_desc).
      rewrite <- (map_map (reg_of addr j s c) r_desc ps). do 2 apply Permutation_map. apply Permutation_sym. exact Pp.
    - rewrite !map_map, !map_length. rewrite <- Np. apply map_ext. intro pc. unfold pd. cbn [fst].
      apply (reg_of_fields addr j s c pc).
  Qed.

  Variables (coll : Pipeline.collection) (stored : list (Pipeline.seg_desc * list N)).
  Hypothesis Hc : create ecn k spl segsize dec addr sched (pushes_of samples) = Ok (coll, stored).

  Definition desc_in (cl : Pipeline.collection) (d : Pipeline.seg_desc) : Prop :=
    exists sd cd, In sd cl /\ In cd (snd sd) /\ In d (snd cd).

  Lemma build_entry : forall V (s : Pipeline.name * list (Pipeline.name * list N)) (c : Pipeline.name * list N) d,
    In s samples -> In c (snd s) -> In d (V (fst s) (fst c)) -> desc_in (build (shape_of samples) V) d.
  Proof.
    intros V s c d Hs Hcin Hd.
    exists (fst s, map (fun c0 => (c0, V (fst s) c0)) (map fst (snd s))), (fst c, V (fst s) (fst c)).
    split; [|split; [|exact Hd]].
    - unfold build, shape_of. rewrite map_map. cbn [fst snd]. apply in_map_iff. exists s. auto.
    - cbn [snd]. rewrite map_map. apply in_map_iff. exists c. auto.
  Qed.

  (* every descriptor handed to the store occurs in the catalogue *)
  Lemma stored_in_coll : forall d b, In (d, b) stored -> desc_in coll d.
  Proof.
    intros d b Hdb. destruct (create_inv coll stored Hc) as (regs & Hnames & Ea & -> & ->).
    apply in_map_iff in Hdb. destruct Hdb as (r & Er & Hr). apply ok_inj in (f_equal Ok Er) as Er'. clear Er'.
    assert (Ed : r_desc r = d) by (inversion Er; reflexivity). clear Er.
    destruct (all_regs_names k spl segsize dec addr _ _ _ Ea r Hr) as ([[s c] data] & Hp & Ek).
    unfold key_of in Ek. cbn [fst snd] in Ek. inversion Ek as [[Es Ec]].
    pose proof (pushes_nonempty _ Hin _ Hp) as Hne. cbn [fst] in Hne.
    destruct (pushes_keys samples _ Hp) as (s0 & c0 & Hs0 & Hc0 & Ep). inversion Ep; subst s c data.
    apply In_nth_error in Hp. destruct Hp as [j Hj].
    destruct (contig_vector regs Hnames Ea j _ _ _ Hj) as (rs & _ & _ & Esel & P).
    apply (build_entry _ s0 c0 d Hs0 Hc0). apply (Permutation_in _ (Permutation_sym P)).
    assert (Hsel : In (r_place r, r_desc r) (sel ecn (fst s0) (fst c0) regs)).
    { unfold sel. apply in_map_iff. exists r. split; [reflexivity|]. apply filter_In. split; [exact Hr|].
      rewrite <- Es, <- Ec. rewrite stored_name_nonempty by (rewrite <- Es in Hne; exact Hne).
      rewrite !name_eqb_refl. reflexivity. }
    rewrite Esel in Hsel. apply in_map_iff in Hsel. destruct Hsel as (r' & Er' & Hr').
    apply in_map_iff. exists r'. split; [|exact Hr']. inversion Er'. rewrite <- Ed. assumption.
  Qed.

  (* and the catalogue holds nothing else *)
  Lemma coll_from_stored : forall d, desc_in coll d -> exists b, In (d, b) stored.
  Proof.
    intros d (sd & cd & Hsd & Hcd & Hd). destruct (create_inv coll stored Hc) as (regs & Hnames & Ea & -> & ->).
    unfold build, shape_of in Hsd. rewrite map_map in Hsd. apply in_map_iff in Hsd. destruct Hsd as (s0 & <- & Hs0).
    cbn [fst snd] in Hcd. rewrite map_map in Hcd. apply in_map_iff in Hcd. destruct Hcd as (c0 & <- & Hc0). cbn [snd] in Hd.
    assert (Hp : In (fst s0, fst c0, snd c0) (pushes_of samples)).
    { unfold pushes_of. apply in_flat_map. exists s0. split; [exact Hs0|]. apply in_map_iff. exists c0. auto. }
    apply In_nth_error in Hp. destruct Hp as [j Hj].
    destruct (contig_vector regs Hnames Ea j _ _ _ Hj) as (rs & _ & Hrs & _ & P).
    apply (Permutation_in _ P) in Hd. apply in_map_iff in Hd. destruct Hd as (r & <- & Hr).
    exists (r_data r). apply in_map_iff. exists r. split; [reflexivity|exact (Hrs r Hr)].
  Qed.
End Catalogue.

(* ---- the descriptor fields of a catalogue in the domain of the catalogue codec *)
Lemma chunks_cover {A} bs : (0 < bs)%nat -> forall f (l : list A), (length l <= f)%nat ->
  forall x, In x l -> exists B, In B (Collection_proofs.chunks f bs l) /\ In x B.
Proof.
  intro Hbs. induction f as [|f IH]; intros l Hl x Hx.
  - destruct l; [contradiction|cbn in Hl; lia].
  - destruct l as [|y l']; [contradiction|]. cbn [Collection_proofs.chunks].
    rewrite <- (firstn_skipn bs (y :: l')) in Hx. apply in_app_or in Hx. destruct Hx as [Hx|Hx].
    + exists (firstn bs (y :: l')). split; [left; reflexivity|exact Hx].
    + destruct (IH (skipn bs (y :: l'))) with (x := x) as (B & HB & HxB); [|exact Hx|].
      * rewrite skipn_length. cbn [length] in *. lia.
      * exists B. split; [right; exact HB|exact HxB].
Qed.

Lemma catalogue_descs_wf : forall zc ss k coll, catalogue_in_dom zc ss k (mc_cat_of coll) ->
  forall d, desc_in coll d ->
  (Pipeline.d_group d < 4294967295 /\ Pipeline.d_id d < 2147483647 /\ Pipeline.d_len d < 4294967296) \/
  mc_cat_seg d = seg_empty.
Proof.
  intros zc ss k coll (_ & _ & Hb) d (sd & cd & Hsd & Hcd & Hd).
  set (smp := Collection.mkSample (fst sd)
                (map (fun ct => Collection.mkContig (fst ct) (map mc_cat_seg (snd ct))) (snd sd))).
  assert (Hsmp : In smp (mc_cat_of coll)) by (unfold mc_cat_of; apply in_map_iff; exists sd; auto).
  destruct (chunks_cover (N.to_nat W_CATALOGUE_BATCH) ltac:(vm_compute; lia) _ _ (Nat.le_refl _) smp Hsmp) as (B & HB & HsB).
  rewrite Forall_forall in Hb. destruct (Hb B HB) as (Hwf & _). rewrite Forall_forall in Hwf.
  destruct (Hwf smp HsB) as (_ & Hcs). rewrite Forall_forall in Hcs.
  specialize (Hcs (Collection.mkContig (fst cd) (map mc_cat_seg (snd cd)))).
  destruct Hcs as (_ & _ & Hsegs).
  { unfold smp. cbn [scontigs]. apply in_map_iff. exists cd. auto. }
  cbn [csegs] in Hsegs. rewrite Forall_forall in Hsegs. specialize (Hsegs (mc_cat_seg d) (in_map _ _ _ Hd)).
  exact Hsegs.
Qed.

Lemma catalogue_group_bound : forall zc ss k coll, catalogue_in_dom zc ss k (mc_cat_of coll) ->
  forall d, desc_in coll d -> Pipeline.d_group d < two32.
Proof.
  intros zc ss k coll Hcat d Hd. destruct (catalogue_descs_wf zc ss k coll Hcat d Hd) as [(Hg & _)|E].
  - unfold two32. lia.
  - assert (Eg : Pipeline.d_group d = seg_empty_group) by (exact (f_equal Details.sg E)). rewrite Eg. reflexivity.
Qed.

(* (3) the group of every piece the pipeline emits is a group id of the catalogue, hence below 2^32 as soon as the
   catalogue is in the domain of the catalogue codec: "grp i part < 2^32" need not be assumed of the oracle *)
Lemma grp_bound_from_catalogue_proof :
  forall zc ecn k spl segsize dec grp sched samples st coll stored,
  1 <= k -> inputs_ok samples -> decisions_ok k spl segsize dec (pushes_of samples) ->
  (forall l, Permutation l (sched l)) ->
  create ecn k spl segsize dec (store_addr k spl segsize dec grp (pushes_of samples) st) sched (pushes_of samples)
    = Ok (coll, stored) ->
  catalogue_in_dom zc segsize k (mc_cat_of coll) ->
  forall x, In x (all_emit k spl segsize dec grp 0 (pushes_of samples)) -> fst x < two32.
Proof.
  intros zc ecn k spl segsize dec grp sched samples st coll stored Hk Hin Hdec Hsched Hc Hcat x Hx.
  apply all_emit_in in Hx. destruct Hx as (i & s & c & pc & Hp & ->). cbn [fst].
  set (addr := store_addr k spl segsize dec grp (pushes_of samples) st) in *.
  destruct (create_inv ecn k spl segsize dec addr sched samples Hin coll stored Hc) as (regs & _ & Ea & Est & _).
  assert (Hr : In (reg_of addr i s c pc) regs).
  { apply (all_regs_in k spl segsize dec grp addr _ _ _ Ea). exists i, s, c, pc. auto. }
  assert (Hst : In (r_desc (reg_of addr i s c pc), r_data (reg_of addr i s c pc)) stored).
  { rewrite Est. apply in_map_iff. exists (reg_of addr i s c pc). auto. }
  pose proof (stored_in_coll ecn k spl segsize dec addr sched samples Hk Hin Hdec Hsched coll stored Hc _ _ Hst) as Hd.
  pose proof (catalogue_group_bound zc segsize k coll Hcat _ Hd) as Hb.
  unfold reg_of, addr, store_addr in Hb. exact Hb.
Qed.
