(* LZ_dec.v - how the decoder consumes each serialised operation; composition of decoder runs *)
From Coq Require Import Lia ZifyBool ZifyN ZifyNat.
From Ragc Require Import LZ_base LZ_int.

Lemma sym_ok_le c : sym_ok c -> c <= 30.
Proof. unfold sym_ok, sym_okb, is_literal. consts. lia. Qed.
Lemma le_sym_ok c : c <= 30 -> sym_ok c.
Proof. unfold sym_ok, sym_okb, is_literal. consts. lia. Qed.

Lemma int_byte_class c : int_byte c -> is_literal c = false /\ (c =? n_run_starter_code) = false.
Proof. unfold int_byte, is_literal, is_digit. consts. lia. Qed.

Lemma nodigit_cons c r : is_digit c = false -> nodigit (c :: r).
Proof. auto. Qed.

Lemma repeat_snoc {A} (x : A) n : repeat x n ++ [x] = x :: repeat x n.
Proof. induction n; cbn [repeat app]; auto. now rewrite IHn. Qed.
Lemma rev_repeat {A} (x : A) n : rev (repeat x n) = repeat x n.
Proof. induction n; cbn [repeat rev]; auto. rewrite IHn. apply repeat_snoc. Qed.

Section Dec.
  Variable st : lzst.

  Lemma step_lit c f r rout pp : sym_ok c ->
    decode_go st (S f) ((lit_base + c) :: r) rout pp = decode_go st f r (c :: rout) (pp + 1).
  Proof.
    intros H. assert (L := sym_ok_le _ H). cbn [decode_go].
    assert (E1 : is_literal (lit_base + c) = true) by (unfold is_literal; consts; lia).
    rewrite E1. unfold decode_literal.
    assert (E2 : lit_base + c =? bang_byte = false) by (consts; lia). rewrite E2.
    replace (lit_base + c - lit_base) with c by lia.
    assert (E3 : c =? bang_byte = false) by (consts; lia). now rewrite E3.
  Qed.

  Lemma step_bang a f r rout pp : nthN (refp st) pp = Some a ->
    decode_go st (S f) (bang_byte :: r) rout pp = decode_go st f r (a :: rout) (pp + 1).
  Proof.
    intros H. cbn [decode_go]. replace (is_literal bang_byte) with true by reflexivity.
    replace (decode_literal bang_byte =? bang_byte) with true by reflexivity. now rewrite H.
  Qed.

  Lemma step_nrun n b f r rout pp : n < 4294967296 -> ser_nrun n = Ok b ->
    decode_go st (S f) (b ++ r) rout pp = decode_go st f r (repeat n_code (N.to_nat n) ++ rout) pp.
  Proof.
    intros Hn Hb. unfold ser_nrun, sub_u32 in Hb. destruct (min_nrun_len <=? n) eqn:E; [|discriminate].
    inversion Hb; subst b; clear Hb. cbn [app decode_go].
    replace (is_literal n_run_starter_code) with false by reflexivity.
    replace (n_run_starter_code =? n_run_starter_code) with true by reflexivity.
    unfold decode_nrun. rewrite <- app_assoc.
    rewrite read_int_append_int_proof.
    - cbn [obnd fst snd]. unfold as_u32, add_u32. consts.
      assert (Z.of_N (n - 4) mod 4294967296 = Z.of_N (n - 4))%Z by (apply Z.mod_small; lia).
      rewrite H. replace (Z.to_N (Z.of_N (n - 4)) + 4) with n by lia.
      destruct (n <? two32) eqn:E2; [|unfold two32 in *; lia]. reflexivity.
    - unfold int_ok, i64_max. consts. lia.
    - cbn [app]. apply nodigit_cons. reflexivity.
  Qed.

  Ltac Zify.zify_post_hook ::= Z.div_mod_to_equations.
  Lemma as_i32_small x : x < 2147483648 -> as_i32 x = Z.of_N x.
  Proof. unfold as_i32, wrap_i32. intros. lia. Qed.
  Lemma as_u32_small x : x < 4294967296 -> as_u32 (Z.of_N x) = x.
  Proof. unfold as_u32. intros. lia. Qed.
  Lemma as_usize_small x : x < 4294967296 -> as_usize (Z.of_N x) = x.
  Proof. unfold as_usize. intros. lia. Qed.
  Ltac Zify.zify_post_hook ::= idtac.

  Lemma ser_match_ok amp len pp :
    amp < 2147483648 -> pp < 2147483648 ->
    match len with Some l => mml st <= l | None => True end ->
    exists b, ser_match st amp len pp = Ok b /\
      b = append_int (Z.of_N amp - Z.of_N pp) ++
          match len with
          | Some l => comma_byte :: append_int (Z.of_N (l - mml st)) ++ [period_byte]
          | None => [period_byte]
          end.
  Proof.
    intros Ha Hp Hl. unfold ser_match. rewrite !as_i32_small by auto.
    unfold sub_i32, in_i32, i32_min, i32_max.
    destruct ((-2147483648 <=? Z.of_N amp - Z.of_N pp)%Z && (Z.of_N amp - Z.of_N pp <=? 2147483647)%Z) eqn:E; [|lia].
    destruct len.
    - unfold sub_u32. destruct (mml st <=? n) eqn:E2; [|lia]. eauto.
    - eauto.
  Qed.

  Lemma step_match amp len pp b f r rout :
    amp < 2147483648 -> pp < 2147483648 -> mml st < 2147483648 ->
    ser_match st amp len pp = Ok b ->
    forall alen,
    match len with
    | Some l => mml st <= l /\ l < 2147483648 /\ alen = l
    | None => amp <= ref_len st /\ alen = ref_len st - amp
    end ->
    amp + alen <= lenN (refp st) -> refp_len st = lenN (refp st) ->
    decode_go st (S f) (b ++ r) rout pp =
    decode_go st f r (rev_append (firstnN alen (skipnN amp (refp st))) rout) (amp + alen).
  Proof.
    intros Ha Hp Hm Hb alen Hl Hin Hrpl.
    destruct (ser_match_ok amp len pp Ha Hp) as (b' & Hb' & Eb). { destruct len; tauto. }
    assert (Eb2 : b = b') by congruence. rewrite <- Eb2 in Eb. clear Eb2 Hb' b'.
    destruct (append_int_head (Z.of_N amp - Z.of_N pp)) as (c & a & Ec & Hc).
    destruct (int_byte_class _ Hc) as (C1 & C2).
    assert (Hdm : decode_match st (b ++ r) pp =
                  Ok (amp, match len with Some l => l | None => to_end_len end, r)).
    { unfold decode_match. rewrite Eb, <- app_assoc. rewrite read_int_append_int_proof.
      - cbn [obnd fst snd].
        replace (Z.of_N pp + (Z.of_N amp - Z.of_N pp))%Z with (Z.of_N amp) by lia.
        destruct (i64_max <? Z.of_N amp)%Z eqn:E; [unfold i64_max in E; lia|].
        rewrite as_usize_small by lia. destruct len as [l|].
        + cbn [app]. replace (comma_byte =? period_byte) with false by reflexivity.
          replace (comma_byte =? comma_byte) with true by reflexivity.
          destruct (append_int_head (Z.of_N (l - mml st))) as (c2 & a2 & Ec2 & _).
          rewrite <- app_assoc. rewrite Ec2. cbn [app]. rewrite app_comm_cons, <- Ec2.
          rewrite read_int_append_int_proof.
          * cbn [obnd fst snd app skipn]. rewrite as_u32_small by lia. unfold add_u32.
            replace (l - mml st + mml st) with l by lia.
            destruct (l <? two32) eqn:E3; [|unfold two32 in E3; lia]. reflexivity.
          * unfold int_ok, i64_max. lia.
          * cbn [app]. apply nodigit_cons. reflexivity.
        + cbn [app]. replace (period_byte =? period_byte) with true by reflexivity. reflexivity.
      - unfold int_ok, i64_max. lia.
      - destruct len; cbn [app]; apply nodigit_cons; reflexivity. }
    assert (Hhead : exists b0, b ++ r = c :: b0).
    { rewrite Eb, Ec. cbn [app]. eauto. }
    destruct Hhead as (b0 & Eb0). revert Hdm. rewrite Eb0. intros Hdm.
    cbn [decode_go]. rewrite C1, C2, Hdm.
    destruct len as [l|].
    - destruct Hl as (H1 & H2 & ->). destruct (l =? to_end_len) eqn:E; [consts; lia|].
      rewrite Hrpl. destruct (amp + l <=? lenN (refp st)) eqn:E2; [|lia]. reflexivity.
    - destruct Hl as (H1 & ->). replace (to_end_len =? to_end_len) with true by reflexivity.
      unfold sub_u64. destruct (amp <=? ref_len st) eqn:E; [|lia].
      rewrite Hrpl. destruct (amp + (ref_len st - amp) <=? lenN (refp st)) eqn:E2; [|lia]. reflexivity.
  Qed.

  Lemma ser_match_nonempty amp len pp b : ser_match st amp len pp = Ok b -> b <> [].
  Proof.
    unfold ser_match. destruct (sub_i32 _ _); [|discriminate]. destruct len.
    - destruct (sub_u32 _ _); [|discriminate]. intros H; inversion H.
      destruct (append_int z); discriminate.
    - intros H; inversion H. destruct (append_int z); discriminate.
  Qed.

  (* ---------------- composition *)
  Definition DecTo (enc out : list N) (pp : N) : Prop :=
    forall r f, (length (enc ++ r) < f)%nat ->
      exists f', (length r < f')%nat /\ decode_go st f (enc ++ r) [] 0 = decode_go st f' r (rev out) pp.

  Lemma DecTo_nil : DecTo [] [] 0.
  Proof. intros r f H. exists f. split; auto. Qed.

  Lemma DecTo_step enc out pp b out' pp' :
    DecTo enc out pp -> b <> [] ->
    (forall r f, decode_go st (S f) (b ++ r) (rev out) pp = decode_go st f r (rev out') pp') ->
    DecTo (enc ++ b) out' pp'.
  Proof.
    intros H Hb Hs r f Hf. rewrite <- app_assoc in *.
    destruct (H (b ++ r) f Hf) as (f' & Hf' & E). rewrite E.
    destruct f' as [|f'']; [inversion Hf'|]. exists f''. split.
    - rewrite app_length in Hf'. destruct b; [congruence|]. cbn [length] in Hf'. lia.
    - apply Hs.
  Qed.

  Lemma DecTo_final enc out pp : DecTo enc out pp -> lz_decode st enc = Ok out.
  Proof.
    intros H. unfold lz_decode. destruct (H [] (S (length enc))) as (f' & _ & E).
    - rewrite app_nil_r. lia.
    - rewrite app_nil_r in E. rewrite E. destruct f'; cbn [decode_go]; now rewrite rev_involutive.
  Qed.

  Lemma DecTo_lit enc out pp c : DecTo enc out pp -> sym_ok c ->
    DecTo (enc ++ [lit_base + c]) (out ++ [c]) (pp + 1).
  Proof.
    intros H Hc. eapply DecTo_step; eauto. { discriminate. }
    intros. cbn [app]. rewrite rev_app_distr. cbn [rev app]. now apply step_lit.
  Qed.

  Lemma DecTo_bang enc out pp c : DecTo enc out pp -> nthN (refp st) pp = Some c ->
    DecTo (enc ++ [bang_byte]) (out ++ [c]) (pp + 1).
  Proof.
    intros H Hc. eapply DecTo_step; eauto. { discriminate. }
    intros. cbn [app]. rewrite rev_app_distr. cbn [rev app]. now apply step_bang.
  Qed.

  Lemma DecTo_nrun enc out pp n b : DecTo enc out pp -> n < 4294967296 -> ser_nrun n = Ok b ->
    DecTo (enc ++ b) (out ++ repeat n_code (N.to_nat n)) pp.
  Proof.
    intros H Hn Hb. eapply DecTo_step; eauto.
    { unfold ser_nrun in Hb. destruct (sub_u32 _ _); inversion Hb. discriminate. }
    intros. rewrite rev_app_distr. rewrite (step_nrun n b) by auto.
    f_equal. f_equal. symmetry. apply rev_repeat.
  Qed.

  Lemma DecTo_match enc out pp amp len b alen :
    DecTo enc out pp ->
    amp < 2147483648 -> pp < 2147483648 -> mml st < 2147483648 ->
    ser_match st amp len pp = Ok b ->
    match len with
    | Some l => mml st <= l /\ l < 2147483648 /\ alen = l
    | None => amp <= ref_len st /\ alen = ref_len st - amp
    end ->
    amp + alen <= lenN (refp st) -> refp_len st = lenN (refp st) ->
    DecTo (enc ++ b) (out ++ firstnN alen (skipnN amp (refp st))) (amp + alen).
  Proof.
    intros H Ha Hp Hm Hb Hl Hin Hrpl. eapply DecTo_step; eauto.
    { eapply ser_match_nonempty; eauto. }
    intros. rewrite (step_match amp len pp b) with (alen := alen) by auto.
    f_equal. rewrite rev_append_rev, rev_app_distr. reflexivity.
  Qed.
End Dec.
