(* CliGrand_proofs.v - C17G: Cli.v (C17) instantiated with the real reader chain and the model writer.
   1. Cli.v's archive queries on [cli_archive_of cat]
   2. the parsed sample set in terms of the input text (records, first appearance order, read-back)
   3. create (model_create) then getset / listset / listctg
   4. the fallible output file of C15 underneath *)
From Coq Require Import Lia ZifyBool ZifyN ZifyNat Permutation.
From Ragc Require Import Mach.
From Ragc Require Cli Fasta Sink Container Pipeline GroupStore AgcV3 ModelCreate.
From Ragc Require Cli_proofs Fasta_proofs Sink_proofs Grand_proofs Compose_proofs Pipeline_proofs.
From Ragc Require Import CliGrand.
Open Scope N_scope.

Lemma ok_inj {A} (x y : A) : Ok x = Ok y -> x = y.
Proof. intro H. injection H as H. exact H. Qed.

Lemma fin_inj (x y : Cli.str) : Cli.PipeFinalized x = Cli.PipeFinalized y -> x = y.
Proof. intro H. injection H as H. exact H. Qed.

(* ================================================================ 1. Cli.v's queries on cli_archive_of *)
Definition view_contig (nc : list N * list N) : list N * list N := (fst nc, Fasta.out_letters (snd nc)).
Definition view3 (c : Fasta.contig3) : Fasta.contig3 := (fst (fst c), snd (fst c), Fasta.out_letters (snd c)).

Lemma names_of_archive : forall cat, map fst (cli_archive_of cat) = map fst cat.
Proof. intro cat. unfold cli_archive_of. rewrite map_map. apply map_ext. intros [s cs]. reflexivity. Qed.

Lemma find_sample_of : forall cat s, In s (map fst cat) ->
  Cli.find_sample (cli_archive_of cat) s = Some (map cli_contig (Fasta.contigs_of cat s)).
Proof.
  induction cat as [|[s0 cs0] r IH]; intros s Hin; [destruct Hin|].
  unfold Cli.find_sample, cli_archive_of. cbn [map find cli_sample fst snd Fasta.contigs_of].
  change Cli.str_eqb with Fasta.bytes_eqb. destruct (Fasta.bytes_eqb s0 s) eqn:E; [reflexivity|].
  destruct Hin as [H|H].
  - cbn [fst] in H. subst s0. rewrite Fasta_proofs.bytes_eqb_refl in E. discriminate.
  - exact (IH s H).
Qed.

Lemma all_contigs_of : forall cs, Cli.all_contigs (map cli_contig cs) = Some (map view_contig cs).
Proof.
  induction cs as [|[n d] r IH]; [reflexivity|].
  cbn [map cli_contig Cli.all_contigs fst snd]. rewrite IH. reflexivity.
Qed.

Lemma get_sample_of : forall cat s, In s (map fst cat) ->
  Cli.get_sample (cli_archive_of cat) s = Some (map view_contig (Fasta.contigs_of cat s)).
Proof. intros cat s H. unfold Cli.get_sample. rewrite (find_sample_of cat s H). apply all_contigs_of. Qed.

Lemma list_contigs_of : forall cat s, In s (map fst cat) ->
  Cli.list_contigs (cli_archive_of cat) s = Some (map fst (Fasta.contigs_of cat s)).
Proof.
  intros cat s H. unfold Cli.list_contigs. rewrite (find_sample_of cat s H). rewrite map_map. reflexivity.
Qed.

Lemma sample_fasta_of : forall cat s, In s (map fst cat) ->
  Cli.sample_fasta (cli_archive_of cat) s = fasta_of (map view_contig (Fasta.contigs_of cat s)).
Proof. intros cat s H. unfold Cli.sample_fasta. rewrite (get_sample_of cat s H). reflexivity. Qed.

(* ================================================================ 2. the parsed sample set, from the text *)
Lemma contig_stream_records : forall f t cs, Fasta.first_line_ok t = true ->
  Fasta.contig_stream f t = Ok cs -> map view3 cs = input_contigs_of_file (f, t).
Proof.
  intros f t cs Hf H. unfold Fasta.contig_stream in H.
  destruct (Fasta_proofs.pushed_complete_lemma t Hf) as [[_ E]|[_ E]]; rewrite E in H; cbn [obnd] in H; [discriminate|].
  apply ok_inj in H. subst cs. unfold input_contigs_of_file, Fasta.has_named_base. cbn [fst snd]. rewrite !map_map.
  apply map_ext. intro r. unfold view3. cbn [fst snd]. rewrite Fasta_proofs.out_convert_read_back. reflexivity.
Qed.

Lemma stream_multi_records : forall files cs, all_first_line_ok files ->
  Fasta.stream_multi files = Ok cs -> map view3 cs = input_contigs files.
Proof.
  induction files as [|[f t] fs IH]; intros cs HF H; cbn [Fasta.stream_multi] in H.
  - apply ok_inj in H. subst cs. reflexivity.
  - destruct (Fasta.contig_stream f t) as [a| |] eqn:E0; destruct (Fasta.stream_multi fs) as [b0| |] eqn:E1;
      cbn [Fasta.oapp] in H; try discriminate.
    apply ok_inj in H. subst cs. inversion HF as [|x l Hx Hl]; subst.
    unfold input_contigs. cbn [flat_map]. rewrite map_app. f_equal.
    + exact (contig_stream_records f t a Hx E0).
    + exact (IH b0 Hl eq_refl).
Qed.

Lemma text_stream_records : forall files cs, all_first_line_ok files ->
  cg_text_stream files = Ok cs -> map view3 cs = input_contigs files.
Proof.
  intros files cs HF H. unfold cg_text_stream in H. destruct files as [|[f t] [|x r]].
  - exact (stream_multi_records _ _ HF H).
  - unfold Fasta.stream_single in H. destruct (Fasta.contig_stream f t) as [a| |] eqn:E0; cbn [obnd] in H; try discriminate.
    destruct (Fasta.sorted_go None [] a); [|discriminate]. apply ok_inj in H. subst cs.
    inversion HF as [|y l Hy Hl]; subst. unfold input_contigs. cbn [flat_map]. rewrite app_nil_r.
    exact (contig_stream_records f t a Hy E0).
  - exact (stream_multi_records _ _ HF H).
Qed.

Lemma existsb_name : forall s l, existsb (fun y => Fasta.bytes_eqb y s) l = true <-> In s l.
Proof.
  intros s l. rewrite existsb_exists. split.
  - intros (y & Hy & E). apply Fasta_proofs.list_eqb_eq in E. subst y. exact Hy.
  - intro H. exists s. split; [exact H|apply Fasta_proofs.bytes_eqb_refl].
Qed.

Lemma collect_names : forall cs a arch, Fasta.collect a cs = Ok arch ->
  map fst arch = first_seen (map fst a) (map (fun c : Fasta.contig3 => fst (fst c)) cs).
Proof.
  induction cs as [|[[s n] c] cs IH]; intros a arch H; cbn [Fasta.collect] in H.
  - apply ok_inj in H. subst arch. reflexivity.
  - destruct (Fasta.add_contig a (s, n, c)) as [a1|] eqn:A; [|discriminate].
    cbn [map first_seen fst]. destruct (Grand_proofs.add_contig_inv a s n c a1 A) as (I1 & _).
    destruct I1 as [[Hin Em]|[Hnin Em]].
    + rewrite (proj2 (existsb_name s (map fst a)) Hin). rewrite <- Em. exact (IH a1 arch H).
    + destruct (existsb (fun y => Fasta.bytes_eqb y s) (map fst a)) eqn:Ex.
      * exfalso. apply Hnin. apply existsb_name. exact Ex.
      * rewrite <- Em. exact (IH a1 arch H).
Qed.

Lemma names_view3 : forall cs, map (fun c : Fasta.contig3 => fst (fst c)) (map view3 cs) = map (fun c : Fasta.contig3 => fst (fst c)) cs.
Proof. intro cs. rewrite map_map. apply map_ext. intros [[s n] c]. reflexivity. Qed.

Lemma of_sample_view : forall s cs, Fasta.of_sample s (map view3 cs) = map view_contig (Fasta.of_sample s cs).
Proof.
  intros s cs. unfold Fasta.of_sample. induction cs as [|[[s0 n] c] r IH]; [reflexivity|].
  cbn [map filter view3 fst snd]. destruct (Fasta.bytes_eqb s0 s); cbn [map fst snd]; rewrite IH; reflexivity.
Qed.

Lemma cg_text_samples_eq : forall files, cg_text_samples files = Grand_proofs.text_samples files.
Proof. reflexivity. Qed.

(* the parsed sample set seen through the output letters IS the input text's records *)
Theorem view_of_text_proof : forall files arch, all_first_line_ok files ->
  Grand_proofs.text_samples files = Ok arch ->
  map fst arch = input_samples files /\
  (forall s, map view_contig (Fasta.contigs_of arch s) = input_records files s).
Proof.
  intros files arch HF H. rewrite <- cg_text_samples_eq in H. unfold cg_text_samples in H.
  destruct (cg_text_stream files) as [cs| |] eqn:E; cbn [obnd] in H; try discriminate.
  pose proof (text_stream_records files cs HF E) as R. split.
  - rewrite (collect_names cs [] arch H). unfold input_samples. rewrite <- R, names_view3. reflexivity.
  - intro s. rewrite (Fasta_proofs.collect_per_sample_lemma cs arch H s). unfold input_records.
    rewrite <- R. symmetry. apply of_sample_view.
Qed.

(* the read-back is the normal form on the property's alphabet *)
Lemma read_back_norm_proof : forall s, (forall c, In c s -> Fasta.odd_byte c = false) -> Fasta.read_back s = Fasta.norm s.
Proof. intros s H. rewrite <- Fasta_proofs.out_convert_read_back. apply Fasta_proofs.normal_form. exact H. Qed.

Lemma contigs_of_view : forall arch s,
  Fasta.contigs_of (map (fun sc : list N * list (list N * list N) => (fst sc, map view_contig (snd sc))) arch) s =
  map view_contig (Fasta.contigs_of arch s).
Proof.
  induction arch as [|[s0 cs0] r IH]; intro s; [reflexivity|].
  cbn [map Fasta.contigs_of fst snd]. destruct (Fasta.bytes_eqb s0 s); [reflexivity|apply IH].
Qed.

(* C16's create_view (what create followed by listset / listctg / getset shows) IS the input text's records *)
Theorem create_view_is_input_proof : forall files v, all_first_line_ok files -> Fasta.create_view files = Ok v ->
  map fst v = input_samples files /\ (forall s, Fasta.contigs_of v s = input_records files s).
Proof.
  intros files v HF H. rewrite Grand_proofs.create_view_text_samples in H.
  destruct (Grand_proofs.text_samples files) as [arch| |] eqn:E; cbn [obnd] in H; try discriminate.
  apply ok_inj in H. subst v. destruct (view_of_text_proof files arch HF E) as (V1 & V2). split.
  - rewrite map_map. cbn [fst]. exact V1.
  - intro s. rewrite <- V2. exact (contigs_of_view arch s).
Qed.

(* what Cli.v's archive queries answer on a file the format-rule decoder reads *)
Theorem cli_decode_answers_proof : forall zd bytes cat, AgcV3.decode zd bytes = Ok cat ->
  cli_decode zd bytes = Some (cli_archive_of cat) /\
  Cli.list_samples (cli_archive_of cat) = map fst cat /\
  (forall s, In s (map fst cat) ->
     Cli.get_sample (cli_archive_of cat) s = Some (map view_contig (Fasta.contigs_of cat s)) /\
     Cli.list_contigs (cli_archive_of cat) s = Some (map fst (Fasta.contigs_of cat s))) /\
  (forall s, ~ In s (map fst cat) ->
     Cli.get_sample (cli_archive_of cat) s = None /\ Cli.list_contigs (cli_archive_of cat) s = None).
Proof.
  intros zd bytes cat H. split; [unfold cli_decode; rewrite H; reflexivity|].
  split; [exact (names_of_archive cat)|]. split.
  - intros s Hs. split; [exact (get_sample_of cat s Hs)|exact (list_contigs_of cat s Hs)].
  - intros s Hs. assert (F : Cli.find_sample (cli_archive_of cat) s = None).
    { clear H. induction cat as [|[s0 cs0] r IH]; [reflexivity|].
      unfold Cli.find_sample, cli_archive_of. cbn [map find cli_sample fst snd].
      change Cli.str_eqb with Fasta.bytes_eqb. destruct (Fasta.bytes_eqb s0 s) eqn:E.
      - exfalso. apply Hs. left. apply Fasta_proofs.list_eqb_eq in E. exact E.
      - apply IH. intro X. apply Hs. right. exact X. }
    unfold Cli.get_sample, Cli.list_contigs. rewrite F. split; reflexivity.
Qed.

(* ================================================================ small list facts *)
Lemma flat_map_ext_in {A B} (f g : A -> list B) l : (forall a, In a l -> f a = g a) -> flat_map f l = flat_map g l.
Proof.
  induction l as [|a l IH]; intro H; [reflexivity|]. cbn [flat_map]. rewrite (H a (or_introl eq_refl)).
  rewrite IH; [reflexivity|]. intros x Hx. apply H. right. exact Hx.
Qed.

Lemma create_nocreate : forall f output pr st e st', Cli.create_archive f output pr st = (e, st') ->
  Cli.nocreate (Cli.p_fs st') = Cli.nocreate (Cli.p_fs st).
Proof.
  intros f output pr st e st' H. unfold Cli.create_archive in H.
  destruct (Cli.create_dispatch f); [injection H as _ <-; reflexivity|].
  destruct pr as [[l|]|bytes]; injection H as _ <-; reflexivity.
Qed.

Lemma create_creatable : forall f output pr st e st' p, Cli.create_archive f output pr st = (e, st') ->
  Cli.creatable (Cli.p_fs st') p = Cli.creatable (Cli.p_fs st) p.
Proof. intros. unfold Cli.creatable. rewrite (create_nocreate _ _ _ _ _ _ H). reflexivity. Qed.

(* ================================================================ 3. create, then the reading commands *)
Section AfterCreate.
  Variable zd : list N -> option (list N).
  Variable files : list (list N * list N).
  Variable arch : list (list N * list (list N * list N)).
  Variable bytes : list N.
  Hypothesis HF : all_first_line_ok files.
  Hypothesis Htext : Grand_proofs.text_samples files = Ok arch.
  Hypothesis Hdec : AgcV3.decode zd bytes = Ok arch.
  Variables (output tmp : Cli.str) (st' : Cli.pstate).
  Hypothesis Hfile : Cli.fs_read (Cli.p_fs st') output = Some bytes.

  Let ar := cli_archive_of arch.

  Lemma opened : Cli.open_archive (cli_decode zd) (Cli.p_fs st') output = Some ar.
  Proof. unfold Cli.open_archive. rewrite Hfile. unfold cli_decode. rewrite Hdec. reflexivity. Qed.

  Lemma names_in : forall names, Forall (fun n => In n (input_samples files)) names -> Forall (fun n => In n (map fst arch)) names.
  Proof. intros names H. rewrite (proj1 (view_of_text_proof files arch HF Htext)). exact H. Qed.

  Lemma getset_text : forall names, Forall (fun n => In n (input_samples files)) names ->
    concat (map (Cli.sample_fasta ar) names) = expected_getset files names.
  Proof.
    intros names H. apply names_in in H. unfold expected_getset. f_equal. apply map_ext_in. intros s Hs.
    rewrite Forall_forall in H. unfold ar. rewrite (sample_fasta_of arch s (H s Hs)).
    rewrite (proj2 (view_of_text_proof files arch HF Htext) s). reflexivity.
  Qed.

  Lemma getset_known : forall names, Forall (fun n => In n (input_samples files)) names ->
    Forall (fun n => Cli.get_sample ar n <> None) names.
  Proof.
    intros names H. apply names_in in H. apply Forall_forall. intros s Hs. rewrite Forall_forall in H.
    unfold ar. rewrite (get_sample_of arch s (H s Hs)). discriminate.
  Qed.

  Lemma after_getset_stdout : forall names, names <> [] -> Forall (fun n => In n (input_samples files)) names ->
    Cli.creatable (Cli.p_fs st') tmp = true ->
    exists st'', Cli.run_main (cli_decode zd) tmp (Cli.CmdGetset output names None None) st' = (Cli.Zero, st'') /\
      Cli.p_stdout st'' = Cli.p_stdout st' ++ expected_getset files names /\
      Cli.fs_read (Cli.p_fs st'') tmp = None /\
      (forall q, q <> tmp -> Cli.fs_read (Cli.p_fs st'') q = Cli.fs_read (Cli.p_fs st') q).
  Proof.
    intros names Hne Hin Hc.
    destruct (Cli_proofs.getset_composes_stdout_proof (cli_decode zd) output names None tmp st' ar opened Hne
                (getset_known names Hin) Hc) as (st'' & E & Ho & Ht & Hq).
    exists st''. cbn [Cli.run_main]. split; [exact E|]. split; [|split; assumption].
    rewrite Ho. cbn [Cli.requested]. rewrite (getset_text names Hin). reflexivity.
  Qed.

  Lemma after_getset_file : forall names out, names <> [] -> Forall (fun n => In n (input_samples files)) names ->
    Cli.creatable (Cli.p_fs st') tmp = true -> Cli.creatable (Cli.p_fs st') out = true -> out <> tmp ->
    exists st'', Cli.run_main (cli_decode zd) tmp (Cli.CmdGetset output names None (Some out)) st' = (Cli.Zero, st'') /\
      Cli.fs_read (Cli.p_fs st'') out = Some (expected_getset files names) /\
      Cli.p_stdout st'' = Cli.p_stdout st' /\
      Cli.fs_read (Cli.p_fs st'') tmp = None /\
      (forall q, q <> tmp -> q <> out -> Cli.fs_read (Cli.p_fs st'') q = Cli.fs_read (Cli.p_fs st') q).
  Proof.
    intros names out Hne Hin Hc Hco Hot.
    destruct (Cli_proofs.getset_composes_file_proof (cli_decode zd) output names None out tmp st' ar opened Hne
                (getset_known names Hin) Hc Hco Hot) as (st'' & E & Ho & Hs & Ht & Hq).
    exists st''. cbn [Cli.run_main]. split; [exact E|]. split; [|repeat split; assumption].
    rewrite Ho. cbn [Cli.requested]. rewrite (getset_text names Hin). reflexivity.
  Qed.

  Lemma after_listset : forall o, (forall p, o = Some p -> Cli.creatable (Cli.p_fs st') p = true) ->
    exists st'', Cli.run_main (cli_decode zd) tmp (Cli.CmdListset output o) st' = (Cli.Zero, st'') /\
      match o with
      | None => Cli.p_stdout st'' = Cli.p_stdout st' ++ expected_listset files /\ Cli.p_fs st'' = Cli.p_fs st'
      | Some p => Cli.fs_read (Cli.p_fs st'') p = Some (expected_listset files) /\ Cli.p_stdout st'' = Cli.p_stdout st' /\
                  (forall q, p <> q -> Cli.fs_read (Cli.p_fs st'') q = Cli.fs_read (Cli.p_fs st') q)
      end.
  Proof.
    intros o Ho.
    destruct (Cli_proofs.listset_ok_proof (cli_decode zd) output o st' ar opened Ho) as (st'' & E & R).
    exists st''. cbn [Cli.run_main]. split; [exact E|].
    unfold expected_listset. rewrite <- (proj1 (view_of_text_proof files arch HF Htext)).
    unfold ar in R. rewrite names_of_archive in R. exact R.
  Qed.

  Lemma listctg_text : forall names, Forall (fun n => In n (input_samples files)) names ->
    Cli.lines (flat_map (fun s => map (fun c => s ++ [Cli.ch_tab] ++ c)
                 (match Cli.list_contigs ar s with Some l => l | None => [] end)) names) = expected_listctg files names.
  Proof.
    intros names H. apply names_in in H. unfold expected_listctg. f_equal. apply flat_map_ext_in. intros s Hs.
    rewrite Forall_forall in H. unfold ar. rewrite (list_contigs_of arch s (H s Hs)).
    rewrite <- (proj2 (view_of_text_proof files arch HF Htext) s). rewrite !map_map. apply map_ext. intros [n c]. reflexivity.
  Qed.

  Lemma after_listctg : forall names o, Forall (fun n => In n (input_samples files)) names ->
    (forall p, o = Some p -> Cli.creatable (Cli.p_fs st') p = true) ->
    exists st'', Cli.run_main (cli_decode zd) tmp (Cli.CmdListctg output names o) st' = (Cli.Zero, st'') /\
      match o with
      | None => Cli.p_stdout st'' = Cli.p_stdout st' ++ expected_listctg files names /\ Cli.p_fs st'' = Cli.p_fs st'
      | Some p => Cli.fs_read (Cli.p_fs st'') p = Some (expected_listctg files names) /\ Cli.p_stdout st'' = Cli.p_stdout st' /\
                  (forall q, p <> q -> Cli.fs_read (Cli.p_fs st'') q = Cli.fs_read (Cli.p_fs st') q)
      end.
  Proof.
    intros names o Hin Ho.
    assert (Hk : Forall (fun s => Cli.find_sample ar s <> None) names).
    { pose proof (names_in names Hin) as H. apply Forall_forall. intros s Hs. rewrite Forall_forall in H.
      unfold ar. rewrite (find_sample_of arch s (H s Hs)). discriminate. }
    destruct (Cli_proofs.listctg_ok_proof (cli_decode zd) output names o st' ar opened Hk Ho) as (st'' & E & R).
    exists st''. cbn [Cli.run_main]. split; [exact E|]. cbv zeta in R. rewrite (listctg_text names Hin) in R. exact R.
  Qed.
End AfterCreate.

(* ---------------------------------------------------------------- the pipeline instantiated by model_create *)
Section Grand.
  Variable zc : N -> list N -> list N.
  Variable zd : list N -> option (list N).
  Hypothesis Hzd : forall l x, zd (zc l x) = Some x.
  Hypothesis Hzc : forall l x, zc l x <> [].
  Variable ecn : Pipeline.name -> Pipeline.name.
  Variables (k mml segsize level : N).
  Variable spl : N -> bool.
  Variable dec : nat -> nat -> Pipeline.decision.
  Variable grp : nat -> nat -> N.
  Variable sched : list Pipeline.registration -> list Pipeline.registration.
  Variable gops : list GroupStore.op.
  Variable fti : Container.item.
  Variable leftover : option Cli.str.
  Variable files : list (list N * list N).
  Variable arch : list (list N * list (list N * list N)).
  Hypothesis Hk : 1 <= k <= 32.
  Hypothesis Hmml : 4 <= mml.
  Hypothesis Hm32 : mml < two32.
  Hypothesis Hs32 : segsize < two32.
  Hypothesis Hssk : segsize + k <= 2147483648.
  Hypothesis HF : all_first_line_ok files.
  Hypothesis Htext : Grand_proofs.text_samples files = Ok arch.
  Hypothesis Hnames : Forall (fun s => fst s <> []) arch.
  Hypothesis Hlens : forall s c data, In (s, c, data) (Pipeline.pushes_of arch) -> 2 * lenN data + mml < 2147483648.
  Hypothesis Hdec : Pipeline_proofs.decisions_ok k spl segsize dec (Pipeline.pushes_of arch).
  Hypothesis Hgrp : forall i part, grp i part < two32.
  Hypothesis Hsched : forall l, Permutation l (sched l).
  Hypothesis Hcarry : Compose_proofs.ops_carry (Compose_proofs.all_emit k spl segsize dec grp 0 (Pipeline.pushes_of arch)) gops.
  Variable b : ModelCreate.built.
  Hypothesis Hb : ModelCreate.model_build zc ecn k mml segsize level spl dec grp sched gops fti arch = Ok b.
  Hypothesis Hcat : Grand_proofs.catalogue_in_dom zc segsize k (ModelCreate.mc_cat_of (ModelCreate.b_coll b)).
  Hypothesis Hmeta : Grand_proofs.parts_meta_u64 (ModelCreate.b_wops b).
  Hypothesis Hfile : lenN (ModelCreate.b_file b) <= AgcV3.spec_max_off.

  Lemma decode_written : AgcV3.decode zd (ModelCreate.b_file b) = Ok arch.
  Proof.
    exact (proj1 (Grand_proofs.text_roundtrip_proof zc zd Hzd Hzc ecn k mml segsize level spl dec grp sched gops fti files arch
                    Hk Hmml Hm32 Hs32 Hssk Htext Hnames Hlens Hdec Hgrp Hsched Hcarry b Hb Hcat Hmeta Hfile)).
  Qed.

  Lemma create_pipe_is : create_pipe zc ecn k mml segsize level spl dec grp sched gops fti leftover files
                         = Cli.PipeFinalized (ModelCreate.b_file b).
  Proof.
    unfold create_pipe. rewrite cg_text_samples_eq, Htext. unfold ModelCreate.model_create. rewrite Hb. reflexivity.
  Qed.

  Variables (f : Cli.create_flags) (output tmp : Cli.str) (st st' : Cli.pstate).
  Hypothesis Hcreate :
    Cli.run_main (cli_decode zd) tmp
      (Cli.CmdCreate f output (create_pipe zc ecn k mml segsize level spl dec grp sched gops fti leftover files)) st
    = (Cli.Zero, st').

  Lemma on_disk : Cli.fs_read (Cli.p_fs st') output = Some (ModelCreate.b_file b) /\ Cli.p_stdout st' = Cli.p_stdout st.
  Proof.
    cbn [Cli.run_main] in Hcreate.
    destruct (Cli_proofs.create_zero_implies_archive_proof _ _ _ _ _ Hcreate) as (c1 & nt & cg & bs & _ & Epr & Hr & Hs).
    rewrite create_pipe_is in Epr. apply fin_inj in Epr. subst bs. split; assumption.
  Qed.

  Lemma creatable_same : forall p, Cli.creatable (Cli.p_fs st') p = Cli.creatable (Cli.p_fs st) p.
  Proof. intro p. cbn [Cli.run_main] in Hcreate. exact (create_creatable _ _ _ _ _ _ p Hcreate). Qed.

  Theorem cli_create_then_getset_proof : forall names,
    names <> [] -> Forall (fun n => In n (input_samples files)) names ->
    Cli.creatable (Cli.p_fs st) tmp = true -> tmp <> output ->
    exists st'', Cli.run_main (cli_decode zd) tmp (Cli.CmdGetset output names None None) st' = (Cli.Zero, st'') /\
      Cli.p_stdout st'' = Cli.p_stdout st ++ expected_getset files names /\
      Cli.fs_read (Cli.p_fs st'') tmp = None /\
      (forall q, q <> tmp -> Cli.fs_read (Cli.p_fs st'') q = Cli.fs_read (Cli.p_fs st') q).
  Proof.
    intros names Hne Hin Hc _. rewrite <- creatable_same in Hc. destruct on_disk as (Hd & Hs). rewrite <- Hs.
    exact (after_getset_stdout zd files arch _ HF Htext decode_written output tmp st' Hd names Hne Hin Hc).
  Qed.

  (* exit codes tell the truth about the request: Zero exactly when every requested name is a sample of the input *)
  Theorem cli_getset_zero_iff_proof : forall names, names <> [] -> Cli.creatable (Cli.p_fs st) tmp = true -> tmp <> output ->
    (fst (Cli.run_main (cli_decode zd) tmp (Cli.CmdGetset output names None None) st') = Cli.Zero <->
     Forall (fun n => In n (input_samples files)) names).
  Proof.
    intros names Hne Hc Hto. split.
    - intro Z. destruct (Cli.run_main (cli_decode zd) tmp (Cli.CmdGetset output names None None) st') as [e st''] eqn:E.
      cbn [fst] in Z. subst e. cbn [Cli.run_main] in E.
      destruct (Cli_proofs.getset_zero_complete_proof (cli_decode zd) output names None None tmp st' st'' E) as (ar & Ho & _ & Hkn & _).
      { discriminate. }
      destruct on_disk as (Hd & _).
      rewrite (opened zd arch _ decode_written output st' Hd) in Ho. injection Ho as <-.
      cbn [Cli.requested] in Hkn. rewrite <- (proj1 (view_of_text_proof files arch HF Htext)).
      apply Forall_forall. intros n Hn. rewrite Forall_forall in Hkn. specialize (Hkn n Hn).
      destruct (in_dec (list_eq_dec N.eq_dec) n (map fst arch)) as [I|I]; [exact I|]. exfalso. apply Hkn.
      exact (proj1 (proj2 (proj2 (proj2 (cli_decode_answers_proof zd _ arch decode_written))) n I)).
    - intro Hin. destruct (cli_create_then_getset_proof names Hne Hin Hc Hto) as (st'' & E & _). rewrite E. reflexivity.
  Qed.

  Theorem cli_create_then_getset_file_proof : forall names out,
    names <> [] -> Forall (fun n => In n (input_samples files)) names ->
    Cli.creatable (Cli.p_fs st) tmp = true -> Cli.creatable (Cli.p_fs st) out = true ->
    out <> tmp -> tmp <> output -> out <> output ->
    exists st'', Cli.run_main (cli_decode zd) tmp (Cli.CmdGetset output names None (Some out)) st' = (Cli.Zero, st'') /\
      Cli.fs_read (Cli.p_fs st'') out = Some (expected_getset files names) /\
      Cli.p_stdout st'' = Cli.p_stdout st /\
      Cli.fs_read (Cli.p_fs st'') tmp = None /\
      (forall q, q <> tmp -> q <> out -> Cli.fs_read (Cli.p_fs st'') q = Cli.fs_read (Cli.p_fs st') q).
  Proof.
    intros names out Hne Hin Hc Hco Hot _ _. rewrite <- creatable_same in Hc, Hco. destruct on_disk as (Hd & Hs). rewrite <- Hs.
    exact (after_getset_file zd files arch _ HF Htext decode_written output tmp st' Hd names out Hne Hin Hc Hco Hot).
  Qed.

  Theorem cli_listset_after_create_proof : forall o,
    (forall p, o = Some p -> Cli.creatable (Cli.p_fs st) p = true /\ p <> output) ->
    exists st'', Cli.run_main (cli_decode zd) tmp (Cli.CmdListset output o) st' = (Cli.Zero, st'') /\
      match o with
      | None => Cli.p_stdout st'' = Cli.p_stdout st ++ expected_listset files /\ Cli.p_fs st'' = Cli.p_fs st'
      | Some p => Cli.fs_read (Cli.p_fs st'') p = Some (expected_listset files) /\ Cli.p_stdout st'' = Cli.p_stdout st /\
                  (forall q, p <> q -> Cli.fs_read (Cli.p_fs st'') q = Cli.fs_read (Cli.p_fs st') q)
      end.
  Proof.
    intros o Ho. destruct on_disk as (Hd & Hs). rewrite <- Hs.
    apply (after_listset zd files arch _ HF Htext decode_written output tmp st' Hd o).
    intros p E. rewrite creatable_same. exact (proj1 (Ho p E)).
  Qed.

  Theorem cli_listctg_after_create_proof : forall names o,
    Forall (fun n => In n (input_samples files)) names ->
    (forall p, o = Some p -> Cli.creatable (Cli.p_fs st) p = true /\ p <> output) ->
    exists st'', Cli.run_main (cli_decode zd) tmp (Cli.CmdListctg output names o) st' = (Cli.Zero, st'') /\
      match o with
      | None => Cli.p_stdout st'' = Cli.p_stdout st ++ expected_listctg files names /\ Cli.p_fs st'' = Cli.p_fs st'
      | Some p => Cli.fs_read (Cli.p_fs st'') p = Some (expected_listctg files names) /\ Cli.p_stdout st'' = Cli.p_stdout st /\
                  (forall q, p <> q -> Cli.fs_read (Cli.p_fs st'') q = Cli.fs_read (Cli.p_fs st') q)
      end.
  Proof.
    intros names o Hin Ho. destruct on_disk as (Hd & Hs). rewrite <- Hs.
    apply (after_listctg zd files arch _ HF Htext decode_written output tmp st' Hd names o Hin).
    intros p E. rewrite creatable_same. exact (proj1 (Ho p E)).
  Qed.
End Grand.

(* ================================================================ 4. the fallible output file (C15) underneath *)
Lemma wrun_app_fst : forall l1 l2 w,
  fst (Container.wrun w (l1 ++ l2)) = fst (Container.wrun (fst (Container.wrun w l1)) l2).
Proof.
  induction l1 as [|o r IH]; intros l2 w; [reflexivity|].
  cbn [app]. rewrite !Sink_proofs.wrun_cons_fst. apply IH.
Qed.

Lemma wrun_flush : forall w, fst (Container.wrun w [Container.WFlush]) = fst (Container.flush_buffers w).
Proof. intro w. cbn [Container.wrun Container.wstep]. destruct (Container.flush_buffers w). reflexivity. Qed.

(* model_build's Archive history is [everything buffered] ++ [flush_buffers]; the complete archive of C15 for the
   buffered part is model_build's file *)
Lemma model_history_split : forall zc ecn k mml segsize level spl dec grp sched gops fti arch b,
  ModelCreate.model_build zc ecn k mml segsize level spl dec grp sched gops fti arch = Ok b ->
  ModelCreate.b_wops b = pre_finalize b ++ [Container.WFlush] /\
  Forall Sink.buffered_only (pre_finalize b) /\
  Sink.complete_file (pre_finalize b) = ModelCreate.b_file b.
Proof.
  intros zc ecn k mml segsize level spl dec grp sched gops fti arch b Hb.
  destruct (Grand_proofs.model_build_inv _ _ _ _ _ _ _ _ _ _ _ _ _ _ Hb) as (st & coll & stored & cw & a & _ & _ & _ & ->).
  unfold pre_finalize. cbn [ModelCreate.b_wops ModelCreate.b_file]. unfold ModelCreate.model_wops.
  set (A := map (fun e => Container.WRegister (fst e)) _). set (B := map ModelCreate.addbuf _).
  rewrite (app_assoc A B [Container.WFlush]). rewrite removelast_last. split; [reflexivity|]. split.
  - apply Forall_forall. intros o Ho. apply in_app_or in Ho. destruct Ho as [Ho|Ho].
    + apply in_map_iff in Ho. destruct Ho as (e & <- & _). exact I.
    + apply in_map_iff in Ho. destruct Ho as (x & <- & _). exact I.
  - unfold Sink.complete_file. rewrite (wrun_app_fst (A ++ B) [Container.WFlush]), wrun_flush. reflexivity.
Qed.

Section GrandIO.
  Variable zc : N -> list N -> list N.
  Variable zd : list N -> option (list N).
  Hypothesis Hzd : forall l x, zd (zc l x) = Some x.
  Hypothesis Hzc : forall l x, zc l x <> [].
  Variable ecn : Pipeline.name -> Pipeline.name.
  Variables (k mml segsize level : N).
  Variable spl : N -> bool.
  Variable dec : nat -> nat -> Pipeline.decision.
  Variable grp : nat -> nat -> N.
  Variable sched : list Pipeline.registration -> list Pipeline.registration.
  Variable gops : list GroupStore.op.
  Variable fti : Container.item.
  Variable leftover : option Cli.str.
  Variable files : list (list N * list N).
  Variable arch : list (list N * list (list N * list N)).
  Hypothesis Hk : 1 <= k <= 32.
  Hypothesis Hmml : 4 <= mml.
  Hypothesis Hm32 : mml < two32.
  Hypothesis Hs32 : segsize < two32.
  Hypothesis Hssk : segsize + k <= 2147483648.
  Hypothesis HF : all_first_line_ok files.
  Hypothesis Htext : Grand_proofs.text_samples files = Ok arch.
  Hypothesis Hnames : Forall (fun s => fst s <> []) arch.
  Hypothesis Hlens : forall s c data, In (s, c, data) (Pipeline.pushes_of arch) -> 2 * lenN data + mml < 2147483648.
  Hypothesis Hdec : Pipeline_proofs.decisions_ok k spl segsize dec (Pipeline.pushes_of arch).
  Hypothesis Hgrp : forall i part, grp i part < two32.
  Hypothesis Hsched : forall l, Permutation l (sched l).
  Hypothesis Hcarry : Compose_proofs.ops_carry (Compose_proofs.all_emit k spl segsize dec grp 0 (Pipeline.pushes_of arch)) gops.
  Variable b : ModelCreate.built.
  Hypothesis Hb : ModelCreate.model_build zc ecn k mml segsize level spl dec grp sched gops fti arch = Ok b.
  Hypothesis Hcat : Grand_proofs.catalogue_in_dom zc segsize k (ModelCreate.mc_cat_of (ModelCreate.b_coll b)).
  Hypothesis Hmeta : Grand_proofs.parts_meta_u64 (ModelCreate.b_wops b).
  Hypothesis Hfile : lenN (ModelCreate.b_file b) <= AgcV3.spec_max_off.

  Let pipe := create_pipe zc ecn k mml segsize level spl dec grp sched gops fti leftover files.
  Let pipe_io pol cap := create_pipe_io zc ecn k mml segsize level spl dec grp sched gops fti leftover pol cap files.

  Lemma pipe_io_cases : forall pol cap,
    let r := Sink.main_io Sink.code_sites (Sink.pipeline_state pol cap (pre_finalize b)) in
    (snd r = Sink.ExitZero /\ pipe_io pol cap = Cli.PipeFinalized (ModelCreate.b_file b)) \/
    (snd r = Sink.ExitNonZero /\ pipe_io pol cap = Cli.PipeFail (Some (Sink.ar_file (fst r)))).
  Proof.
    intros pol cap r. unfold pipe_io, create_pipe_io. rewrite cg_text_samples_eq, Htext, Hb. cbv zeta. fold r.
    destruct (model_history_split _ _ _ _ _ _ _ _ _ _ _ _ _ _ Hb) as (_ & Fb & Cf).
    destruct (snd r) eqn:E; [left|right]; (split; [reflexivity|]); [|reflexivity].
    f_equal. rewrite <- Cf.
    exact (Sink_proofs.no_success_with_truncated_file_proof pol cap (pre_finalize b) Fb E).
  Qed.

  (* exit 0 over ANY file-system behaviour: the bytes on disk are model_build's file *)
  Theorem create_io_zero_proof : forall pol cap f output tmp st st',
    Cli.run_main (cli_decode zd) tmp (Cli.CmdCreate f output (pipe_io pol cap)) st = (Cli.Zero, st') ->
    pipe_io pol cap = pipe /\ pipe = Cli.PipeFinalized (ModelCreate.b_file b) /\
    Cli.fs_read (Cli.p_fs st') output = Some (ModelCreate.b_file b) /\ Cli.p_stdout st' = Cli.p_stdout st /\
    AgcV3.decode zd (ModelCreate.b_file b) = Ok arch.
  Proof.
    intros pol cap f output tmp st st' H. cbn [Cli.run_main] in H.
    destruct (Cli_proofs.create_zero_implies_archive_proof _ _ _ _ _ H) as (c1 & nt & cg & bs & _ & Epr & Hr & Hs).
    assert (Ep : pipe = Cli.PipeFinalized (ModelCreate.b_file b)).
    { exact (create_pipe_is zc ecn k mml segsize level spl dec grp sched gops fti leftover files arch Htext b Hb). }
    destruct (pipe_io_cases pol cap) as [[_ E]|[_ E]]; rewrite E in Epr; [|discriminate].
    apply fin_inj in Epr. subst bs. rewrite E, Ep. repeat split; try assumption.
    exact (decode_written zc zd Hzd Hzc ecn k mml segsize level spl dec grp sched gops fti files arch
             Hk Hmml Hm32 Hs32 Hssk Htext Hnames Hlens Hdec Hgrp Hsched Hcarry b Hb Hcat Hmeta Hfile).
  Qed.

  (* a file-size limit / full disk below the archive size: create exits non-zero, what is left is within the limit *)
  Theorem create_io_fault_proof : forall partial limit cap f output tmp st,
    limit < lenN (ModelCreate.b_file b) ->
    exists st', Cli.run_main (cli_decode zd) tmp (Cli.CmdCreate f output (pipe_io (Sink.limit_policy partial limit) cap)) st
                = (Cli.NonZero, st') /\
      Cli.p_stdout st' = Cli.p_stdout st /\
      (forall q, q <> output -> Cli.fs_read (Cli.p_fs st') q = Cli.fs_read (Cli.p_fs st) q) /\
      ((forall c nt cg, Cli.create_dispatch f <> Cli.DProceed c nt cg) -> st' = st) /\
      (forall c nt cg, Cli.create_dispatch f = Cli.DProceed c nt cg ->
         exists left, Cli.fs_read (Cli.p_fs st') output = Some left /\ lenN left <= limit).
  Proof.
    intros partial limit cap f output tmp st Lt. cbn [Cli.run_main].
    destruct (model_history_split _ _ _ _ _ _ _ _ _ _ _ _ _ _ Hb) as (_ & Fb & Cf). rewrite <- Cf in Lt.
    pose proof (proj2 (Sink_proofs.write_fault_reported_proof partial limit cap (pre_finalize b) Fb Lt)) as Ex.
    pose proof (Sink_proofs.fault_file_within_limit_proof partial limit cap (pre_finalize b) Fb) as Wl. cbv zeta in Ex, Wl.
    destruct (pipe_io_cases (Sink.limit_policy partial limit) cap) as [[Z _]|[_ E]].
    { exfalso. unfold Sink.pipeline_state in Z. change Sink.code_sites with Sink.all_true in Z. rewrite Ex in Z. discriminate. }
    rewrite E. unfold Cli.create_archive. destruct (Cli.create_dispatch f) as [e|c nt cg] eqn:D.
    - exists st. split; [reflexivity|]. split; [reflexivity|]. split; [reflexivity|]. split; [reflexivity|].
      intros c nt cg X. discriminate.
    - eexists. split; [reflexivity|]. cbn [Cli.with_fs Cli.p_fs Cli.p_stdout]. split; [reflexivity|]. split.
      + intros q Hq. apply Cli_proofs.fs_read_set_other. intro X. apply Hq. symmetry. exact X.
      + split; [intro X; exfalso; exact (X c nt cg eq_refl)|].
        intros c' nt' cg' _. eexists. split; [apply Cli_proofs.fs_read_set_same|]. exact Wl.
  Qed.
  Theorem cli_create_fault_or_roundtrip_proof : forall cap f output tmp st,
    (forall pol st',
       Cli.run_main (cli_decode zd) tmp (Cli.CmdCreate f output (pipe_io pol cap)) st = (Cli.Zero, st') ->
       pipe_io pol cap = pipe /\
       Cli.fs_read (Cli.p_fs st') output = Some (ModelCreate.b_file b) /\ Cli.p_stdout st' = Cli.p_stdout st /\
       AgcV3.decode zd (ModelCreate.b_file b) = Ok arch) /\
    (forall partial limit, limit < lenN (ModelCreate.b_file b) ->
       exists st', Cli.run_main (cli_decode zd) tmp (Cli.CmdCreate f output (pipe_io (Sink.limit_policy partial limit) cap)) st
                   = (Cli.NonZero, st') /\
         Cli.p_stdout st' = Cli.p_stdout st /\
         (forall q, q <> output -> Cli.fs_read (Cli.p_fs st') q = Cli.fs_read (Cli.p_fs st) q) /\
         ((forall c nt cg, Cli.create_dispatch f <> Cli.DProceed c nt cg) -> st' = st) /\
         (forall c nt cg, Cli.create_dispatch f = Cli.DProceed c nt cg ->
            exists left, Cli.fs_read (Cli.p_fs st') output = Some left /\ lenN left <= limit)).
  Proof.
    intros cap f output tmp st. split.
    - intros pol st' H. destruct (create_io_zero_proof pol cap f output tmp st st' H) as (A & _ & B & C & D). auto.
    - intros partial limit Lt. exact (create_io_fault_proof partial limit cap f output tmp st Lt).
  Qed.

  (* so the reading theorems hold for what is actually on disk *)
  Theorem cli_create_io_then_getset_proof : forall pol cap f output tmp st st' names,
    Cli.run_main (cli_decode zd) tmp (Cli.CmdCreate f output (pipe_io pol cap)) st = (Cli.Zero, st') ->
    names <> [] -> Forall (fun n => In n (input_samples files)) names ->
    Cli.creatable (Cli.p_fs st) tmp = true -> tmp <> output ->
    exists st'', Cli.run_main (cli_decode zd) tmp (Cli.CmdGetset output names None None) st' = (Cli.Zero, st'') /\
      Cli.p_stdout st'' = Cli.p_stdout st ++ expected_getset files names /\
      Cli.fs_read (Cli.p_fs st'') tmp = None /\
      (forall q, q <> tmp -> Cli.fs_read (Cli.p_fs st'') q = Cli.fs_read (Cli.p_fs st') q).
  Proof.
    intros pol cap f output tmp st st' names H Hne Hin Hc Hto.
    destruct (create_io_zero_proof pol cap f output tmp st st' H) as (A & _). rewrite A in H.
    exact (cli_create_then_getset_proof zc zd Hzd Hzc ecn k mml segsize level spl dec grp sched gops fti leftover files arch
             Hk Hmml Hm32 Hs32 Hssk HF Htext Hnames Hlens Hdec Hgrp Hsched Hcarry b Hb Hcat Hmeta Hfile
             f output tmp st st' H names Hne Hin Hc Hto).
  Qed.
End GrandIO.
