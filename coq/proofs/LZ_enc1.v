(* LZ_enc1.v - pieces of the encoder: N runs, tail literals, the bang rewriting scan *)
From Coq Require Import Lia ZifyBool ZifyN ZifyNat.
From Ragc Require Import LZ_base LZ_int LZ_dec LZ_match.

Definition lits (l : list N) : list N := map (fun c => lit_base + c) l.
Definition small (b : N) : Prop := b < 128.

Lemma lits_app a b : lits (a ++ b) = lits a ++ lits b.
Proof. apply map_app. Qed.
Lemma lits_rev a : lits (rev a) = rev (lits a).
Proof. apply map_rev. Qed.
Lemma lenN_lits a : lenN (lits a) = lenN a.
Proof. apply lenN_map. Qed.
Lemma lits_small l : Forall sym_ok l -> Forall small (lits l).
Proof.
  induction 1; cbn; constructor; auto. apply sym_ok_le in H. unfold small. consts. lia.
Qed.

(* ---------------- N runs *)
Lemma firstnN_repeat_succ n : repeat n_code (N.to_nat (n + 1)) = n_code :: repeat n_code (N.to_nat n).
Proof. replace (N.to_nat (n + 1)) with (S (N.to_nat n)) by lia. reflexivity. Qed.

Lemma nrun_ext_spec rest : forall len m,
  let r := nrun_ext rest len m in
  len <= r /\ r - len <= lenN rest /\ firstnN (r - len) rest = repeat n_code (N.to_nat (r - len)).
Proof.
  induction rest as [|c rest IH]; intros len m; cbn [nrun_ext].
  - replace (len - len) with 0 by lia. cbn. repeat split; lia.
  - destruct ((len <? m) && (c =? n_code)) eqn:E.
    + destruct (IH (len + 1) m) as (A1 & A2 & A3). set (r := nrun_ext rest (len + 1) m) in *.
      rewrite lenN_cons. repeat split; try lia.
      replace (r - len) with (r - (len + 1) + 1) by lia.
      rewrite firstnN_cons, firstnN_repeat_succ, A3. f_equal. lia.
    + replace (len - len) with 0 by lia. repeat split; try lia.
Qed.

Lemma get_nrun_len_spec suf m : lenN suf < 4294967296 ->
  let r := get_nrun_len suf m in
  r <= lenN suf /\ (1 <= r -> firstnN r suf = repeat n_code (N.to_nat r)).
Proof.
  intros Hs. unfold get_nrun_len.
  destruct suf as [|a [|b [|c rest]]]; try (cbn; split; [lia|intros; lia]).
  destruct ((a =? n_code) && (b =? n_code) && (c =? n_code)) eqn:E; [|split; [lia|intros; lia]].
  destruct (nrun_ext_spec rest 3 m) as (A1 & A2 & A3). set (r := nrun_ext rest 3 m) in *.
  rewrite !lenN_cons in *. rewrite wrap32_small by lia. split; [lia|]. intros _.
  assert (a = n_code /\ b = n_code /\ c = n_code) as (-> & -> & ->) by lia.
  replace r with (r - 3 + 1 + 1 + 1) at 1 by lia. rewrite !firstnN_cons, A3.
  replace (N.to_nat r) with (S (S (S (N.to_nat (r - 3))))) by lia. reflexivity.
Qed.

Lemma ser_nrun_ok n : min_nrun_len <= n ->
  exists b, ser_nrun n = Ok b /\ Forall small b /\
    exists b', rev b = n_code :: b'.
Proof.
  intros H. unfold ser_nrun, sub_u32. destruct (min_nrun_len <=? n) eqn:E; [|lia].
  eexists. split; [reflexivity|]. split.
  - constructor. { unfold small. consts. lia. }
    apply Forall_app. split.
    + eapply Forall_impl; [|apply append_int_bytes]. unfold int_byte, is_digit, small. consts. lia.
    + constructor; auto. unfold small. consts. lia.
  - cbn [rev]. rewrite rev_app_distr. cbn [rev app]. eauto.
Qed.

(* ---------------- literals *)
Lemma emit_literal_ok c renc : sym_ok c -> emit_literal c renc = Ok ((lit_base + c) :: renc).
Proof.
  intros H. apply sym_ok_le in H. unfold emit_literal, ser_literal.
  destruct (lit_base + c <? 256) eqn:E; [|revert E; consts; lia]. reflexivity.
Qed.

Lemma enc_tail_ok suf : forall renc, Forall sym_ok suf ->
  enc_tail suf renc = Ok (rev (lits suf) ++ renc).
Proof.
  induction suf as [|c s IH]; intros renc H; cbn [enc_tail]. { reflexivity. }
  inversion H; subst. rewrite emit_literal_ok by auto. cbn [obnd]. rewrite IH by auto.
  cbn [lits map rev]. rewrite <- app_assoc. reflexivity.
Qed.

Section Lits.
  Variable st : lzst.

  Lemma DecTo_lits l : forall enc out pp, DecTo st enc out pp -> Forall sym_ok l ->
    DecTo st (enc ++ lits l) (out ++ l) (pp + lenN l).
  Proof.
    induction l as [|c l IH]; intros enc out pp H Hs.
    - cbn. rewrite !app_nil_r, N.add_0_r. exact H.
    - inversion Hs; subst. cbn [lits map]. rewrite lenN_cons.
      replace (enc ++ (lit_base + c) :: map (fun c => lit_base + c) l)
        with ((enc ++ [lit_base + c]) ++ lits l) by (rewrite <- app_assoc; reflexivity).
      replace (out ++ c :: l) with ((out ++ [c]) ++ l) by (rewrite <- app_assoc; reflexivity).
      replace (pp + (lenN l + 1)) with (pp + 1 + lenN l) by lia.
      apply IH; auto. apply DecTo_lit; auto.
  Qed.

  (* ---------------- bang scan *)
  Variable amp : N.

  Fixpoint RVar (s : N) (RL rbs : list N) : Prop :=
    match RL, rbs with
    | [], [] => True
    | c :: RL', b :: rbs' =>
      (b = lit_base + c \/ (b = bang_byte /\ nthN (refp st) (amp - s) = Some c)) /\ RVar (s + 1) RL' rbs'
    | _, _ => False
    end.

  Lemma RVar_refl RL : forall s, RVar s RL (lits RL).
  Proof. induction RL; intros; cbn; auto. Qed.

  Lemma RVar_small RL : forall s rbs, RVar s RL rbs -> Forall sym_ok RL -> Forall small rbs.
  Proof.
    induction RL as [|c RL IH]; intros s rbs H Hs; destruct rbs; cbn in H; try tauto. { constructor. }
    inversion Hs as [|? ? Hc Hr]; subst. destruct H as (Hb & Hv). constructor; eauto.
    apply sym_ok_le in Hc. unfold small. destruct Hb as [->|(-> & _)]; consts; lia.
  Qed.

  Definition stop_head (renc0 : list N) : Prop :=
    match renc0 with [] => True | b :: _ => (b <? scan_lo) || (scan_hi <? b) = true end.

  Lemma bang_scan_spec renc0 : stop_head renc0 -> amp <= lenN (refp st) ->
    forall n s RL, Forall sym_ok RL -> 1 <= s -> (n = O \/ s + N.of_nat n <= amp) ->
    exists rbs, bang_scan (refp st) n s amp (lits RL ++ renc0) = Ok (rbs ++ renc0) /\ RVar s RL rbs.
  Proof.
    intros Hstop Hamp. induction n; intros s RL Hs H1 Hn; cbn [bang_scan].
    { exists (lits RL). split; auto. apply RVar_refl. }
    destruct Hn as [Hn|Hn]; [discriminate|].
    destruct RL as [|c RL].
    - exists []. cbn [lits map app]. split; [|exact I]. destruct renc0 as [|b r0]; auto.
      cbn [stop_head] in Hstop. now rewrite Hstop.
    - cbn [lits map app]. inversion Hs; subst.
      destruct ((lit_base + c <? scan_lo) || (scan_hi <? lit_base + c)) eqn:E.
      { exists (lits (c :: RL)). split; auto. apply RVar_refl. }
      destruct (nthN_lt (refp st) (amp - s)) as (rb & Erb); [lia|]. rewrite Erb.
      destruct (IHn (s + 1) RL H3 ltac:(lia) ltac:(lia)) as (rbs & Eb & Hv).
      fold (lits RL). rewrite Eb.
      exists ((if lit_base + c - scan_base =? rb then scan_bang else lit_base + c) :: rbs).
      split; [reflexivity|]. cbn [RVar]. split; auto.
      destruct (lit_base + c - scan_base =? rb) eqn:E2; auto.
      right. split; [reflexivity|]. rewrite Erb. f_equal. revert E2. consts. lia.
  Qed.

  Lemma DecTo_RVar RL : forall s rbs enc out pp0,
    DecTo st enc out pp0 -> RVar s RL rbs -> Forall sym_ok RL -> amp + 1 = pp0 + lenN RL + s ->
    DecTo st (enc ++ rev rbs) (out ++ rev RL) (pp0 + lenN RL).
  Proof.
    induction RL as [|c RL IH]; intros s rbs enc out pp0 H Hv Hs Ha; destruct rbs as [|b rbs]; cbn in Hv; try tauto.
    - cbn. rewrite !app_nil_r, N.add_0_r. exact H.
    - inversion Hs; subst. destruct Hv as (Hb & Hv). rewrite lenN_cons in *.
      cbn [rev]. rewrite !app_assoc. replace (pp0 + (lenN RL + 1)) with (pp0 + lenN RL + 1) by lia.
      assert (D := IH (s + 1) rbs enc out pp0 H Hv H3 ltac:(lia)).
      destruct Hb as [->|(-> & Hn)].
      + apply DecTo_lit; auto.
      + apply DecTo_bang; auto. replace (pp0 + lenN RL) with (amp - s) by lia. exact Hn.
  Qed.
End Lits.
