(* extraction for the C09 correspondence driver: ExtrOcamlBasic only *)
From Coq Require Import ExtrOcamlBasic.
From Ragc Require Import Mach MurMur LZ.
Extraction Language OCaml.
Extraction "model.ml" keep_types murmur64 lz_new lz_prepare lz_encode lz_decode encode decode_full decode_plain sym_okb cost_vector estimate.
