(* extraction for the C06 correspondence driver: ExtrOcamlBasic only *)
From Coq Require Import ExtrOcamlBasic.
From Ragc Require Import Mach Queue.
Extraction Language OCaml.
Extraction "model.ml" keep_types init step run replay_step replay quiescent prio_of_seq size_of_seq
  items cur closed nseq wfull kfull wempty kempty accepted returned.
