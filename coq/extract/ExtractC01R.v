(* extraction for the C01R correspondence driver: ExtrOcamlBasic only *)
From Coq Require Import ExtrOcamlBasic.
From Ragc Require Import Mach Kmer Segment Registry.
Extraction Language OCaml.
Extraction "model.ml" keep_types split_at_splitters_with_size set_of_list
  sdata sfront sback sfdir sbdir
  reg_init run_rounds round classify_key key_of_gid ops_of_round
  r_map r_gc r_rgc r_vlen r_bufs r_streams b_gid b_sid b_rsid
  p_sample p_name p_part p_rc MISS.
