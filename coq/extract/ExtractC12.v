(* extraction for the C12 correspondence driver: ExtrOcamlBasic only *)
From Coq Require Import ExtrOcamlBasic.
From Ragc Require Import Mach Consts_tuple Tuple SegCompress.
Extraction Language OCaml.
Extraction "model.ml" keep_types bytes_to_tuples_opt bytes_to_tuples tuples_to_bytes
  check_repetitiveness frac_lt_thr compress_reference_segment compress_segment compress_segment_configured
  compress_segment_plain decompress_segment_with_marker decompress_segment
  store_ref_part store_pack_part load_part
  sc_delta_level sc_ref_tuples_level sc_ref_plain_level.
