(* extraction for the C04 correspondence driver: ExtrOcamlBasic only *)
From Coq Require Import ExtrOcamlBasic.
From Ragc Require Import Mach Determinism.
Extraction Language OCaml.
Extraction "model.ml" keep_types current_rule mk_prule singlefile_script multifile_script init step run completeb
  s_q s_prod s_closed s_wk s_rounds t_tok t_key t_data t_prio t_cost t_seq t_round task_cmp is_maxb
  expected_round tasks_of bt_push_all bt_flatten remove_at qbytes admits.
