(* extraction for the C10 correspondence driver: ExtrOcamlBasic only *)
From Coq Require Import ExtrOcamlBasic.
From Ragc Require Import Mach Kmer Segment.
Extraction Language OCaml.
Extraction "model.ml" keep_types split_at_splitters_with_size split_at_splitters set_of_list
  sdata sfront sback sfdir sbdir.
