(* extraction for the C14O correspondence driver: ExtrOcamlBasic only.
   zstd is the argument [zd] of open2 (a lookup table in the driver). *)
From Coq Require Import ExtrOcamlBasic.
From Ragc Require Import Mach Varint Container Collection OpenStage.
Extraction Language OCaml.
Extraction "model.ml" keep_types open2 decompressor_open h_samples deserialize lenN.
