(* extraction for the C13 correspondence driver: ExtrOcamlBasic only *)
From Coq Require Import ExtrOcamlBasic.
From Ragc Require Import Mach Varint Container.
Extraction Language OCaml.
Extraction "model.ml" keep_types write_varint read_varint write_fixed_u64 read_fixed_u64
  w_init wrun close deserialize directory get_stream_id rstep.
