(* extraction for the C19 correspondence driver: ExtrOcamlBasic only *)
From Coq Require Import ExtrOcamlBasic.
From Ragc Require Import Mach Fasta.
Extraction Language OCaml.
Extraction "model.ml" keep_types parse pushed write_contig out_letters sample_name_of_file is_gz_name
  contig_stream stream_multi stream_single create_view render mask_upper mask_lower mask_mixed records norm.
