(* extraction for the C15 correspondence driver: ExtrOcamlBasic only *)
From Coq Require Import ExtrOcamlBasic.
From Ragc Require Import Mach Varint Container Consts_sink Sink.
Extraction Language OCaml.
Extraction "model.ml" keep_types ar_bufwriter_cap code_sites all_true site_off pipeline_buffers_everything
  limit_policy oneshot_policy sink_new sink_bytes sink_set_policy bw_new bw_write_all bw_flush bw_flush_buf
  hist_run cli_run complete_file.
