(* extraction for the C02B (whole-archive spec decoder) correspondence driver: ExtrOcamlBasic only.
   zstd is the argument [zd] of decode / decode_strict (a lookup table in the driver). *)
From Coq Require Import ExtrOcamlBasic.
From Ragc Require Import Mach AgcV3.
Extraction Language OCaml.
Extraction "model.ml" keep_types decode decode_strict strict_check stream_ref_name stream_delta_name.
