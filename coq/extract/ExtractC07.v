(* extraction for the C07 correspondence driver: ExtrOcamlBasic only *)
From Coq Require Import ExtrOcamlBasic.
From Ragc Require Import Mach Range.
Extraction Language OCaml.
Extraction "model.ml" keep_types reconstruct_contig get_contig_length get_contig_range wfb
  rs_raw rs_rc rs_data.
