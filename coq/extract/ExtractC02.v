(* extraction for the C02 (group store / segment addressing) correspondence driver: ExtrOcamlBasic only.
   LZ decoding in the reader check uses the C09 model (model/LZ.v: lz_new, lz_prepare, lz_decode). *)
From Coq Require Import ExtrOcamlBasic.
From Ragc Require Import Mach MurMur LZ SegReader GroupStore.
Extraction Language OCaml.
Extraction "model.ml" keep_types lz_new lz_prepare lz_decode
  get_segment load_part load_reference unpack_contig unpack_2bit
  gstate_new gprocess gstep finalize_group desc_of sort_segs
  g_buf g_ref g_delta g_regs d_group d_id d_rc d_len s_sample s_contig s_part s_data s_rc gv_ref gv_delta.
