(* extraction for the C20 correspondence driver: ExtrOcamlBasic only *)
From Coq Require Import ExtrOcamlBasic.
From Ragc Require Import Mach Kmer.
Extraction Language OCaml.
Extraction "model.ml" keep_types kmer_new insert_canonical is_full data_canonical is_dir_oriented
  kdir krc kcur reverse_complement_kmer canonical_kmer enumerate_kmers.
