(* extraction for the C17 correspondence driver: ExtrOcamlBasic only *)
From Coq Require Import ExtrOcamlBasic.
From Ragc Require Import Mach Cli.
Extraction Language OCaml.
Extraction "model.ml" keep_types run_main create_dispatch banner_capacity parse_capacity fs_read
  p_fs p_stdout files nocreate sample_fasta list_samples.
