(* extraction for the C03 correspondence driver: ExtrOcamlBasic only *)
From Coq Require Import ExtrOcamlBasic.
From Ragc Require Import Mach CVarint Zigzag Names Details Collection.
Extraction Language OCaml.
Extraction "model.ml" keep_types cv_encode cv_decode cv_decode_n utf8_valid utf8_lossy
  zigzag_encode zigzag_decode zigzag_encode_i64 zigzag_decode_i64
  split_sp encode_split ser_names deser_names ser_sample_names deser_sample_names
  ser_details deser_details seg_empty
  coll_new register_sample_contig add_segment_placed get_samples_list get_contig_list get_sample_desc
  serialize_sample_names serialize_contig_names serialize_contig_details
  deserialize_sample_names deserialize_contig_names deserialize_contig_details
  store_all load_all load_batch_sample_names load_contig_batch arch_empty.
