(* extraction for the C05 correspondence driver: ExtrOcamlBasic only *)
From Coq Require Import ExtrOcamlBasic.
From Ragc Require Import Mach Protocol.
Extraction Language OCaml.
Extraction "model.ml" keep_types init step run stutter finalb enabledb stuckb tids canon_label compile_calls
  todo_of nblocks contig_sizes flush_prio
  items cur closed nseq pst todo ws bcount bgen claimable ground pushed segd rawbuf rounds pc wrounds
  iseq itask tprio tcost tord tsize ttok nthr cap old_rule.
