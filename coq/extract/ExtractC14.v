(* extraction for the C14 correspondence driver: ExtrOcamlBasic only *)
From Coq Require Import ExtrOcamlBasic.
From Ragc Require Import Mach Varint Container.
Extraction Language OCaml.
Extraction "model.ml" keep_types deserialize directory firstnN lenN.
