(* extraction for the C01 (contig level) correspondence driver: ExtrOcamlBasic only *)
From Coq Require Import ExtrOcamlBasic.
From Ragc Require Import Mach Kmer Segment Pipeline.
From Ragc Require Import Consts_pipeline.
Extraction Language OCaml.
Extraction "model.ml" keep_types split_at_splitters_with_size sdata sfront sback
  both_kmers should_reverse decision_okb half_ceil seg_pieces contig_pieces
  register_all create extract_all desc_eqb empty_desc pushes_of reverse_complement_segment.
