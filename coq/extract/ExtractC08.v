(* extraction for the C08 correspondence driver: ExtrOcamlBasic only *)
From Coq Require Import ExtrOcamlBasic.
From Ragc Require Import Mach ReaderState.
Extraction Language OCaml.
Extraction "model.ml" keep_types fresh step run ask_after answer sys_run ref_via_segment ref_via_query get_part
  catalogue name_eqb.
