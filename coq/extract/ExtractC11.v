(* extraction for the C11 correspondence driver: ExtrOcamlBasic only *)
From Coq Require Import ExtrOcamlBasic.
From Ragc Require Import Mach Kmer Segment Splitters.
Extraction Language OCaml.
Extraction "model.ml" keep_types determine_splitters find_candidate_kmers_multi find_candidate_kmers
  remove_non_singletons_with_duplicates is_splitter
  split_at_splitters_with_size set_of_list sdata.
