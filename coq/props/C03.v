(* C03 - Sample and contig catalogue is preserved exactly: listing returns the samples in first-added order and
   each sample's contig names verbatim in input order, for any number of samples (several 50-sample metadata
   batches) and any ASCII names; every segment descriptor table written is read back unchanged.
   Models: CVarint, Zigzag, Names, Details, Collection (transcriptions of ragc-common/src/collection.rs). *)
From Ragc Require Import Mach Consts_collection CVarint Zigzag Names Details Collection.
From Ragc Require Import CVarint_proofs Zigzag_proofs Names_proofs Details_proofs Collection_proofs.
From Coq Require FinFun.
Open Scope N_scope.

(* ---- CollectionVarInt: every u32, whatever follows it in the stream *)
Theorem cvarint_roundtrip :
  forall n rest, n < 4294967296 -> cv_decode (cv_encode n ++ rest) = Ok (n, rest).
Proof. exact CVarint_proofs.cvarint_roundtrip_proof. Qed.
Print Assumptions cvarint_roundtrip.
Example cvarint_nonvacuous :
  cv_encode 270549121 = [240; 0; 0; 0; 1] /\ cv_decode (cv_encode 270549121 ++ [7]) = Ok (270549121, [7]) /\
  cv_encode 4294967295 = [240; 239; 223; 191; 127].
Proof. vm_compute. repeat split. Qed.
(* outside the encoder's image the 5-byte payload + THR_4 leaves u32: rejected with an error (checked_add) *)
Example cvarint_decode_overflow : cv_decode [240; 255; 255; 255; 255] = Err.
Proof. vm_compute. reflexivity. Qed.

(* ---- zigzag with prediction: exact domain of the u64 arithmetic is x, p < 2^63 *)
Theorem zigzag_roundtrip :
  forall x p, x < 9223372036854775808 -> p < 9223372036854775808 ->
  exists v, zigzag_encode x p = Ok v /\ zigzag_decode v p = Ok x.
Proof. exact Zigzag_proofs.zigzag_roundtrip_proof. Qed.
Print Assumptions zigzag_roundtrip.
Example zigzag_nonvacuous :
  zigzag_encode 5 3 = Ok 4 /\ zigzag_decode 4 3 = Ok 5 /\ zigzag_encode 0 16 = Ok 31 /\ zigzag_decode 31 16 = Ok 0.
Proof. vm_compute. repeat split. Qed.
(* the bound is needed: at p = 2^63 the product 2 * x_prev leaves u64 *)
Example zigzag_bound_tight : zigzag_encode 9223372036854775808 9223372036854775808 = Panic.
Proof. vm_compute. reflexivity. Qed.

Theorem zigzag_i64_roundtrip :
  forall x : Z, (-4611686018427387904 < x < 4611686018427387904)%Z ->
  exists v, zigzag_encode_i64 x = Ok v /\ zigzag_decode_i64 v = Ok x.
Proof. exact Zigzag_proofs.zigzag_i64_roundtrip_proof. Qed.
Print Assumptions zigzag_i64_roundtrip.
Example zigzag_i64_nonvacuous : zigzag_encode_i64 (-3) = Ok 5 /\ zigzag_decode_i64 5 = Ok (-3)%Z.
Proof. vm_compute. split; reflexivity. Qed.

(* ---- one space-separated field against ANY previous field (equal, other length, same length with runs) *)
Theorem field_roundtrip :
  forall p c, Forall (fun b => 1 <= b < 128 /\ b <> 32) c -> dec_field p (enc_field p c) = Ok c.
Proof. exact Names_proofs.field_roundtrip_proof. Qed.
Print Assumptions field_roundtrip.
Example field_nonvacuous :     (* a run of 205 equal bytes is cut into 100 + 100 + 5 *)
  enc_field (repeat 65 205 ++ [67]) (repeat 65 205 ++ [71]) = [156; 156; 251; 71].
Proof. vm_compute. reflexivity. Qed.

(* ---- the contig-name stream of a batch: every table of names over bytes 1..127 (the exact side condition:
   no NUL, no byte >= 128; spaces, tabs, empty fields, any length are fine); avail = samples present from i_sample *)
Theorem names_roundtrip :
  forall (batch : list (list (list N))) (avail : N),
  Forall (fun names => Forall (fun n => Forall (fun b => 1 <= b < 128) n) names /\ lenN names < 4294967296) batch ->
  lenN batch < 4294967296 -> lenN batch <= avail ->
  deser_names avail (ser_names batch) = Ok (lenN batch, batch).
Proof. exact Names_proofs.names_roundtrip_proof. Qed.
Print Assumptions names_roundtrip.
Definition ex_names : list (list (list N)) :=
  [ [ [99;104;114;49;32;97;98];            (* "chr1 ab"  *)
      [99;104;114;50;32;97;98];            (* "chr2 ab"  : same-length field, equal field *)
      [99;104;114;49;48;32;32;97;98];      (* "chr10  ab": other field count => plain *)
      [32;9;32];                           (* " \t "     : empty fields, tab *)
      repeat 65 230 ++ [32; 120];          (* run > 100 *)
      repeat 65 229 ++ [67; 32; 121] ];
    [];
    [ [120] ] ].
Example names_nonvacuous : deser_names 3 (ser_names ex_names) = Ok (3, ex_names).
Proof. vm_compute. reflexivity. Qed.
(* the side condition is needed: a valid UTF-8 name with a byte >= 128 in a delta-coded field, and a NUL *)
Example names_nonascii_counterexample :
  deser_names 1 (ser_names [[ [120; 32; 195; 169]; [121; 32; 195; 169; 195; 169] ]]) = Panic.
Proof. vm_compute. reflexivity. Qed.
Example names_nul_counterexample :
  deser_names 1 (ser_names [[ [97; 0; 98]; [99] ]]) = Ok (1, [[ [97]; [98] ]]).
Proof. vm_compute. reflexivity. Qed.

Theorem sample_names_roundtrip :
  forall names : list (list N),
  Forall (fun n => Forall (fun b => 1 <= b < 128) n) names -> lenN names < 4294967296 ->
  deser_sample_names (ser_sample_names names) = Ok names.
Proof. exact Names_proofs.sample_names_roundtrip_proof. Qed.
Print Assumptions sample_names_roundtrip.

(* ---- the 5-stream descriptor table: group id < 2^32-1, in-group id < 2^31-1, length < 2^32, or the hole filler
   SegmentDesc::empty(); segment_size + kmer_length <= 2^31.  (Encoder and decoder predictor tables coincide
   after every segment: Details_proofs.seg_roundtrip returns the same table for both.) *)
Theorem details_roundtrip :
  forall (segment_size kmer_length : N) (batch : list (list (list seg))),
  segment_size + kmer_length <= 2147483648 ->
  lenN batch < 4294967296 ->
  Forall (fun s => Forall (fun c => Forall (fun x =>
            (sg x < 4294967295 /\ si x < 2147483647 /\ sl x < 4294967296) \/ x = seg_empty) c
            /\ lenN c < 4294967296) s /\ lenN s < 4294967296) batch ->
  exists v, ser_details segment_size kmer_length batch = Ok v /\
            deser_details segment_size kmer_length v = Ok batch.
Proof. exact Details_proofs.details_roundtrip_proof. Qed.
Print Assumptions details_roundtrip.
Definition ex_ids : list (list (list seg)) :=      (* in-group ids 0,5,2,2,0,7 in one group, then a hole *)
  [ [ [ mkSeg 1 0 false 60031; mkSeg 1 5 false 60031; mkSeg 1 2 true 60031; mkSeg 1 2 false 100;
        mkSeg 1 0 false 60031; mkSeg 1 7 false 60032; seg_empty ]; [] ]; []; [ [ mkSeg 1 8 true 5 ] ] ].
Example details_nonvacuous :
  match ser_details 60000 31 ex_ids with
  | Ok v => deser_details 60000 31 v = Ok ex_ids /\
            snd (fst (fst v)) = [0; 5; 8; 8; 0; 3; 240; 239; 223; 191; 127; 1]   (* the in-group-id stream *)
  | _ => False
  end.
Proof. vm_compute. repeat split. Qed.
(* the id bound is needed: with the predictor at i32::MAX the next `prev + 1` overflows (dev profile) *)
Example details_bound_tight :
  ser_details 60000 31 [ [ [ mkSeg 3 2147483647 false 5; mkSeg 3 1 false 5 ] ] ] = Panic.
Proof. vm_compute. reflexivity. Qed.

(* ---- store in batches, load all batches: any number of samples, any batch size > 0 (the code uses
   pack_cardinality = 50); zstd is abstract: zd (zc level x) = Some x and zc never returns an empty frame.
   batch_ok zc ss k B (Collection_proofs): every sample of B is sample_wf (contig names over 1..127, descriptors as
   in details_roundtrip, counts < 2^32), |B| < 2^32, and the five detail streams of B and their zstd images are
   shorter than 2^32 bytes (their lengths travel as u32).  Cursor: samples_loaded = number of samples = sum of
   the batch sizes; with pairwise different sample names every name is found at its own position. *)
Theorem batches_roundtrip :
  forall (zc : N -> list N -> list N) (zd : list N -> option (list N)),
  (forall l x, zd (zc l x) = Some x) -> (forall l x, zc l x <> []) ->
  forall ss k : N, ss + k <= 2147483648 ->
  forall (bs : N) (c : coll),
  0 < bs ->
  segment_size c = ss -> kmer_length c = k ->
  lenN (samples c) < 4294967296 ->
  Forall (fun s => Forall (fun b => 1 <= b < 128) (sname s)) (samples c) ->
  Forall (batch_ok zc ss k) (chunks (length (samples c)) (N.to_nat bs) (samples c)) ->
  exists cw a cr,
    store_all zc bs c arch_empty = Ok (cw, a) /\
    length (a_contigs a) = length (chunks (length (samples c)) (N.to_nat bs) (samples c)) /\
    Forall (fun s => scontigs s = []) (samples cw) /\
    load_all zd ss k a = Ok cr /\
    samples cr = samples c /\
    samples_loaded cr = lenN (samples c) /\
    (NoDup (map sname (samples c)) ->
     forall i s, nth_error (samples c) i = Some s -> id_get (ids cr) (sname s) = Some (N.of_nat i)).
Proof. exact Collection_proofs.batches_roundtrip_proof. Qed.
Print Assumptions batches_roundtrip.

(* non-vacuity: 120 samples = 3 batches of 50, 50, 20 with a toy "zstd" (prefix the level byte) *)
Definition zc1 (l : N) (x : list N) : list N := l :: x.
Definition zd1 (d : list N) : option (list N) := Some (tl d).
Definition ex_sample (i : nat) : sample :=
  let d := N.of_nat i in
  mkSample [83; 48 + d / 100; 48 + (d / 10) mod 10; 48 + d mod 10]
    [ mkContig [99;104;114;49;32;108;101;110;61; 48 + d mod 10] [ mkSeg 16 d false 60031; mkSeg 17 (d / 2) true 59000 ];
      mkContig [99;104;114;50;32;108;101;110;61; 48 + d mod 7] [ mkSeg 16 0 false 60031 ] ].
Definition ex_coll : coll := mkColl (map ex_sample (seq 0 120)) [] 60000 31 0 0.
Example batches_nonvacuous_hyps :
  (forall l x, zd1 (zc1 l x) = Some x) /\ (forall l x, zc1 l x <> []) /\
  Forall (batch_ok zc1 60000 31) (chunks 120 50 (samples ex_coll)) /\
  NoDup (map sname (samples ex_coll)).
Proof.
  split; [reflexivity|]. split; [discriminate|]. split.
  - apply (forallb_Forall (batch_okb zc1 60000 31)); [apply batch_okb_ok|]. vm_compute. reflexivity.
  - apply (NoDup_map_inv (fun n => nth 1 n 0 * 100 + nth 2 n 0 * 10 + nth 3 n 0 - 5328)).
    replace (map (fun n => nth 1 n 0 * 100 + nth 2 n 0 * 10 + nth 3 n 0 - 5328) (map sname (samples ex_coll)))
      with (map N.of_nat (seq 0 120)) by (vm_compute; reflexivity).
    apply FinFun.Injective_map_NoDup; [intros a b; apply Nat2N.inj | apply seq_NoDup].
Qed.
Example batches_nonvacuous :
  match store_all zc1 50 ex_coll arch_empty with
  | Ok (_, a) => length (a_contigs a) = 3%nat /\
                 match load_all zd1 60000 31 a with
                 | Ok cr => samples cr = samples ex_coll /\ samples_loaded cr = 120
                 | _ => False
                 end
  | _ => False
  end.
Proof. vm_compute. repeat split. Qed.

(* ---- registration order = listing order, names verbatim.  reg_all = the sequence of register_sample_contig
   calls; op_stored = the sample a call lands in (its sample name, or the first word of the contig header when the
   sample name is empty); first_occ [] = first occurrences in order; contigs_under s = contig headers registered
   under s, in call order. *)
Theorem listing_order :
  forall (ss k : N) (ops : list (name * name)),
  exists c, reg_all (coll_new ss k) ops = Ok c /\
    get_samples_list c = first_occ [] (map op_stored ops) /\
    forall s, get_contig_list c s =
              Ok (if memb s (map op_stored ops) then Some (first_occ [] (contigs_under s ops)) else None).
Proof. exact Collection_proofs.listing_order_proof. Qed.
Print Assumptions listing_order.
Example listing_nonvacuous :
  let s1 := [115; 49] in let s2 := [115; 50] in
  let ops := [ (s2, [99; 49; 32; 120]); (s1, [65]); (s2, [99; 49; 32; 120]); (s2, [99; 48]); ([], [119; 9; 122]) ] in
  match reg_all (coll_new 0 0) ops with
  | Ok c => get_samples_list c = [s2; s1; [119]] /\
            get_contig_list c s2 = Ok (Some [ [99; 49; 32; 120]; [99; 48] ]) /\
            get_contig_list c [119] = Ok (Some [ [119; 9; 122] ])
  | _ => False
  end.
Proof. vm_compute. repeat split. Qed.
(* add_segment_placed fills holes with SegmentDesc::empty() *)
Example hole_filling :
  match register_sample_contig (coll_new 0 0) [115] [99] with
  | Ok (c, _) => match add_segment_placed c [115] [99] 2 (mkSeg 4 1 true 9) with
                 | Ok c' => get_sample_desc c' [115] = Ok (Some [ ([99], [seg_empty; seg_empty; mkSeg 4 1 true 9]) ])
                 | _ => False
                 end
  | _ => False
  end.
Proof. vm_compute. reflexivity. Qed.
