(* C07 — Range and length queries agree with full extraction: for every contig and every pair of positions
   start, end, get_contig_range returns exactly the bases [start, min(end, length)) of the fully extracted
   contig (empty when start >= end or start >= length), and get_contig_length returns its length, whichever and
   however many segments the range touches.
   Model: Range.v (reconstruct_contig = what get_contig returns, get_contig_length, get_contig_range of
   decompressor.rs; input = per segment the descriptor's raw_length / is_rev_comp and the bytes get_segment
   returned; usize arithmetic checked: Panic = the dev profile traps).
   wf k segs  :=  Forall (fun s => rs_raw s = lenN (rs_data s)) segs /\
                  Forall (fun s => k <= lenN (rs_data s)) (tl segs)
   (raw_length is the decoded length; every later segment has its k overlap bases - C10 later_len_ge_k).
   start / end are arbitrary N (so also usize::MAX = max_u64); any number of segments, any bytes, any k < 2^32
   (kmer_length is a u32).  lenN c <= isize_max holds of every Vec<u8> the real get_contig can return. *)
From Ragc Require Import Mach Range Range_proofs.
From Ragc Require Segment.
Open Scope N_scope.
Ltac wf_tac := split; repeat first [apply Forall_nil | apply Forall_cons]; first [reflexivity | discriminate].

(* full extraction succeeds and is the C10 tiling read backwards: first segment whole, later ones without
   their first k bases (each re-oriented first) *)
Theorem reconstruct_total : forall k segs,
  Forall (fun s => rs_raw s = lenN (rs_data s)) segs /\ Forall (fun s => k <= lenN (rs_data s)) (tl segs) ->
  reconstruct_contig k segs =
  Ok (match segs with
      | [] => []
      | s0 :: rest => oriented s0 ++ concat (map (fun s => skipnN k (oriented s)) rest)
      end).
Proof. exact Range_proofs.reconstruct_total_proof. Qed.
Print Assumptions reconstruct_total.
Example reconstruct_nonvacuous :
  let segs := [mkRSeg 5 false [0;1;2;3;0]; mkRSeg 5 true [1;1;3;0;1]; mkRSeg 3 false [0;2;2]; mkRSeg 4 false [0;2;2;2]] in
  wf 3 segs /\ reconstruct_contig 3 segs = Ok [0;1;2;3;0; 2;2; 2].
Proof. vm_compute. split; [wf_tac | reflexivity]. Qed.

(* the length query returns the length of the fully extracted contig (no Err, no Panic) *)
Theorem length_correct : forall k segs c, wf k segs ->
  reconstruct_contig k segs = Ok c -> lenN c <= isize_max ->
  get_contig_length k segs = Ok (lenN c).
Proof. exact Range_proofs.length_correct_proof. Qed.
Print Assumptions length_correct.
Example length_nonvacuous :
  let segs := [mkRSeg 5 false [0;1;2;3;0]; mkRSeg 5 true [1;1;3;0;1]; mkRSeg 3 false [0;2;2]; mkRSeg 4 false [0;2;2;2]] in
  wf 3 segs /\ get_contig_length 3 segs = Ok 8.
Proof. vm_compute. split; [wf_tac | reflexivity]. Qed.

(* the range query returns exactly the bases [s, min(e, length)) of the fully extracted contig, for all s, e
   (no Err, no Panic) *)
Theorem range_correct : forall k segs c s e, wf k segs -> k < two32 ->
  reconstruct_contig k segs = Ok c -> lenN c <= isize_max ->
  get_contig_range k segs s e = Ok (firstnN (N.min e (lenN c) - s) (skipnN s c)).
Proof. exact Range_proofs.range_correct_proof. Qed.
Print Assumptions range_correct.
(* 4 segments (one reverse-complemented, one that is only the k-mer); [3,7) spans two junctions (5 and 7 are
   junctions, the k-mer-only segment contributes nothing); usize::MAX as end / start *)
Example range_nonvacuous :
  let segs := [mkRSeg 5 false [0;1;2;3;0]; mkRSeg 5 true [1;1;3;0;1]; mkRSeg 3 false [0;2;2]; mkRSeg 4 false [0;2;2;2]] in
  wf 3 segs /\ 3 < two32 /\
  get_contig_range 3 segs 3 8 = Ok [3;0;2;2;2] /\
  get_contig_range 3 segs 4 7 = Ok [0;2;2] /\
  get_contig_range 3 segs 6 max_u64 = Ok [2;2] /\
  get_contig_range 3 segs max_u64 max_u64 = Ok [] /\
  get_contig_range 3 segs 8 9 = Ok [].
Proof. vm_compute. split; [wf_tac |]. repeat split; reflexivity. Qed.

(* the same with the empty cases of the property text spelled out *)
Theorem range_cases : forall k segs c s e, wf k segs -> k < two32 ->
  reconstruct_contig k segs = Ok c -> lenN c <= isize_max ->
  get_contig_range k segs s e =
  Ok (if (s <? e) && (s <? lenN c) then firstnN (N.min e (lenN c) - s) (skipnN s c) else []).
Proof. exact Range_proofs.range_cases_proof. Qed.
Print Assumptions range_cases.

(* what the code does where wf fails (model level; the correspondence run checks wf on every real contig):
   a later descriptor with raw_length < k makes both queries trap in the dev profile although the decoded
   data is long enough for get_contig to succeed; a raw_length larger than the decoded segment makes the
   range query silently drop that segment's bases (the `data_end <= len` guard) *)
Example without_wf_panics :
  let segs := [mkRSeg 4 false [0;1;2;3]; mkRSeg 2 false [1;2;3;0]] in
  reconstruct_contig 3 segs = Ok [0;1;2;3;0] /\
  get_contig_length 3 segs = Panic /\ get_contig_range 3 segs 0 5 = Panic.
Proof. vm_compute. repeat split; reflexivity. Qed.
Example without_wf_drops :
  let segs := [mkRSeg 4 false [0;1;2;3]; mkRSeg 6 false [1;2;3;0]] in
  reconstruct_contig 3 segs = Ok [0;1;2;3;0] /\
  get_contig_length 3 segs = Ok 7 /\ get_contig_range 3 segs 0 7 = Ok [0;1;2;3].
Proof. vm_compute. repeat split; reflexivity. Qed.

(* composition with C10: for the segmentation split_at_splitters(_with_size) computes (any contig, any splitter
   set, 1 <= k <= 32), stored segment by segment as it is, both queries answer with the length / the slices of
   the contig that was split (tiling + later_len_ge_k give wf and the reconstruction) *)
Theorem range_on_split : forall ws contig spl k s e, 1 <= k <= 32 -> lenN contig <= isize_max ->
  let segs := map (fun sg => mkRSeg (lenN (Segment.sdata sg)) false (Segment.sdata sg))
                  (Segment.split_gen ws contig spl k) in
  get_contig_length k segs = Ok (lenN contig) /\
  get_contig_range k segs s e = Ok (firstnN (N.min e (lenN contig) - s) (skipnN s contig)).
Proof. exact Range_proofs.range_on_split_proof. Qed.
Print Assumptions range_on_split.
Example range_on_split_nonvacuous :
  length (Segment.split_gen true [0;0;0;1;2;3;0;0;0] (Segment.set_of_list [0]) 3) = 3%nat /\
  get_contig_range 3 (map (fun sg => mkRSeg (lenN (Segment.sdata sg)) false (Segment.sdata sg))
                          (Segment.split_gen true [0;0;0;1;2;3;0;0;0] (Segment.set_of_list [0]) 3)) 2 8
  = Ok [0;1;2;3;0;0].
Proof. vm_compute. split; reflexivity. Qed.
