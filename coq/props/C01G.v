(* C01G (registered under C01) - Lossless round trip, from the inputs to the FILE BYTES and back through the
   independent format-rule decoder: the two composition theorems
     props/C01.v   end_to_end_inputs / end_to_end_catalogue   (inputs -> pieces -> group store -> catalogue -> reader = inputs,
                                                               on part lists)
     props/C02B.v  writer_conforms                             (file bytes of a container holding such parts -> spec/AgcV3.v
                                                               decoder = the stored layout re-assembled)
   joined into ONE statement about ONE model function, model/ModelCreate.v [model_build] / [model_create]:
     samples --Pipeline.create--> pieces + catalogue --GroupStore.run/finalize (LZ.encode, SegCompress)--> segment parts
             --Collection.store_all--> catalogue parts --Container: register streams, add_part_buffered, flush, close--> bytes
   and   AgcV3.decode zd (those bytes) = Ok samples   (names, order, bases).
   Proofs: proofs/Grand_proofs.v.  What had to be connected: (a) Pipeline's catalogue [cat_of coll] is the catalogue
   writer_conforms wants stored: every descriptor of it is backed by a registration of the store with the same
   flag and raw length ([layout_of]); (b) the parts of [view_of (finalize st)] sit in the streams x<id>d / x<id>r of the
   abstract container state after the model's Archive history ([model_stream_state]: stable sort by stream id +
   commit = per stream the parts in call order); (c) Pipeline's reader and Range's reader (two transcriptions of
   reconstruct_contig, used by C01 resp. C07/C02B) compute the same contig ([extract_all_agree]).
   Oracles (any value): splitter set, decisions, group assignment, store schedule, arrival order of registrations,
   file_type_info part.  zstd: zd (zc l x) = Some x and zc l x <> [] (C03/C02B's form; implies C12's zstd_ok). *)
From Coq Require Import Permutation.
From Ragc Require Import Mach Consts_agcv3 Kmer Segment Pipeline SegReader GroupStore Collection Container AgcV3 ModelCreate.
From Ragc Require Import Pipeline_proofs Compose_codecs Compose_proofs AgcV3_compose Grand_proofs.
From Ragc Require Collection_proofs SegCompress_proofs Fasta.
From Ragc Require C01.
Open Scope N_scope.

(* ---- the definitions the statement uses, pinned (each is the definition itself) *)
Example model_build_def : forall zc ecn k mml segsize level spl dec grp sched gops fti samples,
  model_build zc ecn k mml segsize level spl dec grp sched gops fti samples =
  obnd (run (mc_lz_enc mml) (mc_cref zc) (mc_cpack zc level) gops) (fun st =>
  obnd (create ecn k spl segsize dec (mc_store_addr k spl segsize dec grp (pushes_of samples) st) sched (pushes_of samples))
       (fun cs =>
  obnd (store_all zc W_CATALOGUE_BATCH (mkColl (mc_cat_of (fst cs)) [] segsize k 0 0) arch_empty) (fun ca =>
    let fin := finalize (mc_cpack zc level) st in
    let fp := fixed_plan k mml segsize (snd ca) fti in
    let gp := group_plan fin (groups_of gops) in
    let wops := map (fun e => WRegister (fst e)) (fp ++ gp) ++ map addbuf (model_buffered fp gp) ++ [WFlush] in
    Ok (mkBuilt st (fst cs) (snd cs) (snd ca) wops (close (fst (wrun w_init wops))))))) /\
  model_create zc ecn k mml segsize level spl dec grp sched gops fti samples =
  obnd (model_build zc ecn k mml segsize level spl dec grp sched gops fti samples) (fun b => Ok (b_file b)).
Proof. intros. split; reflexivity. Qed.

(* the model's own copies of definitions of the composition files are those definitions *)
Example model_defs_agree :
  mc_lz_enc = c_lz_enc /\ mc_lz_enc = m_lz_enc /\ mc_cref = c_compress_ref /\ mc_cref = m_cref /\
  mc_cpack = c_compress_pack /\ mc_cpack = m_cpack /\ mc_store_addr = store_addr /\ mc_cat_of = cat_of /\
  (forall g, w_ref_name g = stream_ref_name g) /\ (forall g, w_delta_name g = stream_delta_name g) /\
  (forall k mml ss, w_params k mml ss = encode_params k mml ss) /\
  W_CATALOGUE_BATCH = SPEC_CATALOGUE_BATCH.
Proof. repeat split; reflexivity. Qed.

(* the Archive history: registration order and the order of the add_part_buffered calls *)
Example history_def : forall k mml ss a fti fin g groups,
  map fst (fixed_plan k mml ss a fti) =
    [W_NAME_COLL_0; W_NAME_COLL_1; W_NAME_COLL_2; W_NAME_FIXED_0; W_NAME_FIXED_1; W_NAME_FIXED_2; W_NAME_FIXED_3] /\
  map fst (fixed_plan k mml ss a fti) = SPEC_FIXED_NAMES /\
  group_plan fin (g :: groups) =
    (w_delta_name g, opt_items (gv_delta (view_of fin g))) :: (w_ref_name g, opt_items (gv_ref (view_of fin g)))
    :: group_plan fin groups /\
  model_buffered (fixed_plan k mml ss a fti) (group_plan fin [g]) =
    map (fun it => (7, it)) (opt_items (gv_delta (view_of fin g))) ++ map (fun it => (8, it)) (opt_items (gv_ref (view_of fin g))) ++
    [(4, (w_params k mml ss, W_PARAMS_METADATA)); (5, ([], 0)); (6, ([], 0))] ++
    map (fun it => (0, it)) (a_samples a) ++ map (fun it => (1, it)) (a_contigs a) ++ map (fun it => (2, it)) (a_details a) ++
    [(3, fti)].
Proof.
  intros. split; [reflexivity|]. split; [reflexivity|]. split; [reflexivity|].
  unfold model_buffered, fixed_order, group_plan. cbn [flat_map app length all_tagged snd parts_at nth_error fixed_plan tagged].
  cbn [map]. rewrite !app_nil_r, <- !app_assoc. reflexivity.
Qed.

Example hypotheses_def : forall zc ss k sm ops,
  catalogue_in_dom zc ss k sm =
    (lenN sm < 4294967296 /\
     Forall (fun s => Forall (fun b => 1 <= b < 128) (Collection.sname s)) sm /\
     Forall (Collection_proofs.batch_ok zc ss k) (Collection_proofs.chunks (length sm) (N.to_nat W_CATALOGUE_BATCH) sm)) /\
  parts_meta_u64 ops = Forall (fun o => match o with WAddBuf _ _ m => m < two64 | _ => True end) ops.
Proof. intros. split; reflexivity. Qed.

(* ---- GRAND ROUND TRIP.  For every sample set (sample names distinct and non-empty, no sample without contigs) over
   symbol codes 0..30 with 2 * |contig| + mml < 2^31, 1 <= k <= 32, 4 <= mml < 2^32, segment size below 2^32 with
   segsize + k <= 2^31 (C03's predictor domain), every compression level, splitter set, decision oracle meeting
   decisions_ok, assignment [grp] of pieces to u32 groups (pieces of empty contigs not in LZ groups), schedule [gops]
   of the group store carrying the emitted pieces, arrival order [sched] of the registrations and file_type_info
   part: whenever the model writer produces a file (model_build = Ok b: the store does not trap - C02 run_no_trap -
   and create succeeds) whose catalogue is in the domain of the catalogue codec (C03: names over bytes 1..127, ids
   and lengths in range, stream sizes below 2^32), whose part metadata fit u64 and which is not longer than the
   largest file offset (C13), the decoder written from the AGC v3 format rules reads back exactly the input from
   the file bytes. *)
Theorem grand_roundtrip :
  forall (zc : N -> list N -> list N) (zd : list N -> option (list N)),
  (forall l x, zd (zc l x) = Some x) -> (forall l x, zc l x <> []) ->
  forall ecn k mml segsize level spl dec grp sched gops fti
         (samples : list (name * list (name * list N))),
  1 <= k <= 32 -> 4 <= mml -> mml < two32 -> segsize < two32 -> segsize + k <= 2147483648 ->
  NoDup (map fst samples) /\ Forall (fun s => fst s <> [] /\ snd s <> []) samples ->
  inputs_in_dom mml (pushes_of samples) ->
  (forall i s c data j sg, nth_error (pushes_of samples) i = Some (s, c, data) ->
     nth_error (split_at_splitters_with_size data spl k segsize) j = Some sg ->
     decision_okb (N.to_nat k) sg (dec i j) = true) ->
  lz_contigs_nonempty (pushes_of samples) grp ->
  (forall i part, grp i part < two32) ->
  (forall l, Permutation l (sched l)) ->
  ops_carry (all_emit k spl segsize dec grp 0 (pushes_of samples)) gops ->
  forall b : built,
  model_build zc ecn k mml segsize level spl dec grp sched gops fti samples = Ok b ->
  catalogue_in_dom zc segsize k (mc_cat_of (b_coll b)) ->
  parts_meta_u64 (b_wops b) ->
  lenN (b_file b) <= spec_max_off ->
  decode zd (b_file b) = Ok samples.
Proof. exact Grand_proofs.grand_roundtrip_proof. Qed.
Print Assumptions grand_roundtrip.

(* the same for the function that returns only the bytes *)
Theorem model_create_build :
  forall zc ecn k mml segsize level spl dec grp sched gops fti samples file,
  model_create zc ecn k mml segsize level spl dec grp sched gops fti samples = Ok file <->
  exists b, model_build zc ecn k mml segsize level spl dec grp sched gops fti samples = Ok b /\ b_file b = file.
Proof. exact Grand_proofs.model_create_build_proof. Qed.
Print Assumptions model_create_build.

(* model_build fails only where the existing theorems already assume success: the group store run (trap at 2^32 - 2
   segments of one group) and create (a repeated contig name); on a catalogue in C03's domain store_all cannot fail *)
Theorem model_build_total :
  forall zc zd, (forall l x, zd (zc l x) = Some x) -> (forall l x, zc l x <> []) ->
  forall ecn k mml segsize level spl dec grp sched gops fti samples st coll stored,
  segsize + k <= 2147483648 ->
  run (mc_lz_enc mml) (mc_cref zc) (mc_cpack zc level) gops = Ok st ->
  create ecn k spl segsize dec (mc_store_addr k spl segsize dec grp (pushes_of samples) st) sched (pushes_of samples)
    = Ok (coll, stored) ->
  catalogue_in_dom zc segsize k (mc_cat_of coll) ->
  exists b, model_build zc ecn k mml segsize level spl dec grp sched gops fti samples = Ok b /\
            b_store b = st /\ b_coll b = coll /\ b_stored b = stored.
Proof. exact Grand_proofs.model_build_total_proof. Qed.
Print Assumptions model_build_total.

(* the history of the model is a well-formed Archive history (hypothesis of C13 container_refines_spec) as soon as the
   metadata values fit u64: every registered name is a pinned fixed name or x<base64 id>d / x<base64 id>r *)
Theorem history_wf :
  forall zc ecn k mml segsize level spl dec grp sched gops fti samples b,
  model_build zc ecn k mml segsize level spl dec grp sched gops fti samples = Ok b ->
  parts_meta_u64 (b_wops b) -> Forall wop_wf (b_wops b).
Proof. exact Grand_proofs.history_wf_proof. Qed.
Print Assumptions history_wf.

(* (b) any history "register pairwise different names; add_part_buffered; flush_buffers": each stream ends up with
   the parts buffered for its id, in call order (flush sorts stably by stream id) *)
Theorem history_state : forall names buffered, NoDup names ->
  Forall (fun x => fst x < lenN names) buffered ->
  forall i nm, nth_error names i = Some nm ->
  sp_parts (fst (sp_run sp_init (map WRegister names ++ map addbuf buffered ++ [WFlush]))) nm =
  Some (map snd (filter (fun x => fst x =? N.of_nat i) buffered)).
Proof. exact Grand_proofs.history_state. Qed.
Print Assumptions history_state.

(* (c) the two transcriptions of the reader agree: whenever Pipeline's extraction succeeds on a catalogue, its result is
   Range's tiling (C07) of the oriented segments the descriptors read, every descriptor reads, and every later
   segment of a contig has at least k symbols *)
Theorem readers_agree : forall (get : Pipeline.seg_desc -> outcome (list N)) k coll X,
  extract_all get k coll = Ok X -> NoDup (map fst X) ->
  X = map (fun s => (fst s, map (fun c => (fst c,
             Range.tiled k (map (fun d => Range.mkRSeg (Pipeline.d_len d) (Pipeline.d_rc d)
                                           (match get d with Ok x => x | _ => [] end)) (snd c)))) (snd s))) coll /\
  Forall (fun s => Forall (fun c =>
            Forall (fun d => exists x, get d = Ok x) (snd c) /\
            Forall (fun d => k <= lenN (match get d with Ok x => x | _ => [] end)) (tl (snd c))) (snd s)) coll.
Proof. exact Grand_proofs.extract_all_agree. Qed.
Print Assumptions readers_agree.

(* ======================================================================== non-vacuity
   the instance of props/C01.v end_to_end_nonvacuous (two samples, three contigs, k = 3, splitter AAA, a split segment,
   an AssignToLeft, reversed arrival order, raw group 3 and LZ groups 16 / 17, the store run in two rounds, C12's toy
   zstd), segment size 60, the file_type_info text ragc writes.  Every hypothesis of grand_roundtrip holds and the
   decoder - plain and strict - returns the input from the 600-odd bytes of the file. *)
Definition ex_fti : Container.item :=
  ([112;114;111;100;117;99;101;114;0; 114;97;103;99;0;
    112;114;111;100;117;99;101;114;95;118;101;114;115;105;111;110;95;109;97;106;111;114;0; 51;0;
    112;114;111;100;117;99;101;114;95;118;101;114;115;105;111;110;95;109;105;110;111;114;0; 48;0;
    112;114;111;100;117;99;101;114;95;118;101;114;115;105;111;110;95;98;117;105;108;100;0; 48;0;
    102;105;108;101;95;118;101;114;115;105;111;110;95;109;97;106;111;114;0; 51;0;
    102;105;108;101;95;118;101;114;115;105;111;110;95;109;105;110;111;114;0; 48;0;
    99;111;109;109;101;110;116;0; 82;65;71;67;32;118;46;51;46;48;0], 7).

Definition ex_build : outcome built :=
  model_build SegCompress_proofs.toy_zc (fun c => c) 3 4 60 17 (set_of_list [0]) C01.ex_dec C01.ex_grp (@rev registration)
              C01.ex_store_ops ex_fti C01.ex_samples.

Example grand_roundtrip_nonvacuous : exists b,
  ex_build = Ok b /\
  (forall l x, SegCompress_proofs.toy_zd (SegCompress_proofs.toy_zc l x) = Some x) /\
  (forall l x, SegCompress_proofs.toy_zc l x <> []) /\
  (NoDup (map fst C01.ex_samples) /\ Forall (fun s : name * list (name * list N) => fst s <> [] /\ snd s <> []) C01.ex_samples) /\
  inputs_in_dom 4 (pushes_of C01.ex_samples) /\
  decisions_ok 3 (set_of_list [0]) 60 C01.ex_dec (pushes_of C01.ex_samples) /\
  lz_contigs_nonempty (pushes_of C01.ex_samples) C01.ex_grp /\
  (forall i part, C01.ex_grp i part < two32) /\
  (forall l : list registration, Permutation l (rev l)) /\
  ops_carry (all_emit 3 (set_of_list [0]) 60 C01.ex_dec C01.ex_grp 0 (pushes_of C01.ex_samples)) C01.ex_store_ops /\
  catalogue_in_dom SegCompress_proofs.toy_zc 60 3 (mc_cat_of (b_coll b)) /\
  parts_meta_u64 (b_wops b) /\
  lenN (b_file b) <= spec_max_off /\
  (* and the conclusion, computed *)
  groups_of C01.ex_store_ops = [3; 16; 17] /\
  length (b_wops b) = 26%nat /\
  decode SegCompress_proofs.toy_zd (b_file b) = Ok C01.ex_samples /\
  decode_strict SegCompress_proofs.toy_zd (b_file b) = SOk C01.ex_samples /\
  model_create SegCompress_proofs.toy_zc (fun c => c) 3 4 60 17 (set_of_list [0]) C01.ex_dec C01.ex_grp (@rev registration)
               C01.ex_store_ops ex_fti C01.ex_samples = Ok (b_file b).
Proof.
  assert (H : match ex_build with
              | Ok b =>
                catalogue_in_domb SegCompress_proofs.toy_zc 60 3 (mc_cat_of (b_coll b)) = true /\
                parts_meta_u64b (b_wops b) = true /\
                (lenN (b_file b) <=? spec_max_off) = true /\
                groups_of C01.ex_store_ops = [3; 16; 17] /\
                length (b_wops b) = 26%nat /\
                decode SegCompress_proofs.toy_zd (b_file b) = Ok C01.ex_samples /\
                decode_strict SegCompress_proofs.toy_zd (b_file b) = SOk C01.ex_samples /\
                model_create SegCompress_proofs.toy_zc (fun c => c) 3 4 60 17 (set_of_list [0]) C01.ex_dec C01.ex_grp
                             (@rev registration) C01.ex_store_ops ex_fti C01.ex_samples = Ok (b_file b)
              | _ => False
              end) by (vm_compute; repeat split; reflexivity).
  destruct ex_build as [b| |]; [|contradiction|contradiction].
  destruct H as (H1 & H2 & H3 & H4 & H5 & H6 & H7 & H8).
  exists b. split; [reflexivity|].
  split; [exact (proj1 SegCompress_proofs.toy_ok)|]. split; [exact C01.toy_zc_never_empty|].
  destruct C01.inputs_nonvacuous as (Hdom & Hlz & Hin).
  split; [exact Hin|]. split; [exact Hdom|].
  split; [apply decisions_okb_ok; vm_compute; reflexivity|].
  split; [exact Hlz|].
  split. { intros i part.
           assert (T : 16 + N.of_nat part mod 2 < two32).
           { pose proof (N.mod_lt (N.of_nat part) 2 ltac:(discriminate)) as H.
             apply N.lt_trans with (16 + 2); [apply N.add_lt_mono_l; exact H | reflexivity]. }
           unfold C01.ex_grp. destruct i as [|[|i]]; [exact T | reflexivity | exact T]. }
  split; [intro l; apply Permutation_rev|].
  split; [exact C01.ops_carry_nonvacuous|].
  split; [apply catalogue_in_domb_ok; exact H1|].
  split; [apply parts_meta_u64b_ok; exact H2|].
  split; [apply N.leb_le; exact H3|].
  repeat split; assumption.
Qed.

(* ======================================================================== from FASTA text (C16 / C19, Fasta.v)
   [text_samples files] is the inner part of Fasta.create_view: the contig stream of the input files
   (read_contig_converted per file, sample naming of MultiFileIterator, the single-file order check) grouped by
   Collection::register_sample_contig ([collect]); create_view = text_samples followed by the output letters. *)
Example text_samples_def : forall files,
  text_samples files =
    obnd (match files with
          | [(fname, text)] => Fasta.stream_single fname text
          | _ => Fasta.stream_multi files
          end) (Fasta.collect []) /\
  Fasta.create_view files =
    obnd (text_samples files) (fun arch =>
      Ok (map (fun sc => (fst sc, map (fun nc => (fst nc, Fasta.out_letters (snd nc))) (snd sc))) arch)).
Proof. intro files. split; [reflexivity|apply Grand_proofs.create_view_text_samples]. Qed.

(* what the FASTA reader and the catalogue give the compressor always meets the shape hypotheses of grand_roundtrip:
   sample names pairwise different, no sample without contigs, no empty contig, symbol codes 0..30 *)
Theorem text_samples_shape : forall files arch, text_samples files = Ok arch ->
  NoDup (map fst arch) /\ Forall (fun sc => snd sc <> []) arch /\
  (forall s c data, In (s, c, data) (pushes_of arch) -> Forall (fun x => x <= 30) data /\ data <> []).
Proof. exact Grand_proofs.text_samples_shape. Qed.
Print Assumptions text_samples_shape.

(* TEXT ROUND TRIP: for any FASTA input files that create accepts (text_samples = Ok arch: every record with a base
   has a name - C16 parser_complete -, no contig name twice in a sample, single-file sample order) with non-empty
   sample names and 2 * |contig| + mml < 2^31, under the remaining hypotheses of grand_roundtrip (oracles, domains of
   the intermediate objects), the format-rule decoder returns from the file bytes exactly the parsed records - which
   are, printed with the output letters, what C16's create_view (the view C16 compares with the real
   create / listset / listctg / getset) shows: the normalised records (C16 create_view_complete, extraction_normal_form). *)
Theorem text_roundtrip :
  forall (zc : N -> list N -> list N) (zd : list N -> option (list N)),
  (forall l x, zd (zc l x) = Some x) -> (forall l x, zc l x <> []) ->
  forall ecn k mml segsize level spl dec grp sched gops fti files arch,
  1 <= k <= 32 -> 4 <= mml -> mml < two32 -> segsize < two32 -> segsize + k <= 2147483648 ->
  text_samples files = Ok arch ->
  Forall (fun s => fst s <> []) arch ->
  (forall s c data, In (s, c, data) (pushes_of arch) -> 2 * lenN data + mml < 2147483648) ->
  (forall i s c data j sg, nth_error (pushes_of arch) i = Some (s, c, data) ->
     nth_error (split_at_splitters_with_size data spl k segsize) j = Some sg ->
     decision_okb (N.to_nat k) sg (dec i j) = true) ->
  (forall i part, grp i part < two32) ->
  (forall l, Permutation l (sched l)) ->
  ops_carry (all_emit k spl segsize dec grp 0 (pushes_of arch)) gops ->
  forall b : built,
  model_build zc ecn k mml segsize level spl dec grp sched gops fti arch = Ok b ->
  catalogue_in_dom zc segsize k (mc_cat_of (b_coll b)) ->
  parts_meta_u64 (b_wops b) ->
  lenN (b_file b) <= spec_max_off ->
  decode zd (b_file b) = Ok arch /\
  Fasta.create_view files =
    Ok (map (fun sc => (fst sc, map (fun nc => (fst nc, Fasta.out_letters (snd nc))) (snd sc))) arch).
Proof. exact Grand_proofs.text_roundtrip_proof. Qed.
Print Assumptions text_roundtrip.

(* non-vacuity: the two files of C16's create_view_nonvacuous (r.fa = ">a\nACGT\n>b\nTG\n", s.fa =
   ">x#1#c\nAC\n>p\nGX\n>e\n\n": a PanSN header, a non-IUPAC letter, a record without bases), k = 3, no splitters,
   the two contigs of r in LZ group 16 (reference + delta), the others in raw group 5, toy zstd *)
Definition ex2_files : list (list N * list N) :=
  [([114;46;102;97], [62;97;10;65;67;71;84;10;62;98;10;84;71;10]);
   ([115;46;102;97], [62;120;35;49;35;99;10;65;67;10;62;112;10;71;88;10;62;101;10;10])].
Definition ex2_arch : list (name * list (name * list N)) := match text_samples ex2_files with Ok a => a | _ => [] end.
Definition ex2_grp (i part : nat) : N := match i with 0%nat | 1%nat => 16 | _ => 5 end.
Definition ex2_dec (i j : nat) : decision := Plain false.
Definition ex2_emitted : list (N * seg_in) := all_emit 3 (set_of_list []) 60 ex2_dec ex2_grp 0 (pushes_of ex2_arch).
Definition ex2_gops : list op := ops_rounds [16; 5] [ex2_emitted].
Definition ex2_build : outcome built :=
  model_build SegCompress_proofs.toy_zc (fun c => c) 3 4 60 17 (set_of_list []) ex2_dec ex2_grp (fun l => l) ex2_gops ex_fti ex2_arch.

Example text_roundtrip_nonvacuous : exists b,
  ex2_build = Ok b /\
  text_samples ex2_files = Ok ex2_arch /\
  ex2_arch = [([114], [([97], [0; 1; 2; 3]); ([98], [3; 2])]); ([120; 35; 49], [([120; 35; 49; 35; 99], [0; 1])]);
              ([115], [([112], [2; 30])])] /\
  Forall (fun s : name * list (name * list N) => fst s <> []) ex2_arch /\
  (forall s c data, In (s, c, data) (pushes_of ex2_arch) -> 2 * lenN data + 4 < 2147483648) /\
  decisions_ok 3 (set_of_list []) 60 ex2_dec (pushes_of ex2_arch) /\
  (forall i part, ex2_grp i part < two32) /\
  ops_carry ex2_emitted ex2_gops /\
  catalogue_in_dom SegCompress_proofs.toy_zc 60 3 (mc_cat_of (b_coll b)) /\
  parts_meta_u64 (b_wops b) /\
  lenN (b_file b) <= spec_max_off /\
  decode SegCompress_proofs.toy_zd (b_file b) = Ok ex2_arch /\
  decode_strict SegCompress_proofs.toy_zd (b_file b) = SOk ex2_arch /\
  Fasta.create_view ex2_files =
    Ok [([114], [([97], [65;67;71;84]); ([98], [84;71])]); ([120;35;49], [([120;35;49;35;99], [65;67])]); ([115], [([112], [71;78])])].
Proof.
  assert (H : match ex2_build with
              | Ok b =>
                catalogue_in_domb SegCompress_proofs.toy_zc 60 3 (mc_cat_of (b_coll b)) = true /\
                parts_meta_u64b (b_wops b) = true /\
                (lenN (b_file b) <=? spec_max_off) = true /\
                decode SegCompress_proofs.toy_zd (b_file b) = Ok ex2_arch /\
                decode_strict SegCompress_proofs.toy_zd (b_file b) = SOk ex2_arch
              | _ => False
              end) by (vm_compute; repeat split; reflexivity).
  destruct ex2_build as [b| |]; [|contradiction|contradiction].
  destruct H as (H1 & H2 & H3 & H4 & H5).
  exists b. split; [reflexivity|].
  split; [vm_compute; reflexivity|]. split; [vm_compute; reflexivity|].
  split. { assert (E : forallb (fun s : name * list (name * list N) => negb (is_nil (fst s))) ex2_arch = true) by (vm_compute; reflexivity).
           rewrite forallb_forall in E. apply Forall_forall. intros s Hs He. specialize (E s Hs). rewrite He in E. discriminate. }
  split. { assert (E : forallb (fun p : push => 2 * lenN (snd p) + 4 <? 2147483648) (pushes_of ex2_arch) = true) by (vm_compute; reflexivity).
           rewrite forallb_forall in E. intros s c data Hp. apply N.ltb_lt. exact (E _ Hp). }
  split; [apply decisions_okb_ok; vm_compute; reflexivity|].
  split. { intros i part. unfold ex2_grp. destruct i as [|[|i]]; reflexivity. }
  split. { unfold ex2_gops. replace ex2_emitted with (concat [ex2_emitted]) at 1 by (cbn [concat]; apply app_nil_r).
           apply Compose_proofs.ops_rounds_carry.
           - repeat constructor; cbn; intuition discriminate.
           - assert (E : forallb (fun x : N * seg_in => existsb (N.eqb (fst x)) [16; 5]) (concat [ex2_emitted]) = true)
               by (vm_compute; reflexivity).
             intros x Hx. rewrite forallb_forall in E. specialize (E x Hx). apply existsb_exists in E.
             destruct E as (g & Hg & Eg). apply N.eqb_eq in Eg. rewrite Eg. exact Hg. }
  split; [apply catalogue_in_domb_ok; exact H1|].
  split; [apply parts_meta_u64b_ok; exact H2|].
  split; [apply N.leb_le; exact H3|].
  split; [exact H4|]. split; [exact H5|]. vm_compute. reflexivity.
Qed.
