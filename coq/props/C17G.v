(* C17G (registered under C17) - the CLI model joined with the whole-archive theorems: a USER-LEVEL end-to-end statement.

   props/C17.v speaks about an abstract archive: [decode] (Decompressor::open) and the pipeline outcome [pr] behind
   `create` are universally quantified.  props/C01G.v (model_create: input sample set -> archive FILE BYTES;
   AgcV3.decode of those bytes = the input), props/C16.v / C19.v (Fasta.v: FASTA text -> records, normal form, output
   letters) and props/C15.v (Sink.v: the fallible output file) speak about the bytes.  Here Cli.v's two parameters are
   INSTANTIATED (model/CliGrand.v):
     decode := cli_decode zd        bytes --AgcV3.decode zd--> catalogue --out_letters--> Cli.archive
     pr     := create_pipe ..       FASTA texts --Fasta.v reader / sample naming / catalogue grouping--> sample set
                                    --ModelCreate.model_create--> PipeFinalized (file bytes)
            or create_pipe_io ..    the same with model_build's Archive history replayed on C15's fallible file
   and the statements are about the INPUT TEXT only:
     ragc create -o out.agc files..   exits 0
     ragc getset out.agc n1 n2 ..     exits 0 and writes, for n1, n2, .. in request order, ">contig\n" + the normalised
                                      sequence in 80-column lines for every record of the input that has a name and a base
                                      and belongs to that sample, in input order            (stdout, and -o file)
     ragc listset out.agc             prints the input's sample names in order of first appearance
     ragc listctg out.agc n1 ..       prints "sample\tcontig" for those records
   Proofs: proofs/CliGrand_proofs.v.  Hypotheses: exactly those of C01G text_roundtrip (zstd round trip; parameter
   ranges; the oracles; model_build = Ok b; the domain conditions on the intermediate objects) plus: every input text
   starts with '>' or a blank line (C16 first_line_ok: outside it the code takes the first line as a header), the
   create run exits 0, the request is non-empty and names samples of the input, the temp / -o paths can be created.
   The hypotheses [tmp <> output], [out <> output], [p <> output] are NOT used by the proofs: Cli.v decodes the archive
   eagerly while the real reader is lazy, so a temp or -o path equal to the archive path is outside what Cli.v models
   faithfully (props/C17.v getset_out_is_tmp_loses_output) and is excluded from the statements. *)
From Coq Require Import Permutation Lia ZifyBool ZifyN ZifyNat.
From Ragc Require Import Mach Consts_agcv3 Kmer Segment Pipeline SegReader GroupStore Collection Container AgcV3 ModelCreate.
From Ragc Require Import Pipeline_proofs Compose_codecs Compose_proofs AgcV3_compose Grand_proofs.
From Ragc Require Cli Fasta Sink SegCompress_proofs.
From Ragc Require Import CliGrand.
From Ragc Require CliGrand_proofs.
From Ragc Require C01 C01G.
Open Scope N_scope.

(* ======================================================================== the definitions the statements use, pinned *)
Example cli_decode_def : forall zd bytes,
  cli_decode zd bytes =
    match AgcV3.decode zd bytes with
    | Ok cat => Some (map (fun sc => (fst sc, Some (map (fun nc => (fst nc, Some (Fasta.out_letters (snd nc)))) (snd sc)))) cat)
    | _ => None
    end /\
  (forall code, Fasta.out_letter code =
     if code <? 16%N then nth (N.to_nat code) [65;67;71;84;78;82;89;83;87;75;77;66;68;72;86;85]%N 0%N else 78%N).
Proof.
  intros zd bytes. split; [reflexivity|]. intro code. unfold Fasta.out_letter.
  change Consts_fasta.out_code_bound with 16%N. change Consts_fasta.out_default_byte with 78%N.
  destruct (code <? 16) eqn:E; [|reflexivity]. apply N.ltb_lt in E.
  assert (H : forall n, (n < 16)%nat -> nth n Consts_fasta.cnv_num 0 = nth n [65;67;71;84;78;82;89;83;87;75;77;66;68;72;86;85] 0).
  { intros n Hn. do 16 (destruct n as [|n]; [reflexivity|]). exfalso. lia. }
  apply H. lia.
Qed.

Example create_pipe_def : forall zc ecn k mml segsize level spl dec grp sched gops fti leftover pol cap files,
  cg_text_samples files = text_samples files /\
  create_pipe zc ecn k mml segsize level spl dec grp sched gops fti leftover files =
    match text_samples files with
    | Ok arch =>
      match model_create zc ecn k mml segsize level spl dec grp sched gops fti arch with
      | Ok bytes => Cli.PipeFinalized bytes
      | _ => Cli.PipeFail leftover
      end
    | _ => Cli.PipeFail leftover
    end /\
  create_pipe_io zc ecn k mml segsize level spl dec grp sched gops fti leftover pol cap files =
    match text_samples files with
    | Ok arch =>
      match model_build zc ecn k mml segsize level spl dec grp sched gops fti arch with
      | Ok b =>
        let r := Sink.main_io Sink.code_sites
                   (fst (Sink.ar_run Sink.code_sites (Sink.ar_open pol cap) (map Sink.AOp (removelast (b_wops b))))) in
        match snd r with
        | Sink.ExitZero => Cli.PipeFinalized (Sink.ar_file (fst r))
        | Sink.ExitNonZero => Cli.PipeFail (Some (Sink.ar_file (fst r)))
        end
      | _ => Cli.PipeFail leftover
      end
    | _ => Cli.PipeFail leftover
    end.
Proof. intros. repeat split; reflexivity. Qed.

Example expected_def : forall files names s,
  input_contigs files =
    flat_map (fun ft => map (fun r => (Fasta.sample_for (fst ft) (Fasta.rec_name r), Fasta.rec_name r, Fasta.read_back (snd r)))
                            (filter (fun r => negb (Fasta.is_nil (Fasta.rec_name r)) && Fasta.rec_has_base r)
                                    (Fasta.records (snd ft)))) files /\
  input_samples files = first_seen [] (map (fun c => fst (fst c)) (input_contigs files)) /\
  input_records files s =
    map (fun x => (snd (fst x), snd x)) (filter (fun x => Fasta.bytes_eqb (fst (fst x)) s) (input_contigs files)) /\
  (forall cs, fasta_of cs =
     concat (map (fun c => (62%N :: fst c ++ [10%N]) ++ concat (map (fun line => line ++ [10%N]) (Cli.chunks80 (snd c)))) cs)) /\
  expected_getset files names = concat (map (fun s => fasta_of (input_records files s)) names) /\
  expected_listset files = concat (map (fun s => s ++ [10%N]) (input_samples files)) /\
  expected_listctg files names =
    concat (map (fun l => l ++ [10%N]) (flat_map (fun s => map (fun c => s ++ [9%N] ++ fst c) (input_records files s)) names)) /\
  all_first_line_ok files = Forall (fun ft => Fasta.first_line_ok (snd ft) = true) files.
Proof. intros. repeat split; reflexivity. Qed.

Example first_seen_example :
  first_seen [] [[98]; [97]; [98]; [99]; [97]] = [[98]; [97]; [99]]%N.
Proof. vm_compute. reflexivity. Qed.

(* ======================================================================== 1. the reader chain *)
(* what Cli.v's archive queries answer on ANY file the format-rule decoder reads: the decoder's catalogue, contig letters
   through the output mapping; first sample of a name, unknown names fail *)
Theorem cli_decode_answers : forall zd bytes cat, AgcV3.decode zd bytes = Ok cat ->
  cli_decode zd bytes = Some (cli_archive_of cat) /\
  Cli.list_samples (cli_archive_of cat) = map fst cat /\
  (forall s, In s (map fst cat) ->
     Cli.get_sample (cli_archive_of cat) s =
       Some (map (fun nc => (fst nc, Fasta.out_letters (snd nc))) (Fasta.contigs_of cat s)) /\
     Cli.list_contigs (cli_archive_of cat) s = Some (map fst (Fasta.contigs_of cat s))) /\
  (forall s, ~ In s (map fst cat) ->
     Cli.get_sample (cli_archive_of cat) s = None /\ Cli.list_contigs (cli_archive_of cat) s = None).
Proof. exact CliGrand_proofs.cli_decode_answers_proof. Qed.
Print Assumptions cli_decode_answers.

(* ======================================================================== 2. the answers are the input text's *)
(* the sample set create parses, seen through the output letters, is: sample names in order of first appearance; per
   sample the named records with a base, in input order, sequences read back (upper case, non-letters dropped,
   non-IUPAC letters and the kept non-letters -> N) *)
Theorem parsed_is_input : forall files arch, all_first_line_ok files -> text_samples files = Ok arch ->
  map fst arch = input_samples files /\
  (forall s, map (fun nc => (fst nc, Fasta.out_letters (snd nc))) (Fasta.contigs_of arch s) = input_records files s).
Proof. exact CliGrand_proofs.view_of_text_proof. Qed.
Print Assumptions parsed_is_input.

(* the same for C16's create_view, the view checks/c16.py compares with the real create / listset / listctg / getset *)
Theorem create_view_is_input : forall files v, all_first_line_ok files -> Fasta.create_view files = Ok v ->
  map fst v = input_samples files /\ (forall s, Fasta.contigs_of v s = input_records files s).
Proof. exact CliGrand_proofs.create_view_is_input_proof. Qed.
Print Assumptions create_view_is_input.

(* on the property's alphabet (none of the bytes [ \ ] ^ _ ` { | } ~ DEL) the read-back is C16's normal form *)
Theorem read_back_is_norm : forall s, (forall c, In c s -> Fasta.odd_byte c = false) -> Fasta.read_back s = Fasta.norm s.
Proof. exact CliGrand_proofs.read_back_norm_proof. Qed.
Print Assumptions read_back_is_norm.

(* ======================================================================== 3. create, then getset / listset / listctg *)
(* GETSET, stdout.  For FASTA input texts [files] under the hypotheses of C01G text_roundtrip: if the modelled
   `ragc create` - Cli.run_main on CmdCreate with the pipeline outcome instantiated by model_create on the parsed
   texts - exits Zero, then for every non-empty request [names] of sample names of the input (repeats allowed) the
   modelled `ragc getset out.agc names` exits Zero and appends to stdout exactly
     concat (map (fun s => fasta_of (input_records files s)) names)
   the temp file is gone and no other file changed. *)
Theorem cli_create_then_getset :
  forall (zc : N -> list N -> list N) (zd : list N -> option (list N)),
  (forall l x, zd (zc l x) = Some x) -> (forall l x, zc l x <> []) ->
  forall ecn k mml segsize level spl dec grp sched gops fti leftover files arch,
  1 <= k <= 32 -> 4 <= mml -> mml < two32 -> segsize < two32 -> segsize + k <= 2147483648%N ->
  all_first_line_ok files ->
  text_samples files = Ok arch ->
  Forall (fun s => fst s <> []) arch ->
  (forall s c data, In (s, c, data) (pushes_of arch) -> 2 * lenN data + mml < 2147483648%N) ->
  (forall i s c data j sg, nth_error (pushes_of arch) i = Some (s, c, data) ->
     nth_error (split_at_splitters_with_size data spl k segsize) j = Some sg ->
     decision_okb (N.to_nat k) sg (dec i j) = true) ->
  (forall i part, grp i part < two32) ->
  (forall l, Permutation l (sched l)) ->
  ops_carry (all_emit k spl segsize dec grp 0 (pushes_of arch)) gops ->
  forall b : built,
  model_build zc ecn k mml segsize level spl dec grp sched gops fti arch = Ok b ->
  catalogue_in_dom zc segsize k (mc_cat_of (b_coll b)) ->
  parts_meta_u64 (b_wops b) ->
  lenN (b_file b) <= spec_max_off ->
  forall (f : Cli.create_flags) (output tmp : Cli.str) (st st' : Cli.pstate),
  Cli.run_main (cli_decode zd) tmp
    (Cli.CmdCreate f output (create_pipe zc ecn k mml segsize level spl dec grp sched gops fti leftover files)) st
    = (Cli.Zero, st') ->
  forall names : list Cli.str,
  names <> [] -> Forall (fun n => In n (input_samples files)) names ->
  Cli.creatable (Cli.p_fs st) tmp = true -> tmp <> output ->
  exists st'', Cli.run_main (cli_decode zd) tmp (Cli.CmdGetset output names None None) st' = (Cli.Zero, st'') /\
    Cli.p_stdout st'' = Cli.p_stdout st ++ expected_getset files names /\
    Cli.fs_read (Cli.p_fs st'') tmp = None /\
    (forall q, q <> tmp -> Cli.fs_read (Cli.p_fs st'') q = Cli.fs_read (Cli.p_fs st') q).
Proof. exact CliGrand_proofs.cli_create_then_getset_proof. Qed.
Print Assumptions cli_create_then_getset.

(* GETSET, -o file: the file holds exactly that text whatever it held before; stdout untouched *)
Theorem cli_create_then_getset_file :
  forall (zc : N -> list N -> list N) (zd : list N -> option (list N)),
  (forall l x, zd (zc l x) = Some x) -> (forall l x, zc l x <> []) ->
  forall ecn k mml segsize level spl dec grp sched gops fti leftover files arch,
  1 <= k <= 32 -> 4 <= mml -> mml < two32 -> segsize < two32 -> segsize + k <= 2147483648%N ->
  all_first_line_ok files ->
  text_samples files = Ok arch ->
  Forall (fun s => fst s <> []) arch ->
  (forall s c data, In (s, c, data) (pushes_of arch) -> 2 * lenN data + mml < 2147483648%N) ->
  (forall i s c data j sg, nth_error (pushes_of arch) i = Some (s, c, data) ->
     nth_error (split_at_splitters_with_size data spl k segsize) j = Some sg ->
     decision_okb (N.to_nat k) sg (dec i j) = true) ->
  (forall i part, grp i part < two32) ->
  (forall l, Permutation l (sched l)) ->
  ops_carry (all_emit k spl segsize dec grp 0 (pushes_of arch)) gops ->
  forall b : built,
  model_build zc ecn k mml segsize level spl dec grp sched gops fti arch = Ok b ->
  catalogue_in_dom zc segsize k (mc_cat_of (b_coll b)) ->
  parts_meta_u64 (b_wops b) ->
  lenN (b_file b) <= spec_max_off ->
  forall (f : Cli.create_flags) (output tmp : Cli.str) (st st' : Cli.pstate),
  Cli.run_main (cli_decode zd) tmp
    (Cli.CmdCreate f output (create_pipe zc ecn k mml segsize level spl dec grp sched gops fti leftover files)) st
    = (Cli.Zero, st') ->
  forall (names : list Cli.str) (out : Cli.str),
  names <> [] -> Forall (fun n => In n (input_samples files)) names ->
  Cli.creatable (Cli.p_fs st) tmp = true -> Cli.creatable (Cli.p_fs st) out = true ->
  out <> tmp -> tmp <> output -> out <> output ->
  exists st'', Cli.run_main (cli_decode zd) tmp (Cli.CmdGetset output names None (Some out)) st' = (Cli.Zero, st'') /\
    Cli.fs_read (Cli.p_fs st'') out = Some (expected_getset files names) /\
    Cli.p_stdout st'' = Cli.p_stdout st /\
    Cli.fs_read (Cli.p_fs st'') tmp = None /\
    (forall q, q <> tmp -> q <> out -> Cli.fs_read (Cli.p_fs st'') q = Cli.fs_read (Cli.p_fs st') q).
Proof. exact CliGrand_proofs.cli_create_then_getset_file_proof. Qed.
Print Assumptions cli_create_then_getset_file.

(* exit codes tell the truth about the request: after such a create, getset exits Zero EXACTLY when every requested
   name is a sample of the input (an unknown name anywhere in the request gives a non-zero exit status) *)
Theorem cli_getset_zero_iff :
  forall (zc : N -> list N -> list N) (zd : list N -> option (list N)),
  (forall l x, zd (zc l x) = Some x) -> (forall l x, zc l x <> []) ->
  forall ecn k mml segsize level spl dec grp sched gops fti leftover files arch,
  1 <= k <= 32 -> 4 <= mml -> mml < two32 -> segsize < two32 -> segsize + k <= 2147483648%N ->
  all_first_line_ok files ->
  text_samples files = Ok arch ->
  Forall (fun s => fst s <> []) arch ->
  (forall s c data, In (s, c, data) (pushes_of arch) -> 2 * lenN data + mml < 2147483648%N) ->
  (forall i s c data j sg, nth_error (pushes_of arch) i = Some (s, c, data) ->
     nth_error (split_at_splitters_with_size data spl k segsize) j = Some sg ->
     decision_okb (N.to_nat k) sg (dec i j) = true) ->
  (forall i part, grp i part < two32) ->
  (forall l, Permutation l (sched l)) ->
  ops_carry (all_emit k spl segsize dec grp 0 (pushes_of arch)) gops ->
  forall b : built,
  model_build zc ecn k mml segsize level spl dec grp sched gops fti arch = Ok b ->
  catalogue_in_dom zc segsize k (mc_cat_of (b_coll b)) ->
  parts_meta_u64 (b_wops b) ->
  lenN (b_file b) <= spec_max_off ->
  forall (f : Cli.create_flags) (output tmp : Cli.str) (st st' : Cli.pstate),
  Cli.run_main (cli_decode zd) tmp
    (Cli.CmdCreate f output (create_pipe zc ecn k mml segsize level spl dec grp sched gops fti leftover files)) st
    = (Cli.Zero, st') ->
  forall names : list Cli.str,
  names <> [] -> Cli.creatable (Cli.p_fs st) tmp = true -> tmp <> output ->
  (fst (Cli.run_main (cli_decode zd) tmp (Cli.CmdGetset output names None None) st') = Cli.Zero <->
   Forall (fun n => In n (input_samples files)) names).
Proof. exact CliGrand_proofs.cli_getset_zero_iff_proof. Qed.
Print Assumptions cli_getset_zero_iff.

(* LISTSET: the input's sample names in order of first appearance, one per line (stdout or -o file) *)
Theorem cli_listset_after_create :
  forall (zc : N -> list N -> list N) (zd : list N -> option (list N)),
  (forall l x, zd (zc l x) = Some x) -> (forall l x, zc l x <> []) ->
  forall ecn k mml segsize level spl dec grp sched gops fti leftover files arch,
  1 <= k <= 32 -> 4 <= mml -> mml < two32 -> segsize < two32 -> segsize + k <= 2147483648%N ->
  all_first_line_ok files ->
  text_samples files = Ok arch ->
  Forall (fun s => fst s <> []) arch ->
  (forall s c data, In (s, c, data) (pushes_of arch) -> 2 * lenN data + mml < 2147483648%N) ->
  (forall i s c data j sg, nth_error (pushes_of arch) i = Some (s, c, data) ->
     nth_error (split_at_splitters_with_size data spl k segsize) j = Some sg ->
     decision_okb (N.to_nat k) sg (dec i j) = true) ->
  (forall i part, grp i part < two32) ->
  (forall l, Permutation l (sched l)) ->
  ops_carry (all_emit k spl segsize dec grp 0 (pushes_of arch)) gops ->
  forall b : built,
  model_build zc ecn k mml segsize level spl dec grp sched gops fti arch = Ok b ->
  catalogue_in_dom zc segsize k (mc_cat_of (b_coll b)) ->
  parts_meta_u64 (b_wops b) ->
  lenN (b_file b) <= spec_max_off ->
  forall (f : Cli.create_flags) (output tmp : Cli.str) (st st' : Cli.pstate),
  Cli.run_main (cli_decode zd) tmp
    (Cli.CmdCreate f output (create_pipe zc ecn k mml segsize level spl dec grp sched gops fti leftover files)) st
    = (Cli.Zero, st') ->
  forall o : option Cli.str,
  (forall p, o = Some p -> Cli.creatable (Cli.p_fs st) p = true /\ p <> output) ->
  exists st'', Cli.run_main (cli_decode zd) tmp (Cli.CmdListset output o) st' = (Cli.Zero, st'') /\
    match o with
    | None => Cli.p_stdout st'' = Cli.p_stdout st ++ expected_listset files /\ Cli.p_fs st'' = Cli.p_fs st'
    | Some p => Cli.fs_read (Cli.p_fs st'') p = Some (expected_listset files) /\ Cli.p_stdout st'' = Cli.p_stdout st /\
                (forall q, p <> q -> Cli.fs_read (Cli.p_fs st'') q = Cli.fs_read (Cli.p_fs st') q)
    end.
Proof. exact CliGrand_proofs.cli_listset_after_create_proof. Qed.
Print Assumptions cli_listset_after_create.

(* LISTCTG: "sample\tcontig" for every named record with a base of the requested samples, in input order *)
Theorem cli_listctg_after_create :
  forall (zc : N -> list N -> list N) (zd : list N -> option (list N)),
  (forall l x, zd (zc l x) = Some x) -> (forall l x, zc l x <> []) ->
  forall ecn k mml segsize level spl dec grp sched gops fti leftover files arch,
  1 <= k <= 32 -> 4 <= mml -> mml < two32 -> segsize < two32 -> segsize + k <= 2147483648%N ->
  all_first_line_ok files ->
  text_samples files = Ok arch ->
  Forall (fun s => fst s <> []) arch ->
  (forall s c data, In (s, c, data) (pushes_of arch) -> 2 * lenN data + mml < 2147483648%N) ->
  (forall i s c data j sg, nth_error (pushes_of arch) i = Some (s, c, data) ->
     nth_error (split_at_splitters_with_size data spl k segsize) j = Some sg ->
     decision_okb (N.to_nat k) sg (dec i j) = true) ->
  (forall i part, grp i part < two32) ->
  (forall l, Permutation l (sched l)) ->
  ops_carry (all_emit k spl segsize dec grp 0 (pushes_of arch)) gops ->
  forall b : built,
  model_build zc ecn k mml segsize level spl dec grp sched gops fti arch = Ok b ->
  catalogue_in_dom zc segsize k (mc_cat_of (b_coll b)) ->
  parts_meta_u64 (b_wops b) ->
  lenN (b_file b) <= spec_max_off ->
  forall (f : Cli.create_flags) (output tmp : Cli.str) (st st' : Cli.pstate),
  Cli.run_main (cli_decode zd) tmp
    (Cli.CmdCreate f output (create_pipe zc ecn k mml segsize level spl dec grp sched gops fti leftover files)) st
    = (Cli.Zero, st') ->
  forall (names : list Cli.str) (o : option Cli.str),
  Forall (fun n => In n (input_samples files)) names ->
  (forall p, o = Some p -> Cli.creatable (Cli.p_fs st) p = true /\ p <> output) ->
  exists st'', Cli.run_main (cli_decode zd) tmp (Cli.CmdListctg output names o) st' = (Cli.Zero, st'') /\
    match o with
    | None => Cli.p_stdout st'' = Cli.p_stdout st ++ expected_listctg files names /\ Cli.p_fs st'' = Cli.p_fs st'
    | Some p => Cli.fs_read (Cli.p_fs st'') p = Some (expected_listctg files names) /\ Cli.p_stdout st'' = Cli.p_stdout st /\
                (forall q, p <> q -> Cli.fs_read (Cli.p_fs st'') q = Cli.fs_read (Cli.p_fs st') q)
    end.
Proof. exact CliGrand_proofs.cli_listctg_after_create_proof. Qed.
Print Assumptions cli_listctg_after_create.

(* ======================================================================== 4. with the fallible output file of C15 *)
(* the Archive history of model_build is [register / add_part_buffered calls] ++ [flush_buffers]; the calls before
   finalize only buffer (C15's hypothesis), and C15's complete archive for them is model_build's file *)
Theorem history_before_finalize :
  forall zc ecn k mml segsize level spl dec grp sched gops fti arch b,
  model_build zc ecn k mml segsize level spl dec grp sched gops fti arch = Ok b ->
  b_wops b = pre_finalize b ++ [WFlush] /\
  Forall Sink.buffered_only (pre_finalize b) /\
  Sink.complete_file (pre_finalize b) = b_file b.
Proof. exact CliGrand_proofs.model_history_split. Qed.
Print Assumptions history_before_finalize.

(* FAULT OR ROUND TRIP.  The pipeline outcome instantiated by create_pipe_io: model_build's history replayed on a
   file with ANY acceptance policy [pol] and BufWriter capacity [cap], then finalize / Drop / exit status (Sink.main_io).
   (i)  if the modelled create exits Zero, the pipeline outcome is the one of create_pipe (so cli_create_then_getset,
        .._file, cli_listset_after_create, cli_listctg_after_create apply to this run), the bytes at the output path are
        model_build's file, and the format-rule decoder reads the parsed input back from them;
   (ii) on a file system that refuses to grow the file beyond [limit] < the archive size (RLIMIT_FSIZE, disk full; a
        failing write stores the fitting part or nothing) create exits NonZero, prints nothing, touches no other path,
        and what it leaves at the output path is not longer than the limit. *)
Theorem cli_create_fault_or_roundtrip :
  forall (zc : N -> list N -> list N) (zd : list N -> option (list N)),
  (forall l x, zd (zc l x) = Some x) -> (forall l x, zc l x <> []) ->
  forall ecn k mml segsize level spl dec grp sched gops fti leftover files arch,
  1 <= k <= 32 -> 4 <= mml -> mml < two32 -> segsize < two32 -> segsize + k <= 2147483648%N ->
  text_samples files = Ok arch ->
  Forall (fun s => fst s <> []) arch ->
  (forall s c data, In (s, c, data) (pushes_of arch) -> 2 * lenN data + mml < 2147483648%N) ->
  (forall i s c data j sg, nth_error (pushes_of arch) i = Some (s, c, data) ->
     nth_error (split_at_splitters_with_size data spl k segsize) j = Some sg ->
     decision_okb (N.to_nat k) sg (dec i j) = true) ->
  (forall i part, grp i part < two32) ->
  (forall l, Permutation l (sched l)) ->
  ops_carry (all_emit k spl segsize dec grp 0 (pushes_of arch)) gops ->
  forall b : built,
  model_build zc ecn k mml segsize level spl dec grp sched gops fti arch = Ok b ->
  catalogue_in_dom zc segsize k (mc_cat_of (b_coll b)) ->
  parts_meta_u64 (b_wops b) ->
  lenN (b_file b) <= spec_max_off ->
  forall (cap : N) (f : Cli.create_flags) (output tmp : Cli.str) (st : Cli.pstate),
  (forall pol st',
     Cli.run_main (cli_decode zd) tmp
       (Cli.CmdCreate f output (create_pipe_io zc ecn k mml segsize level spl dec grp sched gops fti leftover pol cap files)) st
       = (Cli.Zero, st') ->
     create_pipe_io zc ecn k mml segsize level spl dec grp sched gops fti leftover pol cap files =
       create_pipe zc ecn k mml segsize level spl dec grp sched gops fti leftover files /\
     Cli.fs_read (Cli.p_fs st') output = Some (b_file b) /\ Cli.p_stdout st' = Cli.p_stdout st /\
     decode zd (b_file b) = Ok arch) /\
  (forall partial limit, limit < lenN (b_file b) ->
     exists st',
       Cli.run_main (cli_decode zd) tmp
         (Cli.CmdCreate f output (create_pipe_io zc ecn k mml segsize level spl dec grp sched gops fti leftover
                                                 (Sink.limit_policy partial limit) cap files)) st
       = (Cli.NonZero, st') /\
       Cli.p_stdout st' = Cli.p_stdout st /\
       (forall q, q <> output -> Cli.fs_read (Cli.p_fs st') q = Cli.fs_read (Cli.p_fs st) q) /\
       ((forall c nt cg, Cli.create_dispatch f <> Cli.DProceed c nt cg) -> st' = st) /\
       (forall c nt cg, Cli.create_dispatch f = Cli.DProceed c nt cg ->
          exists lo, Cli.fs_read (Cli.p_fs st') output = Some lo /\ lenN lo <= limit)).
Proof. exact CliGrand_proofs.cli_create_fault_or_roundtrip_proof. Qed.
Print Assumptions cli_create_fault_or_roundtrip.

(* (i) spelled out for getset: whatever the file system did, exit 0 of create means getset prints the input *)
Theorem cli_create_io_then_getset :
  forall (zc : N -> list N -> list N) (zd : list N -> option (list N)),
  (forall l x, zd (zc l x) = Some x) -> (forall l x, zc l x <> []) ->
  forall ecn k mml segsize level spl dec grp sched gops fti leftover files arch,
  1 <= k <= 32 -> 4 <= mml -> mml < two32 -> segsize < two32 -> segsize + k <= 2147483648%N ->
  all_first_line_ok files ->
  text_samples files = Ok arch ->
  Forall (fun s => fst s <> []) arch ->
  (forall s c data, In (s, c, data) (pushes_of arch) -> 2 * lenN data + mml < 2147483648%N) ->
  (forall i s c data j sg, nth_error (pushes_of arch) i = Some (s, c, data) ->
     nth_error (split_at_splitters_with_size data spl k segsize) j = Some sg ->
     decision_okb (N.to_nat k) sg (dec i j) = true) ->
  (forall i part, grp i part < two32) ->
  (forall l, Permutation l (sched l)) ->
  ops_carry (all_emit k spl segsize dec grp 0 (pushes_of arch)) gops ->
  forall b : built,
  model_build zc ecn k mml segsize level spl dec grp sched gops fti arch = Ok b ->
  catalogue_in_dom zc segsize k (mc_cat_of (b_coll b)) ->
  parts_meta_u64 (b_wops b) ->
  lenN (b_file b) <= spec_max_off ->
  forall (pol : Sink.policy) (cap : N) (f : Cli.create_flags) (output tmp : Cli.str) (st st' : Cli.pstate)
         (names : list Cli.str),
  Cli.run_main (cli_decode zd) tmp
    (Cli.CmdCreate f output (create_pipe_io zc ecn k mml segsize level spl dec grp sched gops fti leftover pol cap files)) st
    = (Cli.Zero, st') ->
  names <> [] -> Forall (fun n => In n (input_samples files)) names ->
  Cli.creatable (Cli.p_fs st) tmp = true -> tmp <> output ->
  exists st'', Cli.run_main (cli_decode zd) tmp (Cli.CmdGetset output names None None) st' = (Cli.Zero, st'') /\
    Cli.p_stdout st'' = Cli.p_stdout st ++ expected_getset files names /\
    Cli.fs_read (Cli.p_fs st'') tmp = None /\
    (forall q, q <> tmp -> Cli.fs_read (Cli.p_fs st'') q = Cli.fs_read (Cli.p_fs st') q).
Proof. exact CliGrand_proofs.cli_create_io_then_getset_proof. Qed.
Print Assumptions cli_create_io_then_getset.

(* ======================================================================== non-vacuity
   the instance of C01G text_roundtrip_nonvacuous: r.fa = ">a\nACGT\n>b\nTG\n", s.fa = ">x#1#c\nAC\n>p\nGX\n>e\n\n" (a PanSN
   header, a non-IUPAC letter, a record without bases), k = 3, no splitters, LZ group 16 and raw group 5, toy zstd.
   Every hypothesis of the theorems above holds, `create -o o r.fa s.fa` exits Zero on the empty file system, and the
   outputs of getset / listset / listctg - computed by running Cli.run_main with cli_decode on the bytes model_create
   produced - are the texts expected from the input, written out as bytes. *)
Definition ex_flags : Cli.create_flags :=
  {| Cli.f_adaptive := false; Cli.f_concatenated := false; Cli.f_batch := false; Cli.f_cpp_agc := false; Cli.f_verbosity := 1;
     Cli.f_threads := Some 0; Cli.f_qcap := [50;71]; Cli.f_ninputs := 2; Cli.f_output_utf8 := true; Cli.f_checked := false;
     Cli.f_ncpus := 16 |}.
Definition ex_st : Cli.pstate := {| Cli.p_fs := {| Cli.files := []; Cli.nocreate := [[120]] |}; Cli.p_stdout := [] |}.
Definition ex_zd := SegCompress_proofs.toy_zd.
Definition ex_pipe : Cli.pipe_result :=
  create_pipe SegCompress_proofs.toy_zc (fun c => c) 3 4 60 17 (set_of_list []) C01G.ex2_dec C01G.ex2_grp (fun l => l)
              C01G.ex2_gops C01G.ex_fti None C01G.ex2_files.
Definition ex_pipe_io (pol : Sink.policy) (cap : N) : Cli.pipe_result :=
  create_pipe_io SegCompress_proofs.toy_zc (fun c => c) 3 4 60 17 (set_of_list []) C01G.ex2_dec C01G.ex2_grp (fun l => l)
                 C01G.ex2_gops C01G.ex_fti None pol cap C01G.ex2_files.
Definition ex_created : Cli.exitc * Cli.pstate := Cli.run_main (cli_decode ex_zd) [116] (Cli.CmdCreate ex_flags [111] ex_pipe) ex_st.
(* ">p\nGN\n"  ">a\nACGT\n>b\nTG\n"  ">x#1#c\nAC\n" *)
Definition ex_s : list N := [62;112;10;71;78;10].
Definition ex_r : list N := [62;97;10;65;67;71;84;10;62;98;10;84;71;10].
Definition ex_x : list N := [62;120;35;49;35;99;10;65;67;10].

Example cli_grand_nonvacuous : exists b,
  (* the hypotheses *)
  C01G.ex2_build = Ok b /\
  (forall l x, ex_zd (SegCompress_proofs.toy_zc l x) = Some x) /\ (forall l x, SegCompress_proofs.toy_zc l x <> []) /\
  all_first_line_ok C01G.ex2_files /\
  text_samples C01G.ex2_files = Ok C01G.ex2_arch /\
  Forall (fun s : name * list (name * list N) => fst s <> []) C01G.ex2_arch /\
  (forall s c data, In (s, c, data) (pushes_of C01G.ex2_arch) -> 2 * lenN data + 4 < 2147483648%N) /\
  decisions_ok 3 (set_of_list []) 60 C01G.ex2_dec (pushes_of C01G.ex2_arch) /\
  (forall i part, C01G.ex2_grp i part < two32) /\
  ops_carry C01G.ex2_emitted C01G.ex2_gops /\
  catalogue_in_dom SegCompress_proofs.toy_zc 60 3 (mc_cat_of (b_coll b)) /\
  parts_meta_u64 (b_wops b) /\
  lenN (b_file b) <= spec_max_off /\
  fst ex_created = Cli.Zero /\
  Cli.creatable (Cli.p_fs ex_st) [116] = true /\ Cli.creatable (Cli.p_fs ex_st) [119] = true /\
  (* the input, as the statements see it *)
  input_samples C01G.ex2_files = [[114]; [120;35;49]; [115]] /\
  input_records C01G.ex2_files [114] = [([97], [65;67;71;84]); ([98], [84;71])] /\
  input_records C01G.ex2_files [115] = [([112], [71;78])] /\
  expected_getset C01G.ex2_files [[115]; [114]; [115]] = ex_s ++ ex_r ++ ex_s /\
  (* and the conclusions, computed from the bytes model_create wrote *)
  (let r := Cli.run_main (cli_decode ex_zd) [116] (Cli.CmdGetset [111] [[115]; [114]; [115]] None None) (snd ex_created) in
   fst r = Cli.Zero /\ Cli.p_stdout (snd r) = ex_s ++ ex_r ++ ex_s) /\
  (let r := Cli.run_main (cli_decode ex_zd) [116] (Cli.CmdGetset [111] [[120;35;49]; [114]] None (Some [119])) (snd ex_created) in
   fst r = Cli.Zero /\ Cli.fs_read (Cli.p_fs (snd r)) [119] = Some (ex_x ++ ex_r) /\ Cli.p_stdout (snd r) = []) /\
  (let r := Cli.run_main (cli_decode ex_zd) [116] (Cli.CmdListset [111] None) (snd ex_created) in
   fst r = Cli.Zero /\ Cli.p_stdout (snd r) = [114;10; 120;35;49;10; 115;10] /\
   Cli.p_stdout (snd r) = expected_listset C01G.ex2_files) /\
  (let r := Cli.run_main (cli_decode ex_zd) [116] (Cli.CmdListctg [111] [[120;35;49]; [114]] None) (snd ex_created) in
   fst r = Cli.Zero /\
   Cli.p_stdout (snd r) = [120;35;49;9;120;35;49;35;99;10; 114;9;97;10; 114;9;98;10] /\
   Cli.p_stdout (snd r) = expected_listctg C01G.ex2_files [[120;35;49]; [114]]) /\
  (* a name that is not a sample of the input: non-zero *)
  fst (Cli.run_main (cli_decode ex_zd) [116] (Cli.CmdGetset [111] [[114]; [122]] None None) (snd ex_created)) = Cli.NonZero.
Proof.
  destruct C01G.text_roundtrip_nonvacuous as (b & H1 & H2 & _ & H4 & H5 & H6 & H7 & H8 & H9 & H10 & H11 & _).
  exists b. split; [exact H1|].
  split; [exact (proj1 SegCompress_proofs.toy_ok)|]. split; [exact C01.toy_zc_never_empty|].
  split; [repeat constructor|]. split; [exact H2|]. split; [exact H4|]. split; [exact H5|]. split; [exact H6|].
  split; [exact H7|]. split; [exact H8|]. split; [exact H9|]. split; [exact H10|]. split; [exact H11|].
  vm_compute. repeat split; reflexivity.
Qed.

(* the fallible file underneath: with room for the whole archive create exits Zero and the pipeline outcome is
   create_pipe's; with limits below the archive size (0, 1, 13, 200: inside parts; n-9, n-8: inside the footer length;
   n-1; both kinds of failing write, three BufWriter capacities) create exits NonZero and leaves at most [limit] bytes *)
Definition fault_row (partial : bool) (cap limit : N) : bool :=
  let r := Cli.run_main (cli_decode ex_zd) [116] (Cli.CmdCreate ex_flags [111] (ex_pipe_io (Sink.limit_policy partial limit) cap)) ex_st in
  match fst r, Cli.fs_read (Cli.p_fs (snd r)) [111] with
  | Cli.NonZero, Some lo => lenN lo <=? limit
  | _, _ => false
  end.
Example cli_fault_or_roundtrip_nonvacuous :
  match C01G.ex2_build with
  | Ok b =>
    Forall Sink.buffered_only (pre_finalize b) /\
    (let n := lenN (b_file b) in
     (400 <? n) = true /\
     ex_pipe_io (Sink.limit_policy true n) 4096 = ex_pipe /\ ex_pipe = Cli.PipeFinalized (b_file b) /\
     fst (Cli.run_main (cli_decode ex_zd) [116] (Cli.CmdCreate ex_flags [111] (ex_pipe_io (Sink.limit_policy true n) 4096)) ex_st)
       = Cli.Zero /\
     forallb (fun cap => forallb (fun l => fault_row true cap l && fault_row false cap l)
                                 [0; 1; 13; 200; n - 9; n - 8; n - 1]) [0; 64; 4194304] = true)
  | _ => False
  end.
Proof.
  assert (H : match C01G.ex2_build with
              | Ok b =>
                forallb (fun o => match o with WAdd _ _ _ => false | WFlush => false | _ => true end) (pre_finalize b) = true /\
                (let n := lenN (b_file b) in
                 (400 <? n) = true /\
                 ex_pipe_io (Sink.limit_policy true n) 4096 = ex_pipe /\ ex_pipe = Cli.PipeFinalized (b_file b) /\
                 fst (Cli.run_main (cli_decode ex_zd) [116]
                        (Cli.CmdCreate ex_flags [111] (ex_pipe_io (Sink.limit_policy true n) 4096)) ex_st) = Cli.Zero /\
                 forallb (fun cap => forallb (fun l => fault_row true cap l && fault_row false cap l)
                                             [0; 1; 13; 200; n - 9; n - 8; n - 1]) [0; 64; 4194304] = true)
              | _ => False
              end) by (vm_compute; repeat split; reflexivity).
  destruct C01G.ex2_build as [b| |]; [|contradiction|contradiction].
  destruct H as (Hf & H). split; [|exact H].
  rewrite forallb_forall in Hf. apply Forall_forall. intros o Ho. specialize (Hf o Ho).
  destruct o; try exact I; discriminate.
Qed.
