(* C17 - CLI extraction composes and exit codes tell the truth.
   getset with several sample names, or with a prefix matching several samples, writes the records of all requested
   samples in request (respectively archive) order, identical to concatenating the single-sample extractions, both to
   stdout and to an -o file.  Every failure (unknown sample, unreadable archive, unsupported flag combination) gives a
   non-zero exit status, and create exiting 0 implies the archive exists and lists every input sample.

   Model: Cli.v (main.rs dispatch, getset/listset/listctg/create_archive decision part, parse_capacity;
   decompressor.rs write_sample_fasta / list_samples_with_prefix; genome_io.rs GenomeWriter) over a file-system
   model.  [decode] (Decompressor::open on the archive bytes) is universally quantified in every statement;
   [sample_fasta ar s] is exactly what `getset arc s` writes for the single sample s (getset_composes_stdout with
   a one-element request).  The compression pipeline behind create is the value [pr] (C01 / C15 own it). *)
From Ragc Require Import Mach Cli Cli_proofs.
Open Scope N_scope.

(* ---- which samples are extracted: the names as given, or the prefix matches in ARCHIVE order (not sorted) *)
Theorem requested_names : forall ar samples, requested ar samples None = samples.
Proof. exact Cli_proofs.requested_names_proof. Qed.
Print Assumptions requested_names.

Theorem requested_prefix_archive_order : forall ar samples p,
  requested ar samples (Some p) = filter (fun s => starts_with s p) (map fst ar).
Proof. exact Cli_proofs.requested_prefix_archive_order_proof. Qed.
Print Assumptions requested_prefix_archive_order.

Theorem starts_with_spec : forall s p, starts_with s p = true <-> exists t, s = p ++ t.
Proof. exact Cli_proofs.starts_with_spec_proof. Qed.
Print Assumptions starts_with_spec.

(* ---- composition, stdout: exit 0, stdout grows by the concatenation of the single-sample texts in request
   order (repeats allowed), the temp file is gone, no other file changed *)
Theorem getset_composes_stdout : forall decode arc samples prefix tmp st ar,
  open_archive decode (p_fs st) arc = Some ar ->
  requested ar samples prefix <> [] ->
  Forall (fun n => get_sample ar n <> None) (requested ar samples prefix) ->
  creatable (p_fs st) tmp = true ->
  exists st', getset_command decode arc samples prefix None tmp st = (Zero, st') /\
    p_stdout st' = p_stdout st ++ concat (map (sample_fasta ar) (requested ar samples prefix)) /\
    fs_read (p_fs st') tmp = None /\
    (forall q, q <> tmp -> fs_read (p_fs st') q = fs_read (p_fs st) q).
Proof. exact Cli_proofs.getset_composes_stdout_proof. Qed.
Print Assumptions getset_composes_stdout.

(* ---- composition, -o file: the file holds exactly the concatenation whatever it held before; stdout untouched *)
Theorem getset_composes_file : forall decode arc samples prefix out tmp st ar,
  open_archive decode (p_fs st) arc = Some ar ->
  requested ar samples prefix <> [] ->
  Forall (fun n => get_sample ar n <> None) (requested ar samples prefix) ->
  creatable (p_fs st) tmp = true -> creatable (p_fs st) out = true -> out <> tmp ->
  exists st', getset_command decode arc samples prefix (Some out) tmp st = (Zero, st') /\
    fs_read (p_fs st') out = Some (concat (map (sample_fasta ar) (requested ar samples prefix))) /\
    p_stdout st' = p_stdout st /\
    fs_read (p_fs st') tmp = None /\
    (forall q, q <> tmp -> q <> out -> fs_read (p_fs st') q = fs_read (p_fs st) q).
Proof. exact Cli_proofs.getset_composes_file_proof. Qed.
Print Assumptions getset_composes_file.

(* non-vacuity: 3 samples (archive order b1, a, b0), request [b0; b1; b0] and prefix "b"; one contig is 100 letters
   long (two lines), one is empty; the -o file held junk before *)
Definition ex_long : str := repeat 65 100.
Definition ex_ar : archive :=
  [ ([98;49], Some [([99;49], Some [65;67;71;84])]);
    ([97],    Some [([99;49], Some [71;71])]);
    ([98;48], Some [([99;49], Some ex_long); ([99;50], Some [])]) ].
Definition ex_decode (b : str) : option archive := match b with [1] => Some ex_ar | _ => None end.
Definition ex_st : pstate :=
  {| p_fs := {| files := [([65], [1]); ([111], [74;85;78;75])]; nocreate := [[120]] |}; p_stdout := [] |}.
Definition ex_req : list str := [[98;48]; [98;49]; [98;48]].
Definition ex_b0 : str :=
  [62;99;49;10] ++ repeat 65 80 ++ [10] ++ repeat 65 20 ++ [10] ++ [62;99;50;10].
Definition ex_b1 : str := [62;99;49;10;65;67;71;84;10].

Example getset_composes_nonvacuous :
  open_archive ex_decode (p_fs ex_st) [65] = Some ex_ar /\
  requested ex_ar ex_req None = ex_req /\ ex_req <> [] /\
  Forall (fun n => get_sample ex_ar n <> None) ex_req /\
  creatable (p_fs ex_st) [116] = true /\ creatable (p_fs ex_st) [111] = true /\
  sample_fasta ex_ar [98;48] = ex_b0 /\ sample_fasta ex_ar [98;49] = ex_b1 /\
  (let r := getset_command ex_decode [65] ex_req None None [116] ex_st in
   fst r = Zero /\ p_stdout (snd r) = ex_b0 ++ ex_b1 ++ ex_b0) /\
  (let r := getset_command ex_decode [65] ex_req None (Some [111]) [116] ex_st in
   fst r = Zero /\ fs_read (p_fs (snd r)) [111] = Some (ex_b0 ++ ex_b1 ++ ex_b0) /\ p_stdout (snd r) = []) /\
  (* prefix "b": archive order b1, b0 - not sorted *)
  requested ex_ar [] (Some [98]) = [[98;49]; [98;48]] /\
  (let r := getset_command ex_decode [65] [] (Some [98]) None [116] ex_st in
   fst r = Zero /\ p_stdout (snd r) = ex_b1 ++ ex_b0).
Proof.
  repeat split; try (vm_compute; reflexivity); try discriminate.
  repeat constructor; vm_compute; discriminate.
Qed.

(* why [out <> tmp] is a hypothesis: in the model (POSIX offsets, create truncates) an -o path equal to the temp
   path ends with exit 0 and NO output - the final remove_file(temp) deletes it.  (The temp name contains the pid,
   so a user cannot hit this by accident.  An -o path equal to the ARCHIVE path is outside the model - the archive
   is read lazily -: the real binary truncates the archive and exits 1, "failed to fill whole buffer".) *)
Example getset_out_is_tmp_loses_output :
  let r := getset_command ex_decode [65] ex_req None (Some [116]) [116] ex_st in
  fst r = Zero /\ fs_read (p_fs (snd r)) [116] = None /\ p_stdout (snd r) = [].
Proof. repeat split; vm_compute; reflexivity. Qed.

(* ---- an unknown (or unreadable) sample: exit non-zero after exactly the earlier samples were written;
   the -o file exists (created once, before the loop); the temp file of the last good sample is left behind *)
Theorem getset_unknown_nonzero : forall decode arc samples prefix output tmp st ar good bad rest,
  open_archive decode (p_fs st) arc = Some ar ->
  requested ar samples prefix = good ++ bad :: rest ->
  Forall (fun n => get_sample ar n <> None) good -> get_sample ar bad = None ->
  creatable (p_fs st) tmp = true ->
  (forall o, output = Some o -> o <> tmp /\ creatable (p_fs st) o = true) ->
  exists st', getset_command decode arc samples prefix output tmp st = (NonZero, st') /\
    match output with
    | None => p_stdout st' = p_stdout st ++ concat (map (sample_fasta ar) good)
    | Some o => fs_read (p_fs st') o = Some (concat (map (sample_fasta ar) good)) /\ p_stdout st' = p_stdout st
    end /\
    (good <> [] -> fs_read (p_fs st') tmp = Some (sample_fasta ar (last good []))) /\
    (good = [] -> fs_read (p_fs st') tmp = fs_read (p_fs st) tmp).
Proof. exact Cli_proofs.getset_unknown_nonzero_proof. Qed.
Print Assumptions getset_unknown_nonzero.

Example getset_unknown_nonvacuous :
  get_sample ex_ar [122] = None /\
  (let r := getset_command ex_decode [65] [[98;49]; [122]; [97]] None None [116] ex_st in
   fst r = NonZero /\ p_stdout (snd r) = ex_b1 /\ fs_read (p_fs (snd r)) [116] = Some ex_b1) /\
  (let r := getset_command ex_decode [65] [[122]; [97]] None (Some [111]) [116] ex_st in
   fst r = NonZero /\ fs_read (p_fs (snd r)) [111] = Some [] /\ fs_read (p_fs (snd r)) [116] = None).
Proof. repeat split; vm_compute; reflexivity. Qed.

(* ---- exit 0 tells the truth: the archive opened, every requested sample was readable and all of them were written *)
Theorem getset_zero_complete : forall decode arc samples prefix output tmp st st',
  getset_command decode arc samples prefix output tmp st = (Zero, st') ->
  output <> Some tmp ->
  exists ar, open_archive decode (p_fs st) arc = Some ar /\
    requested ar samples prefix <> [] /\
    Forall (fun n => get_sample ar n <> None) (requested ar samples prefix) /\
    match output with
    | None => p_stdout st' = p_stdout st ++ concat (map (sample_fasta ar) (requested ar samples prefix))
    | Some o => fs_read (p_fs st') o = Some (concat (map (sample_fasta ar) (requested ar samples prefix)))
    end.
Proof. exact Cli_proofs.getset_zero_complete_proof. Qed.
Print Assumptions getset_zero_complete.

(* ---- every error path of the modelled dispatch yields a non-zero exit status:
   getset: archive missing / does not open; no names and no prefix, or a prefix matching nothing; an unknown or
           unreadable sample anywhere in the request; -o cannot be created; the temp file cannot be created
   listset, listctg: archive does not open; unknown sample; -o cannot be created
   create: --batch, --adaptive, --concatenated, --cpp-agc, non-UTF-8 output path, no inputs, a capacity string
           that does not parse (or overflows under overflow checks), any Err / panic inside the pipeline
   info: always (not implemented; it used to exit 0) *)
Theorem failures_nonzero : forall decode tmp st,
  (forall arc samples prefix output,
     open_archive decode (p_fs st) arc = None \/
     (exists ar, open_archive decode (p_fs st) arc = Some ar /\
        (requested ar samples prefix = [] \/
         Exists (fun n => get_sample ar n = None) (requested ar samples prefix) \/
         (exists o, output = Some o /\ creatable (p_fs st) o = false) \/
         creatable (p_fs st) tmp = false)) ->
     fst (run_main decode tmp (CmdGetset arc samples prefix output) st) = NonZero) /\
  (forall arc output,
     open_archive decode (p_fs st) arc = None \/
     (exists o, output = Some o /\ creatable (p_fs st) o = false) ->
     fst (run_main decode tmp (CmdListset arc output) st) = NonZero) /\
  (forall arc samples output,
     open_archive decode (p_fs st) arc = None \/
     (exists ar, open_archive decode (p_fs st) arc = Some ar /\
                 Exists (fun s => find_sample ar s = None) samples) \/
     (exists o, output = Some o /\ creatable (p_fs st) o = false) ->
     fst (run_main decode tmp (CmdListctg arc samples output) st) = NonZero) /\
  (forall f output pr,
     f_batch f = true \/ f_adaptive f = true \/ f_concatenated f = true \/ f_cpp_agc f = true \/
     f_output_utf8 f = false \/ f_ninputs f = 0 \/
     (forall v, parse_capacity (f_checked f) (f_qcap f) <> Ok v) \/
     (exists l, pr = PipeFail l) ->
     fst (run_main decode tmp (CmdCreate f output pr) st) = NonZero) /\
  (forall arc, fst (run_main decode tmp (CmdInfo arc) st) = NonZero).
Proof. exact Cli_proofs.failures_nonzero_proof. Qed.
Print Assumptions failures_nonzero.

Definition ex_flags (batch adaptive : bool) (q : str) : create_flags :=
  {| f_adaptive := adaptive; f_concatenated := false; f_batch := batch; f_cpp_agc := false; f_verbosity := 1;
     f_threads := Some 0; f_qcap := q; f_ninputs := 3; f_output_utf8 := true; f_checked := false; f_ncpus := 16 |}.
Example failures_nonvacuous :
  open_archive ex_decode (p_fs ex_st) [66] = None /\
  fst (run_main ex_decode [116] (CmdGetset [66] [[97]] None None) ex_st) = NonZero /\
  fst (run_main ex_decode [116] (CmdGetset [65] [] None None) ex_st) = NonZero /\
  fst (run_main ex_decode [116] (CmdGetset [65] [] (Some [122]) None) ex_st) = NonZero /\
  fst (run_main ex_decode [116] (CmdGetset [65] [[97]] None (Some [120])) ex_st) = NonZero /\
  fst (run_main ex_decode [116] (CmdListctg [65] [[97]; [122]] None) ex_st) = NonZero /\
  create_dispatch (ex_flags true false [50;71]) = DErr EBatch /\
  create_dispatch (ex_flags false true [50;71]) = DErr EAdaptiveConcat /\
  create_dispatch (ex_flags true true [50;71]) = DErr EBatch /\
  create_dispatch (ex_flags false true [49;88]) = DErr EBadCapacity /\
  create_dispatch (ex_flags false false []) = DErr EBadCapacity /\
  create_dispatch (ex_flags false false [50;71]) = DProceed 2147483648 15 false /\
  fst (run_main ex_decode [116] (CmdCreate (ex_flags false false [50;71]) [110] (PipeFail None)) ex_st) = NonZero.
Proof. repeat split; vm_compute; reflexivity. Qed.

(* a damaged archive whose sample names load but whose contig metadata does not (observed on the real binary with
   one flipped bit: "Null terminator not found"): listset prints the sample, listctg and getset fail *)
Definition ex_dmg (b : str) : option archive := match b with [1] => Some [([100], None); ([97], Some [])] | _ => None end.
Example damaged_metadata_nonvacuous :
  (let r := run_main ex_dmg [116] (CmdListset [65] None) ex_st in fst r = Zero /\ p_stdout (snd r) = [100;10;97;10]) /\
  fst (run_main ex_dmg [116] (CmdListctg [65] [[100]] None) ex_st) = NonZero /\
  fst (run_main ex_dmg [116] (CmdGetset [65] [[97]; [100]] None None) ex_st) = NonZero /\
  fst (run_main ex_dmg [116] (CmdGetset [65] [[97]] None None) ex_st) = Zero.
Proof. repeat split; vm_compute; reflexivity. Qed.

(* ---- create exits 0 only through finalize() = Ok, and then the output path holds what finalize wrote
   (write faults on the way are C15's: they arrive here as PipeFail) *)
Theorem create_zero_implies_archive : forall f output pr st st',
  create_archive f output pr st = (Zero, st') ->
  exists cap nt cg bytes, create_dispatch f = DProceed cap nt cg /\ pr = PipeFinalized bytes /\
    fs_read (p_fs st') output = Some bytes /\ p_stdout st' = p_stdout st.
Proof. exact Cli_proofs.create_zero_implies_archive_proof. Qed.
Print Assumptions create_zero_implies_archive.

(* the dispatch reaches the compressor exactly for this flag set *)
Theorem create_dispatch_proceeds_iff : forall f,
  (exists cap nt cg, create_dispatch f = DProceed cap nt cg) <->
  (f_batch f = false /\ f_adaptive f = false /\ f_concatenated f = false /\ f_cpp_agc f = false /\
   f_output_utf8 f = true /\ f_ninputs f <> 0 /\ exists cap, parse_capacity (f_checked f) (f_qcap f) = Ok cap).
Proof. exact Cli_proofs.create_dispatch_proceeds_iff_proof. Qed.
Print Assumptions create_dispatch_proceeds_iff.

(* with the hypothesis that what finalize wrote decodes to an archive registering every input sample
   (C01 / C15; checked on the real binary for every create that exits 0), listset on the result lists them *)
Theorem create_then_listset : forall decode f output pr st st' ar inputs,
  create_archive f output pr st = (Zero, st') ->
  (forall bytes, pr = PipeFinalized bytes -> decode bytes = Some ar /\ incl inputs (map fst ar)) ->
  exists st'', listset_command decode output None st' = (Zero, st'') /\
    p_stdout st'' = p_stdout st' ++ lines (map fst ar) /\
    (forall s, In s inputs -> In s (map fst ar)).
Proof. exact Cli_proofs.create_then_listset_proof. Qed.
Print Assumptions create_then_listset.

Example create_nonvacuous :
  let r := create_archive (ex_flags false false [50;71]) [110] (PipeFinalized [1]) ex_st in
  fst r = Zero /\ fs_read (p_fs (snd r)) [110] = Some [1] /\
  ex_decode [1] = Some ex_ar /\ incl [[97]; [98;48]] (map fst ex_ar) /\
  (let r2 := listset_command ex_decode [110] None (snd r) in
   fst r2 = Zero /\ p_stdout (snd r2) = [98;49;10; 97;10; 98;48;10]).
Proof.
  vm_compute. repeat split; try reflexivity.
  intros x [<-|[<-|[]]]; cbn; auto.
Qed.

(* `-t 0` (and no -t) mean auto-detect: the compressor is never started without workers *)
Theorem num_threads_positive : forall f cap nt cg,
  1 <= f_ncpus f -> create_dispatch f = DProceed cap nt cg -> 1 <= nt.
Proof. exact Cli_proofs.num_threads_positive_proof. Qed.
Print Assumptions num_threads_positive.

(* ---- listset / listctg succeed exactly with the archive's lists *)
Theorem listset_ok : forall decode arc output st ar,
  open_archive decode (p_fs st) arc = Some ar ->
  (forall o, output = Some o -> creatable (p_fs st) o = true) ->
  exists st', listset_command decode arc output st = (Zero, st') /\
    match output with
    | None => p_stdout st' = p_stdout st ++ lines (map fst ar) /\ p_fs st' = p_fs st
    | Some o => fs_read (p_fs st') o = Some (lines (map fst ar)) /\ p_stdout st' = p_stdout st /\
                (forall q, o <> q -> fs_read (p_fs st') q = fs_read (p_fs st) q)
    end.
Proof. exact Cli_proofs.listset_ok_proof. Qed.
Print Assumptions listset_ok.

Theorem listctg_ok : forall decode arc samples output st ar,
  open_archive decode (p_fs st) arc = Some ar ->
  Forall (fun s => find_sample ar s <> None) samples ->
  (forall o, output = Some o -> creatable (p_fs st) o = true) ->
  exists st', listctg_command decode arc samples output st = (Zero, st') /\
    let text := lines (flat_map (fun s => map (fun c => s ++ [ch_tab] ++ c)
                    (match list_contigs ar s with Some l => l | None => [] end)) samples) in
    match output with
    | None => p_stdout st' = p_stdout st ++ text /\ p_fs st' = p_fs st
    | Some o => fs_read (p_fs st') o = Some text /\ p_stdout st' = p_stdout st /\
                (forall q, o <> q -> fs_read (p_fs st') q = fs_read (p_fs st) q)
    end.
Proof. exact Cli_proofs.listctg_ok_proof. Qed.
Print Assumptions listctg_ok.

(* ---- the text of one contig: lines of at most 80 letters, all but the last exactly 80, nothing lost *)
Theorem wrap80 : forall l,
  concat (chunks80 l) = l /\
  Forall (fun c => (1 <= length c <= 80)%nat) (chunks80 l) /\
  Forall (fun c => length c = 80%nat) (removelast (chunks80 l)).
Proof. exact Cli_proofs.wrap80_proof. Qed.
Print Assumptions wrap80.

(* ---- parse_capacity: plain digits, and the K / M / G multipliers (either case) when nothing overflows *)
Theorem parse_capacity_spec : forall ck ds, ds <> [] -> forallb is_digit ds = true ->
  (dec_value ds < two64 -> parse_capacity ck ds = Ok (dec_value ds)) /\
  (forall c, c = 75 \/ c = 107 -> dec_value ds * 1024 < two64 ->
     parse_capacity ck (ds ++ [c]) = Ok (dec_value ds * 1024)) /\
  (forall c, c = 77 \/ c = 109 -> dec_value ds * 1048576 < two64 ->
     parse_capacity ck (ds ++ [c]) = Ok (dec_value ds * 1048576)) /\
  (forall c, c = 71 \/ c = 103 -> dec_value ds * 1073741824 < two64 ->
     parse_capacity ck (ds ++ [c]) = Ok (dec_value ds * 1073741824)).
Proof. exact Cli_proofs.parse_capacity_spec_proof. Qed.
Print Assumptions parse_capacity_spec.

Example parse_capacity_examples :
  parse_capacity false [53;49;50;77] = Ok 536870912 /\                 (* "512M" *)
  parse_capacity false [32;50;103;32] = Ok 2147483648 /\               (* " 2g " *)
  parse_capacity false [43;53] = Ok 5 /\                               (* "+5" *)
  parse_capacity false [] = Err /\ parse_capacity false [75] = Err /\  (* "", "K" *)
  parse_capacity false [49;88] = Err /\ parse_capacity false [45;53] = Err /\   (* "1X", "-5" *)
  parse_capacity false [50;32;103] = Err /\                            (* "2 g" *)
  parse_capacity false [49;56;52;52;54;55;52;52;48;55;51;55;48;57;53;53;49;54;49;54] = Err /\     (* 2^64 *)
  (* "18014398509481984K" = 2^54 K: panics with overflow checks, wraps to 0 without *)
  parse_capacity true  [49;56;48;49;52;51;57;56;53;48;57;52;56;49;57;56;52;75] = Panic /\
  parse_capacity false [49;56;48;49;52;51;57;56;53;48;57;52;56;49;57;56;52;75] = Ok 0.
Proof. repeat split; vm_compute; reflexivity. Qed.
