From Ragc Require Import Mach Consts_sink Varint Container Sink Sink_proofs.
(* C15  Write failures during create are reported, never swallowed.  If the output file cannot be written
   completely - the first failing write may occur at any byte offset, e.g. disk full or a file-size limit -
   create returns an error (the CLI exits non-zero).  It never reports success while leaving a truncated or
   footer-less archive behind.
   Model: model/Sink.v (fallible file with an arbitrary acceptance policy, std BufWriter, the `?` sites of
   archive.rs add_part / flush_buffers / close / serialize, agc_compressor.rs finalize, main.rs) over
   model/Container.v (the archive bytes: complete_file = Container.close of the flushed writer state).
   code_sites is built from coq/gen/Consts_sink.v (one boolean per `?`, re-read from /repo on every run): every
   theorem below is stated for code_sites and proved for all_true, so each proof type-checks only while
   code_sites and all_true are convertible, i.e. while every `?` is still in the source. *)

(* the generated file: every modelled `?` is in the source; the create pipeline buffers every part in memory
   (no unbuffered add_part, exactly one flush_buffers and one close: finalize's), Drop ignores close's result *)
Theorem all_sites_propagate : code_sites = all_true.
Proof. exact Sink_proofs.all_sites_propagate_proof. Qed.
Print Assumptions all_sites_propagate.

Theorem no_write_before_finalize : pipeline_buffers_everything = true.
Proof. exact Sink_proofs.pipeline_buffers_everything_proof. Qed.
Print Assumptions no_write_before_finalize.

(* finalize = Ok  ->  the file holds the complete archive.  For EVERY behaviour of the file system (pol: any
   function deciding, per write call, how many bytes are accepted), every BufWriter capacity, every pipeline
   history (registrations, buffered parts, raw sizes; any number, any sizes, unknown stream ids included) *)
Theorem finalize_ok_all_written : forall (pol : policy) (cap : N) (ops : list wop), Forall buffered_only ops ->
  let a := fst (ar_run code_sites (ar_open pol cap) (map AOp ops)) in
  snd (finalize_io code_sites a) = Ok tt ->
  ar_file (fst (finalize_io code_sites a)) = complete_file ops.
Proof. exact Sink_proofs.finalize_ok_all_written_proof. Qed.
Print Assumptions finalize_ok_all_written.

Definition ex_ops : list wop :=
  [WRegister [97]; WRegister [98]; WSetRaw 0 256; WAddBuf 1 [170; 187; 204] 5; WAddBuf 0 [1; 2] 7].
Example finalize_ok_all_written_nonvacuous :
  Forall buffered_only ex_ops /\
  (let a := fst (ar_run code_sites (ar_open (limit_policy true 38) 4) (map AOp ex_ops)) in
   snd (finalize_io code_sites a) = Ok tt /\ lenN (complete_file ex_ops) = 38 /\
   firstn 9 (complete_file ex_ops) = [1; 7; 1; 2; 1; 5; 170; 187; 204]).
Proof.
  split; [unfold ex_ops; repeat constructor|]. vm_compute. repeat split; reflexivity.
Qed.

(* the contrapositive, for the file-size-limit / disk-full file systems: if the complete archive does not fit
   (the first failing write is at ANY offset below its size: inside a part, inside the footer, inside the
   8-byte footer length), finalize returns Err, the CLI's exit status is non-zero, and the file left behind
   is no longer than the limit - whether a failing write stores the part that fits (EFBIG/ENOSPC on Linux)
   or nothing, and for every BufWriter capacity *)
Theorem write_fault_reported : forall (partial : bool) (limit cap : N) (ops : list wop), Forall buffered_only ops ->
  limit < lenN (complete_file ops) ->
  let a := fst (ar_run code_sites (ar_open (limit_policy partial limit) cap) (map AOp ops)) in
  snd (finalize_io code_sites a) = Err /\ snd (main_io code_sites a) = ExitNonZero.
Proof. exact Sink_proofs.write_fault_reported_proof. Qed.
Print Assumptions write_fault_reported.

Theorem fault_file_within_limit : forall (partial : bool) (limit cap : N) (ops : list wop), Forall buffered_only ops ->
  let a := fst (ar_run code_sites (ar_open (limit_policy partial limit) cap) (map AOp ops)) in
  lenN (ar_file (fst (main_io code_sites a))) <= limit.
Proof. exact Sink_proofs.fault_file_within_limit_proof. Qed.
Print Assumptions fault_file_within_limit.

(* on a file system that stores the fitting part of a failing request (EFBIG / ENOSPC as Linux does it) the file
   left behind after the process exits is exactly the first `limit` bytes of the complete archive: nothing is
   reordered, skipped or appended by the Drop path (all stream ids valid: flush_buffers has no error of its own) *)
Theorem fault_leaves_prefix : forall (limit cap : N) (ops : list wop), Forall buffered_only ops ->
  snd (flush_buffers (fst (wrun w_init ops))) = Ok tt ->
  limit < lenN (complete_file ops) ->
  let a := fst (ar_run code_sites (ar_open (limit_policy true limit) cap) (map AOp ops)) in
  ar_file (fst (main_io code_sites a)) = firstnN limit (complete_file ops).
Proof. exact Sink_proofs.fault_leaves_prefix_proof. Qed.
Print Assumptions fault_leaves_prefix.
Example fault_leaves_prefix_nonvacuous :
  Forall buffered_only ex_ops /\ snd (flush_buffers (fst (wrun w_init ex_ops))) = Ok tt /\ 20 < lenN (complete_file ex_ops).
Proof. split; [unfold ex_ops; repeat constructor|]. vm_compute. split; reflexivity. Qed.

(* every limit below the size of a concrete archive, both kinds of failing write, three capacities: Err, and
   with partial = true the file left behind is exactly `limit` bytes long *)
Definition fault_row (partial : bool) (cap limit : N) : bool :=
  let a := fst (ar_run code_sites (ar_open (limit_policy partial limit) cap) (map AOp ex_ops)) in
  match snd (finalize_io code_sites a), snd (main_io code_sites a) with
  | Err, ExitNonZero => if partial then lenN (ar_file (fst (main_io code_sites a))) =? limit else true
  | _, _ => false
  end.
Example write_fault_reported_nonvacuous :
  forallb (fun cap => forallb (fun l => fault_row true cap (N.of_nat l) && fault_row false cap (N.of_nat l))
                              (seq 0 38)) [0; 4; 4194304] = true.
Proof. vm_compute. reflexivity. Qed.

(* the CLI: exit status zero  ->  the file on disk, after the Archive was dropped, is the complete archive *)
Theorem no_success_with_truncated_file : forall (pol : policy) (cap : N) (ops : list wop), Forall buffered_only ops ->
  let a := fst (ar_run code_sites (ar_open pol cap) (map AOp ops)) in
  snd (main_io code_sites a) = ExitZero ->
  ar_file (fst (main_io code_sites a)) = complete_file ops.
Proof. exact Sink_proofs.no_success_with_truncated_file_proof. Qed.
Print Assumptions no_success_with_truncated_file.

Example no_success_nonvacuous :
  let a := fst (ar_run code_sites (ar_open (limit_policy true 38) 4194304) (map AOp ex_ops)) in
  snd (main_io code_sites a) = ExitZero.
Proof. vm_compute. reflexivity. Qed.

(* create_archive propagates finalize's Err and main returns it: in every archive state *)
Theorem cli_exit_code : forall a : arch,
  snd (finalize_io code_sites a) = Err -> snd (main_io code_sites a) = ExitNonZero.
Proof. exact Sink_proofs.cli_exit_code_proof. Qed.
Print Assumptions cli_exit_code.

(* library level (what harness/src/bin/c15.rs runs): ANY history - immediate and buffered parts, flushes
   anywhere, the file system changing its limit between calls - on which no call reported an error and close
   returned Ok leaves the complete archive of the Container-level history *)
Theorem history_ok_all_written : forall (pol : policy) (cap : N) (ops : list aop),
  let a := fst (ar_run code_sites (ar_open pol cap) ops) in
  Forall (fun x => x <> WErr) (snd (ar_run code_sites (ar_open pol cap) ops)) ->
  snd (ar_close code_sites a) = Ok tt ->
  ar_file (ar_drop code_sites (fst (ar_close code_sites a))) = close (fst (wrun w_init (wops_of ops))).
Proof. exact Sink_proofs.history_ok_all_written_proof. Qed.
Print Assumptions history_ok_all_written.

Example history_nonvacuous :
  let ops := [AOp (WRegister [97]); ALimit true 4; AOp (WAdd 0 [1; 2] 7); ALimit true 100; AOp (WAddBuf 0 [3] 1);
              AOp WFlush] in
  Forall (fun x => x <> WErr) (snd (ar_run code_sites (ar_open (limit_policy true 0) 2) ops)) /\
  snd (ar_close code_sites (fst (ar_run code_sites (ar_open (limit_policy true 0) 2) ops))) = Ok tt.
Proof. vm_compute. split; [repeat (constructor; [intro X; discriminate X|]); constructor | reflexivity]. Qed.

(* ---- which `?` matter.  A run "succeeds with a truncated file" when the exit status is zero and the file is
   not the complete archive.  For every site but one, switching that single site off (error dropped, execution
   continues) admits such a run; the witnesses use a disk-full/limit file system where one exists and a
   transient one-shot failure otherwise. *)
Definition truncated_success (S : sites) (pol : policy) (cap : N) (ops : list wop) : Prop :=
  let r := main_io S (fst (ar_run S (ar_open pol cap) (map AOp ops))) in
  snd r = ExitZero /\ ar_file (fst r) <> complete_file ops.

Definition w1 : list wop := [WRegister [97]; WAddBuf 0 [1; 2] 7].
Definition w2 : list wop :=
  [WRegister [97]; WAddBuf 0 [1;2;3;4;5;6;7;8;9;10;11;12;13;14;15;16;17;18;19;20;21;22;23;24;25;26;27;28;29;30;31;32]
                           18446744073709551615].
Ltac witness := unfold truncated_success; vm_compute; split; [reflexivity | let H := fresh in intro H; discriminate H].

Theorem site_add_meta_needed : truncated_success (site_off 0 code_sites) (oneshot_policy 0 0) 0 w1.
Proof. witness. Qed.
Theorem site_add_data_needed : truncated_success (site_off 1 code_sites) (limit_policy false 27) 0 w2.
Proof. witness. Qed.
Theorem site_fb_add_needed : truncated_success (site_off 2 code_sites) (limit_policy false 23) 0 w2.
Proof. witness. Qed.
Theorem site_close_ser_needed : truncated_success (site_off 4 code_sites) (limit_policy true 4) 0 w1.
Proof. witness. Qed.
Theorem site_ser_footer_needed : truncated_success (site_off 5 code_sites) (limit_policy false 12) 0 w1.
Proof. witness. Qed.
Theorem site_ser_len_needed : truncated_success (site_off 6 code_sites) (limit_policy true 14) 0 w1.
Proof. witness. Qed.
Theorem site_ser_flush_needed : truncated_success (site_off 7 code_sites) (limit_policy true 14) 9 w1.
Proof. witness. Qed.
Theorem site_fin_flush_needed : truncated_success (site_off 8 code_sites) (limit_policy false 23) 0 w2.
Proof. witness. Qed.
Theorem site_fin_close_needed : truncated_success (site_off 9 code_sites) (limit_policy true 4) 0 w1.
Proof. witness. Qed.
Theorem site_cli_finalize_needed : truncated_success (site_off 10 code_sites) (limit_policy true 0) 0 w1.
Proof. witness. Qed.
Theorem site_cli_create_needed : truncated_success (site_off 11 code_sites) (limit_policy true 0) 0 w1.
Proof. witness. Qed.
Print Assumptions site_add_meta_needed.
Print Assumptions site_add_data_needed.
Print Assumptions site_fb_add_needed.
Print Assumptions site_close_ser_needed.
Print Assumptions site_ser_footer_needed.
Print Assumptions site_ser_len_needed.
Print Assumptions site_ser_flush_needed.
Print Assumptions site_fin_flush_needed.
Print Assumptions site_fin_close_needed.
Print Assumptions site_cli_finalize_needed.
Print Assumptions site_cli_create_needed.

(* the exception: close's first `writer.flush()?` (site 3).  With that site off, for every file-system
   behaviour, capacity and history, exit status zero still implies the complete archive: a failed flush keeps
   the unwritten bytes in the BufWriter and serialize's final `writer.flush()?` has to get them out. *)
Theorem close_flush_redundant : forall (pol : policy) (cap : N) (ops : list wop), Forall buffered_only ops ->
  let a := fst (ar_run code_sites (ar_open pol cap) (map AOp ops)) in
  snd (main_io (site_off 3 code_sites) a) = ExitZero ->
  ar_file (fst (main_io (site_off 3 code_sites) a)) = complete_file ops.
Proof. exact Sink_proofs.close_flush_redundant_proof. Qed.
Print Assumptions close_flush_redundant.
(* the hypothesis is satisfiable with the first flush actually failing (transient: call 0 accepts 1 byte) *)
Example close_flush_redundant_nonvacuous :
  let a := fst (ar_run code_sites (ar_open (oneshot_policy 0 1) 100) (map AOp w1)) in
  snd (bw_flush (a_bw (fst (ar_flush_buffers code_sites a)))) = Err /\
  snd (main_io (site_off 3 code_sites) a) = ExitZero.
Proof. vm_compute. split; reflexivity. Qed.
