(* C01 — Lossless round trip: create then extract returns every sample exactly (names, order, bases), however
   segments are split at a missing splitter, stored reverse-complemented or registered out of order.
   This file pins the CONTIG-LEVEL half (model: Pipeline.v): segmentation (Segment.v, C10) -> per-segment
   decision (arbitrary: an oracle) -> stored pieces with flags and part numbers -> catalogue placement ->
   reader re-assembly.  The per-group store and get_segment addressing (GroupStore.v / SegReader.v) enter only
   through an abstract [get] with [stored_ok].  All statements are unbounded: any number of samples, contigs,
   segments, any decisions, any splitter set, any arrival order of the registrations. *)
From Coq Require Import Permutation.
From Ragc Require Import Mach Consts_kmer Consts_segment Consts_pipeline Kmer Segment Pipeline Pipeline_proofs.
Open Scope N_scope.

(* ---- the three reverse-complement rules (tables generated from the Rust text over the whole u8 range) agree
   and are involutive.  A regression of reverse_complement_sequence (codes >= 4 mapped to N) breaks the first. *)
Theorem rc_seq_eq_rc_dec : forall x, rc_seq x = rc_dec x.
Proof. exact Pipeline_proofs.rc_seq_eq_rc_dec_proof. Qed.
Print Assumptions rc_seq_eq_rc_dec.

Theorem rc_pre_eq_rc_dec : forall x, rc_pre x = rc_dec x.
Proof. exact Pipeline_proofs.rc_pre_eq_rc_dec_proof. Qed.
Print Assumptions rc_pre_eq_rc_dec.

Theorem rc_dec_involutive : forall x, rc_dec (rc_dec x) = x.
Proof. exact Pipeline_proofs.rc_dec_involutive_proof. Qed.
Print Assumptions rc_dec_involutive.

(* ---- orientation: whatever the decision, whenever the writer produced pieces for a raw segment, undoing each
   piece's flag the way the reader does and listing the pieces by part number gives the forward pieces of the
   segment: the whole segment, or for a split the forward prefix [0, len - s2) / suffix [len - s2 - k, len)
   (reversed) resp. [0, s2 + k) / [s2, len) with s2 = pos - (k+1)/2; part numbers are n (, n + 1) in forward order *)
Theorem orient_ok : forall k s d n ps, seg_pieces k s d n = Ok ps ->
  exists ps', Permutation ps ps' /\ map p_part ps' = seq n (part_incr d) /\
    map (fun p => if p_rc p then reverse_complement_segment (p_data p) else p_data p) ps' =
    match d with
    | Split o pos _ _ =>
        let s2 := (pos - half_ceil k)%nat in
        if should_reverse s o
        then [firstn (length (sdata s) - s2) (sdata s); skipn (length (sdata s) - (s2 + k)) (sdata s)]
        else [firstn (s2 + k) (sdata s); skipn s2 (sdata s)]
    | _ => [sdata s]
    end.
Proof. exact Pipeline_proofs.orient_ok_proof. Qed.
Print Assumptions orient_ok.
Example orient_nonvacuous : exists ps,
  seg_pieces 3 (mkSeg [0;1;2;3;5;0;1;2;3;3;1] 7 2 true false) (Split false 5 true false) 4 = Ok ps /\
  map p_part ps = [5; 4]%nat /\ map p_rc ps = [true; false] /\
  map p_data ps = [[2;0;0;1;2;3]; [0;1;2;3;5;0;1;2]].
Proof. vm_compute. eexists. repeat split; reflexivity. Qed.

(* ---- the split: under decisions_ok (k+1 <= pos <= len-(k+1)) the writer does not panic, both forward halves
   have more than k symbols, they overlap in exactly k symbols, and the forward prefix carries the lower part
   number - in both orientations *)
Theorem split_overlap : forall k s o pos lf rf n, (1 <= k)%nat ->
  decision_okb k s (Split o pos lf rf) = true ->
  let un := fun p => if p_rc p then reverse_complement_segment (p_data p) else p_data p in
  exists ps pa pb,
    seg_pieces k s (Split o pos lf rf) n = Ok ps /\ Permutation ps [pa; pb] /\
    p_part pa = n /\ p_part pb = S n /\
    (k < length (un pa))%nat /\ (k < length (un pb))%nat /\
    un pa ++ skipn k (un pb) = sdata s /\
    firstn k (un pb) = lastn k (un pa).
Proof. exact Pipeline_proofs.split_overlap_proof. Qed.
Print Assumptions split_overlap.
Example split_overlap_nonvacuous :
  decision_okb 3 (mkSeg [0;1;2;3;5;0;1;2;3;3;1] 7 2 true false) (Split false 5 true false) = true /\
  decision_okb 3 (mkSeg [0;1;2;3;5;0;1;2;3;3;1] 7 2 true false) (Split false 3 true false) = false /\
  decision_okb 3 (mkSeg [0;1;2;3;5;0;1;2;3;3;1] 7 2 true false) (Split false 8 true false) = false.
Proof. vm_compute. repeat split; reflexivity. Qed.

(* ---- the part numbers registered for a contig are exactly 0 .. n-1, each once: add_segment_placed never
   leaves a hole on this path *)
Theorem part_numbers_dense : forall k segs dec ps, (1 <= k)%nat ->
  (forall j s, nth_error segs j = Some s -> decision_okb k s (dec j) = true) ->
  contig_pieces k segs dec 0 0 = Ok ps ->
  Permutation (map p_part ps) (seq 0 (length ps)).
Proof. intros k segs dec ps Hk Hd. apply (Pipeline_proofs.part_numbers_dense_proof k segs dec 0%nat ps Hk). exact Hd. Qed.
Print Assumptions part_numbers_dense.

(* ---- add_segment_placed: registrations whose part numbers are a permutation of 0 .. n-1 fill the descriptor
   vector in part order, in whatever order they arrive (holes of SegmentDesc::empty() only exist in between) *)
Theorem placement_order_irrelevant : forall (L L' : list (nat * seg_desc)),
  Permutation L L' -> map fst L' = seq 0 (length L') ->
  fold_left (fun v x => place_at v (fst x) (snd x)) L [] = map snd L'.
Proof. exact Pipeline_proofs.placement_order_irrelevant_proof. Qed.
Print Assumptions placement_order_irrelevant.
Example placement_nonvacuous :
  fold_left (fun v x => place_at v (fst x) (snd x)) [(2%nat, mkDesc 7 0 true 5); (0%nat, mkDesc 8 1 false 6); (1%nat, mkDesc 9 2 false 7)] []
  = [mkDesc 8 1 false 6; mkDesc 9 2 false 7; mkDesc 7 0 true 5] /\
  place_at [] 2 (mkDesc 7 0 true 5) = [empty_desc; empty_desc; mkDesc 7 0 true 5].
Proof. vm_compute. split; reflexivity. Qed.

(* ---- one contig: for every contig (also empty or shorter than k), splitter set, decisions satisfying
   decisions_ok, every store that returns the stored bytes of the contig's registered descriptors, and every
   arrival order L of its registrations, the reader's reconstruct_contig over the placed descriptor vector is
   the contig.  Uses C10 (tiling, later_len_ge_k). *)
Theorem reassemble :
  forall get k spl segsize dec addr i s c data rs L, 1 <= k <= 32 ->
  (forall j sg, nth_error (split_at_splitters_with_size data spl k segsize) j = Some sg ->
                decision_okb (N.to_nat k) sg (dec i j) = true) ->
  contig_regs k spl segsize dec addr i (s, c, data) = Ok rs ->
  (forall r, In r rs -> get (r_desc r) = Ok (r_data r)) ->
  Permutation (map (fun r => (r_place r, r_desc r)) rs) L ->
  reconstruct_contig get k (fold_left (fun v x => place_at v (fst x) (snd x)) L []) = Ok data.
Proof. exact Pipeline_proofs.reassemble_proof. Qed.
Print Assumptions reassemble.

(* ---- a sample with a repeated contig name: create fails (push returns the error of register_sample_contig) *)
Theorem duplicate_name_rejected :
  forall ecn k spl segsize dec addr sched (samples : list (name * list (name * list N))),
  NoDup (map fst samples) /\ Forall (fun s => fst s <> [] /\ snd s <> []) samples ->
  ~ Forall (fun s => NoDup (map fst (snd s))) samples ->
  create ecn k spl segsize dec addr sched (pushes_of samples) = Err.
Proof. exact Pipeline_proofs.duplicate_name_rejected_proof. Qed.
Print Assumptions duplicate_name_rejected.
Example duplicate_nonvacuous :
  let samples := [([83], [([99], [0;1]); ([100], [2]); ([99], [3])])] in
  (NoDup (map fst samples) /\ Forall (fun s : name * list (name * list N) => fst s <> [] /\ snd s <> []) samples) /\
  ~ Forall (fun s : name * list (name * list N) => NoDup (map fst (snd s))) samples.
Proof.
  cbv zeta. split; [split|].
  - cbn. constructor; [intros []|constructor].
  - repeat constructor; discriminate.
  - intro H. inversion H as [|? ? H1 _]; subst. cbn in H1. inversion H1 as [|? ? Hn _]; subst.
    apply Hn. right. left. reflexivity.
Qed.

(* ---- top level.  For every sample set (sample names distinct and non-empty, no sample without contigs),
   1 <= k <= 32, every splitter set, every decision oracle meeting decisions_ok on the raw segments of the pushed
   contigs, every addressing of the pieces, every arrival order of the registrations: if create succeeds and the
   store returns the stored bytes of every registered descriptor, then contig names are distinct within each
   sample and extraction returns exactly the input: names, order, bases. *)
Theorem create_extract_roundtrip :
  forall ecn get k spl segsize dec addr sched (samples : list (name * list (name * list N))) coll stored,
  1 <= k <= 32 ->
  NoDup (map fst samples) /\ Forall (fun s => fst s <> [] /\ snd s <> []) samples ->
  (forall i s c data j sg, nth_error (pushes_of samples) i = Some (s, c, data) ->
     nth_error (split_at_splitters_with_size data spl k segsize) j = Some sg ->
     decision_okb (N.to_nat k) sg (dec i j) = true) ->
  (forall l, Permutation l (sched l)) ->
  create ecn k spl segsize dec addr sched (pushes_of samples) = Ok (coll, stored) ->
  stored_ok get stored ->
  Forall (fun s => NoDup (map fst (snd s))) samples /\ extract_all get k coll = Ok samples.
Proof. exact Pipeline_proofs.create_extract_roundtrip_proof. Qed.
Print Assumptions create_extract_roundtrip.

(* non-vacuity: two samples, k = 3, splitter AAA (canonical value 0); the second sample's contig is cut into raw
   segments of which one is split at pos 5 (decision_okb holds for every segment), another stored through
   AssignToLeft with a flag differing from its orientation; registrations arrive in reverse order; the store is the
   association list of what create handed over; extraction returns the input *)
Definition ex_samples : list (name * list (name * list N)) :=
  [([83; 48], [([99; 48], [1;0;0;0;2;3;1]); ([99; 49], [2;2])]);
   ([83; 49], [([99; 48], [1;0;0;0;2;3;1;5;2;2;1;3;0;0;0;1;1;0;0;0;3])])].
Definition ex_dec (i j : nat) : decision :=
  match i, j with
  | 2%nat, 1%nat => Split false 5 true false
  | 2%nat, 2%nat => AssignL false false
  | _, _ => Plain true
  end.
Definition ex_addr (i p : nat) : N * N := (N.of_nat i + 16, N.of_nat p).
Definition ex_get (stored : list (seg_desc * list N)) (d : seg_desc) : outcome (list N) :=
  match find (fun x => desc_eqb (fst x) d) stored with Some x => Ok (snd x) | None => Err end.
Example roundtrip_nonvacuous : exists coll stored,
  create (fun c => c) 3 (set_of_list [0]) 60 ex_dec ex_addr (@rev registration) (pushes_of ex_samples)
    = Ok (coll, stored) /\
  length stored = 8%nat /\
  forallb (fun x => match ex_get stored (fst x) with Ok b => list_eqb N.eqb b (snd x) | _ => false end) stored = true /\
  forallb (fun j => forallb (fun sg => decision_okb 3 sg (ex_dec 2 j))
                      (match nth_error (split_at_splitters_with_size [1;0;0;0;2;3;1;5;2;2;1;3;0;0;0;1;1;0;0;0;3] (set_of_list [0]) 3 60) j
                       with Some sg => [sg] | None => [] end)) (seq 0 5) = true /\
  extract_all (ex_get stored) 3 coll = Ok ex_samples.
Proof. vm_compute. do 2 eexists. repeat split; reflexivity. Qed.

(* ==================================================================================================================
   ================================================  composition  ====================================================
   The layers proved separately - LZ diff (C09, LZ.v), segment / pack compression (C12, Tuple.v, SegCompress.v),
   the group store and get_segment addressing (C02, GroupStore.v, SegReader.v), the contig pipeline above - are
   COMPOSED here into theorems about   Pipeline.create ; GroupStore.run ; finalize   followed by
   SegReader.get_segment ; Pipeline.extract_all   with the real LZ and compression models plugged in.
   Proofs: proofs/Compose_codecs.v, proofs/Compose_proofs.v.  Nothing above this line was changed.
   The only assumption left is [zstd_ok] on the pair (zc, zd) (zstd itself is not modelled, as in C12).

   What is NOT threaded through (stated precisely):
   - the catalogue codec C03: the collection [coll] built by the writer is handed to the reader directly; C03's
     batches_roundtrip (load_all (store_all c) = samples c, props/C03.v) says that serialising and reloading it gives the
     same descriptors, but Collection.v's catalogue type has not been connected to Pipeline.collection here;
   - the archive container C13/C14: the reader sees the parts as [view_of (finalize st)] (per group: the part lists
     of the two streams), not the byte file;
   - FASTA parsing / formatting (C16) and the heuristics that choose decisions and groups (oracles [dec], [grp]). *)
From Ragc Require Import SegReader GroupStore SegCompress SegCompress_proofs Compose_codecs Compose_proofs.
From Ragc Require LZ.

(* ---- the definitions the composed statements use, pinned here (each is the definition itself: reflexivity) *)
Example zstd_ok_def : forall zc zd,
  zstd_ok zc zd = ((forall level x, zd (zc level x) = Some x) /\ (forall level x, x <> [] -> zc level x <> [])).
Proof. reflexivity. Qed.
Example concrete_codecs_def : forall zc zd mml level r t x c m,
  c_lz_enc mml r t = match LZ.encode mml r t with Ok e => e | _ => [] end /\
  c_lz_dec mml r c = LZ.decode_full mml r c /\
  c_compress_ref zc x = match compress_reference_segment zc x with Ok cm => cm | _ => ([], 0) end /\
  c_compress_pack zc level x = compress_segment_configured zc x level /\
  c_dwm zd c m = decompress_segment_with_marker zd c m.
Proof. intros. repeat split; reflexivity. Qed.
Example concrete_store_def : forall zc zd mml level ops st ar d,
  c_run zc mml level ops = run (c_lz_enc mml) (c_compress_ref zc) (c_compress_pack zc level) ops /\
  c_view zc level st = view_of (finalize (c_compress_pack zc level) st) /\
  c_get_segment zd mml ar d = get_segment (c_dwm zd) (c_lz_dec mml) ar d /\
  (forall pd, store_get zc zd mml level st pd =
     c_get_segment zd mml (c_view zc level st)
       {| SegReader.d_group := Pipeline.d_group pd; SegReader.d_id := Pipeline.d_id pd;
          SegReader.d_rc := Pipeline.d_rc pd; SegReader.d_len := Pipeline.d_len pd |}).
Proof. intros. repeat split; reflexivity. Qed.
Example domains_def : forall mml r t x,
  c_ref_dom x = (lenN x < 2147483648) /\
  c_lz_dom mml r t = (4 <= mml /\ t <> [] /\ Forall (fun c => c <= 30) t /\ lenN r + lenN t + mml < 2147483648).
Proof. intros. split; reflexivity. Qed.
Example c_ops_ok_def : forall mml ops,
  c_ops_ok mml ops =
  (forall g s, In s (segs_of ops g) ->
     Forall (fun b => b <= 30) (s_data s) /\
     (g < 16 -> lenN (s_data s) < two32) /\
     (16 <= g -> 4 <= mml /\ s_data s <> [] /\
                 forall s', In s' (segs_of ops g) -> lenN (s_data s') + lenN (s_data s) + mml < 2147483648)).
Proof. reflexivity. Qed.
Example pieces_in_dom_def : forall mml (stored : list (Pipeline.seg_desc * list N)),
  pieces_in_dom mml stored =
  (forall d b, In (d, b) stored ->
     Forall (fun c => c <= 30) b /\
     (Pipeline.d_group d < 16 -> lenN b < two32) /\
     (16 <= Pipeline.d_group d -> 4 <= mml /\ b <> [] /\
        forall d' b', In (d', b') stored -> Pipeline.d_group d' = Pipeline.d_group d ->
                      lenN b' + lenN b + mml < 2147483648)).
Proof. reflexivity. Qed.
Example store_fed_by_def : forall (stored : list (Pipeline.seg_desc * list N)) ops,
  store_fed_by stored ops =
  (forall g s, In s (segs_of ops g) -> exists d, In (d, s_data s) stored /\ Pipeline.d_group d = g).
Proof. reflexivity. Qed.
Example addresses_from_store_def : forall (stored : list (Pipeline.seg_desc * list N)) st,
  addresses_from_store stored st =
  (forall d b, In (d, b) stored ->
     exists s, In (s, Pipeline.d_id d) (regs_of st (Pipeline.d_group d)) /\ s_data s = b /\ s_rc s = Pipeline.d_rc d).
Proof. reflexivity. Qed.
Example emitted_def : forall k spl segsize dec grp i s c data rest,
  all_emit k spl segsize dec grp i ((s, c, data) :: rest) =
  (match contig_pieces (N.to_nat k) (split_at_splitters_with_size data spl k segsize) (dec i) 0 0 with
   | Ok ps => map (fun pc => (grp i (p_part pc),
                              {| s_sample := s; s_contig := c; s_part := N.of_nat (p_part pc);
                                 s_data := p_data pc; s_rc := p_rc pc |})) ps
   | _ => []
   end) ++ all_emit k spl segsize dec grp (S i) rest
  /\ all_emit k spl segsize dec grp i [] = [].
Proof. intros. split; reflexivity. Qed.
Example ops_carry_def : forall (emitted : list (N * seg_in)) ops,
  ops_carry emitted ops =
  (forall g, Permutation (segs_of ops g) (map snd (filter (fun x => fst x =? g) emitted))).
Proof. reflexivity. Qed.
(* the address of piece (contig i, seg_part_no part): the oracle's group, and the in_group_id found in the store's
   registrations of that group for exactly this segment (names, part number, bytes, flag) *)
Example store_addr_def : forall k spl segsize dec grp pushes st i part,
  store_addr k spl segsize dec grp pushes st i part =
  (grp i part,
   match nth_error pushes i with
   | Some (s, c, data) =>
       match contig_pieces (N.to_nat k) (split_at_splitters_with_size data spl k segsize) (dec i) 0 0 with
       | Ok ps =>
           match find (fun pc => Nat.eqb (p_part pc) part) ps with
           | Some pc =>
               match find (fun x => seg_eqb (fst x) (seg_of_piece s c pc)) (regs_of st (grp i part)) with
               | Some x => snd x
               | None => 0
               end
           | None => 0
           end
       | _ => 0
       end
   | None => 0
   end).
Proof. reflexivity. Qed.
Example inputs_in_dom_def : forall mml (pushes : list push),
  inputs_in_dom mml pushes =
  (forall s c data, In (s, c, data) pushes -> Forall (fun x => x <= 30) data /\ 2 * lenN data + mml < 2147483648).
Proof. reflexivity. Qed.
Example lz_contigs_nonempty_def : forall (pushes : list push) (grp : nat -> nat -> N),
  lz_contigs_nonempty pushes grp =
  (forall i s c data part, nth_error pushes i = Some (s, c, data) -> 16 <= grp i part -> data <> []).
Proof. reflexivity. Qed.

(* ---- 1. codecs_instance: the codec hypotheses of the group store (props/C02.v [codecs_ok], written out) hold for
   the real LZ model (C09) and the real segment / pack compression model (C12), given zstd_ok only *)
Theorem codecs_instance : forall zc zd mml level, zstd_ok zc zd ->
  (forall x, c_ref_dom x ->
     c_dwm zd (fst (c_compress_ref zc x)) (snd (c_compress_ref zc x)) = Ok x /\ fst (c_compress_ref zc x) <> []) /\
  (forall x, x <> [] -> c_dwm zd (c_compress_pack zc level x) Consts_groupstore.W_PACK_MARKER_STEP = Ok x) /\
  (forall r t, c_lz_dom mml r t ->
     (c_lz_enc mml r t = [] -> t = r) /\
     (c_lz_enc mml r t <> [] -> c_lz_dec mml r (c_lz_enc mml r t) = Ok t) /\
     ~ In Consts_groupstore.CONTIG_SEPARATOR (c_lz_enc mml r t)).
Proof. exact Compose_codecs.codecs_instance_proof. Qed.
Print Assumptions codecs_instance.
(* on the domains the total instance functions ARE the real (outcome-valued) functions *)
Theorem codecs_instance_total : forall zc mml r t x,
  (c_lz_dom mml r t -> LZ.encode mml r t = Ok (c_lz_enc mml r t)) /\
  (c_ref_dom x -> compress_reference_segment zc x = Ok (c_compress_ref zc x)).
Proof. intros. split; [apply Compose_codecs.c_lz_enc_ok|apply Compose_codecs.c_compress_ref_ok]. Qed.
Print Assumptions codecs_instance_total.

(* C02's store_then_get without codec hypotheses *)
Theorem store_then_get_concrete :
  forall zc zd mml level, zstd_ok zc zd ->
  forall ops st g s id,
  c_ops_ok mml ops ->
  c_run zc mml level ops = Ok st ->
  In (s, id) (regs_of st g) ->
  c_get_segment zd mml (c_view zc level st) (desc_of g s id) = Ok (s_data s) /\
  SegReader.d_len (desc_of g s id) = lenN (s_data s).
Proof. exact Compose_codecs.store_then_get_concrete_proof. Qed.
Print Assumptions store_then_get_concrete.

(* ---- 2. stored_ok_from_groupstore: the interface hypothesis of create_extract_roundtrip holds when [get] is
   get_segment on the archive view of a store that was fed the registered pieces and whose registrations are the
   registered addresses *)
Theorem stored_ok_from_groupstore :
  forall zc zd, zstd_ok zc zd ->
  forall mml level (stored : list (Pipeline.seg_desc * list N)) ops st,
  (forall d b, In (d, b) stored -> Pipeline.d_len d = wrap32 (lenN b)) ->
  pieces_in_dom mml stored ->
  store_fed_by stored ops ->
  c_run zc mml level ops = Ok st ->
  addresses_from_store stored st ->
  stored_ok (store_get zc zd mml level st) stored.
Proof. exact Compose_proofs.stored_ok_from_groupstore_proof. Qed.
Print Assumptions stored_ok_from_groupstore.

(* ---- 3. end to end, relational form: ANY addressing [addr], ANY store schedule [ops], tied by
   store_fed_by / addresses_from_store *)
Theorem end_to_end_roundtrip :
  forall zc zd, zstd_ok zc zd ->
  forall ecn k spl segsize dec addr sched mml level
         (samples : list (name * list (name * list N))) coll stored ops st,
  1 <= k <= 32 ->
  NoDup (map fst samples) /\ Forall (fun s => fst s <> [] /\ snd s <> []) samples ->
  (forall i s c data j sg, nth_error (pushes_of samples) i = Some (s, c, data) ->
     nth_error (split_at_splitters_with_size data spl k segsize) j = Some sg ->
     decision_okb (N.to_nat k) sg (dec i j) = true) ->
  (forall l, Permutation l (sched l)) ->
  create ecn k spl segsize dec addr sched (pushes_of samples) = Ok (coll, stored) ->
  pieces_in_dom mml stored ->
  store_fed_by stored ops ->
  c_run zc mml level ops = Ok st ->
  addresses_from_store stored st ->
  Forall (fun s => NoDup (map fst (snd s))) samples /\
  extract_all (store_get zc zd mml level st) k coll = Ok samples.
Proof. exact Compose_proofs.end_to_end_roundtrip_proof. Qed.
Print Assumptions end_to_end_roundtrip.

(* the two relational hypotheses are what the code does: with the store's own registrations as addresses
   ([store_addr]) they hold for every group assignment and every schedule carrying the emitted pieces *)
Theorem store_addr_consistent :
  forall k spl segsize dec grp lz_enc compress_ref compress_pack pushes ops st regs,
  1 <= k ->
  (forall i s c data j sg, nth_error pushes i = Some (s, c, data) ->
     nth_error (split_at_splitters_with_size data spl k segsize) j = Some sg ->
     decision_okb (N.to_nat k) sg (dec i j) = true) ->
  ops_carry (all_emit k spl segsize dec grp 0 pushes) ops ->
  run lz_enc compress_ref compress_pack ops = Ok st ->
  all_regs k spl segsize dec (store_addr k spl segsize dec grp pushes st) 0 pushes = Ok regs ->
  store_fed_by (map (fun r => (r_desc r, r_data r)) regs) ops /\
  addresses_from_store (map (fun r => (r_desc r, r_data r)) regs) st.
Proof. exact Compose_proofs.store_addr_consistent_proof. Qed.
Print Assumptions store_addr_consistent.

(* every split of the emitted pieces into rounds (one op per group and round) is such a schedule *)
Theorem ops_rounds_carry : forall groups (rounds : list (list (N * seg_in))), NoDup groups ->
  (forall x, In x (concat rounds) -> In (fst x) groups) ->
  ops_carry (concat rounds) (flat_map (fun r => map (fun g => (g, map snd (filter (fun x => fst x =? g) r))) groups) rounds).
Proof. exact Compose_proofs.ops_rounds_carry. Qed.
Print Assumptions ops_rounds_carry.

(* the codec domains follow from hypotheses on the INPUT: symbols 0..30, 2 * contig length + mml < 2^31, and no
   piece of an empty contig in an LZ group (pieces are contiguous parts of their contig, possibly reverse-complemented;
   uses C10's chain shape and segments_nonempty) *)
Theorem pieces_in_dom_from_inputs :
  forall k spl segsize dec addr pushes regs mml,
  1 <= k <= 32 -> 4 <= mml ->
  (forall i s c data j sg, nth_error pushes i = Some (s, c, data) ->
     nth_error (split_at_splitters_with_size data spl k segsize) j = Some sg ->
     decision_okb (N.to_nat k) sg (dec i j) = true) ->
  inputs_in_dom mml pushes ->
  lz_contigs_nonempty pushes (fun i part => fst (addr i part)) ->
  all_regs k spl segsize dec addr 0 pushes = Ok regs ->
  pieces_in_dom mml (map (fun r => (r_desc r, r_data r)) regs).
Proof. exact Compose_proofs.pieces_in_dom_from_inputs_proof. Qed.
Print Assumptions pieces_in_dom_from_inputs.

(* ---- 3'. END TO END.  For every sample set (sample names distinct and non-empty, no sample without contigs) over
   symbol codes 0..30 with 2 * |contig| + mml < 2^31, 1 <= k <= 32, min match length mml >= 4, every compression
   level, every splitter set, every decision oracle meeting decisions_ok, every assignment [grp] of pieces to groups
   (pieces of empty contigs not in LZ groups), every schedule [ops] of the group store carrying the emitted pieces
   (any rounds, any order), every arrival order [sched] of the registrations, under the zstd hypotheses only:
   if the store does not trap (run = Ok; see C02 run_no_trap: below 2^32 - 2 segments per group) and create
   succeeds with the store's addresses, then contig names are distinct within each sample and extraction through
   SegReader.get_segment (LZ.decode_full, SegCompress.decompress_segment_with_marker) on the finalized store and
   Pipeline's reader returns exactly the input: names, order, bases. *)
Theorem end_to_end_inputs :
  forall zc zd, zstd_ok zc zd ->
  forall ecn k spl segsize dec grp sched mml level
         (samples : list (name * list (name * list N))) ops st coll stored,
  1 <= k <= 32 -> 4 <= mml ->
  NoDup (map fst samples) /\ Forall (fun s => fst s <> [] /\ snd s <> []) samples ->
  inputs_in_dom mml (pushes_of samples) ->
  (forall i s c data j sg, nth_error (pushes_of samples) i = Some (s, c, data) ->
     nth_error (split_at_splitters_with_size data spl k segsize) j = Some sg ->
     decision_okb (N.to_nat k) sg (dec i j) = true) ->
  lz_contigs_nonempty (pushes_of samples) grp ->
  (forall l, Permutation l (sched l)) ->
  ops_carry (all_emit k spl segsize dec grp 0 (pushes_of samples)) ops ->
  c_run zc mml level ops = Ok st ->
  create ecn k spl segsize dec (store_addr k spl segsize dec grp (pushes_of samples) st) sched (pushes_of samples)
    = Ok (coll, stored) ->
  Forall (fun s => NoDup (map fst (snd s))) samples /\
  extract_all (store_get zc zd mml level st) k coll = Ok samples.
Proof. exact Compose_proofs.end_to_end_inputs_proof. Qed.
Print Assumptions end_to_end_inputs.

(* the same with the domain hypothesis on the stored pieces instead of the input (weaker: per group, any two
   pieces + mml below 2^31) *)
Theorem end_to_end_store_addr :
  forall zc zd, zstd_ok zc zd ->
  forall ecn k spl segsize dec grp sched mml level
         (samples : list (name * list (name * list N))) ops st coll stored,
  1 <= k <= 32 ->
  NoDup (map fst samples) /\ Forall (fun s => fst s <> [] /\ snd s <> []) samples ->
  (forall i s c data j sg, nth_error (pushes_of samples) i = Some (s, c, data) ->
     nth_error (split_at_splitters_with_size data spl k segsize) j = Some sg ->
     decision_okb (N.to_nat k) sg (dec i j) = true) ->
  (forall l, Permutation l (sched l)) ->
  ops_carry (all_emit k spl segsize dec grp 0 (pushes_of samples)) ops ->
  c_run zc mml level ops = Ok st ->
  create ecn k spl segsize dec (store_addr k spl segsize dec grp (pushes_of samples) st) sched (pushes_of samples)
    = Ok (coll, stored) ->
  pieces_in_dom mml stored ->
  Forall (fun s => NoDup (map fst (snd s))) samples /\
  extract_all (store_get zc zd mml level st) k coll = Ok samples.
Proof. exact Compose_proofs.end_to_end_store_addr_proof. Qed.
Print Assumptions end_to_end_store_addr.

(* ---- non-vacuity: the sample set, decisions and reversed arrival order of roundtrip_nonvacuous above; C12's toy
   zstd; mml = 4, level 17; the short contig goes to raw group 3, the other pieces alternate between LZ groups 16
   and 17; the store runs in two rounds (3 pieces, then 5).  Every hypothesis of end_to_end_inputs holds, the
   archive view has a reference part and a delta pack per LZ group, one piece is an id-0 reuse of its reference,
   and extraction returns the input. *)
Definition ex_grp (i part : nat) : N := match i with 1%nat => 3 | _ => 16 + N.of_nat part mod 2 end.
Definition ex_emitted : list (N * seg_in) := all_emit 3 (set_of_list [0]) 60 ex_dec ex_grp 0 (pushes_of ex_samples).
Definition ex_rounds : list (list (N * seg_in)) := [firstn 3 ex_emitted; skipn 3 ex_emitted].
Definition ex_store_ops : list op := ops_rounds [3; 16; 17] ex_rounds.

Example zstd_ok_nonvacuous : zstd_ok toy_zc toy_zd.
Proof. exact SegCompress_proofs.toy_ok. Qed.
Example ops_carry_nonvacuous : ops_carry ex_emitted ex_store_ops.
Proof.
  replace ex_emitted with (concat ex_rounds).
  - apply Compose_proofs.ops_rounds_carry.
    + repeat constructor; cbn; intuition discriminate.
    + assert (H : forallb (fun x : N * seg_in => existsb (N.eqb (fst x)) [3; 16; 17]) (concat ex_rounds) = true)
        by (vm_compute; reflexivity).
      intros x Hx. rewrite forallb_forall in H. specialize (H x Hx). apply existsb_exists in H.
      destruct H as (g & Hg & E). apply N.eqb_eq in E. rewrite E. exact Hg.
  - unfold ex_rounds. cbn [concat]. rewrite app_nil_r. apply firstn_skipn.
Qed.
Example inputs_nonvacuous :
  inputs_in_dom 4 (pushes_of ex_samples) /\ lz_contigs_nonempty (pushes_of ex_samples) ex_grp /\
  (NoDup (map fst ex_samples) /\ Forall (fun s : name * list (name * list N) => fst s <> [] /\ snd s <> []) ex_samples).
Proof.
  split; [|split; [|split]].
  - intros s c data Hin. cbn in Hin.
    destruct Hin as [E|[E|[E|[]]]]; inversion E; subst; (split; [repeat constructor; discriminate|vm_compute; reflexivity]).
  - intros i s c data part Hn _. destruct i as [|[|[|i]]]; cbn in Hn; try (inversion Hn; subst; discriminate).
    destruct i; discriminate.
  - cbn. repeat constructor; cbn; intuition discriminate.
  - repeat constructor; discriminate.
Qed.
Example end_to_end_nonvacuous : exists st coll stored,
  c_run toy_zc 4 17 ex_store_ops = Ok st /\
  create (fun c => c) 3 (set_of_list [0]) 60 ex_dec
         (store_addr 3 (set_of_list [0]) 60 ex_dec ex_grp (pushes_of ex_samples) st) (@rev registration)
         (pushes_of ex_samples) = Ok (coll, stored) /\
  map (fun x => (Pipeline.d_group (fst x), Pipeline.d_id (fst x))) stored
    = [(16, 0); (17, 0); (3, 1); (16, 0); (16, 1); (17, 1); (17, 2); (16, 2)] /\
  pieces_in_domb 4 stored = true /\
  gv_ref (c_view toy_zc 17 st 16) = Some [(0, [3; 3; 3; 2])] /\
  gv_delta (c_view toy_zc 17 st 16) = Some [(0, [68; 68; 68; 65; 67; 66; 255; 65; 68; 68; 68; 255])] /\
  extract_all (store_get toy_zc toy_zd 4 17 st) 3 coll = Ok ex_samples.
Proof.
  eexists. eexists. eexists. split; [vm_compute; reflexivity|]. split; [vm_compute; reflexivity|].
  vm_compute. repeat split; reflexivity.
Qed.

(* ---- 4. the catalogue codec C03 threaded through: the catalogue create built is converted to Collection.v's
   records ([cat_of]: same names, same descriptor fields), stored in batches of any size bs > 0 and reloaded
   (C03 batches_roundtrip, whose hypotheses are repeated here: its zstd hypothesis "zc never returns an empty
   frame", name bytes 1..127, descriptor fields in range and stream sizes below 2^32 = batch_ok); extraction from the
   RELOADED catalogue returns the input.
   Remaining gap: Pipeline.v's register_sample_contig / add_segment_placed and Collection.v's are two transcriptions
   of the same Rust functions on different records, related here only through [cat_of] of the finished catalogue;
   the archive container (C13/C14) is still not threaded (parts are handed over as lists). *)
Example cat_of_def : forall (c : Pipeline.collection) (ss : list Collection.sample),
  cat_of c = map (fun s => Collection.mkSample (fst s)
                    (map (fun ct => Collection.mkContig (fst ct)
                            (map (fun d => Details.mkSeg (Pipeline.d_group d) (Pipeline.d_id d) (Pipeline.d_rc d) (Pipeline.d_len d))
                                 (snd ct))) (snd s))) c /\
  of_cat ss = map (fun s => (Collection.sname s,
                    map (fun ct => (Collection.cname ct,
                            map (fun x => mkDesc (Details.sg x) (Details.si x) (Details.src x) (Details.sl x))
                                (Collection.csegs ct))) (Collection.scontigs s))) ss.
Proof. intros. split; reflexivity. Qed.

Theorem end_to_end_catalogue :
  forall zc zd, zstd_ok zc zd -> (forall l x, zc l x <> []) ->
  forall ecn k spl segsize dec grp sched mml level
         (samples : list (name * list (name * list N))) ops st coll stored,
  1 <= k <= 32 -> 4 <= mml ->
  NoDup (map fst samples) /\ Forall (fun s => fst s <> [] /\ snd s <> []) samples ->
  inputs_in_dom mml (pushes_of samples) ->
  (forall i s c data j sg, nth_error (pushes_of samples) i = Some (s, c, data) ->
     nth_error (split_at_splitters_with_size data spl k segsize) j = Some sg ->
     decision_okb (N.to_nat k) sg (dec i j) = true) ->
  lz_contigs_nonempty (pushes_of samples) grp ->
  (forall l, Permutation l (sched l)) ->
  ops_carry (all_emit k spl segsize dec grp 0 (pushes_of samples)) ops ->
  c_run zc mml level ops = Ok st ->
  create ecn k spl segsize dec (store_addr k spl segsize dec grp (pushes_of samples) st) sched (pushes_of samples)
    = Ok (coll, stored) ->
  forall (ss bs : N) (c : Collection.coll),
  ss + k <= 2147483648 -> 0 < bs ->
  Collection.segment_size c = ss -> Collection.kmer_length c = k ->
  Collection.samples c = cat_of coll ->
  lenN (Collection.samples c) < 4294967296 ->
  Forall (fun s => Forall (fun b => 1 <= b < 128) (Collection.sname s)) (Collection.samples c) ->
  Forall (Collection_proofs.batch_ok zc ss k)
         (Collection_proofs.chunks (length (Collection.samples c)) (N.to_nat bs) (Collection.samples c)) ->
  exists cw a cr,
    Collection.store_all zc bs c Collection.arch_empty = Ok (cw, a) /\
    Collection.load_all zd ss k a = Ok cr /\
    extract_all (store_get zc zd mml level st) k (of_cat (Collection.samples cr)) = Ok samples.
Proof. exact Compose_proofs.end_to_end_catalogue_proof. Qed.
Print Assumptions end_to_end_catalogue.

(* non-vacuity: the instance of end_to_end_nonvacuous; its catalogue in two batches of one sample *)
Definition ex_e2e : option (store * collection) :=
  match c_run toy_zc 4 17 ex_store_ops with
  | Ok st =>
      match create (fun c => c) 3 (set_of_list [0]) 60 ex_dec
                   (store_addr 3 (set_of_list [0]) 60 ex_dec ex_grp (pushes_of ex_samples) st) (@rev registration)
                   (pushes_of ex_samples) with
      | Ok (coll, _) => Some (st, coll)
      | _ => None
      end
  | _ => None
  end.
Example toy_zc_never_empty : forall l x, toy_zc l x <> [].
Proof.
  intros l x. unfold toy_zc. destruct (list_eqb N.eqb x toy_s1); [discriminate|].
  destruct (list_eqb N.eqb x toy_s2); discriminate.
Qed.
Example catalogue_nonvacuous :
  match ex_e2e with
  | Some (st, coll) =>
      let c := Collection.mkColl (cat_of coll) [] 60 3 0 0 in
      forallb (Collection_proofs.batch_okb toy_zc 60 3)
              (Collection_proofs.chunks (length (Collection.samples c)) 1 (Collection.samples c)) = true /\
      forallb (fun s => forallb (fun b => (1 <=? b) && (b <? 128)) (Collection.sname s)) (Collection.samples c) = true /\
      match Collection.store_all toy_zc 1 c Collection.arch_empty with
      | Ok (_, a) =>
          length (Collection.a_contigs a) = 2%nat /\
          match Collection.load_all toy_zd 60 3 a with
          | Ok cr => Collection.samples cr = cat_of coll /\
                     extract_all (store_get toy_zc toy_zd 4 17 st) 3 (of_cat (Collection.samples cr)) = Ok ex_samples
          | _ => False
          end
      | _ => False
      end
  | None => False
  end.
Proof. vm_compute. repeat split; reflexivity. Qed.

(* ------------------------------------------------------------------------------------------------------
   heuristics: the only producer of a split position.  decisions_ok (hypothesis H3 of create_extract_roundtrip)
   asks of the decision oracle only that a Split position pos satisfies k+1 <= pos <= len-(k+1).  On the live
   path a SplitAt(pos) decision comes from one place, the post-processing of the cost minimum at the end of
   find_split_by_cost (SplitPos.v transcribes those lines; translator/items_splitpos.py pins their text and that
   classify_raw_segments_at_barrier constructs no SplitAt itself).  Whatever the cost vectors are, the position
   it lets through meets decisions_ok - so that hypothesis is discharged for the real heuristics, up to the pin. *)
From Ragc Require Import Consts_splitpos SplitPos SplitPos_proofs.

Theorem split_post_source_pinned : split_post_shape_pinned = true.
Proof. reflexivity. Qed.
Print Assumptions split_post_source_pinned.

Theorem heuristic_split_positions_ok :
  forall (k : nat) (s : segment) (refs_empty : bool) (best_pos p : nat) (o lflag rflag : bool),
  split_post k (length (sdata s)) refs_empty best_pos = SD_SplitAt p ->
  decision_okb k s (Split o p lflag rflag) = true.
Proof.
  intros k s re b p o lf rf H. apply SplitPos_proofs.split_post_range in H. destruct H as [H1 H2].
  unfold decision_okb, split_min_size. apply andb_true_intro. split; apply Nat.leb_le; assumption.
Qed.
Print Assumptions heuristic_split_positions_ok.
Example heuristic_split_nonvacuous :
  split_post 3 20 false 9 = SD_SplitAt 9 /\ split_post 3 20 false 2 = SD_AssignRight /\
  split_post 3 20 false 17 = SD_AssignLeft /\ split_post 3 7 false 4 = SD_NoDecision.
Proof. vm_compute. repeat split; reflexivity. Qed.
