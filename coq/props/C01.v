(* C01 — Lossless round trip: create then extract returns every sample exactly (names, order, bases), however
   segments are split at a missing splitter, stored reverse-complemented or registered out of order.
   This file pins the CONTIG-LEVEL half (model: Pipeline.v): segmentation (Segment.v, C10) -> per-segment
   decision (arbitrary: an oracle) -> stored pieces with flags and part numbers -> catalogue placement ->
   reader re-assembly.  The per-group store and get_segment addressing (GroupStore.v / SegReader.v) enter only
   through an abstract [get] with [stored_ok].  All statements are unbounded: any number of samples, contigs,
   segments, any decisions, any splitter set, any arrival order of the registrations. *)
From Coq Require Import Permutation.
From Ragc Require Import Mach Consts_kmer Consts_segment Consts_pipeline Kmer Segment Pipeline Pipeline_proofs.
Open Scope N_scope.

(* ---- the three reverse-complement rules (tables generated from the Rust text over the whole u8 range) agree
   and are involutive.  A regression of reverse_complement_sequence (codes >= 4 mapped to N) breaks the first. *)
Theorem rc_seq_eq_rc_dec : forall x, rc_seq x = rc_dec x.
Proof. exact Pipeline_proofs.rc_seq_eq_rc_dec_proof. Qed.
Print Assumptions rc_seq_eq_rc_dec.

Theorem rc_pre_eq_rc_dec : forall x, rc_pre x = rc_dec x.
Proof. exact Pipeline_proofs.rc_pre_eq_rc_dec_proof. Qed.
Print Assumptions rc_pre_eq_rc_dec.

Theorem rc_dec_involutive : forall x, rc_dec (rc_dec x) = x.
Proof. exact Pipeline_proofs.rc_dec_involutive_proof. Qed.
Print Assumptions rc_dec_involutive.

(* ---- orientation: whatever the decision, whenever the writer produced pieces for a raw segment, undoing each
   piece's flag the way the reader does and listing the pieces by part number gives the forward pieces of the
   segment: the whole segment, or for a split the forward prefix [0, len - s2) / suffix [len - s2 - k, len)
   (reversed) resp. [0, s2 + k) / [s2, len) with s2 = pos - (k+1)/2; part numbers are n (, n + 1) in forward order *)
Theorem orient_ok : forall k s d n ps, seg_pieces k s d n = Ok ps ->
  exists ps', Permutation ps ps' /\ map p_part ps' = seq n (part_incr d) /\
    map (fun p => if p_rc p then reverse_complement_segment (p_data p) else p_data p) ps' =
    match d with
    | Split o pos _ _ =>
        let s2 := (pos - half_ceil k)%nat in
        if should_reverse s o
        then [firstn (length (sdata s) - s2) (sdata s); skipn (length (sdata s) - (s2 + k)) (sdata s)]
        else [firstn (s2 + k) (sdata s); skipn s2 (sdata s)]
    | _ => [sdata s]
    end.
Proof. exact Pipeline_proofs.orient_ok_proof. Qed.
Print Assumptions orient_ok.
Example orient_nonvacuous : exists ps,
  seg_pieces 3 (mkSeg [0;1;2;3;5;0;1;2;3;3;1] 7 2 true false) (Split false 5 true false) 4 = Ok ps /\
  map p_part ps = [5; 4]%nat /\ map p_rc ps = [true; false] /\
  map p_data ps = [[2;0;0;1;2;3]; [0;1;2;3;5;0;1;2]].
Proof. vm_compute. eexists. repeat split; reflexivity. Qed.

(* ---- the split: under decisions_ok (k+1 <= pos <= len-(k+1)) the writer does not panic, both forward halves
   have more than k symbols, they overlap in exactly k symbols, and the forward prefix carries the lower part
   number - in both orientations *)
Theorem split_overlap : forall k s o pos lf rf n, (1 <= k)%nat ->
  decision_okb k s (Split o pos lf rf) = true ->
  let un := fun p => if p_rc p then reverse_complement_segment (p_data p) else p_data p in
  exists ps pa pb,
    seg_pieces k s (Split o pos lf rf) n = Ok ps /\ Permutation ps [pa; pb] /\
    p_part pa = n /\ p_part pb = S n /\
    (k < length (un pa))%nat /\ (k < length (un pb))%nat /\
    un pa ++ skipn k (un pb) = sdata s /\
    firstn k (un pb) = lastn k (un pa).
Proof. exact Pipeline_proofs.split_overlap_proof. Qed.
Print Assumptions split_overlap.
Example split_overlap_nonvacuous :
  decision_okb 3 (mkSeg [0;1;2;3;5;0;1;2;3;3;1] 7 2 true false) (Split false 5 true false) = true /\
  decision_okb 3 (mkSeg [0;1;2;3;5;0;1;2;3;3;1] 7 2 true false) (Split false 3 true false) = false /\
  decision_okb 3 (mkSeg [0;1;2;3;5;0;1;2;3;3;1] 7 2 true false) (Split false 8 true false) = false.
Proof. vm_compute. repeat split; reflexivity. Qed.

(* ---- the part numbers registered for a contig are exactly 0 .. n-1, each once: add_segment_placed never
   leaves a hole on this path *)
Theorem part_numbers_dense : forall k segs dec ps, (1 <= k)%nat ->
  (forall j s, nth_error segs j = Some s -> decision_okb k s (dec j) = true) ->
  contig_pieces k segs dec 0 0 = Ok ps ->
  Permutation (map p_part ps) (seq 0 (length ps)).
Proof. intros k segs dec ps Hk Hd. apply (Pipeline_proofs.part_numbers_dense_proof k segs dec 0%nat ps Hk). exact Hd. Qed.
Print Assumptions part_numbers_dense.

(* ---- add_segment_placed: registrations whose part numbers are a permutation of 0 .. n-1 fill the descriptor
   vector in part order, in whatever order they arrive (holes of SegmentDesc::empty() only exist in between) *)
Theorem placement_order_irrelevant : forall (L L' : list (nat * seg_desc)),
  Permutation L L' -> map fst L' = seq 0 (length L') ->
  fold_left (fun v x => place_at v (fst x) (snd x)) L [] = map snd L'.
Proof. exact Pipeline_proofs.placement_order_irrelevant_proof. Qed.
Print Assumptions placement_order_irrelevant.
Example placement_nonvacuous :
  fold_left (fun v x => place_at v (fst x) (snd x)) [(2%nat, mkDesc 7 0 true 5); (0%nat, mkDesc 8 1 false 6); (1%nat, mkDesc 9 2 false 7)] []
  = [mkDesc 8 1 false 6; mkDesc 9 2 false 7; mkDesc 7 0 true 5] /\
  place_at [] 2 (mkDesc 7 0 true 5) = [empty_desc; empty_desc; mkDesc 7 0 true 5].
Proof. vm_compute. split; reflexivity. Qed.

(* ---- one contig: for every contig (also empty or shorter than k), splitter set, decisions satisfying
   decisions_ok, every store that returns the stored bytes of the contig's registered descriptors, and every
   arrival order L of its registrations, the reader's reconstruct_contig over the placed descriptor vector is
   the contig.  Uses C10 (tiling, later_len_ge_k). *)
Theorem reassemble :
  forall get k spl segsize dec addr i s c data rs L, 1 <= k <= 32 ->
  (forall j sg, nth_error (split_at_splitters_with_size data spl k segsize) j = Some sg ->
                decision_okb (N.to_nat k) sg (dec i j) = true) ->
  contig_regs k spl segsize dec addr i (s, c, data) = Ok rs ->
  (forall r, In r rs -> get (r_desc r) = Ok (r_data r)) ->
  Permutation (map (fun r => (r_place r, r_desc r)) rs) L ->
  reconstruct_contig get k (fold_left (fun v x => place_at v (fst x) (snd x)) L []) = Ok data.
Proof. exact Pipeline_proofs.reassemble_proof. Qed.
Print Assumptions reassemble.

(* ---- a sample with a repeated contig name: create fails (push returns the error of register_sample_contig) *)
Theorem duplicate_name_rejected :
  forall ecn k spl segsize dec addr sched (samples : list (name * list (name * list N))),
  NoDup (map fst samples) /\ Forall (fun s => fst s <> [] /\ snd s <> []) samples ->
  ~ Forall (fun s => NoDup (map fst (snd s))) samples ->
  create ecn k spl segsize dec addr sched (pushes_of samples) = Err.
Proof. exact Pipeline_proofs.duplicate_name_rejected_proof. Qed.
Print Assumptions duplicate_name_rejected.
Example duplicate_nonvacuous :
  let samples := [([83], [([99], [0;1]); ([100], [2]); ([99], [3])])] in
  (NoDup (map fst samples) /\ Forall (fun s : name * list (name * list N) => fst s <> [] /\ snd s <> []) samples) /\
  ~ Forall (fun s : name * list (name * list N) => NoDup (map fst (snd s))) samples.
Proof.
  cbv zeta. split; [split|].
  - cbn. constructor; [intros []|constructor].
  - repeat constructor; discriminate.
  - intro H. inversion H as [|? ? H1 _]; subst. cbn in H1. inversion H1 as [|? ? Hn _]; subst.
    apply Hn. right. left. reflexivity.
Qed.

(* ---- top level.  For every sample set (sample names distinct and non-empty, no sample without contigs),
   1 <= k <= 32, every splitter set, every decision oracle meeting decisions_ok on the raw segments of the pushed
   contigs, every addressing of the pieces, every arrival order of the registrations: if create succeeds and the
   store returns the stored bytes of every registered descriptor, then contig names are distinct within each
   sample and extraction returns exactly the input: names, order, bases. *)
Theorem create_extract_roundtrip :
  forall ecn get k spl segsize dec addr sched (samples : list (name * list (name * list N))) coll stored,
  1 <= k <= 32 ->
  NoDup (map fst samples) /\ Forall (fun s => fst s <> [] /\ snd s <> []) samples ->
  (forall i s c data j sg, nth_error (pushes_of samples) i = Some (s, c, data) ->
     nth_error (split_at_splitters_with_size data spl k segsize) j = Some sg ->
     decision_okb (N.to_nat k) sg (dec i j) = true) ->
  (forall l, Permutation l (sched l)) ->
  create ecn k spl segsize dec addr sched (pushes_of samples) = Ok (coll, stored) ->
  stored_ok get stored ->
  Forall (fun s => NoDup (map fst (snd s))) samples /\ extract_all get k coll = Ok samples.
Proof. exact Pipeline_proofs.create_extract_roundtrip_proof. Qed.
Print Assumptions create_extract_roundtrip.

(* non-vacuity: two samples, k = 3, splitter AAA (canonical value 0); the second sample's contig is cut into raw
   segments of which one is split at pos 5 (decision_okb holds for every segment), another stored through
   AssignToLeft with a flag differing from its orientation; registrations arrive in reverse order; the store is the
   association list of what create handed over; extraction returns the input *)
Definition ex_samples : list (name * list (name * list N)) :=
  [([83; 48], [([99; 48], [1;0;0;0;2;3;1]); ([99; 49], [2;2])]);
   ([83; 49], [([99; 48], [1;0;0;0;2;3;1;5;2;2;1;3;0;0;0;1;1;0;0;0;3])])].
Definition ex_dec (i j : nat) : decision :=
  match i, j with
  | 2%nat, 1%nat => Split false 5 true false
  | 2%nat, 2%nat => AssignL false false
  | _, _ => Plain true
  end.
Definition ex_addr (i p : nat) : N * N := (N.of_nat i + 16, N.of_nat p).
Definition ex_get (stored : list (seg_desc * list N)) (d : seg_desc) : outcome (list N) :=
  match find (fun x => desc_eqb (fst x) d) stored with Some x => Ok (snd x) | None => Err end.
Example roundtrip_nonvacuous : exists coll stored,
  create (fun c => c) 3 (set_of_list [0]) 60 ex_dec ex_addr (@rev registration) (pushes_of ex_samples)
    = Ok (coll, stored) /\
  length stored = 8%nat /\
  forallb (fun x => match ex_get stored (fst x) with Ok b => list_eqb N.eqb b (snd x) | _ => false end) stored = true /\
  forallb (fun j => forallb (fun sg => decision_okb 3 sg (ex_dec 2 j))
                      (match nth_error (split_at_splitters_with_size [1;0;0;0;2;3;1;5;2;2;1;3;0;0;0;1;1;0;0;0;3] (set_of_list [0]) 3 60) j
                       with Some sg => [sg] | None => [] end)) (seq 0 5) = true /\
  extract_all (ex_get stored) 3 coll = Ok ex_samples.
Proof. vm_compute. do 2 eexists. repeat split; reflexivity. Qed.
