(* C18 — behaviour independent of integer-overflow checking (build profile): built with overflow checks the
   library produces the same results as the optimised build and never aborts with an arithmetic-overflow
   panic; no code path relies on silent wrap-around.

   Part 1: the arithmetic sites of the create path that DID differ between profiles (each repaired by a fix:
   commit) are modelled in Profile.v with the translator-regenerated flag "the source still has the repaired
   form"; [None] = the dev profile traps.  Part 2 collects, by name, the no-trap theorems that the other
   properties' models (all written with checked machine arithmetic) already prove; their statements are pinned
   in the respective props files.  What is NOT covered by any theorem (code that is not modelled) rests on the
   dual-profile differential runs of checks/c18.py only: the claim is partial in that sense. *)
From Coq Require Import Lia.
From Ragc Require Import Mach Consts_profile Profile Profile_proofs.
From Ragc Require C20 C06 C07 C09 C12 C14 C02.

(* the tree has every repaired form (regenerated from /repo on each run) *)
Theorem sites_fixed :
  (tok_prio_is_current, next_prio_lowered, sample_tok_no_overflowing_add, fb_mask_guarded,
   est_tail_wrapping, footer_checked, varint_len_usize) = (true, true, true, true, true, true, true).
Proof. reflexivity. Qed.
Print Assumptions sites_fixed.

(* contig and sync-token priorities: for ANY sequence of pushes (any samples, any placement of pack boundaries)
   of fewer than 10^9 contigs, with the rules regenerated from the source, no i32 operation traps, every
   contig priority stays above the final tokens' priority, and a token block carries exactly the priority of
   the contigs before it (one above the contigs after it) *)
Theorem no_trap_token_priority : forall es : list (N * bool),
  (Z.of_nat (length es) < 1000000000)%Z ->
  exists st outs, run_pushes tok_prio_is_current next_prio_lowered (pinit PRIO_INIT) es = Some (st, outs) /\
    length outs = length es /\
    Forall (fun o => (FINAL_TOKEN_PRIORITY < snd o <= PRIO_INIT)%Z /\
                     match fst o with Some t => (t = snd o + 1 /\ t <= PRIO_INIT)%Z | None => True end) outs.
Proof.
  intros es Hn.
  destruct (run_pushes_ok es PRIO_INIT PRIO_INIT (pinit PRIO_INIT) (pinv_init PRIO_INIT)) as (st & outs & E & Hl & Hall).
  - unfold PRIO_INIT, i32_max; lia.
  - unfold PRIO_INIT, i32_min; lia.
  - exists st, outs. split; [exact E|]. split; [exact Hl|].
    eapply Forall_impl; [|exact Hall]. intros o [H1 H2]. split; [|exact H2].
    unfold FINAL_TOKEN_PRIORITY, PRIO_INIT in *. lia.
Qed.
Print Assumptions no_trap_token_priority.
Example token_priority_nonvacuous :
  run_pushes true true (pinit 2147483647%Z) [(0%N, false); (0%N, true); (0%N, true); (1%N, false)]
  = Some (mkP 2147483643%Z [(0%N, 2147483645%Z); (1%N, 2147483644%Z)],
          [(None, 2147483647%Z); (Some 2147483647%Z, 2147483646%Z); (Some 2147483646%Z, 2147483645%Z); (None, 2147483644%Z)]).
Proof. vm_compute. reflexivity. Qed.
(* the rule before fix 819eeb5 trapped at the first pack boundary (and wrapped to the lowest priority in release) *)
Theorem token_priority_old_rule_refuted :
  run_pushes false false (pinit PRIO_INIT) [(0%N, false); (0%N, true)] = None.
Proof. vm_compute. reflexivity. Qed.
(* the rule before fix 445c73a let a later sample start at or above a queued token block *)
Theorem priority_monotone_old_rule_refuted :
  match run_pushes true false (pinit PRIO_INIT) [(0%N, true); (0%N, true); (1%N, false)] with
  | Some (_, [_; (Some t, _); (None, c2)]) => (t <=? c2)%Z = true   (* the later sample is not below the token block *)
  | _ => False
  end.
Proof. vm_compute. reflexivity. Qed.

(* fallback-minimizer mask: total for every k <= 32 and equal to 4^k - 1 *)
Theorem fb_mask_no_trap : forall k : N, (k <= 32)%N -> fb_mask fb_mask_guarded k = Some (4 ^ k - 1)%N.
Proof. exact Profile_proofs.fb_mask_total. Qed.
Print Assumptions fb_mask_no_trap.
Theorem fb_mask_old_rule_refuted : fb_mask false 32%N = None.
Proof. vm_compute. reflexivity. Qed.

(* LZDiff::estimate tail: the repaired form never traps, is what an optimised build computes, and equals the
   old form wherever the old form did not trap *)
Theorem estimate_tail_profile_independent : forall est ts i : N,
  est_tail est_tail_wrapping est ts i = Some (est_tail_release est ts i) /\
  ((est < two32)%N -> (ts < two32)%N -> (i < two32)%N ->
   forall v, est_tail false est ts i = Some v -> est_tail est_tail_wrapping est ts i = Some v).
Proof.
  intros est ts i. split; [exact (Profile_proofs.est_tail_fixed_is_release est ts i)|].
  intros He Ht Hi v. exact (Profile_proofs.est_tail_agrees_when_no_trap est ts i v He Ht Hi).
Qed.
Print Assumptions estimate_tail_profile_independent.
Theorem estimate_tail_old_rule_refuted : est_tail false 10%N 100%N 103%N = None /\ est_tail true 10%N 100%N 103%N = Some 7%N.
Proof. vm_compute. split; reflexivity. Qed.

(* ---- Part 2: no-trap theorems proved in the other properties' models (statements pinned there) ---- *)
Definition kmer_dir_step_no_trap := C20.no_trap_dir_step.          (* u64 += in Kmer::insert never exceeds 2^64 *)
Definition kmer_rc_step_no_trap := C20.no_trap_rc_step.
Definition kmer_insert_no_wrap := C20.insert_no_wrap.
Definition queue_size_no_underflow := C06.take_no_underflow.        (* current_size -= size *)
Definition range_queries_no_trap := C07.range_correct.             (* raw_length - k, offsets: Ok under wf *)
Definition lz_encoder_decoder_no_trap := C09.lz_roundtrip.          (* encode = Ok _, decode_full = Ok _ *)
Definition repetitiveness_counters_no_trap := C12.rep_total.       (* i32 counters *)
Definition archive_open_no_trap := C14.open_total_safe.            (* any byte string: never Panic *)
Definition group_store_no_trap := C02.run_no_trap.                 (* u32 in-group ids *)
Print Assumptions kmer_insert_no_wrap.
Print Assumptions queue_size_no_underflow.
Print Assumptions range_queries_no_trap.
Print Assumptions lz_encoder_decoder_no_trap.
Print Assumptions repetitiveness_counters_no_trap.
Print Assumptions archive_open_no_trap.
Print Assumptions group_store_no_trap.
