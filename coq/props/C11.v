(* C11 — Splitter selection: deterministic, strand-symmetric, singleton-only, spaced.
   The splitter set computed from a reference is a subset of the canonical k-mers occurring exactly once in it;
   the singleton and duplicate sets are disjoint and unchanged by contig order or by reverse-complementing any
   contig.  Segmenting the reference with its own splitters gives interior segments (all but the first and the
   last two of a contig) of at least segment-size bases; the in-memory, streaming and first-sample variants
   return the same sets for the same reference regardless of the number of threads.
   Model: Splitters.v.  [determine_splitters_gen sort contigs k segment_size] is the one body of the three Rust
   variants (they differ in how the contigs reach them; agreement of the three real functions and independence
   of the thread count are checked on the real code by the correspondence, checks/c11.py).  [sort] is the
   external sort (rdst radix sort): every theorem holds for every function returning a sorted permutation.
   A set is its strictly increasing list of members.  [kmers_spec k c] (Kmer.v) = the canonical values, computed
   from scratch, of the ACGT-only windows of c; [cnt] = number of occurrences in the multiset of all of them.
   contig symbols are arbitrary N (codes > 3 restart the window); 1 <= k <= 32. *)
From Coq Require Import Permutation Sorting.Sorted.
From Ragc Require Import Mach Consts_kmer Kmer Kmer_proofs Segment Splitters Splitters_proofs.
Open Scope N_scope.

(* the sort plugged into the executable model satisfies the hypothesis made about the external sort *)
Theorem sort_instance_ok : forall l, Permutation (NSort.sort l) l /\ StronglySorted N.le (NSort.sort l).
Proof. exact Splitters_proofs.nsort_ok. Qed.
Print Assumptions sort_instance_ok.

(* ---- 1. the singleton set is exactly the set of canonical k-mers occurring once, the duplicate set exactly
        those occurring more than once; all three sets come back strictly increasing *)
Theorem singletons_exact : forall sort contigs k seg spl sing dup,
  (forall l, Permutation (sort l) l /\ StronglySorted N.le (sort l)) -> 1 <= k <= 32 ->
  determine_splitters_gen sort contigs k seg = (spl, sing, dup) ->
  forall v, In v sing <-> count_occ N.eq_dec (concat (map (kmers_spec k) contigs)) v = 1%nat.
Proof. exact Splitters_proofs.singletons_exact_proof. Qed.
Print Assumptions singletons_exact.

Theorem duplicates_exact : forall sort contigs k seg spl sing dup,
  (forall l, Permutation (sort l) l /\ StronglySorted N.le (sort l)) -> 1 <= k <= 32 ->
  determine_splitters_gen sort contigs k seg = (spl, sing, dup) ->
  forall v, In v dup <-> (2 <= count_occ N.eq_dec (concat (map (kmers_spec k) contigs)) v)%nat.
Proof. exact Splitters_proofs.duplicates_exact_proof. Qed.
Print Assumptions duplicates_exact.

Theorem sets_strictly_increasing : forall sort contigs k seg spl sing dup,
  (forall l, Permutation (sort l) l /\ StronglySorted N.le (sort l)) ->
  determine_splitters_gen sort contigs k seg = (spl, sing, dup) ->
  StronglySorted N.lt spl /\ StronglySorted N.lt sing /\ StronglySorted N.lt dup.
Proof. exact Splitters_proofs.sets_sorted_proof. Qed.
Print Assumptions sets_strictly_increasing.

(* ---- 2. every returned splitter is a singleton: a canonical k-mer occurring exactly once in the reference *)
Theorem splitters_subset_singletons : forall sort contigs k seg spl sing dup,
  (forall l, Permutation (sort l) l /\ StronglySorted N.le (sort l)) -> 1 <= k <= 32 ->
  determine_splitters_gen sort contigs k seg = (spl, sing, dup) ->
  forall v, In v spl ->
    In v sing /\ count_occ N.eq_dec (concat (map (kmers_spec k) contigs)) v = 1%nat.
Proof. exact Splitters_proofs.splitters_subset_proof. Qed.
Print Assumptions splitters_subset_singletons.

Theorem singletons_duplicates_disjoint : forall sort contigs k seg spl sing dup,
  (forall l, Permutation (sort l) l /\ StronglySorted N.le (sort l)) -> 1 <= k <= 32 ->
  determine_splitters_gen sort contigs k seg = (spl, sing, dup) ->
  forall v, In v sing -> In v dup -> False.
Proof. exact Splitters_proofs.disjoint_proof. Qed.
Print Assumptions singletons_duplicates_disjoint.

Example sets_nonvacuous :
  determine_splitters [[2;3;1;1;2;0;2;2;0;2;0;2;2;2]; [0;1]; [1;1;4;2;0;2]] 3 2
  = ([2305843009213693952; 6052837899185946624; 6917529027641081856; 9511602413006487552],
     [2305843009213693952; 6052837899185946624; 6341068275337658368; 6917529027641081856; 9511602413006487552],
     [2882303761517117440; 8358680908399640576; 11529215046068469760]).
Proof. vm_compute. reflexivity. Qed.

(* ---- 3. contig order: all three sets are unchanged (the splitter set too: picks are made contig by contig) *)
Theorem invariant_under_permutation : forall sort contigs contigs' k seg,
  (forall l, Permutation (sort l) l /\ StronglySorted N.le (sort l)) ->
  Permutation contigs contigs' ->
  determine_splitters_gen sort contigs k seg = determine_splitters_gen sort contigs' k seg.
Proof. exact Splitters_proofs.perm_invariant_proof. Qed.
Print Assumptions invariant_under_permutation.

(* ---- 4. strand: reverse-complementing any of the contigs ([comp] is any map that complements A,C,G,T and
        keeps every other code outside A,C,G,T, e.g. N -> N, R -> Y) leaves singletons and duplicates unchanged;
        the k-mers of the reverse complement are those of the contig in reverse order *)
Theorem kmer_multiset_revcomp : forall comp,
  (forall b, b < 4 -> comp b = 3 - b) -> (forall b, 4 <= b -> 4 <= comp b) ->
  forall k c, 1 <= k <= 32 ->
  enumerate_kmers (rev (map comp c)) k = rev (enumerate_kmers c k).
Proof. exact Splitters_proofs.enumerate_rc_proof. Qed.
Print Assumptions kmer_multiset_revcomp.

Theorem invariant_under_revcomp : forall sort comp contigs contigs' k seg spl sing dup spl' sing' dup',
  (forall l, Permutation (sort l) l /\ StronglySorted N.le (sort l)) -> 1 <= k <= 32 ->
  (forall b, b < 4 -> comp b = 3 - b) -> (forall b, 4 <= b -> 4 <= comp b) ->
  Forall2 (fun c c' => c' = c \/ c' = rev (map comp c)) contigs contigs' ->
  determine_splitters_gen sort contigs k seg = (spl, sing, dup) ->
  determine_splitters_gen sort contigs' k seg = (spl', sing', dup') ->
  sing = sing' /\ dup = dup'.
Proof. exact Splitters_proofs.rc_invariant_proof. Qed.
Print Assumptions invariant_under_revcomp.

Example revcomp_nonvacuous :
  let comp := fun b => if b <? 4 then 3 - b else b in
  let c := [1;4;0;0;0;2;0;1;0;0;3;3] in
  rev (map comp c) = [0;0;3;3;2;3;1;3;3;3;4;2] /\
  Forall2 (fun c c' => c' = c \/ c' = rev (map comp c)) [c; [0;1;2]] [rev (map comp c); [0;1;2]] /\
  snd (fst (determine_splitters [c; [0;1;2]] 3 2)) = snd (fst (determine_splitters [rev (map comp c); [0;1;2]] 3 2)) /\
  fst (fst (determine_splitters [c; [0;1;2]] 3 2)) <> fst (fst (determine_splitters [rev (map comp c); [0;1;2]] 3 2)).
Proof.
  cbv zeta. split; [vm_compute; reflexivity|]. split.
  - constructor; [right; reflexivity|]. constructor; [left; reflexivity | constructor].
  - vm_compute. split; [reflexivity | discriminate].
Qed.

(* ---- 5. spacing.  Cut every reference contig with the returned splitters (Segment.v's
        split_at_splitters_with_size, whose last argument is ignored): every segment except the first and the
        last two has at least segment_size + k bases (its leading k-base overlap included), hence at least
        segment_size bases as the property says.  (A splitter is a singleton, so it occurs in the reference
        only where it was picked; picks made inside the loop are >= segment_size apart; the pick made at the
        end of a contig - the right-most candidate since the last pick or non-ACGT symbol - may be closer,
        which is why the last two segments are exempt.) *)
Theorem interior_spacing : forall sort contigs k seg spl sing dup c i s,
  (forall l, Permutation (sort l) l /\ StronglySorted N.le (sort l)) -> 1 <= k <= 32 ->
  determine_splitters_gen sort contigs k seg = (spl, sing, dup) ->
  In c contigs ->
  (1 <= i)%nat -> (i + 3 <= length (split_at_splitters_with_size c (set_of_list spl) k seg))%nat ->
  nth_error (split_at_splitters_with_size c (set_of_list spl) k seg) i = Some s ->
  seg + k <= lenN (sdata s).
Proof. exact Splitters_proofs.interior_spacing_proof. Qed.
Print Assumptions interior_spacing.

(* five segments of 3,6,8,6,3 bases: the bound seg + k = 5 is met by the interior ones (6, 8), the first and the
   last two are shorter than it or exempt *)
Example interior_spacing_nonvacuous :
  let contigs := [[2;3;1;1;2;0;2;2;0;2;0;2;2;2]] in
  let spl := fst (fst (determine_splitters contigs 3 2)) in
  map (fun s => length (sdata s)) (split_at_splitters_with_size [2;3;1;1;2;0;2;2;0;2;0;2;2;2] (set_of_list spl) 3 2)
  = [3; 6; 8; 6; 3]%nat.
Proof. vm_compute. reflexivity. Qed.

(* ---- 6. kmer_extract.rs on a sorted vector; the helper entry points *)
Theorem remove_non_singletons_spec : forall vec,
  StronglySorted N.le vec ->
  let r := remove_non_singletons_with_duplicates vec 0 in
  (forall v, In v (fst r) <-> count_occ N.eq_dec vec v = 1%nat) /\
  (forall v, In v (snd r) <-> (2 <= count_occ N.eq_dec vec v)%nat) /\
  StronglySorted N.lt (fst r) /\ StronglySorted N.lt (snd r).
Proof. exact Splitters_proofs.remove_non_singletons_spec_proof. Qed.
Print Assumptions remove_non_singletons_spec.

Theorem with_duplicates_same_kept : forall vec vb,
  remove_non_singletons vec vb = fst (remove_non_singletons_with_duplicates vec vb) /\
  firstn vb (remove_non_singletons vec vb) = firstn vb vec.
Proof. exact Splitters_proofs.with_duplicates_same_kept_proof. Qed.
Print Assumptions with_duplicates_same_kept.

Theorem find_candidate_kmers_multi_spec : forall sort contigs k,
  (forall l, Permutation (sort l) l /\ StronglySorted N.le (sort l)) -> 1 <= k <= 32 ->
  StronglySorted N.lt (find_candidate_kmers_multi_gen sort contigs k) /\
  forall v, In v (find_candidate_kmers_multi_gen sort contigs k) <->
            count_occ N.eq_dec (concat (map (kmers_spec k) contigs)) v = 1%nat.
Proof. exact Splitters_proofs.find_candidate_kmers_multi_spec_proof. Qed.
Print Assumptions find_candidate_kmers_multi_spec.

Example rns_nonvacuous :
  StronglySorted N.le [1;2;2;3;3;3;4;5;5;6] /\
  remove_non_singletons_with_duplicates [1;2;2;3;3;3;4;5;5;6] 0 = ([1;4;6], [2;3;5]) /\
  remove_non_singletons [1;1;2;3;3;4;5;5] 2 = [1;1;2;4].
Proof.
  split; [|vm_compute; split; reflexivity].
  repeat (constructor; [|repeat (constructor; [vm_compute; discriminate|]); constructor]). constructor.
Qed.

(* ---- 7. the streaming variants skip empty records, the in-memory variant does not: same result *)
Theorem skip_empty_same : forall sort contigs k seg,
  determine_splitters_gen sort (filter (fun c => match c with [] => false | _ :: _ => true end) contigs) k seg
  = determine_splitters_gen sort contigs k seg.
Proof. exact Splitters_proofs.skip_empty_proof. Qed.
Print Assumptions skip_empty_same.
