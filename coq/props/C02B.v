(* C02 (whole-archive part, registered under C02; the addressing theorems are in props/C02.v) - Archives conform to the
   AGC v3 format: a reader built only from the format rules (8-byte footer length + stream directory, length-prefixed
   big-endian integers, params, collection-samples/-contigs/-details, x<base64 id>r / x<base64 id>d segment streams,
   0xFF-separated packs of 50, raw groups 0-15 with a placeholder entry, marker-tagged tuple-packed or plain ZSTD parts,
   LZ-diff V2 text) recovers every sample identically to ragc's own reader and to the input.

   spec/AgcV3.v : the pinned format constants (SPEC_...), [decode zd file] (the decoder; zd = zstd decode_all, the only
   oracle), [strict_check] / [decode_strict] (every addressing rule re-checked with the pinned constants, specific error
   codes).  proofs/AgcV3_proofs.v, proofs/AgcV3_compose.v : the proofs.
   The model writer of [writer_conforms]: the container is ANY history of Archive operations (Container.wrun; C13) whose
   abstract state (Container.sp_run) holds, under the pinned stream names, (a) the 16-byte params, (b) the parts
   Collection.store_all produces for the catalogue (C03), (c) for every group used the parts of GroupStore's
   [view_of (finalize st)] (C02 store_then_get) written with the codecs of C12 ([m_cref], [m_cpack]) and C09 ([m_lz_enc]). *)
From Ragc Require Import Mach Varint Container CVarint Zigzag Names Details Collection Tuple SegCompress LZ SegReader
  Range GroupStore AgcV3.
From Ragc Require Import Consts_agcv3 Consts_groupstore Consts_archive Consts_collection Consts_tuple Consts_lz.
From Ragc Require Collection_proofs GroupStore_proofs.
From Ragc Require Import AgcV3_proofs AgcV3_compose.
Open Scope N_scope.

(* ---- every constant the translator reads from ragc's WRITER equals the pinned format constant *)
Theorem writer_eq_spec :
  ar_name_term_w = SPEC_NAME_TERMINATOR /\ vi_shift_w = SPEC_VARINT_RADIX_BITS /\ vi_mul_w = SPEC_VARINT_RADIX_BITS /\
  NM_BASE64_DIGITS = SPEC_BASE64_DIGITS /\ NM_BASE64_MASK = SPEC_BASE64_MASK /\ NM_BASE64_RADIX = SPEC_BASE64_RADIX /\
  NM_REF_PREFIX = SPEC_STREAM_PREFIX /\ NM_REF_SUFFIX = SPEC_REF_SUFFIX /\
  NM_DELTA_PREFIX = SPEC_STREAM_PREFIX /\ NM_DELTA_SUFFIX = SPEC_DELTA_SUFFIX /\
  NM_V3_FROM_REF = SPEC_V3_NAMES_FROM /\ NM_V3_FROM_DELTA = SPEC_V3_NAMES_FROM /\
  AGC_FILE_MAJOR = SPEC_FILE_MAJOR /\ AGC_FILE_MINOR = SPEC_FILE_MINOR /\ W_VERSION_MUL = SPEC_VERSION_MUL /\
  SPEC_V3_NAMES_FROM <= AGC_FILE_MAJOR * W_VERSION_MUL + AGC_FILE_MINOR /\
  W_NAME_COLL_0 = SPEC_NAME_SAMPLES /\ W_NAME_COLL_1 = SPEC_NAME_CONTIGS /\ W_NAME_COLL_2 = SPEC_NAME_DETAILS /\
  W_NAME_FIXED_0 = SPEC_NAME_FILE_TYPE_INFO /\ W_NAME_FIXED_1 = SPEC_NAME_PARAMS /\
  W_NAME_FIXED_2 = SPEC_NAME_SPLITTERS /\ W_NAME_FIXED_3 = SPEC_NAME_SEGMENT_SPLITTERS /\
  W_PARAMS_FIELDS = [0; 1; 2; 3] /\ W_PARAMS_FIELD_BYTES = SPEC_PARAMS_FIELD_BYTES /\
  W_PARAMS_PACK_CARDINALITY = SPEC_PACK_CARDINALITY /\ W_PARAMS_METADATA = SPEC_PARAMS_METADATA /\
  W_CATALOGUE_BATCH = SPEC_CATALOGUE_BATCH /\ pack_cardinality = SPEC_CATALOGUE_BATCH /\
  W_PACK_CARDINALITY = SPEC_PACK_CARDINALITY /\ W_NO_RAW_GROUPS = SPEC_NO_RAW_GROUPS /\
  CONTIG_SEPARATOR = SPEC_SEPARATOR /\
  W_PLACEHOLDER_STEP = SPEC_PLACEHOLDER /\ W_PLACEHOLDER_FLUSH_PACK = SPEC_PLACEHOLDER /\ W_PLACEHOLDER_FINALIZE = SPEC_PLACEHOLDER /\
  W_PACK_MARKER_STEP = SPEC_PACK_MARKER /\ W_PACK_MARKER_FINALIZE = SPEC_PACK_MARKER /\ w_pack_marker = SPEC_PACK_MARKER /\
  W_PACK_CARDINALITY - W_FIRST_RAW_PACK_MINUS = SPEC_PACK_CARDINALITY - 1 /\
  W_FIRST_ID = SPEC_FIRST_DELTA_ID /\
  sc_marker_plain = SPEC_MARKER_PLAIN /\ sc_marker_tuples = SPEC_MARKER_TUPLES /\ w_raw_metadata = SPEC_RAW_METADATA.
Proof. exact AgcV3_proofs.writer_eq_spec_proof. Qed.
Print Assumptions writer_eq_spec.

(* ---- ... and every constant read from ragc's READER (the component models of [decode] use these) *)
Theorem reader_eq_spec :
  ar_len_field_seek = SPEC_FOOTER_LEN_BYTES /\ ar_len_field_buf = SPEC_FOOTER_LEN_BYTES /\ ar_len_field_sub = SPEC_FOOTER_LEN_BYTES /\
  ar_name_term_r = SPEC_NAME_TERMINATOR /\ ar_empty_meta = SPEC_EMPTY_PART_METADATA /\ vi_shift_r = SPEC_VARINT_RADIX_BITS /\
  R_VERSION_MUL = SPEC_VERSION_MUL /\ SPEC_V3_NAMES_FROM <= AGC_FILE_MAJOR * R_VERSION_MUL + AGC_FILE_MINOR /\
  R_NAME_COLL_0 = SPEC_NAME_SAMPLES /\ R_NAME_COLL_1 = SPEC_NAME_CONTIGS /\ R_NAME_COLL_2 = SPEC_NAME_DETAILS /\
  R_NAME_PARAMS = SPEC_NAME_PARAMS /\
  R_PARAMS_OFF_K = SPEC_PARAMS_OFF_K /\ R_PARAMS_OFF_MML = SPEC_PARAMS_OFF_MML /\ R_PARAMS_OFF_PACK = SPEC_PARAMS_OFF_PACK /\
  R_PARAMS_OFF_SEGSIZE = SPEC_PARAMS_OFF_SEGSIZE /\ R_PARAMS_MIN_LEN = SPEC_PARAMS_MIN_LEN /\
  R_PARAMS_SEGSIZE_FROM_LEN = SPEC_PARAMS_OFF_SEGSIZE + SPEC_PARAMS_FIELD_BYTES /\
  R_PARAMS_DEFAULT_SEGSIZE = SPEC_PARAMS_DEFAULT_SEGSIZE /\ R_PARAMS_NUM_PARTS = SPEC_PARAMS_NUM_PARTS /\
  R_PACK_CARDINALITY = SPEC_PACK_CARDINALITY /\ R_NO_RAW_GROUPS = SPEC_NO_RAW_GROUPS /\
  R_DELTA_ID_OFFSET = SPEC_FIRST_DELTA_ID /\ R_REF_PART = SPEC_REF_PART /\
  sc_reader_plain_marker = SPEC_MARKER_PLAIN /\ r_raw_metadata = SPEC_RAW_METADATA.
Proof. exact AgcV3_proofs.reader_eq_spec_proof. Qed.
Print Assumptions reader_eq_spec.

(* ---- stream names: base64 naming is injective on u32 ids; r- and d-names never collide with each other or with a
   fixed stream name; all names are over bytes 1..127 (what the container's directory preserves, C13) *)
Theorem stream_names : forall g1 g2, g1 < two32 -> g2 < two32 ->
  (stream_ref_name g1 = stream_ref_name g2 -> g1 = g2) /\
  (stream_delta_name g1 = stream_delta_name g2 -> g1 = g2) /\
  stream_ref_name g1 <> stream_delta_name g2 /\
  ~ In (stream_ref_name g1) SPEC_FIXED_NAMES /\ ~ In (stream_delta_name g1) SPEC_FIXED_NAMES.
Proof. exact AgcV3_proofs.stream_names_proof. Qed.
Print Assumptions stream_names.
Example stream_names_nonvacuous :
  stream_ref_name 0 = [120; 48; 114] /\ stream_delta_name 16 = [120; 71; 100] /\ stream_ref_name 64 = [120; 48; 49; 114] /\
  stream_delta_name 4294967295 = [120; 35; 35; 35; 35; 35; 51; 100] /\ b64_value [35; 35; 35; 35; 35; 51] = Some 4294967295.
Proof. vm_compute. repeat split; reflexivity. Qed.

Theorem stream_names_wf : forall g,
  name_wf (stream_ref_name g) /\ name_wf (stream_delta_name g) /\ Forall name_wf SPEC_FIXED_NAMES.
Proof. exact AgcV3_proofs.stream_names_wf_proof. Qed.
Print Assumptions stream_names_wf.

(* ---- the decoder IS the composition of the proved components: Container.deserialize / get_part_by_id (C13),
   Collection.load_all (C03), SegReader.get_segment (C02 addressing) over SegCompress.decompress_segment_with_marker (C12)
   and LZ.decode_full (C09), Range.reconstruct_contig (C07); read_params / coll_arch / group_view_of only look streams up
   by their pinned names *)
Theorem decode_is_reader : forall zd file,
  decode zd file =
  obnd (snd (Container.deserialize spec_max_off file)) (fun rd =>
  obnd (read_params rd) (fun p =>
  obnd (coll_arch rd) (fun a =>
  obnd (Collection.load_all zd (p_segsize p) (p_k p) a) (fun c =>
    mapM (fun s =>
      obnd (mapM (fun ct =>
        obnd (mapM (fun x =>
                obnd (obnd (group_view_of rd (sg x)) (fun gv =>
                        SegReader.get_segment (SegCompress.decompress_segment_with_marker zd) (LZ.decode_full (p_mml p))
                                              (fun _ => gv) (desc_of_seg x)))
                     (fun data => Ok (mkRSeg (sl x) (src x) data))) (csegs ct))
             (fun rs => obnd (Range.reconstruct_contig (p_k p) rs) (fun bases => Ok (cname ct, bases))))
           (scontigs s))
        (fun cs => Ok (sname s, cs))) (samples c))))).
Proof. exact AgcV3_proofs.decode_is_reader_proof. Qed.
Print Assumptions decode_is_reader.

(* ---- the strict mode only adds checks: what it accepts is what the decoder returns *)
Theorem strict_sound : forall zd file c,
  decode_strict zd file = SOk c -> strict_check zd file = None /\ decode zd file = Ok c.
Proof. exact AgcV3_proofs.strict_sound_proof. Qed.
Print Assumptions strict_sound.

(* ---- the codecs of the model writer meet the hypotheses of the group store theorems (props/C02.v codecs_ok):
   C12 (reference / pack compression) and C09 (LZ-diff), zstd abstract *)
Theorem codecs_instance :
  forall (zc : N -> list N -> list N) (zd : list N -> option (list N)),
  (forall l x, zd (zc l x) = Some x) -> (forall l x, zc l x <> []) ->
  forall mml level, 4 <= mml ->
  GroupStore_proofs.codecs_ok (m_lz_enc mml) (decode_full mml) (m_cref zc) (m_cpack zc level) (dwm zd)
    (fun x => lenN x < 2147483648)
    (fun r t => t <> [] /\ Forall sym_ok t /\ lenN r + lenN t + mml < 2147483648).
Proof. exact AgcV3_compose.codecs_instance_proof. Qed.
Print Assumptions codecs_instance.

(* ---- container half (C13): for every history of Archive operations, reopening the closed file and reading a stream
   by name returns the committed parts of that stream (an empty part as ([], 0)), None for an unknown name:
   sp_items s name = option_map (fun ss => map sp_view (ss_parts ss)) (the stream sp_find name locates in s) *)
Theorem container_half : forall ops, Forall wop_wf ops ->
  let w := fst (wrun w_init ops) in
  let s := fst (sp_run sp_init ops) in
  lenN (close w) <= spec_max_off ->
  exists rd, open_archive (close w) = Ok rd /\
    forall name, stream_items rd name = Ok (sp_items s name).
Proof. exact AgcV3_compose.open_ok. Qed.
Print Assumptions container_half.

(* ---- catalogue half (C13 + C03): file bytes -> sample names, contig names, descriptor tables *)
Theorem catalogue_half :
  forall (zc : N -> list N -> list N) (zd : list N -> option (list N)),
  (forall l x, zd (zc l x) = Some x) -> (forall l x, zc l x <> []) ->
  forall ss k, ss + k <= 2147483648 ->
  forall (c cw : coll) (a : arch),
  segment_size c = ss -> kmer_length c = k -> lenN (samples c) < 4294967296 ->
  Forall (fun s => Forall (fun b => 1 <= b < 128) (sname s)) (samples c) ->
  Forall (Collection_proofs.batch_ok zc ss k)
         (Collection_proofs.chunks (length (samples c)) (N.to_nat SPEC_CATALOGUE_BATCH) (samples c)) ->
  store_all zc SPEC_CATALOGUE_BATCH c arch_empty = Ok (cw, a) ->
  forall ops, Forall wop_wf ops ->
  let w := fst (wrun w_init ops) in
  let s := fst (sp_run sp_init ops) in
  lenN (close w) <= spec_max_off ->
  sp_parts s SPEC_NAME_SAMPLES = Some (a_samples a) ->
  sp_parts s SPEC_NAME_CONTIGS = Some (a_contigs a) ->
  sp_parts s SPEC_NAME_DETAILS = Some (a_details a) ->
  exists rd arc cr, open_archive (close w) = Ok rd /\ coll_arch rd = Ok arc /\ load_all zd ss k arc = Ok cr /\
    samples cr = samples c /\ samples_loaded cr = lenN (samples c).
Proof.
  intros zc zd Hzd Hzc ss k Hssk c cw a Hss Hk Hn Hnames Hb Hst ops Hwf w s Hlen H1 H2 H3.
  destruct (AgcV3_compose.catalogue_half_proof zc zd Hzd Hzc ss k Hssk c cw a Hss Hk Hn Hnames Hb Hst ops Hwf Hlen H1 H2 H3)
    as [rd [cr [Ho [_ [Hc [Hl [Hs1 Hs2]]]]]]].
  exists rd, (arch_view a), cr. repeat split; assumption.
Qed.
Print Assumptions catalogue_half.

(* ---- segment half (C13 + C02 store_then_get + C12 + C09): for every group whose two streams hold the parts of the
   finalized group store, every registered segment (any op sequence) is decoded from the file to its stored bytes *)
Theorem segment_half :
  forall (zc : N -> list N -> list N) (zd : list N -> option (list N)),
  (forall l x, zd (zc l x) = Some x) -> (forall l x, zc l x <> []) ->
  forall mml level, 4 <= mml ->
  forall gops st,
  run (m_lz_enc mml) (m_cref zc) (m_cpack zc level) gops = Ok st ->
  GroupStore_proofs.ops_ok ref_dom (lz_dom mml) gops ->
  forall ops rd,
  (forall name, stream_items rd name = Ok (sp_items (fst (sp_run sp_init ops)) name)) ->
  forall g,
  sp_parts (fst (sp_run sp_init ops)) (stream_ref_name g) =
    option_map (map unswap) (gv_ref (view_of (finalize (m_cpack zc level) st) g)) ->
  sp_parts (fst (sp_run sp_init ops)) (stream_delta_name g) =
    option_map (map unswap) (gv_delta (view_of (finalize (m_cpack zc level) st) g)) ->
  forall sg id, In (sg, id) (regs_of st g) ->
  get_seg zd rd mml (desc_of g sg id) = Ok (s_data sg) /\ wrap32 (lenN (s_data sg)) = lenN (s_data sg).
Proof. exact AgcV3_compose.segment_half_proof. Qed.
Print Assumptions segment_half.

(* ---- the whole archive.  L = the catalogue of stored segments (per sample and contig the segments in part order with
   the group and in-group id they were registered under); the decoder returns every contig as its stored segments
   re-oriented and tiled with k-symbol overlaps (Range.tiled = the C10 tiling read backwards), names and order as stored.
   Hypotheses: zstd round trip; 4 <= min_match_len; u32 parameters; the C02 hypotheses on the group ops; the C03
   hypotheses on the catalogue; every segment of L is registered in the store under its (group, id); later segments of
   a contig have at least k symbols (C10 later_len_ge_k); the container history is well formed, the file within the
   largest file offset, and its streams hold params / catalogue parts / group parts under the pinned names. *)
Theorem writer_conforms :
  forall (zc : N -> list N -> list N) (zd : list N -> option (list N)),
  (forall l x, zd (zc l x) = Some x) -> (forall l x, zc l x <> []) ->
  forall k mml ss level,
  4 <= mml -> k < two32 -> mml < two32 -> ss < two32 -> ss + k <= 2147483648 ->
  forall gops st,
  run (m_lz_enc mml) (m_cref zc) (m_cpack zc level) gops = Ok st ->
  GroupStore_proofs.ops_ok ref_dom (lz_dom mml) gops ->
  forall (L : layout) (c cw : coll) (a : arch),
  samples c = samples_of L -> segment_size c = ss -> kmer_length c = k ->
  lenN (samples c) < 4294967296 ->
  Forall (fun s => Forall (fun b => 1 <= b < 128) (sname s)) (samples c) ->
  Forall (Collection_proofs.batch_ok zc ss k)
         (Collection_proofs.chunks (length (samples c)) (N.to_nat SPEC_CATALOGUE_BATCH) (samples c)) ->
  store_all zc SPEC_CATALOGUE_BATCH c arch_empty = Ok (cw, a) ->
  (forall p, placed_in L p -> In (pl_seg p, pl_id p) (regs_of st (pl_group p))) ->
  (forall sm ct, In sm L -> In ct (snd sm) -> Forall (fun p => k <= lenN (s_data (pl_seg p))) (tl (snd ct))) ->
  forall ops, Forall wop_wf ops ->
  let w := fst (wrun w_init ops) in
  let s := fst (sp_run sp_init ops) in
  lenN (close w) <= spec_max_off ->
  sp_parts s SPEC_NAME_PARAMS = Some [(encode_params k mml ss, SPEC_PARAMS_METADATA)] ->
  sp_parts s SPEC_NAME_SAMPLES = Some (a_samples a) ->
  sp_parts s SPEC_NAME_CONTIGS = Some (a_contigs a) ->
  sp_parts s SPEC_NAME_DETAILS = Some (a_details a) ->
  (forall p, placed_in L p ->
     sp_parts s (stream_ref_name (pl_group p)) =
       option_map (map unswap) (gv_ref (view_of (finalize (m_cpack zc level) st) (pl_group p))) /\
     sp_parts s (stream_delta_name (pl_group p)) =
       option_map (map unswap) (gv_delta (view_of (finalize (m_cpack zc level) st) (pl_group p)))) ->
  decode zd (close w) = Ok (reassembled k L).
Proof. exact AgcV3_compose.writer_conforms_proof. Qed.
Print Assumptions writer_conforms.

(* ======================================================================== non-vacuity
   zstd hypotheses are satisfiable (toy codec: prefix the level byte); with it a two-sample archive written by the model
   writers - LZ group 16 (reference + one delta, stored reverse-complemented, with an IUPAC code), raw group 3
   (placeholder + one entry), catalogue of one batch, streams registered and buffered in the order ragc uses, flushed
   and closed - meets EVERY hypothesis of writer_conforms, and the decoder (plain and strict) returns the input *)
Definition zc1 (l : N) (x : list N) : list N := l :: x.
Definition zd1 (d : list N) : option (list N) := Some (tl d).
Definition ex_ref : list N := [0;1;2;3;0;1;2;3;3;2;1;0;0;0;1;1;2;2;3;3].
Definition sA : seg_in := {| s_sample := [83;48]; s_contig := [99;48]; s_part := 0; s_data := ex_ref; s_rc := false |}.
Definition sB : seg_in := {| s_sample := [83;49]; s_contig := [99;48]; s_part := 0; s_data := ex_ref ++ [1;5;2]; s_rc := true |}.
Definition sC : seg_in := {| s_sample := [83;49]; s_contig := [99;48]; s_part := 1; s_data := [2;2;1;0]; s_rc := false |}.
Definition ex_gops : list op := [(16, [sB; sA]); (3, [sC])].
Definition ex_st : store :=
  match run (m_lz_enc 5) (m_cref zc1) (m_cpack zc1 17) ex_gops with Ok st => st | _ => store_empty end.
Definition ex_L : layout :=
  [ ([83;48], [ ([99;48], [mkPlaced sA 16 0]) ]);
    ([83;49], [ ([99;48], [mkPlaced sB 16 1; mkPlaced sC 3 1]) ]) ].
Definition ex_c : coll := mkColl (samples_of ex_L) [] 60 3 0 0.
Definition ex_a : arch := match store_all zc1 50 ex_c arch_empty with Ok (_, a) => a | _ => arch_empty end.
Definition ex_fin : store := finalize (m_cpack zc1 17) ex_st.
Definition parts_ops (sid : N) (l : list Container.item) : list wop := map (fun it => WAddBuf sid (fst it) (snd it)) l.
Definition opt_parts (o : option (list SegReader.part)) : list Container.item :=
  match o with Some l => map unswap l | None => [] end.
Definition ex_wops : list wop :=
  [WRegister SPEC_NAME_SAMPLES; WRegister SPEC_NAME_CONTIGS; WRegister SPEC_NAME_DETAILS; WRegister SPEC_NAME_FILE_TYPE_INFO;
   WRegister SPEC_NAME_PARAMS; WRegister SPEC_NAME_SPLITTERS; WRegister SPEC_NAME_SEGMENT_SPLITTERS;
   WRegister (stream_delta_name 16); WRegister (stream_ref_name 16); WRegister (stream_delta_name 3); WRegister (stream_ref_name 3)]
  ++ parts_ops 7 (opt_parts (gv_delta (view_of ex_fin 16))) ++ parts_ops 8 (opt_parts (gv_ref (view_of ex_fin 16)))
  ++ parts_ops 9 (opt_parts (gv_delta (view_of ex_fin 3))) ++ parts_ops 10 (opt_parts (gv_ref (view_of ex_fin 3)))
  ++ [WAddBuf 4 (encode_params 3 5 60) 0; WAddBuf 5 [] 0; WAddBuf 6 [] 0]
  ++ parts_ops 0 (a_samples ex_a) ++ parts_ops 1 (a_contigs ex_a) ++ parts_ops 2 (a_details ex_a)
  ++ [WAddBuf 3 [112; 0; 114; 0] 7; WFlush].
Definition ex_file : list N := close (fst (wrun w_init ex_wops)).


Ltac solve_wf :=
  repeat match goal with
         | |- Forall _ [] => constructor
         | |- Forall _ (_ :: _) => constructor
         | |- _ /\ _ => split
         | |- True => exact I
         | |- wop_wf _ => cbn [wop_wf]; unfold name_wf
         | |- _ <= _ => (vm_compute; discriminate)
         | |- _ < _ => (vm_compute; reflexivity)
         | |- sym_ok _ => (vm_compute; reflexivity)
         | |- _ <> [] => discriminate
         | |- _ => progress (cbv beta; cbn [sname scontigs cname fst snd])
         end.

Example writer_conforms_nonvacuous :
  (forall l x, zd1 (zc1 l x) = Some x) /\ (forall l x, zc1 l x <> []) /\
  run (m_lz_enc 5) (m_cref zc1) (m_cpack zc1 17) ex_gops = Ok ex_st /\
  GroupStore_proofs.ops_ok ref_dom (lz_dom 5) ex_gops /\
  samples ex_c = samples_of ex_L /\
  Forall (fun s => Forall (fun b => 1 <= b < 128) (sname s)) (samples ex_c) /\
  Forall (Collection_proofs.batch_ok zc1 60 3)
         (Collection_proofs.chunks (length (samples ex_c)) (N.to_nat SPEC_CATALOGUE_BATCH) (samples ex_c)) /\
  (exists cw, store_all zc1 SPEC_CATALOGUE_BATCH ex_c arch_empty = Ok (cw, ex_a)) /\
  (forall p, placed_in ex_L p -> In (pl_seg p, pl_id p) (regs_of ex_st (pl_group p))) /\
  (forall sm ct, In sm ex_L -> In ct (snd sm) -> Forall (fun p => 3 <= lenN (s_data (pl_seg p))) (tl (snd ct))) /\
  Forall wop_wf ex_wops /\ lenN ex_file <= spec_max_off /\
  sp_parts (fst (sp_run sp_init ex_wops)) SPEC_NAME_PARAMS = Some [(encode_params 3 5 60, SPEC_PARAMS_METADATA)] /\
  sp_parts (fst (sp_run sp_init ex_wops)) SPEC_NAME_SAMPLES = Some (a_samples ex_a) /\
  sp_parts (fst (sp_run sp_init ex_wops)) SPEC_NAME_CONTIGS = Some (a_contigs ex_a) /\
  sp_parts (fst (sp_run sp_init ex_wops)) SPEC_NAME_DETAILS = Some (a_details ex_a) /\
  (forall p, placed_in ex_L p ->
     sp_parts (fst (sp_run sp_init ex_wops)) (stream_ref_name (pl_group p)) =
       option_map (map unswap) (gv_ref (view_of ex_fin (pl_group p))) /\
     sp_parts (fst (sp_run sp_init ex_wops)) (stream_delta_name (pl_group p)) =
       option_map (map unswap) (gv_delta (view_of ex_fin (pl_group p)))) /\
  (* and the conclusion, computed: reference stored tuple-packed, delta pack and raw pack stored raw, placeholder,
     a reverse-complemented segment with an IUPAC code, a k-overlap *)
  decode zd1 ex_file = Ok (reassembled 3 ex_L) /\ decode_strict zd1 ex_file = SOk (reassembled 3 ex_L) /\
  reassembled 3 ex_L =
    [([83; 48], [([99; 48], ex_ref)]);
     ([83; 49], [([99; 48], [1; 5; 2; 0; 0; 1; 1; 2; 2; 3; 3; 3; 2; 1; 0; 0; 1; 2; 3; 0; 1; 2; 3; 0])])] /\
  view_of ex_fin 16 = {| gv_ref := Some [(20, [13; 27; 27; 228; 5; 175; 0; 64; 1])];
                         gv_delta := Some [(0, [48; 44; 49; 53; 46; 66; 70; 67; 255])] |} /\
  view_of ex_fin 3 = {| gv_ref := Some []; gv_delta := Some [(0, [127; 255; 2; 2; 1; 0; 255])] |}.
Proof.
  assert (Hplaced : forall (P : placed -> Prop), P (mkPlaced sA 16 0) -> P (mkPlaced sB 16 1) -> P (mkPlaced sC 3 1) ->
                    forall p, placed_in ex_L p -> P p).
  { intros P PA PB PC p [sm [ct [H1 [H2 H3]]]].
    cbn in H1. destruct H1 as [<-|[<-|[]]]; cbn in H2; destruct H2 as [<-|[]]; cbn in H3.
    - destruct H3 as [<-|[]]. exact PA.
    - destruct H3 as [<-|[<-|[]]]; assumption. }
  split; [reflexivity|]. split; [discriminate|].
  split. { unfold ex_st. destruct (run _ _ _ ex_gops) eqn:E; [reflexivity| |]; vm_compute in E; discriminate. }
  split. { apply ops_okb_ok. vm_compute. reflexivity. }
  split; [reflexivity|].
  split. { unfold ex_c, samples_of, ex_L. cbn [samples map fst snd sname]. solve_wf. }
  split. { apply (Collection_proofs.forallb_Forall (Collection_proofs.batch_okb zc1 60 3));
           [apply Collection_proofs.batch_okb_ok | vm_compute; reflexivity]. }
  split. { unfold ex_a. destruct (store_all zc1 50 ex_c arch_empty) as [[cw a]| |] eqn:E;
           [exists cw; exact E | |]; vm_compute in E; discriminate. }
  split. { apply Hplaced; vm_compute; auto. }
  split. { intros sm ct H1 H2. cbn in H1. destruct H1 as [<-|[<-|[]]]; cbn in H2; destruct H2 as [<-|[]]; cbn [snd tl]; solve_wf. }
  split. { let v := eval vm_compute in ex_wops in change ex_wops with v. solve_wf. }
  split; [vm_compute; discriminate|].
  split; [vm_compute; reflexivity|]. split; [vm_compute; reflexivity|]. split; [vm_compute; reflexivity|].
  split; [vm_compute; reflexivity|].
  split. { apply Hplaced; split; vm_compute; reflexivity. }
  vm_compute. repeat split; reflexivity.
Qed.

(* params: the three on-disk lengths; the reader's default segment size for the 12-byte form *)
Example params_nonvacuous :
  encode_params 21 20 60000 = [21;0;0;0; 20;0;0;0; 50;0;0;0; 96;234;0;0] /\
  decode_params (encode_params 21 20 60000) = Ok (mkParams 21 20 50 60000 None 16) /\
  decode_params [21;0;0;0; 20;0;0;0; 50;0;0;0] = Ok (mkParams 21 20 50 60000 None 12) /\
  decode_params (encode_params 21 20 1000 ++ [16;0;0;0]) = Ok (mkParams 21 20 50 1000 (Some 16) 20) /\
  decode_params [21;0;0;0] = Err.
Proof. vm_compute. repeat split; reflexivity. Qed.

(* the strict mode names the rule that is broken (same archive, one byte of a part changed) *)
Definition break_part (sid : N) (f : list N -> list N) (ops : list wop) : list wop :=
  map (fun o => match o with WAddBuf i d m => if i =? sid then WAddBuf i (f d) m else o | _ => o end) ops.
Example strict_codes_nonvacuous :
  decode_strict zd1 (close (fst (wrun w_init (break_part 9 (fun d => 126 :: tl d) ex_wops)))) = SErr E_PLACEHOLDER /\
  decode_strict zd1 (close (fst (wrun w_init (break_part 9 (fun d => removelast d) ex_wops)))) = SErr E_PACK_LAYOUT /\
  decode_strict zd1 (close (fst (wrun w_init (break_part 8 (fun d => d ++ [0]) ex_wops)))) = SErr E_METADATA /\
  decode_strict zd1 (close (fst (wrun w_init (break_part 4 (fun d => firstn 8 d ++ [64] ++ skipn 9 d) ex_wops)))) = SErr E_PARAMS /\
  decode_strict zd1 (close (fst (wrun w_init (break_part 7 (fun d => [255]) ex_wops)))) = SErr E_DESC_LEN /\
  decode_strict zd1 (close (fst (wrun w_init (break_part 9 (fun d => [127; 255]) ex_wops)))) = SErr E_ID /\
  decode_strict zd1 (firstn 300 ex_file) = SErr E_CONTAINER.
Proof. vm_compute. repeat split; reflexivity. Qed.
