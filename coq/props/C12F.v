(* C12F (sub-check of C12) - the repetitiveness decision of segment_compression.rs is computed in f64
   (`cnt as f64 / cur_size as f64`, compared with `>` against the running maximum and with `>=` / `<` against
   REPETITIVENESS_THRESHOLD = 0.5); coq/model/SegCompress.v computes it in exact rational arithmetic
   (frac_gt / frac_ge_thr / frac_lt_thr).  Here the agreement is PROVED with Flocq 4.1.0 (IEEE754.Binary / Bits,
   binary64 = binary_float 53 1024): the marker decision of the f64 code and of the rational model coincide for
   every input, so props/C12.v rep_decision_exact / ref_segment_roundtrip speak about the f64 code as well.

   Assumed about Rust/hardware (reading of the source text, stated in proofs/FloatThr_proofs.v): `as f64` on i32 and
   `/` on f64 are IEEE-754 binary64 operations rounded to nearest even (Flocq binary_normalize / b64_div with mode_NE),
   0.5 and 0.0 are the doubles 0x3FE0000000000000 and +0, `<` `>` `>=` are IEEE comparisons (b64_compare; false on NaN).

   Print Assumptions: every theorem below depends (through Flocq, which is built on Coq.Reals) on exactly these four
   axioms of Coq's standard library, the standard base of the classical real numbers, and on nothing else:
       ClassicalDedekindReals.sig_forall_dec                     (Coq.Reals, since 8.11)
       ClassicalDedekindReals.sig_not_dec                        (Coq.Reals, since 8.11)
       FunctionalExtensionality.functional_extensionality_dep    (already on bin/check's allow-list)
       Classical_Prop.classic                                    (already on bin/check's allow-list)
   No axiom of our own, nothing left unproved. *)
From Coq Require Import ZArith NArith List Reals Lia.
From Flocq Require Import Core.Core IEEE754.Binary IEEE754.Bits.
From Ragc Require Import Mach Consts_tuple Tuple SegCompress FloatThr_proofs.
Import ListNotations.

(* ---- real-number layer: correctly rounded (nearest-even, binary64 format with subnormals) integer quotient vs 1/2 *)
Theorem rnd_div_lt_half : forall cnt cur : Z,
  (0 <= cnt)%Z -> (0 < cur < 9007199254740992)%Z ->                                         (* cur < 2^53 *)
  (round radix2 (FLT_exp (-1074)%Z 53%Z) ZnearestE (IZR cnt / IZR cur) < /2)%R  <->  (2 * cnt < cur)%Z.
Proof. exact FloatThr_proofs.rnd_div_lt_half_proof. Qed.
Print Assumptions rnd_div_lt_half.
Example rnd_div_nonvacuous : (0 <= 1073741823)%Z /\ (0 < 2147483647 < 9007199254740992)%Z /\ (2 * 1073741823 < 2147483647)%Z.
Proof. lia. Qed.

(* ---- Binary layer, nothing but Flocq's primitives in the statement: x = `cnt as f64`, y = `cur as f64`,
   q = `x / y`, h = 0.5.  Conversions exact, quotient finite and correctly rounded, and
   q < h  <->  2*cnt < cur ;   q >= h  <->  cur <= 2*cnt.   (i32 counters: cnt, cur < 2^31 < 2^53) *)
Theorem f64_div_vs_half : forall cnt cur : Z,
  (0 <= cnt < 9007199254740992)%Z -> (0 < cur < 9007199254740992)%Z ->
  let x := binary_normalize 53%Z 1024%Z eq_refl eq_refl BinarySingleNaN.mode_NE cnt 0%Z false in
  let y := binary_normalize 53%Z 1024%Z eq_refl eq_refl BinarySingleNaN.mode_NE cur 0%Z false in
  let q := b64_div BinarySingleNaN.mode_NE x y in
  let h := b64_of_bits 0x3FE0000000000000%Z in
  B2R 53%Z 1024%Z x = IZR cnt /\ B2R 53%Z 1024%Z y = IZR cur /\ B2R 53%Z 1024%Z h = (/2)%R
  /\ is_finite 53%Z 1024%Z q = true
  /\ B2R 53%Z 1024%Z q = round radix2 (FLT_exp (-1074)%Z 53%Z) ZnearestE (IZR cnt / IZR cur)
  /\ (b64_compare q h = Some Lt <-> (2 * cnt < cur)%Z)
  /\ (b64_compare q h = Some Gt \/ b64_compare q h = Some Eq <-> (cur <= 2 * cnt)%Z).
Proof. exact FloatThr_proofs.f64_div_vs_half_proof. Qed.
Print Assumptions f64_div_vs_half.
(* the closest an i32 quotient gets to 1/2 from below, and 1/2 itself, evaluated by Flocq's own Bdiv *)
Example f64_div_nonvacuous :
  f64_lt (f64_div (f64_of_Z 1073741823%Z) (f64_of_Z 2147483647%Z)) f64_half = true
  /\ f64_lt (f64_div (f64_of_Z 1073741823%Z) (f64_of_Z 2147483646%Z)) f64_half = false
  /\ bits_of_b64 (f64_div (f64_of_Z 1%Z) (f64_of_Z 3%Z)) = 0x3FD5555555555555%Z.
Proof. vm_compute. repeat split; reflexivity. Qed.

(* ---- the names used below are these Flocq terms *)
Theorem f64_ops_spelled :
  (forall z, f64_of_Z z = binary_normalize 53%Z 1024%Z eq_refl eq_refl BinarySingleNaN.mode_NE z 0%Z false)
  /\ (forall x y, f64_div x y = b64_div BinarySingleNaN.mode_NE x y)
  /\ f64_half = b64_of_bits 0x3FE0000000000000%Z /\ f64_zero = b64_of_bits 0%Z
  /\ (forall x y : binary64,
        (f64_lt x y = true <-> b64_compare x y = Some Lt)
        /\ (f64_gt x y = true <-> b64_compare x y = Some Gt)
        /\ (f64_ge x y = true <-> (b64_compare x y = Some Gt \/ b64_compare x y = Some Eq)))
  /\ B2R 53%Z 1024%Z f64_half = (IZR (Z.of_N rep_thr_num) / IZR (Z.of_N rep_thr_den))%R.   (* 0.5 = the model's threshold *)
Proof.
  exact (conj (fun z => eq_refl) (conj (fun x y => eq_refl)
        (conj (proj1 FloatThr_proofs.f64_consts_of_bits) (conj (proj2 FloatThr_proofs.f64_consts_of_bits)
        (conj FloatThr_proofs.f64_cmp_spelled FloatThr_proofs.f64_half_thr))))).
Qed.
Print Assumptions f64_ops_spelled.

(* ---- one offset, in the model's terms: the f64 tests against 0.5 are SegCompress.frac_lt_thr / frac_ge_thr *)
Theorem f64_frac_lt_thr : forall cnt cur : N,
  (cnt < 9007199254740992)%N -> (0 < cur < 9007199254740992)%N ->
  f64_lt (f64_div (f64_of_Z (Z.of_N cnt)) (f64_of_Z (Z.of_N cur))) f64_half = frac_lt_thr (cnt, cur)
  /\ f64_ge (f64_div (f64_of_Z (Z.of_N cnt)) (f64_of_Z (Z.of_N cur))) f64_half = frac_ge_thr (cnt, cur).
Proof. exact FloatThr_proofs.f64_frac_lt_thr_proof. Qed.
Print Assumptions f64_frac_lt_thr.
Example f64_frac_nonvacuous : (3 < 9007199254740992)%N /\ (0 < 7 < 9007199254740992)%N /\ frac_lt_thr (3%N, 7%N) = true /\ frac_lt_thr (4%N, 7%N) = false.
Proof. repeat split; reflexivity. Qed.

(* ---- the whole loop: check_repetitiveness with an f64 running maximum (FloatThr_proofs.rep_loop_f: rep_loop with
   f64_frac / f64_gt / f64_ge in place of the rational tests) and the rational model fail together (i32 counter
   overflow) and otherwise take the same decision `< 0.5` *)
Theorem check_rep_f_agrees : forall data : list N,
  match check_repetitiveness data, check_repetitiveness_f data with
  | Some rep, Some r => f64_lt r f64_half = frac_lt_thr rep
  | None, None => True
  | _, _ => False
  end.
Proof. exact FloatThr_proofs.check_rep_sim. Qed.
Print Assumptions check_rep_f_agrees.

(* compress_reference_segment with the f64 test is the model function of C12, for every zstd and every input *)
Theorem compress_reference_segment_f_eq : forall (zc : N -> list N -> list N) (data : list N),
  compress_reference_segment_f zc data = compress_reference_segment zc data.
Proof. exact FloatThr_proofs.compress_reference_segment_f_eq_proof. Qed.
Print Assumptions compress_reference_segment_f_eq.

(* C12 rep_decision_exact, for the f64 code *)
Theorem f64_decision_exact : forall (data : list N) (r : binary64),
  check_repetitiveness_f data = Some r ->
  f64_lt r f64_half = negb (existsb (offset_reaches data) rep_offsets).
Proof. exact FloatThr_proofs.f64_decision_exact_proof. Qed.
Print Assumptions f64_decision_exact.

Theorem check_rep_f_total : forall data : list N, (lenN data < 2147483648)%N -> exists r, check_repetitiveness_f data = Some r.
Proof. exact FloatThr_proofs.check_rep_f_total_proof. Qed.
Print Assumptions check_rep_f_total.

(* both sides of the decision, computed with Flocq's Bdiv / Bcompare (same inputs as C12 rep_both_sides) *)
Definition f64_dec (data : list N) : option bool :=
  match check_repetitiveness_f data with Some r => Some (f64_lt r f64_half) | None => None end.
Example f64_both_sides :
  f64_dec [0;0;0;0;0;1]%N = Some false                     (* 1/2: not below *)
  /\ f64_dec [0;0;0;0;1;1]%N = Some true                   (* 0/2 *)
  /\ f64_dec [0;1;2;3;0;2;3]%N = Some true                 (* 1/3 *)
  /\ f64_dec [4;4;4;4;4;4;4;4]%N = Some true               (* cur_size = 0 *)
  /\ f64_dec [4;4;4;4;0;4;4;4;4;4]%N = Some false          (* cnt > cur_size: 4/1, fraction above 1 *)
  /\ option_map bits_of_b64 (check_repetitiveness_f [0;1;2;3;0;2;3]%N) = Some 0x3FD5555555555555%Z.
Proof. vm_compute. repeat split; reflexivity. Qed.
