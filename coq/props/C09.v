From Ragc Require Import LZ LZ_int LZ_match LZ_main.
(* C09: for every reference, every non-empty target over the symbol codes ragc uses and every minimum match
   length, decoding the encoder's output against the same reference returns the target exactly; the encoding is
   empty only when the target equals the reference; it never contains the pack separator 0xFF.

   Model: model/LZ.v (dev-profile arithmetic: a trap or an out-of-range index is [Panic]).  [encode] =
   LZDiff::new; prepare; encode.  [decode_full] = the decompressor's wrapper: new; prepare; empty delta => the
   reference, else LZDiff::decode.
   Hypotheses the proofs need, beyond the property text:
   - 4 <= mml : below 4 LZDiff::new traps (u32 underflow of key_len), see lz_small_mml_panics;
   - lenN rf + lenN tgt + mml < 2^31 : position deltas are computed in i32 and positions in u32;
   - target symbols satisfy sym_ok (= codes 0..30 with the generated constants, see sym_ok_range); the
     reference may hold arbitrary values (it is only compared and copied). *)

Theorem lz_roundtrip : forall mml rf tgt,
  4 <= mml -> tgt <> [] -> Forall sym_ok tgt -> lenN rf + lenN tgt + mml < 2147483648 ->
  exists enc, encode mml rf tgt = Ok enc /\ decode_full mml rf enc = Ok tgt.
Proof. exact LZ_main.lz_roundtrip_proof. Qed.
Print Assumptions lz_roundtrip.

Theorem lz_empty_iff : forall mml rf tgt enc,
  4 <= mml -> tgt <> [] -> Forall sym_ok tgt -> lenN rf + lenN tgt + mml < 2147483648 ->
  encode mml rf tgt = Ok enc -> (enc = [] <-> tgt = rf).
Proof. exact LZ_main.lz_empty_iff_proof. Qed.
Print Assumptions lz_empty_iff.

Theorem lz_no_separator : forall mml rf tgt enc,
  4 <= mml -> tgt <> [] -> Forall sym_ok tgt -> lenN rf + lenN tgt + mml < 2147483648 ->
  encode mml rf tgt = Ok enc -> ~ In 255 enc.
Proof. exact LZ_main.lz_no_separator_proof. Qed.
Print Assumptions lz_no_separator.

(* what happens below the range: LZDiff::new traps (dev profile), in the encoder and in the decompressor *)
Theorem lz_small_mml_panics : forall mml rf tgt enc,
  mml < 4 -> encode mml rf tgt = Panic /\ decode_full mml rf enc = Panic.
Proof. exact LZ_main.lz_small_mml_panics_proof. Qed.
Print Assumptions lz_small_mml_panics.

(* the round trip does not depend on the index: any hash function, any table contents, any mask below the
   table length (or an empty table), on a state whose reference is padded as prepare pads it *)
Theorem lz_roundtrip_any_index : forall hash st rf tgt,
  (refp st = rf ++ repeat pad_byte (N.to_nat (key_len st)) /\ ref_len st = lenN rf /\
   1 <= key_len st /\ key_len st + 3 = mml st /\ (ht st = [] \/ ht_mask st < lenN (ht st)) /\
   refp_len st = lenN (refp st)) ->
  tgt <> [] -> Forall sym_ok tgt -> lenN rf + lenN tgt + mml st < 2147483648 ->
  exists enc, lz_encode hash st tgt = Ok enc /\
    (match enc with [] => Ok rf | _ :: _ => lz_decode st enc end) = Ok tgt /\
    (enc = [] <-> tgt = rf) /\ Forall (fun b => b <> 255) enc.
Proof. exact LZ_main.lz_roundtrip_any_index_proof. Qed.
Print Assumptions lz_roundtrip_any_index.

(* whatever the table contains, a triple returned by find_best_match_lp satisfies the direct comparison *)
Theorem find_best_match_lp_sound : forall st code hash tgt tp max_len npl mp lb lf,
  (lenN (refp st) < 4294967296 /\ lenN tgt < 4294967296) -> refp_len st = lenN (refp st) ->
  tp <= lenN tgt -> 1 <= mml st ->
  find_best_match_lp st code hash tgt (skipnN tp tgt) tp max_len npl = Ok (Some (mp, lb, lf)) ->
  (mp < lenN (refp st) /\ tp + lf <= lenN tgt /\ mp + lf <= lenN (refp st) /\
   firstnN lf (skipnN tp tgt) = firstnN lf (skipnN mp (refp st)) /\
   lb <= npl /\ lb <= mp /\ lb <= tp /\
   firstnN lb (skipnN (tp - lb) tgt) = firstnN lb (skipnN (mp - lb) (refp st)) /\
   key_len st <= lf) /\ mml st <= lb + lf.
Proof. exact LZ_match.find_best_match_lp_sound_proof. Qed.
Print Assumptions find_best_match_lp_sound.

(* decimal print / parse round trip for every i64 except i64::MIN, when no digit follows *)
Theorem read_int_append_int : forall z r,
  (- 9223372036854775807 <= z <= 9223372036854775807)%Z ->
  match r with [] => True | c :: _ => is_digit c = false end ->
  read_int (append_int z ++ r) = Ok (z, r).
Proof. exact LZ_int.read_int_append_int_proof. Qed.
Print Assumptions read_int_append_int.

(* with the constants generated from lz_diff.rs the admissible symbols are exactly 0..30:
   includes 0..15 and the unknown-letter code 30 *)
Theorem sym_ok_range : forall c, sym_ok c <-> c <= 30.
Proof. exact LZ_main.sym_ok_range_proof. Qed.
Print Assumptions sym_ok_range.

(* ---- non-vacuity: concrete instances meeting the hypotheses *)
Definition ex_ref : list N := [0;1;2;3;0;1;2;3;3;2;1;0;0;0;1;1;2;2;3;3].
Definition ex_tgt : list N := [4;4;4;4;4;3;30;0;1;2;3;0;1;2;3;3;2;1;0;0;0;1;1;2;2;3;15;0;1;2;3;3].
Example lz_roundtrip_nonvacuous :
  4 <= 5 /\ ex_tgt <> [] /\ forallb sym_okb ex_tgt = true /\ lenN ex_ref + lenN ex_tgt + 5 < 2147483648 /\
  encode 5 ex_ref ex_tgt = Ok [30;49;4;68;95;45;50;44;49;52;46;80;65;66;67;68;68] /\
  decode_full 5 ex_ref [30;49;4;68;95;45;50;44;49;52;46;80;65;66;67;68;68] = Ok ex_tgt.
Proof. vm_compute. repeat split; try discriminate; reflexivity. Qed.
Example lz_empty_nonvacuous :
  encode 5 ex_ref ex_ref = Ok [] /\ decode_full 5 ex_ref [] = Ok ex_ref /\
  encode 5 ex_ref (ex_ref ++ [30]) = Ok [48;44;49;53;46;95].
Proof. vm_compute. repeat split; reflexivity. Qed.
(* a state nobody's prepare would build: constant hash, every slot points at reference position 4 *)
Definition ex_st : lzst := mk_lzst (ex_ref ++ [31; 31]) 22 20 [1;1;1;1] 3 5 2 15.
Example lz_roundtrip_any_index_nonvacuous :
  (refp ex_st = ex_ref ++ repeat pad_byte (N.to_nat (key_len ex_st)) /\ ref_len ex_st = lenN ex_ref /\
   1 <= key_len ex_st /\ key_len ex_st + 3 = mml ex_st /\ (ht ex_st = [] \/ ht_mask ex_st < lenN (ht ex_st)) /\
   refp_len ex_st = lenN (refp ex_st)) /\
  lz_encode (fun _ => 7) ex_st ex_tgt = Ok [30;49;4;68;95;45;50;44;49;52;46;80;65;66;67;68;68] /\
  lz_decode ex_st [30;49;4;68;95;45;50;44;49;52;46;80;65;66;67;68;68] = Ok ex_tgt.
Proof. vm_compute. repeat split; try reflexivity; try discriminate; try (right; reflexivity). Qed.
Example lz_small_mml_nonvacuous : encode 3 ex_ref ex_tgt = Panic.
Proof. vm_compute. reflexivity. Qed.
Example sym_ok_includes : forallb sym_okb [0;1;2;3;4;5;6;7;8;9;10;11;12;13;14;15;30] = true /\ sym_okb 31 = false.
Proof. vm_compute. split; reflexivity. Qed.
Example find_best_match_nonvacuous :
  exists st, lz_new 5 = Ok st /\ exists st', lz_prepare murmur64 st ex_ref = Ok st' /\
    find_best_match_lp st' 1 (murmur64 1) [3;0;1;2;3;0;1;0] [0;1;2;3;0;1;0] 1 7 1 = Ok (Some (0, 0, 6)) /\
    find_best_match_lp st' 1 (murmur64 1) [3;0;1;2;3;3;0] [0;1;2;3;3;0] 1 6 1 = Ok (Some (4, 1, 5)) /\
    find_best_match_lp st' 1 (murmur64 1) [3;0;1;2;3;0;0] [0;1;2;3;0;0] 1 6 1 = Ok None.
Proof. eexists. split; [vm_compute; reflexivity|]. eexists. split; [vm_compute; reflexivity|]. vm_compute. repeat split; reflexivity. Qed.
Example read_int_nonvacuous : read_int (append_int (-2147483647) ++ [44; 49]) = Ok ((-2147483647)%Z, [44; 49]).
Proof. vm_compute. reflexivity. Qed.
