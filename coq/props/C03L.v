From Coq Require Import Permutation.
From Ragc Require Import Mach Consts_collection Consts_agcv3.
From Ragc Require Import CVarint Kmer Segment Pipeline SegReader GroupStore Names Collection Container AgcV3 ModelCreate.
From Ragc Require Import Pipeline_proofs Compose_proofs Grand_proofs Total_proofs.
From Ragc Require Names_len SegCompress_proofs C01 C01G.
(* C03L (registered under C03) - LENGTH bounds on the name streams of the catalogue codec, closing the residual that
   props/C09L.v (parts_meta_u64_from_inputs / parts_meta_u64_in_dom) leaves: "the metadata of the collection-samples /
   collection-contigs parts (= lenN (ser_sample_names _) / lenN (ser_names _), C09L catalogue_meta) below 2^64".
   props/C03.v proves the round trip of the name codec on names over bytes 1..127, not a bound on its output size.

   1. the codec (model/Names.v, CVarint.v), for ANY bytes and ANY previous name - no domain hypothesis:
        varint_len            a CollectionVarInt is at most 5 bytes
        rle_len / field_len   a field costs at most 2 * |field| + 1 bytes (marker + literal per byte, one final marker;
                              the "same" marker is 1 byte, a field of another length is copied)
        split_len             encode_split prev cs costs at most 2 * |join cs| + 1 bytes
        name_len              one name after any previous name: at most 2 * |name| + 2 bytes (NUL included) - and this is
                              met (name_bound_tight: a name of 3 spaces after the same name costs 8 bytes)
        contigs_len / names_len / sample_names_len    the streams: 5 bytes per count, 2 * |name| + 2 per contig name,
                              |name| + 1 per sample name
   2. the catalogue (Collection.store_all, any batch size, any zstd):
        catalogue_streams_meta   every collection-samples / collection-contigs part has metadata <= 5 + 5 * cat_size,
                                 cat_size = name bytes + number of samples + number of contigs of the catalogue
        catalogue_streams_u64    cat_size < 2^60  =>  all of them < 2^64
   3. the writer (ModelCreate.model_build):
        catalogue_names_are_inputs   the catalogue Pipeline.create builds carries exactly the input's sample names and
                                 contig names (distinct non-empty sample names), so cat_size = input_name_size
        parts_meta_u64_total     C09L parts_meta_u64_in_dom with the name-stream hypothesis REPLACED by
                                 input_name_size samples < 2^60 (and distinct non-empty sample names):
                                 parts_meta_u64 (b_wops b) for every model_build ... = Ok b
        grand_roundtrip_total_names   props/C01T.v grand_roundtrip_total with its residual
                                 "parts_meta_u64 (b_wops b) /\ lenN (b_file b) <= spec_max_off" reduced to
                                 input_name_size < 2^60, snd fti < 2^64 and the FILE length bound alone
   WHAT REMAINS of the size residuals: lenN (b_file b) <= 2^63 - 1 (a sum of zstd OUTPUT sizes) and, inside
   catalogue_in_dom, batch_small (sizes of the detail streams and their zstd images) - neither is a name-stream matter.
   Proofs: proofs/Names_len.v. *)

(* ---- definitions the statements use, pinned *)
Example sum_over_def : forall (A : Type) (f : A -> N) x r,
  Names_len.sum_over f [] = 0%N /\ Names_len.sum_over f (x :: r) = (f x + Names_len.sum_over f r)%N.
Proof. intros. split; reflexivity. Qed.
(* name bytes + number of samples + number of contigs, of a catalogue and of an input *)
Example cat_size_def : forall ss : list Collection.sample,
  Names_len.cat_size ss =
  Names_len.sum_over (fun s => (lenN (sname s) + 1 + Names_len.sum_over (fun ct => (lenN (cname ct) + 1)%N) (scontigs s))%N) ss.
Proof. reflexivity. Qed.
Example input_name_size_def : forall smps : list (Pipeline.name * list (Pipeline.name * list N)),
  Names_len.input_name_size smps =
  Names_len.sum_over (fun s => (lenN (fst s) + 1 +
                                Names_len.sum_over (fun c : Pipeline.name * list N => (lenN (fst c) + 1)%N) (snd s))%N) smps.
Proof. reflexivity. Qed.

(* ======================================================================== 1. the codec *)
Theorem varint_len : forall n, (lenN (cv_encode n) <= 5)%N.
Proof. exact Names_len.cv_encode_len. Qed.
Print Assumptions varint_len.

(* any previous field, any field, any pending run count *)
Theorem rle_len : forall c p cnt, (lenN (rle p c cnt) <= 2 * lenN c + 1)%N.
Proof. exact Names_len.rle_len. Qed.
Print Assumptions rle_len.

Theorem field_len : forall p c, (lenN (enc_field p c) <= 2 * lenN c + 1)%N.
Proof. exact Names_len.enc_field_len. Qed.
Print Assumptions field_len.

Theorem split_len : forall cs prev, (lenN (encode_split prev cs) <= 2 * lenN (join_sp cs) + 1)%N.
Proof. exact Names_len.encode_split_len. Qed.
Print Assumptions split_len.

(* one contig name, after any previous name (prev = its split form), NUL included *)
Theorem name_len : forall prev nm, (lenN (ser_contigs prev [nm]) <= 2 * lenN nm + 2)%N.
Proof. exact Names_len.ser_contigs_one_len. Qed.
Print Assumptions name_len.

Theorem contigs_len : forall names prev,
  (lenN (ser_contigs prev names) <= Names_len.sum_over (fun nm => 2 * lenN nm + 2) names)%N.
Proof. exact Names_len.ser_contigs_len. Qed.
Print Assumptions contigs_len.

Theorem names_len : forall batch : list (list Names.name),
  (lenN (ser_names batch) <=
   5 + Names_len.sum_over (fun names => 5 + Names_len.sum_over (fun nm => 2 * lenN nm + 2) names) batch)%N.
Proof. exact Names_len.ser_names_len. Qed.
Print Assumptions names_len.

Theorem sample_names_len : forall names : list Names.name,
  (lenN (ser_sample_names names) <= 5 + Names_len.sum_over (fun nm => lenN nm + 1) names)%N.
Proof. exact Names_len.ser_sample_names_len. Qed.
Print Assumptions sample_names_len.

(* the name bound is met: "   " after "   " = four "same" markers, three separators, NUL = 2 * 3 + 2 bytes; a first name
   travels as a plain C string; a run / literal / run field *)
Example name_bound_tight :
  ser_contigs [] [[32;32;32]; [32;32;32]]%N = [32;32;32;0; 129;32;129;32;129;32;129;0]%N /\
  ser_contigs (split_sp [32;32;32]%N) [[32;32;32]%N] = [129;32;129;32;129;32;129;0]%N /\
  (lenN (ser_contigs (split_sp [32;32;32]%N) [[32;32;32]%N]) = 2 * lenN [32;32;32]%N + 2)%N /\
  enc_field [65;66;67;68]%N [65;66;88;68]%N = [254;88;255]%N /\
  ser_names [[[99;104;114;49]; [99;104;114;50]]; []]%N = [2; 2; 99;104;114;49;0; 253;50;0; 0]%N /\
  ser_sample_names [[83;48]; [83;49]]%N = [2; 83;48;0; 83;49;0]%N.
Proof. vm_compute. repeat split; reflexivity. Qed.

(* ======================================================================== 2. the catalogue *)
(* any catalogue, any batch size, any zstd: the metadata of every collection-samples / collection-contigs part *)
Theorem catalogue_streams_meta : forall zc bs c cw a, store_all zc bs c arch_empty = Ok (cw, a) ->
  Forall (fun p : Collection.part => (snd p <= 5 + 5 * Names_len.cat_size (samples c))%N) (a_samples a ++ a_contigs a).
Proof. exact Names_len.store_all_names. Qed.
Print Assumptions catalogue_streams_meta.

(* 1152921504606846976 = 2^60 *)
Theorem catalogue_streams_u64 : forall zc bs c cw a, store_all zc bs c arch_empty = Ok (cw, a) ->
  (Names_len.cat_size (samples c) < 1152921504606846976)%N ->
  Forall (fun p : Collection.part => (snd p < two64)%N) (a_samples a ++ a_contigs a).
Proof. exact Names_len.store_all_names_u64. Qed.
Print Assumptions catalogue_streams_u64.

Example bound_below_u64 : (5 + 5 * 1152921504606846976 < two64)%N /\ (1152921504606846976 = 2 ^ 60)%N.
Proof. split; reflexivity. Qed.

(* ======================================================================== 3. the writer *)
(* whenever create returns Ok (any addressing, any arrival order) on inputs with distinct non-empty sample names and no
   sample without contigs, its catalogue has the sample names and, per sample, the contig names of the input, in order *)
Theorem catalogue_names_are_inputs :
  forall ecn k segsize spl dec addr sched (samples : list (Pipeline.name * list (Pipeline.name * list N))) coll stored,
  NoDup (map fst samples) /\ Forall (fun s => fst s <> [] /\ snd s <> []) samples ->
  create ecn k spl segsize dec addr sched (pushes_of samples) = Ok (coll, stored) ->
  map sname (mc_cat_of coll) = map fst samples /\
  names_of (mc_cat_of coll) = map (fun s => map fst (snd s)) samples /\
  Names_len.cat_size (mc_cat_of coll) = Names_len.input_name_size samples.
Proof. exact Names_len.catalogue_names_proof. Qed.
Print Assumptions catalogue_names_are_inputs.

(* PARTS_META_U64, total: the hypotheses of C09L parts_meta_u64_in_dom on k, the decisions, the schedule and the contigs,
   the file_type_info metadata below 2^64, distinct non-empty sample names, and name bytes + samples + contigs < 2^60 *)
Theorem parts_meta_u64_total :
  forall zc ecn k mml segsize level spl dec grp sched gops (fti : Container.item)
         (samples : list (Pipeline.name * list (Pipeline.name * list N))),
  (1 <= k <= 32)%N ->
  NoDup (map fst samples) /\ Forall (fun s => fst s <> [] /\ snd s <> []) samples ->
  (forall i s c data j sg, nth_error (pushes_of samples) i = Some (s, c, data) ->
     nth_error (split_at_splitters_with_size data spl k segsize) j = Some sg ->
     decision_okb (N.to_nat k) sg (dec i j) = true) ->
  ops_carry (all_emit k spl segsize dec grp 0 (pushes_of samples)) gops ->
  (forall s c data, In (s, c, data) (pushes_of samples) ->
     Forall (fun x => (x <= 30)%N) data /\ (2 * lenN data + mml < 2147483648)%N) ->
  (Names_len.input_name_size samples < 1152921504606846976)%N ->
  (snd fti < two64)%N ->
  forall b, model_build zc ecn k mml segsize level spl dec grp sched gops fti samples = Ok b ->
  parts_meta_u64 (b_wops b).
Proof. exact Names_len.parts_meta_u64_total_proof. Qed.
Print Assumptions parts_meta_u64_total.

(* props/C01T.v grand_roundtrip_total with "parts_meta_u64 (b_wops b)" discharged: of its last hypothesis only the file
   length bound is left *)
Theorem grand_roundtrip_total_names :
  forall (zc : N -> list N -> list N) (zd : list N -> option (list N)),
  (forall l x, zd (zc l x) = Some x) -> (forall l x, zc l x <> []) ->
  forall ecn k mml segsize level spl dec grp sched gops (fti : Container.item)
         (samples : list (Pipeline.name * list (Pipeline.name * list N))),
  (1 <= k <= 32)%N -> (4 <= mml)%N -> (mml < two32)%N -> (segsize < two32)%N -> (segsize + k <= 2147483648)%N ->
  NoDup (map fst samples) /\ Forall (fun s => fst s <> [] /\ snd s <> []) samples ->
  Forall (fun s => NoDup (map fst (snd s))) samples ->
  (forall s c data, In (s, c, data) (pushes_of samples) ->
     Forall (fun x => (x <= 30)%N) data /\ (2 * lenN data + mml < 2147483648)%N) ->
  (forall i s c data j sg, nth_error (pushes_of samples) i = Some (s, c, data) ->
     nth_error (split_at_splitters_with_size data spl k segsize) j = Some sg ->
     decision_okb (N.to_nat k) sg (dec i j) = true) ->
  lz_contigs_nonempty (pushes_of samples) grp ->
  (forall l, Permutation l (sched l)) ->
  ops_carry (all_emit k spl segsize dec grp 0 (pushes_of samples)) gops ->
  (forall g, (lenN (filter (fun x => (fst x =? g)%N) (all_emit k spl segsize dec grp 0 (pushes_of samples))) + 2 < two32)%N) ->
  (forall st coll stored,
     run (mc_lz_enc mml) (mc_cref zc) (mc_cpack zc level) gops = Ok st ->
     create ecn k spl segsize dec (mc_store_addr k spl segsize dec grp (pushes_of samples) st) sched (pushes_of samples)
       = Ok (coll, stored) ->
     catalogue_in_dom zc segsize k (mc_cat_of coll)) ->
  (Names_len.input_name_size samples < 1152921504606846976)%N ->
  (snd fti < two64)%N ->
  (forall b, model_build zc ecn k mml segsize level spl dec grp sched gops fti samples = Ok b ->
     (lenN (b_file b) <= spec_max_off)%N) ->
  exists b, model_build zc ecn k mml segsize level spl dec grp sched gops fti samples = Ok b /\
            decode zd (b_file b) = Ok samples.
Proof. exact Names_len.grand_roundtrip_total_names_proof. Qed.
Print Assumptions grand_roundtrip_total_names.

(* non-vacuity: the instance of props/C01G.v (two samples S0 / S1, contigs c0 c1 / c0): every hypothesis of
   parts_meta_u64_total holds; input_name_size = 15 (10 name bytes + 2 samples + 3 contigs); the name-stream parts the
   writer really produces carry metadata 7 and 12, below 5 + 5 * 15 *)
Example parts_meta_u64_total_nonvacuous : exists b,
  C01G.ex_build = Ok b /\
  (1 <= 3 <= 32)%N /\
  (NoDup (map fst C01.ex_samples) /\
   Forall (fun s : Pipeline.name * list (Pipeline.name * list N) => fst s <> [] /\ snd s <> []) C01.ex_samples) /\
  decisions_ok 3%N (set_of_list [0%N]) 60%N C01.ex_dec (pushes_of C01.ex_samples) /\
  ops_carry (all_emit 3%N (set_of_list [0%N]) 60%N C01.ex_dec C01.ex_grp 0 (pushes_of C01.ex_samples)) C01.ex_store_ops /\
  inputs_in_dom 4%N (pushes_of C01.ex_samples) /\
  Names_len.input_name_size C01.ex_samples = 15%N /\ (15 < 1152921504606846976)%N /\
  (snd C01G.ex_fti < two64)%N /\
  map snd (a_samples (b_arch b) ++ a_contigs (b_arch b)) = [7; 12]%N /\
  Names_len.cat_size (mc_cat_of (b_coll b)) = 15%N.
Proof.
  assert (H : match C01G.ex_build with
              | Ok b => map snd (a_samples (b_arch b) ++ a_contigs (b_arch b)) = [7; 12]%N /\
                        Names_len.cat_size (mc_cat_of (b_coll b)) = 15%N
              | _ => False
              end) by (vm_compute; split; reflexivity).
  destruct C01G.ex_build as [b| |]; [|contradiction|contradiction]. destruct H as [H1 H2].
  destruct C01G.grand_roundtrip_nonvacuous as (_ & _ & _ & _ & Hin & Hdom & Hdec & _ & _ & _ & Hcarry & _).
  exists b. split; [reflexivity|]. split; [split; discriminate|]. split; [exact Hin|]. split; [exact Hdec|].
  split; [exact Hcarry|]. split; [exact Hdom|]. split; [vm_compute; reflexivity|]. split; [reflexivity|].
  split; [reflexivity|]. split; [exact H1|exact H2].
Qed.
