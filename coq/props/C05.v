(* C05 - the compression pipeline always terminates: for every thread count >= 1, queue capacity, mix of contig
   sizes and thread interleaving, pushing contigs and finalizing completes: no push blocks forever, every worker
   enters and leaves every synchronisation round, all workers exit after the final round, and finalize returns with
   all queued contigs compressed.

   Model: coq/model/Protocol.v (producer script + N workers + bounded priority queue with its two condition variables
   + generation-counting barrier; blocking = no enabled step).  "reachable pa script s" = s is reached from the
   initial state by ANY sequence of steps (any interleaving, any notify_one choice, any heap tie, spurious wake-ups
   and poll-loop iterations included); script = any list of Contig / TokenBlock / Drain / SyncAndFlush, finalize is
   appended by the model (Protocol.todo_of).  Every theorem is for all N = nthr pa >= 1, all capacities, all scripts
   (contigs larger than the capacity included).
   Fairness is NOT proved (it is the OS scheduler's): the theorems say that until the final state some thread
   always has an enabled non-stuttering step, and that no execution contains infinitely many non-stuttering steps;
   stuttering steps are spurious wake-ups and iterations of the drain / sync_and_flush poll loop. *)
From Coq Require Import Permutation.
From Ragc Require Import Mach Protocol Protocol_proofs Consts_queue.
Open Scope nat_scope.

(* round accounting (DESIGN A.6): tokens queued + tokens the producer has still to push (whole blocks are multiples
   of N, so this is the open block's rest mod N) + workers between token-pull and the release of barrier 4 is a
   multiple of N - exactly: completed rounds * N + these = blocks * N; all workers inside the section are at the
   same barrier stage and in the same round; the barrier counter counts the waiters of the current generation *)
Theorem inv_reachable : forall pa script,
  old_rule pa = false -> 1 <= nthr pa -> forall s, reachable pa script s ->
  (ntok_items s + ntok_todo s + nsec s) mod nthr pa = 0 /\
  ground s * nthr pa + nsec s + ntok_items s + ntok_todo s = nblocks script * nthr pa /\
  (forall w1 w2, In w1 (ws s) -> In w2 (ws s) -> insec (bgen s) w1 = true -> insec (bgen s) w2 = true ->
     stage (bgen s) (pc w1) = stage (bgen s) (pc w2) /\ wrounds w1 = wrounds w2) /\
  bcount s = cnt (fun w => match pc w with WBarW _ g => g =? bgen s | _ => false end) (ws s) /\
  bcount s < nthr pa.
Proof. exact Protocol_live.inv_reachable_proof. Qed.
Print Assumptions inv_reachable.

(* notify_one is enough: while the queue is open and some worker is blocked in not_empty.wait, every queued item is
   matched by a notified worker that has not re-checked yet; a producer blocked in not_full.wait implies a non-empty queue *)
Theorem no_lost_wakeup : forall pa script,
  old_rule pa = false -> 1 <= nthr pa -> forall s, reachable pa script s ->
  (closed s = false -> 0 < cnt is_waitE (ws s) ->
   length (items s) <= cnt (fun w => match pc w with WWokenE => true | _ => false end) (ws s)) /\
  (pst s = PWaitF -> items s <> []).
Proof. exact Protocol_live.no_lost_wakeup_proof. Qed.
Print Assumptions no_lost_wakeup.

(* no reachable state other than the final one is stuck *)
Theorem deadlock_free : forall pa script,
  old_rule pa = false -> 1 <= nthr pa ->
  forall s, reachable pa script s -> ~ final s -> exists t, enabled pa s t.
Proof. exact Protocol_proofs.deadlock_free_thm. Qed.
Print Assumptions deadlock_free.

(* the defect fixed by `&& inner.current_size > 0` (C05-F1): under the old loop condition one contig of size
   capacity+1 leads, for every capacity, to a reachable non-final state in which no thread has an enabled step *)
Theorem oversize_blocks_old_rule_refuted : forall c p o,
  exists s, reachable (mkParams 2 c true) [Contig (c + 1)%N p o] s /\ ~ final s /\
            forall t, ~ enabled (mkParams 2 c true) s t.
Proof. intros c p o. exists (stuck_state c p o). exact (Protocol_proofs.oversize_refuted_proof c p o). Qed.
Print Assumptions oversize_blocks_old_rule_refuted.

(* every non-stuttering step decreases the measure (sum over script remainder, producer state, queued items,
   per-worker remaining steps; then the number of claimable buffers) in the lexicographic order mlt *)
Theorem measure_decreases : forall pa script,
  old_rule pa = false -> 1 <= nthr pa ->
  forall s l s', reachable pa script s -> step pa s l = Some s' -> stutter s l = false ->
  mlt (measure s') (measure s).
Proof. exact Protocol_proofs.measure_decreases_thm. Qed.
Print Assumptions measure_decreases.

(* ... and mlt is well founded: there is no infinite sequence of non-stuttering steps from a reachable state *)
Theorem terminates : forall pa script,
  old_rule pa = false -> 1 <= nthr pa ->
  well_founded mlt /\
  well_founded (fun s' s => reachable pa script s /\ exists l, progress pa s l s').
Proof. exact Protocol_proofs.terminates_thm. Qed.
Print Assumptions terminates.

(* every maximal sequence of non-stuttering steps from a reachable state is finite and ends in a final state,
   and every non-final state on the way has a thread with an enabled non-stuttering step (Protocol.ends_final) *)
Theorem run_reaches_final : forall pa script,
  old_rule pa = false -> 1 <= nthr pa ->
  forall s, reachable pa script s -> ends_final pa s.
Proof. exact Protocol_live.run_reaches_final_proof. Qed.
Print Assumptions run_reaches_final.

(* in a final state the queue is empty and closed, the script is used up, every worker has exited after passing
   every round (as many as there are token blocks, finalize's included), and the segmented contigs are exactly
   the admitted ones, as many as the script pushes *)
Theorem final_complete : forall pa script,
  old_rule pa = false -> 1 <= nthr pa ->
  forall s, reachable pa script s -> final s ->
  items s = [] /\ closed s = true /\ todo s = [] /\
  Forall (fun w => pc w = WExited /\ wrounds w = nblocks script) (ws s) /\
  ground s = nblocks script /\
  Permutation (pushed s) (segd s) /\
  length (segd s) = length (contig_sizes script).
Proof. exact Protocol_proofs.final_complete_thm. Qed.
Print Assumptions final_complete.

(* the executable enabledness test used by the trace driver's stuck detection decides `enabled` *)
Theorem enabledb_sound : forall pa script,
  old_rule pa = false -> 1 <= nthr pa ->
  forall s t, reachable pa script s -> (enabledb pa s t = true <-> enabled pa s t).
Proof. exact Protocol_live.enabledb_sound_proof. Qed.
Print Assumptions enabledb_sound.

Theorem stuckb_sound : forall pa script,
  old_rule pa = false -> 1 <= nthr pa ->
  forall s, reachable pa script s -> stuckb pa s = true -> ~ final s /\ forall t, ~ enabled pa s t.
Proof. exact Protocol_live.stuckb_sound_proof. Qed.
Print Assumptions stuckb_sound.

(* ------------------------------------------------------------------------------------------ non-vacuity *)
(* 3 workers, capacity 100, single-file mode with a token block every 2 contigs, contigs of 150 (> capacity), 20, 30,
   7 bytes in 2 samples, drain after the first sample, one sync_and_flush: 4 token blocks with finalize's *)
Definition pa0 : params := mkParams 3 100 false.
Definition script0 : list cmd :=
  compile_calls true 2 [CPush 0 150; CPush 0 20; CDrain; CPush 1 30; CSync; CPush 1 7].

Example hypotheses_nonvacuous : old_rule pa0 = false /\ 1 <= nthr pa0 /\ nblocks script0 = 4 /\
  reachable pa0 script0 (init pa0 script0) /\ ~ final (init pa0 script0).
Proof.
  split; [reflexivity|]. split; [repeat constructor|]. split; [vm_compute; reflexivity|].
  split; [apply reach_init|]. intros (H & _). discriminate.
Qed.

(* a complete run exists: the deterministic scheduler of Protocol_proofs reaches a final state (so final_complete,
   run_reaches_final are about something), passing through states where a push and pulls had to wait *)
Example final_state_reachable_nonvacuous :
  let s := auto_run pa0 400 (init pa0 script0) in
  reachable pa0 script0 s /\ final s /\ ground s = 4 /\ length (segd s) = 4.
Proof.
  cbv zeta. split; [apply auto_run_reachable, reach_init|].
  split; [apply finalb_final; vm_compute; reflexivity|]. split; vm_compute; reflexivity.
Qed.

Example measure_step_nonvacuous : exists s',
  step pa0 (init pa0 script0) (LProd None) = Some s' /\ stutter (init pa0 script0) (LProd None) = false /\
  mlt (measure s') (measure (init pa0 script0)).
Proof. eexists. split; [vm_compute; reflexivity|]. split; [vm_compute; reflexivity|]. left. apply PeanoNat.Nat.ltb_lt. vm_compute. reflexivity. Qed.

(* the same oversize script that is stuck under the old rule: under the current rule the scheduler completes it *)
Example oversize_ok_new_rule :
  finalb (auto_run (mkParams 2 1024 false) 200 (init (mkParams 2 1024 false) [Contig 2048 5%Z 0])) = true /\
  stuckb (mkParams 2 1024 true)
         (auto_run (mkParams 2 1024 true) 200 (init (mkParams 2 1024 true) [Contig 2048 5%Z 0])) = true.
Proof. split; vm_compute; reflexivity. Qed.

(* Protocol.step's close wakes EVERY worker parked in pull (and every producer parked in push): that is the step the
   "all workers exit after the final round" argument rests on.  The generated constant (translator/items_queue.py, re-read
   from memory_bounded_queue.rs on every run) says close() still takes the queue lock, sets closed under it and then calls
   notify_all on both condition variables - a notify_one there leaves all but one parked worker asleep and finalize()
   blocked in join, on the rare schedules where several workers are already parked when close runs. *)
Theorem queue_close_wakes_all_in_source : q_close_under_lock = 1%N /\ q_state_under_one_mutex = 1%N.
Proof. split; reflexivity. Qed.
Print Assumptions queue_close_wakes_all_in_source.
