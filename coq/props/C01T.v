(* C01T (registered under C01) - the model writer cannot fail.  props/C01G.v grand_roundtrip and props/C01.v
   end_to_end_inputs ASSUME that the writer succeeds (model_build = Ok b, i.e. the group store run and Pipeline.create
   return Ok) and that "grp i part < 2^32" holds of the grouping oracle.  Here both are PROVED from hypotheses on the
   inputs and the oracles, and the grand round trip is restated with no "= Ok" hypothesis about the writer:
     create_total / create_outcome     Pipeline.create = Ok under inputs_ok + distinct contig names per sample +
                                       decisions_ok, for ANY addressing and arrival order; Err exactly when a sample
                                       repeats a contig name; never Panic
     store_run_total (+ _pieces, _inputs)  the group store run = Ok when no group receives 2^32 - 2 pieces (C02
                                       run_no_trap through ops_carry); sufficient: fewer than 2^32 - 2 pieces in all;
                                       sufficient, on the INPUT alone: 2 * (bases + contigs) + 2 < 2^32 (pieces_count)
     catalogue_is_stored               the catalogue create builds holds exactly the registered descriptors (the lemma
                                       C01G's author named as missing: "every stored descriptor occurs in coll")
     grp_bound_from_catalogue          hence every emitted piece's group id is a group id of the catalogue, < 2^32 as soon
                                       as the catalogue is in C03's domain: no hypothesis on the oracle needed
     model_build_succeeds, grand_roundtrip_total, text_roundtrip_total
   Proofs: proofs/Total_proofs.v.

   WHAT REMAINS ASSUMED besides inputs / oracles / zstd, and why.
   grand_roundtrip_total keeps three residual conditions, each stated on WHATEVER the writer returns (an implication
   from "run / create / model_build = Ok x", never an assumption that they return):
   - catalogue_in_dom of the catalogue create builds (C03's domain).  It cannot be moved behind "model_build = Ok b":
     outside it Collection.store_all itself can Panic (u32 arithmetic of ser_details).  catalogue_in_dom_from_inputs
     REDUCES it to: fewer than 2^32 samples / contigs per sample / 2 * (bases + 1) per contig, name bytes in 1..127
     (input level); group ids of emitted pieces < 2^32 - 1 (oracle); fewer than 2^31 - 1 pieces per group (in_group_id
     <= number of segments of the group: in_group_id_bound); and ONE residual, batch_small: the five serialized detail
     streams of every 50-sample batch and their zstd images are shorter than 2^32 bytes - this depends on zc's output
     sizes and on the varint / predictor coding of the descriptors, so it stays (grand_roundtrip_inputs has only this
     and the next item left).
   - parts_meta_u64 (every part's metadata < 2^64) and lenN file <= spec_max_off: the metadata are raw lengths of packs
     (sums of LZ.encode output lengths - C09 proves the round trip, not a length bound), of the serialized name
     streams (name lengths) and the caller's file_type_info value; the file length is a sum of zstd output sizes.
     Lists are unbounded in the model, so these cannot be derived from the zstd round-trip hypothesis. *)
From Coq Require Import Permutation.
From Ragc Require Import Mach Consts_agcv3 Kmer Segment Pipeline SegReader GroupStore Collection Container AgcV3 ModelCreate.
From Ragc Require Import Pipeline_proofs Compose_codecs Compose_proofs AgcV3_compose Grand_proofs Total_proofs.
From Ragc Require Collection_proofs SegCompress_proofs Fasta.
From Ragc Require C01 C01G.
Open Scope N_scope.

(* ---- definitions the statements use, pinned (each is the definition itself) *)
Example inputs_ok_def : forall samples : list (name * list (name * list N)),
  inputs_ok samples = (NoDup (map fst samples) /\ Forall (fun s => fst s <> [] /\ snd s <> []) samples) /\
  contig_names_ok samples = Forall (fun s => NoDup (map fst (snd s))) samples.
Proof. intro. split; reflexivity. Qed.
Example decisions_ok_def : forall k spl segsize dec (pushes : list push),
  decisions_ok k spl segsize dec pushes =
  (forall i s c data j sg, nth_error pushes i = Some (s, c, data) ->
     nth_error (split_at_splitters_with_size data spl k segsize) j = Some sg ->
     decision_okb (N.to_nat k) sg (dec i j) = true).
Proof. reflexivity. Qed.
(* bases + contigs *)
Example input_size_def : forall p (rest : list push),
  input_size [] = 0%N /\ input_size (p :: rest) = (lenN (snd p) + 1 + input_size rest)%N.
Proof. intros. split; reflexivity. Qed.
(* descriptor d occurs in the catalogue *)
Example desc_in_def : forall (coll : Pipeline.collection) d,
  desc_in coll d = exists sd cd, In sd coll /\ In cd (snd sd) /\ In d (snd cd).
Proof. reflexivity. Qed.

Example name_bytes_ok_def : forall n : list N, name_bytes_ok n = Forall (fun b => (1 <= b < 128)%N) n.
Proof. reflexivity. Qed.
Example batch_small_def : forall zc ss k B,
  Collection_proofs.batch_small zc ss k B =
  match Details.ser_details ss k (Collection.segs_of B) with
  | Ok vd => Forall (fun s => (lenN s < 4294967296)%N /\ (lenN (zc 19%N s) < 4294967296)%N) (Collection.streams_list vd)
  | _ => True
  end.
Proof. reflexivity. Qed.

(* ======================================================================== 1. create *)
(* for every sample set with distinct non-empty sample names, no sample without contigs and no contig name twice in a
   sample, every k >= 1, splitter set, decisions meeting decisions_ok, ANY addressing of the pieces and ANY arrival
   order of the registrations, create returns Ok *)
Theorem create_total :
  forall ecn k spl segsize dec addr sched (samples : list (name * list (name * list N))),
  (1 <= k)%N ->
  NoDup (map fst samples) /\ Forall (fun s => fst s <> [] /\ snd s <> []) samples ->
  Forall (fun s => NoDup (map fst (snd s))) samples ->
  (forall i s c data j sg, nth_error (pushes_of samples) i = Some (s, c, data) ->
     nth_error (split_at_splitters_with_size data spl k segsize) j = Some sg ->
     decision_okb (N.to_nat k) sg (dec i j) = true) ->
  exists coll stored, create ecn k spl segsize dec addr sched (pushes_of samples) = Ok (coll, stored).
Proof. exact Total_proofs.create_total_proof. Qed.
Print Assumptions create_total.

(* the outcome of create is decided by the contig names alone: Ok iff no sample repeats a contig name, Err iff one
   does, never Panic *)
Theorem create_outcome :
  forall ecn k spl segsize dec addr sched (samples : list (name * list (name * list N))),
  (1 <= k)%N ->
  NoDup (map fst samples) /\ Forall (fun s => fst s <> [] /\ snd s <> []) samples ->
  (forall i s c data j sg, nth_error (pushes_of samples) i = Some (s, c, data) ->
     nth_error (split_at_splitters_with_size data spl k segsize) j = Some sg ->
     decision_okb (N.to_nat k) sg (dec i j) = true) ->
  (Forall (fun s => NoDup (map fst (snd s))) samples <->
     exists coll stored, create ecn k spl segsize dec addr sched (pushes_of samples) = Ok (coll, stored)) /\
  (~ Forall (fun s => NoDup (map fst (snd s))) samples <->
     create ecn k spl segsize dec addr sched (pushes_of samples) = Err) /\
  create ecn k spl segsize dec addr sched (pushes_of samples) <> Panic.
Proof. exact Total_proofs.create_outcome_proof. Qed.
Print Assumptions create_outcome.

Example create_total_nonvacuous :
  (NoDup (map fst C01.ex_samples) /\ Forall (fun s : name * list (name * list N) => fst s <> [] /\ snd s <> []) C01.ex_samples) /\
  Forall (fun s : name * list (name * list N) => NoDup (map fst (snd s))) C01.ex_samples /\
  decisions_ok 3 (set_of_list [0]) 60 C01.ex_dec (pushes_of C01.ex_samples).
Proof.
  split; [exact (proj2 (proj2 C01.inputs_nonvacuous))|]. split.
  - repeat constructor; cbn; intuition discriminate.
  - apply decisions_okb_ok. vm_compute. reflexivity.
Qed.

(* ======================================================================== 2. the group store run *)
(* the run of the group store (any codecs) returns Ok whenever its schedule carries emitted pieces of which no group
   receives 2^32 - 2 *)
Theorem store_run_total :
  forall lz_enc compress_ref compress_pack (emitted : list (N * seg_in)) gops,
  ops_carry emitted gops ->
  (forall g, (lenN (filter (fun x => fst x =? g) emitted) + 2 < two32)%N) ->
  exists st, run lz_enc compress_ref compress_pack gops = Ok st.
Proof. exact Total_proofs.store_run_total_proof. Qed.
Print Assumptions store_run_total.

(* sufficient: fewer than 2^32 - 2 pieces in total *)
Theorem store_run_total_pieces :
  forall (emitted : list (N * seg_in)),
  (lenN emitted + 2 < two32)%N -> forall g, (lenN (filter (fun x => fst x =? g) emitted) + 2 < two32)%N.
Proof. exact Total_proofs.per_group_from_total. Qed.
Print Assumptions store_run_total_pieces.

(* the number of pieces is bounded by the input: at most one raw segment per symbol plus the final one, at most two
   pieces per raw segment - whatever the splitters, decisions and groups *)
Theorem pieces_count :
  forall k spl segsize dec grp (pushes : list push) i,
  (lenN (all_emit k spl segsize dec grp i pushes) <= 2 * input_size pushes)%N.
Proof. exact Total_proofs.all_emit_count. Qed.
Print Assumptions pieces_count.

(* sufficient, on the input alone: 2 * (bases + contigs) + 2 < 2^32 *)
Theorem store_run_total_inputs :
  forall lz_enc compress_ref compress_pack k spl segsize dec grp (pushes : list push) gops,
  ops_carry (all_emit k spl segsize dec grp 0 pushes) gops ->
  (2 * input_size pushes + 2 < two32)%N ->
  exists st, run lz_enc compress_ref compress_pack gops = Ok st.
Proof. exact Total_proofs.store_run_total_inputs_proof. Qed.
Print Assumptions store_run_total_inputs.

Example store_run_total_nonvacuous :
  ops_carry (all_emit 3 (set_of_list [0]) 60 C01.ex_dec C01.ex_grp 0 (pushes_of C01.ex_samples)) C01.ex_store_ops /\
  (2 * input_size (pushes_of C01.ex_samples) + 2 < two32)%N /\
  input_size (pushes_of C01.ex_samples) = 33%N /\
  lenN (all_emit 3 (set_of_list [0]) 60 C01.ex_dec C01.ex_grp 0 (pushes_of C01.ex_samples)) = 8%N.
Proof. split; [exact C01.ops_carry_nonvacuous|]. vm_compute. repeat split; reflexivity. Qed.

(* ======================================================================== 3. the catalogue *)
(* whenever create returns Ok (any addressing, any arrival order that is a permutation), the catalogue holds exactly the
   descriptors it registered: every stored descriptor occurs in coll, and coll holds no other (no SegmentDesc::empty()
   hole is left) *)
Theorem catalogue_is_stored :
  forall ecn k spl segsize dec addr sched (samples : list (name * list (name * list N))) coll stored,
  (1 <= k)%N ->
  NoDup (map fst samples) /\ Forall (fun s => fst s <> [] /\ snd s <> []) samples ->
  (forall i s c data j sg, nth_error (pushes_of samples) i = Some (s, c, data) ->
     nth_error (split_at_splitters_with_size data spl k segsize) j = Some sg ->
     decision_okb (N.to_nat k) sg (dec i j) = true) ->
  (forall l, Permutation l (sched l)) ->
  create ecn k spl segsize dec addr sched (pushes_of samples) = Ok (coll, stored) ->
  forall d, (exists b, In (d, b) stored) <-> (exists sd cd, In sd coll /\ In cd (snd sd) /\ In d (snd cd)).
Proof.
  intros ecn k spl segsize dec addr sched samples coll stored Hk Hin Hdec Hsched Hc d. split.
  - intros (b & Hb). exact (Total_proofs.stored_in_coll ecn k spl segsize dec addr sched samples Hk Hin Hdec Hsched coll stored Hc d b Hb).
  - exact (Total_proofs.coll_from_stored ecn k spl segsize dec addr sched samples Hk Hin Hdec Hsched coll stored Hc d).
Qed.
Print Assumptions catalogue_is_stored.

(* the descriptor fields of a catalogue in the domain of the catalogue codec (C03) *)
Theorem catalogue_descriptors_in_range :
  forall zc ss k (coll : Pipeline.collection), catalogue_in_dom zc ss k (mc_cat_of coll) ->
  forall sd cd d, In sd coll -> In cd (snd sd) -> In d (snd cd) ->
  ((Pipeline.d_group d < 4294967295)%N /\ (Pipeline.d_id d < 2147483647)%N /\ (Pipeline.d_len d < 4294967296)%N) \/
  d = mkDesc 4294967295%N 4294967295%N false 0%N.
Proof.
  intros zc ss k coll Hcat sd cd d Hsd Hcd Hd.
  destruct (Total_proofs.catalogue_descs_wf zc ss k coll Hcat d (ex_intro _ sd (ex_intro _ cd (conj Hsd (conj Hcd Hd))))) as [H|H];
    [left; exact H|right].
  destruct d as [g i r l]. unfold mc_cat_seg in H. cbn in H. inversion H. reflexivity.
Qed.
Print Assumptions catalogue_descriptors_in_range.

(* (3) the group id of every piece the pipeline emits is below 2^32 as soon as the catalogue the writer builds from the
   store's addresses is in the domain of the catalogue codec: "forall i part, grp i part < 2^32" is not needed *)
Theorem grp_bound_from_catalogue :
  forall zc ecn k spl segsize dec grp sched (samples : list (name * list (name * list N))) st coll stored,
  (1 <= k)%N ->
  NoDup (map fst samples) /\ Forall (fun s => fst s <> [] /\ snd s <> []) samples ->
  (forall i s c data j sg, nth_error (pushes_of samples) i = Some (s, c, data) ->
     nth_error (split_at_splitters_with_size data spl k segsize) j = Some sg ->
     decision_okb (N.to_nat k) sg (dec i j) = true) ->
  (forall l, Permutation l (sched l)) ->
  create ecn k spl segsize dec (store_addr k spl segsize dec grp (pushes_of samples) st) sched (pushes_of samples)
    = Ok (coll, stored) ->
  catalogue_in_dom zc segsize k (mc_cat_of coll) ->
  forall x, In x (all_emit k spl segsize dec grp 0 (pushes_of samples)) -> (fst x < two32)%N.
Proof. exact Total_proofs.grp_bound_from_catalogue_proof. Qed.
Print Assumptions grp_bound_from_catalogue.

(* ======================================================================== 4. the grand round trip, total *)
(* the writer cannot fail: under hypotheses on inputs, oracles and zstd, plus C03's domain condition on whatever
   catalogue run / create produce, model_build returns Ok *)
Theorem model_build_succeeds :
  forall (zc : N -> list N -> list N) (zd : list N -> option (list N)),
  (forall l x, zd (zc l x) = Some x) -> (forall l x, zc l x <> []) ->
  forall ecn k mml segsize level spl dec grp sched gops fti
         (samples : list (name * list (name * list N))),
  (1 <= k <= 32)%N -> (segsize + k <= 2147483648)%N ->
  NoDup (map fst samples) /\ Forall (fun s => fst s <> [] /\ snd s <> []) samples ->
  Forall (fun s => NoDup (map fst (snd s))) samples ->
  (forall i s c data j sg, nth_error (pushes_of samples) i = Some (s, c, data) ->
     nth_error (split_at_splitters_with_size data spl k segsize) j = Some sg ->
     decision_okb (N.to_nat k) sg (dec i j) = true) ->
  ops_carry (all_emit k spl segsize dec grp 0 (pushes_of samples)) gops ->
  (forall g, (lenN (filter (fun x => fst x =? g) (all_emit k spl segsize dec grp 0 (pushes_of samples))) + 2 < two32)%N) ->
  (forall st coll stored,
     run (mc_lz_enc mml) (mc_cref zc) (mc_cpack zc level) gops = Ok st ->
     create ecn k spl segsize dec (mc_store_addr k spl segsize dec grp (pushes_of samples) st) sched (pushes_of samples)
       = Ok (coll, stored) ->
     catalogue_in_dom zc segsize k (mc_cat_of coll)) ->
  exists b, model_build zc ecn k mml segsize level spl dec grp sched gops fti samples = Ok b /\
            catalogue_in_dom zc segsize k (mc_cat_of (b_coll b)) /\
            create ecn k spl segsize dec (mc_store_addr k spl segsize dec grp (pushes_of samples) (b_store b)) sched
                   (pushes_of samples) = Ok (b_coll b, b_stored b).
Proof.
  intros zc zd Hzd Hzc ecn k mml segsize level spl dec grp sched gops fti samples Hk Hssk Hin Hnames Hdec Hcarry Hcount Hcat.
  exact (Total_proofs.model_build_succeeds zc zd Hzd Hzc ecn k mml segsize level spl dec grp sched gops fti samples
           Hk Hssk Hin Hnames Hdec Hcarry Hcount Hcat).
Qed.
Print Assumptions model_build_succeeds.

(* GRAND ROUND TRIP, TOTAL.  For every sample set (sample names distinct and non-empty, no sample without contigs, no
   contig name twice in a sample) over symbol codes 0..30 with 2 * |contig| + mml < 2^31, 1 <= k <= 32,
   4 <= mml < 2^32, segment size below 2^32 with segsize + k <= 2^31, every compression level, splitter set, decision
   oracle meeting decisions_ok, ANY assignment [grp] of pieces to groups (pieces of empty contigs not in LZ groups; no
   range hypothesis) under which no group receives 2^32 - 2 pieces, schedule [gops] carrying the emitted pieces,
   arrival order [sched], file_type_info part, under the zstd hypotheses and the residual size conditions (see the
   header): the model writer RETURNS a file, and the decoder written from the AGC v3 format rules reads back exactly
   the input from its bytes. *)
Theorem grand_roundtrip_total :
  forall (zc : N -> list N -> list N) (zd : list N -> option (list N)),
  (forall l x, zd (zc l x) = Some x) -> (forall l x, zc l x <> []) ->
  forall ecn k mml segsize level spl dec grp sched gops fti
         (samples : list (name * list (name * list N))),
  (1 <= k <= 32)%N -> (4 <= mml)%N -> (mml < two32)%N -> (segsize < two32)%N -> (segsize + k <= 2147483648)%N ->
  NoDup (map fst samples) /\ Forall (fun s => fst s <> [] /\ snd s <> []) samples ->
  Forall (fun s => NoDup (map fst (snd s))) samples ->
  inputs_in_dom mml (pushes_of samples) ->
  (forall i s c data j sg, nth_error (pushes_of samples) i = Some (s, c, data) ->
     nth_error (split_at_splitters_with_size data spl k segsize) j = Some sg ->
     decision_okb (N.to_nat k) sg (dec i j) = true) ->
  lz_contigs_nonempty (pushes_of samples) grp ->
  (forall l, Permutation l (sched l)) ->
  ops_carry (all_emit k spl segsize dec grp 0 (pushes_of samples)) gops ->
  (forall g, (lenN (filter (fun x => fst x =? g) (all_emit k spl segsize dec grp 0 (pushes_of samples))) + 2 < two32)%N) ->
  (forall st coll stored,
     run (mc_lz_enc mml) (mc_cref zc) (mc_cpack zc level) gops = Ok st ->
     create ecn k spl segsize dec (mc_store_addr k spl segsize dec grp (pushes_of samples) st) sched (pushes_of samples)
       = Ok (coll, stored) ->
     catalogue_in_dom zc segsize k (mc_cat_of coll)) ->
  (forall b, model_build zc ecn k mml segsize level spl dec grp sched gops fti samples = Ok b ->
     parts_meta_u64 (b_wops b) /\ (lenN (b_file b) <= spec_max_off)%N) ->
  exists b, model_build zc ecn k mml segsize level spl dec grp sched gops fti samples = Ok b /\
            decode zd (b_file b) = Ok samples.
Proof. exact Total_proofs.grand_roundtrip_total_proof. Qed.
Print Assumptions grand_roundtrip_total.

(* what the FASTA reader and the catalogue grouping accept never repeats a contig name within a sample *)
Theorem text_samples_names_distinct : forall files arch, text_samples files = Ok arch ->
  Forall (fun s => NoDup (map fst (snd s))) arch.
Proof. exact Total_proofs.text_samples_names_ok. Qed.
Print Assumptions text_samples_names_distinct.

(* TEXT ROUND TRIP, TOTAL: the same from FASTA texts the reader accepts (text_samples files = Ok arch is a statement about
   the INPUT parser, C16); shape, alphabet and contig-name hypotheses are proved from the parser *)
Theorem text_roundtrip_total :
  forall (zc : N -> list N -> list N) (zd : list N -> option (list N)),
  (forall l x, zd (zc l x) = Some x) -> (forall l x, zc l x <> []) ->
  forall ecn k mml segsize level spl dec grp sched gops fti files arch,
  (1 <= k <= 32)%N -> (4 <= mml)%N -> (mml < two32)%N -> (segsize < two32)%N -> (segsize + k <= 2147483648)%N ->
  text_samples files = Ok arch ->
  Forall (fun s => fst s <> []) arch ->
  (forall s c data, In (s, c, data) (pushes_of arch) -> (2 * lenN data + mml < 2147483648)%N) ->
  (forall i s c data j sg, nth_error (pushes_of arch) i = Some (s, c, data) ->
     nth_error (split_at_splitters_with_size data spl k segsize) j = Some sg ->
     decision_okb (N.to_nat k) sg (dec i j) = true) ->
  (forall l, Permutation l (sched l)) ->
  ops_carry (all_emit k spl segsize dec grp 0 (pushes_of arch)) gops ->
  (forall g, (lenN (filter (fun x => fst x =? g) (all_emit k spl segsize dec grp 0 (pushes_of arch))) + 2 < two32)%N) ->
  (forall st coll stored,
     run (mc_lz_enc mml) (mc_cref zc) (mc_cpack zc level) gops = Ok st ->
     create ecn k spl segsize dec (mc_store_addr k spl segsize dec grp (pushes_of arch) st) sched (pushes_of arch)
       = Ok (coll, stored) ->
     catalogue_in_dom zc segsize k (mc_cat_of coll)) ->
  (forall b, model_build zc ecn k mml segsize level spl dec grp sched gops fti arch = Ok b ->
     parts_meta_u64 (b_wops b) /\ (lenN (b_file b) <= spec_max_off)%N) ->
  (exists b, model_build zc ecn k mml segsize level spl dec grp sched gops fti arch = Ok b /\
             decode zd (b_file b) = Ok arch) /\
  Fasta.create_view files =
    Ok (map (fun sc => (fst sc, map (fun nc => (fst nc, Fasta.out_letters (snd nc))) (snd sc))) arch).
Proof. exact Total_proofs.text_roundtrip_total_proof. Qed.
Print Assumptions text_roundtrip_total.

(* ======================================================================== 5. the catalogue domain, reduced *)
(* the in_group_id the store registers for a segment never exceeds the number of segments pushed to its group *)
Theorem in_group_id_bound :
  forall lz_enc compress_ref compress_pack ops st g s id,
  run lz_enc compress_ref compress_pack ops = Ok st -> In (s, id) (regs_of st g) ->
  (id <= lenN (GroupStore.segs_of ops g))%N.
Proof. exact Total_proofs.reg_id_bound. Qed.
Print Assumptions in_group_id_bound.

(* C03's domain condition on the catalogue the writer builds follows from input-level counts and name bytes, the
   oracle's range, the per-group piece count and the stream-size condition batch_small alone *)
Theorem catalogue_in_dom_from_inputs :
  forall zc ecn k spl segsize dec grp sched (samples : list (name * list (name * list N)))
         lz_enc compress_ref compress_pack gops st coll stored,
  (1 <= k)%N ->
  NoDup (map fst samples) /\ Forall (fun s => fst s <> [] /\ snd s <> []) samples ->
  (forall i s c data j sg, nth_error (pushes_of samples) i = Some (s, c, data) ->
     nth_error (split_at_splitters_with_size data spl k segsize) j = Some sg ->
     decision_okb (N.to_nat k) sg (dec i j) = true) ->
  (forall l, Permutation l (sched l)) ->
  ops_carry (all_emit k spl segsize dec grp 0 (pushes_of samples)) gops ->
  run lz_enc compress_ref compress_pack gops = Ok st ->
  create ecn k spl segsize dec (store_addr k spl segsize dec grp (pushes_of samples) st) sched (pushes_of samples)
    = Ok (coll, stored) ->
  (lenN samples < 4294967296)%N ->
  Forall (fun s => name_bytes_ok (fst s) /\ (lenN (snd s) < 4294967296)%N /\
            Forall (fun c => name_bytes_ok (fst c) /\ (2 * (lenN (snd c) + 1) < 4294967296)%N) (snd s)) samples ->
  (forall x, In x (all_emit k spl segsize dec grp 0 (pushes_of samples)) -> (fst x < 4294967295)%N) ->
  (forall g, (lenN (filter (fun x => fst x =? g) (all_emit k spl segsize dec grp 0 (pushes_of samples))) < 2147483647)%N) ->
  Forall (Collection_proofs.batch_small zc segsize k)
    (Collection_proofs.chunks (length (mc_cat_of coll)) (N.to_nat W_CATALOGUE_BATCH) (mc_cat_of coll)) ->
  catalogue_in_dom zc segsize k (mc_cat_of coll).
Proof. exact Total_proofs.catalogue_in_dom_from_inputs_proof. Qed.
Print Assumptions catalogue_in_dom_from_inputs.

(* GRAND ROUND TRIP from inputs, oracles, zstd, and the size conditions that depend on zstd's / LZ's output sizes only *)
Theorem grand_roundtrip_inputs :
  forall (zc : N -> list N -> list N) (zd : list N -> option (list N)),
  (forall l x, zd (zc l x) = Some x) -> (forall l x, zc l x <> []) ->
  forall ecn k mml segsize level spl dec grp sched gops fti
         (samples : list (name * list (name * list N))),
  (1 <= k <= 32)%N -> (4 <= mml)%N -> (mml < two32)%N -> (segsize < two32)%N -> (segsize + k <= 2147483648)%N ->
  NoDup (map fst samples) /\ Forall (fun s => fst s <> [] /\ snd s <> []) samples ->
  Forall (fun s => NoDup (map fst (snd s))) samples ->
  inputs_in_dom mml (pushes_of samples) ->
  (lenN samples < 4294967296)%N ->
  Forall (fun s => name_bytes_ok (fst s) /\ (lenN (snd s) < 4294967296)%N /\
            Forall (fun c => name_bytes_ok (fst c) /\ (2 * (lenN (snd c) + 1) < 4294967296)%N) (snd s)) samples ->
  (forall i s c data j sg, nth_error (pushes_of samples) i = Some (s, c, data) ->
     nth_error (split_at_splitters_with_size data spl k segsize) j = Some sg ->
     decision_okb (N.to_nat k) sg (dec i j) = true) ->
  lz_contigs_nonempty (pushes_of samples) grp ->
  (forall x, In x (all_emit k spl segsize dec grp 0 (pushes_of samples)) -> (fst x < 4294967295)%N) ->
  (forall l, Permutation l (sched l)) ->
  ops_carry (all_emit k spl segsize dec grp 0 (pushes_of samples)) gops ->
  (forall g, (lenN (filter (fun x => fst x =? g) (all_emit k spl segsize dec grp 0 (pushes_of samples))) < 2147483647)%N) ->
  (forall st coll stored,
     run (mc_lz_enc mml) (mc_cref zc) (mc_cpack zc level) gops = Ok st ->
     create ecn k spl segsize dec (mc_store_addr k spl segsize dec grp (pushes_of samples) st) sched (pushes_of samples)
       = Ok (coll, stored) ->
     Forall (Collection_proofs.batch_small zc segsize k)
       (Collection_proofs.chunks (length (mc_cat_of coll)) (N.to_nat W_CATALOGUE_BATCH) (mc_cat_of coll))) ->
  (forall b, model_build zc ecn k mml segsize level spl dec grp sched gops fti samples = Ok b ->
     parts_meta_u64 (b_wops b) /\ (lenN (b_file b) <= spec_max_off)%N) ->
  exists b, model_build zc ecn k mml segsize level spl dec grp sched gops fti samples = Ok b /\
            decode zd (b_file b) = Ok samples.
Proof. exact Total_proofs.grand_roundtrip_inputs_proof. Qed.
Print Assumptions grand_roundtrip_inputs.

(* ======================================================================== non-vacuity
   the instance of props/C01G.v grand_roundtrip_nonvacuous (two samples, three contigs, k = 3, splitter AAA, a split
   segment, an AssignToLeft, reversed arrival order, raw group 3 and LZ groups 16 / 17, two store rounds, toy zstd):
   every hypothesis of grand_roundtrip_total (hence of model_build_succeeds and grp_bound_from_catalogue) holds; the
   residual conditions are discharged from what C01G computed for the one value the writer can return. *)
Example grand_roundtrip_total_nonvacuous :
  (forall l x, SegCompress_proofs.toy_zd (SegCompress_proofs.toy_zc l x) = Some x) /\
  (forall l x, SegCompress_proofs.toy_zc l x <> []) /\
  (NoDup (map fst C01.ex_samples) /\ Forall (fun s : name * list (name * list N) => fst s <> [] /\ snd s <> []) C01.ex_samples) /\
  Forall (fun s : name * list (name * list N) => NoDup (map fst (snd s))) C01.ex_samples /\
  inputs_in_dom 4 (pushes_of C01.ex_samples) /\
  decisions_ok 3 (set_of_list [0]) 60 C01.ex_dec (pushes_of C01.ex_samples) /\
  lz_contigs_nonempty (pushes_of C01.ex_samples) C01.ex_grp /\
  (forall l : list registration, Permutation l (rev l)) /\
  ops_carry (all_emit 3 (set_of_list [0]) 60 C01.ex_dec C01.ex_grp 0 (pushes_of C01.ex_samples)) C01.ex_store_ops /\
  (forall g, (lenN (filter (fun x : N * seg_in => fst x =? g)
                      (all_emit 3 (set_of_list [0]) 60 C01.ex_dec C01.ex_grp 0 (pushes_of C01.ex_samples))) + 2 < two32)%N) /\
  (forall st coll stored,
     run (mc_lz_enc 4) (mc_cref SegCompress_proofs.toy_zc) (mc_cpack SegCompress_proofs.toy_zc 17) C01.ex_store_ops = Ok st ->
     create (fun c => c) 3 (set_of_list [0]) 60 C01.ex_dec
            (mc_store_addr 3 (set_of_list [0]) 60 C01.ex_dec C01.ex_grp (pushes_of C01.ex_samples) st) (@rev registration)
            (pushes_of C01.ex_samples) = Ok (coll, stored) ->
     catalogue_in_dom SegCompress_proofs.toy_zc 60 3 (mc_cat_of coll)) /\
  (forall b, C01G.ex_build = Ok b -> parts_meta_u64 (b_wops b) /\ (lenN (b_file b) <= spec_max_off)%N) /\
  (* the additional hypotheses of catalogue_in_dom_from_inputs / grand_roundtrip_inputs *)
  (lenN C01.ex_samples < 4294967296)%N /\
  Forall (fun s : name * list (name * list N) => name_bytes_ok (fst s) /\ (lenN (snd s) < 4294967296)%N /\
            Forall (fun c : name * list N => name_bytes_ok (fst c) /\ (2 * (lenN (snd c) + 1) < 4294967296)%N) (snd s)) C01.ex_samples /\
  (forall x, In x (all_emit 3 (set_of_list [0]) 60 C01.ex_dec C01.ex_grp 0 (pushes_of C01.ex_samples)) -> (fst x < 4294967295)%N) /\
  (forall g, (lenN (filter (fun x : N * seg_in => fst x =? g)
                      (all_emit 3 (set_of_list [0]) 60 C01.ex_dec C01.ex_grp 0 (pushes_of C01.ex_samples))) < 2147483647)%N) /\
  (forall st coll stored,
     run (mc_lz_enc 4) (mc_cref SegCompress_proofs.toy_zc) (mc_cpack SegCompress_proofs.toy_zc 17) C01.ex_store_ops = Ok st ->
     create (fun c => c) 3 (set_of_list [0]) 60 C01.ex_dec
            (mc_store_addr 3 (set_of_list [0]) 60 C01.ex_dec C01.ex_grp (pushes_of C01.ex_samples) st) (@rev registration)
            (pushes_of C01.ex_samples) = Ok (coll, stored) ->
     Forall (Collection_proofs.batch_small SegCompress_proofs.toy_zc 60 3)
       (Collection_proofs.chunks (length (mc_cat_of coll)) (N.to_nat W_CATALOGUE_BATCH) (mc_cat_of coll))).
Proof.
  destruct C01G.grand_roundtrip_nonvacuous as (b0 & Hb0 & Hzd & Hzc & Hin & Hdom & Hdec & Hlz & _ & Hsched & Hcarry & Hcat & Hmeta & Hfile & _).
  assert (HcatAll : forall st coll stored,
     run (mc_lz_enc 4) (mc_cref SegCompress_proofs.toy_zc) (mc_cpack SegCompress_proofs.toy_zc 17) C01.ex_store_ops = Ok st ->
     create (fun c => c) 3 (set_of_list [0]) 60 C01.ex_dec
            (mc_store_addr 3 (set_of_list [0]) 60 C01.ex_dec C01.ex_grp (pushes_of C01.ex_samples) st) (@rev registration)
            (pushes_of C01.ex_samples) = Ok (coll, stored) ->
     catalogue_in_dom SegCompress_proofs.toy_zc 60 3 (mc_cat_of coll)).
  { intros st coll stored Hrun Hc. unfold C01G.ex_build in Hb0.
    destruct (model_build_inv _ _ _ _ _ _ _ _ _ _ _ _ _ _ Hb0) as (st' & coll' & stored' & cw & a & Hrun' & Hc' & _ & Eb).
    rewrite Hrun in Hrun'. apply Grand_proofs.ok_inj in Hrun'. subst st'.
    rewrite Hc in Hc'. apply Grand_proofs.ok_inj in Hc'.
    assert (Ecoll : coll = coll') by (exact (f_equal fst Hc')). rewrite Eb in Hcat. cbn [b_coll] in Hcat. rewrite Ecoll. exact Hcat. }
  assert (Hlen8 : lenN (all_emit 3 (set_of_list [0]) 60 C01.ex_dec C01.ex_grp 0 (pushes_of C01.ex_samples)) = 8%N)
    by (vm_compute; reflexivity).
  split; [exact Hzd|]. split; [exact Hzc|]. split; [exact Hin|].
  split; [repeat constructor; cbn; intuition discriminate|].
  split; [exact Hdom|]. split; [exact Hdec|]. split; [exact Hlz|]. split; [exact Hsched|]. split; [exact Hcarry|].
  split. { apply Total_proofs.per_group_from_total. rewrite Hlen8. reflexivity. }
  split; [exact HcatAll|].
  split. { intros b Hb. rewrite Hb0 in Hb. apply Grand_proofs.ok_inj in Hb. subst b. split; [exact Hmeta|exact Hfile]. }
  split; [vm_compute; reflexivity|].
  split. { assert (E : forallb (fun s : name * list (name * list N) =>
                          forallb (fun b => (1 <=? b) && (b <? 128)) (fst s) && (lenN (snd s) <? 4294967296) &&
                          forallb (fun c : name * list N => forallb (fun b => (1 <=? b) && (b <? 128)) (fst c) &&
                                                            (2 * (lenN (snd c) + 1) <? 4294967296)) (snd s)) C01.ex_samples = true)
             by (vm_compute; reflexivity).
           assert (Hnb : forall n : list N, forallb (fun b => (1 <=? b) && (b <? 128)) n = true -> name_bytes_ok n).
           { intros n Hn. eapply Collection_proofs.forallb_Forall; [|exact Hn]. intros x Hx. cbn beta in Hx.
             apply andb_true_iff in Hx. destruct Hx as [H1 H2]. apply N.leb_le in H1. apply N.ltb_lt in H2. split; assumption. }
           eapply Collection_proofs.forallb_Forall; [|exact E]. intros s Hs. cbn beta in Hs.
           apply andb_true_iff in Hs. destruct Hs as [Hs H3]. apply andb_true_iff in Hs. destruct Hs as [H1 H2].
           split; [exact (Hnb _ H1)|]. split; [apply N.ltb_lt; exact H2|].
           eapply Collection_proofs.forallb_Forall; [|exact H3]. intros c Hc. cbn beta in Hc.
           apply andb_true_iff in Hc. destruct Hc as [H4 H5]. split; [exact (Hnb _ H4)|apply N.ltb_lt; exact H5]. }
  split. { assert (E : forallb (fun x : N * seg_in => fst x <? 4294967295)
                         (all_emit 3 (set_of_list [0]) 60 C01.ex_dec C01.ex_grp 0 (pushes_of C01.ex_samples)) = true)
             by (vm_compute; reflexivity).
           rewrite forallb_forall in E. intros x Hx. apply N.ltb_lt. exact (E x Hx). }
  split. { intro g. apply N.le_lt_trans with (lenN (all_emit 3 (set_of_list [0]) 60 C01.ex_dec C01.ex_grp 0 (pushes_of C01.ex_samples))).
           - apply Total_proofs.per_group_le_total.
           - rewrite Hlen8. reflexivity. }
  intros st coll stored Hrun Hc. destruct (HcatAll st coll stored Hrun Hc) as (_ & _ & Hb).
  eapply Forall_impl; [|exact Hb]. intros B (_ & _ & HB). exact HB.
Qed.
