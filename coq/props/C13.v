From Ragc Require Import Mach Consts_archive Varint Container Varint_proofs Container_proofs.
(* C13  Archive container returns exactly what was stored.  For any sequence of stream registrations and
   immediate or buffered part additions that is flushed and closed, reopening the file lists the same stream
   names with the same ids, the same number of parts per stream in commit order, and each non-empty part's
   bytes and metadata exactly; empty parts read back empty with metadata 0.  Registering a name twice returns
   the same id; sizes, offsets and metadata of any magnitude up to 2^64-1 survive.
   Model: model/Varint.v, model/Container.v (writer, reader, abstract spec: the sp_ definitions). *)

(* length-prefixed big-endian integer: every u64, with any bytes behind it; bytes_read = encoded length *)
Theorem varint_roundtrip : forall v rest, v < two64 ->
  read_varint (write_varint v ++ rest) = Ok (v, lenN (write_varint v), rest).
Proof. exact Varint_proofs.varint_roundtrip_proof. Qed.
Print Assumptions varint_roundtrip.
Example varint_roundtrip_nonvacuous :
  18446744073709551615 < two64 /\ write_varint 18446744073709551615 = [8; 255; 255; 255; 255; 255; 255; 255; 255] /\
  write_varint 0 = [0] /\ write_varint 256 = [2; 1; 0].
Proof. vm_compute. repeat split; reflexivity. Qed.

Theorem varint_bytes : forall v, v < two64 -> bytes (write_varint v) /\ 1 <= lenN (write_varint v) <= 9.
Proof. intros v H. split; [exact (Varint_proofs.write_varint_bytes v H) | exact (Varint_proofs.write_varint_len v H)]. Qed.
Print Assumptions varint_bytes.

Theorem fixed_u64_roundtrip : forall v rest, v < two64 ->
  read_fixed_u64 (write_fixed_u64 v ++ rest) = Ok (v, rest) /\ length (write_fixed_u64 v) = 8%nat.
Proof. exact Varint_proofs.fixed_u64_roundtrip_proof. Qed.
Print Assumptions fixed_u64_roundtrip.
Example fixed_u64_nonvacuous : write_fixed_u64 258 = [2; 1; 0; 0; 0; 0; 0; 0] /\ 258 < two64.
Proof. vm_compute. split; reflexivity. Qed.

(* registering a name twice returns the same id and changes nothing - in every writer state *)
Theorem register_idempotent : forall w name,
  let (w1, id1) := register_stream w name in
  let (w2, id2) := register_stream w1 name in
  id2 = id1 /\ w2 = w1.
Proof. exact Container_proofs.register_idempotent_proof. Qed.
Print Assumptions register_idempotent.

(* the container refines its abstract specification: for EVERY history (any number of streams and parts, any
   data, metadata and raw sizes < 2^64, unknown stream ids, flushes anywhere or nowhere) whose finished file is
   shorter than 2^64 bytes and within the file system's largest offset,
     - every operation returns what the spec says (ids of registrations, Ok/Err of add_part and flush_buffers),
     - reopening the bytes written by close succeeds (and allocates exactly the footer),
     - the directory lists the spec's streams: same names at the same ids, raw sizes, part counts,
     - name lookup returns the spec's id,
     - every sequence of get_part / get_part_by_id calls, in any order, returns what the spec returns: the
       stored (data, metadata) in commit order, ([], 0) for an empty part, Ok None at the end of a stream, Err
       for an unknown stream or part id.
   The spec (Container.sp_step) commits immediate additions at call time and buffered ones at the next flush in
   stable stream-id order; parts still buffered at close are NOT in the archive (close does not flush). *)
Theorem container_refines_spec : forall ops max_off, Forall wop_wf ops ->
  let w := fst (wrun w_init ops) in
  let s := fst (sp_run sp_init ops) in
  lenN (close w) < two64 -> lenN (close w) <= max_off ->
  snd (wrun w_init ops) = snd (sp_run sp_init ops) /\
  exists rd, deserialize max_off (close w) = ([lenN (footer_of w)], Ok rd) /\
    directory rd = sp_directory s /\
    (forall name, get_stream_id rd name = sp_find name 0 (sp_streams s)) /\
    (forall rops, map snd (rrun max_off rd rops) = sp_rrun (sp_read_init s) rops).
Proof. exact Container_proofs.container_refines_spec_proof. Qed.
Print Assumptions container_refines_spec.

Definition ex_ops : list wop :=
  [WRegister [97]; WRegister [98]; WRegister [97];
   WAddBuf 1 [1; 2] 7; WAddBuf 0 [3] 18446744073709551615; WAdd 1 [] 5; WAddBuf 1 [4] 256; WAdd 9 [5] 1;
   WSetRaw 0 65536; WFlush].
Example container_refines_spec_nonvacuous :
  Forall wop_wf ex_ops /\ lenN (close (fst (wrun w_init ex_ops))) < two64 /\
  snd (wrun w_init ex_ops) = [WId 0; WId 1; WId 0; WNone; WNone; WOk; WNone; WErr; WNone; WOk] /\
  sp_directory (fst (sp_run sp_init ex_ops)) = [([97], 65536, 1); ([98], 0, 3)] /\
  sp_rrun (sp_read_init (fst (sp_run sp_init ex_ops))) [RGet 1; RById 0 0; RGet 1; RGet 1; RGet 1; RById 1 3; RGet 2] =
    [Ok (Some ([], 0)); Ok (Some ([3], 18446744073709551615)); Ok (Some ([1; 2], 7)); Ok (Some ([4], 256)); Ok None; Err; Err].
Proof.
  split.
  { unfold ex_ops. repeat first [apply Forall_nil | apply Forall_cons | split | exact I
                               | (vm_compute; reflexivity) | (vm_compute; discriminate)]. }
  vm_compute. repeat split; reflexivity.
Qed.
(* close does not flush: a part that is still buffered at close is not in the archive *)
Example close_drops_unflushed :
  directory_of_file (close (fst (wrun w_init [WRegister [97]; WAddBuf 0 [1] 1]))) = Some [([97], 0, 0)].
Proof. vm_compute. reflexivity. Qed.

(* after a flush nothing is left buffered: with a flush before close every accepted part is in the archive *)
Theorem flush_commits_everything : forall ops s, sp_pending (fst (sp_run s (ops ++ [WFlush]))) = [].
Proof. exact Container_proofs.flush_commits_everything_proof. Qed.
Print Assumptions flush_commits_everything.
