From Ragc Require Import Mach Consts_archive Consts_collection Consts_agcv3 Consts_open.
From Ragc Require Import Varint Container CVarint Names Collection OpenStage OpenStage_proofs.
Local Open Scope N_scope.
(* C14O (second stage of C14)  A partially written archive is rejected cleanly: any strict prefix of a valid archive
   file is refused by open with an error value - never a panic, a hang, an attempt to allocate a garbage-sized
   buffer, or a handle from which samples can be read.
   Model: OpenStage.open2 pf max_off zd file = Decompressor::open (verbosity 0) on an ARBITRARY byte string:
   Container.deserialize (Archive::open, props/C14.v), load_params, prepare_for_decompression,
   load_batch_sample_names (get_part, zstd, size test, CollectionVarInt count, NUL-terminated UTF-8 strings).
   pf = build profile (Dev traps on integer overflow, Release wraps - proved irrelevant below), zd = zstd::decode_all as a total function
   (None = error), max_off = the file system's largest offset.  Result: (allocation log, O2ok handle | O2err code |
   O2panic); decompressor_open pf zd file = the Ok/Err/Panic view at max_off = 2^64-1.  No fuel anywhere in stage two:
   every loop is structural on the decoded stream (the count is clamped to the bytes left, Names.clamp), so "never
   a hang" is by construction. *)

(* ---------------------------------------------------------------- never a panic *)
(* for ALL byte strings, all zstd behaviours, every file system, BOTH profiles.  (The code today: CollectionVarInt's
   5-byte form adds THR_4 with checked_add and returns an error, /repo 4d083e0; translator item CV5_ADD_FORM = 2,
   pinned below.)  Nothing in stage two can panic: not the params indexing, not the string slicing, not
   get_part_by_id's expect, not the varint arithmetic. *)
Theorem open2_total_safe : forall pf max_off zd file, snd (open2 pf max_off zd file) <> O2panic.
Proof. exact OpenStage_proofs.open2_total_safe_proof. Qed.
Print Assumptions open2_total_safe.

(* ... and the build profile is irrelevant: same result, same allocation log *)
Theorem open2_profile_independent : forall max_off zd file, open2 Dev max_off zd file = open2 Release max_off zd file.
Proof. exact OpenStage_proofs.open2_profile_independent_proof. Qed.
Print Assumptions open2_profile_independent.

(* both hold for ANY repaired form of the addition (1 = wrapping_add, anything else = checked_add + error);
   open2 pf = open2_f CV5_ADD_FORM pf *)
Theorem open2_total_safe_if_repaired : forall form, form <> 0 ->
  forall pf max_off zd file, snd (open2_f form pf max_off zd file) <> O2panic.
Proof. exact OpenStage_proofs.open2_total_safe_if_repaired_proof. Qed.
Print Assumptions open2_total_safe_if_repaired.

(* ---------------------------------------------------------------- the defect that was there (fixed in /repo 4d083e0) *)
Definition wit_params : list N := [21; 0; 0; 0; 20; 0; 0; 0; 50; 0; 0; 0; 232; 3; 0; 0].
(* a complete archive written by the model of ragc_common::Archive: four streams, a 16-byte params part, one
   collection-samples part [frame] with metadata [raw] *)
Definition wit_file (frame : list N) (raw : N) : list N :=
  close (fst (wrun w_init [WRegister R_NAME_COLL_0; WRegister R_NAME_COLL_1; WRegister R_NAME_COLL_2;
                           WRegister R_NAME_PARAMS; WAdd 3 wit_params 0; WAdd 0 frame raw])).
(* a toy zstd: [frame] decompresses to [v], nothing else is a frame *)
Definition wit_zd (frame v : list N) (f : list N) : option (list N) :=
  if list_eqb N.eqb f frame then Some v else None.

(* with the OLD form of the addition (form 0: `num += Self::THR_4`) "never a panic" was false: a complete 113-byte
   archive whose sample-name stream starts with the 5-byte count f0 ff ff ff ff made the dev profile trap
   ("attempt to add with overflow") while release wrapped and reported "Null terminator not found".  Was reproduced
   on the real code (harness c14o: craft shm 15.1.0.0.0 <params> f0ffffffff 0 -> P in dev).  The same file now gets
   the error value "Invalid 5-byte varint: value exceeds u32" in both profiles (regression cases in
   corpus/c14o.cases). *)
Theorem open2_old_form_refuted : exists zd file,
  lenN file = 113 /\ (exists rd, snd (deserialize max_u64 file) = Ok rd) /\
  snd (open2_f 0 Dev max_u64 zd file) = O2panic /\
  snd (open2_f 0 Release max_u64 zd file) = O2err e_no_nul /\
  snd (open2 Dev max_u64 zd file) = O2err e_varint_range /\ snd (open2 Release max_u64 zd file) = O2err e_varint_range.
Proof.
  exists (wit_zd [1; 2; 3] [240; 255; 255; 255; 255]), (wit_file [1; 2; 3] 5).
  split; [vm_compute; reflexivity|]. split; [eexists; vm_compute; reflexivity|]. repeat split; vm_compute; reflexivity.
Qed.
Print Assumptions open2_old_form_refuted.
(* the smallest overflowing count, 0xEFDFBF80: the old dev build panicked, the old release build wrapped the count to
   0 and returned a handle with an empty sample list (was: craft .. f0efdfbf80 0 -> `O:21:20:` in release, P in dev) *)
Example old_release_wrapped_count_to_zero :
  let zd := wit_zd [1; 2; 3] [240; 239; 223; 191; 128] in
  let file := wit_file [1; 2; 3] 5 in
  snd (open2_f 0 Dev max_u64 zd file) = O2panic /\
  (exists h, snd (open2_f 0 Release max_u64 zd file) = O2ok h /\ h_samples h = []) /\
  decompressor_open Dev zd file = Err /\ decompressor_open Release zd file = Err.
Proof.
  cbv zeta. split; [vm_compute; reflexivity|]. split; [eexists; split; vm_compute; reflexivity|].
  split; vm_compute; reflexivity.
Qed.

(* exactly when ANY form panics: only form 0, only the dev profile, only when everything before the sample table
   succeeds and the decompressed stream starts with a 5-byte count whose value + 270549120 leaves u32: first byte
   0xF0..0xFF, next four bytes big-endian >= 0xEFDFBF80 (cv5_overflows) *)
Theorem open2_old_form_panic_iff : forall form pf max_off zd file,
  snd (open2_f form pf max_off zd file) = O2panic <->
  form = 0 /\ pf = Dev /\ exists st, snd (open_pre max_off zd file) = O2ok st /\ cv5_overflows (ps_stream st) = true.
Proof. exact OpenStage_proofs.open2_old_form_panic_iff_proof. Qed.
Print Assumptions open2_old_form_panic_iff.
Example cv5_overflows_is : cv5_overflows [240; 239; 223; 191; 128] = true /\ cv5_overflows [240; 239; 223; 191; 127] = false /\
  cv5_overflows [255; 255; 255; 255; 255; 0] = true /\ cv5_overflows [239; 255; 255; 255; 255] = false.
Proof. vm_compute. repeat split; reflexivity. Qed.

(* the repair is conservative: on every file whose sample-name count is in range, all forms and both profiles
   return the same thing, allocation log included - the fix changed the answer only where the old code misbehaved *)
Theorem open2_repair_conservative : forall max_off zd file,
  (forall st, snd (open_pre max_off zd file) = O2ok st -> cv5_overflows (ps_stream st) = false) ->
  forall form pf form' pf', open2_f form pf max_off zd file = open2_f form' pf' max_off zd file.
Proof. exact OpenStage_proofs.open2_repair_conservative_proof. Qed.
Print Assumptions open2_repair_conservative.
Example conservative_nonvacuous :
  let zd := wit_zd [9] [2; 115; 48; 0; 115; 49; 0] in
  let file := wit_file [9] 7 in
  (forall st, snd (open_pre max_u64 zd file) = O2ok st -> cv5_overflows (ps_stream st) = false) /\
  exists h, snd (open2 Dev max_u64 zd file) = O2ok h /\ h_samples h = [[115; 48]; [115; 49]] /\
            h_kmer_length h = 21 /\ h_min_match_len h = 20 /\ h_segment_size h = 1000.
Proof.
  cbv zeta. split.
  - intros st H. vm_compute in H. inversion H; subst. vm_compute. reflexivity.
  - eexists. split; [vm_compute; reflexivity|]. vm_compute. repeat split; reflexivity.
Qed.

(* never a hang: stage two has no fuel.  The one loop whose count comes from the input, `for i in 0..no_samples`,
   is run min(no_samples, bytes left + 1) times by the model (Names.clamp keeps the unary counter small); that is
   EXACTLY the loop with no_samples iterations - every iteration consumes a byte or fails *)
Theorem open2_loop_is_count_loop : forall pf v count ptr, cv_decode_p pf v = Ok (count, ptr) ->
  deser_sample_names_p pf v = dec_names (N.to_nat count) 0 ptr.
Proof. exact OpenStage_proofs.open2_loop_is_count_loop_proof. Qed.
Print Assumptions open2_loop_is_count_loop.
Example loop_nonvacuous : cv_decode_p Release [240; 0; 0; 0; 5; 97; 0] = Ok (270549125%N, [97; 0]) /\
  snd (deser_sample_names_p Release [240; 0; 0; 0; 5; 97; 0]) = O2err e_no_nul.
Proof. vm_compute. split; reflexivity. Qed.

(* ---------------------------------------------------------------- never a garbage-sized buffer *)
(* the log is: buffers sized from file content (footer, params part, sample part), each at most the FILE length;
   then possibly the stream zstd returned for a frame that is itself at most the file length - its size is
   whatever zstd says (a small frame can expand: not bounded by the file, and zstd's own working memory is
   outside the model); then name buffers and table sizes, each below the length of THAT DECODED STREAM.  Nothing
   is sized from the decoded count. *)
Theorem open2_alloc_bounded : forall pf max_off zd file,
  exists fl zl, fst (open2 pf max_off zd file) = map AFile fl ++ zl /\
    Forall (fun n => n <= lenN file) fl /\
    (zl = [] \/
     exists frame v nl, zl = AZstd (lenN v) :: nl /\ zd frame = Some v /\ lenN frame <= lenN file /\
                        Forall (stream_alloc_ok (lenN v)) nl).
Proof. exact OpenStage_proofs.open2_alloc_bounded_proof. Qed.
Print Assumptions open2_alloc_bounded.

(* ---------------------------------------------------------------- what a handle means *)
(* if open returns a handle then its sample list (list_samples) is the decoded sample-name table of the stream
   that open_pre produced, and its parameters are the params fields *)
Theorem open2_ok_means_listable : forall pf max_off zd file h,
  snd (open2 pf max_off zd file) = O2ok h ->
  exists st ns, snd (open_pre max_off zd file) = O2ok st /\
    snd (deser_sample_names_p pf (ps_stream st)) = O2ok ns /\
    h_samples h = ns /\
    h_coll h = coll_of_names (ps_segment_size st) (ps_kmer_length st) ns /\
    h_segment_size h = ps_segment_size st /\ h_kmer_length h = ps_kmer_length st /\
    h_min_match_len h = ps_min_match_len st /\ h_reader h = ps_reader st.
Proof. exact OpenStage_proofs.open2_ok_means_listable_proof. Qed.
Print Assumptions open2_ok_means_listable.

(* "the decoded sample-name table" is the C03 decoder's (Names.deser_sample_names, tied to the code by C03), and
   the collection state is Collection.deserialize_sample_names' *)
Theorem open2_names_are_c03_decoder : forall pf v,
  cv5_overflows v = false ->
  o2_outcome (snd (deser_sample_names_p pf v)) = deser_sample_names v /\
  forall ss k, obnd (deser_sample_names v) (fun ns => Ok (coll_of_names ss k ns)) =
               deserialize_sample_names (coll_new ss k) v.
Proof. exact OpenStage_proofs.open2_names_are_c03_decoder_proof. Qed.
Print Assumptions open2_names_are_c03_decoder.

(* exactly which files get as far as the sample table: Archive::open accepts; the directory has a stream "params"
   with exactly one part of at least 12 bytes (fields = k, min_match_len, -, segment_size or 60000); it has
   "collection-samples", "-contigs", "-details"; the first part of collection-samples is a frame zstd accepts and
   whose decompressed length equals the part's metadata *)
Theorem open2_ok_iff : forall max_off zd file st,
  snd (open_pre max_off zd file) = O2ok st <->
  exists rd sidp pdata pmeta sids frame raw,
    snd (deserialize max_off file) = Ok rd /\
    get_stream_id rd R_NAME_PARAMS = Some sidp /\ get_num_parts rd sidp = 1 /\
    snd (get_part_by_id max_off rd sidp 0) = Ok (Some (pdata, pmeta)) /\ 12 <= lenN pdata /\
    (ps_segment_size st, ps_kmer_length st, ps_min_match_len st) = params_fields pdata /\
    get_stream_id rd R_NAME_COLL_0 = Some sids /\
    get_stream_id rd R_NAME_COLL_1 <> None /\ get_stream_id rd R_NAME_COLL_2 <> None /\
    snd (snd (get_part max_off rd sids)) = Ok (Some (frame, raw)) /\
    ps_reader st = fst (get_part max_off rd sids) /\
    zd frame = Some (ps_stream st) /\ lenN (ps_stream st) = raw.
Proof. exact OpenStage_proofs.open_pre_ok_iff_proof. Qed.
Print Assumptions open2_ok_iff.

(* the file system's largest offset is irrelevant once the file fits on it *)
Theorem open2_max_off_irrelevant : forall pf mo1 mo2 zd file, lenN file <= mo1 -> lenN file <= mo2 ->
  open2 pf mo1 zd file = open2 pf mo2 zd file.
Proof. exact OpenStage_proofs.open2_max_off_irrelevant_proof. Qed.
Print Assumptions open2_max_off_irrelevant.

(* ---------------------------------------------------------------- prefixes *)
(* a file is refused (error value, both profiles) unless each of the four stream names, NUL-terminated, occurs in
   the directory region it claims (the bytes before the trailing 8-byte length, of that length) - a fortiori in
   the file.  For a prefix of an archive: as long as the cut lies before the end of the LAST of the four names
   in the real directory, and the data area does not happen to contain them, the prefix is refused. *)
Theorem open2_requires_names : forall pf max_off zd file,
  (exists nm, In nm required_names /\
     (infixb (nm ++ [0])
             (let fsz := le_value (skipnN (lenN file - 8) file) in firstnN fsz (skipnN (lenN file - 8 - fsz) file)) = false \/
      infixb (nm ++ [0]) file = false)) ->
  exists e, snd (open2 pf max_off zd file) = O2err e.
Proof. exact OpenStage_proofs.open2_requires_names_proof. Qed.
Print Assumptions open2_requires_names.

(* "every strict prefix is refused" is not a theorem (props/C14.v prefix_in_footer_accepted_refuted: depends on the
   data bytes); it is enumerated per archive by checks/c14o.py.  Proved, for every byte string and every cut, in
   both profiles: the prefix gets an error value when (1) Archive::open's length test refuses it (C14), or (2)
   one of the four names is not in the prefix, or (3) Archive::open accepts it but the directory it parses lacks
   params / has not exactly one params part / lacks a collection stream. *)
Theorem prefix_rejected_open2_partial : forall pf bs n max_off zd, n <= lenN bs ->
  let p := firstnN n bs in
  (n < 8 \/ n - 8 < le_value (skipnN (n - 8) p)) \/
  (exists nm, In nm required_names /\ infixb (nm ++ [0]) p = false) \/
  (exists rd, snd (deserialize max_off p) = Ok rd /\
     (get_stream_id rd R_NAME_PARAMS = None \/
      (exists sid, get_stream_id rd R_NAME_PARAMS = Some sid /\ get_num_parts rd sid <> 1) \/
      get_stream_id rd R_NAME_COLL_0 = None \/ get_stream_id rd R_NAME_COLL_1 = None \/
      get_stream_id rd R_NAME_COLL_2 = None)) ->
  exists e, snd (open2 pf max_off zd p) = O2err e.
Proof. exact OpenStage_proofs.prefix_rejected_open2_partial_proof. Qed.
Print Assumptions prefix_rejected_open2_partial.
(* the strict prefix that Archive::open ACCEPTS (props/C14.v: 19 bytes of a 34-byte archive, parsed as an archive
   with no streams) is refused by stage two: no params stream; and every strict prefix of the witness archive
   above lacks one of the names or fails the length test *)
Example prefix_rejected_open2_nonvacuous :
  let a := close (fst (wrun w_init [WRegister [97]; WSetRaw 0 144116287587483648%N; WAdd 0 [] 0; WAdd 0 [] 0])) in
  (exists rd, snd (deserialize max_u64 (firstnN 19 a)) = Ok rd /\ get_stream_id rd R_NAME_PARAMS = None) /\
  snd (open2 Dev max_u64 (fun _ => None) (firstnN 19 a)) = O2err e_no_params /\
  let b := wit_file [9] 7 in
  lenN b = 111 /\
  forallb (fun n => (n <? 8) || (n - 8 <? le_value (skipnN (n - 8) (firstnN n b))) ||
                    negb (forallb (fun nm => infixb (nm ++ [0]) (firstnN n b)) required_names))
          (map N.of_nat (seq 0 111)) = true.
Proof.
  cbv zeta. split; [eexists; split; vm_compute; reflexivity|]. split; [vm_compute; reflexivity|].
  split; vm_compute; reflexivity.
Qed.

(* ---------------------------------------------------------------- the other half: the COMPLETE file opens (with C13) *)
(* for every well-formed history of the Archive writer (C13's refinement theorem gives the directory and the parts
   of the closed file): if the archive content - in the abstract container state - has a params stream with one
   part of at least 12 bytes, the three collection streams, and a non-empty first collection-samples part that
   zstd decodes to a stream of the recorded length whose table decodes to ns, then open returns a handle that
   lists exactly ns, with the params fields.  (That ragc's create produces such a history is C01G/C02B's
   writer_conforms; here the history is arbitrary.) *)
Theorem open2_complete_archive_ok : forall ops max_off zd pf, Forall wop_wf ops ->
  let w := fst (wrun w_init ops) in
  let s := fst (sp_run sp_init ops) in
  lenN (close w) < two64 -> lenN (close w) <= max_off ->
  forall sidp pdata pmeta sids frame raw rest v ns,
  sp_find R_NAME_PARAMS 0 (sp_streams s) = Some sidp ->
  option_map ss_parts (nthN (sp_streams s) sidp) = Some [(pdata, pmeta)] -> 12 <= lenN pdata ->
  sp_find R_NAME_COLL_0 0 (sp_streams s) = Some sids ->
  option_map ss_parts (nthN (sp_streams s) sids) = Some ((frame, raw) :: rest) -> frame <> [] ->
  sp_find R_NAME_COLL_1 0 (sp_streams s) <> None -> sp_find R_NAME_COLL_2 0 (sp_streams s) <> None ->
  zd frame = Some v -> lenN v = raw ->
  snd (deser_sample_names_p pf v) = O2ok ns ->
  exists h, snd (open2 pf max_off zd (close w)) = O2ok h /\ h_samples h = ns /\
            (h_segment_size h, h_kmer_length h, h_min_match_len h) = params_fields pdata.
Proof. exact OpenStage_proofs.open2_complete_archive_ok_proof. Qed.
Print Assumptions open2_complete_archive_ok.
Example complete_archive_nonvacuous :
  let ops := [WRegister R_NAME_COLL_0; WRegister R_NAME_COLL_1; WRegister R_NAME_COLL_2; WRegister R_NAME_PARAMS;
              WAdd 3 wit_params 0; WAdd 0 [9] 7] in
  let s := fst (sp_run sp_init ops) in
  Forall wop_wf ops /\ lenN (close (fst (wrun w_init ops))) < two64 /\
  sp_find R_NAME_PARAMS 0 (sp_streams s) = Some 3 /\
  option_map ss_parts (nthN (sp_streams s) 3) = Some [(wit_params, 0)] /\ 12 <= lenN wit_params /\
  sp_find R_NAME_COLL_0 0 (sp_streams s) = Some 0 /\
  option_map ss_parts (nthN (sp_streams s) 0) = Some [([9], 7)] /\
  sp_find R_NAME_COLL_1 0 (sp_streams s) <> None /\ sp_find R_NAME_COLL_2 0 (sp_streams s) <> None /\
  wit_zd [9] [2; 115; 48; 0; 115; 49; 0] [9] = Some [2; 115; 48; 0; 115; 49; 0] /\
  snd (deser_sample_names_p Dev [2; 115; 48; 0; 115; 49; 0]) = O2ok [[115; 48]; [115; 49]].
Proof.
  cbv zeta. split.
  { repeat first [apply Forall_nil | apply Forall_cons | split | exact I
                 | (vm_compute; reflexivity) | (vm_compute; discriminate)]. }
  vm_compute. repeat split; try reflexivity; discriminate.
Qed.

(* ---------------------------------------------------------------- the code facts the model transcribes (translator) *)
Theorem open2_code_shape :
  OPEN_STEP_ORDER = [0; 1; 2; 3] /\ R_PREP_CHECK_ORDER = [0; 1; 2] /\
  R_PARAMS_PART_ID = 0 /\ R_PARAMS_FIELD_BYTES = 4 /\ R_PARAMS_NUM_PARTS = 1 /\ R_PARAMS_MIN_LEN = 12 /\
  R_PARAMS_OFF_K = 0 /\ R_PARAMS_OFF_MML = 4 /\ R_PARAMS_OFF_PACK = 8 /\ R_PARAMS_OFF_SEGSIZE = 12 /\
  R_PARAMS_SEGSIZE_FROM_LEN = 16 /\ R_PARAMS_DEFAULT_SEGSIZE = 60000%N /\
  R_SAMPLES_SEQUENTIAL = true /\ R_SAMPLES_SIZE_CHECK = true /\ R_SAMPLES_PREALLOC_FROM_COUNT = false /\
  CV5_ADD_FORM = 2 /\ cv_thr_4 = 270549120%N /\
  R_STRING_UTF8_STRICT = true /\ R_STRING_TERMINATOR = 0 /\ R_READ_PART_CAN_RETURN_NONE = false /\
  R_NAME_PARAMS = [112; 97; 114; 97; 109; 115] /\
  R_NAME_COLL_0 = [99; 111; 108; 108; 101; 99; 116; 105; 111; 110; 45; 115; 97; 109; 112; 108; 101; 115] /\
  R_NAME_COLL_1 = [99; 111; 108; 108; 101; 99; 116; 105; 111; 110; 45; 99; 111; 110; 116; 105; 103; 115] /\
  R_NAME_COLL_2 = [99; 111; 108; 108; 101; 99; 116; 105; 111; 110; 45; 100; 101; 116; 97; 105; 108; 115].
Proof. repeat split; reflexivity. Qed.
Print Assumptions open2_code_shape.
